/- Lemmas for C19: soundness of `get_root` / `verify_batch` under an injective `merge`
   (a reconstructed root equal to the tree's root forces every supplied leaf to be the tree's). -/
import Wf.Lemmas.MerkleRoot
namespace Wf.Merkle

variable {D : Type}

abbrev Asc (l : List Nat) : Prop := l.Pairwise (· < ·)

theorem sorted_sinsert (k : Nat) : ∀ (s : List Nat), Asc s → Asc (sinsert k s)
  | [], _ => by simp [sinsert]
  | k' :: s, hs => by
    have hs' := List.pairwise_cons.mp hs
    unfold sinsert
    split
    · rename_i hlt
      refine List.pairwise_cons.mpr ⟨?_, hs⟩
      intro a ha
      simp only [List.mem_cons] at ha
      rcases ha with rfl | ha
      · exact hlt
      · exact Nat.lt_trans hlt (hs'.1 a ha)
    · split
      · exact hs
      · rename_i h1 h2
        refine List.pairwise_cons.mpr ⟨?_, sorted_sinsert k s hs'.2⟩
        intro a ha
        rcases (mem_sinsert k s a).mp ha with rfl | ha
        · omega
        · exact hs'.1 a ha

theorem sorted_norm_fold : ∀ (idxs s : List Nat), Asc s →
    Asc (idxs.foldl (fun s i => sinsert (i - i % 2) s) s)
  | [], s, hs => hs
  | i :: idxs, s, hs => by
    simp only [List.foldl_cons]
    exact sorted_norm_fold idxs _ (sorted_sinsert _ s hs)

theorem sorted_normalize (idxs : List Nat) : Asc (normalize idxs) :=
  sorted_norm_fold idxs [] List.Pairwise.nil

/-- in an ascending list, everything after a consumed group has a larger parent -/
theorem parent_lt_pair (x y : Nat) (rest : List Nat) (hs : Asc (x :: y :: rest)) (hy : y = x ^^^ 1) :
    ∀ w ∈ nextIdx rest, x / 2 < w := by
  intro w hw
  obtain ⟨z, hz, rfl⟩ := nextIdx_mem rest w hw
  have h1 := List.pairwise_cons.mp hs
  have h2 := List.pairwise_cons.mp h1.2
  have hxy := h1.1 y (by simp)
  have hyz := h2.1 z hz
  rw [xor_one_eq] at hy
  split at hy <;> omega

theorem parent_lt_single (x : Nat) (l : List Nat) (hs : Asc (x :: l))
    (hne : ∀ y ∈ l.head?, y ≠ x ^^^ 1) : ∀ w ∈ nextIdx l, x / 2 < w := by
  intro w hw
  obtain ⟨z, hz, rfl⟩ := nextIdx_mem l w hw
  have h1 := List.pairwise_cons.mp hs
  have hxz := h1.1 z hz
  cases l with
  | nil => simp at hz
  | cons y rest =>
    have hy := hne y (by simp)
    have hxy := h1.1 y (by simp)
    have h2 := List.pairwise_cons.mp h1.2
    have hyz : y ≤ z := by
      simp only [List.mem_cons] at hz
      rcases hz with rfl | hz
      · exact Nat.le_refl _
      · exact Nat.le_of_lt (h2.1 z hz)
    rw [xor_one_eq] at hy
    split at hy <;> omega

theorem nextIdx_sorted : ∀ (l : List Nat), Asc l → Asc (nextIdx l)
  | [], _ => by simp [nextIdx]
  | [x], _ => by simp [nextIdx]
  | x :: y :: rest, hs => by
    have h1 := List.pairwise_cons.mp hs
    have h2 := List.pairwise_cons.mp h1.2
    unfold nextIdx
    split
    · rename_i hy
      exact List.pairwise_cons.mpr ⟨parent_lt_pair x y rest hs hy, nextIdx_sorted rest h2.2⟩
    · rename_i hy
      refine List.pairwise_cons.mpr ⟨parent_lt_single x (y :: rest) hs ?_, nextIdx_sorted _ h1.2⟩
      intro y' hy'
      simp at hy'; subst hy'; exact hy

section sound
variable {merge : D → D → D} {t : Tree D} {d : Nat} {h : Nat → D}

/-- result of `grNode`, without any assumption on the state -/
theorem grNode_ok (v : AMap D) (log : List (Nat × D)) (x : Nat) (s : D) (r : AMap D × List (Nat × D))
    (hr : grNode merge v log x s = .ok r) :
    ∃ node, AMap.get v x = some node ∧
      r.1 = AMap.insert (x / 2) (if x % 2 ≠ 0 then merge s node else merge node s) v := by
  unfold grNode at hr
  split at hr
  · cases hr
  · rename_i node hn
    simp only [Res.ok.injEq] at hr
    subst hr
    exact ⟨node, hn, rfl⟩

/-- the parent value pins down both children -/
theorem parent_inj (H : Heap merge t d h) (inj : ∀ a b c e, merge a b = merge c e → a = c ∧ b = e)
    (x : Nat) (h1 : 2 ≤ x) (h2 : x < 2 ^ d) (s node : D)
    (hp : (if x % 2 ≠ 0 then merge s node else merge node s) = h (x / 2)) :
    node = h x ∧ s = h (x ^^^ 1) := by
  have hup := heap_step_up H x h1 (by rw [Nat.pow_succ]; omega)
  rw [← hup] at hp
  by_cases hpar : x % 2 = 0
  · simp only [hpar, ne_eq, not_true_eq_false, if_false, if_true] at hp
    exact inj _ _ _ _ hp
  · simp only [hpar, ne_eq, not_false_eq_true, if_true, if_false] at hp
    have := inj _ _ _ _ hp
    exact ⟨this.2, this.1⟩

/-- one level of `get_root` on ARBITRARY proof nodes: the next index list is `nextIdx`, only the
    parents' keys are written, and correct parents force correct children -/
theorem grLevel_sound (H : Heap merge t d h)
    (inj : ∀ a b c e, merge a b = merge c e → a = c ∧ b = e) (pn : List (List D)) (k : Nat)
    (hk : 1 ≤ k) (hkd : k < d) :
    ∀ (idxs : List Nat) (i : Nat) (st : GSt D) (r : GSt D × List Nat),
      grLevel merge pn i idxs st = .ok r → Asc idxs → (∀ y ∈ idxs, 2 ^ k ≤ y ∧ y < 2 ^ (k + 1)) →
      r.2 = nextIdx idxs ∧
      (∀ w, w ∉ nextIdx idxs → AMap.get r.1.v w = AMap.get st.v w) ∧
      ((∀ y' ∈ nextIdx idxs, AMap.get r.1.v y' = some (h y')) →
        ∀ y ∈ idxs, AMap.get st.v y = some (h y))
  | [], i, st, r, hr, _, _ => by
    simp only [grLevel, Res.ok.injEq] at hr
    subst hr
    exact ⟨rfl, fun _ _ => rfl, fun _ y hy => by simp at hy⟩
  | [x], i, st, r, hr, _, hrg => by
    obtain ⟨hx1, hx2⟩ := hrg x (by simp)
    have h2k : 2 ≤ 2 ^ k := by
      have : 2 ^ 1 ≤ 2 ^ k := Nat.pow_le_pow_right (by omega) hk
      simpa using this
    have hle : 2 ^ (k + 1) ≤ 2 ^ d := Nat.pow_le_pow_right (by omega) (by omega)
    unfold grLevel at hr
    split at hr
    · cases hr
    · cases hr
    · rename_i sp hsp
      split at hr
      · cases hr
      · cases hr
      · rename_i vl hvl
        simp only [Res.ok.injEq] at hr
        subst hr
        obtain ⟨node, hn, hv⟩ := grNode_ok _ _ _ _ _ hvl
        refine ⟨by simp [nextIdx], ?_, ?_⟩
        · intro w hw
          simp only [nextIdx, List.mem_singleton] at hw
          simp only [hv, AMap.get_insert, hw, if_false]
        · intro hall y hy
          simp only [List.mem_singleton] at hy
          subst hy
          have := hall (y / 2) (by simp [nextIdx])
          simp only [hv, AMap.get_insert, if_true, Option.some.injEq] at this
          rw [hn, (parent_inj H inj y (by omega) (by omega) _ _ this).1]
  | x :: y :: rest, i, st, r, hr, hs, hrg => by
    obtain ⟨hx1, hx2⟩ := hrg x (by simp)
    have h2k : 2 ≤ 2 ^ k := by
      have : 2 ^ 1 ≤ 2 ^ k := Nat.pow_le_pow_right (by omega) hk
      simpa using this
    have hle : 2 ^ (k + 1) ≤ 2 ^ d := Nat.pow_le_pow_right (by omega) (by omega)
    have hs1 := List.pairwise_cons.mp hs
    have hs2 := List.pairwise_cons.mp hs1.2
    -- keys of this level are not touched by the writes (they go one level up)
    have hkey : ∀ z, (2 ^ k ≤ z ∧ z < 2 ^ (k + 1)) → z ≠ x / 2 := by
      intro z hz; omega
    unfold grLevel at hr
    split at hr
    · -- sibling pair
      rename_i hsib
      split at hr
      · cases hr
      · rename_i s hsv
        split at hr
        · cases hr
        · cases hr
        · rename_i vl hvl
          split at hr
          · cases hr
          · cases hr
          · rename_i r' hr'
            simp only [Res.ok.injEq] at hr
            subst hr
            obtain ⟨node, hn, hv⟩ := grNode_ok _ _ _ _ _ hvl
            obtain ⟨e1, e2, e3⟩ := grLevel_sound H inj pn k hk hkd rest (i + 2) _ r' hr' hs2.2
              (fun z hz => hrg z (by simp [hz]))
            have hlt := parent_lt_pair x y rest hs hsib
            have hnotin : x / 2 ∉ nextIdx rest := fun hm => Nat.lt_irrefl _ (hlt _ hm)
            refine ⟨by simp [nextIdx, hsib, e1], ?_, ?_⟩
            · intro w hw
              simp only [nextIdx, hsib, if_true, List.mem_cons, not_or] at hw
              rw [e2 w hw.2]
              simp only [hv, AMap.get_insert, hw.1, if_false]
            · intro hall z hz
              simp only [nextIdx, hsib, if_true, List.mem_cons] at hall
              have hrest := e3 (fun y' hy' => hall y' (Or.inr hy'))
              have hpx := hall (x / 2) (Or.inl rfl)
              rw [e2 _ hnotin] at hpx
              simp only [hv, AMap.get_insert, if_true, Option.some.injEq] at hpx
              have hpi := parent_inj H inj x (by omega) (by omega) _ _ hpx
              simp only [List.mem_cons] at hz
              rcases hz with rfl | rfl | hz
              · rw [hn, hpi.1]
              · rw [hsib, hsv, hpi.2]
              · have := hrest z hz
                simp only [hv, AMap.get_insert, hkey z (hrg z (by simp [hz])), if_false] at this
                exact this
    · rename_i hsib
      split at hr
      · cases hr
      · cases hr
      · rename_i sp hsp
        split at hr
        · cases hr
        · cases hr
        · rename_i vl hvl
          split at hr
          · cases hr
          · cases hr
          · rename_i r' hr'
            simp only [Res.ok.injEq] at hr
            subst hr
            obtain ⟨node, hn, hv⟩ := grNode_ok _ _ _ _ _ hvl
            obtain ⟨e1, e2, e3⟩ := grLevel_sound H inj pn k hk hkd (y :: rest) (i + 1) _ r' hr' hs1.2
              (fun z hz => hrg z (by simp only [List.mem_cons] at hz ⊢; exact Or.inr hz))
            have hlt := parent_lt_single x (y :: rest) hs
              (by intro y' hy'; simp at hy'; subst hy'; exact hsib)
            have hnotin : x / 2 ∉ nextIdx (y :: rest) := fun hm => Nat.lt_irrefl _ (hlt _ hm)
            refine ⟨by simp [nextIdx, hsib, e1], ?_, ?_⟩
            · intro w hw
              simp only [nextIdx, hsib, if_false, List.mem_cons, not_or] at hw
              rw [e2 w hw.2]
              simp only [hv, AMap.get_insert, hw.1, if_false]
            · intro hall z hz
              simp only [nextIdx, hsib, if_false, List.mem_cons] at hall
              have hrest := e3 (fun y' hy' => hall y' (Or.inr hy'))
              have hpx := hall (x / 2) (Or.inl rfl)
              rw [e2 _ hnotin] at hpx
              simp only [hv, AMap.get_insert, if_true, Option.some.injEq] at hpx
              have hpi := parent_inj H inj x (by omega) (by omega) _ _ hpx
              simp only [List.mem_cons] at hz
              rcases hz with rfl | hz
              · rw [hn, hpi.1]
              · have := hrest z (by simp only [List.mem_cons]; exact hz)
                have hzr := hrg z (by simp only [List.mem_cons]; exact Or.inr hz)
                simp only [hv, AMap.get_insert, hkey z hzr, if_false] at this
                exact this

theorem grLevels_sound (H : Heap merge t d h)
    (inj : ∀ a b c e, merge a b = merge c e → a = c ∧ b = e) (pn : List (List D)) :
    ∀ (k : Nat) (idxs : List Nat) (st st' : GSt D), grLevels merge pn k idxs st = .ok st' →
      Asc idxs → (∀ y ∈ idxs, 2 ^ k ≤ y ∧ y < 2 ^ (k + 1)) → k < d →
      AMap.get st'.v 1 = some (h 1) → ∀ y ∈ idxs, AMap.get st.v y = some (h y)
  | 0, idxs, st, st', hr, _, hrg, _, hroot => by
    simp only [grLevels, Res.ok.injEq] at hr
    subst hr
    intro y hy
    have := hrg y hy
    have e : y = 1 := by simp at this; omega
    subst e; exact hroot
  | k + 1, idxs, st, st', hr, hs, hrg, hk, hroot => by
    unfold grLevels at hr
    split at hr
    · cases hr
    · cases hr
    · rename_i r hr1
      obtain ⟨e1, _, e3⟩ := grLevel_sound H inj pn (k + 1) (by omega) hk idxs 0 st r hr1 hs hrg
      apply e3
      rw [← e1]
      apply grLevels_sound H inj pn k r.2 r.1 st' hr (by rw [e1]; exact nextIdx_sorted idxs hs) ?_
        (by omega) hroot
      intro w hw
      rw [e1] at hw
      obtain ⟨y, hy, rfl⟩ := nextIdx_mem idxs w hw
      have := hrg y hy
      exact half_range y k this.1 this.2

/-- what `grPair` returns comes from the supplied leaves wherever an index is opened -/
theorem grPair_leaf (imap : AMap Nat) (lv : List D) (pn : List (List D)) (i e : Nat)
    (b : D × D × Nat) (hb : grPair imap lv pn i e = .ok b) :
    (∀ j, AMap.get imap e = some j → lv[j]? = some b.1) ∧
    (∀ j, AMap.get imap (e + 1) = some j → lv[j]? = some b.2.1) := by
  unfold grPair at hb
  repeat' split at hb
  all_goals cases hb
  all_goals (refine ⟨fun j hj => ?_, fun j hj => ?_⟩ <;> simp_all)

/-- the leaf level on arbitrary input: keys written, and correct parents force correct pairs -/
theorem grFirst_sound (H : Heap merge t d h)
    (inj : ∀ a b c e, merge a b = merge c e → a = c ∧ b = e) (imap : AMap Nat) (lv : List D)
    (pn : List (List D)) :
    ∀ (rest : List Nat) (i : Nat) (v : AMap D) (log : List (Nat × D)) (r : GSt D × List Nat),
      grFirst merge imap lv pn (2 ^ d) i rest v log = .ok r → Asc rest →
      (∀ e ∈ rest, e % 2 = 0 ∧ e + 1 < 2 ^ d) →
      r.2 = rest.map (fun e => (2 ^ d + e) / 2) ∧
      (∀ w, w ∉ rest.map (fun e => (2 ^ d + e) / 2) → AMap.get r.1.v w = AMap.get v w) ∧
      ((∀ y' ∈ r.2, AMap.get r.1.v y' = some (h y')) →
        ∀ e ∈ rest, (∀ j, AMap.get imap e = some j → lv[j]? = some (h (2 ^ d + e))) ∧
          (∀ j, AMap.get imap (e + 1) = some j → lv[j]? = some (h (2 ^ d + (e + 1)))))
  | [], i, v, log, r, hr, _, _ => by
    simp only [grFirst, Res.ok.injEq] at hr
    subst hr
    exact ⟨rfl, fun _ _ => rfl, fun _ e he => by simp at he⟩
  | e :: rest, i, v, log, r, hr, hs, hrg => by
    obtain ⟨hev, hlt⟩ := hrg e (by simp)
    have hs1 := List.pairwise_cons.mp hs
    have hev2 := pow_even d H.dpos
    unfold grFirst at hr
    split at hr
    · cases hr
    · cases hr
    · rename_i b hb
      split at hr
      · cases hr
      · cases hr
      · rename_i r' hr'
        simp only [Res.ok.injEq] at hr
        subst hr
        obtain ⟨e1, e2, e3⟩ := grFirst_sound H inj imap lv pn rest (i + 1) _ _ r' hr' hs1.2
          (fun x hx => hrg x (by simp [hx]))
        have hnotin : (2 ^ d + e) / 2 ∉ rest.map (fun e => (2 ^ d + e) / 2) := by
          intro hm
          obtain ⟨x, hx, hxe⟩ := List.mem_map.mp hm
          have := hs1.1 x hx
          have := (hrg x (by simp [hx])).1
          omega
        refine ⟨by simp [e1], ?_, ?_⟩
        · intro w hw
          simp only [List.map_cons, List.mem_cons, not_or] at hw
          rw [e2 w hw.2]
          simp only [AMap.get_insert, hw.1, if_false]
        · intro hall x hx
          simp only [List.mem_cons] at hall
          have hrest := e3 (fun y' hy' => hall y' (Or.inr hy'))
          simp only [List.mem_cons] at hx
          rcases hx with rfl | hx
          · have hpx := hall ((2 ^ d + x) / 2) (Or.inl rfl)
            rw [e2 _ hnotin] at hpx
            simp only [AMap.get_insert, if_true, Option.some.injEq] at hpx
            have hst := H.step ((2 ^ d + x) / 2) (by have := Nat.two_pow_pos d; omega) (by omega)
            have ee : 2 * ((2 ^ d + x) / 2) = 2 ^ d + x := by omega
            rw [hst, ee, Nat.add_assoc] at hpx
            obtain ⟨i1, i2⟩ := inj _ _ _ _ hpx
            have hl := grPair_leaf imap lv pn i x b hb
            rw [i1, i2] at hl
            exact hl
          · exact hrest x hx

/-- SOUNDNESS of `get_root`: if the reconstructed root is the tree's root then the index list was
    valid and every supplied leaf is the tree's leaf at the claimed position -/
theorem getRoot_sound (H : Heap merge t d h)
    (inj : ∀ a b c e, merge a b = merge c e → a = c ∧ b = e) (hd : d < 64)
    (p : BatchProof D) (hp : p.depth = d) (idxs : List Nat) (lv : List D)
    (hg : p.getRoot merge idxs lv = .ok (h 1)) :
    idxs ≠ [] ∧ idxs.Nodup ∧ (∀ i ∈ idxs, i < 2 ^ d) ∧
      ∀ (j i : Nat), idxs[j]? = some i → lv[j]? = some (h (2 ^ d + i)) := by
  have hpw := pow2usize_lt d hd
  unfold BatchProof.getRoot at hg
  split at hg
  · cases hg
  · rename_i hie
    have hne : idxs ≠ [] := by intro e; subst e; simp at hie
    split at hg
    case isTrue => cases hg
    split at hg
    · cases hg
    · cases hg
    · rename_i st hrun
      split at hg
      case isTrue => cases hg
      split at hg
      case h_2 => cases hg
      rename_i rt hroot
      simp only [Res.ok.injEq] at hg
      subst hg
      -- the index list is valid, otherwise map_indexes fails
      have hrange : ∀ i ∈ idxs, i < 2 ^ d := by
        intro i hi
        apply Classical.byContradiction
        intro hcon
        have := mapIndexes_oob idxs p.depth ⟨i, hi, by rw [hp, hpw]; omega⟩
        simp [grRun, this] at hrun
      have hnd : idxs.Nodup := by
        apply Classical.byContradiction
        intro hcon
        have := mapIndexes_dup idxs p.depth (fun i hi => by rw [hp, hpw]; exact hrange i hi) hcon
        simp [grRun, this] at hrun
      obtain ⟨imap, hmap, _, G⟩ := mapIndexes_ok idxs d hd hnd hrange
      refine ⟨hne, hnd, hrange, ?_⟩
      unfold grRun at hrun
      rw [hp, hmap] at hrun
      simp only [hpw] at hrun
      split at hrun
      · cases hrun
      · split at hrun
        · cases hrun
        · cases hrun
        · rename_i r hfirst
          have hnorm : ∀ e ∈ normalize idxs, e % 2 = 0 ∧ e + 1 < 2 ^ d := by
            intro e he
            obtain ⟨i0, hi0, rfl⟩ := (mem_normalize idxs e).mp he
            have := hrange i0 hi0
            have := pow_even d H.dpos
            exact ⟨by omega, by omega⟩
          obtain ⟨e1, _, e3⟩ := grFirst_sound H inj imap lv p.nodes (normalize idxs) 0 [] [] r hfirst
            (sorted_normalize idxs) hnorm
          have hrg : ∀ y ∈ r.2, 2 ^ (d - 1) ≤ y ∧ y < 2 ^ (d - 1 + 1) := by
            intro y hy
            rw [e1] at hy
            obtain ⟨e, he, rfl⟩ := List.mem_map.mp hy
            have := hnorm e he
            obtain ⟨k, rfl⟩ : ∃ k, d = k + 1 := ⟨d - 1, by have := H.dpos; omega⟩
            simp only [Nat.add_sub_cancel]
            rw [Nat.pow_succ] at this ⊢
            omega
          have hasc : Asc r.2 := by
            rw [e1]
            have hsn := sorted_normalize idxs
            apply List.pairwise_map.mpr
            exact List.Pairwise.imp_of_mem (fun {a b} ha hb hab => by
              have := (hnorm a ha).1; have := (hnorm b hb).1; omega) hsn
          have hlev := grLevels_sound H inj p.nodes (d - 1) r.2 r.1 st hrun hasc hrg
            (by have := H.dpos; omega) hroot
          have hleaf := e3 hlev
          intro j i hj
          have hi := List.mem_of_getElem? hj
          have hgi := (G i j).mpr hj
          have hmem : i - i % 2 ∈ normalize idxs := (mem_normalize _ _).mpr ⟨i, hi, rfl⟩
          have hl := hleaf _ hmem
          by_cases hpar : i % 2 = 0
          · have e : i - i % 2 = i := by omega
            rw [e] at hl
            exact hl.1 j hgi
          · have e : i - i % 2 + 1 = i := by omega
            rw [e] at hl
            exact hl.2 j hgi

/-! ### the proof nodes that `get_root` reads are the tree's nodes -/

theorem prefix_snoc (a b : List D) (x : D) (hp : a <+: b) (hx : b[a.length]? = some x) :
    a ++ [x] <+: b := by
  obtain ⟨tl, rfl⟩ := hp
  cases tl with
  | nil => simp at hx
  | cons y tl =>
    simp at hx
    subst hx
    exact ⟨tl, by simp⟩

theorem ext_push (acc pn : List (List D)) (i : Nat) (a b : List D) (x : D) (hext : Ext acc pn)
    (ha : acc[i]? = some a) (hb : pn[i]? = some b) (hx : b[a.length]? = some x) :
    Ext (acc.modify i (· ++ [x])) pn := by
  intro j c hc
  rw [List.getElem?_modify] at hc
  by_cases hij : i = j
  · subst hij
    rw [ha] at hc
    simp only [Option.map_eq_map, Option.map_some, if_true, Option.some.injEq] at hc
    subst hc
    obtain ⟨b', hb', hpre⟩ := hext i a ha
    rw [hb] at hb'
    have : b = b' := Option.some.inj hb'
    subst this
    exact ⟨b, hb, prefix_snoc a b x hpre hx⟩
  · cases hj : acc[j]? with
    | none => rw [hj] at hc; simp at hc
    | some c' =>
      rw [hj] at hc
      simp only [Option.map_eq_map, Option.map_some, hij, if_false, Option.some.injEq] at hc
      subst hc
      exact hext j c' hj

theorem sibling_step (acc pn : List (List D)) (ptrs : List Nat) (i : Nat) (a : List D)
    (hp : ptrs = acc.map List.length) (ha : acc[i]? = some a) (sp : D × List Nat)
    (hs : grSibling pn ptrs i = .ok sp) :
    ∃ b, pn[i]? = some b ∧ b[a.length]? = some sp.1 ∧ sp.2 = ptrs.set i (a.length + 1) := by
  have hptr : ptrs[i]? = some a.length := by rw [hp, List.getElem?_map, ha]; rfl
  unfold grSibling at hs
  rw [hptr] at hs
  simp only at hs
  split at hs
  · cases hs
  · rename_i ni hni
    split at hs
    · cases hs
    · rename_i s hsv
      simp only [Res.ok.injEq] at hs
      subst hs
      exact ⟨ni, hni, hsv, rfl⟩

theorem pbLevel_snd (tn : List D) : ∀ (idxs : List Nat) (i : Nat) (acc : List (List D))
    (r : List (List D) × List Nat), pbLevel tn i idxs acc = some r → r.2 = nextIdx idxs
  | [], i, acc, r, hr => by
    simp only [pbLevel, Option.some.injEq] at hr; subst hr; rfl
  | [x], i, acc, r, hr => by
    unfold pbLevel at hr
    split at hr
    · cases hr
    · simp only [Option.some.injEq] at hr; subst hr; simp [nextIdx, xor_one_div]
  | x :: y :: rest, i, acc, r, hr => by
    unfold pbLevel at hr
    split at hr
    · rename_i hsib
      split at hr
      · cases hr
      · rename_i r' hr'
        simp only [Option.some.injEq] at hr; subst hr
        simp [nextIdx, hsib, xor_one_div, pbLevel_snd tn rest (i + 2) acc r' hr']
    · rename_i hsib
      split at hr
      · cases hr
      · rename_i acc1 _
        split at hr
        · cases hr
        · rename_i r' hr'
          simp only [Option.some.injEq] at hr; subst hr
          simp [nextIdx, hsib, xor_one_div, pbLevel_snd tn (y :: rest) (i + 1) acc1 r' hr']

/-- one level, accepted run vs. honest proof: the consumed siblings are the honest ones -/
theorem level_sound_coupled (H : Heap merge t d h)
    (inj : ∀ a b c e, merge a b = merge c e → a = c ∧ b = e) (pn : List (List D)) (k : Nat)
    (hk : 1 ≤ k) (hkd : k < d) :
    ∀ (idxs : List Nat) (i : Nat) (acc : List (List D)) (st : GSt D)
      (r : List (List D) × List Nat) (rg : GSt D × List Nat),
      pbLevel t.nodes i idxs acc = some r → grLevel merge pn i idxs st = .ok rg →
      st.ptrs = acc.map List.length → Ext acc pn → Asc idxs →
      (∀ y ∈ idxs, 2 ^ k ≤ y ∧ y < 2 ^ (k + 1)) →
      (∀ y' ∈ nextIdx idxs, AMap.get rg.1.v y' = some (h y')) →
      rg.1.ptrs = r.1.map List.length ∧ Ext r.1 pn
  | [], i, acc, st, r, rg, hpb, hgr, hp, hext, _, _, _ => by
    simp only [pbLevel, Option.some.injEq] at hpb
    simp only [grLevel, Res.ok.injEq] at hgr
    subst hpb hgr
    exact ⟨hp, hext⟩
  | [x], i, acc, st, r, rg, hpb, hgr, hp, hext, _, hrg, hpar => by
    obtain ⟨hx1, hx2⟩ := hrg x (by simp)
    have h2k : 2 ≤ 2 ^ k := by
      have : 2 ^ 1 ≤ 2 ^ k := Nat.pow_le_pow_right (by omega) hk
      simpa using this
    have hle : 2 ^ (k + 1) ≤ 2 ^ d := Nat.pow_le_pow_right (by omega) (by omega)
    have hxr := xor_in_range H x (by omega) (by omega)
    have hn := H.node (x ^^^ 1) hxr.1 hxr.2
    simp only [pbLevel, pbTake, hn, pushAt] at hpb
    split at hpb
    case h_1 => cases hpb
    rename_i acc1 hacc1
    simp only [Option.some.injEq] at hpb
    subst hpb
    split at hacc1
    case isFalse => cases hacc1
    rename_i hil
    simp only [Option.some.injEq] at hacc1
    subst hacc1
    obtain ⟨a, ha⟩ : ∃ a, acc[i]? = some a := ⟨acc[i], by simp [hil]⟩
    unfold grLevel at hgr
    split at hgr
    · cases hgr
    · cases hgr
    · rename_i sp hsp
      split at hgr
      · cases hgr
      · cases hgr
      · rename_i vl hvl
        simp only [Res.ok.injEq] at hgr
        subst hgr
        obtain ⟨b, hb, hread, hset⟩ := sibling_step acc pn st.ptrs i a hp ha sp hsp
        obtain ⟨node, hnode, hv⟩ := grNode_ok _ _ _ _ _ hvl
        have hpx := hpar (x / 2) (by simp [nextIdx])
        simp only [hv, AMap.get_insert, if_true, Option.some.injEq] at hpx
        have hpi := parent_inj H inj x (by omega) (by omega) _ _ hpx
        rw [hpi.2] at hread
        refine ⟨?_, ext_push acc pn i a b _ hext ha hb hread⟩
        simp only [hset, hp]
        exact ptrs_modify acc i _ a ha
  | x :: y :: rest, i, acc, st, r, rg, hpb, hgr, hp, hext, hs, hrg, hpar => by
    obtain ⟨hx1, hx2⟩ := hrg x (by simp)
    have h2k : 2 ≤ 2 ^ k := by
      have : 2 ^ 1 ≤ 2 ^ k := Nat.pow_le_pow_right (by omega) hk
      simpa using this
    have hle : 2 ^ (k + 1) ≤ 2 ^ d := Nat.pow_le_pow_right (by omega) (by omega)
    have hs1 := List.pairwise_cons.mp hs
    have hs2 := List.pairwise_cons.mp hs1.2
    have hxr := xor_in_range H x (by omega) (by omega)
    have hn := H.node (x ^^^ 1) hxr.1 hxr.2
    unfold pbLevel at hpb
    unfold grLevel at hgr
    by_cases hsib : y = x ^^^ 1
    · rw [if_pos hsib] at hpb hgr
      split at hpb
      case h_1 => cases hpb
      rename_i r' hr'
      simp only [Option.some.injEq] at hpb
      subst hpb
      split at hgr
      · cases hgr
      · rename_i s hsv
        split at hgr
        · cases hgr
        · cases hgr
        · rename_i vl hvl
          split at hgr
          · cases hgr
          · cases hgr
          · rename_i rg' hrg'
            simp only [Res.ok.injEq] at hgr
            subst hgr
            have hpar' : ∀ y' ∈ nextIdx rest, AMap.get rg'.1.v y' = some (h y') := by
              intro y' hy'
              exact hpar y' (by simp [nextIdx, hsib, hy'])
            exact level_sound_coupled H inj pn k hk hkd rest (i + 2) acc _ r' rg' hr' hrg'
              hp hext hs2.2 (fun z hz => hrg z (by simp [hz])) hpar'
    · rw [if_neg hsib] at hpb hgr
      simp only [pbTake, hn, pushAt] at hpb
      split at hpb
      case h_1 => cases hpb
      rename_i acc1 hacc1
      split at hacc1
      case isFalse => cases hacc1
      rename_i hil
      simp only [Option.some.injEq] at hacc1
      subst hacc1
      split at hpb
      case h_1 => cases hpb
      rename_i r' hr'
      simp only [Option.some.injEq] at hpb
      subst hpb
      obtain ⟨a, ha⟩ : ∃ a, acc[i]? = some a := ⟨acc[i], by simp [hil]⟩
      split at hgr
      · cases hgr
      · cases hgr
      · rename_i sp hsp
        split at hgr
        · cases hgr
        · cases hgr
        · rename_i vl hvl
          split at hgr
          · cases hgr
          · cases hgr
          · rename_i rg' hrg'
            simp only [Res.ok.injEq] at hgr
            subst hgr
            obtain ⟨b, hb, hread, hset⟩ := sibling_step acc pn st.ptrs i a hp ha sp hsp
            obtain ⟨node, hnode, hv⟩ := grNode_ok _ _ _ _ _ hvl
            -- the parent written here is not overwritten by the rest of the level
            obtain ⟨_, e2, _⟩ := grLevel_sound H inj pn k hk hkd (y :: rest) (i + 1) _ rg' hrg' hs1.2
              (fun z hz => hrg z (by simp only [List.mem_cons] at hz ⊢; exact Or.inr hz))
            have hlt := parent_lt_single x (y :: rest) hs
              (by intro y' hy'; simp at hy'; subst hy'; exact hsib)
            have hnotin : x / 2 ∉ nextIdx (y :: rest) := fun hm => Nat.lt_irrefl _ (hlt _ hm)
            have hpx := hpar (x / 2) (by simp [nextIdx, hsib])
            rw [e2 _ hnotin] at hpx
            simp only [hv, AMap.get_insert, if_true, Option.some.injEq] at hpx
            have hpi := parent_inj H inj x (by omega) (by omega) _ _ hpx
            rw [hpi.2] at hread
            have hpar' : ∀ y' ∈ nextIdx (y :: rest), AMap.get rg'.1.v y' = some (h y') := by
              intro y' hy'
              exact hpar y' (by simp only [nextIdx, hsib, if_false, List.mem_cons]; exact Or.inr hy')
            exact level_sound_coupled H inj pn k hk hkd (y :: rest) (i + 1) _ _ r' rg' hr' hrg'
              (by simp only [hset, hp]; exact ptrs_modify acc i _ a ha)
              (ext_push acc pn i a b _ hext ha hb hread) hs1.2
              (fun z hz => hrg z (by simp only [List.mem_cons] at hz ⊢; exact Or.inr hz)) hpar'

/-- all upper levels -/
theorem levels_sound_coupled (H : Heap merge t d h)
    (inj : ∀ a b c e, merge a b = merge c e → a = c ∧ b = e) (pn : List (List D)) :
    ∀ (k : Nat) (idxs : List Nat) (acc accF : List (List D)) (st st' : GSt D),
      pbLevels t.nodes k idxs acc = some accF → grLevels merge pn k idxs st = .ok st' →
      st.ptrs = acc.map List.length → Ext acc pn → Asc idxs →
      (∀ y ∈ idxs, 2 ^ k ≤ y ∧ y < 2 ^ (k + 1)) → k < d →
      AMap.get st'.v 1 = some (h 1) → st'.ptrs = accF.map List.length ∧ Ext accF pn
  | 0, idxs, acc, accF, st, st', hpb, hgr, hp, hext, _, _, _, _ => by
    simp only [pbLevels, Option.some.injEq] at hpb
    simp only [grLevels, Res.ok.injEq] at hgr
    subst hpb hgr; exact ⟨hp, hext⟩
  | k + 1, idxs, acc, accF, st, st', hpb, hgr, hp, hext, hs, hrg, hk, hroot => by
    unfold pbLevels at hpb
    unfold grLevels at hgr
    split at hpb
    case h_1 => cases hpb
    rename_i r hr
    split at hgr
    · cases hgr
    · cases hgr
    · rename_i rg hrg1
      obtain ⟨e1, _, _⟩ := grLevel_sound H inj pn (k + 1) (by omega) hk idxs 0 st rg hrg1 hs hrg
      have hr' : ∀ w ∈ nextIdx idxs, 2 ^ k ≤ w ∧ w < 2 ^ (k + 1) := by
        intro w hw
        obtain ⟨y, hy, rfl⟩ := nextIdx_mem idxs w hw
        have := hrg y hy
        exact half_range y k this.1 this.2
      have hsn := nextIdx_sorted idxs hs
      have hparents := grLevels_sound H inj pn k rg.2 rg.1 st' hgr (by rw [e1]; exact hsn)
        (by rw [e1]; exact hr') (by omega) hroot
      rw [e1] at hparents
      obtain ⟨hp1, hext1⟩ := level_sound_coupled H inj pn (k + 1) (by omega) hk idxs 0 acc st r rg hr
        hrg1 hp hext hs hrg hparents
      -- both runs continue with the same index list
      have hnx : r.2 = nextIdx idxs := pbLevel_snd t.nodes idxs 0 acc r hr
      rw [hnx] at hpb
      rw [e1] at hgr
      exact levels_sound_coupled H inj pn k (nextIdx idxs) r.1 accF rg.1 st' hpb hgr hp1 hext1 hsn hr'
        (by omega) hroot

/-- the stages of a successful `get_root` -/
theorem getRoot_run (p : BatchProof D) (idxs : List Nat) (lv : List D) (root : D)
    (hg : p.getRoot merge idxs lv = .ok root) :
    idxs ≠ [] ∧ ∃ imap r st, mapIndexes idxs p.depth = .ok imap ∧
      (normalize idxs).length = p.nodes.length ∧
      grFirst merge imap lv p.nodes (pow2usize p.depth) 0 (normalize idxs) [] [] = .ok r ∧
      grLevels merge p.nodes (p.depth - 1) r.2 r.1 = .ok st ∧ AMap.get st.v 1 = some root ∧
      st.ptrs = p.nodes.map List.length ∧ idxs.length = lv.length := by
  unfold BatchProof.getRoot at hg
  split at hg
  · cases hg
  · rename_i hie
    have hne : idxs ≠ [] := by intro e; subst e; simp at hie
    refine ⟨hne, ?_⟩
    split at hg
    case isTrue => cases hg
    rename_i hlv
    have hlv' : idxs.length = lv.length := by simpa using hlv
    split at hg
    · cases hg
    · cases hg
    · rename_i st hrun
      split at hg
      case isTrue => cases hg
      rename_i hused
      have hptrs : st.ptrs = p.nodes.map List.length :=
        unusedNodes_false_eq st.ptrs p.nodes (grRun_ptrs_length merge p idxs lv st hrun)
          (by simpa using hused)
      split at hg
      case h_2 => cases hg
      rename_i rt hroot
      simp only [Res.ok.injEq] at hg
      subst hg
      unfold grRun at hrun
      split at hrun
      · cases hrun
      · cases hrun
      · rename_i imap hmap
        split at hrun
        · cases hrun
        · rename_i hlen
          split at hrun
          · cases hrun
          · cases hrun
          · rename_i r hfirst
            exact ⟨imap, r, st, hmap, by simpa using hlen, hfirst, hrun, hroot, hptrs, hlv'⟩

theorem grPair_shape (idxs : List Nat) (imap : AMap Nat)
    (G : ∀ x j, AMap.get imap x = some j ↔ idxs[j]? = some x) (lv : List D) (pn : List (List D))
    (i e : Nat) (b : D × D × Nat) (hb : grPair imap lv pn i e = .ok b) :
    (e ∈ idxs → e + 1 ∈ idxs → b.2.2 = 0) ∧
    (e ∈ idxs → e + 1 ∉ idxs → ∃ tl, pn[i]? = some (b.2.1 :: tl) ∧ b.2.2 = 1) ∧
    (e ∉ idxs → e + 1 ∈ idxs → ∃ tl, pn[i]? = some (b.1 :: tl) ∧ b.2.2 = 1) := by
  have gsome : ∀ x : Nat, x ∈ idxs → ∃ j, AMap.get imap x = some j := by
    intro x hx
    obtain ⟨j, hj⟩ := List.getElem?_of_mem hx
    exact ⟨j, (G x j).mpr hj⟩
  have gnone : ∀ x : Nat, x ∉ idxs → AMap.get imap x = none := by
    intro x hx
    cases hgx : AMap.get imap x with
    | none => rfl
    | some j => exact absurd (List.mem_of_getElem? ((G x j).mp hgx)) hx
  refine ⟨?_, ?_, ?_⟩
  · intro h0 h1
    obtain ⟨j0, g0⟩ := gsome _ h0
    obtain ⟨j1, g1⟩ := gsome _ h1
    simp only [grPair, g0, g1] at hb
    split at hb
    · cases hb
    · split at hb
      · cases hb
      · simp only [Res.ok.injEq] at hb; subst hb; rfl
  · intro h0 h1
    obtain ⟨j0, g0⟩ := gsome _ h0
    have g1 := gnone _ h1
    simp only [grPair, g0, g1] at hb
    split at hb
    · cases hb
    · split at hb
      · cases hb
      · cases hb
      · rename_i b1 tl hpn
        simp only [Res.ok.injEq] at hb; subst hb
        exact ⟨tl, hpn, rfl⟩
  · intro h0 h1
    have g0 := gnone _ h0
    obtain ⟨j1, g1⟩ := gsome _ h1
    simp only [grPair, g0, g1] at hb
    split at hb
    · cases hb
    · cases hb
    · rename_i b0 tl hpn
      split at hb
      · cases hb
      · simp only [Res.ok.injEq] at hb; subst hb
        exact ⟨tl, hpn, rfl⟩

/-- the leaf level of an accepted run reads the honest leaf-level nodes -/
theorem grFirst_sound_nodes (H : Heap merge t d h)
    (inj : ∀ a b c e, merge a b = merge c e → a = c ∧ b = e) (idxs : List Nat) (imap : AMap Nat)
    (G : ∀ x j, AMap.get imap x = some j ↔ idxs[j]? = some x) (lv : List D) (pn : List (List D)) :
    ∀ (rest : List Nat) (i : Nat) (v : AMap D) (log : List (Nat × D)) (r : GSt D × List Nat),
      grFirst merge imap lv pn (2 ^ d) i rest v log = .ok r → Asc rest →
      (∀ e ∈ rest, e % 2 = 0 ∧ e + 1 < 2 ^ d ∧ (e ∈ idxs ∨ e + 1 ∈ idxs)) →
      i + rest.length ≤ pn.length →
      (∀ y' ∈ r.2, AMap.get r.1.v y' = some (h y')) →
      r.1.ptrs = rest.map (fun e => (miss h (2 ^ d) idxs e ++ miss h (2 ^ d) idxs (e + 1)).length) ∧
      ∀ k e, rest[k]? = some e → ∃ b, pn[i + k]? = some b ∧
        miss h (2 ^ d) idxs e ++ miss h (2 ^ d) idxs (e + 1) <+: b
  | [], i, v, log, r, hr, _, _, _, _ => by
    simp only [grFirst, Res.ok.injEq] at hr
    subst hr
    exact ⟨rfl, fun k e hk => by simp at hk⟩
  | e :: rest, i, v, log, r, hr, hs, hrg, hlen, hpar => by
    obtain ⟨hev, hlt, hor⟩ := hrg e (by simp)
    have hs1 := List.pairwise_cons.mp hs
    have hev2 := pow_even d H.dpos
    simp only [List.length_cons] at hlen
    unfold grFirst at hr
    split at hr
    · cases hr
    · cases hr
    · rename_i b hb
      split at hr
      · cases hr
      · cases hr
      · rename_i r' hr'
        simp only [Res.ok.injEq] at hr
        subst hr
        obtain ⟨e1, e2, _⟩ := grFirst_sound H inj imap lv pn rest (i + 1) _ _ r' hr' hs1.2
          (fun x hx => ⟨(hrg x (by simp [hx])).1, (hrg x (by simp [hx])).2.1⟩)
        have hnotin : (2 ^ d + e) / 2 ∉ rest.map (fun e => (2 ^ d + e) / 2) := by
          intro hm
          obtain ⟨x, hx, hxe⟩ := List.mem_map.mp hm
          have := hs1.1 x hx
          have := (hrg x (by simp [hx])).1
          omega
        have hpx := hpar ((2 ^ d + e) / 2) (by simp)
        simp only at hpx
        rw [e2 _ hnotin] at hpx
        simp only [AMap.get_insert, if_true, Option.some.injEq] at hpx
        have hst := H.step ((2 ^ d + e) / 2) (by have := Nat.two_pow_pos d; omega) (by omega)
        have ee : 2 * ((2 ^ d + e) / 2) = 2 ^ d + e := by omega
        rw [hst, ee, Nat.add_assoc] at hpx
        obtain ⟨i1, i2⟩ := inj _ _ _ _ hpx
        obtain ⟨ih1, ih2⟩ := grFirst_sound_nodes H inj idxs imap G lv pn rest (i + 1) _ _ r' hr' hs1.2
          (fun x hx => hrg x (by simp [hx])) (by omega)
          (fun y' hy' => hpar y' (by simp [hy']))
        obtain ⟨sh1, sh2, sh3⟩ := grPair_shape idxs imap G lv pn i e b hb
        have hil : i < pn.length := by omega
        have hpi : ∃ b', pn[i]? = some b' := ⟨pn[i], by simp [hil]⟩
        have hhead : b.2.2 = (miss h (2 ^ d) idxs e ++ miss h (2 ^ d) idxs (e + 1)).length ∧
            ∃ b', pn[i]? = some b' ∧ miss h (2 ^ d) idxs e ++ miss h (2 ^ d) idxs (e + 1) <+: b' := by
          by_cases h0 : e ∈ idxs
          · by_cases h1 : e + 1 ∈ idxs
            · obtain ⟨b', hb'⟩ := hpi
              exact ⟨by simp [miss, h0, h1, sh1 h0 h1], b', hb', by simp [miss, h0, h1]⟩
            · obtain ⟨tl, hp1, hp2⟩ := sh2 h0 h1
              refine ⟨by simp [miss, h0, h1, hp2], _, hp1, ?_⟩
              simp only [miss, h0, h1, if_true, if_false, List.nil_append, i2]
              exact ⟨tl, rfl⟩
          · have h1 : e + 1 ∈ idxs := by rcases hor with hh | hh; exact absurd hh h0; exact hh
            obtain ⟨tl, hp1, hp2⟩ := sh3 h0 h1
            refine ⟨by simp [miss, h0, h1, hp2], _, hp1, ?_⟩
            simp only [miss, h0, h1, if_true, if_false, List.append_nil, i1]
            exact ⟨tl, rfl⟩
        refine ⟨by simp [hhead.1, ih1], ?_⟩
        intro k x hk
        cases k with
        | zero =>
          simp only [List.getElem?_cons_zero, Option.some.injEq] at hk
          subst hk
          simpa using hhead.2
        | succ k =>
          simp only [List.getElem?_cons_succ] at hk
          have := ih2 k x hk
          rwa [show i + 1 + k = i + (k + 1) by omega] at this

/-- vectors that extend each other position by position and have the same lengths are equal -/
theorem ext_eq_of_lengths (a b : List (List D)) (hl : a.length = b.length) (hext : Ext a b)
    (hlen : a.map List.length = b.map List.length) : a = b := by
  apply List.ext_getElem?
  intro i
  by_cases hi : i < a.length
  · obtain ⟨x, hx⟩ : ∃ x, a[i]? = some x := ⟨a[i], by simp [hi]⟩
    obtain ⟨y, hy, hpre⟩ := hext i x hx
    have h1 : (a.map List.length)[i]? = some x.length := by rw [List.getElem?_map, hx]; rfl
    have h2 : (b.map List.length)[i]? = some y.length := by rw [List.getElem?_map, hy]; rfl
    rw [hlen, h2] at h1
    rw [hx, hy, hpre.eq_of_length (Option.some.inj h1).symm]
  · rw [List.getElem?_eq_none (by omega), List.getElem?_eq_none (by omega)]

/-- an accepted (leaves, proof) pair IS what `prove_batch` returns: every node `get_root` reads is
    the tree's node, (fix f1ad895) every supplied node is read, every leaf is the tree's leaf and
    (fix af69a4d) there is exactly one leaf per index -/
theorem getRoot_sound_nodes [Inhabited D] (H : Heap merge t d h)
    (inj : ∀ a b c e, merge a b = merge c e → a = c ∧ b = e) (hd : d < 64)
    (p' : BatchProof D) (hp : p'.depth = d) (idxs : List Nat) (lv : List D)
    (hg : p'.getRoot merge idxs lv = .ok (h 1)) :
    ∃ p, t.proveBatch idxs = .ok (lv, p) ∧ p'.nodes.length = p.nodes.length ∧
      Ext p.nodes p'.nodes ∧ p' = p := by
  obtain ⟨hne, hnd, hrange, hleaves⟩ := getRoot_sound H inj hd p' hp idxs lv hg
  obtain ⟨p, hpb, hdep, hlenp, _, _, hlev⟩ := proveBatch_getRoot H hd idxs hne hnd hrange
  obtain ⟨_, imap', r, st, hmap', hlen, hfirst, hrun, hroot, hptrs', hlv⟩ :=
    getRoot_run p' idxs lv (h 1) hg
  have hlveq : idxs.map (fun i => h (2 ^ d + i)) = lv := by
    apply List.ext_getElem?
    intro j
    by_cases hj : j < idxs.length
    · obtain ⟨i, hi⟩ : ∃ i, idxs[j]? = some i := ⟨idxs[j], by simp [hj]⟩
      rw [hleaves j i hi, List.getElem?_map, hi]; rfl
    · rw [List.getElem?_eq_none (by simp; omega), List.getElem?_eq_none (by omega)]
  rw [hlveq] at hpb
  obtain ⟨imap, hmap, _, G⟩ := mapIndexes_ok idxs d hd hnd hrange
  rw [hp] at hmap' hfirst hrun
  rw [hmap] at hmap'
  have : imap = imap' := Res.ok.inj hmap'
  subst this
  rw [pow2usize_lt d hd] at hfirst
  have hev := pow_even d H.dpos
  have hnorm : ∀ e ∈ normalize idxs, e % 2 = 0 ∧ e + 1 < 2 ^ d ∧ (e ∈ idxs ∨ e + 1 ∈ idxs) := by
    intro e he
    obtain ⟨i0, hi0, rfl⟩ := (mem_normalize idxs e).mp he
    have := hrange i0 hi0
    refine ⟨by omega, by omega, ?_⟩
    by_cases hpar : i0 % 2 = 0
    · left; rw [hpar]; exact hi0
    · right
      have : i0 - i0 % 2 + 1 = i0 := by omega
      rw [this]; exact hi0
  obtain ⟨e1, _, _⟩ := grFirst_sound H inj imap lv p'.nodes (normalize idxs) 0 [] [] r hfirst
    (sorted_normalize idxs) (fun e he => ⟨(hnorm e he).1, (hnorm e he).2.1⟩)
  have hrg : ∀ y ∈ r.2, 2 ^ (d - 1) ≤ y ∧ y < 2 ^ (d - 1 + 1) := by
    intro y hy
    rw [e1] at hy
    obtain ⟨e, he, rfl⟩ := List.mem_map.mp hy
    have := hnorm e he
    obtain ⟨k, rfl⟩ : ∃ k, d = k + 1 := ⟨d - 1, by have := H.dpos; omega⟩
    simp only [Nat.add_sub_cancel]
    rw [Nat.pow_succ] at this ⊢
    omega
  have hasc : Asc r.2 := by
    rw [e1]
    apply List.pairwise_map.mpr
    exact List.Pairwise.imp_of_mem (fun {a b} ha hb hab => by
      have := (hnorm a ha).1; have := (hnorm b hb).1; omega) (sorted_normalize idxs)
  have hlev1 := grLevels_sound H inj p'.nodes (d - 1) r.2 r.1 st hrun hasc hrg
    (by have := H.dpos; omega) hroot
  obtain ⟨hptr, hpre⟩ := grFirst_sound_nodes H inj idxs imap G lv p'.nodes (normalize idxs) 0 [] [] r
    hfirst (sorted_normalize idxs) hnorm (by omega) hlev1
  have hext0 : Ext ((normalize idxs).map
      (fun e => miss h (2 ^ d) idxs e ++ miss h (2 ^ d) idxs (e + 1))) p'.nodes := by
    intro j x hx
    rw [List.getElem?_map] at hx
    cases hj : (normalize idxs)[j]? with
    | none => rw [hj] at hx; simp at hx
    | some e =>
      rw [hj] at hx
      simp only [Option.map_some, Option.some.injEq] at hx
      subst hx
      simpa using hpre j e hj
  have hnx : r.2 = (normalize idxs).map (fun e => (e + 2 ^ d) / 2) := by
    rw [e1]; apply List.map_congr_left; intro e _; rw [Nat.add_comm]
  rw [hnx] at hrun hasc hrg
  have hfinal := levels_sound_coupled H inj p'.nodes (d - 1) _ _ p.nodes r.1 st hlev hrun
    (by rw [hptr, List.map_map]; rfl) hext0 hasc hrg (by have := H.dpos; omega) hroot
  have hnodes : p.nodes = p'.nodes :=
    ext_eq_of_lengths p.nodes p'.nodes (by omega) hfinal.2 (by rw [← hfinal.1, hptrs'])
  refine ⟨p, hpb, by omega, hfinal.2, ?_⟩
  cases p; cases p'
  simp only [BatchProof.mk.injEq] at hnodes hp hdep ⊢
  exact ⟨hnodes.symm, by omega⟩

end sound
end Wf.Merkle
