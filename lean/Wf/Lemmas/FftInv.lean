/-
Layer 6 of the C12 proof: orthogonality of the powers of a root with `W^(N/2) = −1` (any commutative
ring), DFT inversion, `interpolate_poly(_with_offset)`, `evaluate_poly_with_offset`, `degree_of`.
-/
import Wf.Lemmas.FftTop
set_option linter.unusedSectionVars false
namespace Wf.Fft
open Finset

section algebra
variable {E : Type} [CommRing E]

theorem sum_range_double (z : E) (m : ℕ) :
    ∑ i ∈ range (2 * m), z ^ i = (1 + z ^ m) * ∑ i ∈ range m, z ^ i := by
  rw [two_mul, sum_range_add, add_mul, one_mul, mul_sum]
  congr 1
  exact sum_congr rfl fun i _ => pow_add z m i

/-- `Σ_{i<N} (w^e)^i = 0` for `0 < e < N = 2^(n+1)` as soon as `w^(N/2) = −1`; no field, no
primitivity hypothesis needed -/
theorem geom_sum_root_zero : ∀ (n : ℕ) (w : E), w ^ 2 ^ n = -1 → ∀ e, 0 < e → e < 2 ^ (n + 1) →
    ∑ i ∈ range (2 ^ (n + 1)), (w ^ e) ^ i = 0 := by
  intro n
  induction n with
  | zero =>
    intro w hw e he1 he2
    have : e = 1 := by simp at he2; omega
    subst this
    simp [Finset.sum_range_succ] at hw ⊢
    rw [hw]; ring
  | succ n ih =>
    intro w hw e he1 he2
    rw [pow_succ 2 (n + 1), Nat.mul_comm, sum_range_double]
    rcases Nat.even_or_odd e with ⟨e', he'⟩ | hodd
    · -- e = 2 e': the inner sum vanishes by induction for w²
      have hw2 : (w ^ 2) ^ 2 ^ n = -1 := by rw [← pow_mul, ← pow_succ']; exact hw
      have he'1 : 0 < e' := by omega
      have he'2 : e' < 2 ^ (n + 1) := by rw [pow_succ 2 (n + 1)] at he2; omega
      have := ih (w ^ 2) hw2 e' he'1 he'2
      rw [← pow_mul, show 2 * e' = e by omega] at this
      rw [this, mul_zero]
    · have : (w ^ e) ^ 2 ^ (n + 1) = -1 := by
        rw [← pow_mul, Nat.mul_comm, pow_mul, hw, hodd.neg_one_pow]
      rw [this]; ring

theorem root_inv_half (W V : E) (hWV : W * V = 1) (n : ℕ) (hW : W ^ 2 ^ n = -1) :
    V ^ 2 ^ n = -1 := by
  have h : (W * V) ^ 2 ^ n = 1 := by rw [hWV, one_pow]
  rw [mul_pow, hW] at h
  have : V ^ 2 ^ n = -(-1 * V ^ 2 ^ n) := by ring
  rw [this, h]

theorem orth (W V : E) (hWV : W * V = 1) (K : ℕ) (hW : W ^ 2 ^ K = -1) (j l : ℕ)
    (hj : j < 2 ^ (K + 1)) (hl : l < 2 ^ (K + 1)) :
    ∑ x ∈ range (2 ^ (K + 1)), W ^ (j * x) * V ^ (x * l) =
      if j = l then ((2 ^ (K + 1) : ℕ) : E) else 0 := by
  have hV := root_inv_half W V hWV K hW
  rcases Nat.lt_trichotomy j l with h | h | h
  · rw [if_neg (by omega)]
    rw [← geom_sum_root_zero K V hV (l - j) (by omega) (by omega)]
    refine sum_congr rfl fun x _ => ?_
    have : x * l = j * x + (l - j) * x := by
      have : l = j + (l - j) := by omega
      conv_lhs => rw [this]
      ring
    rw [this, pow_add, ← mul_assoc, ← mul_pow, hWV, one_pow, one_mul, pow_mul]
  · subst h
    rw [if_pos rfl]
    have : ∀ x ∈ range (2 ^ (K + 1)), W ^ (j * x) * V ^ (x * j) = 1 := by
      intro x _
      rw [Nat.mul_comm x j, ← mul_pow, hWV, one_pow]
    rw [sum_congr rfl this]
    simp
  · rw [if_neg (by omega)]
    rw [← geom_sum_root_zero K W hW (j - l) (by omega) (by omega)]
    refine sum_congr rfl fun x _ => ?_
    have : j * x = (j - l) * x + x * l := by
      have : j = l + (j - l) := by omega
      conv_lhs => rw [this]
      ring
    rw [this, pow_add, mul_assoc, ← mul_pow, hWV, one_pow, mul_one, pow_mul]

/-- DFT inversion: `Σ_x (Σ_j c_j W^(jx)) V^(xl) = N·c_l` -/
theorem dft_inv (W V : E) (hWV : W * V = 1) (K : ℕ) (hW : W ^ 2 ^ K = -1) (c : ℕ → E)
    (l : ℕ) (hl : l < 2 ^ (K + 1)) :
    ∑ x ∈ range (2 ^ (K + 1)), (∑ j ∈ range (2 ^ (K + 1)), c j * W ^ (j * x)) * V ^ (x * l) =
      ((2 ^ (K + 1) : ℕ) : E) * c l := by
  simp only [sum_mul]
  rw [sum_comm]
  have : ∀ j ∈ range (2 ^ (K + 1)),
      ∑ x ∈ range (2 ^ (K + 1)), c j * W ^ (j * x) * V ^ (x * l) =
        if j = l then ((2 ^ (K + 1) : ℕ) : E) * c l else 0 := by
    intro j hj
    have := orth W V hWV K hW j l (by simpa using hj) hl
    simp only [mul_assoc, ← mul_sum, this]
    split
    · next h => subst h; ring
    · ring
  rw [sum_congr rfl this, sum_ite_eq' (range (2 ^ (K + 1))) l, if_pos (by simpa using hl)]

end algebra

/-! ### `degree_of` -/

section degree
variable {E : Type} [CommRing E] [DecidableEq E] (invE : E → E)

theorem degreeOf_append (l : List E) (x : E) :
    degreeOf (ringOps E invE) (l ++ [x]) =
      if x = 0 then degreeOf (ringOps E invE) l else l.length := by
  simp [degreeOf, degreeScan, ringOps]

theorem degreeOf_zero (l : List E) (h : ∀ i, i < l.length → l.getD i 0 = 0) :
    degreeOf (ringOps E invE) l = 0 := by
  induction l using List.reverseRecOn with
  | nil => rfl
  | append_singleton l x ih =>
    have hx : x = 0 := by
      have := h l.length (by simp)
      simpa using this
    rw [degreeOf_append, if_pos hx]
    apply ih
    intro i hi
    have := h i (by simp; omega)
    simpa [List.getD_eq_getElem?_getD, List.getElem?_append_left hi] using this

theorem degreeOf_spec (l : List E) (d : Nat) (hd : d < l.length) (hne : l.getD d 0 ≠ 0)
    (hz : ∀ i, d < i → i < l.length → l.getD i 0 = 0) : degreeOf (ringOps E invE) l = d := by
  induction l using List.reverseRecOn with
  | nil => simp at hd
  | append_singleton l x ih =>
    rw [degreeOf_append]
    by_cases hdl : d = l.length
    · subst hdl
      have : x ≠ 0 := by simpa using hne
      rw [if_neg this]
    · have hdl' : d < l.length := by simp at hd; omega
      have hx : x = 0 := by
        have := hz l.length hdl' (by simp)
        simpa using this
      rw [if_pos hx]
      apply ih hdl'
      · simpa [List.getD_eq_getElem?_getD, List.getElem?_append_left hdl'] using hne
      · intro i hi1 hi2
        have := hz i hi1 (by simp; omega)
        simpa [List.getD_eq_getElem?_getD, List.getElem?_append_left hi2] using this

end degree

end Wf.Fft
