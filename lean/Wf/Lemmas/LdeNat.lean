/-
C28, layer 1: naturality of the FFT model.  A map `f : E₁ → E₂` that commutes with `add`, `sub`,
`mul_base` and preserves zero (no ring laws needed) commutes with `fft_in_place`, `permute`, the
chunk loop of `evaluate_poly_with_offset`.  Instances used by C28: the projection of a segment row
`[B; N]` to one of its columns, and the base-field coordinates of an extension element.
-/
import Wf.Lemmas.FftArray
import Wf.Model.Lde
set_option linter.unusedSectionVars false
namespace Wf.Lde
open Wf Wf.Fft

variable {B E1 E2 : Type}

/-- `f` is a morphism of FFT contexts over the same base field -/
structure Morph (c1 : Ctx B E1) (c2 : Ctx B E2) (f : E1 → E2) : Prop where
  hb : c1.b = c2.b
  hexp : c1.exp = c2.exp
  hroot : c1.root = c2.root
  hta : c1.twoAdicity = c2.twoAdicity
  zero : f c1.e.zero = c2.e.zero
  add : ∀ x y, f (c1.e.add x y) = c2.e.add (f x) (f y)
  sub : ∀ x y, f (c1.e.sub x y) = c2.e.sub (f x) (f y)
  mulBase : ∀ x t, f (c1.mulBase x t) = c2.mulBase (f x) t

theorem getD_map {α β} (f : α → β) (a : Array α) (i : Nat) (d : α) :
    (a.map f).getD i (f d) = f (a.getD i d) := by
  simp only [Array.getD_eq_getD_getElem?, Array.getElem?_map]
  cases a[i]? <;> rfl

theorem map_swapIfInBounds {α β} (f : α → β) (a : Array α) (i j : Nat) :
    (a.swapIfInBounds i j).map f = (a.map f).swapIfInBounds i j := by
  apply Array.ext
  · simp
  · intro k h1 h2
    simp only [Array.getElem_map, Array.getElem_swapIfInBounds, Array.size_map]
    split_ifs <;> rfl

theorem permuteLoop_map {α β} (f : α → β) (n : Nat) : ∀ (rem i : Nat) (a : Array α),
    (permuteLoop n rem i a).map f = permuteLoop n rem i (a.map f) := by
  intro rem
  induction rem with
  | zero => intro i a; rfl
  | succ rem ih =>
    intro i a
    simp only [permuteLoop]
    rw [ih]
    split
    · rw [map_swapIfInBounds]
    · rfl

theorem permute_map {α β} (f : α → β) (a : Array α) : (permute a).map f = permute (a.map f) := by
  simp only [permute, permuteLoop_map, Array.size_map]

section morph
variable {c1 : Ctx B E1} {c2 : Ctx B E2} {f : E1 → E2} (m : Morph c1 c2 f)
include m

theorem butterfly_map (a : Array E1) (i s : Nat) :
    (butterfly c1 a i s).map f = butterfly c2 (a.map f) i s := by
  simp only [butterfly, Array.map_setIfInBounds, m.add, m.sub, ← m.zero, getD_map]

theorem butterflyTwiddle_map (a : Array E1) (tw : B) (i s : Nat) :
    (butterflyTwiddle c1 a tw i s).map f = butterflyTwiddle c2 (a.map f) tw i s := by
  simp only [butterflyTwiddle, Array.map_setIfInBounds, m.add, m.sub, m.mulBase, ← m.zero, getD_map]

theorem bflyLoop_map (s : Nat) : ∀ (n p : Nat) (a : Array E1),
    (bflyLoop c1 s n p a).map f = bflyLoop c2 s n p (a.map f) := by
  intro n
  induction n with
  | zero => intro p a; rfl
  | succ n ih => intro p a; simp only [bflyLoop]; rw [ih, butterfly_map m]

theorem bflyTwLoop_map (s : Nat) (tw : B) : ∀ (n p : Nat) (a : Array E1),
    (bflyTwLoop c1 s tw n p a).map f = bflyTwLoop c2 s tw n p (a.map f) := by
  intro n
  induction n with
  | zero => intro p a; rfl
  | succ n ih => intro p a; simp only [bflyTwLoop]; rw [ih, butterflyTwiddle_map m]

theorem twiddleLoop_map (tws : Array B) (count s : Nat) : ∀ (n i base : Nat) (a : Array E1),
    (twiddleLoop c1 tws count s n i base a).map f = twiddleLoop c2 tws count s n i base (a.map f) := by
  intro n
  induction n with
  | zero => intro i base a; rfl
  | succ n ih =>
    intro i base a
    simp only [twiddleLoop]
    rw [ih, bflyTwLoop_map m, m.hb]

/-- `fft_in_place` commutes with every context morphism (any call shape, any fuel) -/
theorem fftInPlace_map (tws : Array B) : ∀ (fuel : Nat) (v : Array E1) (count stride offset : Nat),
    (fftInPlace c1 tws fuel v count stride offset).map f =
      fftInPlace c2 tws fuel (v.map f) count stride offset := by
  intro fuel
  induction fuel with
  | zero => intro v count stride offset; rfl
  | succ fuel ih =>
    intro v count stride offset
    simp only [fftInPlace, Array.size_map]
    rw [twiddleLoop_map m, bflyLoop_map m]
    congr 2
    split
    · split
      · rw [ih]
      · rw [ih, ih]
    · rfl

theorem scaleList_map (off : B) : ∀ (l : List E1) (fac : B),
    (scaleList c1 off l fac).map f = scaleList c2 off (l.map f) fac := by
  intro l
  induction l with
  | nil => intro fac; rfl
  | cons x xs ih => intro fac; simp only [scaleList, List.map_cons, m.mulBase, ih, m.hb]

theorem evalChunk_map (p : Array E1) (tws : Array B) (g s : B) (blowup i : Nat) :
    (evalChunk c1 p tws g s blowup i).map f = evalChunk c2 (p.map f) tws g s blowup i := by
  simp only [evalChunk, fftInPlace_map m, Array.size_map]
  congr 1
  rw [List.map_toArray, scaleList_map m, m.hb, m.hexp]
  simp

theorem evalChunks_map (p : Array E1) (tws : Array B) (g s : B) (blowup : Nat) :
    ∀ (n i : Nat) (acc : Array E1),
      (evalChunks c1 p tws g s blowup n i acc).map f =
        evalChunks c2 (p.map f) tws g s blowup n i (acc.map f) := by
  intro n
  induction n with
  | zero => intro i acc; rfl
  | succ n ih => intro i acc; simp only [evalChunks]; rw [ih, Array.map_append, evalChunk_map m]

/-- `evaluate_poly_with_offset` commutes with every context morphism -/
theorem evaluatePolyWithOffset_map (p : Array E1) (tws : Array B) (s : B) (blowup : Nat) :
    evaluatePolyWithOffset c2 (p.map f) tws s blowup =
      (evaluatePolyWithOffset c1 p tws s blowup).map (fun a => a.map f) := by
  unfold evaluatePolyWithOffset
  simp only [Array.size_map, m.hb, m.hta, m.hroot]
  split; · rfl
  split; · rfl
  split; · rfl
  split; · rfl
  split; · rfl
  simp only [Option.map_some, permute_map, evalChunks_map m]
  simp

end morph

end Wf.Lde
