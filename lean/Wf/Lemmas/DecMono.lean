/-
Extension-stability ("monotonicity") of the in-memory decoders of `Wf/Model/Serde.lean`:
a successful decode looks only at the bytes it consumes, so appending bytes to the input changes
neither the value nor what is consumed.  Consequence (`truncated_not_ok`): a strict prefix of a
valid encoding never decodes to the encoded value – truncation is always noticed.
-/
import Wf.Lemmas.Codec
namespace Wf
open Wf

/-- `d` is stable under appending bytes to its input. -/
def Mono {α} (d : Dec α) : Prop :=
  ∀ bs v r e, d bs = .ok v r → d (bs ++ e) = .ok v (r ++ e)

theorem take_full_length {bs : Bytes} {n : Nat} (h : ¬ (bs.take n).length < n) : n ≤ bs.length := by
  rw [List.length_take] at h; omega

theorem readLe_mono (n : Nat) : Mono (readLe n) := by
  intro bs v r e h
  unfold readLe at h ⊢
  by_cases hl : (bs.take n).length < n
  · simp only [hl, if_true] at h; cases h
  · simp only [hl, if_false] at h
    have hn := take_full_length hl
    have h1 : (bs ++ e).take n = bs.take n := List.take_append_of_le_length hn
    have h2 : (bs ++ e).drop n = bs.drop n ++ e := List.drop_append_of_le_length hn
    rw [h1, h2]; simp only [hl, if_false]
    injection h with hv hr; subst hv; subst hr; rfl

theorem readSlice_mono (n : Nat) : Mono (readSlice n) := by
  intro bs v r e h
  unfold readSlice at h ⊢
  by_cases hl : (bs.take n).length < n
  · simp only [hl, if_true] at h; cases h
  · simp only [hl, if_false] at h
    have hn := take_full_length hl
    have h1 : (bs ++ e).take n = bs.take n := List.take_append_of_le_length hn
    have h2 : (bs ++ e).drop n = bs.drop n ++ e := List.drop_append_of_le_length hn
    rw [h1, h2]; simp only [hl, if_false]
    injection h with hv hr; subst hv; subst hr; rfl

theorem pure_mono {α} (a : α) : Mono (Dec.pure a) := by
  intro bs v r e h
  unfold Dec.pure at h ⊢
  injection h with hv hr; subst hv; subst hr; rfl

/-- sequencing preserves stability (the shape every composite decoder has) -/
theorem bind_mono {α β} (d : Dec α) (f : α → Dec β) (hd : Mono d) (hf : ∀ a, Mono (f a)) :
    Mono (Dec.bind d f) := by
  intro bs v r e h
  unfold Dec.bind at h ⊢
  cases hd1 : d bs with
  | ok a r1 =>
    rw [hd1] at h; simp only [] at h
    rw [hd _ _ _ e hd1]; simp only []
    exact hf a _ _ _ e h
  | err x => rw [hd1] at h; cases h
  | abort => rw [hd1] at h; cases h

theorem readBool_mono : Mono readBool := by
  intro bs v r e h
  unfold readBool at h ⊢
  cases h1 : readU8 bs with
  | ok a r1 =>
    have h2 : readU8 (bs ++ e) = .ok a (r1 ++ e) := readLe_mono 1 _ _ _ e h1
    rw [h1] at h; rw [h2]
    match a, h with
    | 0, h => simp only [] at h ⊢; injection h with hv hr; subst hv; subst hr; rfl
    | 1, h => simp only [] at h ⊢; injection h with hv hr; subst hv; subst hr; rfl
    | (k + 2), h => simp only [] at h; cases h
  | err x => rw [h1] at h; cases h
  | abort => rw [h1] at h; cases h

theorem readUsize_mono : Mono readUsize := by
  intro bs v r e h
  cases bs with
  | nil => unfold readUsize at h; cases h
  | cons first tl =>
    unfold readUsize at h ⊢
    simp only [List.cons_append] at h ⊢
    by_cases h9 : tz8 first.toNat + 1 = 9
    · simp only [h9, if_true] at h ⊢
      cases h1 : readU8 (first :: tl) with
      | ok a r1 =>
        have h1' : readU8 (first :: (tl ++ e)) = .ok a (r1 ++ e) := by
          have := readLe_mono 1 (first :: tl) a r1 e h1
          simpa only [List.cons_append, readU8] using this
        rw [h1] at h; rw [h1']; simp only [] at h ⊢
        cases h2 : readLe 8 r1 with
        | ok w r2 =>
          rw [h2] at h; rw [readLe_mono 8 _ _ _ e h2]; simp only [] at h ⊢
          by_cases hw : w > usizeMax
          · simp only [hw, if_true] at h; cases h
          · simp only [hw, if_false] at h ⊢
            injection h with hv hr; subst hv; subst hr; rfl
        | err x => rw [h2] at h; cases h
        | abort => rw [h2] at h; cases h
      | err x => rw [h1] at h; cases h
      | abort => rw [h1] at h; cases h
    · simp only [h9, if_false] at h ⊢
      cases h1 : readSlice (tz8 first.toNat + 1) (first :: tl) with
      | ok sl r1 =>
        have h1' : readSlice (tz8 first.toNat + 1) (first :: (tl ++ e)) = .ok sl (r1 ++ e) := by
          have := readSlice_mono (tz8 first.toNat + 1) _ _ _ e h1
          simpa only [List.cons_append] using this
        rw [h1] at h; rw [h1']; simp only [] at h ⊢
        by_cases hw : fromLe sl / 2 ^ (tz8 first.toNat + 1) > usizeMax
        · simp only [hw, if_true] at h; cases h
        · simp only [hw, if_false] at h ⊢
          injection h with hv hr; subst hv; subst hr; rfl
      | err x => rw [h1] at h; cases h
      | abort => rw [h1] at h; cases h

theorem readManyLoop_mono {α} (d : Dec α) (hd : Mono d) (n : Nat) :
    ∀ acc, Mono (readManyLoop d n acc) := by
  induction n with
  | zero =>
    intro acc bs v r e h
    unfold readManyLoop at h ⊢
    injection h with hv hr; subst hv; subst hr; rfl
  | succ n ih =>
    intro acc bs v r e h
    unfold readManyLoop at h ⊢
    cases h1 : d bs with
    | ok a r1 =>
      rw [h1] at h; rw [hd _ _ _ e h1]; simp only [] at h ⊢
      exact ih _ _ _ _ e h
    | err x => rw [h1] at h; cases h
    | abort => rw [h1] at h; cases h

theorem readMany_mono {α} (s : Nat) (d : Dec α) (hd : Mono d) (n : Nat) : Mono (readMany s d n) := by
  intro bs v r e h
  unfold readMany at h ⊢
  by_cases hp : readManyPrealloc n s * s > allocLimit
  · simp only [hp, if_true] at h; cases h
  · simp only [hp, if_false] at h ⊢
    exact readManyLoop_mono d hd n [] _ _ _ e h

theorem pair_mono {α β} (a : Codec α) (b : Codec β) (ha : Mono a.dec) (hb : Mono b.dec) :
    Mono (Codec.pair a b).dec := by
  intro bs v r e h
  unfold Codec.pair at h ⊢
  simp only [] at h ⊢
  cases h1 : a.dec bs with
  | ok x r1 =>
    rw [h1] at h; rw [ha _ _ _ e h1]; simp only [] at h ⊢
    cases h2 : b.dec r1 with
    | ok y r2 =>
      rw [h2] at h; rw [hb _ _ _ e h2]; simp only [] at h ⊢
      injection h with hv hr; subst hv; subst hr; rfl
    | err x => rw [h2] at h; cases h
    | abort => rw [h2] at h; cases h
  | err x => rw [h1] at h; cases h
  | abort => rw [h1] at h; cases h

theorem vec_mono {α} (a : Codec α) (ha : Mono a.dec) : Mono (Codec.vec a).dec := by
  intro bs v r e h
  unfold Codec.vec at h ⊢
  simp only [] at h ⊢
  cases h1 : readUsize bs with
  | ok n r1 =>
    rw [h1] at h; rw [readUsize_mono _ _ _ e h1]; simp only [] at h ⊢
    exact readMany_mono a.size a.dec ha n _ _ _ e h
  | err x => rw [h1] at h; cases h
  | abort => rw [h1] at h; cases h

/-- A strict prefix of a valid encoding never decodes to the encoded value: whatever a stable
    decoder returns on `(enc x).take k` with `k < |enc x|`, it is not `ok x _`. -/
theorem truncated_not_ok' {α} (enc : α → Bytes) (dec : Dec α) (hm : Mono dec) (x : α)
    (hrt : dec (enc x) = .ok x []) (k : Nat) (hk : k < (enc x).length) (r : Bytes) :
    dec ((enc x).take k) ≠ .ok x r := by
  intro h
  have h1 := hm _ _ _ ((enc x).drop k) h
  rw [List.take_append_drop] at h1
  rw [hrt] at h1
  injection h1 with _ hr
  have hl : ((enc x).drop k).length = 0 := by
    have : (r ++ (enc x).drop k).length = 0 := by rw [← hr]; rfl
    rw [List.length_append] at this; omega
  rw [List.length_drop] at hl; omega

theorem truncated_not_ok {α} (c : Codec α) (valid : α → Prop) (hrt : RoundTrips c valid)
    (hm : Mono c.dec) (x : α) (hx : valid x) (k : Nat) (hk : k < (c.enc x).length) (r : Bytes) :
    c.dec ((c.enc x).take k) ≠ .ok x r := by
  have h2 := hrt x [] hx
  rw [List.append_nil] at h2
  exact truncated_not_ok' c.enc c.dec hm x h2 k hk r

end Wf
