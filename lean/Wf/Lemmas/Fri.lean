/-
Helper lemmas for C08 / C09, part 1: index bookkeeping of `Wf/Model/Fri.lean` (layer count,
position folding, partition indexes, query-value lookup) and the decision logic of the verifier
model.  No algebra here (see `Wf/Lemmas/FriAlgebra.lean`).
-/
import Wf.Model.Fri
import Mathlib.Data.List.Basic
namespace Wf.Fri
open Wf

/-! ### `num_fri_layers` -/

theorem numFriLayersGo_fuel (ff m : Nat) (hff : 2 ≤ ff) :
    ∀ (fuel1 fuel2 d : Nat), d ≤ fuel1 → d ≤ fuel2 →
      numFriLayersGo ff m fuel1 d = numFriLayersGo ff m fuel2 d := by
  intro fuel1
  induction fuel1 with
  | zero =>
    intro fuel2 d h1 _
    have hd : d = 0 := by omega
    subst hd
    cases fuel2 with
    | zero => rfl
    | succ f => simp [numFriLayersGo]
  | succ f1 ih =>
    intro fuel2 d h1 h2
    cases fuel2 with
    | zero =>
      have hd : d = 0 := by omega
      subst hd
      simp [numFriLayersGo]
    | succ f2 =>
      simp only [numFriLayersGo]
      by_cases hgt : d > m
      · have hlt : d / ff < d := Nat.div_lt_self (by omega) (by omega)
        simp only [hgt, if_true]
        rw [ih f2 (d / ff) (by omega) (by omega)]
      · simp only [hgt, if_false]

theorem foldedSize_succ (ff k d : Nat) : foldedSize ff (k + 1) d = foldedSize ff k (d / ff) := rfl

theorem foldedSize_add (ff : Nat) : ∀ (a b d : Nat), foldedSize ff (a + b) d = foldedSize ff b (foldedSize ff a d)
  | 0, b, d => by simp [foldedSize]
  | a + 1, b, d => by
    rw [Nat.add_right_comm, foldedSize_succ, foldedSize_add ff a b, foldedSize_succ]

theorem foldedSize_eq_div (ff : Nat) : ∀ (k d : Nat), foldedSize ff k d = d / ff ^ k
  | 0, d => by simp [foldedSize]
  | k + 1, d => by
    rw [foldedSize_succ, foldedSize_eq_div ff k, Nat.div_div_eq_div_mul, Nat.pow_succ, Nat.mul_comm]

theorem numFriLayersGo_le (ff m : Nat) (hff : 2 ≤ ff) :
    ∀ (fuel d : Nat), d ≤ fuel → foldedSize ff (numFriLayersGo ff m fuel d) d ≤ m := by
  intro fuel
  induction fuel with
  | zero => intro d h; have : d = 0 := by omega
            subst this; simp [numFriLayersGo, foldedSize]
  | succ f ih =>
    intro d h
    simp only [numFriLayersGo]
    by_cases hgt : d > m
    · have hlt : d / ff < d := Nat.div_lt_self (by omega) (by omega)
      simp only [hgt, if_true, foldedSize_succ]
      exact ih (d / ff) (by omega)
    · simp only [hgt, if_false, foldedSize]; omega

theorem numFriLayersGo_min (ff m : Nat) (hff : 2 ≤ ff) :
    ∀ (fuel d k : Nat), d ≤ fuel → k < numFriLayersGo ff m fuel d → m < foldedSize ff k d := by
  intro fuel
  induction fuel with
  | zero => intro d k _ hk; simp [numFriLayersGo] at hk
  | succ f ih =>
    intro d k h hk
    simp only [numFriLayersGo] at hk
    by_cases hgt : d > m
    · have hlt : d / ff < d := Nat.div_lt_self (by omega) (by omega)
      simp only [hgt, if_true] at hk
      cases k with
      | zero => simpa [foldedSize] using hgt
      | succ k => rw [foldedSize_succ]; exact ih (d / ff) k (by omega) (by omega)
    · simp only [hgt, if_false] at hk; omega

/-! ### `fold_positions` -/

/-- specification: keep the first occurrence of every value, in order -/
def keepFirst : List Nat → List Nat
  | [] => []
  | x :: xs => x :: (keepFirst xs).filter (fun y => y != x)

theorem mem_keepFirst : ∀ (l : List Nat) (x : Nat), x ∈ keepFirst l ↔ x ∈ l
  | [], x => by simp [keepFirst]
  | a :: l, x => by
    simp only [keepFirst, List.mem_cons, List.mem_filter, mem_keepFirst l, bne_iff_ne, ne_eq]
    constructor
    · rintro (h | ⟨h, _⟩)
      · exact Or.inl h
      · exact Or.inr h
    · intro h
      by_cases hx : x = a
      · exact Or.inl hx
      · rcases h with h | h
        · exact Or.inl h
        · exact Or.inr ⟨h, hx⟩

theorem nodup_keepFirst : ∀ (l : List Nat), (keepFirst l).Nodup
  | [] => by simp [keepFirst]
  | a :: l => by
    simp only [keepFirst, List.nodup_cons, List.mem_filter, bne_self_eq_false, Bool.false_eq_true,
      and_false, not_false_eq_true, true_and]
    exact (nodup_keepFirst l).filter _

theorem foldPositionsGo_eq (m : Nat) : ∀ (ps acc : List Nat),
    foldPositionsGo m ps acc =
      acc ++ (keepFirst (ps.map (· % m))).filter (fun q => !acc.contains q)
  | [], acc => by simp [foldPositionsGo, keepFirst]
  | p :: ps, acc => by
    simp only [foldPositionsGo, List.map_cons, keepFirst]
    by_cases hc : acc.contains (p % m) = true
    · rw [if_pos hc, foldPositionsGo_eq m ps acc, List.filter_cons]
      have hmem : p % m ∈ acc := by simpa using hc
      simp only [hc, Bool.not_true, Bool.false_eq_true, if_false, List.filter_filter]
      congr 1
      apply List.filter_congr
      intro q _
      by_cases hq : q = p % m
      · subst hq; simp [hmem]
      · simp [hq]
    · rw [if_neg hc, foldPositionsGo_eq m ps (acc ++ [p % m]), List.filter_cons]
      have hc' : acc.contains (p % m) = false := by simpa using hc
      simp only [hc', Bool.not_false, if_true, List.filter_filter, List.append_assoc,
        List.singleton_append]
      congr 2
      apply List.filter_congr
      intro q _
      by_cases hq : q = p % m
      · subst hq; simp
      · simp [hq, List.contains_append]

/-- `fold_positions` = residues modulo the target size with first occurrences kept -/
theorem foldPositionsGo_spec (m : Nat) (ps : List Nat) :
    foldPositionsGo m ps [] = keepFirst (ps.map (· % m)) := by
  rw [foldPositionsGo_eq]; simp

theorem mem_foldPositionsGo (m : Nat) (ps : List Nat) (q : Nat) :
    q ∈ foldPositionsGo m ps [] ↔ ∃ p ∈ ps, p % m = q := by
  rw [foldPositionsGo_spec, mem_keepFirst]; simp

theorem foldPositions_some (ps : List Nat) (d ff : Nat) (hff : 0 < ff) (hd : ff ≤ d) :
    foldPositions ps d ff = some (foldPositionsGo (d / ff) ps []) := by
  have : 0 < d / ff := Nat.div_pos hd hff
  simp only [foldPositions]
  rw [if_neg (by omega), if_neg (by omega)]

/-! ### `map_positions_to_indexes` -/

theorem partitionIndex_eq (psize np p : Nat) :
    partitionIndex psize np p = (p % np) * psize + p / np := by
  unfold partitionIndex
  congr 1
  rcases Nat.eq_zero_or_pos np with h | h
  · subst h; simp
  · have h1 := Nat.div_add_mod p np
    have h2 : p - p % np = np * (p / np) := by omega
    rw [h2, Nat.mul_div_cancel_left _ h]

/-- inverse of the partition layout: row `i` of the partitioned storage holds source position … -/
def partitionInv (psize np i : Nat) : Nat := (i % psize) * np + i / psize

theorem partitionIndex_lt (psize np p : Nat) (hnp : 0 < np) (hp : p < np * psize) :
    partitionIndex psize np p < np * psize := by
  rw [partitionIndex_eq]
  have h1 : p % np < np := Nat.mod_lt _ hnp
  have h2 : p / np < psize := by
    apply Nat.div_lt_of_lt_mul; exact hp
  calc p % np * psize + p / np < p % np * psize + psize := by omega
    _ = (p % np + 1) * psize := by rw [Nat.add_mul, Nat.one_mul]
    _ ≤ np * psize := Nat.mul_le_mul_right _ (by omega)

theorem partitionInv_index (psize np p : Nat) (hnp : 0 < np) (hp : p < np * psize) :
    partitionInv psize np (partitionIndex psize np p) = p := by
  rw [partitionIndex_eq]
  unfold partitionInv
  have h2 : p / np < psize := by
    apply Nat.div_lt_of_lt_mul; exact hp
  have hps : 0 < psize := Nat.lt_of_le_of_lt (Nat.zero_le _) h2
  rw [Nat.mul_comm (p % np) psize, Nat.mul_add_mod, Nat.mod_eq_of_lt h2,
    Nat.mul_add_div hps, Nat.div_eq_of_lt h2, Nat.add_zero, Nat.add_comm, Nat.mul_comm]
  exact Nat.mod_add_div p np

theorem partitionIndex_inv (psize np i : Nat) (hps : 0 < psize) (hi : i < np * psize) :
    partitionIndex psize np (partitionInv psize np i) = i := by
  rw [partitionIndex_eq]
  unfold partitionInv
  have h2 : i / psize < np := by
    apply Nat.div_lt_of_lt_mul; rw [Nat.mul_comm]; exact hi
  have hnp : 0 < np := Nat.lt_of_le_of_lt (Nat.zero_le _) h2
  rw [Nat.mul_comm (i % psize) np, Nat.mul_add_mod, Nat.mod_eq_of_lt h2,
    Nat.mul_add_div hnp, Nat.div_eq_of_lt h2, Nat.add_zero, Nat.add_comm, Nat.mul_comm]
  exact Nat.mod_add_div i psize

theorem partitionInv_lt (psize np i : Nat) (hps : 0 < psize) (hi : i < np * psize) :
    partitionInv psize np i < np * psize := by
  unfold partitionInv
  have h1 : i % psize < psize := Nat.mod_lt _ hps
  have h2 : i / psize < np := by
    apply Nat.div_lt_of_lt_mul; rw [Nat.mul_comm]; exact hi
  calc i % psize * np + i / psize < i % psize * np + np := by omega
    _ = (i % psize + 1) * np := by rw [Nat.add_mul, Nat.one_mul]
    _ ≤ psize * np := Nat.mul_le_mul_right _ (by omega)
    _ = np * psize := Nat.mul_comm _ _

/-! ### `Option` traversal -/

theorem mapM_some_of_forall {α β} (g : α → Option β) (h : α → β) :
    ∀ (l : List α), (∀ a ∈ l, g a = some (h a)) → l.mapM g = some (l.map h)
  | [], _ => by simp
  | a :: l, hl => by
    have ha := hl a (by simp)
    have ih := mapM_some_of_forall g h l (fun b hb => hl b (by simp [hb]))
    simp [List.mapM_cons, ha, ih]

/-! ### `get_query_values` -/

theorem findIdx?_beq_mem (l : List Nat) (q : Nat) (h : q ∈ l) :
    ∃ idx, l.findIdx? (· == q) = some idx ∧ l[idx]? = some q := by
  induction l with
  | nil => simp at h
  | cons a l ih =>
    by_cases ha : a = q
    · exact ⟨0, by simp [List.findIdx?_cons, ha], by simp [ha]⟩
    · have hq : q ∈ l := by
        rcases List.mem_cons.mp h with h | h
        · exact absurd h.symm ha
        · exact h
      obtain ⟨idx, h1, h2⟩ := ih hq
      refine ⟨idx + 1, ?_, by simpa using h2⟩
      simp [List.findIdx?_cons, ha, h1]

/-- `get_query_values` finds, for every position `p` of a domain of `n·rowLen` points, the value
at row `p % rowLen`, column `p / rowLen` of the transposed layer: if the opened rows are the rows
of the layer at the folded positions (`row r = [f (r + j·rowLen) | j < n]`), the result is
`[f p | p ∈ positions]` -/
theorem getQueryValues_eq {F} (f : Nat → F) (n rowLen : Nat) (hn : 0 < n) (hr : 0 < rowLen)
    (positions : List Nat) (hpos : ∀ p ∈ positions, p < n * rowLen) :
    getQueryValues
      ((foldPositionsGo rowLen positions []).map fun r => (List.range n).map fun j => f (r + j * rowLen))
      positions (foldPositionsGo rowLen positions []) (n * rowLen) n = some (positions.map f) := by
  have hdiv : n * rowLen / n = rowLen := Nat.mul_div_cancel_left _ hn
  unfold getQueryValues
  rw [if_neg (by omega), hdiv, if_neg (by omega)]
  apply mapM_some_of_forall
  intro p hp
  have hmem : p % rowLen ∈ foldPositionsGo rowLen positions [] :=
    (mem_foldPositionsGo rowLen positions _).mpr ⟨p, hp, rfl⟩
  obtain ⟨idx, h1, h2⟩ := findIdx?_beq_mem _ _ hmem
  have hcol : p / rowLen < n := by
    apply Nat.div_lt_of_lt_mul; rw [Nat.mul_comm]; exact hpos p hp
  simp only [h1, List.getElem?_map, h2, Option.map_some]
  rw [List.getElem?_range hcol]
  simp only [Option.map_some, Nat.mod_add_div']

/-! ### decision logic of the verifier model -/

/-- everything one accepted iteration of the loop of `verify_generic` has checked -/
structure LayerChecked {F} (ops : FieldOps F) (v : Verifier F) (depth : Nat) (st : LoopState F)
    (o : LayerOpening F) (st' : LoopState F) : Prop where
  folded : foldPositions st.positions st.domainSize v.options.folding = some st'.positions
  merkle : o.merkleOk = true
  queryValues : ∃ qv, getQueryValues o.rows st.positions st'.positions st.domainSize v.options.folding = some qv ∧
    listBeq ops st.evaluations qv = true
  folding : ∃ alpha, v.alphas[depth]? = some alpha ∧
    foldRows ops alpha
      (layerXs ops st.g v.offset (foldingRoots ops v.g v.domainSize v.options.folding) st'.positions)
      o.rows = some st'.evaluations
  degree : st.mdp1 % v.options.folding = 0
  mdp1 : st'.mdp1 = st.mdp1 / v.options.folding
  domainSize : st'.domainSize = st.domainSize / v.options.folding
  g : st'.g = pow ops st.g v.options.folding

theorem verifyLayer_ok {F} (ops : FieldOps F) (v : Verifier F) (depth : Nat) (st st' : LoopState F)
    (o : LayerOpening F) (h : verifyLayer ops v depth st o = .ok st') :
    LayerChecked ops v depth st o st' := by
  unfold verifyLayer at h
  split at h
  · cases h
  · rename_i folded hfold
    split at h
    · cases h
    · split at h
      · cases h
      · rename_i alpha halpha
        split at h
        · cases h
        · rename_i hm
          split at h
          · cases h
          · rename_i qv hqv
            split at h
            · cases h
            · rename_i hbeq
              split at h
              · cases h
              · rename_i evs hevs
                split at h
                · cases h
                · rename_i hdeg
                  injection h with h
                  subst h
                  exact {
                    folded := hfold
                    merkle := by simpa using hm
                    queryValues := ⟨qv, hqv, by simpa using hbeq⟩
                    folding := ⟨alpha, halpha, hevs⟩
                    degree := by simpa using hdeg
                    mdp1 := rfl
                    domainSize := rfl
                    g := rfl }

/-- a run of `k` accepted iterations starting at `depth` -/
inductive LoopRun {F} (ops : FieldOps F) (v : Verifier F) :
    Nat → Nat → LoopState F → List (LayerOpening F) → LoopState F → Prop where
  | done (depth : Nat) (st : LoopState F) (os : List (LayerOpening F)) : LoopRun ops v 0 depth st os st
  | step {k depth : Nat} {st st1 st' : LoopState F} {o : LayerOpening F} {rest : List (LayerOpening F)} :
      LayerChecked ops v depth st o st1 → LoopRun ops v k (depth + 1) st1 rest st' →
      LoopRun ops v (k + 1) depth st (o :: rest) st'

theorem verifyLoop_ok {F} (ops : FieldOps F) (v : Verifier F) :
    ∀ (k depth : Nat) (st st' : LoopState F) (os : List (LayerOpening F)),
      verifyLoop ops v k depth st os = .ok st' → LoopRun ops v k depth st os st'
  | 0, depth, st, st', os, h => by
    simp only [verifyLoop] at h
    injection h with h; subst h; exact .done _ _ _
  | k + 1, depth, st, st', os, h => by
    simp only [verifyLoop] at h
    split at h
    · cases h
    · rename_i o rest
      split at h
      · rename_i st1 h1
        exact .step (verifyLayer_ok ops v depth st st1 o h1) (verifyLoop_ok ops v k (depth + 1) st1 st' rest h)
      · cases h
      · cases h

/-- degree bookkeeping along an accepted run: the declared `max_degree_plus_1` is divisible by
`N^k` and the final value is the exact quotient; the domain size is divided `k` times -/
theorem LoopRun.mdp1 {F} {ops : FieldOps F} {v : Verifier F} {k depth : Nat} {st st' : LoopState F}
    {os : List (LayerOpening F)} (h : LoopRun ops v k depth st os st') :
    st.mdp1 = st'.mdp1 * v.options.folding ^ k ∧
      st'.domainSize = foldedSize v.options.folding k st.domainSize := by
  induction h with
  | done => simp [foldedSize]
  | step hl _ ih =>
    obtain ⟨ih1, ih2⟩ := ih
    refine ⟨?_, ?_⟩
    · have hd := hl.degree
      have hm := hl.mdp1
      rw [Nat.pow_succ, ← Nat.mul_assoc, ← ih1, hm]
      exact (Nat.div_mul_cancel (Nat.dvd_of_mod_eq_zero hd)).symm
    · rw [ih2, hl.domainSize, foldedSize_succ]

theorem verifyRemainder_ok {F} (ops : FieldOps F) (v : Verifier F) (st : LoopState F)
    (remainder : List F) (remainderOk : Bool)
    (h : verifyRemainder ops v st remainder remainderOk = .ok ()) :
    remainderOk = true ∧ remainder.length ≤ st.mdp1 ∧
      checkRemainder ops st.g v.offset remainder st.positions st.evaluations = true := by
  unfold verifyRemainder at h
  split at h
  · cases h
  · rename_i h1
    split at h
    · cases h
    · rename_i h2
      split at h
      · rename_i h3
        exact ⟨by simpa using h1, by omega, h3⟩
      · cases h

/-- an understated bound: a remainder longer than the bookkeeping allows is an error -/
theorem verifyRemainder_too_long {F} (ops : FieldOps F) (v : Verifier F) (st : LoopState F)
    (remainder : List F) (hlen : st.mdp1 < remainder.length) :
    verifyRemainder ops v st remainder true = .err (.remainderDegreeMismatch (st.mdp1 - 1)) := by
  unfold verifyRemainder
  simp [hlen]

theorem verifyRemainder_uncommitted {F} (ops : FieldOps F) (v : Verifier F) (st : LoopState F)
    (remainder : List F) :
    verifyRemainder ops v st remainder false = .err .remainderCommitmentMismatch := by
  unfold verifyRemainder
  simp

/-- `checkRemainder` = the remainder polynomial takes the folded value at every queried point -/
theorem checkRemainder_iff {F} (ops : FieldOps F) (g offset : F) (remainder : List F) :
    ∀ (ps : List Nat) (es : List F),
      checkRemainder ops g offset remainder ps es = true ↔
        ∀ pe ∈ ps.zip es, ops.beq (evalHornerRev ops remainder (ops.mul offset (pow ops g pe.1))) pe.2 = true
  | [], es => by simp [checkRemainder]
  | _ :: _, [] => by simp [checkRemainder]
  | p :: ps, e :: es => by
    simp only [checkRemainder, Bool.and_eq_true, List.zip_cons_cons, List.mem_cons, forall_eq_or_imp,
      checkRemainder_iff ops g offset remainder ps es]

theorem verify_ok {F} (ops : FieldOps F) (v : Verifier F) (evaluations : List F) (positions : List Nat)
    (openings : List (LayerOpening F)) (remainder : List F) (remainderOk : Bool)
    (h : verify ops v evaluations positions openings remainder remainderOk = .ok ()) :
    evaluations.length = positions.length ∧ supportedFolding v.options.folding = true ∧
    ∃ st, LoopRun ops v (v.options.numFriLayers v.domainSize) 0
        { g := v.g, domainSize := v.domainSize, mdp1 := v.maxPolyDegree + 1,
          positions := positions, evaluations := evaluations } openings st ∧
      verifyRemainder ops v st remainder remainderOk = .ok () := by
  unfold verify at h
  split at h
  · cases h
  · rename_i h1
    split at h
    · cases h
    · rename_i h2
      split at h
      · rename_i st hst
        exact ⟨by simpa using h1, by simpa using h2, st, verifyLoop_ok ops v _ _ _ _ _ hst, h⟩
      · cases h
      · cases h

theorem verifyLoop_merkle_fail {F} (ops : FieldOps F) (v : Verifier F) (k depth : Nat)
    (st st' : LoopState F) (os : List (LayerOpening F))
    (h : verifyLoop ops v k depth st os = .ok st') : ∀ o ∈ os.take k, o.merkleOk = true := by
  have hr := verifyLoop_ok ops v k depth st st' os h
  clear h
  induction hr with
  | done => simp
  | step hl _ ih =>
    intro o ho
    rw [List.take_succ_cons, List.mem_cons] at ho
    rcases ho with ho | ho
    · subst ho; exact hl.merkle
    · exact ih o ho

/-- what `foldRows` computes: row by row the interpolant of the opened row over its coset,
evaluated at `alpha` -/
theorem foldRows_some {F} (ops : FieldOps F) (alpha : F) :
    ∀ (xss yss : List (List F)) (es : List F), foldRows ops alpha xss yss = some es →
      es.length = xss.length ∧ xss.length ≤ yss.length ∧
      ∀ i (h1 : i < xss.length) (h2 : i < yss.length) (h3 : i < es.length),
        es[i] = lagrangeEval ops xss[i] yss[i] alpha
  | [], yss, es, h => by
    simp only [foldRows, Option.some.injEq] at h
    subst h
    simp
  | _ :: _, [], es, h => by simp [foldRows] at h
  | xs :: xss, ys :: yss, es, h => by
    simp only [foldRows] at h
    split at h
    · rename_i rest hrest
      injection h with h
      subst h
      obtain ⟨h1, h2, h3⟩ := foldRows_some ops alpha xss yss rest hrest
      refine ⟨by simp [h1], by simp; omega, ?_⟩
      intro i hi1 hi2 hi3
      cases i with
      | zero => rfl
      | succ i =>
        simp only [List.getElem_cons_succ]
        exact h3 i (by simpa using hi1) (by simpa using hi2) (by simpa using hi3)
    · cases h

/-- every one of the `k` iterations of an accepted run has a checked layer -/
theorem LoopRun.nth {F} {ops : FieldOps F} {v : Verifier F} {k depth : Nat} {st st' : LoopState F}
    {os : List (LayerOpening F)} (h : LoopRun ops v k depth st os st') :
    ∀ i < k, ∃ (o : LayerOpening F) (s1 s2 : LoopState F), os[i]? = some o ∧
      LayerChecked ops v (depth + i) s1 o s2 := by
  induction h with
  | done => intro i hi; omega
  | step hl _ ih =>
    intro i hi
    cases i with
    | zero => exact ⟨_, _, _, by simp, hl⟩
    | succ i =>
      obtain ⟨o, s1, s2, ho, hc⟩ := ih i (by omega)
      refine ⟨o, s1, s2, by simpa using ho, ?_⟩
      rw [Nat.add_comm i 1, ← Nat.add_assoc]
      exact hc

/-! ### `FriVerifier::new` degree check -/

theorem newCheckGo_none (folding nc : Nat) :
    ∀ (k depth mdp1 : Nat), newCheckGo folding nc k depth mdp1 = none →
      ∀ i < k, depth + i ≠ nc - 1 → (foldedSize folding i mdp1) % folding = 0
  | 0, _, _, _, i, hi, _ => by omega
  | k + 1, depth, mdp1, h, i, hi, hne => by
    simp only [newCheckGo] at h
    split at h
    · cases h
    · rename_i hc
      cases i with
      | zero =>
        simp only [foldedSize]
        by_contra hmod
        exact hc ⟨by simpa using hne, hmod⟩
      | succ i =>
        rw [foldedSize_succ]
        exact newCheckGo_none folding nc k (depth + 1) (mdp1 / folding) h i (by omega) (by omega)

theorem newCheckGo_honest (N r : Nat) (hN : 0 < N) :
    ∀ (j depth : Nat), newCheckGo N (depth + j + 1) (j + 1) depth (N ^ j * r) = none := by
  intro j
  induction j with
  | zero => intro depth; simp [newCheckGo]
  | succ j ih =>
    intro depth
    have hdiv : N ^ (j + 1) * r % N = 0 := by
      rw [Nat.pow_succ, Nat.mul_comm (N ^ j) N, Nat.mul_assoc]; exact Nat.mul_mod_right _ _
    have hq : N ^ (j + 1) * r / N = N ^ j * r := by
      rw [Nat.pow_succ, Nat.mul_comm (N ^ j) N, Nat.mul_assoc, Nat.mul_div_cancel_left _ hN]
    rw [newCheckGo]
    rw [if_neg (by rw [hdiv]; simp), hq]
    have := ih (depth + 1)
    rw [show depth + 1 + j + 1 = depth + (j + 1) + 1 by omega] at this
    exact this

/-- the degree check of `FriVerifier::new` passes for a bound `N^k·r − 1` and `k + 1` commitments -/
theorem newCheck_honest (N r k : Nat) (hN : 0 < N) (hr : 0 < r) :
    newCheck N (N ^ k * r - 1) (k + 1) = none := by
  unfold newCheck
  have hpos : 0 < N ^ k * r := Nat.mul_pos (Nat.pow_pos hN) hr
  rw [show N ^ k * r - 1 + 1 = N ^ k * r by omega]
  simpa using newCheckGo_honest N r hN k 0

theorem nextPow2Go_two_pow (a : Nat) :
    ∀ (fuel b : Nat), b ≤ a → a - b ≤ fuel → nextPow2Go (2 ^ a) fuel (2 ^ b) = 2 ^ a := by
  intro fuel
  induction fuel with
  | zero =>
    intro b hb hf
    have : b = a := by omega
    subst this; rfl
  | succ f ih =>
    intro b hb hf
    rw [nextPow2Go]
    by_cases hlt : b < a
    · rw [if_pos (Nat.pow_lt_pow_right (by omega) hlt), ← Nat.pow_succ]
      exact ih (b + 1) (by omega) (by omega)
    · have : b = a := by omega
      subst this
      rw [if_neg (by omega)]

/-- `next_power_of_two` fixes powers of two (in particular `(1 + 1).next_power_of_two() = 2`:
the degree-1 bound) -/
theorem nextPow2_two_pow (a : Nat) : nextPow2 (2 ^ a) = 2 ^ a := by
  unfold nextPow2
  have := nextPow2Go_two_pow a (2 ^ a) 0 (Nat.zero_le _) (by
    have := @Nat.lt_two_pow_self a; omega)
  simpa using this

/-- a proof whose number of layers is not the number of commitments minus one is rejected with an
error before anything is taken out of the channel (no panic) -/
theorem newAndVerify_layer_count {F} (ops : FieldOps F) (o : FriOptions) (maxPolyDegree numPartitions : Nat)
    (gOf : Nat → F) (offset : F) (alphas evaluations : List F) (positions : List Nat)
    (openings : List (LayerOpening F)) (remainder : List F) (remainderOk : Bool)
    (h : openings.length + 1 ≠ alphas.length) :
    newAndVerify ops o maxPolyDegree numPartitions gOf offset alphas evaluations positions openings
      remainder remainderOk = .err (.proofLayerCountMismatch (alphas.length - 1) openings.length) := by
  unfold newAndVerify
  rw [if_pos h]

/-- with matching counts the loop never runs out of openings: the only way `verifyLoop` reaches its
`[]` branch is fewer openings than iterations -/
theorem verifyLoop_exhausted {F} (ops : FieldOps F) (v : Verifier F) :
    ∀ (k depth : Nat) (st : LoopState F) (os : List (LayerOpening F)), k ≤ os.length →
      verifyLoop ops v k depth st os = .abort →
      ∃ (i : Nat) (s : LoopState F) (o : LayerOpening F), i < k ∧ os[i]? = some o ∧
        verifyLayer ops v (depth + i) s o = .abort
  | 0, _, _, _, _, h => by simp [verifyLoop] at h
  | k + 1, depth, st, os, hlen, h => by
    cases os with
    | nil => simp at hlen
    | cons o rest =>
      simp only [verifyLoop] at h
      split at h
      · rename_i st1 h1
        obtain ⟨i, s, o', hi, ho, ha⟩ := verifyLoop_exhausted ops v k (depth + 1) st1 rest (by simpa using hlen) h
        exact ⟨i + 1, s, o', by omega, by simpa using ho, by rw [← Nat.add_assoc, Nat.add_right_comm]; exact ha⟩
      · cases h
      · rename_i h1
        exact ⟨0, st, o, by omega, by simp, by simpa using h1⟩

/-! ### every query is looked up and compared separately -/

theorem mapM_some_inv {α β} (g : α → Option β) :
    ∀ (l : List α) (r : List β), l.mapM g = some r →
      r.length = l.length ∧ ∀ i (h1 : i < l.length) (h2 : i < r.length), g l[i] = some r[i]
  | [], r, h => by
    simp only [List.mapM_nil, Option.pure_def, Option.some.injEq] at h
    subst h; simp
  | a :: l, r, h => by
    simp only [List.mapM_cons, Option.pure_def, Option.bind_eq_bind] at h
    cases ha : g a with
    | none => simp [ha] at h
    | some b =>
      cases hl : l.mapM g with
      | none => simp [ha, hl] at h
      | some r' =>
        simp only [ha, hl, Option.bind_some, Option.some.injEq] at h
        subst h
        obtain ⟨h1, h2⟩ := mapM_some_inv g l r' hl
        refine ⟨by simp [h1], ?_⟩
        intro i hi1 hi2
        cases i with
        | zero => simpa using ha
        | succ i => simpa using h2 i (by simpa using hi1) (by simpa using hi2)

theorem listBeq_pointwise {F} (ops : FieldOps F) :
    ∀ (a b : List F), listBeq ops a b = true →
      a.length = b.length ∧ ∀ i (h1 : i < a.length) (h2 : i < b.length), ops.beq a[i] b[i] = true
  | [], [], _ => by simp
  | [], _ :: _, h => by simp [listBeq] at h
  | _ :: _, [], h => by simp [listBeq] at h
  | x :: a, y :: b, h => by
    simp only [listBeq, Bool.and_eq_true] at h
    obtain ⟨h1, h2⟩ := listBeq_pointwise ops a b h.2
    refine ⟨by simp [h1], ?_⟩
    intro i hi1 hi2
    cases i with
    | zero => simpa using h.1
    | succ i => simpa using h2 i (by simpa using hi1) (by simpa using hi2)

/-- `get_query_values` treats EVERY listed position separately: entry `i` of the result is the
element at row `position(folded, positions[i] % rowLen)`, column `positions[i] / rowLen` -/
theorem getQueryValues_some {F} (values : List (List F)) (positions folded : List Nat) (d n : Nat)
    (qv : List F) (h : getQueryValues values positions folded d n = some qv) :
    qv.length = positions.length ∧
    ∀ i (h1 : i < positions.length) (h2 : i < qv.length), ∃ idx row,
      folded.findIdx? (· == positions[i] % (d / n)) = some idx ∧ values[idx]? = some row ∧
      row[positions[i] / (d / n)]? = some qv[i] := by
  unfold getQueryValues at h
  split at h
  · cases h
  · split at h
    · cases h
    · obtain ⟨hl, hp⟩ := mapM_some_inv _ positions qv h
      refine ⟨hl, ?_⟩
      intro i h1 h2
      have := hp i h1 h2
      split at this
      · cases this
      · rename_i idx hidx
        split at this
        · cases this
        · rename_i row hrow
          exact ⟨idx, row, hidx, hrow, this⟩

end Wf.Fri
