/-
Lucas certificates: the three field moduli are prime, the documented generators generate the
multiplicative groups, and the two-adic roots of unity have exact order 2^s.
All modular powers are evaluated by the kernel through the verified `powMod`.
-/
import Wf.Lemmas.PowMod
import Mathlib.Tactic.NormNum.Prime
import Mathlib.GroupTheory.OrderOfElement
namespace Wf

def P64 : Nat := 18446744069414584321
def P62 : Nat := 4611624995532046337
def P128 : Nat := 340282366920938463463374557953744961537

theorem P64_fac : P64 - 1 = 2 ^ 32 * 3 * 5 * 17 * 257 * 65537 := by decide
theorem P62_fac : P62 - 1 = 2 ^ 39 * 13 * 17 * 37957 := by decide
theorem P128_fac : P128 - 1 = 2 ^ 40 * 29 * 181 * 286619 * 11394379 * 18053749339 := by decide

theorem eq_of_prime_dvd_prime {q r : Nat} (hq : q.Prime) (hr : r.Prime) (h : q ∣ r) : q = r :=
  (Nat.prime_dvd_prime_iff_eq hq hr).mp h

theorem eq_two_of_prime_dvd_two_pow {q k : Nat} (hq : q.Prime) (h : q ∣ 2 ^ k) : q = 2 :=
  eq_of_prime_dvd_prime hq Nat.prime_two (hq.dvd_of_dvd_pow h)

/-- prime divisors of p64 − 1 -/
theorem P64_prime_factors (q : Nat) (hq : q.Prime) (h : q ∣ P64 - 1) :
    q = 2 ∨ q = 3 ∨ q = 5 ∨ q = 17 ∨ q = 257 ∨ q = 65537 := by
  rw [P64_fac] at h
  rcases (hq.dvd_mul).mp h with h | h
  · rcases (hq.dvd_mul).mp h with h | h
    · rcases (hq.dvd_mul).mp h with h | h
      · rcases (hq.dvd_mul).mp h with h | h
        · rcases (hq.dvd_mul).mp h with h | h
          · exact Or.inl (eq_two_of_prime_dvd_two_pow hq h)
          · exact Or.inr (Or.inl (eq_of_prime_dvd_prime hq (by norm_num) h))
        · exact Or.inr (Or.inr (Or.inl (eq_of_prime_dvd_prime hq (by norm_num) h)))
      · exact Or.inr (Or.inr (Or.inr (Or.inl (eq_of_prime_dvd_prime hq (by norm_num) h))))
    · exact Or.inr (Or.inr (Or.inr (Or.inr (Or.inl (eq_of_prime_dvd_prime hq (by norm_num) h)))))
  · exact Or.inr (Or.inr (Or.inr (Or.inr (Or.inr (eq_of_prime_dvd_prime hq (by norm_num) h)))))

theorem P62_prime_factors (q : Nat) (hq : q.Prime) (h : q ∣ P62 - 1) :
    q = 2 ∨ q = 13 ∨ q = 17 ∨ q = 37957 := by
  rw [P62_fac] at h
  rcases (hq.dvd_mul).mp h with h | h
  · rcases (hq.dvd_mul).mp h with h | h
    · rcases (hq.dvd_mul).mp h with h | h
      · exact Or.inl (eq_two_of_prime_dvd_two_pow hq h)
      · exact Or.inr (Or.inl (eq_of_prime_dvd_prime hq (by norm_num) h))
    · exact Or.inr (Or.inr (Or.inl (eq_of_prime_dvd_prime hq (by norm_num) h)))
  · exact Or.inr (Or.inr (Or.inr (eq_of_prime_dvd_prime hq (by norm_num) h)))

set_option maxRecDepth 100000 in
theorem P128_prime_factors (q : Nat) (hq : q.Prime) (h : q ∣ P128 - 1) :
    q = 2 ∨ q = 29 ∨ q = 181 ∨ q = 286619 ∨ q = 11394379 ∨ q = 18053749339 := by
  rw [P128_fac] at h
  rcases (hq.dvd_mul).mp h with h | h
  · rcases (hq.dvd_mul).mp h with h | h
    · rcases (hq.dvd_mul).mp h with h | h
      · rcases (hq.dvd_mul).mp h with h | h
        · rcases (hq.dvd_mul).mp h with h | h
          · exact Or.inl (eq_two_of_prime_dvd_two_pow hq h)
          · exact Or.inr (Or.inl (eq_of_prime_dvd_prime hq (by norm_num) h))
        · exact Or.inr (Or.inr (Or.inl (eq_of_prime_dvd_prime hq (by norm_num) h)))
      · exact Or.inr (Or.inr (Or.inr (Or.inl (eq_of_prime_dvd_prime hq (by norm_num) h))))
    · exact Or.inr (Or.inr (Or.inr (Or.inr (Or.inl (eq_of_prime_dvd_prime hq (by norm_num) h)))))
  · exact Or.inr (Or.inr (Or.inr (Or.inr (Or.inr (eq_of_prime_dvd_prime hq (by norm_num) h)))))

/-! ### the Lucas data: g^(p−1) = 1 and g^((p−1)/q) ≠ 1 for every prime q | p − 1 -/

theorem g64_pow : ((7 : Nat) : ZMod P64) ^ (P64 - 1) = 1 :=
  zmod_pow_eq_one P64 7 _ (by decide) (by decide) (by decide +kernel)

theorem g64_pow_div (q : Nat) (hq : q.Prime) (h : q ∣ P64 - 1) :
    ((7 : Nat) : ZMod P64) ^ ((P64 - 1) / q) ≠ 1 := by
  rcases P64_prime_factors q hq h with rfl | rfl | rfl | rfl | rfl | rfl <;>
    exact zmod_pow_ne_one P64 7 _ (by decide) (by decide) (by decide +kernel)

theorem g62_pow : ((3 : Nat) : ZMod P62) ^ (P62 - 1) = 1 :=
  zmod_pow_eq_one P62 3 _ (by decide) (by decide) (by decide +kernel)

theorem g62_pow_div (q : Nat) (hq : q.Prime) (h : q ∣ P62 - 1) :
    ((3 : Nat) : ZMod P62) ^ ((P62 - 1) / q) ≠ 1 := by
  rcases P62_prime_factors q hq h with rfl | rfl | rfl | rfl <;>
    exact zmod_pow_ne_one P62 3 _ (by decide) (by decide) (by decide +kernel)

theorem g128_pow : ((3 : Nat) : ZMod P128) ^ (P128 - 1) = 1 :=
  zmod_pow_eq_one P128 3 _ (by decide) (by decide) (by decide +kernel)

theorem g128_pow_div (q : Nat) (hq : q.Prime) (h : q ∣ P128 - 1) :
    ((3 : Nat) : ZMod P128) ^ ((P128 - 1) / q) ≠ 1 := by
  rcases P128_prime_factors q hq h with rfl | rfl | rfl | rfl | rfl | rfl <;>
    exact zmod_pow_ne_one P128 3 _ (by decide) (by decide) (by decide +kernel)

theorem P64_prime : P64.Prime := lucas_primality P64 _ g64_pow g64_pow_div
theorem P62_prime : P62.Prime := lucas_primality P62 _ g62_pow g62_pow_div
theorem P128_prime : P128.Prime := lucas_primality P128 _ g128_pow g128_pow_div

/-- the documented generators generate the whole multiplicative group -/
theorem g64_order : orderOf ((7 : Nat) : ZMod P64) = P64 - 1 :=
  orderOf_eq_of_pow_and_pow_div_prime (by decide) g64_pow g64_pow_div
theorem g62_order : orderOf ((3 : Nat) : ZMod P62) = P62 - 1 :=
  orderOf_eq_of_pow_and_pow_div_prime (by decide) g62_pow g62_pow_div
theorem g128_order : orderOf ((3 : Nat) : ZMod P128) = P128 - 1 :=
  orderOf_eq_of_pow_and_pow_div_prime (by decide) g128_pow g128_pow_div

end Wf

namespace Wf

/-- in any monoid: if x has order 2^s then x^(2^(s−n)) has order 2^n (all 0 ≤ n ≤ s at once) -/
theorem orderOf_pow_two_pow {G : Type} [Monoid G] (x : G) (s n : Nat) (hn : n ≤ s)
    (hx : orderOf x = 2 ^ s) : orderOf (x ^ (2 ^ (s - n))) = 2 ^ n := by
  rw [orderOf_pow' x (by positivity), hx]
  have hd : 2 ^ (s - n) ∣ 2 ^ s := pow_dvd_pow 2 (Nat.sub_le s n)
  rw [Nat.gcd_eq_right hd]
  have : 2 ^ s = 2 ^ n * 2 ^ (s - n) := by rw [← pow_add]; congr 1; omega
  rw [this, Nat.mul_div_cancel _ (by positivity)]

/-- order 2^s from the two Lucas-style powers -/
theorem order_two_pow_of_pows {G : Type} [Monoid G] (x : G) (s : Nat)
    (h1 : x ^ 2 ^ (s + 1) = 1) (h2 : ¬ x ^ 2 ^ s = 1) : orderOf x = 2 ^ (s + 1) :=
  orderOf_eq_prime_pow h2 h1

theorem root64_order : orderOf ((7277203076849721926 : Nat) : ZMod P64) = 2 ^ 32 :=
  order_two_pow_of_pows _ 31
    (zmod_pow_eq_one P64 _ _ (by decide) (by decide) (by decide +kernel))
    (zmod_pow_ne_one P64 _ _ (by decide) (by decide) (by decide +kernel))

theorem root62_order : orderOf ((4421547261963328785 : Nat) : ZMod P62) = 2 ^ 39 :=
  order_two_pow_of_pows _ 38
    (zmod_pow_eq_one P62 _ _ (by decide) (by decide) (by decide +kernel))
    (zmod_pow_ne_one P62 _ _ (by decide) (by decide) (by decide +kernel))

theorem root128_order : orderOf ((23953097886125630542083529559205016746 : Nat) : ZMod P128) = 2 ^ 40 :=
  order_two_pow_of_pows _ 39
    (zmod_pow_eq_one P128 _ _ (by decide) (by decide) (by decide +kernel))
    (zmod_pow_ne_one P128 _ _ (by decide) (by decide) (by decide +kernel))

end Wf
