/- Lemmas for C19 (fix f1ad895): `get_root` accepts a batch proof only if every supplied node has
   been consumed.  No tree, no property of `merge` is needed here: the run of `get_root` is
   monotone in the node vectors (extending a vector cannot change what a successful run reads),
   so the final pointers of an accepted run are a function of (depth, indexes, leaves, the nodes
   that were read) and the consumption check pins the vector lengths to them. -/
import Wf.Lemmas.MerkleSound
namespace Wf.Merkle

variable {D : Type}

/-! ### a successful run is unchanged by extending node vectors -/

theorem grPair_mono (imap : AMap Nat) (lv : List D) (pn pn' : List (List D)) (hext : Ext pn pn')
    (i e : Nat) (b : D × D × Nat) (hb : grPair imap lv pn i e = .ok b) :
    grPair imap lv pn' i e = .ok b := by
  unfold grPair at hb ⊢
  cases hx : pn[i]? with
  | none =>
    simp only [hx] at hb
    repeat' split at hb
    all_goals simp_all
  | some x =>
    obtain ⟨y, hy, hpre⟩ := hext i x hx
    cases x with
    | nil =>
      simp only [hx] at hb
      repeat' split at hb
      all_goals simp_all
    | cons b0 tl =>
      obtain ⟨tl', rfl⟩ := hpre
      simp only [hx] at hb
      simp only [hy, List.cons_append]
      exact hb

theorem grFirst_mono (merge : D → D → D) (imap : AMap Nat) (lv : List D) (pn pn' : List (List D))
    (hext : Ext pn pn') (off : Nat) :
    ∀ (rest : List Nat) (i : Nat) (v : AMap D) (log : List (Nat × D)) (r : GSt D × List Nat),
      grFirst merge imap lv pn off i rest v log = .ok r →
      grFirst merge imap lv pn' off i rest v log = .ok r
  | [], i, v, log, r, h => by simpa [grFirst] using h
  | e :: rest, i, v, log, r, h => by
    unfold grFirst at h ⊢
    split at h
    · cases h
    · cases h
    · rename_i b hb
      rw [grPair_mono imap lv pn pn' hext i e b hb]
      split at h
      · cases h
      · cases h
      · rename_i r' hr'
        simp only
        rw [grFirst_mono merge imap lv pn pn' hext off rest (i + 1) _ _ r' hr']
        exact h

theorem grSibling_mono (pn pn' : List (List D)) (hext : Ext pn pn') (ptrs : List Nat) (i : Nat)
    (sp : D × List Nat) (h : grSibling pn ptrs i = .ok sp) : grSibling pn' ptrs i = .ok sp := by
  unfold grSibling at h ⊢
  split at h
  · cases h
  · rename_i q hq
    split at h
    · cases h
    · rename_i ni hni
      obtain ⟨ni', hni', tl, rfl⟩ := hext i ni hni
      simp only [hni']
      split at h
      · cases h
      · rename_i s hs
        have hlt : q < ni.length := (List.getElem?_eq_some_iff.mp hs).1
        rw [List.getElem?_append_left hlt, hs]
        exact h

theorem grLevel_mono (merge : D → D → D) (pn pn' : List (List D)) (hext : Ext pn pn') :
    ∀ (idxs : List Nat) (i : Nat) (st : GSt D) (r : GSt D × List Nat),
      grLevel merge pn i idxs st = .ok r → grLevel merge pn' i idxs st = .ok r
  | [], i, st, r, h => by simpa [grLevel] using h
  | [x], i, st, r, h => by
    unfold grLevel at h ⊢
    split at h
    · cases h
    · cases h
    · rename_i sp hsp
      rw [grSibling_mono pn pn' hext st.ptrs i sp hsp]
      exact h
  | x :: y :: rest, i, st, r, h => by
    unfold grLevel at h ⊢
    split at h
    · rename_i hsib
      rw [if_pos hsib]
      split at h
      · cases h
      · rename_i s hs
        split at h
        · cases h
        · cases h
        · rename_i vl hvl
          split at h
          · cases h
          · cases h
          · rename_i r' hr'
            rw [grLevel_mono merge pn pn' hext rest (i + 2) _ r' hr']
            exact h
    · rename_i hsib
      rw [if_neg hsib]
      split at h
      · cases h
      · cases h
      · rename_i sp hsp
        rw [grSibling_mono pn pn' hext st.ptrs i sp hsp]
        simp only
        split at h
        · cases h
        · cases h
        · rename_i vl hvl
          split at h
          · cases h
          · cases h
          · rename_i r' hr'
            rw [grLevel_mono merge pn pn' hext (y :: rest) (i + 1) _ r' hr']
            exact h

theorem grLevels_mono (merge : D → D → D) (pn pn' : List (List D)) (hext : Ext pn pn') :
    ∀ (k : Nat) (idxs : List Nat) (st st' : GSt D),
      grLevels merge pn k idxs st = .ok st' → grLevels merge pn' k idxs st = .ok st'
  | 0, _, _, _, h => by simpa [grLevels] using h
  | k + 1, idxs, st, st', h => by
    unfold grLevels at h ⊢
    split at h
    · cases h
    · cases h
    · rename_i r hr
      rw [grLevel_mono merge pn pn' hext idxs 0 st r hr]
      exact grLevels_mono merge pn pn' hext k r.2 r.1 st' h

/-- the common run of `get_root` / `into_openings`: same depth byte, same number of vectors,
    every vector extended ⇒ same successful run -/
theorem grRun_mono (merge : D → D → D) (p p' : BatchProof D) (hd : p'.depth = p.depth)
    (hl : p'.nodes.length = p.nodes.length) (hext : Ext p.nodes p'.nodes) (idxs : List Nat)
    (lv : List D) (st : GSt D) (h : grRun merge p idxs lv = .ok st) :
    grRun merge p' idxs lv = .ok st := by
  unfold grRun at h ⊢
  rw [hd, hl]
  split at h
  · cases h
  · cases h
  · rename_i imap hmap
    split at h
    · cases h
    · rename_i hlen
      rw [if_neg hlen]
      split at h
      · cases h
      · cases h
      · rename_i r hr
        rw [grFirst_mono merge imap lv p.nodes p'.nodes hext _ _ 0 [] [] r hr]
        exact grLevels_mono merge p.nodes p'.nodes hext _ r.2 r.1 st h

/-! ### `get_root` inverted -/

theorem getRoot_ok_inv (merge : D → D → D) (p : BatchProof D) (idxs : List Nat) (lv : List D)
    (root : D) (hg : p.getRoot merge idxs lv = .ok root) :
    idxs.isEmpty = false ∧ idxs.length = lv.length ∧ ∃ st, grRun merge p idxs lv = .ok st ∧
      st.ptrs = p.nodes.map List.length ∧ AMap.get st.v 1 = some root := by
  unfold BatchProof.getRoot at hg
  split at hg
  · cases hg
  · rename_i hie
    split at hg
    case isTrue => cases hg
    rename_i hlv
    refine ⟨by simpa using hie, by simpa using hlv, ?_⟩
    split at hg
    · cases hg
    · cases hg
    · rename_i st hrun
      split at hg
      case isTrue => cases hg
      rename_i hused
      split at hg
      case h_2 => cases hg
      rename_i rt hroot
      simp only [Res.ok.injEq] at hg
      subst hg
      exact ⟨st, hrun, unusedNodes_false_eq st.ptrs p.nodes
        (grRun_ptrs_length merge p idxs lv st hrun) (by simpa using hused), hroot⟩

theorem Ext.modify_append (a : List (List D)) (j : Nat) (ext : List D) :
    Ext a (a.modify j (· ++ ext)) := by
  intro i x hx
  rw [List.getElem?_modify, hx]
  by_cases h : j = i
  · exact ⟨x ++ ext, by simp [h], List.prefix_append x ext⟩
  · exact ⟨x, by simp [h], List.prefix_refl x⟩

/-- ANY proper extension of an accepted proof is rejected: same depth byte, same number of node
    vectors, every vector of `p` a prefix of the corresponding vector of `p'`, `p' ≠ p` -/
theorem getRoot_extension_rejected (merge : D → D → D) (p p' : BatchProof D) (idxs : List Nat)
    (lv : List D) (root : D) (hg : p.getRoot merge idxs lv = .ok root)
    (hd : p'.depth = p.depth) (hl : p'.nodes.length = p.nodes.length)
    (hext : Ext p.nodes p'.nodes) (hne : p' ≠ p) :
    p'.getRoot merge idxs lv = .err .invalid := by
  obtain ⟨hie, hlv, st, hrun, hptrs, _⟩ := getRoot_ok_inv merge p idxs lv root hg
  have hrun' := grRun_mono merge p p' hd hl hext idxs lv st hrun
  have hused : unusedNodes st.ptrs p'.nodes = true := by
    cases hu : unusedNodes st.ptrs p'.nodes with
    | true => rfl
    | false =>
      exfalso
      have hp' := unusedNodes_false_eq st.ptrs p'.nodes
        (by rw [hptrs, List.length_map]; exact hl.symm) hu
      have hnodes := ext_eq_of_lengths p.nodes p'.nodes hl.symm hext (by rw [← hptrs, hp'])
      apply hne
      cases p; cases p'
      simp only [BatchProof.mk.injEq] at hnodes hd ⊢
      exact ⟨hnodes.symm, hd⟩
  simp [BatchProof.getRoot, hie, hlv, hrun', hused]

/-- two vectors that are comparable in the prefix order and equally long are equal -/
theorem cmp_eq_of_lengths (a b : List (List D)) (hl : a.length = b.length)
    (hcmp : ∀ (j : Nat) (x y : List D), a[j]? = some x → b[j]? = some y → x <+: y ∨ y <+: x)
    (hlen : a.map List.length = b.map List.length) : a = b := by
  apply List.ext_getElem?
  intro i
  by_cases hi : i < a.length
  · obtain ⟨x, hx⟩ : ∃ x, a[i]? = some x := ⟨a[i], by simp [hi]⟩
    obtain ⟨y, hy⟩ : ∃ y, b[i]? = some y := ⟨b[i], by simp [← hl, hi]⟩
    have h1 : (a.map List.length)[i]? = some x.length := by rw [List.getElem?_map, hx]; rfl
    have h2 : (b.map List.length)[i]? = some y.length := by rw [List.getElem?_map, hy]; rfl
    rw [hlen, h2] at h1
    have hxy : x.length = y.length := (Option.some.inj h1).symm
    rw [hx, hy]
    rcases hcmp i x y hx hy with hp | hp
    · rw [hp.eq_of_length hxy]
    · rw [hp.eq_of_length hxy.symm]
  · rw [List.getElem?_eq_none (by omega), List.getElem?_eq_none (by omega)]

/-- the longer of two vectors -/
def longer (a b : List D) : List D := if a.length ≤ b.length then b else a

/-- NON-MALLEABILITY in the vector lengths: two accepted proofs (same depth byte, same indexes and
    leaves) whose node vectors are pairwise comparable in the prefix order — i.e. that differ at
    most in how many nodes each vector carries — are the same proof -/
theorem getRoot_unique_lengths (merge : D → D → D) (p p' : BatchProof D) (idxs : List Nat)
    (lv : List D) (root root' : D) (hg : p.getRoot merge idxs lv = .ok root)
    (hg' : p'.getRoot merge idxs lv = .ok root') (hd : p'.depth = p.depth)
    (hcmp : ∀ (j : Nat) (x y : List D), p.nodes[j]? = some x → p'.nodes[j]? = some y →
      x <+: y ∨ y <+: x) :
    p' = p := by
  obtain ⟨_, _, _, _, _, hlen, _⟩ := getRoot_run p idxs lv root hg
  obtain ⟨_, _, _, _, _, hlen', _⟩ := getRoot_run p' idxs lv root' hg'
  have hl : p'.nodes.length = p.nodes.length := by omega
  obtain ⟨_, _, st, hrun, hptrs, _⟩ := getRoot_ok_inv merge p idxs lv root hg
  obtain ⟨_, _, st', hrun', hptrs', _⟩ := getRoot_ok_inv merge p' idxs lv root' hg'
  -- the pointwise longer proof extends both
  let q : BatchProof D := ⟨List.zipWith longer p.nodes p'.nodes, p.depth⟩
  have hql : q.nodes.length = p.nodes.length := by simp [q, hl]
  have hget : ∀ (j : Nat) (x y : List D), p.nodes[j]? = some x → p'.nodes[j]? = some y →
      q.nodes[j]? = some (longer x y) := by
    intro j x y hx hy
    simp [q, List.getElem?_zipWith, hx, hy]
  have hext1 : Ext p.nodes q.nodes := by
    intro j x hx
    have hj : j < p'.nodes.length := by rw [hl]; exact (List.getElem?_eq_some_iff.mp hx).1
    obtain ⟨y, hy⟩ : ∃ y, p'.nodes[j]? = some y := ⟨p'.nodes[j], by simp [hj]⟩
    refine ⟨_, hget j x y hx hy, ?_⟩
    unfold longer
    split
    · rename_i hle
      rcases hcmp j x y hx hy with hp | hp
      · exact hp
      · rw [hp.eq_of_length (by have := hp.length_le; omega)]; exact List.prefix_refl _
    · exact List.prefix_refl _
  have hext2 : Ext p'.nodes q.nodes := by
    intro j y hy
    have hj : j < p.nodes.length := by rw [← hl]; exact (List.getElem?_eq_some_iff.mp hy).1
    obtain ⟨x, hx⟩ : ∃ x, p.nodes[j]? = some x := ⟨p.nodes[j], by simp [hj]⟩
    refine ⟨_, hget j x y hx hy, ?_⟩
    unfold longer
    split
    · exact List.prefix_refl _
    · rename_i hle
      rcases hcmp j x y hx hy with hp | hp
      · have := hp.length_le; omega
      · exact hp
  have h1 := grRun_mono merge p q rfl hql hext1 idxs lv st hrun
  have h2 := grRun_mono merge p' q hd.symm (by omega) hext2 idxs lv st' hrun'
  rw [h1] at h2
  have hst : st = st' := Res.ok.inj h2
  subst hst
  have hnodes := cmp_eq_of_lengths p.nodes p'.nodes hl.symm hcmp (by rw [← hptrs, hptrs'])
  cases p; cases p'
  simp only [BatchProof.mk.injEq] at hnodes hd ⊢
  exact ⟨hnodes.symm, hd⟩

end Wf.Merkle
