def hello := "world"
