/-
Value-level model of the field-element encodings and integer conversions
(`Serializable`/`Deserializable`, `TryFrom<..>`, `From<..>`, `from_random_bytes`,
`from_bytes_with_padding`, `get_root_of_unity`) of `math/src/field/{f64,f62,f128}/mod.rs` and
the extension wrappers.  Elements are their canonical values (C10 ties stored words to values).
The numeric constants come from `Wf.Gen.FieldConsts` (regenerated from source).
Core Lean only.
-/
import Wf.Model.Serde
import Wf.Model.PrimeSpec
import Wf.Gen.FieldConsts
namespace Wf

structure FieldParams where
  m : Nat            -- modulus
  bytes : Nat        -- ELEMENT_BYTES
  twoAdicity : Nat
  root : Nat         -- TWO_ADIC_ROOT_OF_UNITY (canonical value)
  generator : Nat
  deriving Repr

open Wf.Gen.FieldConsts in
def paramsF64 : FieldParams := ⟨F64.M, 8, F64.TWO_ADICITY, F64.TWO_ADIC_ROOT_OF_UNITY, F64.GENERATOR⟩
open Wf.Gen.FieldConsts in
def paramsF62 : FieldParams := ⟨F62.M, 8, F62.TWO_ADICITY, F62.TWO_ADIC_ROOT_OF_UNITY, F62.GENERATOR⟩
open Wf.Gen.FieldConsts in
def paramsF128 : FieldParams := ⟨F128.M, 16, F128.TWO_ADICITY, F128.TWO_ADIC_ROOT_OF_UNITY, F128.GENERATOR⟩

namespace FieldParams

/-- `write_into`: the canonical value as little-endian bytes -/
def write (f : FieldParams) (v : Nat) : Bytes := leBytes f.bytes v

/-- `read_from`: accept exactly the values below the modulus -/
def read (f : FieldParams) : Dec Nat := fun bs =>
  match readLe f.bytes bs with
  | .ok v rest => if v ≥ f.m then .err .invalid else .ok v rest
  | .err e => .err e
  | .abort => .abort

/-- `TryFrom<u64>` / `TryFrom<u128>` / `TryFrom<usize>` -/
def tryFromInt (f : FieldParams) (v : Nat) : Option Nat := if v ≥ f.m then none else some v

/-- `TryFrom<&[u8]>`: exactly `bytes` bytes, value below the modulus -/
def tryFromSlice (f : FieldParams) (bs : Bytes) : Option Nat :=
  if bs.length ≠ f.bytes then none else f.tryFromInt (fromLe bs)

/-- `from_bytes_with_padding` (precondition: fewer than `bytes` bytes) -/
def fromBytesWithPadding (f : FieldParams) (bs : Bytes) : Option Nat :=
  if bs.length < f.bytes then f.tryFromSlice (bs ++ List.replicate (f.bytes - bs.length) 0) else none

/-- `From<u8/u16/u32/bool>` (and `From<u64>` for f128): reduction is a no-op below the modulus -/
def fromSmall (f : FieldParams) (v : Nat) : Nat := v % f.m

/-- `TryFrom<BaseElement> for u8/u16/u32` and `bool`: succeed iff the canonical value fits -/
def toSmall (bits : Nat) (v : Nat) : Option Nat := if v < 2 ^ bits then some v else none

/-- `get_root_of_unity(n)` for 1 ≤ n ≤ two-adicity: root^(2^(s−n)) -/
def rootOfUnity (f : FieldParams) (n : Nat) : Option Nat :=
  if n = 0 ∨ n > f.twoAdicity then none
  else some ((Spec.pow ⟨f.m, 1, []⟩ [f.root] (2 ^ (f.twoAdicity - n))).head!)

/-- extension elements: `deg` base elements one after another -/
def writeExt (f : FieldParams) (vs : List Nat) : Bytes := (vs.map f.write).flatten

def readExt (f : FieldParams) : Nat → List Nat → Dec (List Nat)
  | 0, acc => fun bs => .ok acc.reverse bs
  | d + 1, acc => fun bs =>
    match f.read bs with
    | .ok v rest => readExt f d (v :: acc) rest
    | .err e => .err e
    | .abort => .abort

end FieldParams
end Wf
