/-
C29 models (core Lean only).

1. `validate` mirrors `Trace::validate` (prover/src/trace/mod.rs) over the description semantics
   of `Wf/Model/AirDesc.lean`, in the ORDER of the Rust code and reporting the FIRST failure (the
   Rust code panics there):
     * for every assertion, in the order of `get_assertions()`, `Assertion::apply` visits the steps
       `first + stride·i` in increasing `i` and compares the asserted value with the trace cell;
     * then for step = 0 .. n − exemptions − 1: all main transition constraints are evaluated on the
       frame (row step, row (step+1) mod n) with the periodic values of the step, and the results
       are checked in index order.
   Periodic values: the Rust code EVALUATES the periodic column polynomials at `x^(n/len)`,
   `x = g^step`; the model reads `values[step mod len]` (`perAt`).  That the two agree is the
   periodic-column theorem of C23 (interpolation of the cycle), and is additionally exercised by
   the stream `c29` (all generated periodic columns, every step).
   The auxiliary segment is not modelled (the description semantics is main-segment only).

2. A column-major model of `TraceTable` (`ColMatrix` = list of columns): `updateRow`, `set`, `get`,
   `readRow`, `fill`, `TraceTableFragment::fill` (a fill writing rows `offset + i` of the same
   columns), `fillFragments` (all fragments of a given length, one after the other – the fragments
   own disjoint row ranges, so the order / parallelism is irrelevant, theorem in C29) and `init`.
   `with_meta` allocates UNINITIALISED columns: the model takes the initial table as a parameter
   and the theorems hold for every initial content.
-/
import Wf.Model.AirDesc
namespace Wf.AirDesc

inductive Verdict where
  | ok
  | assertFail (col step : Nat)
  | transFail (idx step : Nat)
  deriving Repr, DecidableEq, Inhabited

/-- first step at which assertion `a` (with asserted values `claimed`) fails, in `apply` order -/
def assertFail? (p : Nat) (rows : List (List Nat)) (n : Nat) (a : Assert) (claimed : List Nat) : Option Nat :=
  (((assertSteps a n).zipIdx).find? (fun (step, i) =>
    !(cell rows step a.col == (if a.kind = 2 then claimed.getD i 0 else claimed.getD 0 0) % p))).map (·.1)

/-- assertions in order; the first failing (column, step) -/
def checkAsserts (p : Nat) (rows : List (List Nat)) (n : Nat) : List (Assert × List Nat) → Option (Nat × Nat)
  | [] => none
  | (a, c) :: rest =>
    match assertFail? p rows n a c with
    | some step => some (a.col, step)
    | none => checkAsserts p rows n rest

/-- index of the first transition constraint that is non-zero at `step` -/
def transFail? (p : Nat) (d : Desc) (rows : List (List Nat)) (n step : Nat) : Option Nat :=
  ((d.trans.zipIdx).find? (fun (t, _) =>
    !(eval p (rows.getD step []) (rows.getD ((step + 1) % n) []) (perAt d step) t.ex == 0))).map (·.2)

/-- the step loop `for step in from .. from + k` -/
def checkSteps (p : Nat) (d : Desc) (rows : List (List Nat)) (n : Nat) : Nat → Nat → Option (Nat × Nat)
  | 0, _ => none
  | k + 1, step =>
    match transFail? p d rows n step with
    | some i => some (i, step)
    | none => checkSteps p d rows n k (step + 1)

/-- `Trace::validate`: `ok` = returns normally, otherwise the site of the panic -/
def validate (p : Nat) (d : Desc) (rows : List (List Nat)) (n : Nat) (claimed : List (List Nat)) : Verdict :=
  match checkAsserts p rows n (d.asserts.zip claimed) with
  | some (c, s) => .assertFail c s
  | none =>
    match checkSteps p d rows n (n - d.exemptions) 0 with
    | some (i, s) => .transFail i s
    | none => .ok

/-! ### executable check of the hypothesis `Consistent` of C01/C02 (run by the driver on every
generated instance; `consistentB d = true → Consistent d` is proved in Lemmas/AirDesc.lean) -/

def exEq : Ex → Ex → Bool
  | .cur i, .cur j => i == j
  | .next i, .next j => i == j
  | .per i, .per j => i == j
  | .k v, .k w => v == w
  | .acur i, .acur j => i == j
  | .anext i, .anext j => i == j
  | .rnd i, .rnd j => i == j
  | .add a b, .add c d => exEq a c && exEq b d
  | .sub a b, .sub c d => exEq a c && exEq b d
  | .mul a b, .mul c d => exEq a c && exEq b d
  | _, _ => false

/-- the expression mentions next-row cells only with index `< i` -/
def nextBelowB (i : Nat) : Ex → Bool
  | .next j => j < i
  | .add a b => nextBelowB i a && nextBelowB i b
  | .sub a b => nextBelowB i a && nextBelowB i b
  | .mul a b => nextBelowB i a && nextBelowB i b
  | _ => true

/-- width = #gen = #trans, constraint i is `next i − gen i`, gen i refers to next cells below i -/
def consistentB (d : Desc) : Bool :=
  d.gen.length == d.width && d.trans.length == d.width &&
  (List.range d.width).all (fun i =>
    match d.trans[i]?, d.gen[i]? with
    | some t, some g => exEq t.ex (.sub (.next i) g) && nextBelowB i g
    | _, _ => false)

end Wf.AirDesc

namespace Wf.TraceTable

/-- rows produced by iterating a step function: row 0 = `row`, row i+1 = `upd (step+i) (row i)` -/
def iterRows {α : Type} (upd : Nat → α → α) : Nat → Nat → α → List α
  | 0, _, _ => []
  | k + 1, step, row => row :: iterRows upd k (step + 1) (upd step row)

/-- column-major table -/
abbrev Table := List (List Nat)

def get (t : Table) (c r : Nat) : Nat := (t.getD c []).getD r 0

/-- `ColMatrix::update_row`: `for (column, &value) in columns.iter_mut().zip(row) { column[r] = value }` -/
def updateRow (t : Table) (r : Nat) (state : List Nat) : Table :=
  t.mapIdx (fun c col => if c < state.length then col.set r (state.getD c 0) else col)

/-- `TraceTable::set` -/
def set (t : Table) (c r v : Nat) : Table :=
  t.mapIdx (fun j col => if j = c then col.set r v else col)

/-- `read_row_into` -/
def readRow (t : Table) (r : Nat) : List Nat := t.map (fun col => col.getD r 0)

/-- the loop `for i in 0..len-1 { update(i, state); update_row(off + i + 1, state) }` -/
def fillLoop (upd : Nat → List Nat → List Nat) (off : Nat) : Nat → Nat → List Nat → Table → Table
  | 0, _, _, t => t
  | k + 1, i, state, t => fillLoop upd off k (i + 1) (upd i state) (updateRow t (off + i + 1) (upd i state))

/-- `TraceTableFragment::fill` on the fragment with the given offset and length (`off = 0`,
`len = n`: `TraceTable::fill`) -/
def fillAt (t : Table) (off len : Nat) (init : List Nat) (upd : Nat → List Nat → List Nat) : Table :=
  fillLoop upd off (len - 1) 0 init (updateRow t off init)

/-- `TraceTable::fill` -/
def fill (t : Table) (n : Nat) (init : List Nat) (upd : Nat → List Nat → List Nat) : Table :=
  fillAt t 0 n init upd

/-- `fragments(len).for_each(|f| f.fill(init_i, |j, s| update(offset_i + j, s)))` for fragments
`from .. from + k`; `boundary i` is the state the caller's `init` closure writes for fragment `i` -/
def fillFragments (upd : Nat → List Nat → List Nat) (boundary : Nat → List Nat) (len : Nat) : Nat → Nat → Table → Table
  | 0, _, t => t
  | k + 1, i, t => fillFragments upd boundary len k (i + 1) (fillAt t (i * len) len (boundary i) (fun j => upd (i * len + j)))

/-- the fragments processed in an ARBITRARY order `is` (a list of fragment indices, repetitions
allowed): what any schedule of `fragments(len).for_each(..)` / the rayon parallel iterator amounts
to, since the fragments hold disjoint `&mut` row ranges -/
def fillFragList (upd : Nat → List Nat → List Nat) (boundary : Nat → List Nat) (len : Nat) (is : List Nat) (t : Table) : Table :=
  is.foldl (fun t i => fillAt t (i * len) len (boundary i) (fun j => upd (i * len + j))) t

/-- `TraceTable::init(columns)` -/
def init (columns : List (List Nat)) : Table := columns

/-- rows → columns (what a caller of `init` computes) -/
def columnsOf (width : Nat) (rows : List (List Nat)) : List (List Nat) :=
  (List.range width).map (fun c => rows.map (fun row => row.getD c 0))

end Wf.TraceTable
