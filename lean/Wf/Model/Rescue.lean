/-
Rescue-Prime hashers of `crypto/src/hash/rescue` (C16): Rp64_256, RpJive64_256, Rp62_248.

(a) `refPerm`   the REFERENCE permutation over any `FieldOps F` and constant tables (the independent
                specification): per round  x ↦ x^ALPHA, state ↦ MDS·state (plain matrix–vector
                product), + ARK1, x ↦ x^INV_ALPHA, MDS, + ARK2; NUM_ROUNDS rounds.
(b) `codePerm`  the permutation AS THE CODE COMPUTES IT: the s-boxes are the translated addition
                chains (`Wf.Gen.RescueChains`, `Wf.Gen.F64.exp7`), the linear layer of the two f64
                hashers is the translated frequency-domain `mds_multiply` (`Wf.Gen.RescueMds12/8`)
                on stored Montgomery words; Rp62_248's `apply_mds` is the row-by-row accumulation
                of the closure code (hand-modelled: iterator code is outside the translated subset).
(c) the five entry points, built on the absorption layouts of `Wf.Model.Hashers` with the
    permutation plugged in.

Hand-modelled here (tied by the correspondence stream c16 only): the round structure
(`apply_round`/`apply_permutation` loops), `add_constants`, the lane-wise application of the
s-boxes, the list <-> fixed-size-array conversions, Rp62's `apply_mds`, the Jive summation.
Constant tables, exponents, s-box chains and the MDS kernels are regenerated from source.

Core Lean only.
-/
import Wf.Model.Hashers
import Wf.Model.Fields
import Wf.Gen.RescueConsts
import Wf.Gen.RescueChains
import Wf.Gen.RescueMds12
import Wf.Gen.RescueMds8
namespace Wf.Rescue
open Wf.Gen

/-- parameters of one hasher: tables as in the source (`BaseElement::new(literal)` → the literal) -/
structure Params where
  p : Nat
  width : Nat
  rounds : Nat
  alpha : Nat
  invAlpha : Nat
  mds : List (List Nat)
  ark1 : List (List Nat)
  ark2 : List (List Nat)

def rp64Params : Params :=
  { p := FieldConsts.F64.M, width := RescueConsts.Rp64.STATE_WIDTH, rounds := RescueConsts.Rp64.NUM_ROUNDS,
    alpha := RescueConsts.Rp64.ALPHA, invAlpha := RescueConsts.Rp64.INV_ALPHA, mds := RescueConsts.Rp64.MDS,
    ark1 := RescueConsts.Rp64.ARK1, ark2 := RescueConsts.Rp64.ARK2 }

def jiveParams : Params :=
  { p := FieldConsts.F64.M, width := RescueConsts.Jive.STATE_WIDTH, rounds := RescueConsts.Jive.NUM_ROUNDS,
    alpha := RescueConsts.Jive.ALPHA, invAlpha := RescueConsts.Jive.INV_ALPHA, mds := RescueConsts.Jive.MDS,
    ark1 := RescueConsts.Jive.ARK1, ark2 := RescueConsts.Jive.ARK2 }

def rp62Params : Params :=
  { p := FieldConsts.F62.M, width := RescueConsts.Rp62.STATE_WIDTH, rounds := RescueConsts.Rp62.NUM_ROUNDS,
    alpha := RescueConsts.Rp62.ALPHA, invAlpha := RescueConsts.Rp62.INV_ALPHA, mds := RescueConsts.Rp62.MDS,
    ark1 := RescueConsts.Rp62.ARK1, ark2 := RescueConsts.Rp62.ARK2 }

/-! ## (a) reference -/

/-- x^n by the textbook recursion x^n = (x·x)^(n/2) · x^(n mod 2); `fuel` bounds the bit length -/
def powF {F} (ops : FieldOps F) : Nat → F → Nat → F
  | 0, _, _ => ops.one
  | f + 1, b, n =>
    if n = 0 then ops.one
    else if n % 2 = 1 then ops.mul b (powF ops f (ops.mul b b) (n / 2))
    else powF ops f (ops.mul b b) (n / 2)

/-- exponents are below 2^64 -/
def pow {F} (ops : FieldOps F) (x : F) (n : Nat) : F := powF ops 64 x n

/-- Σ row[j]·v[j] -/
def dot {F} (ops : FieldOps F) (row v : List F) : F :=
  (List.zipWith ops.mul row v).foldl ops.add ops.zero

/-- plain matrix–vector product -/
def matVec {F} (ops : FieldOps F) (m : List (List F)) (v : List F) : List F := m.map (fun row => dot ops row v)

def addVec {F} (ops : FieldOps F) (a b : List F) : List F := List.zipWith ops.add a b

/-- a table of literals as field elements (`BaseElement::new`) -/
def tableOf {F} (ops : FieldOps F) (t : List (List Nat)) : List (List F) := t.map (fun r => r.map ops.ofNat)

def rowOf {F} (ops : FieldOps F) (t : List (List Nat)) (i : Nat) : List F := (t.getD i []).map ops.ofNat

/-- half a round: power map, MDS, round constants -/
def refHalf {F} (ops : FieldOps F) (mds : List (List Nat)) (e : Nat) (ark : List F) (st : List F) : List F :=
  addVec ops (matVec ops (tableOf ops mds) (st.map (fun x => pow ops x e))) ark

def refRound {F} (ops : FieldOps F) (P : Params) (st : List F) (i : Nat) : List F :=
  refHalf ops P.mds P.invAlpha (rowOf ops P.ark2 i) (refHalf ops P.mds P.alpha (rowOf ops P.ark1 i) st)

def refPerm {F} (ops : FieldOps F) (P : Params) (st : List F) : List F :=
  (List.range P.rounds).foldl (refRound ops P) st

/-- inverse half round (for the bijection theorem; needs an inverse MDS table and the inverse exponent) -/
def refHalfInv {F} (ops : FieldOps F) (invMds : List (List Nat)) (e' : Nat) (ark : List F) (st : List F) : List F :=
  (matVec ops (tableOf ops invMds) (List.zipWith ops.sub st ark)).map (fun x => pow ops x e')

def refRoundInv {F} (ops : FieldOps F) (P : Params) (invMds : List (List Nat)) (st : List F) (i : Nat) : List F :=
  refHalfInv ops invMds P.invAlpha (rowOf ops P.ark1 i) (refHalfInv ops invMds P.alpha (rowOf ops P.ark2 i) st)

def refPermInv {F} (ops : FieldOps F) (P : Params) (invMds : List (List Nat)) (st : List F) : List F :=
  (List.range P.rounds).reverse.foldl (refRoundInv ops P invMds) st

/-! ## (b) the code -/

/-- the shape of `apply_round`: `apply_sbox; apply_mds; add_constants(ARK1[r]); apply_inv_sbox;
apply_mds; add_constants(ARK2[r])` with the three layers as parameters -/
def codeHalf {F} (ops : FieldOps F) (sb : F → F) (lin : List F → List F) (ark : List F) (st : List F) : List F :=
  addVec ops (lin (st.map sb)) ark

def codeRound {F} (ops : FieldOps F) (P : Params) (sbox invSbox : F → F) (lin : List F → List F)
    (st : List F) (i : Nat) : List F :=
  codeHalf ops invSbox lin (rowOf ops P.ark2 i) (codeHalf ops sbox lin (rowOf ops P.ark1 i) st)

def codePerm {F} (ops : FieldOps F) (P : Params) (sbox invSbox : F → F) (lin : List F → List F)
    (st : List F) : List F :=
  (List.range P.rounds).foldl (codeRound ops P sbox invSbox lin) st

abbrev W := BitVec 64
abbrev T12 := W × W × W × W × W × W × W × W × W × W × W × W
abbrev T8 := W × W × W × W × W × W × W × W

def toT12 (l : List W) : T12 :=
  (l.getD 0 0, l.getD 1 0, l.getD 2 0, l.getD 3 0, l.getD 4 0, l.getD 5 0, l.getD 6 0, l.getD 7 0,
   l.getD 8 0, l.getD 9 0, l.getD 10 0, l.getD 11 0)
def ofT12 (t : T12) : List W :=
  [t.1, t.2.1, t.2.2.1, t.2.2.2.1, t.2.2.2.2.1, t.2.2.2.2.2.1, t.2.2.2.2.2.2.1, t.2.2.2.2.2.2.2.1,
   t.2.2.2.2.2.2.2.2.1, t.2.2.2.2.2.2.2.2.2.1, t.2.2.2.2.2.2.2.2.2.2.1, t.2.2.2.2.2.2.2.2.2.2.2]
def toT8 (l : List W) : T8 :=
  (l.getD 0 0, l.getD 1 0, l.getD 2 0, l.getD 3 0, l.getD 4 0, l.getD 5 0, l.getD 6 0, l.getD 7 0)
def ofT8 (t : T8) : List W :=
  [t.1, t.2.1, t.2.2.1, t.2.2.2.1, t.2.2.2.2.1, t.2.2.2.2.2.1, t.2.2.2.2.2.2.1, t.2.2.2.2.2.2.2]

/-- `Rp64_256::apply_mds` = `mds_f64_12x12::mds_multiply` on the stored words -/
def mds12 (st : List W) : List W := ofT12 (RescueMds12.mds_multiply (toT12 st))
/-- `RpJive64_256::apply_mds` = `mds_f64_8x8::mds_multiply` -/
def mds8 (st : List W) : List W := ofT8 (RescueMds8.mds_multiply (toT8 st))

/-- `Rp64_256::apply_permutation` on stored (Montgomery) words -/
def rp64Code (st : List W) : List W :=
  codePerm F64.baseOps rp64Params (F64.exp7 F64.baseOps) (RescueChains.rp64InvSbox F64.baseOps) mds12 st

/-- `RpJive64_256::apply_permutation` on stored words -/
def jiveCode (st : List W) : List W :=
  codePerm F64.baseOps jiveParams (F64.exp7 F64.baseOps) (RescueChains.jiveInvSbox F64.baseOps) mds8 st

/-- `rp62_248::apply_permutation`, generic in the field operations; `apply_mds` accumulates
`r += m * s` row by row starting from ZERO, which is `matVec` -/
def rp62CodeG {F} (ops : FieldOps F) (st : List F) : List F :=
  codePerm ops rp62Params (RescueChains.rp62Sbox ops) (RescueChains.rp62InvSbox ops)
    (matVec ops (tableOf ops rp62Params.mds)) st

/-- on stored f62 words -/
def rp62Code (st : List W) : List W := rp62CodeG F62.baseOps st

/-! ### value-level views (canonical values in, canonical values out) -/

def w64 (v : Nat) : W := F64.new (BitVec.ofNat 64 v)
def v64 (w : W) : Nat := (F64.mont_to_int w).toNat
def w62 (v : Nat) : W := F62.new (BitVec.ofNat 64 v)
def v62 (w : W) : Nat := (F62.as_int w).toNat

def rp64CodeV (st : List Nat) : List Nat := (rp64Code (st.map w64)).map v64
def jiveCodeV (st : List Nat) : List Nat := (jiveCode (st.map w64)).map v64
def rp62CodeV (st : List Nat) : List Nat := (rp62Code (st.map w62)).map v62

def rp64Ref (st : List Nat) : List Nat := refPerm (natOps rp64Params.p) rp64Params (st.map (· % rp64Params.p))
def jiveRef (st : List Nat) : List Nat := refPerm (natOps jiveParams.p) jiveParams (st.map (· % jiveParams.p))
def rp62Ref (st : List Nat) : List Nat := refPerm (natOps rp62Params.p) rp62Params (st.map (· % rp62Params.p))

/-! ## (c) the hashers -/

/-- a hasher = absorption rules + where the capacity sits in the state + a permutation on values -/
structure Hasher where
  sponge : Sponge
  capFirst : Bool
  perm : List Nat → List Nat

/-- the permutation acting on the `(capacity, rate)` pair of `Sponge.eval` -/
def Hasher.permOn (h : Hasher) (st : List Nat × List Nat) : List Nat × List Nat :=
  if h.capFirst then
    ((h.perm (st.1 ++ st.2)).take h.sponge.capWidth, (h.perm (st.1 ++ st.2)).drop h.sponge.capWidth)
  else
    ((h.perm (st.2 ++ st.1)).drop h.sponge.rate, (h.perm (st.2 ++ st.1)).take h.sponge.rate)

/-- the state before the (single) permutation of a one-block layout: Jive's `initial_state` -/
def Hasher.initial (h : Hasher) (l : Layout) : List Nat × List Nat :=
  match l.ops with
  | [.add b] => (l.cap, h.sponge.addVec (List.replicate h.sponge.rate 0) b)
  | _ => (l.cap, List.replicate h.sponge.rate 0)

/-- `apply_jive_summation`: `initial[i] + initial[4+i] + final[i] + final[4+i]` -/
def jiveSum (p : Nat) (ini fin : List Nat × List Nat) : List Nat :=
  (List.range 4).map (fun i => (ini.1.getD i 0 + ini.2.getD i 0 + fin.1.getD i 0 + fin.2.getD i 0) % p)

/-- digest of a layout: `state[DIGEST_RANGE]` = the first four rate words, or (Jive `merge` /
`merge_with_int`, `compress = true`) the Jive summation -/
def Hasher.digest (h : Hasher) (compress : Bool) (l : Layout) : List Nat :=
  if compress then jiveSum h.sponge.p (h.initial l) (h.sponge.eval h.permOn l)
  else (h.sponge.eval h.permOn l).2.take 4

def Hasher.hash (h : Hasher) (bs : Bytes) : List Nat := h.digest false (h.sponge.hashLayout bs)
def Hasher.hashElements (h : Hasher) (es : List Nat) : List Nat := h.digest false (h.sponge.elemsLayout es)
def Hasher.mergeMany (h : Hasher) (ds : List (List Nat)) : List Nat := h.digest false (h.sponge.mergeManyLayout ds)
def Hasher.merge (h : Hasher) (a b : List Nat) : List Nat := h.digest h.sponge.jive (h.sponge.mergeLayout a b)
def Hasher.mergeWithInt (h : Hasher) (seed : List Nat) (v : Nat) : List Nat :=
  h.digest h.sponge.jive (h.sponge.mergeWithIntLayout seed v)

def rp64H (perm : List Nat → List Nat) : Hasher := ⟨rp64, true, perm⟩
def jiveH (perm : List Nat → List Nat) : Hasher := ⟨rpJive64, true, perm⟩
def rp62H (perm : List Nat → List Nat) : Hasher := ⟨rp62, false, perm⟩

end Wf.Rescue
