/-
Models of the protocol objects' wire formats and seed encodings:
`air/src/air/trace_info.rs`, `air/src/options.rs`, `air/src/proof/{context,commitments,queries,
ood_frame,mod}.rs`, `fri/src/proof.rs`, `crypto/src/merkle/proofs.rs` (BatchMerkleProof), digests.
Each `decode` mirrors `read_from` check by check (as of the `fix:` commits in /repo); `Valid*` is
what the public constructors accept.  Core Lean only.
-/
import Wf.Model.Serde
namespace Wf

/-- length-prefixed byte string: `write_u{8w}(len)` then the bytes; `read_u{8w}` then `read_vec` -/
def lenBytesEnc (w : Nat) (bs : Bytes) : Bytes := leBytes w bs.length ++ bs

def lenBytesDec (w : Nat) : Dec Bytes := fun bs =>
  match readLe w bs with
  | .ok n rest => readSlice n rest
  | .err e => .err e
  | .abort => .abort

def pow2B (n : Nat) : Bool := n != 0 && (n &&& (n - 1)) == 0

/-! ## TraceInfo -/

structure TraceInfo where
  main : Nat
  aux : Nat
  rands : Nat
  length : Nat
  metaBytes : Bytes
  deriving Repr, DecidableEq

namespace TraceInfo

/-- `new_multi_segment`'s assertions -/
def Valid (t : TraceInfo) : Prop :=
  8 ≤ t.length ∧ (∃ k, t.length = 2 ^ k ∧ k < 64) ∧ t.metaBytes.length ≤ 65535 ∧ 0 < t.main ∧
  t.main + t.aux ≤ 255 ∧ (t.aux = 0 → t.rands = 0) ∧ t.rands ≤ 255

/-- Does `TraceInfo::new_multi_segment(main, aux, rands, length, meta)` return (no assertion fires)?
`usize::is_power_of_two` is modelled as `2 ^ log2 n = n`; all arguments are `usize` (< 2^64). -/
def newOk (t : TraceInfo) : Bool :=
  decide (8 ≤ t.length) && (2 ^ t.length.log2 == t.length) && decide (t.length < 2 ^ 64) &&
  decide (t.metaBytes.length ≤ 65535) && decide (0 < t.main) && decide (t.main + t.aux ≤ 255) &&
  (t.aux != 0 || t.rands == 0) && decide (t.rands ≤ 255)

def encode (t : TraceInfo) : Bytes :=
  leBytes 1 t.main ++ leBytes 1 t.aux ++ leBytes 1 t.rands ++ leBytes 1 t.length.log2 ++
    leBytes 2 t.metaBytes.length ++ t.metaBytes

def decode : Dec TraceInfo := fun bs =>
  match readU8 bs with
  | .err e => .err e
  | .abort => .abort
  | .ok main r1 =>
    if main = 0 then .err .invalid else
    match readU8 r1 with
    | .err e => .err e
    | .abort => .abort
    | .ok aux r2 =>
      if main + aux > 255 then .err .invalid else
      match readU8 r2 with
      | .err e => .err e
      | .abort => .abort
      | .ok rands r3 =>
        if aux = 0 ∧ rands ≠ 0 then .err .invalid
        else if rands > 255 then .err .invalid else
        match readU8 r3 with
        | .err e => .err e
        | .abort => .abort
        | .ok lg r4 =>
          if lg < 3 then .err .invalid
          else if lg ≥ 64 then .err .invalid else
          match readU16 r4 with
          | .err e => .err e
          | .abort => .abort
          | .ok nmeta r5 =>
            if nmeta = 0 then .ok ⟨main, aux, rands, 2 ^ lg, []⟩ r5
            else match readSlice nmeta r5 with
              | .err e => .err e
              | .abort => .abort
              | .ok m r6 => .ok ⟨main, aux, rands, 2 ^ lg, m⟩ r6

/-- `chunks(n)` of a byte slice (fuel = length, so the recursion is structural) -/
def chunksAux (n : Nat) : Nat → Bytes → List Bytes
  | 0, _ => []
  | f + 1, bs => if n = 0 ∨ bs = [] then [] else bs.take n :: chunksAux n f (bs.drop n)

def chunks (n : Nat) (bs : Bytes) : List Bytes := chunksAux n bs.length bs

/-- `to_elements` for an element type of `eb` bytes: canonical integer values of the elements -/
def toElements (eb : Nat) (t : TraceInfo) : List Nat :=
  -- `num_aux_segments()` is 1 exactly when the auxiliary width is non-zero
  let buf := if t.aux > 0 then ((t.main * 256 + 1) * 256 + t.aux) * 256 + t.rands else t.main * 256 + 0
  [buf % 2 ^ 32, t.length % 2 ^ 32] ++ (chunks (eb - 1) t.metaBytes).map fromLe

end TraceInfo

/-! ## ProofOptions -/

structure ProofOptions where
  queries : Nat
  blowup : Nat
  grinding : Nat
  ext : Nat          -- FieldExtension as u8: 1, 2, 3
  folding : Nat
  remDeg : Nat
  batchC : Nat       -- BatchingMethod as u8: 0, 1, 2
  batchD : Nat
  nparts : Nat
  hashRate : Nat
  deriving Repr, DecidableEq

namespace ProofOptions

/-- `ProofOptions::new(..).with_partitions(..)` assertions -/
def Valid (o : ProofOptions) : Prop :=
  0 < o.queries ∧ o.queries ≤ 255 ∧ pow2B o.blowup = true ∧ 2 ≤ o.blowup ∧ o.blowup ≤ 128 ∧
  o.grinding ≤ 32 ∧ (o.ext = 1 ∨ o.ext = 2 ∨ o.ext = 3) ∧ pow2B o.folding = true ∧ 2 ≤ o.folding ∧
  o.folding ≤ 16 ∧ pow2B (o.remDeg + 1) = true ∧ o.remDeg ≤ 255 ∧ o.batchC ≤ 2 ∧ o.batchD ≤ 2 ∧
  1 ≤ o.nparts ∧ o.nparts ≤ 16 ∧ 1 ≤ o.hashRate ∧ o.hashRate ≤ 255

def validB (o : ProofOptions) : Bool :=
  decide (0 < o.queries) && decide (o.queries ≤ 255) && pow2B o.blowup && decide (2 ≤ o.blowup) &&
  decide (o.blowup ≤ 128) && decide (o.grinding ≤ 32) && pow2B o.folding && decide (2 ≤ o.folding) &&
  decide (o.folding ≤ 16) && pow2B (o.remDeg + 1) && decide (o.remDeg ≤ 255) &&
  decide (1 ≤ o.nparts) && decide (o.nparts ≤ 16) && decide (1 ≤ o.hashRate)

/-- Does `ProofOptions::new(..).with_partitions(nparts, hashRate)` return?  (`ext`, `batchC`,
`batchD` are enums on the Rust side: always in range there.) -/
def newOk (o : ProofOptions) : Bool :=
  o.validB && decide (o.hashRate ≤ 255) && decide (1 ≤ o.ext ∧ o.ext ≤ 3) && decide (o.batchC ≤ 2) &&
  decide (o.batchD ≤ 2)

def encode (o : ProofOptions) : Bytes :=
  [o.queries, o.blowup, o.grinding, o.ext, o.folding, o.remDeg, o.batchC, o.batchD, o.nparts,
    o.hashRate].map UInt8.ofNat

/-- a one-byte enum tag, validated where it is read -/
def readTag (valid : Nat → Bool) : Dec Nat := fun bs =>
  match readU8 bs with
  | .ok v r => if valid v then .ok v r else .err .invalid
  | .err e => .err e
  | .abort => .abort

def decode : Dec ProofOptions :=
  Dec.bind readU8 fun q =>
  Dec.bind readU8 fun b =>
  Dec.bind readU8 fun g =>
  Dec.bind (readTag fun e => e == 1 || e == 2 || e == 3) fun e =>
  Dec.bind readU8 fun f =>
  Dec.bind readU8 fun rd =>
  Dec.bind (readTag fun t => decide (t ≤ 2)) fun bc =>
  Dec.bind (readTag fun t => decide (t ≤ 2)) fun bd =>
  Dec.bind readU8 fun np =>
  Dec.bind readU8 fun hr =>
    let o : ProofOptions := ⟨q, b, g, e, f, rd, bc, bd, np, hr⟩
    if o.validB then Dec.pure o else Dec.fail .invalid

def toElements (o : ProofOptions) : List Nat :=
  [((o.ext * 256 + o.folding) * 256 + o.remDeg) * 256 + o.blowup, o.grinding, o.queries]

end ProofOptions

/-! ## Context -/

structure Context where
  info : TraceInfo
  modulus : Bytes
  options : ProofOptions
  numConstraints : Nat
  deriving Repr, DecidableEq

namespace Context

/-- `Context::new`'s assertions (plus validity of the parts and a NON-ZERO modulus of 1..254 bytes:
`Context::new::<B>` stores the modulus of a real field; `read_from` rejects an all-zero one) -/
def Valid (c : Context) : Prop :=
  c.info.Valid ∧ c.options.Valid ∧ c.info.length < 2 ^ 32 ∧ c.info.length * c.options.blowup < 2 ^ 32 ∧
  0 < c.numConstraints ∧ c.numConstraints < 2 ^ 32 ∧ 0 < c.modulus.length ∧ c.modulus.length < 255 ∧
  c.modulus.any (· != 0) = true

/-- Does `Context::new::<B>(info, options, num_constraints)` return, given constructed parts? -/
def newOk (c : Context) : Bool :=
  c.info.newOk && c.options.newOk && decide (c.info.length ≤ 2 ^ 32 - 1) &&
  decide (c.info.length * c.options.blowup ≤ 2 ^ 32 - 1) && decide (0 < c.numConstraints) &&
  decide (c.numConstraints ≤ 2 ^ 32 - 1)

def encode (c : Context) : Bytes :=
  c.info.encode ++ lenBytesEnc 1 c.modulus ++ c.options.encode ++ writeUsize c.numConstraints

def decode : Dec Context := fun bs =>
  match TraceInfo.decode bs with
  | .err e => .err e
  | .abort => .abort
  | .ok info r1 =>
    match readU8 r1 with
    | .err e => .err e
    | .abort => .abort
    | .ok n r2 =>
      if n = 0 then .err .invalid else
      match readSlice n r2 with
      | .err e => .err e
      | .abort => .abort
      | .ok m r3 =>
        -- `if field_modulus_bytes.iter().all(|&byte| byte == 0) { return Err(InvalidValue(..)) }`
        if m.all (· == 0) then .err .invalid else
        match ProofOptions.decode r3 with
        | .err e => .err e
        | .abort => .abort
        | .ok o r4 =>
          match readUsize r4 with
          | .err e => .err e
          | .abort => .abort
          | .ok nc r5 =>
            -- the limits asserted by `Context::new` (`saturating_mul` cannot saturate below 2^32)
            if info.length > 2 ^ 32 - 1 ∨ info.length * o.blowup > 2 ^ 32 - 1 then .err .invalid
            else if nc = 0 ∨ nc > 2 ^ 32 - 1 then .err .invalid
            else .ok ⟨info, m, o, nc⟩ r5

/-- `to_elements` (element type of `eb` bytes) -/
def toElements (eb : Nat) (c : Context) : List Nat :=
  let half := c.modulus.length / 2
  c.info.toElements eb ++ [fromLe (c.modulus.take half), fromLe (c.modulus.drop half),
    c.numConstraints % 2 ^ 32] ++ c.options.toElements

end Context

/-! ## byte containers: Commitments, Queries, OodFrame, FriProofLayer, FriProof -/

/-- `Commitments`: u16 length + bytes -/
def commitmentsEnc (bs : Bytes) : Bytes := lenBytesEnc 2 bs
def commitmentsDec : Dec Bytes := lenBytesDec 2

/-- `Vec<u8>`: vint64 length, then `read_many::<u8>(n)` element-wise (a huge `n` just runs out of
    input) -/
def bytesVec : Codec Bytes :=
  ⟨fun s => writeUsize s.length ++ s,
   fun bs => match readUsize bs with
     | .ok n r => if (r.take n).length < n then .err .eof else .ok (r.take n) (r.drop n)
     | .err e => .err e
     | .abort => .abort,
   24⟩

/-- `Queries` = (values, opening_proof): two `Vec<u8>` -/
def queriesCodec : Codec (Bytes × Bytes) := Codec.pair bytesVec bytesVec

/-- `OodFrame` = (trace_states, quotient_states): two u16-length-prefixed byte strings -/
def oodFrameEnc (f : Bytes × Bytes) : Bytes := lenBytesEnc 2 f.1 ++ lenBytesEnc 2 f.2
def oodFrameDec : Dec (Bytes × Bytes) := fun bs =>
  match lenBytesDec 2 bs with
  | .ok a r => (match lenBytesDec 2 r with
    | .ok b r' => .ok (a, b) r'
    | .err e => .err e
    | .abort => .abort)
  | .err e => .err e
  | .abort => .abort

/-- `FriProofLayer` = (values, paths): u32 lengths; an empty `values` is rejected -/
def friLayerEnc (l : Bytes × Bytes) : Bytes := lenBytesEnc 4 l.1 ++ lenBytesEnc 4 l.2
def friLayerDec : Dec (Bytes × Bytes) := fun bs =>
  match readLe 4 bs with
  | .err e => .err e
  | .abort => .abort
  | .ok n r =>
    if n = 0 then .err .invalid else
    match readSlice n r with
    | .err e => .err e
    | .abort => .abort
    | .ok vals r2 =>
      match lenBytesDec 4 r2 with
      | .ok p r3 => .ok (vals, p) r3
      | .err e => .err e
      | .abort => .abort

structure FriProof where
  layers : List (Bytes × Bytes)
  remainder : Bytes
  numPartitions : Nat
  deriving Repr, DecidableEq

def friProofEnc (p : FriProof) : Bytes :=
  leBytes 1 p.layers.length ++ (p.layers.map friLayerEnc).flatten ++ lenBytesEnc 2 p.remainder ++
    leBytes 1 p.numPartitions

def friProofDec : Dec FriProof := fun bs =>
  match readU8 bs with
  | .err e => .err e
  | .abort => .abort
  | .ok n r =>
    match readMany 48 friLayerDec n r with
    | .err e => .err e
    | .abort => .abort
    | .ok ls r2 =>
      match lenBytesDec 2 r2 with
      | .err e => .err e
      | .abort => .abort
      | .ok rem r3 =>
        match readU8 r3 with
        | .err e => .err e
        | .abort => .abort
        | .ok np r4 =>
          -- `if num_partitions as u32 >= usize::BITS { return Err(InvalidValue(..)) }` (fix 2a4d57e)
          if np ≥ 64 then .err .invalid else .ok ⟨ls, rem, np⟩ r4

end Wf

namespace Wf

/-! ## the whole proof (`air/src/proof/mod.rs`) -/

structure ProofM where
  context : Context
  numUniqueQueries : Nat
  commitments : Bytes
  traceQueries : List (Bytes × Bytes)
  constraintQueries : Bytes × Bytes
  oodFrame : Bytes × Bytes
  fri : FriProof
  nonce : Nat
  deriving Repr, DecidableEq

/-- `trace_info().num_segments()` -/
def numSegments (c : Context) : Nat := if c.info.aux > 0 then 2 else 1

def proofEnc (p : ProofM) : Bytes :=
  p.context.encode ++ leBytes 1 p.numUniqueQueries ++ commitmentsEnc p.commitments ++
    (p.traceQueries.map queriesCodec.enc).flatten ++ queriesCodec.enc p.constraintQueries ++
    oodFrameEnc p.oodFrame ++ friProofEnc p.fri ++ leBytes 8 p.nonce

def proofDec : Dec ProofM := fun bs =>
  match Context.decode bs with
  | .err e => .err e
  | .abort => .abort
  | .ok ctx r1 =>
    match readU8 r1 with
    | .err e => .err e
    | .abort => .abort
    | .ok nq r2 =>
      match commitmentsDec r2 with
      | .err e => .err e
      | .abort => .abort
      | .ok cm r3 =>
        match readManyLoop queriesCodec.dec (numSegments ctx) [] r3 with
        | .err e => .err e
        | .abort => .abort
        | .ok tq r4 =>
          match queriesCodec.dec r4 with
          | .err e => .err e
          | .abort => .abort
          | .ok cq r5 =>
            match oodFrameDec r5 with
            | .err e => .err e
            | .abort => .abort
            | .ok ood r6 =>
              match friProofDec r6 with
              | .err e => .err e
              | .abort => .abort
              | .ok fri r7 =>
                match readU64 r7 with
                | .err e => .err e
                | .abort => .abort
                | .ok nonce r8 => .ok ⟨ctx, nq, cm, tq, cq, ood, fri, nonce⟩ r8

end Wf
