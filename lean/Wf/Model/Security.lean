/-
Model of `air/src/proof/security.rs` (ConjecturedSecurity, ProvenSecurity), of the accessors
`Proof::conjectured_security / proven_security` (`air/src/proof/mod.rs`),
`Context::num_modulus_bits` (`air/src/proof/context.rs`) and of `AcceptableOptions::validate`
(`verifier/src/lib.rs`).  Core Lean only (linked into the native driver).

* `conjectured` mirrors the u32 arithmetic of `ConjecturedSecurity::compute` operation by operation.
  Every u32 operation goes through `u32op`, which is parameterised by the build mode:
  `checked` (debug / `overflow-checks = on`: leaving the u32 range is a panic, `none`) and
  `release` (wrap modulo 2^32).  The only operation that can leave the range for decodable inputs
  is the `- 1`, and only when `base_field_bits = 0` (theorems in `Wf/Props/C25.lean`).
* `provenSecurity` mirrors the f64 code with Lean's `Float` (IEEE binary64; `log2`, `sqrt`, `pow`,
  `ceil` are the platform libm's, as for Rust's std).  Nothing is PROVED about `Float`: this part is
  validated by the correspondence stream only (on the integer bit levels the API returns).  What
  is proved is the structure `provenGeneric` (min/max skeleton) for arbitrary `f_ud`, `f_ld`.
* `acceptableOptionsValidate` is the verifier's decision, variant by variant.

A proof enters only through its `Context` (`Wf.Context` of `Wf/Model/ProofObjects.lean`) and the
hash function only through `H::COLLISION_RESISTANCE` (`cr`).
-/
import Wf.Model.ProofObjects
namespace Wf.Security
open Wf

/-! ## u32 arithmetic with an explicit build mode -/

inductive Mode where
  | checked   -- overflow checks on: leaving the u32 range panics
  | release   -- overflow checks off: wrap modulo 2^32
  deriving DecidableEq, Repr

/-- one u32 operation whose mathematically exact result is `exact` -/
def u32op (m : Mode) (exact : Int) : Option Nat :=
  if 0 ≤ exact ∧ exact < 4294967296 then some exact.toNat
  else match m with
    | .checked => none
    | .release => some (exact % 4294967296).toNat

def GRINDING_CONTRIBUTION_FLOOR : Nat := 80
def MAX_PROXIMITY_PARAMETER : Nat := 1000

/-! ## ConjecturedSecurity::compute -/

/-- `ConjecturedSecurity::compute(options, base_field_bits, collision_resistance)`; `none` is a
panic.  `o.ext` is `field_extension().degree()`; `usize::ilog2` panics on 0 in every build. -/
def conjectured (m : Mode) (o : ProofOptions) (bits cr : Nat) : Option Nat :=
  if o.blowup = 0 then none else
  -- let field_security = base_field_bits * options.field_extension().degree();
  (u32op m ((bits : Int) * (o.ext : Int))).bind fun fieldSecurity =>
  -- let mut query_security = security_per_query * options.num_queries() as u32;
  (u32op m ((o.blowup.log2 : Int) * (o.queries : Int))).bind fun qs0 =>
  -- if query_security >= GRINDING_CONTRIBUTION_FLOOR { query_security += options.grinding_factor(); }
  (if qs0 ≥ GRINDING_CONTRIBUTION_FLOOR then u32op m ((qs0 : Int) + (o.grinding : Int)) else some qs0).bind
    fun querySecurity =>
  -- Self(cmp::min(cmp::min(field_security, query_security) - 1, collision_resistance))
  (u32op m ((min fieldSecurity querySecurity : Nat) - 1 : Int)).bind fun t =>
  some (min t cr)

/-- the value the code is meant to compute (exact integers; `Nat` subtraction never matters on the
valid domain, where both arguments of the inner `min` are positive) -/
def querySecurity (o : ProofOptions) : Nat :=
  if o.blowup.log2 * o.queries ≥ GRINDING_CONTRIBUTION_FLOOR then o.blowup.log2 * o.queries + o.grinding
  else o.blowup.log2 * o.queries

def conjBits (o : ProofOptions) (bits cr : Nat) : Nat :=
  min (min (bits * o.ext) (querySecurity o) - 1) cr

/-! ## Context::num_modulus_bits -/

/-- the loop over the bytes in reverse order; `n` is `num_bits` -/
def numModulusBitsAux : List UInt8 → Nat → Nat
  | [], _ => 0
  | b :: rest, n => if b ≠ 0 then n - (7 - b.toNat.log2) else numModulusBitsAux rest (n - 8)

def numModulusBits (modulus : Bytes) : Nat := numModulusBitsAux modulus.reverse (modulus.length * 8)

/-! ## ProvenSecurity (f64) -/

def INF : Float := 1.0 / 0.0

/-- Rust's `f64::min`: a NaN argument is ignored -/
def fmin (a b : Float) : Float :=
  if a.isNaN then b else if b.isNaN then a else if b < a then b else a

/-- `.into_iter().fold(f64::INFINITY, |a, b| a.min(b))` -/
def foldMin (xs : List Float) : Float := xs.foldl fmin INF

/-- `match method { Linear => 1.0, Algebraic | Horner => n as f64 - 1.0 }` -/
def batchingFactor (method n : Nat) : Float := if method = 0 then 1.0 else n.toFloat - 1.0

/-- `x as u64` for an f64 (saturating, NaN ↦ 0) -/
def asU64 (x : Float) : Nat := x.toUInt64.toNat

/-- `FriOptions::num_fri_layers`; the fuel 64 is enough because the folding factor is ≥ 2 and the
domain size is a u64 (`to_fri_options` panics on other folding factors) -/
def numFriLayersAux (maxRemainder folding : Nat) : Nat → Nat → Nat
  | 0, _ => 0
  | fuel + 1, d => if d > maxRemainder then numFriLayersAux maxRemainder folding fuel (d / folding) + 1 else 0

def numFriLayers (o : ProofOptions) (domainSize : Nat) : Nat :=
  numFriLayersAux ((o.remDeg + 1) * o.blowup) o.folding 64 domainSize

/-- `proven_security_protocol_for_given_proximity_parameter` (list-decoding regime) -/
def provenLD (o : ProofOptions) (bits h m nc ncp : Nat) : Nat :=
  let extBits : Float := (bits * o.ext).toFloat
  let q : Float := o.queries.toFloat
  let m : Float := m.toFloat
  let rho : Float := 1.0 / o.blowup.toFloat
  let alpha : Float := (1.0 + 0.5 / m) * Float.sqrt rho
  let maxDeg : Float := o.blowup.toFloat + 1.0
  let lde : Float := (h * o.blowup).toFloat
  let hF : Float := h.toFloat
  let numOpenings : Float := 2.0
  let l : Float := m / (rho - (2.0 * m / lde))
  let e1 : Float := ((-(Float.log2 l)) - Float.log2 (batchingFactor o.batchC nc)) + extBits
  let e2 : Float :=
    (-(Float.log2 (l * l * (maxDeg * (hF + numOpenings - 1.0) + (hF - 1.0))))) + extBits
  let e3 : Float := extBits -
    Float.log2 ((Float.pow (m + 0.5) 7.0 / (3.0 * Float.pow rho 1.5)) * Float.pow lde 2.0
      * batchingFactor o.batchD ncp)
  let ek : Float := o.grinding.toFloat - Float.log2 (Float.pow alpha q)
  asU64 (foldMin [e1, e2, e3, ek])

/-- `proven_security_protocol_unique_decoding` -/
def provenUD (o : ProofOptions) (bits h nc ncp : Nat) : Nat :=
  let extBits : Float := (bits * o.ext).toFloat
  let q : Float := o.queries.toFloat
  let lde : Float := (h * o.blowup).toFloat
  let hF : Float := h.toFloat
  let numOpenings : Float := 2.0
  let rhoPlus : Float := (hF + numOpenings) / lde
  let alpha : Float := (1.0 + rhoPlus) * 0.5
  let maxDeg : Float := o.blowup.toFloat + 1.0
  let e1 : Float := (-(Float.log2 (batchingFactor o.batchC nc))) + extBits
  let e2 : Float := (-(Float.log2 (maxDeg * (hF + numOpenings - 1.0) + (hF - 1.0)))) + extBits
  let e3 : Float := extBits - Float.log2 (lde * batchingFactor o.batchD ncp)
  let folding : Float := o.folding.toFloat
  -- `(0..num_fri_layers).map(|_| v).fold(INFINITY, min)`
  let ei : Float :=
    if numFriLayers o (asU64 lde) = 0 then INF
    else fmin INF (extBits - Float.log2 ((folding - 1.0) * (lde + 1.0)))
  let ek : Float := o.grinding.toFloat - Float.log2 (Float.pow alpha q)
  asU64 (foldMin [e1, e2, e3, ei, ek])

/-- `compute_upper_m`; `none` is the failing `assert!` -/
def computeUpperM (h : Nat) : Option Nat :=
  let hF : Float := h.toFloat
  let ratio : Float := (hF + 2.0) / hF
  let mMax : Float := Float.ceil (1.0 / (2.0 * (Float.sqrt ratio - 1.0)))
  if mMax ≥ hF / 2.0 then some (min (asU64 mMax) MAX_PROXIMITY_PARAMETER) else none

/-- `Iterator::max_by_key` (the LAST maximal element is returned) -/
def maxByKey (key : Nat → Nat) : List Nat → Option Nat
  | [] => none
  | x :: xs => some (xs.foldl (fun best y => if key y ≥ key best then y else best) x)

/-- the integer skeleton of `ProvenSecurity::compute` for arbitrary estimates `fud`, `fld`:
`(unique_decoding, list_decoding)`; `none` = the `expect` on an empty range of `m` -/
def provenGeneric (fud : Nat) (fld : Nat → Nat) (ms : List Nat) (cr : Nat) : Option (Nat × Nat) :=
  match maxByKey fld ms with
  | none => none
  | some mOpt => some (min fud cr, min (fld mOpt) cr)

/-- `(m_min as u32 .. m_max as u32)` with `m_min = 3` -/
def mRange (mMax : Nat) : List Nat := (List.range (mMax - 3)).map (· + 3)

/-- `ProvenSecurity::compute`: `(udr_bits, ldr_bits)` -/
def provenSecurity (o : ProofOptions) (bits h cr nc ncp : Nat) : Option (Nat × Nat) :=
  match computeUpperM h with
  | none => none
  | some mMax => provenGeneric (provenUD o bits h nc ncp) (fun m => provenLD o bits h m nc ncp) (mRange mMax) cr

/-! ## Proof::conjectured_security / proven_security -/

def conjecturedOfContext (m : Mode) (c : Context) (cr : Nat) : Option Nat :=
  conjectured m c.options (numModulusBits c.modulus) cr

def provenOfContext (c : Context) (cr : Nat) : Option (Nat × Nat) :=
  provenSecurity c.options (numModulusBits c.modulus) c.info.length cr c.numConstraints
    (c.info.main + c.info.aux + c.options.blowup)

/-! ## AcceptableOptions::validate -/

inductive Acceptable where
  | minConjectured (bits : Nat)
  | minProven (bits : Nat)
  | optionSet (opts : List ProofOptions)
  deriving Repr

inductive Verdict where
  | ok
  | insufficientConjectured (minimal got : Nat)
  | insufficientProven (minimal got : Nat)
  | unacceptableOptions
  | abort
  deriving DecidableEq, Repr

def acceptableOptionsValidate (m : Mode) (a : Acceptable) (c : Context) (cr : Nat) : Verdict :=
  match a with
  | .minConjectured minimal =>
    match conjecturedOfContext m c cr with
    | none => .abort
    | some v => if !(decide (v ≥ minimal)) then .insufficientConjectured minimal v else .ok
  | .minProven minimal =>
    match provenOfContext c cr with
    | none => .abort
    | some (ud, ld) =>
      if !(decide (ld ≥ minimal) || decide (ud ≥ minimal)) then .insufficientProven minimal (max ld ud)
      else .ok
  | .optionSet opts =>
    if !(opts.any fun o => o == c.options) then .unacceptableOptions else .ok

end Wf.Security
