/-
Executable field models: the generated f64 kernels packaged as `FieldOps`, the generic
(hand-modelled) parts of `math/src/field/traits.rs` and `extensions/{quadratic,cubic}.rs`
(exponentiation loops, extension-field wrappers, Frobenius/norm inversion).
Core Lean only.
-/
import Wf.Gen.F64
import Wf.Gen.F62
import Wf.Gen.F128
namespace Wf

/-- `FieldElement::exp_vartime` (LSB-first square-and-multiply); `bits` bounds the loop. -/
def expVartime {F} (ops : FieldOps F) (x : F) (power : Nat) : F :=
  if power = 0 then ops.one
  else if ops.beq x ops.zero then ops.zero
  else
    let rec go (fuel : Nat) (r b : F) (p : Nat) : F :=
      match fuel with
      | 0 => r
      | fuel + 1 =>
        if p = 0 then r
        else
          let r := if p % 2 = 1 then ops.mul r b else r
          go fuel r (ops.square b) (p / 2)
    go 128 ops.one x power

/-- f64 `exp`: constant-time MSB-first loop over all 64 bits (`r = r²; b = r·x; select`) -/
def f64ExpLoop {F} (ops : FieldOps F) (x : F) (power : Nat) : F :=
  let rec go (i : Nat) (r : F) : F :=
    match i with
    | 0 => r
    | i + 1 =>
      let r := ops.square r
      let r := if (power / 2 ^ i) % 2 = 1 then ops.mul r x else r
      go i r
  go 64 ops.one

/-- integers modulo `p` with every operation followed by `% p` (value-level arithmetic) -/
def natOps (p : Nat) : FieldOps Nat where
  zero := 0
  one := 1 % p
  add := fun a b => (a + b) % p
  sub := fun a b => (a + (p - b % p)) % p
  mul := fun a b => a * b % p
  neg := fun a => (p - a % p) % p
  double := fun a => (a + a) % p
  square := fun a => a * a % p
  inv := fun a => a          -- not used by the formulas evaluated at this instance
  ofNat := fun n => n % p
  beq := fun a b => a % p == b % p

namespace F64
open Wf.Gen.F64

def zero : BitVec 64 := Wf.Gen.F64.new 0#64
def one : BitVec 64 := Wf.Gen.F64.new 1#64

def baseOps : FieldOps (BitVec 64) where
  zero := zero
  one := one
  add := add
  sub := sub
  mul := mul
  neg := neg
  double := double
  square := fun x => mul x x
  inv := fun x => invChain
    { zero := zero, one := one, add := add, sub := sub, mul := mul, neg := neg, double := double,
      square := fun x => mul x x, inv := id, ofNat := fun n => Wf.Gen.F64.new (BitVec.ofNat 64 n),
      beq := fun a b => equals a b == 0xffffffffffffffff#64 } x
  ofNat := fun n => Wf.Gen.F64.new (BitVec.ofNat 64 n)
  beq := fun a b => equals a b == 0xffffffffffffffff#64

end F64

/-! ### extension wrappers (`QuadExtension<B>`, `CubeExtension<B>`) -/

def quadOps {F} (ops : FieldOps F) (mulF : (F × F) → (F × F) → (F × F)) (sqF : (F × F) → (F × F))
    (frobF : (F × F) → (F × F)) : FieldOps (F × F) where
  zero := (ops.zero, ops.zero)
  one := (ops.one, ops.zero)
  add := fun a b => (ops.add a.1 b.1, ops.add a.2 b.2)
  sub := fun a b => (ops.sub a.1 b.1, ops.sub a.2 b.2)
  mul := mulF
  neg := fun a => (ops.neg a.1, ops.neg a.2)
  double := fun a => (ops.double a.1, ops.double a.2)
  square := sqF
  inv := fun x =>
    if ops.beq x.1 ops.zero && ops.beq x.2 ops.zero then x
    else
      let numerator := frobF x
      let norm := mulF x numerator
      let denomInv := ops.inv norm.1
      (ops.mul numerator.1 denomInv, ops.mul numerator.2 denomInv)
  ofNat := fun n => (ops.ofNat n, ops.zero)
  conjugate := frobF
  beq := fun a b => ops.beq a.1 b.1 && ops.beq a.2 b.2

def cubeOps {F} (ops : FieldOps F) (mulF : (F × F × F) → (F × F × F) → (F × F × F))
    (sqF : (F × F × F) → (F × F × F)) (frobF : (F × F × F) → (F × F × F)) : FieldOps (F × F × F) where
  zero := (ops.zero, ops.zero, ops.zero)
  one := (ops.one, ops.zero, ops.zero)
  add := fun a b => (ops.add a.1 b.1, ops.add a.2.1 b.2.1, ops.add a.2.2 b.2.2)
  sub := fun a b => (ops.sub a.1 b.1, ops.sub a.2.1 b.2.1, ops.sub a.2.2 b.2.2)
  mul := mulF
  neg := fun a => (ops.neg a.1, ops.neg a.2.1, ops.neg a.2.2)
  double := fun a => (ops.double a.1, ops.double a.2.1, ops.double a.2.2)
  square := sqF
  inv := fun x =>
    if ops.beq x.1 ops.zero && ops.beq x.2.1 ops.zero && ops.beq x.2.2 ops.zero then x
    else
      let c1 := frobF x
      let c2 := frobF c1
      let numerator := mulF c1 c2
      let norm := mulF x numerator
      let denomInv := ops.inv norm.1
      (ops.mul numerator.1 denomInv, ops.mul numerator.2.1 denomInv, ops.mul numerator.2.2 denomInv)
  ofNat := fun n => (ops.ofNat n, ops.zero, ops.zero)
  conjugate := frobF
  beq := fun a b => ops.beq a.1 b.1 && ops.beq a.2.1 b.2.1 && ops.beq a.2.2 b.2.2

/-- x^n by square-and-multiply with the field's own multiplication (used for Fermat inversion in
    the value-level models of f62 / f128, whose binary-GCD `inv` is not translated) -/
def powBy {F} (mulF : F → F → F) (one : F) (x : F) (n : Nat) : F :=
  let rec go (fuel : Nat) (r b : F) (n : Nat) : F :=
    match fuel with
    | 0 => r
    | fuel + 1 => if n = 0 then r else go fuel (if n % 2 = 1 then mulF r b else r) (mulF b b) (n / 2)
  go 130 one x n

namespace F62
open Wf.Gen.F62
def zero : BitVec 64 := Wf.Gen.F62.new 0#64
def one : BitVec 64 := Wf.Gen.F62.new 1#64
def baseOps : FieldOps (BitVec 64) where
  zero := zero
  one := one
  add := add
  sub := sub
  mul := mul
  neg := fun x => sub 0#64 x
  double := double
  square := fun x => mul x x
  inv := fun x => powBy mul one x (M.toNat - 2)
  ofNat := fun n => Wf.Gen.F62.new (BitVec.ofNat 64 n)
  beq := fun a b => normalize a == normalize b
def quad : FieldOps (BitVec 64 × BitVec 64) :=
  quadOps baseOps (ext2Mul baseOps) (fun a => ext2Mul baseOps a a) (ext2Frobenius baseOps)
def cube : FieldOps (BitVec 64 × BitVec 64 × BitVec 64) :=
  cubeOps baseOps (ext3Mul baseOps) (fun a => ext3Mul baseOps a a) (ext3Frobenius baseOps)
end F62

namespace F128
open Wf.Gen.F128
def baseOps : FieldOps (BitVec 128) where
  zero := 0#128
  one := 1#128
  add := add
  sub := sub
  mul := mul
  neg := fun x => sub 0#128 x
  double := fun x => add x x
  square := fun x => mul x x
  inv := fun x => powBy mul 1#128 x (M.toNat - 2)
  ofNat := fun n => Wf.Gen.F128.new (BitVec.ofNat 128 n)
  beq := fun a b => a == b
def quad : FieldOps (BitVec 128 × BitVec 128) :=
  quadOps baseOps (ext2Mul baseOps) (fun a => ext2Mul baseOps a a) (ext2Frobenius baseOps)
end F128

namespace F64
open Wf.Gen.F64
def quad : FieldOps (BitVec 64 × BitVec 64) :=
  quadOps baseOps (ext2Mul baseOps) (ext2Square baseOps) (ext2Frobenius baseOps)
def cube : FieldOps (BitVec 64 × BitVec 64 × BitVec 64) :=
  cubeOps baseOps (ext3Mul baseOps) (ext3Square baseOps) (ext3Frobenius baseOps)
end F64

end Wf
