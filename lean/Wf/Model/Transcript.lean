/-
The verifier's public-coin transcript (`verifier/src/lib.rs::perform_verification`,
`fri/src/verifier/mod.rs::FriVerifier::new`) as a sequence of events: which commitments are absorbed
(`reseed`) and where challenges are drawn.  Consecutive draws are merged into one `draws` event.
Core Lean only.
-/
namespace Wf.Transcript

inductive Ev where
  | reseedTrace (segment : Nat)     -- trace segment commitment
  | reseedConstraint                -- constraint composition commitment
  | reseedOod                       -- digest of the out-of-domain evaluations
  | reseedFri (layer : Nat)         -- FRI layer commitment (the last one commits to the remainder)
  | draws                           -- one or more field-element draws
  | checkPow                        -- proof-of-work check on the nonce
  | drawPositions (n domain : Nat)  -- query positions
  deriving Repr, DecidableEq

/-- `FriOptions::num_fri_layers` -/
def numFriLayers (domain folding remDeg blowup : Nat) : Nat :=
  let rec go (fuel d acc : Nat) : Nat :=
    match fuel with
    | 0 => acc
    | fuel + 1 => if d > (remDeg + 1) * blowup then go fuel (d / folding) (acc + 1) else acc
  go 64 domain 0

def friEvents : Nat → Nat → List Ev
  | 0, _ => []
  | k + 1, i => .reseedFri i :: .draws :: friEvents k (i + 1)

/-- the whole transcript of an accepting run -/
def verifierTranscript (aux : Bool) (lde blowup folding remDeg queries : Nat) : List Ev :=
  [.reseedTrace 0] ++ (if aux then [.draws, .reseedTrace 1] else []) ++
  [.draws, .reseedConstraint, .draws, .reseedOod, .draws] ++
  friEvents (numFriLayers lde folding remDeg blowup + 1) 0 ++
  [.checkPow, .drawPositions queries lde]

def showEv : Ev → String
  | .reseedTrace i => s!"R:trace{i}"
  | .reseedConstraint => "R:constraint"
  | .reseedOod => "R:other"
  | .reseedFri i => s!"R:fri{i}"
  | .draws => "D"
  | .checkPow => "P"
  | .drawPositions n d => s!"I:{n}:{d}"

end Wf.Transcript
