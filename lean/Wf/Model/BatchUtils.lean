/-
Model of `math/src/utils/mod.rs` (get_power_series, get_power_series_with_offset, add_in_place,
mul_acc, batch_inversion, fill_power_series, serial_batch_inversion), of the `batch_iter_mut!`
chunking in `utils/core/src/iterators.rs` and of the grouping / flattening / transposition helpers
of `utils/core/src/lib.rs`.

Core Lean only (linked into `wfdriver`).  Conventions:
* a `&mut [E]` that is only written becomes the returned list;
* a Rust panic (index out of bounds, failed `assert!`, division by zero, `par_chunks_mut(0)`) is
  `none`; nothing is replaced by a default value;
* `threads` is `rayon::current_num_threads()`; the serial build behaves like `threads = 1`
  (one chunk at offset 0), see `chunkPlan`.
-/
import Wf.Model.FieldOps
namespace Wf.BatchUtils

/-! ### `batch_iter_mut!` -/

/-- chunks `(offset, length)` handed to the closure by `batch_iter_mut!(e, min, c)` for a slice of
`len` elements: `batch_size = len / threads.next_power_of_two()`; the whole slice at offset 0 if
`batch_size < min`, otherwise `par_chunks_mut(batch_size).enumerate()` with offsets `i * batch_size`
(`par_chunks_mut(0)` panics). -/
def chunkPlan (len threads minBatch : Nat) : Option (List (Nat × Nat)) :=
  if len / Nat.nextPowerOfTwo threads < minBatch then some [(0, len)]
  else if len / Nat.nextPowerOfTwo threads = 0 then none
  else some ((List.range ((len + len / Nat.nextPowerOfTwo threads - 1) / (len / Nat.nextPowerOfTwo threads))).map
    (fun i => (i * (len / Nat.nextPowerOfTwo threads),
               min (len / Nat.nextPowerOfTwo threads) (len - i * (len / Nat.nextPowerOfTwo threads)))))

/-- run the closure on every chunk and concatenate what it wrote (the result vector is
uninitialised before, so its content is exactly what the closures write) -/
def batchApply {F} (plan : List (Nat × Nat)) (c : Nat → Nat → Option (List F)) : Option (List F) :=
  (plan.mapM (fun ol => c ol.1 ol.2)).map List.flatten

/-! ### power series -/

/-- the loop `for i in 1..len { result[i] = result[i-1] * base }`, `prev` = `result[i-1]` -/
def fillTail {F} (ops : FieldOps F) (base : F) : Nat → F → List F
  | 0, _ => []
  | k + 1, prev => ops.mul prev base :: fillTail ops base k (ops.mul prev base)

/-- `fill_power_series(result, base, start)` on a slice of length `len`: returns immediately on an
empty slice (`if result.is_empty() { return; }`), otherwise `result[0] = start` and the loop -/
def fillPowerSeries {F} (ops : FieldOps F) (len : Nat) (base start : F) : Option (List F) :=
  match len with
  | 0 => some []
  | k + 1 => some (start :: fillTail ops base k start)

/-- `get_power_series(b, n)`; `exp` is the field's `exp` -/
def getPowerSeries {F} (ops : FieldOps F) (exp : F → Nat → F) (threads : Nat) (b : F) (n : Nat) :
    Option (List F) :=
  match chunkPlan n threads 1024 with
  | none => none
  | some plan => batchApply plan (fun off len => fillPowerSeries ops len b (exp b off))

/-- `get_power_series_with_offset(b, s, n)` -/
def getPowerSeriesWithOffset {F} (ops : FieldOps F) (exp : F → Nat → F) (threads : Nat) (b s : F)
    (n : Nat) : Option (List F) :=
  match chunkPlan n threads 1024 with
  | none => none
  | some plan => batchApply plan (fun off len => fillPowerSeries ops len b (ops.mul s (exp b off)))

/-! ### element-wise updates -/

/-- `iter_mut!(a).zip(b).for_each(|(a, &b)| *a += b)` (equal lengths) -/
def zipAdd {F} (ops : FieldOps F) : List F → List F → List F
  | x :: xs, y :: ys => ops.add x y :: zipAdd ops xs ys
  | xs, _ => xs

/-- `add_in_place(a, b)`: asserts equal lengths -/
def addInPlace {F} (ops : FieldOps F) (a b : List F) : Option (List F) :=
  if a.length = b.length then some (zipAdd ops a b) else none

/-- `*a += c.mul_base(b)` over the zipped slices; `mulBase` is `ExtensionOf::mul_base` -/
def zipMulAcc {F B} (ops : FieldOps F) (mulBase : F → B → F) (c : F) : List F → List B → List F
  | x :: xs, y :: ys => ops.add x (mulBase c y) :: zipMulAcc ops mulBase c xs ys
  | xs, _ => xs

/-- `mul_acc(a, b, c)`: asserts equal lengths -/
def mulAcc {F B} (ops : FieldOps F) (mulBase : F → B → F) (a : List F) (b : List B) (c : F) :
    Option (List F) :=
  if a.length = b.length then some (zipMulAcc ops mulBase c a b) else none

/-! ### batch inversion -/

/-- first loop of `serial_batch_inversion`: `result[i] = last; if value != 0 { last *= value }`;
returns the written slice and the final `last` -/
def invFwd {F} (ops : FieldOps F) : List F → F → List F × F
  | [], last => ([], last)
  | v :: vs, last =>
    match invFwd ops vs (if ops.beq v ops.zero then last else ops.mul last v) with
    | (rs, l) => (last :: rs, l)

/-- second loop (`for i in (0..n).rev()`): the recursion handles the tail first, then the head:
`if values[i] == 0 { result[i] = 0 } else { result[i] *= last; last *= values[i] }` -/
def invBwd {F} (ops : FieldOps F) : List F → List F → F → List F × F
  | v :: vs, r :: rs, last =>
    match invBwd ops vs rs last with
    | (rs', l) =>
      if ops.beq v ops.zero then (ops.zero :: rs', l) else (ops.mul r l :: rs', ops.mul l v)
  | _, _, last => ([], last)

/-- `serial_batch_inversion(values, result)` (both slices of the same length) -/
def serialBatchInversion {F} (ops : FieldOps F) (values : List F) : List F :=
  match invFwd ops values ops.one with
  | (rs, last) => (invBwd ops values rs (ops.inv last)).1

/-- `batch_inversion(values)`: every chunk `[start, start + batch.len())` is inverted separately -/
def batchInversion {F} (ops : FieldOps F) (threads : Nat) (values : List F) : Option (List F) :=
  match chunkPlan values.length threads 1024 with
  | none => none
  | some plan =>
    batchApply plan (fun off len => some (serialBatchInversion ops ((values.drop off).take len)))

/-! ### `utils/core/src/lib.rs` -/

/-- consecutive chunks of `n` elements (`count` of them): the memory re-interpretation of
`slice::from_raw_parts(p as *const [T; N], len / N)` -/
def chunksOf {α} (n : Nat) (xs : List α) (count : Nat) : List (List α) :=
  (List.range count).map (fun i => (xs.drop (i * n)).take n)

/-- `group_slice_elements::<T, N>(source)`: `source.len() % N` (division by zero for `N = 0`),
`assert_eq!(.. , 0)` -/
def groupSliceElements {α} (n : Nat) (xs : List α) : Option (List (List α)) :=
  if n = 0 then none
  else if xs.length % n ≠ 0 then none
  else some (chunksOf n xs (xs.length / n))

/-- `flatten_slice_elements` / `flatten_vector_elements` (every inner array has `N` elements):
the same memory read as `len * N` consecutive elements -/
def flattenElements {α} (xss : List (List α)) : List α := xss.flatten

/-- `transpose_slice::<T, N>(source)`: `row_count = len / N` (division by zero for `N = 0`),
assertion `row_count * N == len`, `result[i][j] = source[i + j * row_count]` -/
def transposeSlice {α} (n : Nat) (xs : List α) : Option (List (List α)) :=
  if n = 0 then none
  else if xs.length / n * n ≠ xs.length then none
  else (List.range (xs.length / n)).mapM (fun i =>
    (List.range n).mapM (fun j => xs[i + j * (xs.length / n)]?))

end Wf.BatchUtils
