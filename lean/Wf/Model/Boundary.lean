/-
Model of `air/src/air/boundary/constraint.rs` (`BoundaryConstraint::new`, `evaluate_at`),
`boundary/constraint_group.rs` (`BoundaryConstraintGroup::new/add/evaluate_at`) and
`boundary/mod.rs` (`BoundaryConstraints::new`, `group_constraints`) for one trace segment.
`prepare_assertions` and `Assertion` are those of `Wf/Model/Assertions.lean` (C21), the divisor is
that of `Wf/Model/AirDivisor.lean` (C23).

Core Lean only (no Mathlib): this file is linked into the native driver `wfdriver`.

Conventions
* an assertion carries canonical values (`Nat`); `emb : Nat → F` embeds them into the field the
  constraint is evaluated over (driver: the field's `ofNat`; theorems: the ring's cast);
* `interp : List F → List F` is `fft::interpolate_poly` with the twiddles of the list's length
  (the twiddle map of the source is a cache only); see `AirDivisor.idft` for its specification;
* composition coefficients are an arbitrary type `C`; the theorems about ordering take `C = Nat`
  (position in the coefficient list) as well as field elements;
* a Rust panic is `none` / `.error`.
-/
import Wf.Model.AirDivisor
namespace Wf.Boundary
open Wf Wf.AirDivisor

/-- `BoundaryConstraint { column, poly, poly_offset, cc }` -/
structure Constraint (F C : Type) where
  column : Nat
  poly : List F
  polyOffset : Nat × F
  cc : C

/-- `BoundaryConstraint::new(assertion, inv_g, twiddle_map, cc)` -/
def Constraint.new {F C} (ops : FieldOps F) (exp : F → Nat → F) (emb : Nat → F)
    (interp : List F → List F) (a : Assertion) (invG : F) (cc : C) : Constraint F C :=
  if a.values.length > 1 then
    { column := a.column
      poly := interp (a.values.map emb)
      polyOffset := if a.firstStep != 0 then (a.firstStep, exp invG a.firstStep) else (0, ops.one)
      cc := cc }
  else
    { column := a.column, poly := a.values.map emb, polyOffset := (0, ops.one), cc := cc }

/-- `BoundaryConstraint::evaluate_at(x, trace_value)`:
`trace_value − (if poly.len() == 1 { poly[0] } else { polynom::eval(poly, x * poly_offset.1) })` -/
def Constraint.evaluateAt {F C} (ops : FieldOps F) (c : Constraint F C) (x traceValue : F) : F :=
  match c.poly with
  | [v] => ops.sub traceValue v
  | p => ops.sub traceValue (polyEval ops p (ops.mul x c.polyOffset.2))

/-- `BoundaryConstraintGroup { constraints, divisor }` -/
structure Group (F C : Type) where
  constraints : List (Constraint F C)
  divisor : Divisor F

/-- `BoundaryConstraintGroup::evaluate_at(state, x)`; `none` = `state[column]` out of bounds -/
def Group.evaluateAt {F} (ops : FieldOps F) (exp : F → Nat → F) (g : Group F F) (state : List F)
    (x : F) : Option F :=
  let rec go : List (Constraint F F) → F → Option F
    | [], numerator => some numerator
    | c :: cs, numerator =>
      match state[c.column]? with
      | none => none
      | some t => go cs (ops.add numerator (ops.mul (c.evaluateAt ops x t) c.cc))
  match go g.constraints ops.zero with
  | none => none
  | some numerator => some (ops.mul numerator (ops.inv (g.divisor.evaluateAt ops exp x)))

/-- key of the `BTreeMap` in `group_constraints` -/
def groupKey (a : Assertion) : Nat × Nat := (a.stride, a.firstStep)

/-- lexicographic `<` on the key (derived `Ord` of a tuple) -/
def keyLt (a b : Nat × Nat) : Bool := a.1 < b.1 || (a.1 == b.1 && a.2 < b.2)

/-- `groups.entry(key).or_insert_with(new group).add(constraint)` on the map's sorted entry list -/
def addToGroups {F C} (key : Nat × Nat) (mkDivisor : Unit → Option (Divisor F)) (c : Constraint F C) :
    List ((Nat × Nat) × Group F C) → Option (List ((Nat × Nat) × Group F C))
  | [] => match mkDivisor () with
    | none => none
    | some d => some [(key, { constraints := [c], divisor := d })]
  | (k, g) :: rest =>
    if k == key then some ((k, { g with constraints := g.constraints ++ [c] }) :: rest)
    else if keyLt key k then
      match mkDivisor () with
      | none => none
      | some d => some ((key, { constraints := [c], divisor := d }) :: (k, g) :: rest)
    else
      match addToGroups key mkDivisor c rest with
      | none => none
      | some r => some ((k, g) :: r)

/-- `group_constraints(assertions, context, composition_coefficients, inv_g, twiddle_map)`:
`zip` stops at the shorter list; the map is returned in key order -/
def groupConstraints {F C} (ops : FieldOps F) (exp : F → Nat → F) (emb : Nat → F)
    (interp : List F → List F) (g invG : F) (n : Nat) :
    List Assertion → List C → List ((Nat × Nat) × Group F C) → Option (List (Group F C))
  | a :: as, cc :: ccs, groups =>
    match addToGroups (groupKey a) (fun _ => fromAssertion ops exp g a n)
        (Constraint.new ops exp emb interp a invG cc) groups with
    | none => none
    | some groups' => groupConstraints ops exp emb interp g invG n as ccs groups'
  | _, _, groups => some (groups.map Prod.snd)

inductive NewErr where
  | count            -- `assert_eq!` on the number of assertions / coefficients
  | prep (e : Assertion.PrepErr)
  | numSteps         -- unreachable after `prepare_assertions` (kept: the model is total)
  deriving DecidableEq, Repr

/-- `BoundaryConstraints::new` for a single-segment trace:
`expected` = `context.num_main_assertions`; `g` = `context.trace_domain_generator`,
`inv_g = g.inv()`. -/
def boundaryConstraintsNew {F C} (ops : FieldOps F) (exp : F → Nat → F) (emb : Nat → F)
    (interp : List F → List F) (g : F) (traceWidth n expected : Nat)
    (assertions : List Assertion) (coeffs : List C) : Except NewErr (List (Group F C)) :=
  if assertions.length != expected then .error .count
  else if expected != coeffs.length then .error .count
  else
    match Assertion.prepareAssertions assertions traceWidth n with
    | .error e => .error (.prep e)
    | .ok sorted =>
      match groupConstraints ops exp emb interp g (ops.inv g) n sorted coeffs [] with
      | none => .error .numSteps
      | some gs => .ok gs

/-- The assignment of composition coefficients to assertions made by `BoundaryConstraints::new`:
the i-th coefficient goes to the i-th assertion of `prepare_assertions`' output. -/
def coefficientAssignment {C} (traceWidth n : Nat) (assertions : List Assertion) (coeffs : List C) :
    Option (List (Assertion × C)) :=
  match Assertion.prepareAssertions assertions traceWidth n with
  | .error _ => none
  | .ok sorted => some (sorted.zip coeffs)

end Wf.Boundary
