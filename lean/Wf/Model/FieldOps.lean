/-
The interface field-element formulas are written against (extension-field arithmetic, addition
chains, polynomial helpers).  Generated code (`Wf/Gen`) and hand-written models take
`ops : FieldOps F`; the driver instantiates it with the limb-level kernels of f64/f62/f128, the
proofs instantiate it with any commutative ring / field through `Wf.Lemmas.FieldBridge`.
Core Lean only.
-/
namespace Wf

structure FieldOps (F : Type) where
  zero : F
  one : F
  add : F → F → F
  sub : F → F → F
  mul : F → F → F
  neg : F → F
  double : F → F
  square : F → F
  inv : F → F
  ofNat : Nat → F
  conjugate : F → F := id
  beq : F → F → Bool

end Wf
