/-
Model of `DefaultRandomCoin<H>` (`crypto/src/random/default.rs`, trait in `crypto/src/random/mod.rs`)
over an ABSTRACT hasher: `hash_elements`, `merge`, `merge_with_int` and `Digest::as_bytes` are
function parameters (record `CoinHasher`).  Mirrors the code branch by branch:

* state = (seed digest, counter); `new` hashes the seed elements, counter 0;
* `next`: counter += 1; `merge_with_int(seed, counter)`;
* `reseed(d)`: seed = `merge(seed, d)`, counter = 0;
* `check_leading_zeros(v)`: trailing zeros of the little-endian `u64` made of the first 8 bytes of
  `merge_with_int(seed, v)` (state unchanged);
* `draw::<E>`: up to 1000 tries; a try takes the first `ELEMENT_BYTES` bytes of `next()` and accepts
  them iff `E::from_random_bytes` does (every coefficient below the modulus);
* `draw_integers(n, domain, nonce)`: the two `assert!`s (panic = `abort`, state untouched), seed =
  `merge_with_int(seed, nonce)`, counter = 0, then a `for _ in 0..1000` loop that breaks when
  `values.len() == n` and otherwise pushes `u64(first 8 bytes of next()) & (domain − 1)`
  (NO deduplication in this version of the code), `Err` if fewer than `n` values.

The counter is a `u64` in the code; the model uses `Nat` (2^64 draws without reseeding are out of
reach).  Field elements are canonical values.  Core Lean only.
-/
import Wf.Model.FieldCodec
namespace Wf

structure CoinHasher (D : Type) where
  /-- `H::hash_elements` on the canonical values of base-field elements -/
  hashElements : List Nat → D
  /-- `H::merge(&[a, b])` -/
  merge : D → D → D
  /-- `H::merge_with_int(seed, value)` -/
  mergeWithInt : D → Nat → D
  /-- `Digest::as_bytes` (32 bytes) -/
  asBytes : D → Bytes

structure Coin (D : Type) where
  seed : D
  counter : Nat

/-- `u64::trailing_zeros` on a non-zero value, with `fuel` ≥ bit length -/
def tzAux : Nat → Nat → Nat
  | 0, _ => 0
  | f + 1, v => if v % 2 = 1 then 0 else 1 + tzAux f (v / 2)

/-- `u64::trailing_zeros` -/
def trailingZeros64 (v : Nat) : Nat := if v = 0 then 64 else tzAux 64 v

/-- `usize::is_power_of_two` -/
def coinIsPow2 (n : Nat) : Bool := 2 ^ n.log2 == n

/-- `E::from_random_bytes` for an element with `deg` coefficients over `f`: exact length and every
coefficient below the modulus -/
def fromRandomBytes (f : FieldParams) (deg : Nat) (bs : Bytes) : Option (List Nat) :=
  if bs.length ≠ f.bytes * deg then none
  else match f.readExt deg [] bs with
    | .ok vs _ => some vs
    | _ => none

/-- result of `draw_integers` -/
inductive IntOut where
  | ok (vs : List Nat)
  /-- `FailedToDrawIntegers(requested, drawn, 1000)` -/
  | err (requested drawn : Nat)
  /-- one of the two `assert!`s failed -/
  | abort
  deriving Repr, DecidableEq

namespace Coin
variable {D : Type} (H : CoinHasher D)

def new (seed : List Nat) : Coin D := ⟨H.hashElements seed, 0⟩

def reseed (c : Coin D) (d : D) : Coin D := ⟨H.merge c.seed d, 0⟩

/-- the private `next()`: new state and the digest -/
def next (c : Coin D) : Coin D × D := (⟨c.seed, c.counter + 1⟩, H.mergeWithInt c.seed (c.counter + 1))

/-- the little-endian `u64` of the first 8 bytes of a digest -/
def head64 (d : D) : Nat := fromLe ((H.asBytes d).take 8)

def checkLeadingZeros (c : Coin D) (v : Nat) : Nat := trailingZeros64 (head64 H (H.mergeWithInt c.seed v))

/-- the candidate of one try of `draw` -/
def candidate (f : FieldParams) (deg : Nat) (d : D) : Option (List Nat) :=
  fromRandomBytes f deg ((H.asBytes d).take (f.bytes * deg))

/-- `draw`'s loop with `k` tries left: `none` = `FailedToDrawFieldElement` -/
def drawLoop (f : FieldParams) (deg : Nat) : Nat → Coin D → Coin D × Option (List Nat)
  | 0, c => (c, none)
  | k + 1, c =>
    match candidate H f deg (next H c).2 with
    | some e => ((next H c).1, some e)
    | none => drawLoop f deg k (next H c).1

def draw (f : FieldParams) (deg : Nat) (c : Coin D) : Coin D × Option (List Nat) := drawLoop H f deg 1000 c

/-- the value pushed by one iteration of `draw_integers` -/
def intValue (mask : Nat) (d : D) : Nat := head64 H d &&& mask

/-- `draw_integers`' loop with `k` iterations left: the exit test comes first, then one draw -/
def intLoop (mask n : Nat) : Nat → Coin D → List Nat → Coin D × List Nat
  | 0, c, vals => (c, vals)
  | k + 1, c, vals =>
    if vals.length = n then (c, vals)
    else intLoop mask n k (next H c).1 (vals ++ [intValue H mask (next H c).2])

def drawIntegers (c : Coin D) (n domain nonce : Nat) : Coin D × IntOut :=
  if coinIsPow2 domain = false then (c, .abort)
  else if ¬ n < domain then (c, .abort)
  else
    if (intLoop H (domain - 1) n 1000 ⟨H.mergeWithInt c.seed nonce, 0⟩ []).2.length < n then
      ((intLoop H (domain - 1) n 1000 ⟨H.mergeWithInt c.seed nonce, 0⟩ []).1,
       .err n (intLoop H (domain - 1) n 1000 ⟨H.mergeWithInt c.seed nonce, 0⟩ []).2.length)
    else
      ((intLoop H (domain - 1) n 1000 ⟨H.mergeWithInt c.seed nonce, 0⟩ []).1,
       .ok (intLoop H (domain - 1) n 1000 ⟨H.mergeWithInt c.seed nonce, 0⟩ []).2)

/-! ### histories -/

inductive Op (D : Type) where
  | reseed (d : D)
  | draw (deg : Nat)
  | ints (n domain nonce : Nat)
  | lz (v : Nat)

inductive Res where
  | unit
  | elem (r : Option (List Nat))
  | ints (r : IntOut)
  | lz (n : Nat)
  deriving Repr, DecidableEq

def stepOp (f : FieldParams) (c : Coin D) : Op D → Coin D × Res
  | .reseed d => (reseed H c d, .unit)
  | .draw deg => ((draw H f deg c).1, .elem (draw H f deg c).2)
  | .ints n dom nonce => ((drawIntegers H c n dom nonce).1, .ints (drawIntegers H c n dom nonce).2)
  | .lz v => (c, .lz (checkLeadingZeros H c v))

/-- everything a coin outputs along a history of operations -/
def run (f : FieldParams) : Coin D → List (Op D) → List Res
  | _, [] => []
  | c, op :: ops => (stepOp H f c op).2 :: run f (stepOp H f c op).1 ops

/-- the observable behaviour of a coin: a function of the seed elements and the history -/
def outputs (f : FieldParams) (seed : List Nat) (ops : List (Op D)) : List Res := run H f (new H seed) ops

end Coin
end Wf
