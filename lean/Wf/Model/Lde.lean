/-
Model of the low-degree extensions and row commitments of the prover (C28):
`prover/src/matrix/{row_matrix,segments,col_matrix}.rs`, `verifier/src/channel.rs: hash_row`,
`air/src/options.rs: PartitionOptions::{partition_size, num_partitions}`.

* `RowMatrix::evaluate_polys(_over)` as written: `get_evaluation_offsets` (one power series per
  chunk of the LDE domain), `build_segments` (number of segments with a partial last one),
  `Segment::new` (asserts; per chunk `copy_polys(_partial)` = coefficient × offset, zero padding of
  the unused columns, the FFT of `impl FftInputs for [[B; N]]`, then `permute` of the whole segment),
  `transpose` (serial path) + `flatten_vector_elements`, `row`/`get` accessors
  (`slice_from_base_elements` = consecutive groups of `EXTENSION_DEGREE` base elements).
  A row of a segment, `[B; N]`, is a `Vector B N`; the FFT over such rows is the generic
  `Wf.Fft.fftInPlace` (C12's model) instantiated with the point-wise context `vecCtx`
  (`butterfly`, `butterfly_twiddle` of the array impl are the scalar ones column by column).
* `ColMatrix::{interpolate_columns, evaluate_columns_over}`: column by column through C12's model.
* `commit_to_rows` row digest (prover) and `hash_row` (verifier) over an abstract hasher record.
A failed `assert!`/index/`chunks(0)`/division by zero is `none`.  Not modelled: the `concurrent`
feature (split-radix segment FFT, batched transposition, `batch_iter_mut!` scheduling).
Core Lean only.
-/
import Wf.Model.Fft
import Wf.Model.Polynom
import Wf.Model.Merkle
import Wf.Model.AirDivisor
namespace Wf.Lde
open Wf Wf.Fft

variable {B E D : Type}

/-! ## extension-field view, contexts -/

/-- how an element of `E` decomposes into `EXTENSION_DEGREE` base-field elements
(`ExtensibleField::base_element(i)`, `slice_from_base_elements`) -/
structure ExtView (B E : Type) where
  degree : Nat
  toBase : E → List B
  ofBase : List B → E

/-- the base field seen as its own extension (`E = B`) -/
def ExtView.base (zero : B) : ExtView B B := ⟨1, fun x => [x], fun l => l.headD zero⟩

/-- the FFT context of base-field columns: `E := B`, `mul_base = mul` -/
def baseCtx (c : Ctx B E) : Ctx B B :=
  { b := c.b, e := c.b, mulBase := c.b.mul, embed := id, exp := c.exp, root := c.root,
    twoAdicity := c.twoAdicity }

/-- point-wise operations on `[B; N]` -/
def vecOps (o : FieldOps B) (N : Nat) : FieldOps (Vector B N) where
  zero := Vector.replicate N o.zero
  one := Vector.replicate N o.one
  add := Vector.zipWith o.add
  sub := Vector.zipWith o.sub
  mul := Vector.zipWith o.mul
  neg := Vector.map o.neg
  double := Vector.map o.double
  square := Vector.map o.square
  inv := Vector.map o.inv
  ofNat := fun n => Vector.replicate N (o.ofNat n)
  conjugate := Vector.map o.conjugate
  beq := fun a b => (Vector.zipWith o.beq a b).toArray.all id

/-- `impl FftInputs<B> for [[B; N]]`: every operation column by column, the twiddle multiplies each
entry (`self[j][col_idx] *= twiddle`) -/
def vecCtx (c : Ctx B B) (N : Nat) : Ctx B (Vector B N) :=
  { b := c.b, e := vecOps c.b N, mulBase := fun v t => v.map (fun x => c.b.mul x t),
    embed := fun t => Vector.replicate N t, exp := c.exp, root := c.root,
    twoAdicity := c.twoAdicity }

/-! ## column-major matrices -/

/-- `ColMatrix<E>`: the columns -/
abbrev ColMatrix (E : Type) := List (Array E)

def numRows (polys : ColMatrix E) : Nat := (polys.headD #[]).size

/-- the asserts of `ColMatrix::new` (the type invariant of every `ColMatrix`) -/
def colMatrixValid (polys : ColMatrix E) : Bool :=
  !polys.isEmpty && decide (numRows polys > 1) && Fft.isPow2 (numRows polys) &&
    polys.all (fun p => p.size == numRows polys)

def numBaseCols (x : ExtView B E) (polys : ColMatrix E) : Nat := polys.length * x.degree

/-- `ColMatrix::get_base_element(base_col_idx, row_idx)` -/
def getBaseElement (c : Ctx B E) (x : ExtView B E) (polys : ColMatrix E) (j row : Nat) : B :=
  (x.toBase ((polys.getD (j / x.degree) #[]).getD row c.e.zero)).getD (j % x.degree) c.b.zero

/-- base-field column `j` of the matrix -/
def baseCol (c : Ctx B E) (x : ExtView B E) (polys : ColMatrix E) (j : Nat) : Array B :=
  Array.ofFn (n := numRows polys) fun row => getBaseElement c x polys j row

/-! ## `get_evaluation_offsets` -/

/-- chunk `i`: `offset = g^permute_index(blowup, i) · domain_offset`, then `1, offset, offset², …` -/
def offsetChunk (c : Ctx B E) (polySize blowup : Nat) (g s : B) (i : Nat) : List B :=
  powerSeries c.b (c.b.mul (c.exp g (permuteIndex blowup i)) s) polySize c.b.one

/-- `get_evaluation_offsets(poly_size, blowup_factor, domain_offset)`; `ilog2(0)` and
`get_root_of_unity` outside `1..=TWO_ADICITY` panic -/
def getEvaluationOffsets (c : Ctx B E) (polySize blowup : Nat) (s : B) : Option (Array B) :=
  if polySize * blowup = 0 then none
  else if (polySize * blowup).log2 = 0 then none
  else if (polySize * blowup).log2 > c.twoAdicity then none
  else
    some ((List.range blowup).flatMap
      (offsetChunk c polySize blowup (c.root (polySize * blowup).log2) s)).toArray

/-! ## `Segment::new` -/

/-- `copy_polys` / `copy_polys_partial` on chunk `i`: row `row`, column `k` =
`coeff(poly_offset + k, row) * offsets[row]` for `k < num_polys`, the zero of the buffer otherwise -/
def copyPolys (c : Ctx B E) (x : ExtView B E) (N : Nat) (polys : ColMatrix E)
    (polyOffset numPolys : Nat) (offsets : Array B) (i : Nat) : Array (Vector B N) :=
  Array.ofFn (n := numRows polys) fun row =>
    Vector.ofFn fun k : Fin N =>
      if k.val < numPolys then
        c.b.mul (getBaseElement c x polys (polyOffset + k.val) row.val)
          (offsets.getD (i * numRows polys + row.val) c.b.zero)
      else c.b.zero

/-- one `(d_chunk, o_chunk)` step: copy, then `d_chunk.fft_in_place(twiddles)` -/
def segChunk (c : Ctx B E) (x : ExtView B E) (N : Nat) (polys : ColMatrix E)
    (polyOffset numPolys : Nat) (offsets tws : Array B) (i : Nat) : Array (Vector B N) :=
  fftInPlace (vecCtx (baseCtx c) N) tws (numRows polys)
    (copyPolys c x N polys polyOffset numPolys offsets i) 1 1 0

/-- `data.chunks_mut(poly_size).zip(offsets.chunks(poly_size)).for_each(..)`: `n` chunks left,
`i` the chunk index -/
def segChunks (c : Ctx B E) (x : ExtView B E) (N : Nat) (polys : ColMatrix E)
    (polyOffset numPolys : Nat) (offsets tws : Array B) :
    Nat → Nat → Array (Vector B N) → Array (Vector B N)
  | 0, _, acc => acc
  | n + 1, i, acc =>
    segChunks c x N polys polyOffset numPolys offsets tws n (i + 1)
      (acc ++ segChunk c x N polys polyOffset numPolys offsets tws i)

/-- `Segment::new(polys, poly_offset, offsets, twiddles)` (serial path).  The number of chunks is
`domain_size / poly_size` (both are powers of two when the asserts and the `ColMatrix` invariant
hold). -/
def segmentNew (c : Ctx B E) (x : ExtView B E) (N : Nat) (polys : ColMatrix E) (polyOffset : Nat)
    (offsets tws : Array B) : Option (Array (Vector B N)) :=
  if !Fft.isPow2 offsets.size then none
  else if !(decide (offsets.size > numRows polys)) then none
  else if numRows polys != tws.size * 2 then none
  else if !(decide (polyOffset < numBaseCols x polys)) then none
  else
    some (permute (segChunks c x N polys polyOffset
      (if numBaseCols x polys - polyOffset < N then numBaseCols x polys - polyOffset else N)
      offsets tws (offsets.size / numRows polys) 0 (Array.mkEmpty offsets.size)))

/-- `build_segments` -/
def numSegments (N numBase : Nat) : Nat := if numBase % N = 0 then numBase / N else numBase / N + 1

def buildSegments (c : Ctx B E) (x : ExtView B E) (N : Nat) (polys : ColMatrix E)
    (tws offsets : Array B) : Option (List (Array (Vector B N))) :=
  if N = 0 then none
  else (List.range (numSegments N (numBaseCols x polys))).mapM
    (fun i => segmentNew c x N polys (i * N) offsets tws)

/-! ## `RowMatrix` -/

/-- `RowMatrix<E>`: flat base-field data -/
structure RowMatrix (B : Type) where
  data : Array B
  rowWidth : Nat
  elementsPerRow : Nat

/-- `transpose(segments)` (serial: one batch): a single segment is returned as is, otherwise
`result[i * num_segs + j] = segments[j][i]` -/
def transpose (zero : B) {N : Nat} : List (Array (Vector B N)) → Option (Array (Vector B N))
  | [] => none
  | [s] => some s
  | s :: rest =>
    some ((List.range s.size).flatMap fun i =>
      (s :: rest).map fun sg => sg.getD i (Vector.replicate N zero)).toArray

/-- `flatten_vector_elements` -/
def flatten {N : Nat} (a : Array (Vector B N)) : Array B := (a.toList.flatMap (·.toList)).toArray

/-- `RowMatrix::from_segments(segments, elements_per_row)` -/
def fromSegments (zero : B) {N : Nat} (segs : List (Array (Vector B N))) (elementsPerRow : Nat) :
    Option (RowMatrix B) :=
  if N = 0 then none
  else if segs.isEmpty then none
  else if !(decide (elementsPerRow ≤ segs.length * N)) then none
  else (transpose zero segs).map fun t => ⟨flatten t, segs.length * N, elementsPerRow⟩

def RowMatrix.numCols (x : ExtView B E) (m : RowMatrix B) : Nat := m.elementsPerRow / x.degree
def RowMatrix.numRows (m : RowMatrix B) : Nat := m.data.size / m.rowWidth

/-- the row as the code reads it: `slice_from_base_elements(&data[start..start + elements_per_row])`,
element `col` = base elements `start + col·deg … start + col·deg + deg − 1` -/
def RowMatrix.rowAt (x : ExtView B E) (zero : B) (m : RowMatrix B) (r : Nat) : List E :=
  (List.range (m.elementsPerRow / x.degree)).map fun col =>
    x.ofBase ((List.range x.degree).map fun k => m.data.getD (r * m.rowWidth + col * x.degree + k) zero)

/-- `RowMatrix::row(row_idx)` (`assert!(row_idx < self.num_rows())`) -/
def RowMatrix.row (x : ExtView B E) (zero : B) (m : RowMatrix B) (r : Nat) : Option (List E) :=
  if r < m.numRows then some (m.rowAt x zero r) else none

/-- `RowMatrix::get(col_idx, row_idx)` = `self.row(row_idx)[col_idx]` -/
def RowMatrix.get (x : ExtView B E) (zero : B) (m : RowMatrix B) (col r : Nat) : Option E :=
  (m.row x zero r).bind (·[col]?)

/-- all rows -/
def RowMatrix.rows (x : ExtView B E) (zero : B) (m : RowMatrix B) : List (List E) :=
  (List.range m.numRows).map (m.rowAt x zero)

/-- the domain data used by `evaluate_polys_over`: `trace_twiddles`, `trace_to_lde_blowup`, `offset` -/
structure Domain (B : Type) where
  traceTwiddles : Array B
  blowup : Nat
  offset : B

/-- `RowMatrix::evaluate_polys_over::<N>(polys, domain)` -/
def evaluatePolysOver (c : Ctx B E) (x : ExtView B E) (N : Nat) (polys : ColMatrix E)
    (dom : Domain B) : Option (RowMatrix B) :=
  if N = 0 then none
  else if !colMatrixValid polys then none
  else
    match getEvaluationOffsets c (numRows polys) dom.blowup dom.offset with
    | none => none
    | some offsets =>
      match buildSegments c x N polys dom.traceTwiddles offsets with
      | none => none
      | some segs => fromSegments c.b.zero segs (numBaseCols x polys)

/-- `RowMatrix::evaluate_polys::<N>(polys, blowup_factor)`: offsets with `B::GENERATOR`, twiddles
from `get_twiddles(polys.num_rows())` -/
def evaluatePolys (c : Ctx B E) (x : ExtView B E) (N : Nat) (generator : B) (polys : ColMatrix E)
    (blowup : Nat) : Option (RowMatrix B) :=
  if N = 0 then none
  else if !colMatrixValid polys then none
  else
    match getEvaluationOffsets c (numRows polys) blowup generator with
    | none => none
    | some offsets =>
      match getTwiddles (baseCtx c) (numRows polys) with
      | none => none
      | some tws =>
        match buildSegments c x N polys tws offsets with
        | none => none
        | some segs => fromSegments c.b.zero segs (numBaseCols x polys)


/-! ## `StarkDomain` (`prover/src/domain.rs`) -/

/-- the stored fields of `StarkDomain<B>` (`ce_domain` by its length only) -/
structure StarkDomain (B : Type) where
  traceTwiddles : Array B
  ceDomainSize : Nat
  ceToLdeBlowup : Nat
  offset : B

def StarkDomain.traceLength (d : StarkDomain B) : Nat := d.traceTwiddles.size * 2
/-- `trace_to_ce_blowup() = ce_domain_size() / trace_length()` -/
def StarkDomain.traceToCeBlowup (d : StarkDomain B) : Nat := d.ceDomainSize / d.traceLength
/-- `lde_domain_size() = ce_domain_size() * ce_to_lde_blowup()` -/
def StarkDomain.ldeDomainSize (d : StarkDomain B) : Nat := d.ceDomainSize * d.ceToLdeBlowup
/-- `trace_to_lde_blowup() = lde_domain_size() / trace_length()` -/
def StarkDomain.traceToLdeBlowup (d : StarkDomain B) : Nat := d.ldeDomainSize / d.traceLength

/-- what `evaluate_polys_over` / `evaluate_columns_over` read from the domain: the trace twiddles, the
trace-to-LDE blowup (NOT the constraint-evaluation blowup) and the offset -/
def StarkDomain.toDomain (d : StarkDomain B) : Domain B :=
  ⟨d.traceTwiddles, d.traceToLdeBlowup, d.offset⟩

/-- `StarkDomain::new(air)`: `get_twiddles(air.trace_length())`, a constraint-evaluation domain of
`air.ce_domain_size() = trace_length · ce_blowup` points (`get_root_of_unity(ilog2)` asserts),
`ce_to_lde_blowup = air.lde_domain_size() / air.ce_domain_size()`, `air.domain_offset()` -/
def starkDomainNew (c : Ctx B E) (traceLen ceBlowup ldeBlowup : Nat) (offset : B) :
    Option (StarkDomain B) :=
  match getTwiddles (baseCtx c) traceLen with
  | none => none
  | some tws =>
    if traceLen * ceBlowup = 0 then none
    else if (traceLen * ceBlowup).log2 = 0 then none
    else if (traceLen * ceBlowup).log2 > c.twoAdicity then none
    else some ⟨tws, traceLen * ceBlowup, traceLen * ldeBlowup / (traceLen * ceBlowup), offset⟩

/-- `StarkDomain::new` for an AIR with the given transition-constraint degrees and LDE blowup
(`AirContext::new`: `ce_blowup_factor` = the largest `min_blowup_factor`, asserted `≤ blowup`) -/
def starkDomainOfAir (c : Ctx B E) (traceLen : Nat) (degrees : List AirDivisor.TcDegree)
    (ldeBlowup : Nat) (offset : B) : Option (StarkDomain B) :=
  match AirDivisor.Ctx.new traceLen degrees ldeBlowup with
  | none => none
  | some a => starkDomainNew c traceLen a.ceBlowup ldeBlowup offset

/-- `StarkDomain::from_twiddles(trace_twiddles, blowup_factor, domain_offset)` -/
def starkDomainFromTwiddles (c : Ctx B E) (tws : Array B) (blowup : Nat) (offset : B) :
    Option (StarkDomain B) :=
  if !Fft.isPow2 tws.size then none
  else if !Fft.isPow2 blowup then none
  else if (tws.size * blowup * 2).log2 = 0 then none
  else if (tws.size * blowup * 2).log2 > c.twoAdicity then none
  else some ⟨tws, tws.size * blowup * 2, 1, offset⟩

/-! ## specification of the LDE -/

/-- row `r`, column `col` = `poly_col(offset · g^r)` by Horner's rule (`polynom::eval`), `g` the
generator of the LDE domain of size `n · blowup` -/
def ldeSpec (c : Ctx B E) (polys : ColMatrix E) (s : B) (blowup : Nat) : List (List E) :=
  (List.range (numRows polys * blowup)).map fun r =>
    polys.map fun p =>
      Polynom.eval c.e p.toList
        (c.embed (c.b.mul s (c.exp (c.root (numRows polys * blowup).log2) r)))

/-! ## `ColMatrix` polynomial operations -/

/-- `ColMatrix::interpolate_columns` -/
def interpolateColumns (c : Ctx B E) (m : ColMatrix E) : Option (ColMatrix E) :=
  match getInvTwiddles c (numRows m) with
  | none => none
  | some itws => m.mapM fun col => interpolatePoly c col itws

/-- `ColMatrix::evaluate_columns_over(domain)` -/
def evaluateColumnsOver (c : Ctx B E) (polys : ColMatrix E) (dom : Domain B) : Option (ColMatrix E) :=
  polys.mapM fun p => evaluatePolyWithOffset c p dom.traceTwiddles dom.offset dom.blowup

/-- `ColMatrix::read_row_into(row_idx)` -/
def colRow (zero : E) (m : ColMatrix E) (r : Nat) : List E := m.map fun col => col.getD r zero

/-! ## `PartitionOptions` -/

/-- `PartitionOptions { num_partitions: u8, hash_rate: u8 }` -/
structure PartitionOptions where
  numPartitions : Nat
  hashRate : Nat
  deriving Repr, DecidableEq

/-- the asserts of `PartitionOptions::new` -/
def PartitionOptions.valid (po : PartitionOptions) : Prop :=
  1 ≤ po.numPartitions ∧ po.numPartitions ≤ 16 ∧ 1 ≤ po.hashRate ∧ po.hashRate ≤ 255

/-- `usize::div_ceil` for a non-zero divisor -/
def divCeil (a b : Nat) : Nat := if a % b > 0 then a / b + 1 else a / b

/-- `PartitionOptions::partition_size::<E>(num_columns)`, `degree = E::EXTENSION_DEGREE` -/
def partitionSize (po : PartitionOptions) (degree numColumns : Nat) : Nat :=
  if po.numPartitions = 1 then numColumns
  else max (divCeil numColumns po.numPartitions) (po.hashRate / degree)

/-- `PartitionOptions::num_partitions::<E>(num_columns)`; division by zero panics -/
def numPartitions (po : PartitionOptions) (degree numColumns : Nat) : Option Nat :=
  if partitionSize po degree numColumns = 0 then none
  else some (divCeil numColumns (partitionSize po degree numColumns))

/-! ## row digests -/

/-- the part of `ElementHasher` used for rows -/
structure RowHasher (E D : Type) where
  hashElements : List E → D
  mergeMany : List D → D
  default : D

/-- `slice.chunks(n)` for `n ≠ 0` (`fuel` ≥ length) -/
def chunksF {α} (n : Nat) : Nat → List α → List (List α)
  | 0, _ => []
  | f + 1, l => if l.isEmpty then [] else l.take n :: chunksF n f (l.drop n)

def chunks {α} (n : Nat) (l : List α) : List (List α) := chunksF n l.length l

/-- `buffer = vec![Digest::default(); len]; chunks.zip(buffer.iter_mut()).for_each(|(c, b)| *b =
hash_elements(c))`: the resulting buffer -/
def fillBuffer (H : RowHasher E D) : List (List E) → Nat → List D
  | _, 0 => []
  | [], n + 1 => H.default :: fillBuffer H [] n
  | ch :: chs, n + 1 => H.hashElements ch :: fillBuffer H chs n

/-- the row digest of `RowMatrix::commit_to_rows::<H, V>(partition_options)` -/
def hashRowProver (H : RowHasher E D) (po : PartitionOptions) (degree : Nat) (row : List E) :
    Option D :=
  if partitionSize po degree row.length = row.length then some (H.hashElements row)
  else
    match numPartitions po degree row.length with
    | none => none
    | some np =>
      if partitionSize po degree row.length = 0 then none      -- `chunks(0)` panics
      else some (H.mergeMany (fillBuffer H (chunks (partitionSize po degree row.length) row) np))

/-- `hash_row::<H, E>(row, partition_size)` of `verifier/src/channel.rs` -/
def hashRowVerifier (H : RowHasher E D) (row : List E) (partitionSz : Nat) : Option D :=
  if partitionSz = row.length then some (H.hashElements row)
  else if partitionSz = 0 then none                              -- `div_ceil(0)` panics
  else
    some (H.mergeMany (fillBuffer H (chunks partitionSz row) (divCeil row.length partitionSz)))

/-- the verifier's call: the partition size is computed from the same options and the declared
width of the segment (`VerifierChannel::new`), which is the length of every parsed row -/
def hashRowVerifierAt (H : RowHasher E D) (po : PartitionOptions) (degree : Nat) (row : List E) :
    Option D :=
  hashRowVerifier H row (partitionSize po degree row.length)

/-- the row digests of `commit_to_rows` -/
def rowHashes (H : RowHasher E D) (po : PartitionOptions) (degree : Nat) (rows : List (List E)) :
    Option (List D) :=
  rows.mapM (hashRowProver H po degree)

/-- `commit_to_rows` with `V = MerkleTree<H>`: the tree over the row digests -/
def commitToRows [Inhabited D] (H : RowHasher E D) (merge : D → D → D) (po : PartitionOptions)
    (degree : Nat) (rows : List (List E)) : Option (Merkle.Res (Merkle.Tree D)) :=
  (rowHashes H po degree rows).map (Merkle.Tree.new merge)

end Wf.Lde
