/-
Model of `math/src/polynom/mod.rs`.  A polynomial is a coefficient list, lowest degree first (the
code's "reverse coefficient form").

Core Lean only (linked into `wfdriver`).  Conventions as in `Wf/Model/BatchUtils.lean`: in-place
updates become returned lists, a Rust panic (failed `assert!`, index out of bounds) is `none`.  Release semantics: `debug_assert!` is absent.
Every index access that the Rust code performs is an explicit `[i]?` here, so "never out of
bounds" is a statement about the model, not built into it.
-/
import Wf.Model.FieldOps
import Wf.Model.BatchUtils
namespace Wf.Polynom
open Wf

/-! ### evaluation -/

/-- `p.iter().rev().fold(ZERO, |acc, &coeff| acc * x + coeff)` (the coefficients are already
embedded into the field of `x`: `E::from(coeff)`) -/
def eval {F} (ops : FieldOps F) (p : List F) (x : F) : F :=
  p.reverse.foldl (fun acc c => ops.add (ops.mul acc x) c) ops.zero

def evalMany {F} (ops : FieldOps F) (p : List F) (xs : List F) : List F :=
  xs.map (fun x => eval ops p x)

/-! ### addition, subtraction, scalar multiplication -/

/-- `if i < a.len() { a[i] } else { E::ZERO }` -/
def coeffOr {F} (ops : FieldOps F) (a : List F) (i : Nat) : F :=
  match a[i]? with
  | some c => c
  | none => ops.zero

def add {F} (ops : FieldOps F) (a b : List F) : List F :=
  (List.range (max a.length b.length)).map (fun i => ops.add (coeffOr ops a i) (coeffOr ops b i))

def sub {F} (ops : FieldOps F) (a b : List F) : List F :=
  (List.range (max a.length b.length)).map (fun i => ops.sub (coeffOr ops a i) (coeffOr ops b i))

def mulByScalar {F} (ops : FieldOps F) (p : List F) (k : F) : List F :=
  p.map (fun c => ops.mul c k)

/-! ### multiplication -/

/-- `result[k] += s` -/
def addAt {F} (ops : FieldOps F) (r : List F) (k : Nat) (s : F) : Option (List F) :=
  match r[k]? with
  | some c => some (r.set k (ops.add c s))
  | none => none

/-- inner loop `for j in 0..b.len() { result[i + j] += a[i] * b[j] }`; `k = i + j` -/
def mulRow {F} (ops : FieldOps F) (ai : F) : List F → Nat → List F → Option (List F)
  | [], _, r => some r
  | bj :: bs, k, r =>
    match addAt ops r k (ops.mul ai bj) with
    | some r' => mulRow ops ai bs (k + 1) r'
    | none => none

/-- outer loop `for i in 0..a.len()` -/
def mulRows {F} (ops : FieldOps F) (b : List F) : List F → Nat → List F → Option (List F)
  | [], _, r => some r
  | ai :: as, i, r =>
    match mulRow ops ai b i r with
    | some r' => mulRows ops b as (i + 1) r'
    | none => none

/-- `mul(a, b)`: the product with an empty slice (the zero polynomial) is the empty vector;
otherwise `result_len = a.len() + b.len() - 1` and the two loops -/
def mul {F} (ops : FieldOps F) (a b : List F) : Option (List F) :=
  if a.isEmpty || b.isEmpty then some []
  else mulRows ops b a 0 (List.replicate (a.length + b.length - 1) ops.zero)

/-! ### degree, leading zeros -/

/-- `for i in (0..len).rev() { if poly[i] != ZERO { return i } }` on the reversed list: the first
non-zero element met has as many elements after it (in the reversed list) as its index -/
def lastNonzero {F} (ops : FieldOps F) : List F → Option Nat
  | [] => none
  | c :: rest => if ops.beq c ops.zero then lastNonzero ops rest else some rest.length

def degreeOf {F} (ops : FieldOps F) (p : List F) : Nat :=
  match lastNonzero ops p.reverse with
  | some i => i
  | none => 0

def removeLeadingZeros {F} (ops : FieldOps F) (p : List F) : List F :=
  match lastNonzero ops p.reverse with
  | some i => p.take (i + 1)
  | none => []

/-! ### division -/

/-- `for j in (0..bpos).rev() { a[i + j] -= b[j] * quot }` -/
def subRow {F} (ops : FieldOps F) (b : List F) (quot : F) (i : Nat) : Nat → List F → Option (List F)
  | 0, a => some a
  | j + 1, a =>
    match a[i + j]?, b[j]? with
    | some x, some y => subRow ops b quot i j (a.set (i + j) (ops.sub x (ops.mul y quot)))
    | _, _ => none

/-- `for i in (0..result.len()).rev()`: `quot = a[apos] / b[bpos]` with `apos = i + bpos`,
`result[i] = quot`, then the inner loop; `x / y` is `x * y.inv()` -/
def divLoop {F} (ops : FieldOps F) (b : List F) (bpos : Nat) : Nat → List F → List F → Option (List F)
  | 0, _, res => some res
  | i + 1, a, res =>
    match a[i + bpos]?, b[bpos]? with
    | some top, some lead =>
      match subRow ops b (ops.mul top (ops.inv lead)) i bpos a with
      | some a' => divLoop ops b bpos i a' (ops.mul top (ops.inv lead) :: res)
      | none => none
    | _, _ => none

/-- `b[0] != ZERO` fails (an empty `b` has been excluded before) -/
def headIsZero {F} (ops : FieldOps F) (b : List F) : Bool :=
  match b[0]? with
  | some c => ops.beq c ops.zero
  | none => true

/-- `div(a, b)` with its three assertions; `apos = degree_of(a)` is taken first, then an empty
dividend is replaced by `[ZERO]` -/
def div {F} (ops : FieldOps F) (a b : List F) : Option (List F) :=
  if degreeOf ops a < degreeOf ops b then none
  else if degreeOf ops b = 0 ∧ b.isEmpty then none
  else if degreeOf ops b = 0 ∧ headIsZero ops b then none
  else divLoop ops b (degreeOf ops b) (degreeOf ops a - degreeOf ops b + 1)
    (if a.isEmpty then [ops.zero] else a) []

/-! ### synthetic division -/

/-- `div_by_linear_in_place(p, b)` (division by `x - b`, any `b`):
`for coeff in p.iter_mut().rev() { *coeff += b * c; swap(coeff, &mut c) }`;
returns the new slice and the final `c` (the remainder, which the code drops) -/
def synDiv1 {F} (ops : FieldOps F) (b : F) : List F → List F × F
  | [] => ([], ops.zero)
  | x :: xs =>
    match synDiv1 ops b xs with
    | (xs', c) => (c :: xs', ops.add x (ops.mul b c))

/-- the `a > 1` loop `for i in (0..degree_offset).rev() { p[i] += p[i + a] * b }`
(`p[i] += p[i + a]` when `b == ONE`) -/
def synDivLoop {F} (ops : FieldOps F) (a : Nat) (b : F) : Nat → List F → Option (List F)
  | 0, p => some p
  | i + 1, p =>
    match p[i]?, p[i + a]? with
    | some x, some y =>
      synDivLoop ops a b i (p.set i (ops.add x (if ops.beq b ops.one then y else ops.mul y b)))
    | _, _ => none

/-- `syn_div_in_place(p, a, b)`; `a == 1` calls `div_by_linear_in_place`; in the `a > 1` branch `copy_within(a.., 0)` and the zero fill
give `p[a..] ++ [0; a]` -/
def synDivInPlace {F} (ops : FieldOps F) (p : List F) (a : Nat) (b : F) : Option (List F) :=
  if a = 0 then none
  else if ops.beq b ops.zero then none
  else if p.length ≤ a then none
  else if a = 1 then some (synDiv1 ops b p).1
  else
    match synDivLoop ops a b (p.length - a) p with
    | some p' => some (p'.drop a ++ List.replicate a ops.zero)
    | none => none

/-- `syn_div(p, a, b)` = `syn_div_in_place` on a copy -/
def synDiv {F} (ops : FieldOps F) (p : List F) (a : Nat) (b : F) : Option (List F) :=
  synDivInPlace ops p a b

/-- `syn_div_roots_in_place(p, roots)`: one `a == 1` pass per root -/
def synDivRootsInPlace {F} (ops : FieldOps F) (p : List F) (roots : List F) : Option (List F) :=
  if roots.isEmpty then none
  else if p.length ≤ roots.length then none
  else some (roots.foldl (fun p r => (synDiv1 ops r p).1) p)

/-! ### polynomial from roots -/

/-- one round of `fill_zero_roots` on the active suffix (already extended by the new zero):
`for j in n..xs.len() { result[j] = result[j] - result[j + 1] * x }` – ascending, so `result[j+1]`
is still the old value; the last element is not touched -/
def stepRoot {F} (ops : FieldOps F) (x : F) : List F → List F
  | c :: d :: rest => ops.sub c (ops.mul d x) :: stepRoot ops x (d :: rest)
  | l => l

/-- `fill_zero_roots(xs, result)` with `result.len() == xs.len() + 1`: the active suffix starts
as `[ONE]` and grows by one element per root -/
def fillZeroRoots {F} (ops : FieldOps F) (xs : List F) : List F :=
  xs.foldl (fun cur x => stepRoot ops x (ops.zero :: cur)) [ops.one]

def polyFromRoots {F} (ops : FieldOps F) (xs : List F) : List F := fillZeroRoots ops xs

/-! ### interpolation -/

/-- `for (j, res) in result.iter_mut().enumerate() { *res += numerator[j] * y_slice }` -/
def accScaled {F} (ops : FieldOps F) (s : F) : List F → Nat → List F → Option (List F)
  | [], _, _ => some []
  | r :: rs, j, num =>
    match num[j]?, accScaled ops s rs (j + 1) num with
    | some c, some rs' => some (ops.add r (ops.mul c s) :: rs')
    | _, _ => none

/-- the loop `for i in 0..xs.len()` of `interpolate`: `nums`, `dens` from index `i` on -/
def interpLoop {F} (ops : FieldOps F) (ys : List F) : List (List F) → List F → Nat → List F → Option (List F)
  | num :: nums, den :: dens, i, result =>
    match ys[i]? with
    | some y =>
      match accScaled ops (ops.mul y den) result 0 num with
      | some result' => interpLoop ops ys nums dens (i + 1) result'
      | none => none
    | none => none
  | [], _, _, result => some result
  | _ :: _, [], _, _ => none

/-- body of `interpolate` after `let roots = poly_from_roots(xs)`: the numerators are
`roots.clone()` divided by `(x - x_i)` through `div_by_linear_in_place` (no assertion on `x_i`) -/
def interpolateWith {F} (ops : FieldOps F) (threads : Nat) (roots xs ys : List F) (rlz : Bool) :
    Option (List F) :=
  match BatchUtils.batchInversion ops threads
      (((xs.map (fun x => (synDiv1 ops x roots).1)).zip xs).map (fun ex => eval ops ex.1 ex.2)) with
  | none => none
  | some dens =>
    match interpLoop ops ys (xs.map (fun x => (synDiv1 ops x roots).1)) dens 0
        (List.replicate xs.length ops.zero) with
    | some result => some (if rlz then removeLeadingZeros ops result else result)
    | none => none

/-- `interpolate(xs, ys, remove_leading_zeros)`; `threads` only matters for `batch_inversion` -/
def interpolate {F} (ops : FieldOps F) (threads : Nat) (xs ys : List F) (rlz : Bool) : Option (List F) :=
  interpolateWith ops threads (polyFromRoots ops xs) xs ys rlz

/-- the specialised synthetic division of `interpolate_batch` on `roots[1..]`:
`equation[N-1] = roots[N]; equation[k] = roots[k+1] + equation[k+1] * x` -/
def batchEquation {F} (ops : FieldOps F) (x : F) : List F → List F
  | [] => []
  | r :: rest =>
    match batchEquation ops x rest with
    | [] => [r]
    | e :: es => ops.add r (ops.mul e x) :: e :: es

/-- `poly[k] += equation[k] * inv_y` over the zipped coefficients -/
def zipAcc {F} (ops : FieldOps F) (s : F) : List F → List F → List F
  | p :: ps, e :: es => ops.add p (ops.mul e s) :: zipAcc ops s ps es
  | ps, _ => ps

/-- accumulate the `N` scaled equations of one batch -/
def batchRow {F} (ops : FieldOps F) : List (List F) → List F → List F → List F → Option (List F)
  | eq :: eqs, y :: ys, inv :: invs, poly => batchRow ops eqs ys invs (zipAcc ops (ops.mul y inv) poly eq)
  | [], _, _, poly => some poly
  | _ :: _, _, _, _ => none

def batchRows {F} (ops : FieldOps F) (n : Nat) :
    List (List (List F)) → List (List F) → List (List F) → Option (List (List F))
  | eqs :: eqss, invs :: invss, ys :: yss =>
    match batchRow ops eqs ys invs (List.replicate n ops.zero), batchRows ops n eqss invss yss with
    | some row, some rest => some (row :: rest)
    | _, _ => none
  | [], _, _ => some []
  | _ :: _, _, _ => none

/-- `interpolate_batch::<E, N>(xs, ys)`: `xs`, `ys` are lists of rows of `n` elements; the
equations of batch `i` are computed from `fill_zero_roots(xs[i])`, all `n·len` evaluations are
inverted in one `batch_inversion`, re-grouped by `n` (`group_slice_elements`, which divides by
`n`) -/
def interpolateBatch {F} (ops : FieldOps F) (threads : Nat) (n : Nat) (xs ys : List (List F)) :
    Option (List (List F)) :=
  match BatchUtils.batchInversion ops threads
      ((xs.map (fun row => row.map (fun x =>
          eval ops (batchEquation ops x (fillZeroRoots ops row).tail) x))).flatten),
    BatchUtils.groupSliceElements n
      ((xs.map (fun row => row.map (fun x => batchEquation ops x (fillZeroRoots ops row).tail))).flatten) with
  | some invs, some eqss =>
    match BatchUtils.groupSliceElements n invs with
    | some invss => batchRows ops n eqss invss ys
    | none => none
  | _, _ => none

end Wf.Polynom
