/-
Model of
* `air/src/air/divisor.rs` (`ConstraintDivisor`: `from_transition`, `from_assertion`, `degree`,
  `evaluate_at`, `evaluate_exemptions_at`, `get_trace_domain_value_at`),
* `air/src/air/transition/degree.rs` (`TransitionConstraintDegree`: `new`, `with_cycles`,
  `get_evaluation_degree`, `min_blowup_factor`),
* the degree bookkeeping of `air/src/air/context.rs` (`ce_blowup_factor` of `new_multi_segment`,
  `num_constraint_composition_columns`, `set_num_transition_exemptions`),
* `Air::get_periodic_column_polys` (`air/src/air/mod.rs`) and `polynom::eval`.

Core Lean only (no Mathlib): this file is linked into the native driver `wfdriver`.

Conventions
* field arithmetic goes through `ops : FieldOps F`; exponentiation is the parameter
  `exp : F → Nat → F` (the driver passes the field's own `exp`, the theorems pass `x ^ n`; that
  the field's `exp` is a power is C10's business);
* `g` is the trace-domain generator `B::get_root_of_unity(trace_length.ilog2())`, passed in by the
  caller (the driver computes it with the C11 model `FieldParams.rootOfUnity`);
* `interpolate_poly` (inverse FFT) is NOT modelled operationally here (C12): `idft` below is its
  SPECIFICATION, the inverse discrete Fourier transform written as a double sum; the driver runs
  it, the theorems quantify over any coefficient list that passes through the points;
* `usize` overflow is not modelled, with ONE exception that the source makes visible:
  `evaluate_at` casts the numerator degree `as u32` before exponentiating (`u32Cast`);
* a Rust panic (`assert!`, subtraction underflow in debug builds) is `none`.
-/
import Wf.Model.FieldOps
import Wf.Model.Assertions
namespace Wf.AirDivisor
open Wf

/-- `degree as u32` -/
def u32Cast (n : Nat) : Nat := n % 2 ^ 32

/-- `polynom::eval`: Horner's rule from the highest coefficient
(`p.iter().rev().fold(ZERO, |acc, c| acc * x + c)`) -/
def polyEval {F} (ops : FieldOps F) (p : List F) (x : F) : F :=
  p.foldr (fun c acc => ops.add (ops.mul acc x) c) ops.zero

/-! ## ConstraintDivisor -/

/-- `ConstraintDivisor { numerator: Vec<(usize, B)>, exemptions: Vec<B> }`:
`Π (x^dᵢ − cᵢ) / Π (x − eⱼ)` -/
structure Divisor (F : Type) where
  numerator : List (Nat × F)
  exemptions : List F

/-- `get_trace_domain_value_at(trace_length, step)` = `g.exp(step)` -/
def traceDomainValueAt {F} (exp : F → Nat → F) (g : F) (step : Nat) : F := exp g step

/-- `ConstraintDivisor::from_transition(n, num_exemptions)`: numerator `x^n − 1`, exemption points
`g^(n−e), …, g^(n−1)`.  `none`: `n − e` underflows. -/
def fromTransition {F} (ops : FieldOps F) (exp : F → Nat → F) (g : F) (n e : Nat) :
    Option (Divisor F) :=
  if e > n then none
  else some { numerator := [(n, ops.one)],
              exemptions := (List.range e).map fun i => traceDomainValueAt exp g (n - e + i) }

/-- `ConstraintDivisor::from_assertion(assertion, trace_length)`; `none` = `get_num_steps` panics -/
def fromAssertion {F} (ops : FieldOps F) (exp : F → Nat → F) (g : F) (a : Assertion) (n : Nat) :
    Option (Divisor F) :=
  match a.getNumSteps n with
  | none => none
  | some numSteps =>
    if a.firstStep == 0 then some { numerator := [(numSteps, ops.one)], exemptions := [] }
    else some { numerator := [(numSteps, traceDomainValueAt exp g (numSteps * a.firstStep))],
                exemptions := [] }

/-- `ConstraintDivisor::degree` (`usize` subtraction: truncated here, never negative for the
divisors built by the two constructors) -/
def Divisor.degree {F} (d : Divisor F) : Nat :=
  d.numerator.foldl (fun degree term => degree + term.1) 0 - d.exemptions.length

/-- the numerator loop of `evaluate_at` -/
def Divisor.evalNumerator {F} (ops : FieldOps F) (exp : F → Nat → F) (d : Divisor F) (x : F) : F :=
  d.numerator.foldl (fun acc term => ops.mul acc (ops.sub (exp x (u32Cast term.1)) term.2)) ops.one

/-- `evaluate_exemptions_at` -/
def Divisor.evalExemptions {F} (ops : FieldOps F) (d : Divisor F) (x : F) : F :=
  d.exemptions.foldl (fun r e => ops.mul r (ops.sub x e)) ops.one

/-- `evaluate_at`: `numerator / denominator` (field division = multiplication by `inv`) -/
def Divisor.evaluateAt {F} (ops : FieldOps F) (exp : F → Nat → F) (d : Divisor F) (x : F) : F :=
  ops.mul (d.evalNumerator ops exp x) (ops.inv (d.evalExemptions ops x))

/-! ## TransitionConstraintDegree -/

def MIN_CYCLE_LENGTH : Nat := 2
/-- `ProofOptions::MIN_BLOWUP_FACTOR` -/
def MIN_BLOWUP_FACTOR : Nat := 2

structure TcDegree where
  base : Nat
  cycles : List Nat
  deriving DecidableEq, Repr

/-- `TransitionConstraintDegree::new` (`none` = "degree must be at least one") -/
def TcDegree.new (degree : Nat) : Option TcDegree :=
  if degree > 0 then some { base := degree, cycles := [] } else none

/-- `TransitionConstraintDegree::with_cycles` -/
def TcDegree.withCycles (baseDegree : Nat) (cycles : List Nat) : Option TcDegree :=
  if !(baseDegree > 0) then none
  else if cycles.all (fun c => decide (c ≥ MIN_CYCLE_LENGTH) && isPow2 c)
  then some { base := baseDegree, cycles := cycles } else none

/-- `get_evaluation_degree(trace_length)`:
`result = base * (n − 1); for c in cycles { result += (n / c) * (c − 1) }` -/
def TcDegree.getEvaluationDegree (d : TcDegree) (n : Nat) : Nat :=
  d.cycles.foldl (fun result c => result + (n / c) * (c - 1)) (d.base * (n - 1))

/-- `min_blowup_factor`: `max((base + #cycles − 1).next_power_of_two(), MIN_BLOWUP_FACTOR)` -/
def TcDegree.minBlowupFactor (d : TcDegree) : Nat :=
  max (nextPow2 (d.base + d.cycles.length - 1)) MIN_BLOWUP_FACTOR

/-! ## AirContext (degree bookkeeping only) -/

/-- the fields of `AirContext` this property is about (`degrees` = main ++ aux) -/
structure Ctx where
  traceLen : Nat
  degrees : List TcDegree
  ceBlowup : Nat
  exemptions : Nat
  deriving DecidableEq, Repr

/-- the two loops of `new_multi_segment` that determine `ce_blowup_factor` -/
def ceBlowupOf (degrees : List TcDegree) : Nat :=
  degrees.foldl (fun acc d => if d.minBlowupFactor > acc then d.minBlowupFactor else acc) 0

/-- `AirContext::new` as far as degrees are concerned (`none`: no degrees, or
`options.blowup_factor() < ce_blowup_factor`); `num_transition_exemptions` starts at 1 -/
def Ctx.new (traceLen : Nat) (degrees : List TcDegree) (ldeBlowup : Nat) : Option Ctx :=
  if degrees.isEmpty then none
  else if !(ldeBlowup ≥ ceBlowupOf degrees) then none
  else some { traceLen := traceLen, degrees := degrees, ceBlowup := ceBlowupOf degrees, exemptions := 1 }

def Ctx.ceDomainSize (c : Ctx) : Nat := c.traceLen * c.ceBlowup

/-- the `highest_constraint_degree` loop -/
def Ctx.maxEvalDegree (c : Ctx) : Nat :=
  c.degrees.foldl (fun hi d =>
    if d.getEvaluationDegree c.traceLen > hi then d.getEvaluationDegree c.traceLen else hi) 0

/-- `usize::div_ceil` -/
def divCeil (a b : Nat) : Nat := if a % b > 0 then a / b + 1 else a / b

/-- `num_constraint_composition_columns` (after /repo commit adf2d5f):
`max((highest − (n − exemptions) + 1).div_ceil(n), 1)` -/
def Ctx.numConstraintCompositionColumns (c : Ctx) : Nat :=
  max (divCeil (c.maxEvalDegree - (c.traceLen - c.exemptions) + 1) c.traceLen) 1

/-- the formula BEFORE /repo commit adf2d5f (`fix: one constraint composition column too few ..`,
DESIGN.md §5-D12): `max((highest − (n − exemptions)).div_ceil(n), 1)`.  Kept only to state the
regression theorem `Wf.Props.C23.composition_columns_prefix_too_few`. -/
def Ctx.numConstraintCompositionColumnsPreFix (c : Ctx) : Nat :=
  max (divCeil (c.maxEvalDegree - (c.traceLen - c.exemptions)) c.traceLen) 1

inductive ExemptErr where
  | zero          -- "number of transition exemptions must be greater than zero"
  | halfTrace     -- "cannot exceed trace_len / 2 + 1"
  | degree        -- "cannot exceed: max_exemptions"
  deriving DecidableEq, Repr

/-- `set_num_transition_exemptions(n)` with its three assertions -/
def Ctx.setNumTransitionExemptions (c : Ctx) (n : Nat) : Except ExemptErr Ctx :=
  if !(n > 0) then .error .zero
  else if !(n ≤ c.traceLen / 2 + 1) then .error .halfTrace
  else if c.degrees.all (fun d =>
      decide (n ≤ (c.ceDomainSize - 1) + c.traceLen - d.getEvaluationDegree c.traceLen))
  then .ok { c with exemptions := n } else .error .degree

/-! ## Periodic columns -/

/-- SPECIFICATION of `fft::interpolate_poly(values, get_inv_twiddles(len))`: the inverse DFT over
the subgroup generated by `omega` (`= B::get_root_of_unity(len.ilog2())`):
`c_j = len⁻¹ · Σ_i v_i · omega^(−i·j)`, with `omega^(−1) = omega^(len−1)`. -/
def idft {F} (ops : FieldOps F) (exp : F → Nat → F) (omega : F) (values : List F) : List F :=
  let len := values.length
  let invLen := ops.inv (ops.ofNat len)
  let omegaInv := exp omega (len - 1)
  (List.range len).map fun j =>
    ops.mul invLen
      ((values.zipIdx.map fun (v, i) => ops.mul v (exp omegaInv (i * j % len))).foldl ops.add ops.zero)

/-- the three assertions of `get_periodic_column_polys` on one column (`true` = passes) -/
def periodicColumnOk (cycleLength traceLength : Nat) : Bool :=
  decide (cycleLength ≥ MIN_CYCLE_LENGTH) && isPow2 cycleLength && decide (cycleLength ≤ traceLength)

/-- `get_periodic_column_polys` for one column (`interp` = `interpolate_poly`) -/
def periodicPoly {F} (interp : List F → List F) (values : List F) (traceLength : Nat) :
    Option (List F) :=
  if periodicColumnOk values.length traceLength then some (interp values) else none

/-- how a periodic polynomial is used at a point `x` (`verifier/src/evaluator.rs`):
`num_cycles = trace_length / poly.len(); polynom::eval(poly, x.exp_vartime(num_cycles as u32))` -/
def periodicEvalAt {F} (ops : FieldOps F) (exp : F → Nat → F) (poly : List F) (traceLength : Nat)
    (x : F) : F :=
  polyEval ops poly (exp x (u32Cast (traceLength / poly.length)))

end Wf.AirDivisor
