/-
Model of `ReadAdapter` (`utils/core/src/serde/byte_reader.rs`): the adapter of `ByteReader` to any
`std::io::Read`, as a state machine, next to the in-memory `SliceReader` it must agree with.

* `buf`, `pos`, `eof` are the struct's `buf`, `pos`, `guaranteed_eof`; `cap` is `buf.capacity()`.
* `rbuf` is the unread part of the `BufReader`'s internal buffer (capacity 256), `src` the results
  the underlying `Read` will return from now on (each element one `read` call, `[]` = end of
  stream forever).  `BufReader::fill_buf` refills only when `rbuf` is empty, by ONE `read` call;
  the driver pre-splits chunks longer than 256 bytes and drops empty ones, which is what
  `BufReader` itself does with such a source.
Core Lean only.
-/
import Wf.Model.Serde
namespace Wf

structure Adapter where
  buf : Bytes
  cap : Nat
  pos : Nat
  rbuf : Bytes
  src : List Bytes
  eof : Bool
  deriving Repr

namespace Adapter

def init (chunks : List Bytes) : Adapter :=
  { buf := [], cap := 0, pos := 0, rbuf := [], src := chunks, eof := false }

/-- `buffer()` / `non_empty_buffer()`: the unread part of the local buffer (`get(pos..)`). -/
def buffer (s : Adapter) : Bytes := s.buf.drop s.pos

/-- everything that is still to be delivered, in order -/
def abs (s : Adapter) : Bytes := s.buffer ++ s.rbuf ++ s.src.flatten

/-- `BufReader::fill_buf` -/
def fill (s : Adapter) : Adapter :=
  if s.rbuf.isEmpty then
    match s.src with
    | [] => s
    | c :: cs => { s with rbuf := c, src := cs }
  else s

/-- `non_empty_reader_buffer_mut`: `false` = `Err(UnexpectedEOF)`, and then `guaranteed_eof` is set -/
def nonEmptyReaderMut (s : Adapter) : Adapter × Bool :=
  let s1 := s.fill
  if s1.rbuf.isEmpty then ({ s1 with eof := true }, false) else (s1, true)

/-- `non_empty_reader_buffer` (through the `RefCell`; does not touch `guaranteed_eof`) -/
def nonEmptyReader (s : Adapter) : Adapter × Bool :=
  let s1 := s.fill
  (s1, !s1.rbuf.isEmpty)

/-- `Vec::extend_from_slice` growth policy (`RawVec::grow_amortized`, 1-byte elements) -/
def grow (cap len additional : Nat) : Nat :=
  if cap - len ≥ additional then cap else max 8 (max (2 * cap) (len + additional))

/-- one iteration body of `buffer_at_least` after a successful refill: normalise `pos`, move the
    reader's buffer into `buf`, `consume` it. -/
def absorb (s : Adapter) : Adapter :=
  let s1 := if s.pos > s.buf.length then { s with buf := [], pos := 0 } else s
  { s1 with buf := s1.buf ++ s1.rbuf, cap := grow s1.cap s1.buf.length s1.rbuf.length, rbuf := [] }

/-- `buffer_at_least(count)` once the reader's own buffer is empty: one chunk per iteration -/
def balSrc (count : Nat) (s : Adapter) : List Bytes → Adapter × Bool
  | [] =>
    if s.buffer.length ≥ count then ({ s with src := [] }, true)
    else ({ s with src := [], eof := true }, false)
  | c :: cs =>
    if s.buffer.length ≥ count then ({ s with src := c :: cs }, true)
    else if c.isEmpty then
      -- a zero-length read is end-of-stream for `BufReader::fill_buf`
      ({ s with src := cs, eof := true }, false)
    else balSrc count (absorb { s with rbuf := c, src := cs }) cs

/-- `buffer_at_least(count)` -/
def bufferAtLeast (count : Nat) (s : Adapter) : Adapter × Bool :=
  if s.buffer.length ≥ count then (s, true)
  else if s.rbuf.isEmpty then balSrc count s s.src
  else balSrc count (absorb s) (absorb s).src

/-- tail of `read_exact`: "check if we should reset our internal buffer" -/
def resetIfDrained (s : Adapter) : Adapter :=
  if s.buffer.isEmpty && s.pos > 0 then { s with buf := [] } else s

/-- `pop` -/
def pop (s : Adapter) : Adapter × Out Nat :=
  match s.buffer with
  | b :: _ => ({ s with pos := s.pos + 1 }, .ok b.toNat [])
  | [] =>
    let (s1, ok) := s.nonEmptyReaderMut
    if ok then
      match s1.rbuf with
      | b :: rest => ({ s1 with rbuf := rest }, .ok b.toNat [])
      | [] => (s1, .abort)   -- unreachable: `ok` means non-empty
    else ({ s1 with eof := true }, .err .eof)

/-- `read_exact::<N>` for `N > 0` -/
def readExact (n : Nat) (s : Adapter) : Adapter × Out Bytes :=
  let k := s.buffer.length
  if k = 0 then
    let (s1, ok) := s.nonEmptyReaderMut
    if !ok then (s1, .err .eof)
    else if s1.rbuf.length < n then
      let (s2, ok2) := bufferAtLeast n s1
      if !ok2 then (s2, .err .eof)
      else if s2.buffer.length < n then (s2, .abort)   -- `&self.buffer()[..N]` out of range
      else ({ s2 with pos := s2.pos + n }, .ok (s2.buffer.take n) [])
    else
      (resetIfDrained { s1 with rbuf := s1.rbuf.drop n }, .ok (s1.rbuf.take n) [])
  else if k ≥ n then
    (resetIfDrained { s with pos := s.pos + n }, .ok (s.buffer.take n) [])
  else
    let (s1, ok) := s.nonEmptyReaderMut
    if !ok then (s1, .err .eof)
    else
      let m := s1.rbuf.length
      if m + k ≥ n then
        let needed := n - k
        (resetIfDrained { s1 with pos := s1.pos + k, rbuf := s1.rbuf.drop needed },
          .ok (s1.buffer ++ s1.rbuf.take needed) [])
      else
        let (s2, ok2) := bufferAtLeast n s1
        if !ok2 then (s2, .err .eof)
        else if s2.buffer.length < n then (s2, .abort)   -- the `debug_assert!` / out-of-bounds copy
        else ({ s2 with pos := s2.pos + n }, .ok (s2.buffer.take n) [])

/-- `read_slice(len)` -/
def readSliceA (len : Nat) (s : Adapter) : Adapter × Out Bytes :=
  if len = 0 then (s, .ok [] [])
  else
    let shouldOptimize := s.pos ≥ 16 && !(s.cap - s.buffer.length ≥ len)
    let s0 := if shouldOptimize then { s with buf := s.buffer, pos := 0 } else s
    let (s1, ok) := bufferAtLeast len s0
    if !ok then (s1, .err .eof)
    else if s1.pos + len > s1.buf.length then (s1, .abort)   -- slice index out of range
    else ({ s1 with pos := s1.pos + len }, .ok ((s1.buf.drop s1.pos).take len) [])

/-- `read_array::<N>` -/
def readArrayA (n : Nat) (s : Adapter) : Adapter × Out Bytes :=
  if n = 0 then (s, .ok [] []) else readExact n s

/-- `peek_u8` -/
def peek (s : Adapter) : Adapter × Out Nat :=
  match s.buffer with
  | b :: _ => (s, .ok b.toNat [])
  | [] =>
    let (s1, ok) := s.nonEmptyReader
    if ok then
      match s1.rbuf with
      | b :: _ => (s1, .ok b.toNat [])
      | [] => (s1, .abort)
    else (s1, .err .eof)

/-- `check_eor(num_bytes)`: `true` = `Ok(())` -/
def checkEorA (n : Nat) (s : Adapter) : Adapter × Bool :=
  let bl := s.buffer.length
  if bl ≥ n then (s, true)
  else
    let (s1, ok) := s.nonEmptyReader
    if !ok then (s1, false)
    else if bl + s1.rbuf.length ≥ n then (s1, true)
    else if s1.eof then (s1, false)
    else (s1, true)   -- "optimistically assume we can read `num_bytes`"

/-- `has_more_bytes` -/
def hasMore (s : Adapter) : Adapter × Bool :=
  if !s.buffer.isEmpty then (s, true)
  else
    let (s1, ok) := s.nonEmptyReader
    (s1, ok)

end Adapter

/-! ## The operation alphabet and the two readers as state machines -/

inductive ROp where
  | peek
  | readU8
  | readSlice (n : Nat)
  | readArray (n : Nat)
  | checkEor (n : Nat)
  | hasMore
  deriving Repr, DecidableEq

inductive RResp where
  | byte (b : Nat)
  | bytes (bs : Bytes)
  | flag (b : Bool)     -- has_more_bytes, and check_eor (`true` = Ok)
  | eof                 -- Err(UnexpectedEOF)
  | abort               -- panic
  deriving Repr, DecidableEq

/-- `SliceReader` (state = remaining bytes) -/
def sliceStep (bs : Bytes) : ROp → Bytes × RResp
  | .peek => match bs with
    | [] => (bs, .eof)
    | b :: _ => (bs, .byte b.toNat)
  | .readU8 => match bs with
    | [] => (bs, .eof)
    | b :: r => (r, .byte b.toNat)
  | .readSlice n => if bs.length < n then (bs, .eof) else (bs.drop n, .bytes (bs.take n))
  | .readArray n => if bs.length < n then (bs, .eof) else (bs.drop n, .bytes (bs.take n))
  | .checkEor n => (bs, .flag (decide (n ≤ bs.length)))
  | .hasMore => (bs, .flag (!bs.isEmpty))

def outNat : Out Nat → RResp
  | .ok b _ => .byte b
  | .err _ => .eof
  | .abort => .abort

def outBytes : Out Bytes → RResp
  | .ok b _ => .bytes b
  | .err _ => .eof
  | .abort => .abort

/-- `ReadAdapter` -/
def adapterStep (s : Adapter) : ROp → Adapter × RResp
  | .peek => let (s', o) := s.peek; (s', outNat o)
  | .readU8 => let (s', o) := s.pop; (s', outNat o)
  | .readSlice n => let (s', o) := s.readSliceA n; (s', outBytes o)
  | .readArray n => let (s', o) := s.readArrayA n; (s', outBytes o)
  | .checkEor n => let (s', b) := s.checkEorA n; (s', .flag b)
  | .hasMore => let (s', b) := s.hasMore; (s', .flag b)

/-- responses of a whole operation sequence -/
def runSlice : Bytes → List ROp → List RResp
  | _, [] => []
  | bs, op :: ops => let (bs', r) := sliceStep bs op; r :: runSlice bs' ops

def runAdapter : Adapter → List ROp → List RResp
  | _, [] => []
  | s, op :: ops => let (s', r) := adapterStep s op; r :: runAdapter s' ops

end Wf
