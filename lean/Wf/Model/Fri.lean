/-
Model of the FRI crate (`fri/src`): `FriOptions::num_fri_layers` (options.rs), `fold_positions` and
`apply_drp` (folding/mod.rs), `map_positions_to_indexes` (utils.rs), the layer / remainder
construction of `FriProver::build_layers` / `build_proof` (prover/mod.rs) and the algebraic part of
`FriVerifier::new` / `verify` / `verify_generic`, `get_query_values`, `eval_horner_rev`
(verifier/mod.rs).

Core Lean only (linked into `wfdriver`), generic over `ops : FieldOps F`.

Conventions
* A Rust panic (division / remainder by zero, index out of bounds, `unwrap` on `None`,
  `Vec::remove` on an empty vector, failed `assert!`) is an explicit outcome: `none` for the helper
  functions, `Res.abort` for the verifier.  Release semantics (`debug_assert!` absent).
* What is NOT modelled here (hashing / Merkle trees are properties C15–C19, the random coin is C20):
  the verifier model takes, for every layer, the opened rows together with the verdict `merkleOk` of
  `VectorCommitment::verify_many` on them, the drawn `alphas`, and the verdict `remainderOk` of the
  comparison `last commitment == hash_elements(remainder)`.  Everything else of `verify_generic`
  (index bookkeeping, query-value lookup, row interpolation, folding checks, degree bookkeeping,
  remainder evaluation) is mirrored statement by statement.
* Field-level numerics are modelled by their exact values, not by their instruction sequences (the
  arithmetic is exact, so the values coincide; FFT / `polynom` internals are properties C12 / C13):
  - the size-`N` `serial_fft` with inverse twiddles inside `apply_drp` and the
    `fft::interpolate_poly_with_offset` of `set_remainder` are the inverse DFT sums
    `(1/len)·Σ_j v_j·ω^(-jk)` followed by the same scaling by powers of the inverse offset that the
    Rust code applies;
  - `polynom::eval(polynom::interpolate_batch(xs, ys)[i], alpha)` is the Lagrange form
    `Σ_j y_j·Π_{k≠j}(alpha - x_k)·(Π_{k≠j}(x_j - x_k))⁻¹`;
  - `exp_vartime` / `exp` is `pow` (square and multiply).
* `usize` overflow is not modelled.
-/
import Wf.Model.FieldOps
namespace Wf.Fri
open Wf

/-! ### options (`fri/src/options.rs`) -/

/-- `FriOptions` (the constructor asserts `blowup` a power of two and `folding ∈ {2,4,8,16}`) -/
structure FriOptions where
  blowup : Nat
  folding : Nat
  rmd : Nat            -- remainder_max_degree
  deriving Repr, DecidableEq

def FriOptions.maxRemainderSize (o : FriOptions) : Nat := (o.rmd + 1) * o.blowup

/-- the `while domain_size > max_remainder_size { domain_size /= folding_factor; result += 1 }` loop;
`fuel` bounds the number of iterations (the initial `domain_size` suffices for `folding ≥ 2`; for
`folding = 1` the Rust loop does not terminate and for `0` it divides by zero – both excluded by the
constructor) -/
def numFriLayersGo (ff maxRem : Nat) : Nat → Nat → Nat
  | 0, _ => 0
  | fuel + 1, d => if d > maxRem then numFriLayersGo ff maxRem fuel (d / ff) + 1 else 0

/-- `FriOptions::num_fri_layers` -/
def FriOptions.numFriLayers (o : FriOptions) (domainSize : Nat) : Nat :=
  numFriLayersGo o.folding o.maxRemainderSize domainSize domainSize

/-- domain size after `k` foldings (`domain_size /= folding_factor`, `k` times) -/
def foldedSize (ff : Nat) : Nat → Nat → Nat
  | 0, d => d
  | k + 1, d => foldedSize ff k (d / ff)

/-! ### position folding (`fri/src/folding/mod.rs`) -/

/-- the loop of `fold_positions`: `m` = target domain size, `result` = the vector built so far -/
def foldPositionsGo (m : Nat) : List Nat → List Nat → List Nat
  | [], result => result
  | p :: ps, result =>
    if result.contains (p % m) then foldPositionsGo m ps result
    else foldPositionsGo m ps (result ++ [p % m])

/-- `fold_positions(positions, source_domain_size, folding_factor)`; `none` = division by zero
(`folding_factor = 0`) or remainder by zero (target size 0 with at least one position) -/
def foldPositions (positions : List Nat) (sourceDomainSize foldingFactor : Nat) : Option (List Nat) :=
  if foldingFactor = 0 then none
  else if sourceDomainSize / foldingFactor = 0 ∧ positions ≠ [] then none
  else some (foldPositionsGo (sourceDomainSize / foldingFactor) positions [])

/-! ### `map_positions_to_indexes` (`fri/src/utils.rs`) -/

/-- index of `position` in the partitioned layout: partition `position % np`, local index
`(position - position % np) / np`, partitions of `partitionSize` rows stored one after another -/
def partitionIndex (partitionSize np position : Nat) : Nat :=
  (position % np) * partitionSize + (position - position % np) / np

/-- `map_positions_to_indexes`; `none` = division by zero -/
def mapPositionsToIndexes (positions : List Nat) (sourceDomainSize foldingFactor numPartitions : Nat) :
    Option (List Nat) :=
  if numPartitions = 1 then some positions
  else if foldingFactor = 0 then none
  else if numPartitions = 0 then none
  else some (positions.map (partitionIndex (sourceDomainSize / foldingFactor / numPartitions) numPartitions))

/-! ### field helpers -/

/-- square and multiply, least significant bit first; `fuel` ≥ number of bits of `n` -/
def powGo {F} (ops : FieldOps F) : Nat → F → F → Nat → F
  | 0, r, _, _ => r
  | fuel + 1, r, b, n =>
    if n = 0 then r
    else powGo ops fuel (if n % 2 = 1 then ops.mul r b else r) (ops.mul b b) (n / 2)

/-- `x.exp(n)` / `x.exp_vartime(n)` -/
def pow {F} (ops : FieldOps F) (x : F) (n : Nat) : F := powGo ops n ops.one x n

/-- `Σ_{k<n} f k`, accumulated from `k = 0` -/
def sumRange {F} (ops : FieldOps F) (n : Nat) (f : Nat → F) : F :=
  (List.range n).foldl (fun acc k => ops.add acc (f k)) ops.zero

/-- `Π_{k<n} f k`, accumulated from `k = 0` -/
def prodRange {F} (ops : FieldOps F) (n : Nat) (f : Nat → F) : F :=
  (List.range n).foldl (fun acc k => ops.mul acc (f k)) ops.one

/-- `polynom::eval(p, x)`: `p.iter().rev().fold(ZERO, |acc, c| acc * x + c)`, lowest degree first -/
def evalPoly {F} (ops : FieldOps F) (p : List F) (x : F) : F :=
  p.reverse.foldl (fun acc c => ops.add (ops.mul acc x) c) ops.zero

/-- `eval_horner_rev(p, x)`: `p.iter().fold(ZERO, |acc, c| acc * x + c)`, HIGHEST degree first -/
def evalHornerRev {F} (ops : FieldOps F) (p : List F) (x : F) : F :=
  p.foldl (fun acc c => ops.add (ops.mul acc x) c) ops.zero

/-- `a == b` on vectors of field elements -/
def listBeq {F} (ops : FieldOps F) : List F → List F → Bool
  | [], [] => true
  | a :: as, b :: bs => ops.beq a b && listBeq ops as bs
  | _, _ => false

/-- `utils::transpose_slice::<_, N>`: `result[i][j] = source[i + j * row_count]`; `none` = the
length assertion fails (or `N = 0`) -/
def transposeRows {α} (n : Nat) (xs : List α) : Option (List (List α)) :=
  if n = 0 then none
  else if xs.length / n * n ≠ xs.length then none
  else (List.range (xs.length / n)).mapM fun i => (List.range n).mapM fun j => xs[i + j * (xs.length / n)]?

/-- value at `a` of the polynomial of degree `< xs.length` through the points `(xs[j], ys[j])`
(`polynom::eval(interpolate_batch(..)[row], a)`): Lagrange form, one inversion per node -/
def lagrangeEval {F} (ops : FieldOps F) (xs ys : List F) (a : F) : F :=
  sumRange ops xs.length fun j =>
    ops.mul (ops.mul (ys.getD j ops.zero)
      (prodRange ops xs.length fun k => if k = j then ops.one else ops.sub a (xs.getD k ops.zero)))
      (ops.inv (prodRange ops xs.length fun k =>
        if k = j then ops.one else ops.sub (xs.getD j ops.zero) (xs.getD k ops.zero)))

/-- inverse DFT with offset: coefficient `k` of the polynomial of degree `< vs.length` whose values
on `x·w^j` are `vs[j]`, given `winv = w⁻¹`, `xinv = x⁻¹`, `ninv = (vs.length)⁻¹`:
`(Σ_j vs[j]·winv^(j·k)) · (ninv · xinv^k)` (the code multiplies the FFT output by the running
product `offset = len_offset · domain_offset^k`) -/
def idftCoeff {F} (ops : FieldOps F) (winv xinv ninv : F) (vs : List F) (k : Nat) : F :=
  ops.mul (sumRange ops vs.length fun j => ops.mul (vs.getD j ops.zero) (pow ops winv (j * k)))
    (ops.mul ninv (pow ops xinv k))

def idftCoeffs {F} (ops : FieldOps F) (winv xinv ninv : F) (vs : List F) : List F :=
  (List.range vs.length).map (idftCoeff ops winv xinv ninv vs)

/-! ### `apply_drp` (prover side folding) -/

/-- one row of `apply_drp`: interpolate the `N` values of the row over the coset `x_i·ω_N^j`
(`x_i = offset·g^i`) and evaluate the result at `alpha`.  `wN` is the `N`-th root of unity
(`get_inv_twiddles(N)` uses `wN^(N-1)` as its inverse), `xinv = x_i⁻¹` (`get_inv_offsets`) -/
def drpRow {F} (ops : FieldOps F) (n : Nat) (wN xinv alpha : F) (row : List F) : F :=
  evalPoly ops (idftCoeffs ops (pow ops wN (n - 1)) xinv (ops.inv (ops.ofNat n)) row) alpha

/-- `apply_drp::<_, _, N>(values, domain_offset, alpha)` on the transposed evaluations; `g` is the
generator of the source domain (`get_root_of_unity(ilog2(values.len() * N))`), so that
`ω_N = g^(values.len())`, and `get_inv_offsets` is the series `offset⁻¹·(g⁻¹)^i` -/
def applyDrp {F} (ops : FieldOps F) (n : Nat) (g offset alpha : F) (rows : List (List F)) : List F :=
  (List.range rows.length).map fun i =>
    drpRow ops n (pow ops g rows.length) (ops.mul (ops.inv offset) (pow ops (ops.inv g) i)) alpha
      (rows.getD i [])

/-! ### prover: layers, remainder, queries (`fri/src/prover/mod.rs`) -/

/-- `set_remainder`: interpolate the last evaluations over `offset·<g>`, keep the first
`len / blowup` coefficients, REVERSE them (highest degree first) -/
def remainderPoly {F} (ops : FieldOps F) (g offset : F) (blowup : Nat) (evals : List F) : List F :=
  ((idftCoeffs ops (pow ops g (evals.length - 1)) (ops.inv offset) (ops.inv (ops.ofNat evals.length))
      evals).take (evals.length / blowup)).reverse

/-- the loop of `build_layers`: `k` layers to build, `g` the generator of the current domain,
`alphas` the challenges drawn after each commitment.  Returns the layers (transposed rows; the
code stores them flattened) and the evaluations left for the remainder -/
def buildLayersGo {F} (ops : FieldOps F) (n : Nat) (offset : F) :
    Nat → F → List F → List F → Option (List (List (List F)) × List F)
  | 0, _, _, evals => some ([], evals)
  | k + 1, g, alphas, evals =>
    match transposeRows n evals, alphas with
    | some rows, alpha :: alphas' =>
      match buildLayersGo ops n offset k (pow ops g n) alphas' (applyDrp ops n g offset alpha rows) with
      | some (layers, last) => some (rows :: layers, last)
      | none => none
    | _, _ => none

/-- `build_layers` followed by `set_remainder`: layers and the (reversed) remainder polynomial.
`g` generates the domain of `evals` -/
def buildLayers {F} (ops : FieldOps F) (o : FriOptions) (g offset : F) (alphas evals : List F) :
    Option (List (List (List F)) × List F) :=
  match buildLayersGo ops o.folding offset (o.numFriLayers evals.length) g alphas evals with
  | some (layers, last) =>
    some (layers, remainderPoly ops (pow ops g (o.folding ^ (o.numFriLayers evals.length))) offset o.blowup last)
  | none => none

/-- `query_layer`: `evaluations[position]` for the folded positions (index out of bounds = `none`) -/
def queryLayer {α} (rows : List (List α)) (positions : List Nat) : Option (List (List α)) :=
  positions.mapM fun p => rows[p]?

/-- the loop of `build_proof`: fold the positions, open every layer at them -/
def buildProofLayers {α} (n : Nat) : List (List (List α)) → List Nat → Nat → Option (List (List (List α)))
  | [], _, _ => some []
  | rows :: layers, positions, domainSize =>
    match foldPositions positions domainSize n with
    | none => none
    | some folded =>
      match queryLayer rows folded, buildProofLayers n layers folded (domainSize / n) with
      | some q, some rest => some (q :: rest)
      | _, _ => none

/-! ### verifier (`fri/src/verifier/mod.rs`) -/

/-- `VerifierError` (fri/src/errors.rs), without the random-coin variant -/
inductive VerifierError where
  | degreeTruncation (degree folding depth : Nat)
  | remainderDegreeMismatch (degree : Nat)
  | invalidLayerFolding (depth : Nat)
  | invalidRemainderFolding
  | remainderCommitmentMismatch
  | layerCommitmentMismatch
  | numPositionEvaluationMismatch (positions evaluations : Nat)
  | unsupportedFoldingFactor (folding : Nat)
  /-- not a `VerifierError`: `DefaultVerifierChannel::new` returns
  `DeserializationError::InvalidValue("expected .. FRI layers, but the proof contains ..")` -/
  | proofLayerCountMismatch (expected actual : Nat)
  deriving Repr, DecidableEq

inductive Res (α : Type) where
  | ok (a : α)
  | err (e : VerifierError)
  | abort
  deriving Repr, DecidableEq

/-- `usize::next_power_of_two` (doubling; fuel `n`) -/
def nextPow2Go (n : Nat) : Nat → Nat → Nat
  | 0, p => p
  | fuel + 1, p => if p < n then nextPow2Go n fuel (p * 2) else p
def nextPow2 (n : Nat) : Nat := nextPow2Go n n 1

/-- the degree bookkeeping loop of `FriVerifier::new` over `numCommitments` layer commitments:
`DegreeTruncation` unless `max_degree_plus_1` is a multiple of the folding factor at every depth but
the last -/
def newCheckGo (folding numCommitments : Nat) : Nat → Nat → Nat → Option VerifierError
  | 0, _, _ => none
  | k + 1, depth, mdp1 =>
    if depth ≠ numCommitments - 1 ∧ mdp1 % folding ≠ 0 then
      some (.degreeTruncation (mdp1 - 1) folding depth)
    else newCheckGo folding numCommitments k (depth + 1) (mdp1 / folding)

def newCheck (folding maxPolyDegree numCommitments : Nat) : Option VerifierError :=
  newCheckGo folding numCommitments numCommitments 0 (maxPolyDegree + 1)

/-- the fields of `FriVerifier` the verification reads.  `g` = `domain_generator` (generator of the
domain of size `domainSize`, embedded into the evaluation field), `offset` = `options.domain_offset()`,
`alphas` = `layer_alphas` (one per commitment) -/
structure Verifier (F : Type) where
  maxPolyDegree : Nat
  domainSize : Nat
  g : F
  offset : F
  options : FriOptions
  numPartitions : Nat
  alphas : List F

/-- what `channel.read_layer_queries` delivers for one layer: the rows of `N` values and the verdict
of `verify_many` on their hashes against the layer commitment at the computed indexes -/
structure LayerOpening (F : Type) where
  rows : List (List F)
  merkleOk : Bool

/-- the mutable variables of the loop of `verify_generic` -/
structure LoopState (F : Type) where
  g : F
  domainSize : Nat
  mdp1 : Nat
  positions : List Nat
  evaluations : List F

/-- `get_query_values::<E, N>`: for every position the value at row
`folded_positions.position(position % row_length)`, column `position / row_length` -/
def getQueryValues {F} (values : List (List F)) (positions folded : List Nat) (domainSize n : Nat) :
    Option (List F) :=
  if n = 0 then none
  else if domainSize / n = 0 ∧ positions ≠ [] then none
  else positions.mapM fun p =>
    match folded.findIdx? (· == p % (domainSize / n)) with
    | none => none
    | some idx =>
      match values[idx]? with
      | none => none
      | some row => row[p / (domainSize / n)]?

/-- `folding_roots`: `domain_generator^(domain_size / N * i)`, `i < N` (of the INITIAL domain) -/
def foldingRoots {F} (ops : FieldOps F) (g0 : F) (domainSize0 n : Nat) : List F :=
  (List.range n).map fun i => pow ops g0 (domainSize0 / n * i)

/-- `xs`: for every folded position `i` the coset `(g^i · offset) · r`, `r ∈ folding_roots` -/
def layerXs {F} (ops : FieldOps F) (g offset : F) (roots : List F) (folded : List Nat) : List (List F) :=
  folded.map fun i => roots.map fun r => ops.mul (ops.mul (pow ops g i) offset) r

/-- `interpolate_batch(xs, layer_values)` then `eval(·, alpha)` row by row; the loops run over
`xs`, `ys[i]` out of bounds = `none` -/
def foldRows {F} (ops : FieldOps F) (alpha : F) : List (List F) → List (List F) → Option (List F)
  | [], _ => some []
  | xs :: xss, ys :: yss =>
    match foldRows ops alpha xss yss with
    | some rest => some (lagrangeEval ops xs ys alpha :: rest)
    | none => none
  | _ :: _, [] => none

/-- one iteration of the `for depth in 0..num_fri_layers` loop of `verify_generic` -/
def verifyLayer {F} (ops : FieldOps F) (v : Verifier F) (depth : Nat) (st : LoopState F)
    (opening : LayerOpening F) : Res (LoopState F) :=
  match foldPositions st.positions st.domainSize v.options.folding with
  | none => .abort
  | some folded =>
    match mapPositionsToIndexes folded st.domainSize v.options.folding v.numPartitions with
    | none => .abort
    | some _ =>
      match v.alphas[depth]? with               -- `self.layer_commitments[depth]`, `self.layer_alphas[depth]`
      | none => .abort
      | some alpha =>
        if !opening.merkleOk then .err .layerCommitmentMismatch
        else
          match getQueryValues opening.rows st.positions folded st.domainSize v.options.folding with
          | none => .abort
          | some queryValues =>
            if !listBeq ops st.evaluations queryValues then .err (.invalidLayerFolding depth)
            else
              match foldRows ops alpha
                  (layerXs ops st.g v.offset (foldingRoots ops v.g v.domainSize v.options.folding) folded)
                  opening.rows with
              | none => .abort
              | some evaluations =>
                if st.mdp1 % v.options.folding ≠ 0 then
                  .err (.degreeTruncation (st.mdp1 - 1) v.options.folding depth)
                else
                  .ok { g := pow ops st.g v.options.folding
                        domainSize := st.domainSize / v.options.folding
                        mdp1 := st.mdp1 / v.options.folding
                        positions := folded
                        evaluations := evaluations }

/-- the loop: `k` iterations left; `take_next_fri_layer_proof` on an exhausted channel panics -/
def verifyLoop {F} (ops : FieldOps F) (v : Verifier F) :
    Nat → Nat → LoopState F → List (LayerOpening F) → Res (LoopState F)
  | 0, _, st, _ => .ok st
  | k + 1, depth, st, openings =>
    match openings with
    | [] => .abort
    | o :: rest =>
      match verifyLayer ops v depth st o with
      | .ok st' => verifyLoop ops v k (depth + 1) st' rest
      | .err e => .err e
      | .abort => .abort

/-- `for (&position, evaluation) in positions.iter().zip(evaluations)`: the remainder polynomial
evaluated at `offset · g^position` must equal the folded evaluation -/
def checkRemainder {F} (ops : FieldOps F) (g offset : F) (remainder : List F) :
    List Nat → List F → Bool
  | p :: ps, e :: es =>
    ops.beq (evalHornerRev ops remainder (ops.mul offset (pow ops g p))) e &&
      checkRemainder ops g offset remainder ps es
  | _, _ => true

/-- the part of `verify_generic` after the loop.  `remainderOk` = the last layer commitment exists
and equals `hash_elements(remainder)` -/
def verifyRemainder {F} (ops : FieldOps F) (v : Verifier F) (st : LoopState F) (remainder : List F)
    (remainderOk : Bool) : Res Unit :=
  if !remainderOk then .err .remainderCommitmentMismatch
  else if remainder.length > st.mdp1 then .err (.remainderDegreeMismatch (st.mdp1 - 1))
  else if checkRemainder ops st.g v.offset remainder st.positions st.evaluations then .ok ()
  else .err .invalidRemainderFolding

def supportedFolding (n : Nat) : Bool := n == 2 || n == 4 || n == 8 || n == 16

/-- `FriVerifier::verify` -/
def verify {F} (ops : FieldOps F) (v : Verifier F) (evaluations : List F) (positions : List Nat)
    (openings : List (LayerOpening F)) (remainder : List F) (remainderOk : Bool) : Res Unit :=
  if evaluations.length ≠ positions.length then
    .err (.numPositionEvaluationMismatch positions.length evaluations.length)
  else if !supportedFolding v.options.folding then .err (.unsupportedFoldingFactor v.options.folding)
  else
    match verifyLoop ops v (v.options.numFriLayers v.domainSize) 0
        { g := v.g, domainSize := v.domainSize, mdp1 := v.maxPolyDegree + 1,
          positions := positions, evaluations := evaluations } openings with
    | .ok st => verifyRemainder ops v st remainder remainderOk
    | .err e => .err e
    | .abort => .abort

/-- `DefaultVerifierChannel::new` (the part after parsing), `FriVerifier::new`, `verify`.
The channel rejects a proof whose number of layers is not the number of commitments minus one
(one commitment per layer plus the remainder's); `FriVerifier::new` derives the domain size from
`(max_poly_degree + 1).next_power_of_two()`.  `gOf size` = `get_root_of_unity(ilog2(size))`
embedded into the evaluation field -/
def newAndVerify {F} (ops : FieldOps F) (o : FriOptions) (maxPolyDegree numPartitions : Nat)
    (gOf : Nat → F) (offset : F) (alphas : List F) (evaluations : List F) (positions : List Nat)
    (openings : List (LayerOpening F)) (remainder : List F) (remainderOk : Bool) : Res Unit :=
  if openings.length + 1 ≠ alphas.length then
    .err (.proofLayerCountMismatch (alphas.length - 1) openings.length)
  else
  match newCheck o.folding maxPolyDegree alphas.length with
  | some e => .err e
  | none =>
    verify ops
      { maxPolyDegree := maxPolyDegree, domainSize := nextPow2 (maxPolyDegree + 1) * o.blowup,
        g := gOf (nextPow2 (maxPolyDegree + 1) * o.blowup), offset := offset, options := o,
        numPartitions := numPartitions, alphas := alphas }
      evaluations positions openings remainder remainderOk

end Wf.Fri
