/-
`while` loops of the translated Rust subset (tools/rs2lean.py): a loop over a state tuple with an
explicit iteration bound.  `whileFuel n c f s` runs `s := f s` while `c s` holds, for at most `n`
iterations; if the bound is reached the current state is returned (the translation is exact for every
input whose loop terminates within the bound).
Core Lean only.
-/
namespace Wf

def whileFuel {σ : Type} (fuel : Nat) (c : σ → Bool) (f : σ → σ) (s : σ) : σ :=
  match fuel with
  | 0 => s
  | n + 1 => if c s then whileFuel n c f (f s) else s

end Wf
