/-
Model of the serial FFT of `math/src/fft/{mod,serial,fft_inputs}.rs`:
`permute_index`, `permute`, `get_twiddles`, `get_inv_twiddles`, `fft_in_place` (recursion with the
`MAX_LOOP` switch and both butterfly loops, exactly as written), `evaluate_poly(_with_offset)`,
`interpolate_poly(_with_offset)`, `infer_degree`, `polynom::degree_of`.

Element vectors are `Array E` (extension or base field), twiddles are `Array B` (base field); the
two fields and the operations connecting them (`mul_base`, `E::from`, `exp`, `get_root_of_unity`)
are the fields of `Ctx`.  A failed `assert!` of the public functions is `none`.  Indexing inside
`fftInPlace`/`permute` uses `getD`/`setIfInBounds`; the theorems of `Wf/Props/C12.lean` are about
sizes for which every index is in range (the asserts of the public functions enforce this).
Not modelled: `concurrent.rs` (split-radix path behind the `concurrent` feature), `real_u64.rs`.
Core Lean only.
-/
import Wf.Model.FieldOps
namespace Wf.Fft

/-- the two fields of an FFT call: `B` = `E::BaseField` (twiddles, offsets), `E` = coefficients -/
structure Ctx (B E : Type) where
  b : FieldOps B
  e : FieldOps E
  mulBase : E → B → E          -- `FieldElement::mul_base`
  embed : B → E                -- `E::from(b)`
  exp : B → Nat → B            -- `FieldElement::exp`
  root : Nat → B               -- `StarkField::get_root_of_unity(n)` for 1 ≤ n ≤ TWO_ADICITY
  twoAdicity : Nat

/-! ### bit reversal -/

/-- reversal of the low `bits` bits of `i` -/
def bitRev : Nat → Nat → Nat
  | 0, _ => 0
  | b + 1, i => (i % 2) * 2 ^ b + bitRev b (i / 2)

/-- `permute_index(size, index)` = `index.reverse_bits() >> (64 - size.trailing_zeros())` for a
power of two `size` and `index < size`: the `log2 size` low bits reversed. -/
def permuteIndex (size index : Nat) : Nat := bitRev size.log2 index

/-- `FftInputs::permute`: `for i in 0..n { j = permute_index(n, i); if j > i { swap(i, j) } }`
(`rem` = iterations left, `i` = loop variable) -/
def permuteLoop {α} (n : Nat) : Nat → Nat → Array α → Array α
  | 0, _, a => a
  | rem + 1, i, a =>
    permuteLoop n rem (i + 1)
      (if permuteIndex n i > i then a.swapIfInBounds i (permuteIndex n i) else a)

def permute {α} (a : Array α) : Array α := permuteLoop a.size a.size 0 a

/-! ### butterflies (`impl FftInputs<E> for [E]`) -/

variable {B E : Type}

/-- `butterfly(offset, stride)` -/
def butterfly (c : Ctx B E) (a : Array E) (i stride : Nat) : Array E :=
  let x := a.getD i c.e.zero
  let y := a.getD (i + stride) c.e.zero
  (a.setIfInBounds i (c.e.add x y)).setIfInBounds (i + stride) (c.e.sub x y)

/-- `butterfly_twiddle(twiddle, offset, stride)` -/
def butterflyTwiddle (c : Ctx B E) (a : Array E) (tw : B) (i stride : Nat) : Array E :=
  let x := a.getD i c.e.zero
  let y := c.mulBase (a.getD (i + stride) c.e.zero) tw
  (a.setIfInBounds i (c.e.add x y)).setIfInBounds (i + stride) (c.e.sub x y)

/-- `for offset in offset..(offset + count) { butterfly(values, offset, stride) }` -/
def bflyLoop (c : Ctx B E) (stride : Nat) : Nat → Nat → Array E → Array E
  | 0, _, a => a
  | n + 1, p, a => bflyLoop c stride n (p + 1) (butterfly c a p stride)

/-- `for j in offset..(offset + count) { butterfly_twiddle(values, twiddles[i], j, stride) }` -/
def bflyTwLoop (c : Ctx B E) (stride : Nat) (tw : B) : Nat → Nat → Array E → Array E
  | 0, _, a => a
  | n + 1, p, a => bflyTwLoop c stride tw n (p + 1) (butterflyTwiddle c a tw p stride)

/-- `for (i, offset) in (offset..last_offset).step_by(2 * stride).enumerate().skip(1)`:
`n` iterations left, `i` the enumeration index, `base` the current `offset` -/
def twiddleLoop (c : Ctx B E) (tws : Array B) (count stride : Nat) :
    Nat → Nat → Nat → Array E → Array E
  | 0, _, _, a => a
  | n + 1, i, base, a =>
    twiddleLoop c tws count stride n (i + 1) (base + 2 * stride)
      (bflyTwLoop c stride (tws.getD i c.b.zero) count base a)

def MAX_LOOP : Nat := 256

/-- `fft_in_place(values, twiddles, count, stride, offset)`; `fuel` bounds the recursion depth
(`log2 (values.len() / stride)` levels are needed). -/
def fftInPlace (c : Ctx B E) (tws : Array B) : Nat → Array E → Nat → Nat → Nat → Array E
  | 0, v, _, _, _ => v
  | fuel + 1, v, count, stride, offset =>
    let size := v.size / stride
    let v1 :=
      if size > 2 then
        if stride == count && count < MAX_LOOP then
          fftInPlace c tws fuel v (2 * count) (2 * stride) offset
        else
          fftInPlace c tws fuel (fftInPlace c tws fuel v count (2 * stride) offset)
            count (2 * stride) (offset + stride)
      else v
    let v2 := bflyLoop c stride count offset v1
    twiddleLoop c tws count stride ((size + 1) / 2 - 1) 1 (offset + 2 * stride) v2

/-! ### twiddles -/

def isPow2 (n : Nat) : Bool := n != 0 && 2 ^ n.log2 == n

/-- `[1, b, b², …]` (`n` elements); `get_power_series` itself is C14's subject -/
def powerSeries (ops : FieldOps B) (b : B) : Nat → B → List B
  | 0, _ => []
  | n + 1, cur => cur :: powerSeries ops b n (ops.mul cur b)

/-- `get_twiddles(domain_size)`: `get_root_of_unity(0)` panics, so `domain_size = 1` is `none` -/
def getTwiddles (c : Ctx B E) (domainSize : Nat) : Option (Array B) :=
  if !isPow2 domainSize then none
  else if domainSize.log2 > c.twoAdicity then none
  else if domainSize.log2 = 0 then none
  else some (permute (powerSeries c.b (c.root domainSize.log2) (domainSize / 2) c.b.one).toArray)

/-- `domain_size as u32 - 1` with release (wrapping) semantics -/
def invTwiddleExp (domainSize : Nat) : Nat := (domainSize % 2 ^ 32 + (2 ^ 32 - 1)) % 2 ^ 32

/-- `get_inv_twiddles(domain_size)` -/
def getInvTwiddles (c : Ctx B E) (domainSize : Nat) : Option (Array B) :=
  if !isPow2 domainSize then none
  else if domainSize.log2 > c.twoAdicity then none
  else if domainSize.log2 = 0 then none
  else
    some (permute (powerSeries c.b (c.exp (c.root domainSize.log2) (invTwiddleExp domainSize))
      (domainSize / 2) c.b.one).toArray)

/-! ### evaluation -/

/-- `fft::evaluate_poly` (serial path): asserts, `fft_in_place`, `permute` -/
def evaluatePoly (c : Ctx B E) (p : Array E) (tws : Array B) : Option (Array E) :=
  if !isPow2 p.size then none
  else if p.size != tws.size * 2 then none
  else if p.size.log2 > c.twoAdicity then none
  else some (permute (fftInPlace c tws p.size p 1 1 0))

/-- `for (d, c) in chunk.zip(p) { *d = c.mul_base(factor); factor *= offset }` -/
def scaleList (c : Ctx B E) (offset : B) : List E → B → List E
  | [], _ => []
  | x :: xs, factor => c.mulBase x factor :: scaleList c offset xs (c.b.mul factor offset)

/-- one chunk of `serial::evaluate_poly_with_offset` -/
def evalChunk (c : Ctx B E) (p : Array E) (tws : Array B) (g domainOffset : B)
    (blowup i : Nat) : Array E :=
  fftInPlace c tws p.size
    (scaleList c (c.b.mul (c.exp g (permuteIndex blowup i)) domainOffset) p.toList c.b.one).toArray
    1 1 0

def evalChunks (c : Ctx B E) (p : Array E) (tws : Array B) (g domainOffset : B) (blowup : Nat) :
    Nat → Nat → Array E → Array E
  | 0, _, acc => acc
  | n + 1, i, acc =>
    evalChunks c p tws g domainOffset blowup n (i + 1) (acc ++ evalChunk c p tws g domainOffset blowup i)

/-- `fft::evaluate_poly_with_offset` (serial path) -/
def evaluatePolyWithOffset (c : Ctx B E) (p : Array E) (tws : Array B) (domainOffset : B)
    (blowup : Nat) : Option (Array E) :=
  if !isPow2 p.size then none
  else if !isPow2 blowup then none
  else if p.size != tws.size * 2 then none
  else if (p.size * blowup).log2 > c.twoAdicity then none
  else if c.b.beq domainOffset c.b.zero then none
  else
    some (permute (evalChunks c p tws (c.root (p.size * blowup).log2) domainOffset blowup
      blowup 0 (Array.mkEmpty (p.size * blowup))))

/-! ### interpolation -/

/-- `shift_by(offset)` -/
def shiftBy (c : Ctx B E) (a : Array E) (offset : B) : Array E :=
  a.map (fun d => c.e.mul d (c.embed offset))

/-- `shift_by_series`: `for d { *d *= offset; offset *= increment }` (both already in `E`) -/
def shiftSeriesList (c : Ctx B E) (increment : E) : List E → E → List E
  | [], _ => []
  | x :: xs, offset => c.e.mul x offset :: shiftSeriesList c increment xs (c.e.mul offset increment)

def shiftBySeries (c : Ctx B E) (a : Array E) (offset increment : B) : Array E :=
  (shiftSeriesList c (c.embed increment) a.toList (c.embed offset)).toArray

/-- `fft::interpolate_poly` (serial path) -/
def interpolatePoly (c : Ctx B E) (evaluations : Array E) (invTws : Array B) : Option (Array E) :=
  if !isPow2 evaluations.size then none
  else if evaluations.size != invTws.size * 2 then none
  else if evaluations.size.log2 > c.twoAdicity then none
  else if evaluations.size > 2 ^ 32 - 1 then none
  else
    some (permute (shiftBy c (fftInPlace c invTws evaluations.size evaluations 1 1 0)
      (c.b.inv (c.b.ofNat evaluations.size))))

/-- `fft::interpolate_poly_with_offset` (serial path) -/
def interpolatePolyWithOffset (c : Ctx B E) (evaluations : Array E) (invTws : Array B)
    (domainOffset : B) : Option (Array E) :=
  if !isPow2 evaluations.size then none
  else if evaluations.size != invTws.size * 2 then none
  else if evaluations.size.log2 > c.twoAdicity then none
  else if c.b.beq domainOffset c.b.zero then none
  else if evaluations.size > 2 ^ 32 - 1 then none
  else
    some (shiftBySeries c (permute (fftInPlace c invTws evaluations.size evaluations 1 1 0))
      (c.b.inv (c.b.ofNat evaluations.size)) (c.b.inv domainOffset))

/-! ### degree inference -/

/-- `polynom::degree_of`: `for i in (0..len).rev() { if poly[i] != ZERO { return i } } 0`;
the list is the reversed polynomial, `n` the number of elements left -/
def degreeScan (ops : FieldOps E) : List E → Nat → Nat
  | x :: xs, n + 1 => if ops.beq x ops.zero then degreeScan ops xs n else n
  | _, _ => 0

def degreeOf (ops : FieldOps E) (p : List E) : Nat := degreeScan ops p.reverse p.length

/-- `fft::infer_degree` -/
def inferDegree (c : Ctx B E) (evaluations : Array E) (domainOffset : B) : Option Nat :=
  if !isPow2 evaluations.size then none
  else if evaluations.size.log2 > c.twoAdicity then none
  else if c.b.beq domainOffset c.b.zero then none
  else
    match getInvTwiddles c evaluations.size with
    | none => none
    | some invTws =>
      match interpolatePolyWithOffset c evaluations invTws domainOffset with
      | none => none
      | some poly => some (degreeOf c.e poly.toList)

end Wf.Fft
