/-
Model of `air/src/air/assertions/mod.rs` (`Assertion`: constructors, `overlaps_with`,
`validate_trace_width`, `validate_trace_length`, `apply`, `get_num_steps`, `Ord`) and of
`prepare_assertions` in `air/src/air/boundary/mod.rs`.

Core Lean only (no Mathlib): this file is linked into the native driver `wfdriver`.

Conventions
* field elements are their canonical values (`Nat`); nothing here computes with them;
* a Rust panic (`assert!`, `unwrap_or_else(panic!)`, index out of bounds) is an explicit outcome:
  constructors return `Except CtorErr _` (one kind per `assert!`), `apply` / `get_num_steps` return
  `none`, `prepare_assertions` returns `Except PrepErr _`;
* `usize` overflow is not modelled (all quantities are far below 2^64 in every use).
* `overlapsWith` mirrors the Rust branches one by one; its meaning (common cell) is a THEOREM of
  `Wf/Props/C21.lean`, not a definition here.
-/
namespace Wf

/-- `usize::is_power_of_two` -/
def isPow2 (n : Nat) : Bool := 2 ^ n.log2 == n

/-- `usize::next_power_of_two` (smallest power of two `≥ n`; doubling with fuel `n`) -/
def nextPow2Go (n : Nat) : Nat → Nat → Nat
  | 0, p => p
  | fuel + 1, p => if p < n then nextPow2Go n fuel (p * 2) else p
def nextPow2 (n : Nat) : Nat := nextPow2Go n n 1

/-- `AssertionError` -/
inductive AssertionError where
  | traceWidthTooShort (expected actual : Nat)
  | traceLengthNotPowerOfTwo (actual : Nat)
  | traceLengthTooShort (expected actual : Nat)
  | traceLengthNotExact (expected actual : Nat)
  deriving DecidableEq, Repr

/-- the five `assert!`s of the constructors, in source order -/
inductive CtorErr where
  | strideNotPowerOfTwo   -- "stride must be a power of two"
  | strideTooSmall        -- "stride must be at least 2"
  | firstStepTooBig       -- "first step must be smaller than stride"
  | noValues              -- "number of asserted values must be greater than zero"
  | valuesNotPowerOfTwo   -- "number of asserted values must be a power of two"
  deriving DecidableEq, Repr

structure Assertion where
  column : Nat
  firstStep : Nat
  stride : Nat
  values : List Nat
  deriving DecidableEq, Repr

namespace Assertion

def MIN_STRIDE_LENGTH : Nat := 2
def NO_STRIDE : Nat := 0

/-- `validate_stride` -/
def validateStride (stride firstStep : Nat) : Except CtorErr Unit :=
  if !isPow2 stride then .error .strideNotPowerOfTwo
  else if !(stride ≥ MIN_STRIDE_LENGTH) then .error .strideTooSmall
  else if !(firstStep < stride) then .error .firstStepTooBig
  else .ok ()

/-- `Assertion::single` -/
def single (column step value : Nat) : Assertion :=
  { column := column, firstStep := step, stride := NO_STRIDE, values := [value] }

/-- `Assertion::periodic` -/
def periodic (column firstStep stride value : Nat) : Except CtorErr Assertion :=
  match validateStride stride firstStep with
  | .error e => .error e
  | .ok () => .ok { column := column, firstStep := firstStep, stride := stride, values := [value] }

/-- `Assertion::sequence` -/
def sequence (column firstStep stride : Nat) (values : List Nat) : Except CtorErr Assertion :=
  match validateStride stride firstStep with
  | .error e => .error e
  | .ok () =>
    if values.isEmpty then .error .noValues
    else if !isPow2 values.length then .error .valuesNotPowerOfTwo
    else .ok { column := column, firstStep := firstStep,
               stride := if values.length == 1 then NO_STRIDE else stride, values := values }

def isSingle (a : Assertion) : Bool := a.stride == NO_STRIDE
def isPeriodic (a : Assertion) : Bool := a.stride != NO_STRIDE && a.values.length == 1
def isSequence (a : Assertion) : Bool := decide (a.values.length > 1)

/-- `usize::is_multiple_of` (`rhs = 0` ⇒ `self = 0`; `x % 0 = x` in Lean gives the same) -/
def isMultipleOf (x m : Nat) : Bool := x % m == 0

/-- `Assertion::overlaps_with`, branch by branch -/
def overlapsWith (a b : Assertion) : Bool :=
  if a.column != b.column then false
  else if a.firstStep == b.firstStep then true
  else if a.stride == b.stride then false
  else if a.firstStep < b.firstStep then
    if a.isSingle then false
    else if b.isSingle || decide (a.stride < b.stride) then
      isMultipleOf (b.firstStep - a.firstStep) a.stride
    else false
  else
    if b.isSingle then false
    else if a.isSingle || decide (b.stride < a.stride) then
      isMultipleOf (a.firstStep - b.firstStep) b.stride
    else false

/-- `validate_trace_width` -/
def validateTraceWidth (a : Assertion) (traceWidth : Nat) : Except AssertionError Unit :=
  if a.column ≥ traceWidth then .error (.traceWidthTooShort a.column traceWidth) else .ok ()

/-- `validate_trace_length` -/
def validateTraceLength (a : Assertion) (traceLength : Nat) : Except AssertionError Unit :=
  if !isPow2 traceLength then .error (.traceLengthNotPowerOfTwo traceLength)
  else if a.isSingle then
    if a.firstStep ≥ traceLength then
      .error (.traceLengthTooShort (nextPow2 (a.firstStep + 1)) traceLength)
    else .ok ()
  else if a.isPeriodic then
    if a.stride > traceLength then .error (.traceLengthTooShort a.stride traceLength) else .ok ()
  else
    if a.values.length * a.stride != traceLength then
      .error (.traceLengthNotExact (a.values.length * a.stride) traceLength)
    else .ok ()

/-- the three branches of `get_num_steps` after its validation -/
def numSteps (a : Assertion) (traceLength : Nat) : Nat :=
  if a.isSingle then 1
  else if a.isPeriodic then traceLength / a.stride
  else a.values.length

/-- `get_num_steps` (`none` = panic "invalid trace length") -/
def getNumSteps (a : Assertion) (traceLength : Nat) : Option Nat :=
  match a.validateTraceLength traceLength with
  | .error _ => none
  | .ok () => some (a.numSteps traceLength)

/-- `apply`: the list of `(step, value)` calls of the closure, in call order (`none` = panic) -/
def apply (a : Assertion) (traceLength : Nat) : Option (List (Nat × Nat)) :=
  match a.validateTraceLength traceLength with
  | .error _ => none
  | .ok () =>
    if a.isSingle then
      match a.values[0]? with
      | some v => some [(a.firstStep, v)]
      | none => none
    else if a.isPeriodic then
      match a.values[0]? with
      | some v => some ((List.range (traceLength / a.stride)).map fun i => (a.firstStep + a.stride * i, v))
      | none => none
    else
      some (a.values.zipIdx.map fun (v, i) => (a.firstStep + a.stride * i, v))

/-- The DOCUMENTED step set for a trace of length `n`: the arithmetic progression
`first_step + stride·i`, `i < number of steps` (one step for single assertions, `n / stride` for
periodic ones, one per value for sequences). -/
def steps (a : Assertion) (n : Nat) : List Nat :=
  (List.range (a.numSteps n)).map fun i => a.firstStep + a.stride * i

/-- `Ord for Assertion`: by stride, then first step, then column (values ignored) -/
def cmp (a b : Assertion) : Ordering :=
  if a.stride == b.stride then
    if a.firstStep == b.firstStep then compare a.column b.column
    else compare a.firstStep b.firstStep
  else compare a.stride b.stride

/-- `BTreeSet::insert` on the sorted content list (an element comparing `Equal` is kept) -/
def insertSorted (x : Assertion) : List Assertion → List Assertion
  | [] => [x]
  | y :: ys =>
    match cmp x y with
    | .lt => x :: y :: ys
    | .eq => y :: ys
    | .gt => y :: insertSorted x ys

inductive PrepErr where
  | invalid (e : AssertionError)   -- "assertion .. is invalid: .."
  | overlap                        -- "assertion .. overlaps with assertion .."
  deriving DecidableEq, Repr

/-- the loop of `prepare_assertions`; `acc` is the content of the `BTreeSet` in order -/
def prepareLoop (traceWidth traceLength : Nat) : List Assertion → List Assertion → Except PrepErr (List Assertion)
  | [], acc => .ok acc
  | x :: rest, acc =>
    match x.validateTraceWidth traceWidth with
    | .error e => .error (.invalid e)
    | .ok () =>
      match x.validateTraceLength traceLength with
      | .error e => .error (.invalid e)
      | .ok () =>
        if (acc.filter fun a => a.column == x.column).any fun a => a.overlapsWith x then .error .overlap
        else prepareLoop traceWidth traceLength rest (insertSorted x acc)

/-- `prepare_assertions` -/
def prepareAssertions (assertions : List Assertion) (traceWidth traceLength : Nat) :
    Except PrepErr (List Assertion) :=
  prepareLoop traceWidth traceLength assertions []

/-! ## Specification predicates used by the theorems of `Wf/Props/C21.lean` (not executed) -/

/-- `n` is a power of two -/
def Pow2 (n : Nat) : Prop := ∃ k, n = 2 ^ k

/-- What the constructors guarantee (`single` / `periodic` / `sequence` return only such values):
the number of values is a power of two; stride 0 (single) carries exactly one value; a non-zero
stride is a power of two, at least 2, and larger than the first step. -/
def WellFormed (a : Assertion) : Prop :=
  Pow2 a.values.length ∧ (a.stride = 0 → a.values.length = 1) ∧
  (a.stride ≠ 0 → Pow2 a.stride ∧ 2 ≤ a.stride ∧ a.firstStep < a.stride)

/-- The documented condition for placing `a` against a trace of length `n`: `n` is a power of two
and: single → the step exists; periodic → at least one period; sequence → `#values·stride = n`. -/
def Fits (a : Assertion) (n : Nat) : Prop :=
  Pow2 n ∧ (a.stride = 0 → a.firstStep < n) ∧
  (a.stride ≠ 0 → a.values.length = 1 → a.stride ≤ n) ∧
  (a.stride ≠ 0 → a.values.length ≠ 1 → a.values.length * a.stride = n)

/-- `a` is a constructible assertion that is valid for trace length `n` -/
def Valid (a : Assertion) (n : Nat) : Prop := WellFormed a ∧ Fits a n

end Assertion
end Wf
