/-
Executable model of the WHOLE verifier: `winter_verifier::verify` (`verifier/src/lib.rs`:
`verify`, `perform_verification`, `AcceptableOptions::validate`), `VerifierChannel::new` and its
readers incl. `hash_row` (`verifier/src/channel.rs`), `evaluate_constraints`
(`verifier/src/evaluator.rs`), `DeepComposer` (`verifier/src/composer.rs`), instantiated with

* the AIR-as-data interpreter of the harness (`harness/src/genair.rs`: `GenAir`, `PubIn`), whose
  description semantics is `Wf/Model/AirDesc.lean`,
* `DefaultRandomCoin` (`Wf/Model/RandomCoin.lean`), `MerkleTree` as vector commitment
  (`Wf/Model/Merkle.lean`), the FRI verifier (`Wf/Model/Fri.lean`), the proof codecs
  (`Wf/Model/ProofObjects.lean`), divisors / boundary constraints (`Wf/Model/AirDivisor.lean`,
  `Boundary.lean`, `Assertions.lean`), `AcceptableOptions` (`Wf/Model/Security.lean`),
* an arbitrary hash function with 32-byte digests (`HashParams`; digests are the `Nat` whose 32
  little-endian bytes are the digest), an arbitrary base field (`FieldParams`) and an arbitrary
  evaluation field `EF F` over it (driver: f64, extension degree 1).

The steps, their order and their error variants follow the Rust code statement by statement;
`VErr.abort site` stands for a Rust panic at that site.  NOT modelled: auxiliary trace segments
(a description with an auxiliary segment is `unmodelled`), `usize` overflow (every quantity is far
below 2^64 for decodable proofs), the proven-security estimate (floating point; `Security.lean`).
Core Lean only (linked into `wfdriver`).
-/
import Wf.Model.ProofObjects
import Wf.Model.Fri
import Wf.Model.Merkle
import Wf.Model.RandomCoin
import Wf.Model.AirDesc
import Wf.Model.Boundary
import Wf.Model.Security
import Wf.Model.Fields
namespace Wf.Verifier
open Wf Wf.AirDesc Wf.AirDivisor

/-! ## parameters -/

/-- `H: ElementHasher` with a 32-byte digest -/
structure HashParams where
  /-- `hash_elements` on the canonical values of the base-field coefficients -/
  hashElements : List Nat → Nat
  /-- `merge(&[a, b])` -/
  merge : Nat → Nat → Nat
  /-- `merge_many` -/
  mergeMany : List Nat → Nat
  /-- `merge_with_int(seed, value)` -/
  mergeWithInt : Nat → Nat → Nat
  /-- `COLLISION_RESISTANCE` -/
  collisionResistance : Nat

def HashParams.coin (H : HashParams) : CoinHasher Nat :=
  { hashElements := H.hashElements, merge := H.merge, mergeWithInt := H.mergeWithInt,
    asBytes := fun d => leBytes 32 d }

/-- the evaluation field `E` (an extension of degree `deg` of the base field): arithmetic, the
embedding of base elements given by canonical value, and the coefficient view -/
structure EF (F : Type) where
  ops : FieldOps F
  deg : Nat
  ofBase : Nat → F
  ofCanon : List Nat → F
  toCanon : F → List Nat

/-- integers modulo `p`; `inv` is Fermat exponentiation (`0 ↦ 0`, as the library's `inv`) -/
def primeOpsNoInv (p : Nat) : FieldOps Nat where
  zero := 0
  one := 1 % p
  add := fun a b => (a + b) % p
  sub := fun a b => (a + (p - b % p)) % p
  mul := fun a b => a * b % p
  neg := fun a => (p - a % p) % p
  double := fun a => (a + a) % p
  square := fun a => a * a % p
  inv := fun a => a
  ofNat := fun n => n % p
  beq := fun a b => a % p == b % p

def primeOps (p : Nat) : FieldOps Nat :=
  { primeOpsNoInv p with inv := fun a => Fri.pow (primeOpsNoInv p) (a % p) (p - 2) }

/-- extension degree 1: `E = B` -/
def efBase (fp : FieldParams) : EF Nat :=
  { ops := primeOps fp.m, deg := 1, ofBase := fun v => v % fp.m, ofCanon := fun l => l.headD 0 % fp.m,
    toCanon := fun x => [x] }

/-- the evaluation fields a base field offers (`FieldExtension::None / Quadratic / Cubic`; `none` =
`is_supported()` is false) -/
structure FieldSet where
  fp : FieldParams
  F2 : Type
  F3 : Type
  e1 : EF Nat
  e2 : Option (EF F2)
  e3 : Option (EF F3)

/-- f64 and its quadratic / cubic extensions (`x² = x − 2`, `x³ = x + 1`: the regenerated formulas
of `Wf/Gen/F64.lean` over canonical values) -/
def f64Fields : FieldSet :=
  let b := primeOps paramsF64.m
  let p := paramsF64.m
  { fp := paramsF64, F2 := Nat × Nat, F3 := Nat × Nat × Nat, e1 := efBase paramsF64,
    e2 := some
      { ops := quadOps b (Gen.F64.ext2Mul b) (Gen.F64.ext2Square b) (Gen.F64.ext2Frobenius b), deg := 2,
        ofBase := fun v => (v % p, 0), ofCanon := fun l => (l.getD 0 0 % p, l.getD 1 0 % p),
        toCanon := fun x => [x.1, x.2] },
    e3 := some
      { ops := cubeOps b (Gen.F64.ext3Mul b) (Gen.F64.ext3Square b) (Gen.F64.ext3Frobenius b), deg := 3,
        ofBase := fun v => (v % p, 0, 0),
        ofCanon := fun l => (l.getD 0 0 % p, l.getD 1 0 % p, l.getD 2 0 % p),
        toCanon := fun x => [x.1, x.2.1, x.2.2] } }

/-- `AIR::PublicInputs` of `GenAir`: the claimed values of the main assertions -/
abbrev PubInputs := List (List Nat)

/-! ## outcomes -/

/-- where a `ProofDeserializationError` comes from (the harness classifies the message text the
same way) -/
inductive DeserSite where
  | lde | queries | nq0 | commitments | mainQueries | auxQueries | constraintQueries | friRemainder
  | friRemainderUnconsumed | friLayer | friLayerDomain | friCount | ood
  deriving DecidableEq, Repr

/-- sites of Rust panics -/
inductive AbortSite where
  /-- `Context::to_elements`: `from_bytes_with_padding` asserts `bytes.len() < ELEMENT_BYTES`
  (math/src/field/traits.rs) on the halves of the proof's modulus bytes / metadata chunks; unreachable
  since fix ceafb22 (the base field check comes first) for sane field parameters -/
  | seed
  /-- `Air::new` → `AirContext::new[_multi_segment]`, `set_num_transition_exemptions`
  (air/src/air/context.rs) -/
  | airNew
  /-- `get_periodic_column_polys` (air/src/air/mod.rs): cycle length above the trace length -/
  | periodic
  /-- `BoundaryConstraints::new` / `prepare_assertions` (air/src/air/boundary/mod.rs) -/
  | boundary
  /-- `draw_integers`: `assert!(num_values < domain_size)` (crypto/src/random/default.rs); unreachable
  since fix ceafb22 (`verify` rejects `num_queries >= lde_domain_size`) -/
  | drawIntegers
  /-- `AcceptableOptions::validate`: the security estimate panics -/
  | security
  /-- panics shown unreachable by `Wf.Props.C05V` (index out of bounds in the FRI verifier, Merkle
  batch verification, root of unity of an unsupported order, `Table::from_bytes` limits) -/
  | fri | merkle | root | table | transition
  deriving DecidableEq, Repr

/-- `VerifierError` by variant (arguments kept where the variant has numeric ones), plus
`fromBytes` (`Proof::from_bytes` failed: no `VerifierError` yet), `abort` and `unmodelled` -/
inductive VErr where
  | fromBytes
  | inconsistentBaseField
  | unsupportedFieldExtension (degree : Nat)
  | deser (site : DeserSite)
  | randomCoin
  | inconsistentOod
  | traceQuery
  | constraintQuery
  | pow
  | fri (e : Fri.VerifierError)
  /-- `FriVerificationFailed(RandomCoinError)` -/
  | friCoin
  | insufficientConjectured (minimal got : Nat)
  | insufficientProven (minimal got : Nat)
  | unacceptableOptions
  | abort (site : AbortSite)
  | unmodelled
  deriving DecidableEq, Repr

abbrev R (α : Type) := Except VErr α

def ofOpt {α} (e : VErr) : Option α → R α
  | some a => .ok a
  | none => .error e

/-! ## small helpers -/

/-- `x.exp(n)` / `x.exp_vartime(n)` -/
def fexp {F} (ops : FieldOps F) (x : F) (n : Nat) : F := Fri.pow ops x n

/-- `get_power_series(b, n)` -/
def powerSeries {F} (ops : FieldOps F) (b : F) : Nat → F → List F
  | 0, _ => []
  | n + 1, cur => cur :: powerSeries ops b n (ops.mul cur b)

/-- `chunks(n)` of a list -/
def chunksOf {α} (n : Nat) : Nat → List α → List (List α)
  | 0, _ => []
  | fuel + 1, xs => if n = 0 ∨ xs.isEmpty then [] else xs.take n :: chunksOf n fuel (xs.drop n)

/-- rows of `width` elements (`Table::rows`, `group_slice_elements`) -/
def rowsOf {α} (width : Nat) (xs : List α) : List (List α) :=
  if width = 0 then [] else (List.range (xs.length / width)).map fun i => (xs.drop (i * width)).take width

/-- `sort_unstable(); dedup()` -/
def sortDedup (xs : List Nat) : List Nat := xs.foldl (fun s x => Merkle.sinsert x s) []

/-! ## public-coin seed -/

/-- `TraceInfo::to_elements` / `Context::to_elements` with the panics of `from_bytes_with_padding`:
`none` = a metadata chunk or a half of the modulus bytes has `ELEMENT_BYTES` bytes or more (or
pads to a value that is not a field element) -/
def contextElements (fp : FieldParams) (c : Context) : Option (List Nat) :=
  let buf := if c.info.aux > 0 then ((c.info.main * 256 + 1) * 256 + c.info.aux) * 256 + c.info.rands
             else c.info.main * 256 + 0
  match (TraceInfo.chunks (fp.bytes - 1) c.info.metaBytes).mapM fp.fromBytesWithPadding,
        fp.fromBytesWithPadding (c.modulus.take (c.modulus.length / 2)),
        fp.fromBytesWithPadding (c.modulus.drop (c.modulus.length / 2)) with
  | some metaEls, some m1, some m2 =>
    some ([buf % 2 ^ 32 % fp.m, c.info.length % 2 ^ 32 % fp.m] ++ metaEls ++
      [m1, m2, c.numConstraints % 2 ^ 32 % fp.m] ++ c.options.toElements.map (· % fp.m))
  | _, _, _ => none

/-- `PubIn::to_elements` (harness/src/genair.rs) -/
def pubElements (fp : FieldParams) (d : Desc) (pub : PubInputs) : List Nat :=
  [d.width % fp.m, d.trans.length % fp.m, d.exemptions % fp.m] ++ (pub.flatten.map (· % fp.m))

/-! ## `GenAir::new` -/

/-- `degree_of` (harness): `TransitionConstraintDegree::new` / `with_cycles` -/
def tcDegreeOf (t : Trans) : Option TcDegree :=
  if t.cycles.isEmpty then TcDegree.new t.degree else TcDegree.withCycles t.degree t.cycles

/-- `GenAir::new(trace_info, pub_inputs, options)`: the degree bookkeeping of the `AirContext`, or
`none` when one of the constructor's assertions fails -/
def airNew (d : Desc) (info : TraceInfo) (o : ProofOptions) : Option Ctx :=
  match d.trans.mapM tcDegreeOf, d.auxTrans.mapM tcDegreeOf with
  | some mainDeg, some auxDeg =>
    -- `AirContext::new` asserts `!trace_info.is_multi_segment()`
    if d.auxWidth = 0 ∧ info.aux > 0 then none
    else if mainDeg.isEmpty then none
    else if d.asserts.isEmpty then none
    else if info.aux > 0 ∧ (auxDeg.isEmpty ∨ d.auxAsserts.isEmpty) then none
    else if info.aux = 0 ∧ (!auxDeg.isEmpty ∨ !d.auxAsserts.isEmpty) then none
    else
      match Ctx.new info.length (mainDeg ++ auxDeg) o.blowup with
      | none => none
      | some c =>
        if d.exemptions ≠ 1 then
          match c.setNumTransitionExemptions d.exemptions with
          | .ok c' => some c'
          | .error _ => none
        else some c
  | _, _ => none

/-! ## parsing (`VerifierChannel::new`) -/

def digestDec : Dec Nat := readLe 32

/-- `Commitments::parse` -/
def parseCommitments (bs : Bytes) (numSegments numFriLayers : Nat) : Option (List Nat × Nat × List Nat) :=
  match readManyLoop digestDec numSegments [] bs with
  | .ok tc r1 =>
    match digestDec r1 with
    | .ok cc r2 =>
      match readManyLoop digestDec (numFriLayers + 1) [] r2 with
      | .ok fc r3 => if r3.isEmpty then some (tc, cc, fc) else none
      | _ => none
    | _ => none
  | _ => none

/-- one element of `E`: `deg` base elements -/
def readE {F} (fp : FieldParams) (ef : EF F) : Dec F := fun bs =>
  match fp.readExt ef.deg [] bs with
  | .ok cs r => .ok (ef.ofCanon cs) r
  | .err e => .err e
  | .abort => .abort

/-- `get_multiproof_domain_len`: `1usize.checked_shl(depth).unwrap_or(0)` -/
def multiproofDomainLen (p : Merkle.BatchProof Nat) : Nat := if p.depth < 64 then 2 ^ p.depth else 0

/-- `BatchMerkleProof::read_from` on a byte vector that must be consumed completely -/
def parseBatchProof (bs : Bytes) : Option (Merkle.BatchProof Nat) :=
  match Merkle.BatchProof.decode bs with
  | .ok p r => if r.isEmpty then some p else none
  | _ => none

/-- `Queries::parse::<E, H, V>(domain_size, num_queries, values_per_query)` for elements of
`elemBytes` bytes read by `rd`; the flat list of `num_queries * values_per_query` values -/
def parseQueries {α} (rd : Dec α) (elemBytes : Nat) (q : Bytes × Bytes) (domain nq width : Nat) :
    Option (Merkle.BatchProof Nat × List α) :=
  if q.1.length ≠ nq * (elemBytes * width) then none
  else
    match readManyLoop rd (nq * width) [] q.1 with
    | .ok vals _ =>
      match Merkle.BatchProof.decode q.2 with
      | .ok p r =>
        if multiproofDomainLen p ≠ domain then none
        else if !r.isEmpty then none
        else some (p, vals)
      | _ => none
    | _ => none

/-- `FriProof::parse_remainder` -/
def parseRemainder {F} (fp : FieldParams) (ef : EF F) (bs : Bytes) : Except DeserSite (List F) :=
  if !isPow2 (bs.length / (fp.bytes * ef.deg)) then .error .friRemainder
  else
    match readManyLoop (readE fp ef) (bs.length / (fp.bytes * ef.deg)) [] bs with
    | .ok vs r => if r.isEmpty then .ok vs else .error .friRemainderUnconsumed
    | _ => .error .friRemainder

/-- `FriProofLayer::parse` -/
def parseLayer {F} (fp : FieldParams) (ef : EF F) (folding : Nat) (l : Bytes × Bytes) :
    Option (List F × Merkle.BatchProof Nat) :=
  if l.1.length % (fp.bytes * ef.deg * folding) ≠ 0 then none
  else if l.1.length / (fp.bytes * ef.deg * folding) = 0 then none
  else
    match readManyLoop (readE fp ef) (l.1.length / (fp.bytes * ef.deg * folding) * folding) [] l.1 with
    | .ok vs r =>
      if !r.isEmpty then none
      else match parseBatchProof l.2 with
        | some p => some (vs, p)
        | none => none
    | _ => none

/-- `FriProof::parse_layers(domain_size, folding_factor)` -/
def parseLayers {F} (fp : FieldParams) (ef : EF F) (folding : Nat) :
    Nat → List (Bytes × Bytes) → Except DeserSite (List (List F × Merkle.BatchProof Nat))
  | _, [] => .ok []
  | domain, l :: ls =>
    match parseLayer fp ef folding l with
    | none => .error .friLayer
    | some (vs, p) =>
      if multiproofDomainLen p ≠ domain / folding then .error .friLayerDomain
      else match parseLayers fp ef folding (domain / folding) ls with
        | .ok rest => .ok ((vs, p) :: rest)
        | .error e => .error e

/-- one half of `OodFrame::parse`: frame size byte 2, then `2 * width` elements, nothing left -/
def parseOodPart {F} (fp : FieldParams) (ef : EF F) (bs : Bytes) (width : Nat) : Option (List F × List F) :=
  match readU8 bs with
  | .ok fs r =>
    if fs ≠ 2 then none
    else match readManyLoop (readE fp ef) (width * 2) [] r with
      | .ok vs r2 => if r2.isEmpty then some (vs.take width, vs.drop width) else none
      | _ => none
  | _ => none

/-- the parsed proof as `VerifierChannel` holds it -/
structure Channel (F : Type) where
  traceCommitments : List Nat
  constraintCommitment : Nat
  friCommitments : List Nat
  mainProof : Merkle.BatchProof Nat
  mainStates : List (List Nat)          -- rows of base-field elements
  constraintProof : Merkle.BatchProof Nat
  constraintEvals : List (List F)
  friRemainder : List F
  friLayers : List (List F × Merkle.BatchProof Nat)
  friNumPartitions : Nat
  oodTraceCur : List F
  oodTraceNext : List F
  oodQuotCur : List F
  oodQuotNext : List F
  partMain : Nat
  partConstraint : Nat
  nonce : Nat

/-- `PartitionOptions::partition_size::<E>(num_columns)` -/
def partitionSize (o : ProofOptions) (extDeg numColumns : Nat) : Nat :=
  if o.nparts = 1 then numColumns
  else max (divCeil numColumns o.nparts) (o.hashRate / extDeg)

def friOptions (o : ProofOptions) : Fri.FriOptions := { blowup := o.blowup, folding := o.folding, rmd := o.remDeg }

/-- `VerifierChannel::new(air, proof)` for a single-segment trace -/
def channelNew {F} (fp : FieldParams) (ef : EF F) (ctx : Ctx) (p : ProofM) : R (Channel F) :=
  let info := p.context.info
  let o := p.context.options
  let lde := info.length * o.blowup
  let ccols := ctx.numConstraintCompositionColumns
  let nfl := (friOptions o).numFriLayers lde
  if p.context.modulus ≠ leBytes fp.bytes fp.m then .error .inconsistentBaseField
  else if p.numUniqueQueries = 0 then .error (.deser .nq0)
  else
  match parseCommitments p.commitments (numSegments p.context) nfl with
  | none => .error (.deser .commitments)
  | some (tc, cc, fc) =>
  match p.traceQueries with
  | [] => .error (.abort .table)          -- `assert_eq!(queries.len(), num_segments)`
  | tq :: _ =>
  if p.numUniqueQueries > 255 ∨ info.main > 255 ∨ ccols > 255 then .error (.abort .table) else
  match parseQueries fp.read fp.bytes tq lde p.numUniqueQueries info.main with
  | none => .error (.deser .mainQueries)
  | some (mp, mvals) =>
  match parseQueries (readE fp ef) (fp.bytes * ef.deg) p.constraintQueries lde p.numUniqueQueries ccols with
  | none => .error (.deser .constraintQueries)
  | some (cp, cvals) =>
  match parseRemainder fp ef p.fri.remainder with
  | .error s => .error (.deser s)
  | .ok rem =>
  match parseLayers fp ef o.folding lde p.fri.layers with
  | .error s => .error (.deser s)
  | .ok layers =>
  if layers.length ≠ nfl then .error (.deser .friCount)
  else
  match parseOodPart fp ef p.oodFrame.1 (info.main + info.aux), parseOodPart fp ef p.oodFrame.2 ccols with
  | some (tcur, tnext), some (qcur, qnext) =>
    .ok { traceCommitments := tc, constraintCommitment := cc, friCommitments := fc,
          mainProof := mp, mainStates := rowsOf info.main mvals,
          constraintProof := cp, constraintEvals := rowsOf ccols cvals,
          friRemainder := rem, friLayers := layers, friNumPartitions := 2 ^ p.fri.numPartitions,
          oodTraceCur := tcur, oodTraceNext := tnext, oodQuotCur := qcur, oodQuotNext := qnext,
          partMain := partitionSize o 1 info.main,
          partConstraint := partitionSize o ef.deg ccols,
          nonce := p.nonce }
  | _, _ => .error (.deser .ood)

/-! ## hashing of rows -/

/-- `hash_row::<H, E>(row, partition_size)` on rows given by their base-field coefficients
(`coeffs` = canonical coefficients of one element) -/
def hashRow {α} (H : HashParams) (coeffs : α → List Nat) (row : List α) (partitionSize : Nat) : Nat :=
  if partitionSize = row.length then H.hashElements (row.flatMap coeffs)
  else H.mergeMany ((chunksOf partitionSize row.length row).map fun ch => H.hashElements (ch.flatMap coeffs))

/-! ## public coin -/

abbrev CoinS := Coin Nat

/-- `public_coin.draw::<E>()` -/
def drawE {F} (H : HashParams) (fp : FieldParams) (ef : EF F) (c : CoinS) : Option (F × CoinS) :=
  match (Coin.draw H.coin fp ef.deg c).2 with
  | some cs => some (ef.ofCanon cs, (Coin.draw H.coin fp ef.deg c).1)
  | none => none

/-- `(0..n).map(|_| public_coin.draw()).collect()` -/
def drawMany {F} (H : HashParams) (fp : FieldParams) (ef : EF F) : Nat → CoinS → Option (List F × CoinS)
  | 0, c => some ([], c)
  | n + 1, c =>
    match drawE H fp ef c with
    | none => none
    | some (x, c1) =>
      match drawMany H fp ef n c1 with
      | none => none
      | some (xs, c2) => some (x :: xs, c2)

/-- `draw_linear_coefficients` / `draw_algebraic_coefficients` / Horner (reversed), by the
`BatchingMethod` byte -/
def drawCoefficients {F} (H : HashParams) (fp : FieldParams) (ef : EF F) (method n : Nat) (c : CoinS) :
    Option (List F × CoinS) :=
  if method = 0 then drawMany H fp ef n c
  else
    match drawE H fp ef c with
    | none => none
    | some (alpha, c1) =>
      if method = 1 then some (powerSeries ef.ops alpha n ef.ops.one, c1)
      else some ((powerSeries ef.ops alpha n ef.ops.one).reverse, c1)

/-! ## `evaluate_constraints` -/

/-- `genair::eval` over `E` for main-segment expressions (total: missing cells read zero) -/
def evalEx {F} (ef : EF F) (p : Nat) (cur next per : List F) : Ex → F
  | .cur i => cur.getD i ef.ops.zero
  | .next i => next.getD i ef.ops.zero
  | .per i => per.getD i ef.ops.zero
  | .k v => ef.ofBase (v % p)
  | .acur _ => ef.ops.zero
  | .anext _ => ef.ops.zero
  | .rnd _ => ef.ops.zero
  | .add a b => ef.ops.add (evalEx ef p cur next per a) (evalEx ef p cur next per b)
  | .sub a b => ef.ops.sub (evalEx ef p cur next per a) (evalEx ef p cur next per b)
  | .mul a b => ef.ops.mul (evalEx ef p cur next per a) (evalEx ef p cur next per b)

/-- `fft::interpolate_poly` of base-field values embedded into `E` (inverse DFT over the subgroup of
order `values.len()`); the order always has a root of unity where this is called -/
def interpE {F} (fp : FieldParams) (ef : EF F) (vs : List F) : List F :=
  match fp.rootOfUnity vs.length.log2 with
  | some w => idft ef.ops (fexp ef.ops) (ef.ofBase w) vs
  | none => vs

/-- `get_periodic_column_polys` (`none` = one of its three assertions fails) -/
def periodicPolys {F} (fp : FieldParams) (ef : EF F) (d : Desc) (traceLength : Nat) : Option (List (List F)) :=
  d.periodic.mapM fun col => periodicPoly (interpE fp ef) (col.map fun v => ef.ofBase (v % fp.m)) traceLength

/-- `mk_assert` (harness): `Assertion::single / periodic / sequence` -/
def mkAssertion (p : Nat) (a : Assert) (vals : List Nat) : Option Assertion :=
  if a.kind = 0 then vals.head?.map fun v => Assertion.single a.col a.first (v % p)
  else if a.kind = 1 then
    match vals.head? with
    | none => none
    | some v => match Assertion.periodic a.col a.first a.stride (v % p) with
      | .ok x => some x
      | .error _ => none
  else match Assertion.sequence a.col a.first a.stride (vals.map (· % p)) with
    | .ok x => some x
    | .error _ => none

/-- `GenAir::get_assertions` -/
def getAssertions (p : Nat) (d : Desc) (pub : PubInputs) : Option (List Assertion) :=
  (d.asserts.zip pub).mapM fun av => mkAssertion p av.1 av.2

/-- the boundary constraint groups of the main segment (`Air::get_boundary_constraints`);
`none` = a panic in `get_assertions` / `BoundaryConstraints::new` / `prepare_assertions` -/
def boundaryGroups {F} (fp : FieldParams) (ef : EF F) (d : Desc) (pub : PubInputs) (info : TraceInfo)
    (g : F) (coeffs : List F) : Option (List (Boundary.Group F F)) :=
  match getAssertions fp.m d pub with
  | none => none
  | some as =>
    match Boundary.boundaryConstraintsNew ef.ops (fexp ef.ops) ef.ofBase (interpE fp ef) g info.main
        info.length d.asserts.length as coeffs with
    | .ok gs => some gs
    | .error _ => none

/-- `result += group.evaluate_at(frame.current(), x)` over all groups -/
def addBoundary {F} (ops : FieldOps F) (state : List F) (x : F) : List (Boundary.Group F F) → F → Option F
  | [], acc => some acc
  | g :: gs, acc =>
    match g.evaluateAt ops (fexp ops) state x with
    | none => none
    | some v => addBoundary ops state x gs (ops.add acc v)

/-- `TransitionConstraints::combine_evaluations` (main segment only) -/
def combineTransition {F} (ops : FieldOps F) (evals coeffs : List F) (divisor : Divisor F) (x : F) : F :=
  ops.mul ((evals.zip coeffs).foldl (fun acc ec => ops.add acc (ops.mul ec.2 ec.1)) ops.zero)
    (ops.inv (divisor.evaluateAt ops (fexp ops) x))

/-- `evaluate_constraints(air, coefficients, main_frame, None, None, z)` -/
def evaluateConstraints {F} (fp : FieldParams) (ef : EF F) (d : Desc) (pub : PubInputs) (info : TraceInfo)
    (tcoef bcoef : List F) (cur next : List F) (z : F) : R F :=
  match fp.rootOfUnity info.length.log2 with
  | none => .error (.abort .root)
  | some gTrace =>
  -- `TransitionConstraints::new`: `assert_eq!(num_transition_constraints, coefficients.len())`
  if (d.trans.length + d.auxTrans.length) ≠ tcoef.length then .error (.abort .transition) else
  match fromTransition ef.ops (fexp ef.ops) (ef.ofBase gTrace) info.length d.exemptions with
  | none => .error (.abort .transition)
  | some divisor =>
  match periodicPolys fp ef d info.length with
  | none => .error (.abort .periodic)
  | some polys =>
    let per := polys.map fun poly => periodicEvalAt ef.ops (fexp ef.ops) poly info.length z
    let tevals := d.trans.map fun t => evalEx ef fp.m (cur.take info.main) (next.take info.main) per t.ex
    let result := combineTransition ef.ops tevals (tcoef.take d.trans.length) divisor z
    match boundaryGroups fp ef d pub info (ef.ofBase gTrace) bcoef with
    | none => .error (.abort .boundary)
    | some groups =>
      match addBoundary ef.ops (cur.take info.main) z groups result with
      | none => .error (.abort .boundary)
      | some r => .ok r

/-- `Σ_i z^((i·n) as u32) · value_i` over the current row of the quotient frame -/
def oodQuotientValue {F} (ops : FieldOps F) (z : F) (n : Nat) (vals : List F) : F :=
  (vals.zipIdx.foldl (fun acc vi => ops.add acc (ops.mul (fexp ops z (u32Cast (vi.2 * n))) vi.1)) ops.zero)

/-! ## DEEP composition -/

/-- the two numerators `Σ (T_i(x) − T_i(z))·cc_i`, `Σ (T_i(x) − T_i(z·g))·cc_i` of one row -/
def deepNums {F} (ops : FieldOps F) (row oodCur oodNext cc : List F) : F × F :=
  (row.zipIdx).foldl (fun acc vi =>
    (ops.add acc.1 (ops.mul (ops.sub vi.1 (oodCur.getD vi.2 ops.zero)) (cc.getD vi.2 ops.zero)),
     ops.add acc.2 (ops.mul (ops.sub vi.1 (oodNext.getD vi.2 ops.zero)) (cc.getD vi.2 ops.zero))))
    (ops.zero, ops.zero)

/-- `DeepComposer::compose_columns` for one query: trace row, constraint row, `x` -/
def deepRow {F} (ops : FieldOps F) (z zg : F) (ccTrace ccConstraints tCur tNext qCur qNext : List F)
    (mainRow constraintRow : List F) (x : F) : F :=
  let t := deepNums ops mainRow tCur tNext ccTrace
  let q := deepNums ops constraintRow qCur qNext ccConstraints
  let d1 := ops.sub x z
  let d2 := ops.sub x zg
  let num := ops.add (ops.add (ops.mul t.1 d2) (ops.mul t.2 d1)) (ops.add (ops.mul q.1 d2) (ops.mul q.2 d1))
  let den := ops.mul d1 d2
  ops.mul num (if ops.beq den ops.zero then ops.zero else ops.inv den)

/-- the three `zip`s of `compose_columns` -/
def deepCompose {F} (ops : FieldOps F) (z zg : F) (ccTrace ccConstraints tCur tNext qCur qNext : List F) :
    List (List F) → List (List F) → List F → List F
  | m :: ms, c :: cs, x :: xs =>
    deepRow ops z zg ccTrace ccConstraints tCur tNext qCur qNext m c x ::
      deepCompose ops z zg ccTrace ccConstraints tCur tNext qCur qNext ms cs xs
  | _, _, _ => []

/-! ## FRI -/

/-- the loop of `FriVerifier::new`: reseed with the layer commitment, draw `alpha`, degree check -/
def friNewLoop {F} (H : HashParams) (fp : FieldParams) (ef : EF F) (folding numCommitments : Nat) :
    List Nat → Nat → Nat → CoinS → R (List F × CoinS)
  | [], _, _, c => .ok ([], c)
  | cm :: cms, depth, mdp1, c =>
    match drawE H fp ef (Coin.reseed H.coin c cm) with
    | none => .error .friCoin
    | some (alpha, c1) =>
      if depth ≠ numCommitments - 1 ∧ mdp1 % folding ≠ 0 then
        .error (.fri (.degreeTruncation (mdp1 - 1) folding depth))
      else
        match friNewLoop H fp ef folding numCommitments cms (depth + 1) (mdp1 / folding) c1 with
        | .ok (as, c2) => .ok (alpha :: as, c2)
        | .error e => .error e

/-- what `read_layer_queries` delivers layer by layer: the rows and the verdict of `verify_many`
at the folded, partition-mapped positions (a pure function of the query positions).  Merkle batch
verification never panics (`Wf.Props.C19.verify_batch_never_panics`), so its `abort` outcome is
folded into `false` here. -/
def layerOpenings {F} (H : HashParams) (ef : EF F) (folding numPartitions : Nat) :
    List Nat → Nat → List Nat → List (List F × Merkle.BatchProof Nat) → List (Fri.LayerOpening F)
  | positions, domain, cm :: cms, (vals, proof) :: ls =>
    let folded := (Fri.foldPositions positions domain folding).getD []
    let idx := (Fri.mapPositionsToIndexes folded domain folding numPartitions).getD []
    let rows := rowsOf folding vals
    let hashed := rows.map fun r => H.hashElements (r.flatMap ef.toCanon)
    { rows := rows, merkleOk := Merkle.verifyBatch H.merge cm idx hashed proof == .ok () } ::
      layerOpenings H ef folding numPartitions folded (domain / folding) cms ls
  | _, _, _, _ => []

def friRes {α} : Fri.Res α → R α
  | .ok a => .ok a
  | .err e => .error (.fri e)
  | .abort => .error (.abort .fri)

/-! ## `perform_verification` -/

/-- steps 1–2: reseed with the trace commitment, draw the constraint composition coefficients,
reseed with the constraint commitment, draw the out-of-domain point `z` -/
def drawChallenges {F} (H : HashParams) (fp : FieldParams) (ef : EF F) (method numCoeffs : Nat)
    (traceCommitment constraintCommitment : Nat) (coin0 : CoinS) : R ((List F × F) × CoinS) :=
  match drawCoefficients H fp ef method numCoeffs (Coin.reseed H.coin coin0 traceCommitment) with
  | none => .error .randomCoin
  | some (coeffs, c1) =>
    match drawE H fp ef (Coin.reseed H.coin c1 constraintCommitment) with
    | none => .error .randomCoin
    | some (z, c2) => .ok ((coeffs, z), c2)

/-- step 3: the out-of-domain consistency check -/
def oodCheck {F} (fp : FieldParams) (ef : EF F) (d : Desc) (pub : PubInputs) (info : TraceInfo)
    (ch : Channel F) (coeffs : List F) (z : F) : R Unit :=
  match evaluateConstraints fp ef d pub info (coeffs.take (d.trans.length + d.auxTrans.length))
      (coeffs.drop (d.trans.length + d.auxTrans.length)) ch.oodTraceCur ch.oodTraceNext z with
  | .error e => .error e
  | .ok ev1 =>
    if !ef.ops.beq ev1 (oodQuotientValue ef.ops z info.length ch.oodQuotCur) then .error .inconsistentOod
    else .ok ()

/-- `H::hash_elements(&merge_ood_evaluations(trace_frame, quotient_frame))` -/
def oodDigest {F} (H : HashParams) (ef : EF F) (ch : Channel F) : Nat :=
  H.hashElements ((ch.oodTraceCur ++ ch.oodQuotCur ++ (ch.oodTraceNext ++ ch.oodQuotNext)).flatMap ef.toCanon)

/-- step 4: DEEP coefficients, then `FriVerifier::new` (layer commitments → alphas) -/
def friCommit {F} (H : HashParams) (fp : FieldParams) (ef : EF F) (o : ProofOptions) (numDeep traceLength : Nat)
    (ch : Channel F) (coin : CoinS) : R ((List F × List F) × CoinS) :=
  match drawCoefficients H fp ef o.batchD numDeep coin with
  | none => .error .randomCoin
  | some (deep, c1) =>
    match friNewLoop H fp ef o.folding ch.friCommitments.length ch.friCommitments 0 (traceLength - 1 + 1) c1 with
    | .error e => .error e
    | .ok (alphas, c2) => .ok ((deep, alphas), c2)

/-- step 5 (first half): proof of work, query positions, `sort_unstable` + `dedup` -/
def queryPositions (H : HashParams) (o : ProofOptions) (lde nonce : Nat) (coin : CoinS) : R (List Nat) :=
  if Coin.checkLeadingZeros H.coin coin nonce < o.grinding then .error .pow else
  match (Coin.drawIntegers H.coin coin o.queries lde nonce).2 with
  | .abort => .error (.abort .drawIntegers)
  | .err _ _ => .error .randomCoin
  | .ok raw => .ok (sortDedup raw)

/-- the leaves `read_queried_trace_states` / `read_constraint_evaluations` hand to `verify_many` -/
def mainLeaves {F} (H : HashParams) (ch : Channel F) : List Nat :=
  ch.mainStates.map fun row => hashRow H (fun v => [v]) row ch.partMain

def constraintLeaves {F} (H : HashParams) (ef : EF F) (ch : Channel F) : List Nat :=
  ch.constraintEvals.map fun row => hashRow H ef.toCanon row ch.partConstraint

/-- step 5 (second half): both batch openings against their commitments -/
def checkOpenings {F} (H : HashParams) (ef : EF F) (ch : Channel F) (traceCommitment : Nat)
    (positions : List Nat) : R Unit :=
  match Merkle.verifyBatch H.merge traceCommitment positions (mainLeaves H ch) ch.mainProof with
  | .abort => .error (.abort .merkle)
  | .err _ => .error .traceQuery
  | .ok _ =>
    match Merkle.verifyBatch H.merge ch.constraintCommitment positions (constraintLeaves H ef ch)
        ch.constraintProof with
    | .abort => .error (.abort .merkle)
    | .err _ => .error .constraintQuery
    | .ok _ => .ok ()

/-- step 6: `DeepComposer::new` + `compose_columns` -/
def deepEvaluations {F} (ef : EF F) (fp : FieldParams) (width : Nat) (ch : Channel F) (z : F)
    (deep : List F) (positions : List Nat) (gLde gTrace : Nat) : List F :=
  deepCompose ef.ops z (ef.ops.mul z (ef.ofBase gTrace)) (deep.take width) (deep.drop width)
    ch.oodTraceCur ch.oodTraceNext ch.oodQuotCur ch.oodQuotNext
    (ch.mainStates.map fun row => row.map ef.ofBase) ch.constraintEvals
    (positions.map fun pos => ef.ops.mul (fexp ef.ops (ef.ofBase gLde) pos) (ef.ofBase fp.generator))

/-- the `FriVerifier` built by `FriVerifier::new` -/
def friVerifier {F} (ef : EF F) (fp : FieldParams) (o : ProofOptions) (traceLength numPartitions gFri : Nat)
    (alphas : List F) : Fri.Verifier F :=
  { maxPolyDegree := traceLength - 1, domainSize := Fri.nextPow2 (traceLength - 1 + 1) * o.blowup,
    g := ef.ofBase gFri, offset := ef.ofBase fp.generator, options := friOptions o,
    numPartitions := numPartitions, alphas := alphas }

/-- does the last FRI commitment equal the hash of the remainder? -/
def remainderCommitted {F} (H : HashParams) (ef : EF F) (ch : Channel F) : Bool :=
  ch.friCommitments.getLast? == some (H.hashElements (ch.friRemainder.flatMap ef.toCanon))

/-- steps 6–7: DEEP composition and `FriVerifier::verify` -/
def lowDegreeCheck {F} (H : HashParams) (fp : FieldParams) (ef : EF F) (info : TraceInfo) (o : ProofOptions)
    (ch : Channel F) (z : F) (deep alphas : List F) (positions : List Nat) : R Unit :=
  match fp.rootOfUnity (info.length * o.blowup).log2, fp.rootOfUnity info.length.log2,
        fp.rootOfUnity (Fri.nextPow2 (info.length - 1 + 1) * o.blowup).log2 with
  | some gLde, some gTrace, some gFri =>
    friRes (Fri.verify ef.ops (friVerifier ef fp o info.length ch.friNumPartitions gFri alphas)
      (deepEvaluations ef fp (info.main + info.aux) ch z deep positions gLde gTrace) positions
      (layerOpenings H ef o.folding ch.friNumPartitions positions
        (Fri.nextPow2 (info.length - 1 + 1) * o.blowup) ch.friCommitments ch.friLayers)
      ch.friRemainder (remainderCommitted H ef ch))
  | _, _, _ => .error (.abort .root)

/-- everything after the channel has been built -/
def performVerification {F} (H : HashParams) (fp : FieldParams) (ef : EF F) (d : Desc) (pub : PubInputs)
    (p : ProofM) (ctx : Ctx) (ch : Channel F) (coin0 : CoinS) : R Unit :=
  match ch.traceCommitments with
  | [] => .error (.abort .table)
  | tc0 :: _ =>
  match drawChallenges H fp ef p.context.options.batchC
      (d.trans.length + d.auxTrans.length + d.asserts.length) tc0 ch.constraintCommitment coin0 with
  | .error e => .error e
  | .ok ((coeffs, z), c2) =>
  match oodCheck fp ef d pub p.context.info ch coeffs z with
  | .error e => .error e
  | .ok _ =>
  match friCommit H fp ef p.context.options
      (p.context.info.main + p.context.info.aux + ctx.numConstraintCompositionColumns)
      p.context.info.length ch (Coin.reseed H.coin c2 (oodDigest H ef ch)) with
  | .error e => .error e
  | .ok ((deep, alphas), c3) =>
  match queryPositions H p.context.options (p.context.info.length * p.context.options.blowup) ch.nonce c3 with
  | .error e => .error e
  | .ok positions =>
  match checkOpenings H ef ch tc0 positions with
  | .error e => .error e
  | .ok _ => lowDegreeCheck H fp ef p.context.info p.context.options ch z deep alphas positions

/-! ## `verify` -/

/-- `AcceptableOptions::validate` (release arithmetic) -/
def validateOptions (H : HashParams) (acc : Security.Acceptable) (c : Context) : R Unit :=
  match Security.acceptableOptionsValidate .release acc c H.collisionResistance with
  | .ok => .ok ()
  | .insufficientConjectured a b => .error (.insufficientConjectured a b)
  | .insufficientProven a b => .error (.insufficientProven a b)
  | .unacceptableOptions => .error .unacceptableOptions
  | .abort => .error (.abort .security)

/-! ## what `verify` silently assumes about the (untrusted) context of the proof -/

/-- the assertions of the statement exist, are as many as the AIR declares and pass
`prepare_assertions` for the trace width and length announced by the proof -/
def assertionsFit (p : Nat) (d : Desc) (pub : PubInputs) (info : TraceInfo) : Bool :=
  match getAssertions p d pub with
  | none => false
  | some as =>
    as.length == d.asserts.length &&
      (match Assertion.prepareAssertions as info.main info.length with
       | .ok _ => true
       | .error _ => false)

/-- The conditions on the context of a parsed proof under which `verify` does not panic; each one
is a panic site of the Rust code when it fails (see `AbortSite`):
`airNew` – `Air::new` accepts the trace layout, blowup and trace length;
`periodic` – no periodic column is longer than the trace;
`boundary` – the assertions are valid for the announced trace width and length.
(Before fix ceafb22 there were two more: a modulus that fits `from_bytes_with_padding`, and fewer
queries than LDE domain points; `verify` now checks both.) -/
def contextFits (fp : FieldParams) (d : Desc) (pub : PubInputs) (c : Context) : Bool :=
  (airNew d c.info c.options).isSome &&
  d.periodic.all (fun col => periodicColumnOk col.length c.info.length) &&
  assertionsFit fp.m d pub c.info

/-- sanity of the base-field parameters (a property of the field, not of the proof): an element has
at least two bytes and every value of `ELEMENT_BYTES − 1` bytes is below the modulus — so that
`from_bytes_with_padding` succeeds on 7/15-byte metadata chunks and on the halves of the field's own
modulus bytes (true of f64, f62 and f128) -/
def fieldOk (fp : FieldParams) : Bool := decide (2 ≤ fp.bytes) && decide (256 ^ (fp.bytes - 1) ≤ fp.m)

/-- the part of `verify` that is generic in the evaluation field -/
def verifyIn {F} (H : HashParams) (fp : FieldParams) (ef : EF F) (d : Desc) (pub : PubInputs)
    (p : ProofM) (ctx : Ctx) (seed : List Nat) : R Unit :=
  match channelNew fp ef ctx p with
  | .error e => .error e
  | .ok ch => performVerification H fp ef d pub p ctx ch (Coin.new H.coin seed)

/-- `verify::<GenAir, H, DefaultRandomCoin<H>, MerkleTree<H>>(proof, pub_inputs, acceptable)` on a
parsed proof -/
def verifyParsed (H : HashParams) (fs : FieldSet) (d : Desc) (pub : PubInputs)
    (acc : Security.Acceptable) (p : ProofM) : R Unit :=
  match validateOptions H acc p.context with
  | .error e => .error e
  | .ok _ =>
  -- base field check first (fix ceafb22): the modulus bytes come from the untrusted proof
  if p.context.modulus ≠ leBytes fs.fp.bytes fs.fp.m then .error .inconsistentBaseField else
  match contextElements fs.fp p.context with
  | none => .error (.abort .seed)
  | some ctxEls =>
  if (p.context.info.length * p.context.options.blowup).log2 > fs.fp.twoAdicity then .error (.deser .lde) else
  -- fix ceafb22: the coin cannot draw as many positions as the LDE domain has points
  if p.context.options.queries ≥ p.context.info.length * p.context.options.blowup then
    .error (.deser .queries) else
  if d.auxWidth ≠ 0 then .error .unmodelled else
  match airNew d p.context.info p.context.options with
  | none => .error (.abort .airNew)
  | some ctx =>
    if p.context.options.ext = 1 then verifyIn H fs.fp fs.e1 d pub p ctx (ctxEls ++ pubElements fs.fp d pub)
    else if p.context.options.ext = 2 then
      match fs.e2 with
      | none => .error (.unsupportedFieldExtension 2)
      | some ef => verifyIn H fs.fp ef d pub p ctx (ctxEls ++ pubElements fs.fp d pub)
    else
      match fs.e3 with
      | none => .error (.unsupportedFieldExtension 3)
      | some ef => verifyIn H fs.fp ef d pub p ctx (ctxEls ++ pubElements fs.fp d pub)

/-- `Proof::from_bytes(bytes)` followed by `verify`: THE model of the whole verifier -/
def verifyModel (H : HashParams) (fs : FieldSet) (d : Desc) (pub : PubInputs)
    (acc : Security.Acceptable) (bytes : Bytes) : R Unit :=
  match proofDec bytes with
  | .ok p _ => verifyParsed H fs d pub acc p
  | .err _ => .error .fromBytes
  | .abort => .error (.abort .table)

end Wf.Verifier
