/-
Model of `crypto/src/merkle/mod.rs` (MerkleTree: new, build_merkle_nodes, prove, prove_batch,
verify, verify_batch, map_indexes, normalize_indexes) and `crypto/src/merkle/proofs.rs`
(BatchMerkleProof: from_single_proofs, get_root, into_openings, get_proof, read_from).

* The hash function is a PARAMETER: digests are an arbitrary type `D` (with `H::Digest::default()`
  as `default`) and every function that hashes takes `merge : D → D → D` (`H::merge(&[a, b])`).
* `usize` arithmetic has RELEASE semantics (wrapping `2usize.pow`, masked `1 << depth`); the
  overflow panics of a checked (debug) build are out of scope of this model.
* Every slice/Vec index that Rust bounds-checks is an explicit `abort` here; `Err(..)` returns are
  `err kind`.  `&1`, `>>1` are written `% 2`, `/ 2`; `^ 1` is `^^^ 1`.
* `BTreeMap<usize, _>` is `AMap` (association list with strictly ascending keys, insert = replace or
  ordered insert), `BTreeSet<usize>` is a strictly ascending list (`sinsert`).
* `get_root` and `into_openings` contain the same two loops (the second one additionally records
  the partial tree); the model has the loops once (`grFirst`, `grLevel`) with the partial-tree
  writes collected in a log that `getRoot` ignores.  `proof_pointers` is indexed, as in the Rust
  code, by the POSITION `i` of the node in the current level's index list (`grSibling pn ptrs i`).
* Fix af69a4d: `get_root` rejects (`InvalidProof`) unless `indexes.len() == leaves.len()`, right
  after the emptiness check (as `into_openings` always did).
* Fix f1ad895: after the level loops `get_root` (only) rejects the proof unless every pointer
  equals the length of its node vector (`unusedNodes`).
Core Lean only.
-/
import Wf.Model.Serde
namespace Wf.Merkle

/-- `MerkleTreeError` kinds -/
inductive MErr where
  | tooFewLeaves      -- TooFewLeaves
  | notPow2           -- NumberOfLeavesNotPowerOfTwo
  | oob               -- LeafIndexOutOfBounds
  | dup               -- DuplicateLeafIndex
  | tooFewIdx         -- TooFewLeafIndexes
  | invalid           -- InvalidProof
  deriving DecidableEq, Repr

/-- outcome of a call: value, `Err(kind)`, or a panic -/
inductive Res (α : Type) where
  | ok (a : α)
  | err (e : MErr)
  | abort
  deriving DecidableEq, Repr

/-! ## BTreeMap / BTreeSet -/

abbrev AMap (α : Type) := List (Nat × α)

namespace AMap
def insert {α} (k : Nat) (v : α) : AMap α → AMap α
  | [] => [(k, v)]
  | (k', v') :: m =>
    if k < k' then (k, v) :: (k', v') :: m
    else if k = k' then (k, v) :: m
    else (k', v') :: insert k v m

def get {α} : AMap α → Nat → Option α
  | [], _ => none
  | (k', v) :: m, k => if k = k' then some v else get m k
end AMap

/-- `BTreeSet::insert` -/
def sinsert (k : Nat) : List Nat → List Nat
  | [] => [k]
  | k' :: s => if k < k' then k :: k' :: s else if k = k' then k' :: s else k' :: sinsert k s

/-- `2usize.pow(e)` in a release build -/
def pow2usize (e : Nat) : Nat := 2 ^ e % 2 ^ 64

/-- loop of `map_indexes` (`i` = enumerate counter) -/
def mapIndexesLoop (numLeaves : Nat) : Nat → List Nat → AMap Nat → Except MErr (AMap Nat)
  | _, [], m => .ok m
  | i, index :: rest, m =>
    if index ≥ numLeaves then .error .oob
    else mapIndexesLoop numLeaves (i + 1) rest (AMap.insert index i m)

def mapIndexes (indexes : List Nat) (depth : Nat) : Res (AMap Nat) :=
  match mapIndexesLoop (pow2usize depth) 0 indexes [] with
  | .error e => .err e
  | .ok m => if indexes.length ≠ m.length then .err .dup else .ok m

/-- `normalize_indexes`: `index - (index & 1)` into a BTreeSet -/
def normalize (indexes : List Nat) : List Nat :=
  indexes.foldl (fun s i => sinsert (i - i % 2) s) []

/-! ## Tree construction -/

def isPow2 (n : Nat) : Bool := n != 0 && 2 ^ n.log2 == n

structure Tree (D : Type) where
  nodes : List D
  leaves : List D

variable {D : Type}

/-- first row of internal nodes: `nodes[n + i] = merge(two_leaves[i])`, `i < n = len / 2` -/
def firstRow (merge : D → D → D) : List D → List D
  | a :: b :: rest => merge a b :: firstRow merge rest
  | _ => []

/-- `for i in (1..n).rev() { nodes[i] = merge(nodes[2i], nodes[2i+1]) }`; the argument list is
    the already written suffix `nodes[i+1 ..]`, so `nodes[2i]` sits at offset `i - 1`. -/
def upper (merge : D → D → D) : Nat → List D → Option (List D)
  | 0, sfx => some sfx
  | i + 1, sfx =>
    match sfx[i]?, sfx[i + 1]? with
    | some a, some b => upper merge i (merge a b :: sfx)
    | _, _ => none

/-- `build_merkle_nodes` (the public function: any number of leaves) -/
def buildNodes [Inhabited D] (merge : D → D → D) (leaves : List D) : Res (List D) :=
  if leaves.length / 2 = 0 then .abort          -- `nodes[0] = default` on an empty vector
  else match upper merge (leaves.length / 2 - 1) (firstRow merge leaves) with
    | some l => .ok (default :: l)
    | none => .abort

/-- `MerkleTree::new` (serial build) -/
def Tree.new [Inhabited D] (merge : D → D → D) (leaves : List D) : Res (Tree D) :=
  if leaves.length < 2 then .err .tooFewLeaves
  else if !isPow2 leaves.length then .err .notPow2
  else match buildNodes merge leaves with
    | .ok n => .ok ⟨n, leaves⟩
    | .err e => .err e
    | .abort => .abort

def Tree.root (t : Tree D) : Res D :=
  match t.nodes[1]? with
  | some r => .ok r
  | none => .abort

def Tree.depth (t : Tree D) : Nat := t.leaves.length.log2

/-- the specification of the root: recursive pairwise hash of `2^d` leaves -/
def rootRec (merge : D → D → D) : Nat → List D → Option D
  | 0, [x] => some x
  | 0, _ => none
  | d + 1, l =>
    match rootRec merge d (l.take (2 ^ d)), rootRec merge d (l.drop (2 ^ d)) with
    | some a, some b => some (merge a b)
    | _, _ => none

/-! ## Single openings -/

/-- `while index > 1 { proof.push(nodes[index ^ 1]); index >>= 1 }` -/
def pathUp (nodes : List D) (index : Nat) : Option (List D) :=
  if _h : 1 < index then
    match nodes[index ^^^ 1]?, pathUp nodes (index / 2) with
    | some x, some r => some (x :: r)
    | _, _ => none
  else some []
termination_by index
decreasing_by omega

/-- `MerkleTree::prove` -/
def Tree.prove (t : Tree D) (index : Nat) : Res (D × List D) :=
  if index ≥ t.leaves.length then .err .oob
  else match t.leaves[index]?, t.leaves[index ^^^ 1]?,
             pathUp t.nodes ((index + t.nodes.length) / 2) with
    | some leaf, some s, some up => .ok (leaf, s :: up)
    | _, _, _ => .abort

/-- `for &p in proof.iter().skip(1)` of `verify` -/
def climb (merge : D → D → D) : D → Nat → List D → D
  | v, _, [] => v
  | v, index, p :: ps => climb merge (if index % 2 = 0 then merge v p else merge p v) (index / 2) ps

/-- `MerkleTree::verify`.  (`index + 2^len` may wrap in `usize`; the bits used afterwards, 1..len-1,
    are not affected, so the unbounded sum gives the release-build verdict.) -/
def verify [DecidableEq D] (merge : D → D → D) (root : D) (index : Nat) (leaf : D)
    (proof : List D) : Res Unit :=
  match proof with
  | [] => .abort                                   -- `proof[0]`
  | p0 :: ps =>
    if climb merge (if index % 2 = 0 then merge leaf p0 else merge p0 leaf)
        ((index + 2 ^ proof.length) / 2) ps = root then .ok ()
    else .err .invalid

/-! ## Batch proofs -/

structure BatchProof (D : Type) where
  nodes : List (List D)
  depth : Nat                    -- u8
  deriving DecidableEq, Repr

/-- one `i` of `(index..index + 2).flat_map(..)` in `prove_batch`; state = (missing, leaves out) -/
def pbSlot (tl : List D) (imap : AMap Nat) (i : Nat) (st : List D × List D) :
    Option (List D × List D) :=
  match tl[i]? with
  | none => none
  | some v =>
    match AMap.get imap i with
    | some idx => if idx < st.2.length then some (st.1, st.2.set idx v) else none
    | none => some (st.1 ++ [v], st.2)

/-- first loop of `prove_batch` over the normalized indexes; returns (nodes, next_indexes, leaves) -/
def pbFirst (tl : List D) (imap : AMap Nat) (n : Nat) :
    List Nat → List D → Option (List (List D) × List Nat × List D)
  | [], out => some ([], [], out)
  | e :: rest, out =>
    match pbSlot tl imap e ([], out) with
    | none => none
    | some st0 =>
      match pbSlot tl imap (e + 1) st0 with
      | none => none
      | some st1 =>
        match pbFirst tl imap n rest st1.2 with
        | none => none
        | some r => some (st1.1 :: r.1, (e + n) / 2 :: r.2.1, r.2.2)

/-- `nodes[i].push(x)` -/
def pushAt (acc : List (List D)) (i : Nat) (x : D) : Option (List (List D)) :=
  if i < acc.length then some (acc.modify i (· ++ [x])) else none

/-- `nodes[i].push(self.nodes[sibling_index])` -/
def pbTake (tn : List D) (acc : List (List D)) (i x : Nat) : Option (List (List D)) :=
  match tn[x ^^^ 1]? with
  | some s => pushAt acc i s
  | none => none

/-- the `while i < indexes.len()` loop of one level of `prove_batch` (`i` = position) -/
def pbLevel (tn : List D) : Nat → List Nat → List (List D) → Option (List (List D) × List Nat)
  | _, [], acc => some (acc, [])
  | i, [x], acc =>
    match pbTake tn acc i x with
    | none => none
    | some acc' => some (acc', [(x ^^^ 1) / 2])
  | i, x :: y :: rest, acc =>
    if y = x ^^^ 1 then
      match pbLevel tn (i + 2) rest acc with
      | none => none
      | some r => some (r.1, (x ^^^ 1) / 2 :: r.2)
    else
      match pbTake tn acc i x with
      | none => none
      | some acc' =>
        match pbLevel tn (i + 1) (y :: rest) acc' with
        | none => none
        | some r => some (r.1, (x ^^^ 1) / 2 :: r.2)

/-- `for _ in 1..depth` of `prove_batch` -/
def pbLevels (tn : List D) : Nat → List Nat → List (List D) → Option (List (List D))
  | 0, _, acc => some acc
  | k + 1, idxs, acc =>
    match pbLevel tn 0 idxs acc with
    | none => none
    | some r => pbLevels tn k r.2 r.1

/-- `MerkleTree::prove_batch` -/
def Tree.proveBatch [Inhabited D] (t : Tree D) (indexes : List Nat) :
    Res (List D × BatchProof D) :=
  if indexes.isEmpty then .err .tooFewIdx
  else match mapIndexes indexes t.depth with
    | .err e => .err e
    | .abort => .abort
    | .ok imap =>
      match pbFirst t.leaves imap t.leaves.length (normalize indexes)
              (List.replicate imap.length default) with
      | none => .abort
      | some r =>
        match pbLevels t.nodes (t.depth - 1) r.2.1 r.1 with
        | none => .abort
        | some ns => .ok (r.2.2, ⟨ns, t.depth % 256⟩)

/-! ### `get_root` / `into_openings` -/

/-- leaf-level step for the normalized index `e` at position `i`: `(buf[0], buf[1], pointer)` -/
def grPair (imap : AMap Nat) (leaves : List D) (pn : List (List D)) (i e : Nat) :
    Res (D × D × Nat) :=
  match AMap.get imap e with
  | some i1 =>
    match leaves[i1]? with
    | none => .err .invalid
    | some b0 =>
      match AMap.get imap (e + 1) with
      | some i2 =>
        match leaves[i2]? with
        | none => .err .invalid
        | some b1 => .ok (b0, b1, 0)
      | none =>
        match pn[i]? with
        | none => .abort
        | some [] => .err .invalid
        | some (b1 :: _) => .ok (b0, b1, 1)
  | none =>
    match pn[i]? with
    | none => .abort
    | some [] => .err .invalid
    | some (b0 :: _) =>
      match AMap.get imap (e + 1) with
      | some i2 =>
        match leaves[i2]? with
        | none => .err .invalid
        | some b1 => .ok (b0, b1, 1)
      | none => .err .invalid

/-- loop state: hashed nodes `v`, `proof_pointers`, partial-tree writes (newest first) -/
structure GSt (D : Type) where
  v : AMap D
  ptrs : List Nat
  log : List (Nat × D)

/-- first loop of `get_root` / `into_openings`; returns the state and `next_indexes` -/
def grFirst (merge : D → D → D) (imap : AMap Nat) (leaves : List D) (pn : List (List D))
    (offset : Nat) : Nat → List Nat → AMap D → List (Nat × D) → Res (GSt D × List Nat)
  | _, [], v, log => .ok (⟨v, [], log⟩, [])
  | i, e :: rest, v, log =>
    match grPair imap leaves pn i e with
    | .err x => .err x
    | .abort => .abort
    | .ok b =>
      match grFirst merge imap leaves pn offset (i + 1) rest
          (AMap.insert ((offset + e) / 2) (merge b.1 b.2.1) v)
          (((offset + e) / 2, merge b.1 b.2.1) :: ((offset + e) ^^^ 1, b.2.1) ::
            (offset + e, b.1) :: log) with
      | .err x => .err x
      | .abort => .abort
      | .ok r => .ok (⟨r.1.v, b.2.2 :: r.1.ptrs, r.1.log⟩, (offset + e) / 2 :: r.2)

/-- sibling from the proof: `nodes[i][proof_pointers[i]]`, `proof_pointers[i] += 1` -/
def grSibling (pn : List (List D)) (ptrs : List Nat) (i : Nat) : Res (D × List Nat) :=
  match ptrs[i]? with
  | none => .abort
  | some p =>
    match pn[i]? with
    | none => .abort
    | some ni =>
      match ni[p]? with
      | none => .err .invalid
      | some s => .ok (s, ptrs.set i (p + 1))

/-- node lookup, parent hash, `v.insert`, partial-tree writes -/
def grNode (merge : D → D → D) (v : AMap D) (log : List (Nat × D)) (x : Nat) (s : D) :
    Res (AMap D × List (Nat × D)) :=
  match AMap.get v x with
  | none => .err .invalid
  | some node =>
    .ok (AMap.insert (x / 2) (if x % 2 ≠ 0 then merge s node else merge node s) v,
         (x / 2, if x % 2 ≠ 0 then merge s node else merge node s) :: (x ^^^ 1, s) :: log)

/-- the `while i < indexes.len()` loop of one upper level -/
def grLevel (merge : D → D → D) (pn : List (List D)) :
    Nat → List Nat → GSt D → Res (GSt D × List Nat)
  | _, [], st => .ok (st, [])
  | i, [x], st =>
    match grSibling pn st.ptrs i with
    | .err e => .err e
    | .abort => .abort
    | .ok sp =>
      match grNode merge st.v st.log x sp.1 with
      | .err e => .err e
      | .abort => .abort
      | .ok vl => .ok (⟨vl.1, sp.2, vl.2⟩, [x / 2])
  | i, x :: y :: rest, st =>
    if y = x ^^^ 1 then
      match AMap.get st.v (x ^^^ 1) with
      | none => .err .invalid
      | some s =>
        match grNode merge st.v st.log x s with
        | .err e => .err e
        | .abort => .abort
        | .ok vl =>
          match grLevel merge pn (i + 2) rest ⟨vl.1, st.ptrs, vl.2⟩ with
          | .err e => .err e
          | .abort => .abort
          | .ok r => .ok (r.1, x / 2 :: r.2)
    else
      match grSibling pn st.ptrs i with
      | .err e => .err e
      | .abort => .abort
      | .ok sp =>
        match grNode merge st.v st.log x sp.1 with
        | .err e => .err e
        | .abort => .abort
        | .ok vl =>
          match grLevel merge pn (i + 1) (y :: rest) ⟨vl.1, sp.2, vl.2⟩ with
          | .err e => .err e
          | .abort => .abort
          | .ok r => .ok (r.1, x / 2 :: r.2)

/-- `for _ in 1..self.depth` -/
def grLevels (merge : D → D → D) (pn : List (List D)) : Nat → List Nat → GSt D → Res (GSt D)
  | 0, _, st => .ok st
  | k + 1, idxs, st =>
    match grLevel merge pn 0 idxs st with
    | .err e => .err e
    | .abort => .abort
    | .ok r => grLevels merge pn k r.2 r.1

/-- everything of `get_root` / `into_openings` between the emptiness checks and the final read -/
def grRun (merge : D → D → D) (p : BatchProof D) (indexes : List Nat) (leaves : List D) :
    Res (GSt D) :=
  match mapIndexes indexes p.depth with
  | .err e => .err e
  | .abort => .abort
  | .ok imap =>
    if (normalize indexes).length ≠ p.nodes.length then .err .invalid
    else match grFirst merge imap leaves p.nodes (pow2usize p.depth) 0 (normalize indexes) [] [] with
      | .err e => .err e
      | .abort => .abort
      | .ok r => grLevels merge p.nodes (p.depth - 1) r.2 r.1

/-- `proof_pointers.iter().zip(self.nodes.iter()).any(|(&pointer, nodes)| pointer != nodes.len())`
    (fix f1ad895): some supplied node vector has not been consumed exactly.  `zip` stops at the
    shorter of the two lists, as the Rust iterator does. -/
def unusedNodes (ptrs : List Nat) (pn : List (List D)) : Bool :=
  (ptrs.zip pn).any fun x => x.1 != x.2.length

/-- `BatchMerkleProof::get_root`.  The leaf-count check (fix af69a4d: exactly one leaf per index)
    sits right after the emptiness check and BEFORE `map_indexes`, so it wins over the
    out-of-range / duplicate errors.  The consumption check (fix f1ad895) sits AFTER the level
    loops and BEFORE `v.remove(&1)`; `into_openings` has no such check (it shares only `grRun`). -/
def BatchProof.getRoot (merge : D → D → D) (p : BatchProof D) (indexes : List Nat)
    (leaves : List D) : Res D :=
  if indexes.isEmpty then .err .tooFewIdx
  else if indexes.length ≠ leaves.length then .err .invalid
  else match grRun merge p indexes leaves with
    | .err e => .err e
    | .abort => .abort
    | .ok st =>
      if unusedNodes st.ptrs p.nodes then .err .invalid
      else match AMap.get st.v 1 with
        | some r => .ok r
        | none => .err .invalid

/-- `MerkleTree::verify_batch` -/
def verifyBatch [DecidableEq D] (merge : D → D → D) (root : D) (indexes : List Nat)
    (leaves : List D) (p : BatchProof D) : Res Unit :=
  match p.getRoot merge indexes leaves with
  | .err e => .err e
  | .abort => .abort
  | .ok r => if root ≠ r then .err .invalid else .ok ()

/-- loop of `get_proof` -/
def gpUp (pt : AMap D) (index : Nat) : Option (List D) :=
  if _h : 1 < index then
    match AMap.get pt (index ^^^ 1), gpUp pt (index / 2) with
    | some x, some r => some (x :: r)
    | _, _ => none
  else some []
termination_by index
decreasing_by omega

/-- `get_proof(index, tree, depth)`; `1 << depth` with the shift amount masked (release) -/
def getProof (pt : AMap D) (index depth : Nat) : Res (D × List D) :=
  match AMap.get pt ((index + 2 ^ (depth % 64)) % 2 ^ 64),
        gpUp pt ((index + 2 ^ (depth % 64)) % 2 ^ 64) with
  | some leaf, some proof => .ok (leaf, proof)
  | _, _ => .err .invalid

/-- `iter().map(f).collect::<Result<Vec<_>, _>>()` -/
def mapRes {α β} (f : α → Res β) : List α → Res (List β)
  | [] => .ok []
  | a :: as =>
    match f a with
    | .err e => .err e
    | .abort => .abort
    | .ok b =>
      match mapRes f as with
      | .err e => .err e
      | .abort => .abort
      | .ok bs => .ok (b :: bs)

/-- the writes `partial_tree_map.insert(i + (1 << depth), leaf)` (newest first) -/
def initLog (depth : Nat) : List Nat → List D → List (Nat × D)
  | i :: is, l :: ls => initLog depth is ls ++ [((i + 2 ^ (depth % 64)) % 2 ^ 64, l)]
  | _, _ => []

/-- `BatchMerkleProof::into_openings` -/
def BatchProof.intoOpenings (merge : D → D → D) (p : BatchProof D) (leaves : List D)
    (indexes : List Nat) : Res (List (D × List D)) :=
  if indexes.isEmpty then .err .tooFewIdx
  else if indexes.length ≠ leaves.length then .err .invalid
  else match grRun merge p indexes leaves with
    | .err e => .err e
    | .abort => .abort
    | .ok st =>
      mapRes (fun i => getProof
        ((st.log ++ initLog p.depth indexes leaves).foldr (fun kv m => AMap.insert kv.1 kv.2 m) [])
        i p.depth) indexes

/-! ### `from_single_proofs` -/

/-- first `while` loop: entries of `proof_map` in key order, next `proof_map` so far;
    returns (nodes, next proof_map) -/
def fsFirst : List (Nat × (D × List D)) → AMap (D × List D) →
    Option (List (List D) × AMap (D × List D))
  | [], nm => some ([], nm)
  | [(x, p)], nm =>
    match p.2 with
    | [] => none                                   -- `proofs[i].1[0]`
    | n0 :: _ => some ([[n0]], AMap.insert (x / 2) p nm)
  | (x, p) :: (y, q) :: rest, nm =>
    match p.2 with
    | [] => none
    | n0 :: _ =>
      if x % 2 = 0 ∧ y - 1 = x then
        match fsFirst rest (AMap.insert (y / 2) q nm) with
        | none => none
        | some r => some ([] :: r.1, r.2)
      else
        match fsFirst ((y, q) :: rest) (AMap.insert (x / 2) p nm) with
        | none => none
        | some r => some ([n0] :: r.1, r.2)

/-- `nodes[i].push(proof.1[d])` -/
def fsTake (acc : List (List D)) (i d : Nat) (p : D × List D) : Option (List (List D)) :=
  match p.2[d]? with
  | some s => pushAt acc i s
  | none => none

/-- one layer `d` of the second loop; returns (nodes, next_proof_map) -/
def fsLevel (d : Nat) : Nat → List (Nat × (D × List D)) → List (List D) → AMap (D × List D) →
    Option (List (List D) × AMap (D × List D))
  | _, [], acc, nm => some (acc, nm)
  | i, [(x, p)], acc, nm =>
    match fsTake acc i d p with
    | none => none
    | some acc' => some (acc', AMap.insert (x / 2) p nm)
  | i, (x, p) :: (y, q) :: rest, acc, nm =>
    if x % 2 = 0 ∧ y - 1 = x then
      fsLevel d (i + 2) rest acc (AMap.insert (x / 2) p nm)
    else
      match fsTake acc i d p with
      | none => none
      | some acc' => fsLevel d (i + 1) ((y, q) :: rest) acc' (AMap.insert (x / 2) p nm)

/-- `for d in 1..depth`: `k` layers left, current layer `d` -/
def fsLevels : Nat → Nat → AMap (D × List D) → List (List D) → Option (List (List D))
  | 0, _, _, acc => some acc
  | k + 1, d, pm, acc =>
    match fsLevel d 0 pm acc [] with
    | none => none
    | some r => fsLevels k (d + 1) r.2 r.1

/-- the zip loop: `assert_eq!(depth, proof.1.len())`, `proof_map.insert(index, proof)` -/
def fsZip (depth : Nat) : List Nat → List (D × List D) → AMap (D × List D) →
    Option (AMap (D × List D))
  | i :: is, p :: ps, m => if p.2.length ≠ depth then none else fsZip depth is ps (AMap.insert i p m)
  | _, _, m => some m

/-- `BatchMerkleProof::from_single_proofs` (every failure is a panic) -/
def fromSingleProofs (proofs : List (D × List D)) (indexes : List Nat) : Res (BatchProof D) :=
  match proofs with
  | [] => .abort
  | p0 :: _ =>
    if proofs.length ≠ indexes.length then .abort
    else match fsZip p0.2.length indexes proofs [] with
      | none => .abort
      | some pm =>
        match fsFirst pm [] with
        | none => .abort
        | some r =>
          match fsLevels (p0.2.length - 1) 1 r.2 r.1 with
          | none => .abort
          | some ns => .ok ⟨ns, p0.2.length % 256⟩

/-! ## Wire format (`Deserializable for BatchMerkleProof<H>` with a 32-byte digest) -/

def digestDec : Dec Nat := readLe 32

def BatchProof.decode : Dec (BatchProof Nat) :=
  Dec.bind readU8 fun depth =>
  Dec.bind readUsize fun n =>
  Dec.bind (readMany 24 (Codec.vec ⟨leBytes 32, digestDec, 32⟩).dec n) fun nodes =>
  Dec.pure ⟨nodes, depth⟩

/-! ## The test hasher of the correspondence harness (`harness/src/c18.rs: Toy`)

A digest is 32 bytes = four little-endian `u64` words = a `Nat < 2^256`.  `merge` is an FNV-style
fold over the eight input words; the result has one non-zero word.  It is NOT cryptographic; it is
a cheap, fully specified function so that the real `MerkleTree<H>` code can be compared digest by
digest with this model. -/

def word (a k : Nat) : Nat := a / 2 ^ (64 * k) % 2 ^ 64

def toyStep (h w : Nat) : Nat :=
  ((h ^^^ w) * 0x100000001b3 % 2 ^ 64) ^^^ (((h ^^^ w) * 0x100000001b3 % 2 ^ 64) / 2 ^ 29)

def toyMerge (a b : Nat) : Nat :=
  [word a 0, word a 1, word a 2, word a 3, word b 0, word b 1, word b 2, word b 3].foldl toyStep
    0xcbf29ce484222325

/-- seeded test leaf `i` -/
def toyLeaf (seed i : Nat) : Nat :=
  let z := (seed + (i + 1) * 0x9E3779B97F4A7C15) % 2 ^ 64
  (z ^^^ (z / 2 ^ 31)) + 2 ^ 64 * (z * 0xBF58476D1CE4E5B9 % 2 ^ 64) + 2 ^ 128 * (i % 2 ^ 64) +
    2 ^ 192 * (seed % 2 ^ 64)

end Wf.Merkle
