/-
Dynamically typed front end to `Wf.Codec`: a type descriptor `Ty`, values `Val`, and
`codecOf : Ty → Codec Val` assembled from the very combinators the C26 theorems are about.
Used by the driver so that the harness can exercise arbitrary nestings of the Rust impls.
-/
import Wf.Model.Serde
namespace Wf

inductive Ty where
  | u8 | u16 | u32 | u64 | u128 | usize | bool | unit | str
  | opt (t : Ty)
  | vec (t : Ty)
  | arr (n : Nat) (t : Ty)
  | tup (ts : List Ty)
  | set (t : Ty)            -- BTreeSet<T>, T an unsigned integer type
  | map (k : Ty) (v : Ty)   -- BTreeMap<K,V>, K an unsigned integer type
  deriving Repr, Inhabited

inductive Val where
  | n (v : Nat)
  | b (v : Bool)
  | u
  | s (bytes : Bytes)
  | none
  | some (v : Val)
  | list (vs : List Val)
  | tup (vs : List Val)
  deriving Repr, Inhabited, BEq

namespace Codec

/-- transport a codec along a pair of maps (no proof obligations here; see `Props.C26`). -/
def map {α β} (c : Codec α) (f : α → β) (g : β → α) : Codec β :=
  ⟨fun x => c.enc (g x),
   fun bs => match c.dec bs with
     | .ok a r => .ok (f a) r
     | .err e => .err e
     | .abort => .abort,
   c.size⟩

def natVal (c : Codec Nat) : Codec Val :=
  c.map Val.n (fun v => match v with | .n x => x | _ => 0)

def listVal (c : Codec (List Val)) : Codec Val :=
  c.map Val.list (fun v => match v with | .list xs => xs | _ => [])

/-- n-ary tuples as right-nested pairs of `Val`. -/
def tupVal : List (Codec Val) → Codec (List Val)
  | [] => ⟨fun _ => [], Dec.pure [], 0⟩
  | c :: cs =>
    (pair c (tupVal cs)).map (fun p => p.1 :: p.2)
      (fun l => match l with | x :: xs => (x, xs) | [] => (Val.u, []))

def keyOf : Val → Nat
  | .n x => x
  | .tup (.n x :: _) => x
  | _ => 0

end Codec

open Codec in
def codecOf : Ty → Codec Val
  | .u8 => natVal Codec.u8
  | .u16 => natVal Codec.u16
  | .u32 => natVal Codec.u32
  | .u64 => natVal Codec.u64
  | .u128 => natVal Codec.u128
  | .usize => natVal Codec.usize
  | .bool => Codec.bool.map Val.b (fun v => match v with | .b x => x | _ => false)
  | .unit => Codec.unit.map (fun _ => Val.u) (fun _ => ())
  | .str => Codec.string.map Val.s (fun v => match v with | .s x => x | _ => [])
  | .opt t => (Codec.option (codecOf t)).map
      (fun o => match o with | Option.some v => Val.some v | Option.none => Val.none)
      (fun v => match v with | .some x => Option.some x | _ => Option.none)
  | .vec t => listVal (Codec.vec (codecOf t))
  | .arr n t => listVal (Codec.array (codecOf t) n)
  | .tup ts => (tupVal (codecOfList ts)).map Val.tup (fun v => match v with | .tup xs => xs | _ => [])
  | .set t => listVal (Codec.btree (codecOf t) keyOf)
  | .map k v => listVal (Codec.btree
      ((tupVal [codecOf k, codecOf v]).map Val.tup (fun v => match v with | .tup xs => xs | _ => []))
      keyOf)
where
  codecOfList : List Ty → List (Codec Val)
    | [] => []
    | t :: ts => codecOf t :: codecOfList ts

end Wf
