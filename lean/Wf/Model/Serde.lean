/-
Model of `utils/core/src/serde/{mod,byte_reader,byte_writer}.rs` (in-memory reader/writer side).

Core Lean only (no Mathlib): this file is linked into the native driver `wfdriver`.

Conventions
* a writer is a `Bytes` value that is appended to;
* the in-memory `SliceReader` is the list of *remaining* bytes (the code's `source[pos..]`);
* every decoder returns `Out α`: `ok value rest`, `err kind` or `abort` (a Rust panic or an
  allocation abort).  "Never panics" is therefore a theorem `dec bs ≠ abort`.
-/
namespace Wf

abbrev Bytes := List UInt8

/-- `DeserializationError` collapsed to its constructor. -/
inductive Err where
  | eof        -- UnexpectedEOF
  | invalid    -- InvalidValue(_)
  | other      -- UnknownError(_)
  deriving DecidableEq, Repr, Inhabited

inductive Out (α : Type) where
  | ok (a : α) (rest : Bytes)
  | err (e : Err)
  | abort
  deriving Repr, DecidableEq

/-- A decoder over the in-memory reader. -/
def Dec (α : Type) := Bytes → Out α

namespace Dec
@[inline] def pure {α} (a : α) : Dec α := fun bs => .ok a bs
@[inline] def bind {α β} (d : Dec α) (f : α → Dec β) : Dec β := fun bs =>
  match d bs with
  | .ok a rest => f a rest
  | .err e => .err e
  | .abort => .abort
@[inline] def fail {α} (e : Err) : Dec α := fun _ => .err e
@[inline] def abort {α} : Dec α := fun _ => .abort
instance : Monad Dec where
  pure := Dec.pure
  bind := Dec.bind
end Dec

/-! ## Little-endian integers -/

/-- `n` little-endian bytes of `v` (`to_le_bytes` for an `8n`-bit integer). -/
def leBytes : Nat → Nat → Bytes
  | 0, _ => []
  | n + 1, v => UInt8.ofNat (v % 256) :: leBytes n (v / 256)

/-- `from_le_bytes`. -/
def fromLe : Bytes → Nat
  | [] => 0
  | b :: bs => b.toNat + 256 * fromLe bs

/-- `SliceReader::read_array::<N>` followed by `from_le_bytes` (N = `n`). -/
def readLe (n : Nat) : Dec Nat := fun bs =>
  -- `(bs.take n).length < n` is `bs.length < n` computed in O(n) (see `take_length_lt`)
  if (bs.take n).length < n then .err .eof else .ok (fromLe (bs.take n)) (bs.drop n)

def readU8 : Dec Nat := readLe 1
def readU16 : Dec Nat := readLe 2
def readU32 : Dec Nat := readLe 4
def readU64 : Dec Nat := readLe 8
def readU128 : Dec Nat := readLe 16

/-- `SliceReader::peek_u8`. -/
def peekU8 : Dec Nat := fun bs =>
  match bs with
  | [] => .err .eof
  | b :: _ => .ok b.toNat bs

/-- `SliceReader::read_slice(len)` / `read_vec(len)`. -/
def readSlice (len : Nat) : Dec Bytes := fun bs =>
  if (bs.take len).length < len then .err .eof else .ok (bs.take len) (bs.drop len)

/-- `SliceReader::check_eor`. -/
def checkEor (n : Nat) (bs : Bytes) : Bool := n ≤ bs.length

def hasMoreBytes (bs : Bytes) : Bool := !bs.isEmpty

/-- `ByteReader::read_bool`. -/
def readBool : Dec Bool := fun bs =>
  match readU8 bs with
  | .ok 0 rest => .ok false rest
  | .ok 1 rest => .ok true rest
  | .ok _ _ => .err .invalid
  | .err e => .err e
  | .abort => .abort

def writeBool (b : Bool) : Bytes := [if b then 1 else 0]

/-! ## vint64 (`write_usize` / `read_usize`) -/

/-- `u64::leading_zeros`. -/
def leadingZeros64 (v : Nat) : Nat := if v = 0 then 64 else 63 - v.log2

/-- `u8::trailing_zeros`. -/
def tz8 (b : Nat) : Nat :=
  if b % 2 = 1 then 0 else if b % 4 = 2 then 1 else if b % 8 = 4 then 2
  else if b % 16 = 8 then 3 else if b % 32 = 16 then 4 else if b % 64 = 32 then 5
  else if b % 128 = 64 then 6 else if b % 256 = 128 then 7 else 8

/-- `byte_writer::usize_encoded_len`. -/
def usizeEncodedLen (v : Nat) : Nat :=
  let zeros := leadingZeros64 v
  let len := (zeros - 1) / 7
  9 - min len 8

/-- `ByteWriter::write_usize` (the value is a `u64`). -/
def writeUsize (v : Nat) : Bytes :=
  let length := usizeEncodedLen v
  if length = 9 then
    0 :: leBytes 8 v
  else
    (leBytes 8 (((2 * v + 1) * 2 ^ (length - 1)) % 2 ^ 64)).take length

/-- `usize::MAX` of the platform the harness runs on (64-bit). -/
def usizeMax : Nat := 2 ^ 64 - 1

/-- `ByteReader::read_usize`. -/
def readUsize : Dec Nat := fun bs =>
  match bs with
  | [] => .err .eof
  | first :: _ =>
    let length := tz8 first.toNat + 1
    if length = 9 then
      match readU8 bs with
      | .ok _ rest =>
        match readLe 8 rest with
        | .ok v rest' => if v > usizeMax then .err .invalid else .ok v rest'
        | .err e => .err e
        | .abort => .abort
      | .err e => .err e
      | .abort => .abort
    else
      match readSlice length bs with
      | .ok sl rest =>
        let v := fromLe sl / 2 ^ length
        if v > usizeMax then .err .invalid else .ok v rest
      | .err e => .err e
      | .abort => .abort

/-! ## `read_many` and the allocation it performs -/

/-- Largest request (in bytes) `Vec::with_capacity` is modelled to survive.  Anything above aborts
    the process (capacity overflow panic or allocator failure under a resource limit). -/
def allocLimit : Nat := 2 ^ 31

/-- The capacity `read_many` pre-allocates for a decoded element count `n`
    (`utils/core/src/serde/byte_reader.rs`).  Mirrors the code: see `Gen`/correspondence. -/
def maxPreallocBytes : Nat := 2 ^ 16
def readManyPrealloc (n elemSize : Nat) : Nat := min n (maxPreallocBytes / max elemSize 1)

/-- `ByteReader::read_many::<D>(n)` where `d` decodes one `D` of in-memory size `elemSize`. -/
def readManyLoop {α} (d : Dec α) : Nat → List α → Dec (List α)
  | 0, acc => fun bs => .ok acc.reverse bs
  | n + 1, acc => fun bs =>
    match d bs with
    | .ok a rest => readManyLoop d n (a :: acc) rest
    | .err e => .err e
    | .abort => .abort

def readMany {α} (elemSize : Nat) (d : Dec α) (n : Nat) : Dec (List α) := fun bs =>
  if readManyPrealloc n elemSize * elemSize > allocLimit then .abort
  else readManyLoop d n [] bs

/-! ## UTF-8 validation (`String::from_utf8`), Unicode 15 table 3-7 -/

def utf8Valid : Bytes → Bool
  | [] => true
  | b0 :: rest =>
    let b := b0.toNat
    if b < 0x80 then utf8Valid rest
    else if 0xC2 ≤ b ∧ b ≤ 0xDF then
      match rest with
      | c1 :: r => (0x80 ≤ c1.toNat && c1.toNat ≤ 0xBF) && utf8Valid r
      | _ => false
    else if 0xE0 ≤ b ∧ b ≤ 0xEF then
      match rest with
      | c1 :: c2 :: r =>
        let lo := if b = 0xE0 then 0xA0 else 0x80
        let hi := if b = 0xED then 0x9F else 0xBF
        (lo ≤ c1.toNat && c1.toNat ≤ hi) && (0x80 ≤ c2.toNat && c2.toNat ≤ 0xBF) && utf8Valid r
      | _ => false
    else if 0xF0 ≤ b ∧ b ≤ 0xF4 then
      match rest with
      | c1 :: c2 :: c3 :: r =>
        let lo := if b = 0xF0 then 0x90 else 0x80
        let hi := if b = 0xF4 then 0x8F else 0xBF
        (lo ≤ c1.toNat && c1.toNat ≤ hi) && (0x80 ≤ c2.toNat && c2.toNat ≤ 0xBF)
          && (0x80 ≤ c3.toNat && c3.toNat ≤ 0xBF) && utf8Valid r
      | _ => false
    else false

/-! ## Codecs: one per `Serializable`/`Deserializable` impl -/

/-- An encoder/decoder pair with the in-memory size of the decoded type (for `read_many`). -/
structure Codec (α : Type) where
  enc : α → Bytes
  dec : Dec α
  size : Nat

namespace Codec

def unit : Codec Unit := ⟨fun _ => [], Dec.pure (), 0⟩
def u8 : Codec Nat := ⟨leBytes 1, readU8, 1⟩
def u16 : Codec Nat := ⟨leBytes 2, readU16, 2⟩
def u32 : Codec Nat := ⟨leBytes 4, readU32, 4⟩
def u64 : Codec Nat := ⟨leBytes 8, readU64, 8⟩
def u128 : Codec Nat := ⟨leBytes 16, readU128, 16⟩
def usize : Codec Nat := ⟨writeUsize, readUsize, 8⟩
def bool : Codec Bool := ⟨writeBool, readBool, 1⟩

def pair {α β} (a : Codec α) (b : Codec β) : Codec (α × β) :=
  ⟨fun x => a.enc x.1 ++ b.enc x.2,
   fun bs => match a.dec bs with
     | .ok x r => (match b.dec r with
        | .ok y r' => .ok (x, y) r'
        | .err e => .err e
        | .abort => .abort)
     | .err e => .err e
     | .abort => .abort,
   a.size + b.size⟩

def option {α} (a : Codec α) : Codec (Option α) :=
  ⟨fun x => match x with
     | some v => writeBool true ++ a.enc v
     | none => writeBool false,
   fun bs => match readBool bs with
     | .ok true r => (match a.dec r with
        | .ok v r' => .ok (some v) r'
        | .err e => .err e
        | .abort => .abort)
     | .ok false r => .ok none r
     | .err e => .err e
     | .abort => .abort,
   a.size + 1⟩

def encMany {α} (a : Codec α) (xs : List α) : Bytes := (xs.map a.enc).flatten

/-- `[T; C]`: no length prefix, `read_many(C)`. -/
def array {α} (a : Codec α) (c : Nat) : Codec (List α) :=
  ⟨encMany a, readMany a.size a.dec c, a.size * c⟩

/-- `Vec<T>`: vint64 length prefix then the elements. -/
def vec {α} (a : Codec α) : Codec (List α) :=
  ⟨fun xs => writeUsize xs.length ++ encMany a xs,
   fun bs => match readUsize bs with
     | .ok n r => readMany a.size a.dec n r
     | .err e => .err e
     | .abort => .abort,
   24⟩

/-- `String`: a `Vec<u8>` that must be valid UTF-8 (a Rust `String` *is* such a byte vector). -/
def string : Codec Bytes :=
  ⟨fun s => writeUsize s.length ++ s,
   fun bs => match readUsize bs with
     | .ok n r => (match readMany 1 readU8 n r with
        | .ok xs r' =>
          let s := xs.map UInt8.ofNat
          if utf8Valid s then .ok s r' else .err .invalid
        | .err e => .err e
        | .abort => .abort)
     | .err e => .err e
     | .abort => .abort,
   24⟩

end Codec

/-! ## Sorted containers (`BTreeSet<T>`, `BTreeMap<K,V>`) over a key projection into `Nat` -/

/-- insert `x` into a list strictly sorted by `key`, replacing an entry with an equal key
    (`BTreeMap::insert` / `BTreeSet::insert` as used by `from_iter`). -/
def sortedInsert {α} (key : α → Nat) (x : α) : List α → List α
  | [] => [x]
  | y :: ys =>
    if key x < key y then x :: y :: ys
    else if key x = key y then x :: ys
    else y :: sortedInsert key x ys

def fromIter {α} (key : α → Nat) (xs : List α) : List α :=
  xs.foldl (fun acc x => sortedInsert key x acc) []

namespace Codec
/-- `BTreeSet<T>` / `BTreeMap<K,V>` (as the sorted list of its entries). -/
def btree {α} (a : Codec α) (key : α → Nat) : Codec (List α) :=
  ⟨fun xs => writeUsize xs.length ++ encMany a xs,
   fun bs => match (vec a).dec bs with
     | .ok xs r => .ok (fromIter key xs) r
     | .err e => .err e
     | .abort => .abort,
   24⟩
end Codec

end Wf
