/-
Specification-level field arithmetic: integers modulo the documented prime, and extension
elements as coefficient lists modulo the documented irreducible polynomial.  This is what
property C10 means by "arithmetic modulo the documented prime and irreducible polynomial";
it is used as the value-level model for f62/f128 and as the reference for f64.
Core Lean only.
-/
namespace Wf.Spec

/-- a field description: prime `p`, extension degree `deg`, and `red` with
    x^deg = Σ red[i]·x^i  (coefficients already reduced mod p) -/
structure FieldSpec where
  p : Nat
  deg : Nat
  red : List Nat
  deriving Repr

def P64 : Nat := 18446744069414584321
def P62 : Nat := 4611624995532046337
def P128 : Nat := 340282366920938463463374557953744961537

/-- f64: x² = x − 2, x³ = x + 1;  f62: x² = x + 1, x³ = −2x − 2;  f128: x² = x + 1 -/
def f64 : FieldSpec := ⟨P64, 1, []⟩
def f64x2 : FieldSpec := ⟨P64, 2, [P64 - 2, 1]⟩
def f64x3 : FieldSpec := ⟨P64, 3, [1, 1, 0]⟩
def f62 : FieldSpec := ⟨P62, 1, []⟩
def f62x2 : FieldSpec := ⟨P62, 2, [1, 1]⟩
def f62x3 : FieldSpec := ⟨P62, 3, [P62 - 2, P62 - 2, 0]⟩
def f128 : FieldSpec := ⟨P128, 1, []⟩
def f128x2 : FieldSpec := ⟨P128, 2, [1, 1]⟩

abbrev Elem := List Nat   -- `deg` coefficients, constant term first

def zipAdd (p : Nat) : Elem → Elem → Elem
  | a :: as, b :: bs => (a + b) % p :: zipAdd p as bs
  | as, [] => as
  | [], bs => bs

def scale (p c : Nat) (a : Elem) : Elem := a.map (fun x => c * x % p)

def shift (k : Nat) (a : Elem) : Elem := List.replicate k 0 ++ a

/-- schoolbook product of coefficient lists -/
def polyMul (p : Nat) : Elem → Elem → Elem
  | [], _ => []
  | a :: as, b => zipAdd p (scale p a b) (shift 1 (polyMul p as b))

/-- reduce a coefficient list modulo x^deg − Σ red[i] x^i, highest coefficient first -/
def reduceTop (f : FieldSpec) (fuel : Nat) (c : Elem) : Elem :=
  match fuel with
  | 0 => c
  | fuel + 1 =>
    if c.length ≤ f.deg then c
    else
      let top := c.getLast!
      let rest := c.dropLast
      let k := rest.length - f.deg
      reduceTop f fuel (zipAdd f.p rest (shift k (scale f.p top f.red)))

def pad (n : Nat) (a : Elem) : Elem := a ++ List.replicate (n - a.length) 0

def add (f : FieldSpec) (a b : Elem) : Elem := pad f.deg (zipAdd f.p a b)
def neg (f : FieldSpec) (a : Elem) : Elem := a.map (fun x => (f.p - x % f.p) % f.p)
def sub (f : FieldSpec) (a b : Elem) : Elem := add f a (neg f b)
def mul (f : FieldSpec) (a b : Elem) : Elem :=
  if f.deg = 1 then [a.head! * b.head! % f.p]
  else pad f.deg (reduceTop f (2 * f.deg) (polyMul f.p a b))
def one (f : FieldSpec) : Elem := pad f.deg [1]
def zero (f : FieldSpec) : Elem := pad f.deg [0]
def isZero (a : Elem) : Bool := a.all (· == 0)

def pow (f : FieldSpec) (a : Elem) (n : Nat) : Elem :=
  let rec go (fuel : Nat) (r b : Elem) (n : Nat) : Elem :=
    match fuel with
    | 0 => r
    | fuel + 1 =>
      if n = 0 then r
      else go fuel (if n % 2 = 1 then mul f r b else r) (mul f b b) (n / 2)
  go 512 (one f) a n

/-- inverse with 0 ↦ 0 (Fermat: a^(p^deg − 2)) -/
def inv (f : FieldSpec) (a : Elem) : Elem :=
  if isZero a then a else pow f a (f.p ^ f.deg - 2)

/-- the p-th power map -/
def frobenius (f : FieldSpec) (a : Elem) : Elem := pow f a f.p

end Wf.Spec
