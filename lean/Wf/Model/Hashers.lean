/-
Layout model of the hashers of `crypto/src/hash` (C15, C17).

BLAKE3 and SHA3 are NOT re-implemented: the model of a byte hasher is the byte string that each
entry point feeds to the primitive `P : Bytes → Bytes` (32 output bytes) and the number of output
bytes that are kept (`blake/mod.rs`, `sha/mod.rs`, `ByteDigest::digests_as_bytes`).

For the Rescue hashers (`rescue/{rp64_256,rp64_256_jive,rp62_248}/mod.rs`) the model is the
ABSORPTION LAYOUT: the initial capacity words and the sequence of rate blocks that are absorbed
between applications of the permutation.  The permutation itself is a parameter (`Layout.eval`),
it is property C16.  Field elements are canonical values (C10 ties stored words to values).

Core Lean only.
-/
import Wf.Model.FieldCodec
namespace Wf

/-! ## byte hashers: BLAKE3-256, BLAKE3-192, SHA3-256 -/

/-- a byte hasher = the primitive (a parameter at use sites) + the number of digest bytes kept -/
structure ByteHasher where
  outLen : Nat
  deriving Repr, DecidableEq

def blake3_256 : ByteHasher := ⟨32⟩
def blake3_192 : ByteHasher := ⟨24⟩
def sha3_256 : ByteHasher := ⟨32⟩

namespace ByteHasher

/-- `hash(bytes)`: the bytes themselves -/
def preHash (bs : Bytes) : Bytes := bs
/-- `merge(&[a, b])`: `digests_as_bytes` of the two digests -/
def preMerge (a b : Bytes) : Bytes := a ++ b
/-- `merge_many(values)`: all digests one after another -/
def preMergeMany (ds : List Bytes) : Bytes := ds.flatten
/-- `merge_with_int(seed, value)`: `data[..N] = seed; data[N..] = value.to_le_bytes()` -/
def preMergeWithInt (seed : Bytes) (v : Nat) : Bytes := seed ++ leBytes 8 v
/-- `hash_elements(elements)`: canonical little-endian encodings of all coefficients of all elements
(`write_many` resp. `elements_as_bytes` when `IS_CANONICAL`) -/
def preHashElements (f : FieldParams) (es : List (List Nat)) : Bytes := (es.map f.writeExt).flatten

/-- the digest: the first `outLen` bytes of the primitive's output -/
def digest (h : ByteHasher) (P : Bytes → Bytes) (pre : Bytes) : Bytes := (P pre).take h.outLen

def hash (h : ByteHasher) (P : Bytes → Bytes) (bs : Bytes) : Bytes := h.digest P (preHash bs)
def merge (h : ByteHasher) (P : Bytes → Bytes) (a b : Bytes) : Bytes := h.digest P (preMerge a b)
def mergeMany (h : ByteHasher) (P : Bytes → Bytes) (ds : List Bytes) : Bytes := h.digest P (preMergeMany ds)
def mergeWithInt (h : ByteHasher) (P : Bytes → Bytes) (seed : Bytes) (v : Nat) : Bytes :=
  h.digest P (preMergeWithInt seed v)
def hashElements (h : ByteHasher) (P : Bytes → Bytes) (f : FieldParams) (es : List (List Nat)) : Bytes :=
  h.digest P (preHashElements f es)

/-- `Digest::as_bytes` of `ByteDigest<N>`: zero-extended to 32 bytes -/
def asBytes (d : Bytes) : Bytes := d ++ List.replicate (32 - d.length) 0

end ByteHasher

/-! ## Rescue hashers: absorption layout -/

/-- `hash(bytes)` of the three Rescue hashers: 7-byte chunks, each read as a little-endian integer;
the LAST chunk (1..7 bytes) gets a byte `1` appended (`buf[chunk_len] = 1`).  All values are below
`2^57`, hence below both moduli, so `BaseElement::new` does not reduce them.  (`fuel` = an upper
bound for the number of remaining bytes; structural recursion.) -/
def bytesToElemsF : Nat → Bytes → List Nat
  | 0, _ => []
  | f + 1, bs =>
    if bs.isEmpty then []
    else if bs.length ≤ 7 then [fromLe (bs ++ [1])]
    else fromLe (bs.take 7) :: bytesToElemsF f (bs.drop 7)

def bytesToElems (bs : Bytes) : List Nat := bytesToElemsF bs.length bs

/-- one absorption step -/
inductive Absorb where
  /-- `state[rate][i] += block[i]` for a full-width block, then the permutation.  A final partial
  block of the sponge variants (Rp64_256, Rp62_248) is such a block with zeros in the unused
  positions (nothing is added there). -/
  | add (block : List Nat)
  /-- Jive's final partial block: `rate[i] += part[i]` for `i < part.length`, then
  `rate[part.length] = 1` and `rate[j] = 0` for the remaining positions (overwritten), then the
  permutation -/
  | addPad (part : List Nat)
  deriving Repr, DecidableEq

def Absorb.data : Absorb → List Nat
  | .add b => b
  | .addPad t => t

structure Layout where
  /-- initial contents of the capacity words (the part of the state outside the rate) -/
  cap : List Nat
  ops : List Absorb
  deriving Repr, DecidableEq

structure Sponge where
  p : Nat          -- modulus
  rate : Nat       -- RATE_WIDTH
  capWidth : Nat   -- STATE_WIDTH − RATE_WIDTH
  capIdx : Nat     -- which capacity word receives the length / flag / count
  jive : Bool
  deriving Repr

open Wf.Gen.FieldConsts in
/-- Rp64_256: state 12 = capacity 0..4 (length in word 0) ++ rate 4..12 -/
def rp64 : Sponge := ⟨F64.M, 8, 4, 0, false⟩
open Wf.Gen.FieldConsts in
/-- RpJive64_256: state 8 = capacity 0..4 ++ rate 4..8 -/
def rpJive64 : Sponge := ⟨F64.M, 4, 4, 0, true⟩
open Wf.Gen.FieldConsts in
/-- Rp62_248: state 12 = rate 0..8 ++ capacity 8..12 (length in the LAST word, `state[11]`) -/
def rp62 : Sponge := ⟨F62.M, 8, 4, 3, false⟩

namespace Sponge

/-- capacity words: all zero except `BaseElement::new(v)` at `capIdx` -/
def capWords (s : Sponge) (v : Nat) : List Nat := (List.replicate s.capWidth 0).set s.capIdx (v % s.p)

/-- the absorption loop over a list of base-field elements (`fuel` ≥ number of elements) -/
def absorbOpsF (s : Sponge) : Nat → List Nat → List Absorb
  | 0, _ => []
  | f + 1, es =>
    if es.isEmpty then []
    else if es.length < s.rate then
      [if s.jive then .addPad es else .add (es ++ List.replicate (s.rate - es.length) 0)]
    else .add (es.take s.rate) :: absorbOpsF s f (es.drop s.rate)

def absorbOps (s : Sponge) (es : List Nat) : List Absorb := s.absorbOpsF es.length es

/-- value injected into the capacity: the number of elements (sponge variants) or the
"not a multiple of the rate" flag (Jive) -/
def capValue (s : Sponge) (n : Nat) : Nat := if s.jive then (if n % s.rate = 0 then 0 else 1) else n

/-- `hash_elements(elements)` on the flattened base-field coefficients -/
def elemsLayout (s : Sponge) (es : List Nat) : Layout := ⟨s.capWords (s.capValue es.length), s.absorbOps es⟩

/-- `hash(bytes)` -/
def hashLayout (s : Sponge) (bs : Bytes) : Layout := s.elemsLayout (bytesToElems bs)

/-- `merge_many(values)` = `hash_elements(digests_as_elements(values))` -/
def mergeManyLayout (s : Sponge) (ds : List (List Nat)) : Layout := s.elemsLayout ds.flatten

/-- `merge(&[a, b])`: sponge variants: rate = a ++ b, capacity word = RATE_WIDTH;
Jive: the whole state is `a ++ b` (compression mode) -/
def mergeLayout (s : Sponge) (a b : List Nat) : Layout :=
  if s.jive then ⟨a, [.add b]⟩ else ⟨s.capWords s.rate, [.add (a ++ b)]⟩

/-- the `(value mod p, value div p, count)` split of `merge_with_int` -/
def intLo (s : Sponge) (v : Nat) : Nat := v % s.p
def intHi (s : Sponge) (v : Nat) : Nat := if v < s.p then 0 else (v / s.p) % s.p
def intCount (s : Sponge) (v : Nat) : Nat := if v < s.p then 5 else 6

/-- `merge_with_int(seed, value)`: sponge variants: rate = seed ++ [lo, hi, 0, 0], capacity word =
5 or 6; Jive: state = seed ++ [lo, hi, 0, count] -/
def mergeWithIntLayout (s : Sponge) (seed : List Nat) (v : Nat) : Layout :=
  if s.jive then ⟨seed, [.add [s.intLo v, s.intHi v, 0, s.intCount v]]⟩
  else ⟨s.capWords (s.intCount v), [.add (seed ++ [s.intLo v, s.intHi v, 0, 0])]⟩

/-! ### meaning of a layout, with the permutation as a parameter -/

def addVec (s : Sponge) (a b : List Nat) : List Nat := List.zipWith (fun x y => (x + y) % s.p) a b

/-- one step on a state `(capacity words, rate words)` -/
def step (s : Sponge) (perm : List Nat × List Nat → List Nat × List Nat) (st : List Nat × List Nat) :
    Absorb → List Nat × List Nat
  | .add b => perm (st.1, s.addVec st.2 b)
  | .addPad t => perm (st.1, s.addVec (st.2.take t.length) t ++ 1 :: List.replicate (s.rate - t.length - 1) 0)

/-- the state after absorbing a layout; the digest is `rate[0..4]` (sponge variants and Jive's
`hash`/`hash_elements`/`merge_many`) or the Jive summation of initial and final state (`merge`,
`merge_with_int` of Jive) -/
def eval (s : Sponge) (perm : List Nat × List Nat → List Nat × List Nat) (l : Layout) : List Nat × List Nat :=
  l.ops.foldl (s.step perm) (l.cap, List.replicate s.rate 0)

end Sponge
end Wf
