/-
Parallel bookkeeping of the prover (C06): the work-splitting functions whose result depends on the
build (`concurrent` feature) and on `rayon::current_num_threads()`, and the per-element
computations that mix batch-local / fragment-local indexes with GLOBAL ones.

Sources (read statement by statement):
* `utils/core/src/iterators.rs`     `batch_iter_mut!` (both arms)             → `planWith`, `batchIterMut2/3`
* `prover/src/constraints/evaluation_table.rs`
    `ConstraintEvaluationTable::fragments`, `make_fragments`                  → `fragments`
    `acc_column` (transition branch: `z[i % z.len()]`, `batch_offset + i`)    → `accColumn`
    `get_inv_evaluation` (`get_ce_x_power_at(batch_offset + i, a, ..)`)       → `invEvaluation`
* `prover/src/constraints/evaluator/default.rs`
    `evaluate` (`num_fragments`), `evaluate_fragment_main/_full`
    (`step = i + fragment.offset()`, `step << lde_shift`, `get_ce_x_at(step)`) → `numFragments`, `evalFragments`
* `prover/src/constraints/evaluator/periodic_table.rs` `get_row`              → `periodicRow`
* `prover/src/domain.rs` `get_ce_x_power_at`                                  → `ceXPowerIndex`

Core Lean only (linked into `wfdriver`).  A Rust panic (failed `assert!`, division by zero,
`par_chunks_mut(0)`, index out of bounds) is `none`.  `threads` is `rayon::current_num_threads()`
(≥ 1 in every rayon pool).  The element type of the tables is a parameter: only INDEXES are
modelled, the arithmetic on the looked-up values is a parameter function (`term`, `row`).
-/
import Wf.Model.BatchUtils
namespace Wf.ParBook
open Wf.BatchUtils

/-! ### `batch_iter_mut!` -/

/-- what both arms of the macro do once `batch_size` is known: the whole slice as one batch at
offset 0 if `batch_size < min_batch_size`, otherwise
`par_chunks_mut(batch_size).enumerate()` → `(i * batch_size, chunk length)`;
`par_chunks_mut(0)` panics. -/
def planWith (batchSize len minBatch : Nat) : Option (List (Nat × Nat)) :=
  if batchSize < minBatch then some [(0, len)]
  else if batchSize = 0 then none
  else some ((List.range ((len + batchSize - 1) / batchSize)).map
    (fun i => (i * batchSize, min batchSize (len - i * batchSize))))

/-- `let batch_size = $e.len() / rayon_num_threads().next_power_of_two();` -/
def batchSize (len threads : Nat) : Nat := len / Nat.nextPowerOfTwo threads

/-- three-argument arm `batch_iter_mut!(e, min_batch_size, c)`, `concurrent` build -/
def batchIterMut3 (len threads minBatch : Nat) : Option (List (Nat × Nat)) :=
  planWith (batchSize len threads) len minBatch

/-- two-argument arm `batch_iter_mut!(e, c)`: the test is `batch_size < 1` -/
def batchIterMut2 (len threads : Nat) : Option (List (Nat × Nat)) :=
  planWith (batchSize len threads) len 1

/-- `#[cfg(not(feature = "concurrent"))] $c($e, 0);` -/
def batchIterSerial (len : Nat) : List (Nat × Nat) := [(0, len)]

/-- the plan of either build (`concurrent = false`: the thread count is not even read) -/
def batchPlan (concurrent : Bool) (len threads minBatch : Nat) : Option (List (Nat × Nat)) :=
  if concurrent then batchIterMut3 len threads minBatch else some (batchIterSerial len)

/-- NOT the source: the macro with `len / threads` in place of `len / threads.next_power_of_two()`
(the seeded defect the C06 theorems are about); only used in counterexample lemmas.  Division by
zero for `threads = 0`. -/
def planNoRounding (len threads minBatch : Nat) : Option (List (Nat × Nat)) :=
  if threads = 0 then none else planWith (len / threads) len minBatch

/-- index `g` of the slice is handed to the closure in batch `b = (offset, length)` -/
def InBatch (b : Nat × Nat) (g : Nat) : Prop := b.1 ≤ g ∧ g < b.1 + b.2

instance (b : Nat × Nat) (g : Nat) : Decidable (InBatch b g) := by unfold InBatch; infer_instance

/-! ### closures run by the macro -/

/-- a closure that uses only `batch_offset + i` (e.g. `get_inv_evaluation`, `get_power_series`):
element `i` of batch `(off, n)` becomes `f (off + i)`; the written slice, batch after batch -/
def runGlobal {α} (f : Nat → α) (plan : List (Nat × Nat)) : List α :=
  plan.flatMap (fun b => (List.range b.2).map (fun i => f (b.1 + i)))

/-- `acc_column`, transition branch (`!divisor.exemptions().is_empty()`): in batch `(off, n)`
element `i` becomes
`result[off+i] + column[off+i].mul_base(z[i % z.len()] * e(domain.get_ce_x_at(off + i)))`
= `term (off + i) (i % zLen)`: the column / domain point are addressed with the GLOBAL index, the
divisor inverse with the batch-LOCAL one.  `i % 0` is a division by zero. -/
def accColumn {α} (term : Nat → Nat → α) (zLen : Nat) (plan : List (Nat × Nat)) : Option (List α) :=
  if zLen = 0 then none
  else some (plan.flatMap (fun b => (List.range b.2).map (fun i => term (b.1 + i) (i % zLen))))

/-- the serial build of the same function: one batch at offset 0 -/
def accColumnSerial {α} (term : Nat → Nat → α) (zLen len : Nat) : Option (List α) :=
  accColumn term zLen (batchIterSerial len)

/-- `acc_column` as called by `combine()` in the `concurrent` build: `result.len()` = constraint
evaluation domain size, `batch_iter_mut!(result, 128, ..)` -/
def accColumnPar {α} (term : Nat → Nat → α) (zLen len threads : Nat) : Option (List α) :=
  match batchIterMut3 len threads 128 with
  | none => none
  | some plan => accColumn term zLen plan

/-- `StarkDomain::get_ce_x_power_at(step, power, _)`: index into `ce_domain`
(`step.wrapping_mul(power) & (ce_domain_size - 1)`, `ce_domain_size` a power of two; products
below 2^64) -/
def ceXPowerIndex (ceSize step power : Nat) : Nat := (step * power) % ceSize

/-- `get_inv_evaluation`: `n = ce_domain_size / a` evaluations, `batch_iter_mut!(.., 128, ..)` with
`get_ce_x_power_at(batch_offset + i, a, ..)`; the domain indexes that are read, in slice order -/
def invEvaluation (ceSize a threads : Nat) : Option (List Nat) :=
  if a = 0 then none
  else match batchIterMut3 (ceSize / a) threads 128 with
    | none => none
    | some plan => some (runGlobal (fun g => ceXPowerIndex ceSize g a) plan)

/-! ### `ConstraintEvaluationTable::fragments` -/

/-- `const MIN_FRAGMENT_SIZE: usize = 16;` -/
def minFragmentSize : Nat := 16

/-- `fragments(num_fragments)` on a table of `numRows` rows (at least one column: the transition
divisor's): `fragment_size = num_rows / num_fragments` (division by zero), the assertion
`fragment_size >= MIN_FRAGMENT_SIZE`, then `make_fragments`: every column is cut by
`chunks_mut(fragment_size)` and chunk `i` is pushed to `result[i]`, `result` having
`num_fragments` entries (index out of bounds when there are more chunks); fragment `i` gets
`offset = i * fragment_size` and its number of rows is the length of its chunk.
Answer: `(offset, rows)` per fragment. -/
def fragments (numRows numFragments : Nat) : Option (List (Nat × Nat)) :=
  if numFragments = 0 then none
  else if numRows / numFragments < minFragmentSize then none
  else if numFragments < (numRows + numRows / numFragments - 1) / (numRows / numFragments) then none
  else some ((List.range numFragments).map (fun i =>
    (i * (numRows / numFragments), min (numRows / numFragments) (numRows - i * (numRows / numFragments)))))

/-- `const MIN_CONCURRENT_DOMAIN_SIZE: usize = 8192;` -/
def minConcurrentDomainSize : Nat := 8192

/-- `evaluate`: `num_fragments` (`1` without the `concurrent` feature) -/
def numFragments (concurrent : Bool) (ceSize threads : Nat) : Nat :=
  if concurrent && decide (minConcurrentDomainSize ≤ ceSize) then Nat.nextPowerOfTwo threads else 1

/-- the fragments `evaluate` works on -/
def evaluateFragments (concurrent : Bool) (ceSize threads : Nat) : Option (List (Nat × Nat)) :=
  fragments ceSize (numFragments concurrent ceSize threads)

/-! ### per-row computations of the fragment evaluator -/

/-- `PeriodicValueTable::get_row(ce_step)`: indexes of `values` that make up the row; an empty
table (`width == 0`) gives the empty row; `% self.length` with `length = 0` would divide by zero -/
def periodicRow (tableLen width ceStep : Nat) : Option (List Nat) :=
  if width = 0 then some []
  else if tableLen = 0 then none
  else some ((List.range width).map (fun j => (ceStep % tableLen) * width + j))

/-- everything `evaluate_fragment_main/_full` look up for one row, as indexes: the LDE row of the
trace frame (`step << lde_shift`), the constraint-evaluation-domain point (`get_ce_x_at(step)`),
the periodic row (`get_row(step)`) -/
structure RowIdx where
  ldeStep : Nat
  ceIndex : Nat
  periodic : Option (List Nat)
deriving DecidableEq, Repr

def rowIdx (ldeShift tableLen width step : Nat) : RowIdx :=
  { ldeStep := step <<< ldeShift, ceIndex := step, periodic := periodicRow tableLen width step }

/-- `for i in 0..fragment.num_rows() { let step = i + fragment.offset(); .. update_row(i, ..) }` for
every fragment; `row step` is the row computed at global step `step`; result = the table, fragment
after fragment -/
def evalFragments {α} (row : Nat → α) (frags : List (Nat × Nat)) : List α :=
  frags.flatMap (fun f => (List.range f.2).map (fun i => row (i + f.1)))

/-- NOT the source: the loop with the fragment-LOCAL index `i` passed on instead of `step`
(the second seeded defect); only used in counterexample lemmas -/
def evalFragmentsLocal {α} (row : Nat → α) (frags : List (Nat × Nat)) : List α :=
  frags.flatMap (fun f => (List.range f.2).map (fun i => row i))

/-- the whole evaluation loop of `evaluate` on the index level -/
def evaluateRows (concurrent : Bool) (ceSize threads ldeShift tableLen width : Nat) :
    Option (List RowIdx) :=
  (evaluateFragments concurrent ceSize threads).map (evalFragments (rowIdx ldeShift tableLen width))

end Wf.ParBook
