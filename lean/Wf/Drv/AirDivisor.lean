/- Line protocol for the C23 family (transition divisor, declared degrees, composition columns,
periodic columns); request syntax: see harness/src/c23.rs. -/
import Wf.Model.AirDivisor
import Wf.Model.FieldCodec
import Wf.Drv.Fields
import Wf.Drv.Util
namespace Wf.Drv.C23
open Wf Wf.Drv Wf.AirDivisor

/-- a base field by name: its limb-level instance and its C11 parameters -/
def withBaseField {α : Type} (name : String) (bad : α)
    (k : {F : Type} → VField F → FieldParams → α) : α :=
  match name with
  | "f64" => k f64Field paramsF64
  | "f62" => k f62Field paramsF62
  | "f128" => k f128Field paramsF128
  | _ => bad

def dashList (xs : List String) : String := if xs.isEmpty then "-" else ",".intercalate xs

def canonStr {F} (v : VField F) (x : F) : String := toString ((v.toCanon x).headD 0)

/-- `B::get_root_of_unity(size.ilog2())` (`none` = the field's assertion on the order fails) -/
def domainGenerator {F} (v : VField F) (fp : FieldParams) (size : Nat) : Option F :=
  (fp.rootOfUnity size.log2).map fun r => v.ofCanon [r]

/-- `interpolate_poly` by its specification, over the subgroup of the list's size.  The powers of
`omega⁻¹` asked for by `idft` are tabulated once (memoisation of the pure function `exp`; same
values, fewer multiplications). -/
def interpFor {F} (v : VField F) (fp : FieldParams) (values : List F) : List F :=
  match domainGenerator v fp values.length with
  | some omega =>
    let len := values.length
    let omegaInv := expVartime v.ops omega (len - 1)
    let table : Array F := ((List.range len).foldl (fun (acc : Array F × F) _ =>
      (acc.1.push acc.2, v.ops.mul acc.2 omegaInv)) (#[], v.ops.one)).1
    let exp (x : F) (k : Nat) : F :=
      if k < len && v.ops.beq x omegaInv then table.getD k v.ops.zero else expVartime v.ops x k
    idft v.ops exp omega values
  | none => values

def showDivisorAt {F} (v : VField F) (d : Divisor F) (xs : List Nat) : String :=
  let vals := xs.map fun x =>
    let x := v.ofCanon [x]
    s!"{canonStr v (d.evalExemptions v.ops x)}:{canonStr v (d.evaluateAt v.ops v.exp x)}"
  s!"deg={d.degree} ex={dashList (d.exemptions.map (canonStr v))} vals={",".intercalate vals}"

def tdiv {F} (v : VField F) (fp : FieldParams) (n e : Nat) (xs : List Nat) : String :=
  match domainGenerator v fp n with
  | none => "abort"
  | some g =>
    match fromTransition v.ops v.exp g n e with
    | none => "abort"
    | some d => showDivisorAt v d xs

/-- `new(base)` when there are no cycles, `with_cycles(base, cycles)` otherwise (as the harness) -/
def mkDegree (base : Nat) (cycles : List Nat) : Option TcDegree :=
  if cycles.isEmpty then TcDegree.new base else TcDegree.withCycles base cycles

def parseDegree (s : String) : Option (Nat × List Nat) :=
  match s.splitOn ":" with
  | [b, cs] => do pure ((← b.toNat?), (← parseNatList cs))
  | _ => none

def ctxAnswer (n blowup : Nat) (e : Option Nat) (ds : List (Nat × List Nat)) : String :=
  match ds.mapM fun (b, cs) => mkDegree b cs with
  | none => "abort other"
  | some degrees =>
    match Ctx.new n degrees blowup with
    | none => if degrees.isEmpty then "abort nodeg" else "abort blowup"
    | some c =>
      let r : Except ExemptErr Ctx := match e with
        | none => .ok c
        | some e => c.setNumTransitionExemptions e
      match r with
      | .error .zero => "abort zero"
      | .error .halfTrace => "abort half"
      | .error .degree => "abort degree"
      | .ok c =>
        -- the divisor's degree does not depend on the field
        let divdeg := match fromTransition (natOps 2) (fun _ _ => 0) 0 n c.exemptions with
          | some d => toString d.degree
          | none => "abort"
        s!"ok ce={c.ceBlowup} ex={c.exemptions} cols={c.numConstraintCompositionColumns} divdeg={divdeg}"

def perAnswer {F} (v : VField F) (fp : FieldParams) (n : Nat) (values steps : List Nat) : String :=
  let vals := values.map fun x => v.ofCanon [x]
  match periodicPoly (interpFor v fp) vals n, domainGenerator v fp n with
  | some poly, some g =>
    let out := steps.map fun s => canonStr v (periodicEvalAt v.ops (expVartime v.ops) poly n (v.exp g s))
    s!"poly={dashList (poly.map (canonStr v))} vals={dashList out}"
  | _, _ => "abort"

end Wf.Drv.C23

open Wf Wf.AirDivisor Wf.Drv.C23 in
def Wf.Drv.handleAirDivisor : List String → String
  | ["tdiv", f, n, e, xs] =>
    match n.toNat?, e.toNat?, parseNatList xs with
    | some n, some e, some xs => withBaseField f "bad-op" fun v fp => tdiv v fp n e xs
    | _, _, _ => "bad-op"
  | ["deg", b, cs, n] =>
    match b.toNat?, parseNatList cs, n.toNat? with
    | some b, some cs, some n =>
      (match mkDegree b cs with
       | some d => s!"eval={d.getEvaluationDegree n} blowup={d.minBlowupFactor}"
       | none => "abort")
    | _, _, _ => "bad-op"
  | ["ctx", n, blowup, e, ds] =>
    let e? : Option (Option Nat) := if e == "-" then some none else e.toNat?.map some
    let ds? := if ds == "-" then some [] else (ds.splitOn ";").mapM parseDegree
    match n.toNat?, blowup.toNat?, e?, ds? with
    | some n, some blowup, some e, some ds => ctxAnswer n blowup e ds
    | _, _, _, _ => "bad-op"
  | ["per", f, n, vs, steps] =>
    match n.toNat?, parseNatList vs, parseNatList steps with
    | some n, some vs, some steps => withBaseField f "bad-op" fun v fp => perAnswer v fp n vs steps
    | _, _, _ => "bad-op"
  | _ => "bad-op"

