/-
Line protocol for the C15 / C17 families (hasher layouts).  Requests (after the key `c15`):

  h   <byte hasher> <item> [route]   → `<preimage hex> <digest length> ok`
  l   <rescue hasher> <item>         → `cap=.. ops=.. ok`
  cls <hasher> <item> <item> ...     → equality classes of the items' layouts (`0 1 0 2 ..`)

item := hash=<hex> | merge=<d>/<d> | mm=<d>,<d>,.. | mwi=<d>/<int> | elems=[<field>/]<e>,<e>,..
        (byte hashers: digest = hex, `elems` carries the field; Rescue: digest = `a:b:c:d`,
        elements are base-field values); element = coefficients joined by `:`; `-` = empty.
The trailing ` ok` is the constant verdict the harness must reproduce (real digest = primitive /
permutation applied to the layout).
-/
import Wf.Model.Hashers
import Wf.Drv.Util
namespace Wf.Drv.Hsh
open Wf

def parseElems (s : String) : Option (List (List Nat)) :=
  if s == "-" then some [] else (s.splitOn ",").mapM (fun e => (e.splitOn ":").mapM String.toNat?)

def parseHexList (s : String) : Option (List Bytes) :=
  if s == "-" then some [] else (s.splitOn ",").mapM parseHex

def fieldOf : String → Option FieldParams
  | "f64" | "f64x2" | "f64x3" => some paramsF64
  | "f62" | "f62x2" | "f62x3" => some paramsF62
  | "f128" | "f128x2" => some paramsF128
  | _ => none

def byteHasherOf : String → Option ByteHasher
  | "blake3_256" => some blake3_256
  | "blake3_192" => some blake3_192
  | "sha3_256" => some sha3_256
  | _ => none

def spongeOf : String → Option Sponge
  | "rp64_256" => some rp64
  | "rpjive64_256" => some rpJive64
  | "rp62_248" => some rp62
  | _ => none

/-- the preimage of an item for a byte hasher -/
def bytePre (item : String) : Option Bytes :=
  match item.splitOn "=" with
  | ["hash", a] => (parseHex a).map ByteHasher.preHash
  | ["merge", a] => match a.splitOn "/" with
    | [x, y] => do pure (ByteHasher.preMerge (← parseHex x) (← parseHex y))
    | _ => none
  | ["mm", a] => (parseHexList a).map ByteHasher.preMergeMany
  | ["mwi", a] => match a.splitOn "/" with
    | [x, v] => do pure (ByteHasher.preMergeWithInt (← parseHex x) (← v.toNat?))
    | _ => none
  | ["elems", a] => match a.splitOn "/" with
    | [f, es] => do pure (ByteHasher.preHashElements (← fieldOf f) (← parseElems es))
    | _ => none
  | _ => none

/-- the absorption layout of an item for a Rescue hasher -/
def rescueLayout (s : Sponge) (item : String) : Option Layout :=
  match item.splitOn "=" with
  | ["hash", a] => (parseHex a).map s.hashLayout
  | ["merge", a] => match a.splitOn "/" with
    | [x, y] => do
      let xs ← parseElems x
      let ys ← parseElems y
      pure (s.mergeLayout xs.flatten ys.flatten)
    | _ => none
  | ["mm", a] => (parseElems a).map s.mergeManyLayout
  | ["mwi", a] => match a.splitOn "/" with
    | [x, v] => do pure (s.mergeWithIntLayout (← parseElems x).flatten (← v.toNat?))
    | _ => none
  | ["elems", a] => (parseElems a).map (fun es => s.elemsLayout es.flatten)
  | _ => none

def natsStr (xs : List Nat) : String := if xs.isEmpty then "-" else ",".intercalate (xs.map toString)

def layoutStr (l : Layout) : String :=
  let op : Absorb → String
    | .add b => "a:" ++ natsStr b
    | .addPad t => "p:" ++ natsStr t
  s!"cap={natsStr l.cap} ops={if l.ops.isEmpty then "-" else "|".intercalate (l.ops.map op)}"

/-- class index of every item: the position of the first equal predecessor -/
def classes {α} [BEq α] (xs : List α) : List Nat :=
  let rec go (seen : List α) (reps : List Nat) (next : Nat) : List α → List Nat
    | [] => []
    | x :: rest =>
      match (seen.zip reps).find? (fun p => p.1 == x) with
      | some (_, r) => r :: go seen reps next rest
      | none => next :: go (seen ++ [x]) (reps ++ [next]) (next + 1) rest
  go [] [] 0 xs

def classesStr {α} [BEq α] (xs : List α) : String := " ".intercalate ((classes xs).map toString)

def handle : List String → String
  | "h" :: hn :: item :: _ =>
    match byteHasherOf hn, bytePre item with
    | some h, some pre => s!"{toHex pre} {h.outLen} ok"
    | _, _ => "bad-op"
  | ["l", hn, item] =>
    match spongeOf hn with
    | some s => (match rescueLayout s item with
      | some l => layoutStr l ++ " ok"
      | none => "bad-op")
    | none => "bad-op"
  | "cls" :: hn :: items =>
    match byteHasherOf hn, spongeOf hn with
    | some _, _ => (match items.mapM bytePre with
      | some pres => classesStr pres
      | none => "bad-op")
    | none, some s => (match items.mapM (rescueLayout s) with
      | some ls => classesStr ls
      | none => "bad-op")
    | none, none => "bad-op"
  | _ => "bad-op"

end Wf.Drv.Hsh

def Wf.Drv.handleHashers : List String → String := Wf.Drv.Hsh.handle
