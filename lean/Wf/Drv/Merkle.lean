/- Line protocol for the C18/C19 families (Merkle trees, openings, batch proofs).

Every request starts with `c18`.  Tokens: digest = hex number (`Nat < 2^256`, little-endian value of
the 32 digest bytes); digest list = `d,d,..` or `-`; proof nodes = vectors joined by `;`, the empty
vector is `.`, no vectors is `-`; indexes = decimal `i,i,..` or `-`; leaf spec = `s:<seed>:<count>`
(seeded test leaves) or `x:<digest list>`; `<h>` = `t` (test hasher: digests are printed) or `b`
(the implementation runs Blake3_256, the model its test hasher; only verdicts are printed).

  build <h> <leaves>                   -> `ok <root = recursive hash> [<root> <checksum nodes>]` | `err-..`
  rawbuild <leaves>                    -> `ok <nodes>` | `abort`          (`build_merkle_nodes`)
  prove <h> <leaves> <index>           -> `ok <verify verdict> [<leaf> <proof>]` | `err-oob`
  batch <h> <leaves> <indexes>         -> `ok <get_root = root> <verify_batch> <from_single_proofs = prove_batch>
                                           <into_openings = proves> [<root> <cs leaves> <depth> <cs nodes>]` | `err-..`
  smut <h> <leaves> <index> <mut>      -> verdict of `verify` after one substitution
  bmut <h> <leaves> <indexes> <mut>    -> `<get_root> <verify_batch> <into_openings>` after one mutation
                                          (`addnode:i` / `addnodes:i:k`: 1 / k digests appended to vector i;
                                           `movenode:i:j`: last digest of vector j dropped, one appended to i;
                                           `addleaf` / `addleaves:k`: surplus leaves; `addpair:v`: index v and a leaf appended)
  xverify <root> <index> <leaf> <proof>
  xbatch <root> <depth> <nodes> <indexes> <leaves>  -> `<get_root> <verify_batch> <into_openings>`
  xfsp <openings> <indexes>            -> `ok:<depth>:<nodes>` | `abort`
  xdec <bytes> <indexes> <leaves>      -> `decerr` | `<depth>:<nodes> <get_root> <into_openings>` -/
import Wf.Model.Merkle
import Wf.Drv.Util
namespace Wf.Drv
open Wf Wf.Merkle

def natHex (n : Nat) : String := String.ofList (Nat.toDigits 16 n)

def parseHexNat (s : String) : Option Nat :=
  if s.isEmpty then none else
  s.toList.foldlM (fun acc c => (hexDigit c).map (acc * 16 + ·)) 0

def parseDList (s : String) : Option (List Nat) :=
  if s == "-" then some [] else (s.splitOn ",").mapM parseHexNat

def dlistStr (l : List Nat) : String :=
  if l.isEmpty then "-" else ",".intercalate (l.map natHex)

def parseVec (s : String) : Option (List Nat) :=
  if s == "." then some [] else (s.splitOn ",").mapM parseHexNat

def parseNodes (s : String) : Option (List (List Nat)) :=
  if s == "-" then some [] else (s.splitOn ";").mapM parseVec

def nodesStr (ns : List (List Nat)) : String :=
  if ns.isEmpty then "-" else
  ";".intercalate (ns.map fun v => if v.isEmpty then "." else ",".intercalate (v.map natHex))

def parseLeaves (s : String) : Option (List Nat) :=
  match s.splitOn ":" with
  | ["s", seed, count] => do
    let seed ← seed.toNat?; let count ← count.toNat?
    pure ((List.range count).map (toyLeaf seed))
  | ["x", l] => parseDList l
  | _ => none

def mErrStr : MErr → String
  | .tooFewLeaves => "err-toofewleaves"
  | .notPow2 => "err-notpow2"
  | .oob => "err-oob"
  | .dup => "err-dup"
  | .tooFewIdx => "err-toofew"
  | .invalid => "err-invalid"

def resStr {α} (f : α → String) : Res α → String
  | .ok a => f a
  | .err e => mErrStr e
  | .abort => "abort"

def csList (h : Nat) (l : List Nat) : Nat := l.foldl toyMerge (toyMerge h l.length)
def csNodes (ns : List (List Nat)) : Nat := ns.foldl csList (toyMerge 0 ns.length)
def csOpenings (os : List (Nat × List Nat)) : Nat :=
  os.foldl (fun h o => csList (toyMerge h o.1) o.2) (toyMerge 0 os.length)

def boolStr' (b : Bool) : String := if b then "true" else "false"

/-- a digest different from `d` made by the hasher itself (`merge(d, d)`) -/
def fresh (d : Nat) : Nat := toyMerge d d

def setAt {α} (l : List α) (i : Nat) (f : α → α) : Option (List α) :=
  if i < l.length then some (l.modify i f) else none

def dropAt {α} (l : List α) (i : Nat) : Option (List α) :=
  if i < l.length then some (l.eraseIdx i) else none

def swapAt {α} (l : List α) (i j : Nat) : Option (List α) :=
  match l[i]?, l[j]? with
  | some a, some b => some ((l.set i b).set j a)
  | _, _ => none

/-- structural mutation of (indexes, leaves, proof) -/
def applyBMut (m : String) (idx : List Nat) (lv : List Nat) (p : BatchProof Nat) :
    Option (List Nat × List Nat × BatchProof Nat) :=
  match m.splitOn ":" with
  | ["none"] => some (idx, lv, p)
  | ["leaf", pos] => do
    let pos ← pos.toNat?; let lv ← setAt lv pos fresh; pure (idx, lv, p)
  | ["node", i, j] => do
    let i ← i.toNat?; let j ← j.toNat?
    let v ← p.nodes[i]?; let v' ← setAt v j fresh
    pure (idx, lv, { p with nodes := p.nodes.set i v' })
  | ["idx", pos, new] => do
    let pos ← pos.toNat?; let new ← new.toNat?
    let idx ← setAt idx pos (fun _ => new); pure (idx, lv, p)
  | ["dropnode", i, j] => do
    let i ← i.toNat?; let j ← j.toNat?
    let v ← p.nodes[i]?; let v' ← dropAt v j
    pure (idx, lv, { p with nodes := p.nodes.set i v' })
  | ["addnode", i] => do
    let i ← i.toNat?
    let ns ← setAt p.nodes i (fun v => v ++ [fresh (v.headD 7)])
    pure (idx, lv, { p with nodes := ns })
  | ["addnodes", i, k] => do
    let i ← i.toNat?; let k ← k.toNat?
    let ns ← setAt p.nodes i (fun v =>
      v ++ ((List.range k).foldl (fun (acc : List Nat × Nat) _ => (acc.1 ++ [acc.2], fresh acc.2))
        ([], fresh (v.headD 7))).1)
    pure (idx, lv, { p with nodes := ns })
  | ["movenode", i, j] => do
    let i ← i.toNat?; let j ← j.toNat?
    let vi ← p.nodes[i]?
    let vj ← p.nodes[j]?
    if vj.isEmpty then none
    let ns1 ← setAt p.nodes j (fun v => v.dropLast)
    let ns2 ← setAt ns1 i (fun v => v ++ [fresh (vi.headD 7)])
    pure (idx, lv, { p with nodes := ns2 })
  | ["dropvec", i] => do
    let i ← i.toNat?; let ns ← dropAt p.nodes i; pure (idx, lv, { p with nodes := ns })
  | ["addvec"] => some (idx, lv, { p with nodes := p.nodes ++ [[]] })
  | ["depth", d] => do
    let d ← d.toNat?; pure (idx, lv, { p with depth := d })
  | ["dropleaf", pos] => do
    let pos ← pos.toNat?; let lv ← dropAt lv pos; pure (idx, lv, p)
  | ["addleaf"] => some (idx, lv ++ [fresh (lv.headD 7)], p)
  | ["addleaves", k] => do
    let k ← k.toNat?
    pure (idx, lv ++ ((List.range k).foldl
      (fun (acc : List Nat × Nat) _ => (acc.1 ++ [acc.2], fresh acc.2)) ([], fresh (lv.headD 7))).1, p)
  | ["addpair", v] => do
    let v ← v.toNat?; pure (idx ++ [v], lv ++ [fresh (lv.headD 7)], p)
  | ["swapleaf", a, b] => do
    let a ← a.toNat?; let b ← b.toNat?; let lv ← swapAt lv a b; pure (idx, lv, p)
  | ["dropidx", pos] => do
    let pos ← pos.toNat?; let idx ← dropAt idx pos; pure (idx, lv, p)
  | ["addidx", v] => do
    let v ← v.toNat?; pure (idx ++ [v], lv, p)
  | _ => none

def unitStr : Res Unit → String := resStr fun _ => "ok"

/-- `<get_root> <verify_batch> <into_openings>` for explicit data -/
def batchVerdicts (showDigests : Bool) (root : Nat) (p : BatchProof Nat) (idx lv : List Nat) :
    String :=
  let gr := p.getRoot toyMerge idx lv
  let grS := resStr (fun r => if showDigests then "ok:" ++ natHex r
                              else if r = root then "ok-same" else "ok-diff") gr
  let vb := unitStr (verifyBatch toyMerge root idx lv p)
  let io := resStr (fun os => if showDigests then "ok:" ++ natHex (csOpenings os)
                              else s!"ok:{os.length}") (p.intoOpenings toyMerge lv idx)
  s!"{grS} {vb} {io}"

def parseOpening (s : String) : Option (Nat × List Nat) :=
  match s.splitOn "/" with
  | [l, p] => do let l ← parseHexNat l; let p ← parseVec p; pure (l, p)
  | _ => none

def parseOpenings (s : String) : Option (List (Nat × List Nat)) :=
  if s == "-" then some [] else (s.splitOn ";").mapM parseOpening

/-- largest index list for which the expensive cross checks (single proofs) are made -/
def crossLimit : Nat := 256

def handleMerkle : List String → String
  | ["build", h, ls] =>
    match parseLeaves ls with
    | none => "bad-op"
    | some lv =>
      match Tree.new toyMerge lv with
      | .err e => mErrStr e
      | .abort => "abort"
      | .ok t =>
        match t.root with
        | .ok r =>
          let m := boolStr' (rootRec toyMerge lv.length.log2 lv == some r)
          if h == "t" then s!"ok {m} {natHex r} {natHex (t.nodes.foldl toyMerge 0)}" else s!"ok {m}"
        | _ => "abort"
  | ["rawbuild", ls] =>
    match parseLeaves ls with
    | none => "bad-op"
    | some lv => resStr (fun n => "ok " ++ dlistStr n) (buildNodes toyMerge lv)
  | ["prove", h, ls, i] =>
    match parseLeaves ls, i.toNat? with
    | some lv, some i =>
      match Tree.new toyMerge lv with
      | .ok t =>
        match t.root, t.prove i with
        | .ok r, .ok (leaf, proof) =>
          let v := unitStr (verify toyMerge r i leaf proof)
          if h == "t" then s!"ok {v} {natHex leaf} {dlistStr proof}" else s!"ok {v}"
        | _, .err e => mErrStr e
        | _, _ => "abort"
      | _ => "bad-tree"
    | _, _ => "bad-op"
  | ["batch", h, ls, idx] =>
    match parseLeaves ls, parseNatList idx with
    | some lv, some idx =>
      match Tree.new toyMerge lv with
      | .ok t =>
        match t.root, t.proveBatch idx with
        | .ok r, .ok (bl, p) =>
          let gr := boolStr' (p.getRoot toyMerge idx bl == .ok r)
          let vb := unitStr (verifyBatch toyMerge r idx bl p)
          let cross := idx.length ≤ crossLimit
          let singles := if cross then mapRes t.prove idx else .ok []
          let fsp := if cross then
              (match singles with
               | .ok os => boolStr' (fromSingleProofs os idx == .ok p)
               | _ => "abort") else "-"
          let io := if cross then
              (match singles with
               | .ok os => boolStr' (p.intoOpenings toyMerge bl idx == .ok os)
               | _ => "abort") else "-"
          if h == "t" then
            s!"ok {gr} {vb} {fsp} {io} {natHex r} {natHex (csList 0 bl)} {p.depth} {natHex (csNodes p.nodes)}"
          else s!"ok {gr} {vb} {fsp} {io}"
        | _, .err e => mErrStr e
        | _, _ => "abort"
      | _ => "bad-tree"
    | _, _ => "bad-op"
  | ["smut", _h, ls, i, m] =>
    match parseLeaves ls, i.toNat? with
    | some lv, some i =>
      match Tree.new toyMerge lv with
      | .ok t =>
        match t.root, t.prove i with
        | .ok r, .ok (leaf, proof) =>
          match m.splitOn ":" with
          | ["none"] => unitStr (verify toyMerge r i leaf proof)
          | ["leaf"] => unitStr (verify toyMerge r i (fresh leaf) proof)
          | ["node", j] =>
            match j.toNat?.bind (setAt proof · fresh) with
            | some proof' => unitStr (verify toyMerge r i leaf proof')
            | none => "bad-mut"
          | ["idx", new] =>
            match new.toNat? with
            | some new => unitStr (verify toyMerge r new leaf proof)
            | none => "bad-mut"
          | _ => "bad-mut"
        | _, _ => "bad-tree"
      | _ => "bad-tree"
    | _, _ => "bad-op"
  | ["bmut", _h, ls, idx, m] =>
    match parseLeaves ls, parseNatList idx with
    | some lv, some idx =>
      match Tree.new toyMerge lv with
      | .ok t =>
        match t.root, t.proveBatch idx with
        | .ok r, .ok (bl, p) =>
          match applyBMut m idx bl p with
          | some (idx', bl', p') => batchVerdicts false r p' idx' bl'
          | none => "bad-mut"
        | _, _ => "bad-tree"
      | _ => "bad-tree"
    | _, _ => "bad-op"
  | ["xverify", r, i, leaf, proof] =>
    match parseHexNat r, i.toNat?, parseHexNat leaf, parseDList proof with
    | some r, some i, some leaf, some proof => unitStr (verify toyMerge r i leaf proof)
    | _, _, _, _ => "bad-op"
  | ["xbatch", r, d, ns, idx, lv] =>
    match parseHexNat r, d.toNat?, parseNodes ns, parseNatList idx, parseDList lv with
    | some r, some d, some ns, some idx, some lv => batchVerdicts true r ⟨ns, d⟩ idx lv
    | _, _, _, _, _ => "bad-op"
  | ["xfsp", os, idx] =>
    match parseOpenings os, parseNatList idx with
    | some os, some idx =>
      resStr (fun p => s!"ok:{p.depth}:{nodesStr p.nodes}") (fromSingleProofs os idx)
    | _, _ => "bad-op"
  | ["xdec", bytes, idx, lv] =>
    match parseHex bytes, parseNatList idx, parseDList lv with
    | some bytes, some idx, some lv =>
      match BatchProof.decode bytes with
      | .ok p _ =>
        let gr := resStr (fun r => "ok:" ++ natHex r) (p.getRoot toyMerge idx lv)
        let io := resStr (fun os => "ok:" ++ natHex (csOpenings os)) (p.intoOpenings toyMerge lv idx)
        s!"{p.depth}:{nodesStr p.nodes} {gr} {io}"
      | .err _ => "decerr"
      | .abort => "abort"
    | _, _, _ => "bad-op"
  | _ => "bad-op"

end Wf.Drv
