/- Line protocol for C29: `c29` (the `validate` model, first failure) and `c29t` (trace tables). -/
import Wf.Model.TraceTable
import Wf.Drv.AirDesc
namespace Wf.Drv
open Wf.AirDesc Wf.TraceTable

/-- `c29 <field> <hasher> <desc> <n> <init> <overrides> <claimed perturbation a:i:v|-> <options>`
    → `ok` | `reject main_trace(<col>,<step>)` | `reject transition <idx> <step>` | `inconsistent-desc`
    (the description is not of the form the C01/C02 theorems assume): the verdict of the
    model of `Trace::validate` on the (possibly corrupted) generated trace; the site is where the
    Rust code panics first. -/
def handleValidate : List String → String
  | [fld, _hasher, desc, n, init, ovs, pert, _opts] =>
    match fieldPrime fld, parseDesc desc, n.toNat?, parseNats init "/", parseOverrides ovs with
    | some p, some d, some n, some init, some ovs =>
      let claimed0 := d.asserts.map (·.values)
      let claimed := match (splitDash pert ":").mapM String.toNat? with
        | some [a, i, v] => claimed0.mapIdx (fun j vs => if j = a then vs.mapIdx (fun k x => if k = i then v else x) else vs)
        | _ => claimed0
      -- the hypothesis `Consistent` of the C01/C02 theorems is CHECKED on every generated
      -- instance (`consistentB_sound`); an instance outside the family is reported, not hidden
      if !consistentB d then "inconsistent-desc" else
      match validate p d (buildTrace p d n init ovs) n claimed with
      | .ok => "ok"
      | .assertFail c s => s!"reject main_trace({c},{s})"
      | .transFail i s => s!"reject transition {i} {s}"
    | _, _, _, _, _ => "bad-op"
  | _ => "bad-op"

/-- Σ ((row·131 + col·7 + 1) mod p)·cell mod p over a column-major table -/
def tableChecksum (p : Nat) (t : Table) (n width : Nat) : Nat :=
  (List.range n).foldl (fun s r =>
    (List.range width).foldl (fun s c => (s + ((r * 131 + c * 7 + 1) % p) * (get t c r % p)) % p) s) 0

def pow2sUpTo (n : Nat) : List Nat :=
  ((List.range 64).map (fun k => 2 ^ (k + 1))).filter (· ≤ n)

/-- `c29t <field> <desc> <n> <init>` → `equal <checksum>` | `DIFF ..`: the table models built by
    `fill`, `init` (from the columns of `genRows`) and `fillFragments` for every power-of-two
    fragment length, all starting from a junk-filled ("uninitialised") table -/
def handleTable : List String → String
  | [fld, desc, n, init] =>
    match fieldPrime fld, parseDesc desc, n.toNat?, parseNats init "/" with
    | some p, some d, some n, some init =>
      let init := init.map (· % p)
      let w := d.width
      let junk : Table := List.replicate w (List.replicate n 7)
      let upd := nextRow p d
      let rows := genRows p d n 0 init
      let a := fill junk n init upd
      let b := TraceTable.init (columnsOf w rows)
      if a != b then "DIFF init" else
      match (pow2sUpTo n).find? (fun len =>
        fillFragments upd (fun i => rows.getD (i * len) []) len (n / len) 0 junk != a) with
      | some len => s!"DIFF fragments({len})"
      | none => s!"equal {tableChecksum p a n w}"
    | _, _, _, _ => "bad-op"
  | _ => "bad-op"

end Wf.Drv
