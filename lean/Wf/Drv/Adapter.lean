/- Line protocol for the C27 family (streaming reader vs in-memory reader). -/
import Wf.Model.Adapter
import Wf.Drv.Util
namespace Wf.Drv

/-- ops: `p` peek, `b` read_u8, `s<n>` read_slice, `a<n>` read_array, `e<n>` check_eor, `h` has_more,
    composite (trait-default methods over the primitives): `B` read_bool, `z` read_usize,
    `u<n>` read_u{8n} little-endian integer -/
inductive AOp where
  | prim (op : ROp)
  | bool
  | usize
  | uint (n : Nat)

def parseAOp (s : String) : Option AOp :=
  match s.toList with
  | ['p'] => some (.prim .peek)
  | ['b'] => some (.prim .readU8)
  | ['h'] => some (.prim .hasMore)
  | ['B'] => some .bool
  | ['z'] => some .usize
  | 's' :: ds => (String.ofList ds).toNat?.map (fun n => .prim (.readSlice n))
  | 'a' :: ds => (String.ofList ds).toNat?.map (fun n => .prim (.readArray n))
  | 'e' :: ds => (String.ofList ds).toNat?.map (fun n => .prim (.checkEor n))
  | 'u' :: ds => (String.ofList ds).toNat?.map (fun n => .uint n)
  | _ => none

def showResp : RResp → String
  | .byte b => s!"b{b}"
  | .bytes bs => "x" ++ toHex bs
  | .flag true => "t"
  | .flag false => "f"
  | .eof => "eof"
  | .abort => "abort"

/-- a reader = a state and a primitive step function; the composite operations below are the
    trait's provided methods, written once over that interface (as in the Rust trait). -/
structure Rd (σ : Type) where
  st : σ
  step : σ → ROp → σ × RResp

def Rd.run {σ} (r : Rd σ) (op : ROp) : Rd σ × RResp :=
  let (s', resp) := r.step r.st op
  ({ r with st := s' }, resp)

def runAOp {σ} (r : Rd σ) : AOp → Rd σ × String
  | .prim op => let (r', resp) := r.run op; (r', showResp resp)
  | .bool =>
    match r.run .readU8 with
    | (r', .byte 0) => (r', "f")
    | (r', .byte 1) => (r', "t")
    | (r', .byte _) => (r', "invalid")
    | (r', resp) => (r', showResp resp)
  | .uint n =>
    match r.run (.readArray n) with
    | (r', .bytes bs) => (r', s!"n{fromLe bs}")
    | (r', resp) => (r', showResp resp)
  | .usize =>
    match r.run .peek with
    | (r1, .byte first) =>
      let length := tz8 first + 1
      if length = 9 then
        match r1.run .readU8 with
        | (r2, .byte _) =>
          match r2.run (.readArray 8) with
          | (r3, .bytes bs) => (r3, s!"n{fromLe bs}")
          | (r3, resp) => (r3, showResp resp)
        | (r2, resp) => (r2, showResp resp)
      else
        match r1.run (.readSlice length) with
        | (r2, .bytes bs) => (r2, s!"n{fromLe bs / 2 ^ length}")
        | (r2, resp) => (r2, showResp resp)
    | (r1, resp) => (r1, showResp resp)

def runAOps {σ} : Rd σ → List AOp → List String
  | _, [] => []
  | r, op :: ops => let (r', s) := runAOp r op; s :: runAOps r' ops

/-- split chunks longer than 256 bytes (what `BufReader` does) and drop empty ones -/
partial def normChunk (c : Bytes) : List Bytes :=
  if c.isEmpty then [] else if c.length ≤ 256 then [c] else c.take 256 :: normChunk (c.drop 256)

def cutChunks : Bytes → List Nat → List Bytes
  | _, [] => []
  | bs, n :: ns => bs.take n :: cutChunks (bs.drop n) ns

/-- requests: `adapter <hex content> <chunk sizes, comma separated> <ops separated by ;>`
    (bytes not covered by the chunk list are never delivered), `slice <hex> <ops>` -/
def handleAdapter : List String → String
  | ["adapter", h, cs, ops] =>
    match parseHex h, parseNatList cs, (ops.splitOn ";").mapM parseAOp with
    | some bs, some sizes, some aops =>
      let chunks := (cutChunks bs sizes).flatMap normChunk
      let rd : Rd Adapter := ⟨Adapter.init chunks, adapterStep⟩
      "|".intercalate (runAOps rd aops)
    | _, _, _ => "bad-op"
  | ["slice", h, ops] =>
    match parseHex h, (ops.splitOn ";").mapM parseAOp with
    | some bs, some aops =>
      let rd : Rd Bytes := ⟨bs, sliceStep⟩
      "|".intercalate (runAOps rd aops)
    | _, _ => "bad-op"
  | _ => "bad-op"

end Wf.Drv
