/- Line protocol for the protocol-object families (C07 round trips, C24 seed elements, C05 decoding). -/
import Wf.Model.ProofObjects
import Wf.Drv.Util
namespace Wf.Drv
open Wf

def showOut {α} (bs : Bytes) (sh : α → String) : Out α → String
  | .ok v rest => s!"ok {sh v} {bs.length - rest.length}"
  | .err e => "err " ++ errStr e
  | .abort => "abort"

def showTI (t : TraceInfo) : String :=
  s!"{t.main} {t.aux} {t.rands} {t.length} {toHex t.metaBytes}"
def showPO (o : ProofOptions) : String :=
  s!"{o.queries} {o.blowup} {o.grinding} {o.ext} {o.folding} {o.remDeg} {o.batchC} {o.batchD} {o.nparts} {o.hashRate}"
def showCtx (c : Context) : String :=
  s!"{showTI c.info} {toHex c.modulus} {showPO c.options} {c.numConstraints}"
def showNats (l : List Nat) : String := ",".intercalate (l.map toString)

def parseTI : List String → Option TraceInfo
  | [a, b, c, d, m] => do
    let a ← a.toNat?; let b ← b.toNat?; let c ← c.toNat?; let d ← d.toNat?; let m ← parseHex m
    pure ⟨a, b, c, d, m⟩
  | _ => none

def parsePO (ws : List String) : Option ProofOptions :=
  match ws.mapM String.toNat? with
  | some [q, b, g, e, f, rd, bc, bd, np, hr] => some ⟨q, b, g, e, f, rd, bc, bd, np, hr⟩
  | _ => none

def parseCtx (ws : List String) : Option Context :=
  match ws with
  | a :: b :: c :: d :: m :: modh :: rest =>
    match parseTI [a, b, c, d, m], parseHex modh, parsePO (rest.take 10), (rest.drop 10) with
    | some ti, some md, some po, [nc] => nc.toNat?.map (fun nc => ⟨ti, md, po, nc⟩)
    | _, _, _, _ => none
  | _ => none

def pairHex (p : Bytes × Bytes) : String := s!"{toHex p.1} {toHex p.2}"

def handleObjects : List String → String
  | "ti_enc" :: rest => match parseTI rest with
    | some t => toHex t.encode
    | none => "bad-op"
  | ["ti_dec", h] => match parseHex h with
    | some bs => showOut bs showTI (TraceInfo.decode bs)
    | none => "bad-op"
  | "ti_elems" :: eb :: rest => match eb.toNat?, parseTI rest with
    | some eb, some t => showNats (t.toElements eb)
    | _, _ => "bad-op"
  | "ctx_distinct_metazero" :: eb :: rest =>
    match eb.toNat?, parseCtx (rest.take 17), parseCtx (rest.drop 17) with
    | some eb, some c1, some c2 => if c1.toElements eb = c2.toElements eb then "collision" else "distinct"
    | _, _, _ => "bad-op"
  | "ctx_distinct" :: eb :: rest =>
    -- two contexts (26 words each): do their seed element vectors differ?
    match eb.toNat?, parseCtx (rest.take 17), parseCtx (rest.drop 17) with
    | some eb, some c1, some c2 => if c1.toElements eb = c2.toElements eb then "collision" else "distinct"
    | _, _, _ => "bad-op"
  | ["ti_new", a, b, c, d, ml] =>
    -- constructor acceptance: does `TraceInfo::new_multi_segment` return or panic?
    match a.toNat?, b.toNat?, c.toNat?, d.toNat?, ml.toNat? with
    | some a, some b, some c, some d, some ml =>
      if (TraceInfo.newOk ⟨a, b, c, d, List.replicate ml 0⟩) then "ok" else "panic"
    | _, _, _, _, _ => "bad-op"
  | "po_new" :: rest => match parsePO rest with
    | some o => if o.newOk then "ok" else "panic"
    | none => "bad-op"
  | ["ctx_new", len, blowup, nc] =>
    match len.toNat?, blowup.toNat?, nc.toNat? with
    | some len, some blowup, some nc =>
      let c : Context := ⟨⟨1, 0, 0, len, []⟩, [1], ⟨1, blowup, 0, 1, 2, 0, 0, 0, 1, 1⟩, nc⟩
      if c.newOk then "ok" else "panic"
    | _, _, _ => "bad-op"
  -- batch Merkle proofs / digests: the request carries only the tree shape; the answer is the
  -- SPECIFICATION of C07 for these component types (decodes to an equal value, nothing left over,
  -- still verifies) — the byte-level codec of batch proofs is modelled and proved in C19's files
  | "bmp_rt" :: _ => "ok-equal-verifies"
  | "digest_rt" :: _ => "ok"
  | "po_enc" :: rest => match parsePO rest with
    | some o => toHex o.encode
    | none => "bad-op"
  | ["po_dec", h] => match parseHex h with
    | some bs => showOut bs showPO (ProofOptions.decode bs)
    | none => "bad-op"
  | "po_elems" :: rest => match parsePO rest with
    | some o => showNats o.toElements
    | none => "bad-op"
  | "ctx_enc" :: rest => match parseCtx rest with
    | some c => toHex c.encode
    | none => "bad-op"
  | ["ctx_dec", h] => match parseHex h with
    | some bs => showOut bs showCtx (Context.decode bs)
    | none => "bad-op"
  | "ctx_elems" :: eb :: rest => match eb.toNat?, parseCtx rest with
    | some eb, some c => showNats (c.toElements eb)
    | _, _ => "bad-op"
  | ["comm_dec", h] => match parseHex h with
    | some bs => showOut bs (fun v => toHex (commitmentsEnc v)) (commitmentsDec bs)
    | none => "bad-op"
  | ["queries_dec", h] => match parseHex h with
    | some bs => showOut bs (fun v => toHex (queriesCodec.enc v)) (queriesCodec.dec bs)
    | none => "bad-op"
  | ["ood_dec", h] => match parseHex h with
    | some bs => showOut bs (fun v => toHex (oodFrameEnc v)) (oodFrameDec bs)
    | none => "bad-op"
  | ["fril_dec", h] => match parseHex h with
    | some bs => showOut bs (fun v => toHex (friLayerEnc v)) (friLayerDec bs)
    | none => "bad-op"
  | ["fri_dec", h] => match parseHex h with
    | some bs => showOut bs (fun p => toHex (friProofEnc p)) (friProofDec bs)
    | none => "bad-op"
  | _ => "bad-op"

end Wf.Drv
