/-
Line protocol for the C16 family (Rescue-Prime hashers).  Requests (after the key `c16`):

  perm  <hasher> <ref|code> <v0,v1,..>        → `o0,o1,..`   permutation on canonical values
  permw <hasher> <w0,w1,..>                   → `o0,o1,..`   `apply_permutation` on stored words
                                                             (f64 hashers: Montgomery words in and out)
  roundw <hasher> <round> <w0,w1,..>          → `o0,o1,..`   `apply_round` on stored words
  dg    <hasher> <ref|code> <item>            → `a:b:c:d`    digest of an entry point

hasher := rp64_256 | rpjive64_256 | rp62_248; item as in `Wf/Drv/Hashers.lean`
(hash=<hex> | merge=<d>/<d> | mm=<d>,.. | mwi=<d>/<int> | elems=<e>,..; digest = `a:b:c:d`).
`ref` evaluates the reference round function over integers mod p, `code` the translated kernels.
-/
import Wf.Model.Rescue
import Wf.Drv.Hashers
namespace Wf.Drv.Rsc
open Wf Wf.Rescue Wf.Drv.Hsh

def hasherOf (hn mode : String) : Option Hasher :=
  match hn, mode with
  | "rp64_256", "ref" => some (rp64H rp64Ref)
  | "rp64_256", "code" => some (rp64H rp64CodeV)
  | "rpjive64_256", "ref" => some (jiveH jiveRef)
  | "rpjive64_256", "code" => some (jiveH jiveCodeV)
  | "rp62_248", "ref" => some (rp62H rp62Ref)
  | "rp62_248", "code" => some (rp62H rp62CodeV)
  | _, _ => none

def colon (xs : List Nat) : String := ":".intercalate (xs.map toString)

def digestOf (h : Hasher) (item : String) : Option (List Nat) :=
  match item.splitOn "=" with
  | ["hash", a] => (parseHex a).map h.hash
  | ["merge", a] => match a.splitOn "/" with
    | [x, y] => do pure (h.merge (← parseElems x).flatten (← parseElems y).flatten)
    | _ => none
  | ["mm", a] => (parseElems a).map h.mergeMany
  | ["mwi", a] => match a.splitOn "/" with
    | [x, v] => do pure (h.mergeWithInt (← parseElems x).flatten (← v.toNat?))
    | _ => none
  | ["elems", a] => (parseElems a).map (fun es => h.hashElements es.flatten)
  | _ => none

def wordsOf (s : String) : Option (List W) := (parseNatList s).map (·.map (BitVec.ofNat 64))
def wordsStr (ws : List W) : String := natsStr (ws.map BitVec.toNat)

def handle : List String → String
  | ["perm", hn, mode, vs] =>
    match hasherOf hn mode, parseNatList vs with
    | some h, some st => natsStr (h.perm st)
    | _, _ => "bad-op"
  | ["permw", hn, ws] =>
    match wordsOf ws with
    | some st => (match hn with
      | "rp64_256" => wordsStr (rp64Code st)
      | "rpjive64_256" => wordsStr (jiveCode st)
      | _ => "bad-op")
    | none => "bad-op"
  | ["roundw", hn, r, ws] =>
    match wordsOf ws, r.toNat? with
    | some st, some i => (match hn with
      | "rp64_256" => wordsStr (codeRound F64.baseOps rp64Params (Wf.Gen.F64.exp7 F64.baseOps)
          (Wf.Gen.RescueChains.rp64InvSbox F64.baseOps) mds12 st i)
      | "rpjive64_256" => wordsStr (codeRound F64.baseOps jiveParams (Wf.Gen.F64.exp7 F64.baseOps)
          (Wf.Gen.RescueChains.jiveInvSbox F64.baseOps) mds8 st i)
      | _ => "bad-op")
    | _, _ => "bad-op"
  | ["dg", hn, mode, item] =>
    match hasherOf hn mode with
    | some h => (match digestOf h item with
      | some d => colon d
      | none => "bad-op")
    | none => "bad-op"
  | _ => "bad-op"

end Wf.Drv.Rsc

def Wf.Drv.handleRescue : List String → String := Wf.Drv.Rsc.handle
