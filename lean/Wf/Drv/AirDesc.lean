/- Line protocol for the protocol-level families (C01/C02/C29): the ideal verdict. -/
import Wf.Model.AirDesc
import Wf.Model.PrimeSpec
import Wf.Drv.Util
namespace Wf.Drv
open Wf.AirDesc

def splitDash (s : String) (sep : String) : List String := if s == "-" then [] else s.splitOn sep

partial def parseExToks : List String → Option (Ex × List String)
  | [] => none
  | t :: rest =>
    match t.toList with
    | ['+'] => do let (a, r) ← parseExToks rest; let (b, r) ← parseExToks r; pure (.add a b, r)
    | ['-'] => do let (a, r) ← parseExToks rest; let (b, r) ← parseExToks r; pure (.sub a b, r)
    | ['*'] => do let (a, r) ← parseExToks rest; let (b, r) ← parseExToks r; pure (.mul a b, r)
    | c :: ds =>
      match (String.ofList ds).toNat? with
      | none => none
      | some v =>
        match c with
        | 'c' => some (.cur v, rest) | 'n' => some (.next v, rest) | 'p' => some (.per v, rest)
        | 'k' => some (.k v, rest) | 'a' => some (.acur v, rest) | 'b' => some (.anext v, rest)
        | 'r' => some (.rnd v, rest) | _ => none
    | [] => none

def parseEx (s : String) : Option Ex :=
  match parseExToks (s.splitOn ",") with
  | some (e, []) => some e
  | _ => none

def parseNats (s : String) (sep : String) : Option (List Nat) := (splitDash s sep).mapM String.toNat?

def parseTrans (s : String) : Option Trans :=
  match s.splitOn "@" with
  | [e, d, c] => do
    let e ← parseEx e; let d ← d.toNat?; let c ← parseNats c "/"
    pure ⟨e, d, c⟩
  | _ => none

def parseAssert (s : String) : Option Assert :=
  match s.splitOn ":" with
  | [k, c, f, st, vs] => do
    let k ← k.toNat?; let c ← c.toNat?; let f ← f.toNat?; let st ← st.toNat?; let vs ← parseNats vs "/"
    pure ⟨k, c, f, st, vs⟩
  | _ => none

def parseDesc (s : String) : Option Desc :=
  match s.splitOn ";" with
  | [w, aw, nr, ex, per, tr, atr, gen, agen, ainit, as, aas] => do
    let w ← w.toNat?; let aw ← aw.toNat?; let nr ← nr.toNat?; let ex ← ex.toNat?
    let per ← (splitDash per "|").mapM (fun c => parseNats c "/")
    let tr ← (splitDash tr "|").mapM parseTrans
    let atr ← (splitDash atr "|").mapM parseTrans
    let gen ← (splitDash gen "|").mapM parseEx
    let agen ← (splitDash agen "|").mapM parseEx
    let ainit ← parseNats ainit "/"
    let as ← (splitDash as "|").mapM parseAssert
    let aas ← (splitDash aas "|").mapM parseAssert
    pure ⟨w, aw, nr, ex, per, tr, atr, gen, agen, ainit, as, aas⟩
  | _ => none

def parseOverrides (s : String) : Option (List (Nat × Nat × Nat)) :=
  (splitDash s "/").mapM (fun o => match (o.splitOn ":").mapM String.toNat? with
    | some [r, c, v] => some (r, c, v)
    | _ => none)

def fieldPrime (f : String) : Option Nat :=
  match f with
  | "f64" => some Spec.P64 | "f62" => some Spec.P62 | "f128" => some Spec.P128 | _ => none

/-- `c01 <field> <hasher> <desc> <n> <init> <overrides> <claimed perturbation a:i:v|-> <options>`
    → `ok` iff the (possibly corrupted) trace satisfies the AIR with the (possibly perturbed) claimed
    assertion values; the hasher and the proof options do not influence the ideal verdict. -/
def parseAuxCorruption (s : String) : Option AuxCorruption :=
  match s.splitOn ":" with
  | [r, c, dl] => do
    let c ← c.toNat?; let dl ← dl.toNat?
    if r == "shift" then pure ⟨none, c, dl⟩ else do let r ← r.toNat?; pure ⟨some r, c, dl⟩
  | _ => none

def handleIdeal8 (fld desc n init ovs pert : String) (aux : Option AuxCorruption) : String :=
  match fieldPrime fld, parseDesc desc, n.toNat?, parseNats init "/", parseOverrides ovs with
  | some p, some d, some n, some init, some ovs =>
    let claimed0 := d.asserts.map (·.values)
    let claimed := match (splitDash pert ":").mapM String.toNat? with
      | some [a, i, v] => claimed0.mapIdx (fun j vs => if j = a then vs.mapIdx (fun k x => if k = i then v else x) else vs)
      | _ => claimed0
    if idealVerdictAux p d n init ovs claimed aux then "ok" else "reject"
  | _, _, _, _, _ => "bad-op"

def handleIdeal : List String → String
  | [fld, _hasher, desc, n, init, ovs, pert, _opts, aux] =>
    -- ninth word: corruption of the prover's auxiliary segment
    match parseAuxCorruption aux with
    | some c => handleIdeal8 fld desc n init ovs pert (some c)
    | none => "bad-op"
  | [fld, _hasher, desc, n, init, ovs, pert, _opts] => handleIdeal8 fld desc n init ovs pert none
  | _ => "bad-op"

end Wf.Drv
