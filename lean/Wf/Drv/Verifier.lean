/- Line protocol for the `vfy` family: the whole-verifier model against the real `verify`.

  vfy [<class>] <desc> <pub inputs> <acceptable options> <proof hex>
      class     optional name of the mutation class (ignored by the model; known-finding keys use it)
      desc      the AIR description (same syntax as the c01 family, lean/Wf/Drv/AirDesc.lean)
      pub       claimed assertion values: lists separated by `|`, values by `/` (`_` = empty list,
                `-` = no lists)
      options   set:<o>;<o>..  with <o> = q,b,g,e,f,rd,bc,bd,np,hr   (AcceptableOptions::OptionSet)
                | conj:<bits> | proven:<bits>
  answer: ok | err <VerifierError variant>[:detail] | PANIC <source file of the panic> | unmodelled

The hasher is the TEST hasher `VH` of harness/src/vmodel.rs (folds of a splitmix64 step over 64-bit words,
re-implemented here word for word); base field f64 with its quadratic and cubic extensions. -/
import Wf.Model.Verifier
import Wf.Drv.AirDesc
namespace Wf.Drv.Vfy
open Wf Wf.Verifier

/-! ### the test hasher -/

/-- one absorption step: the splitmix64 finalizer of `(h ^ w) + golden ratio` -/
@[inline] def step (h w : UInt64) : UInt64 :=
  let z := (h ^^^ w) + 0x9E3779B97F4A7C15
  let z := (z ^^^ (z >>> 30)) * 0xBF58476D1CE4E5B9
  let z := (z ^^^ (z >>> 27)) * 0x94D049BB133111EB
  z ^^^ (z >>> 31)

def iv : UInt64 := 0xcbf29ce484222325

def wordOf (d : Nat) (k : Nat) : UInt64 := UInt64.ofNat (d >>> (64 * k))

def absorbDigest (h : UInt64) (d : Nat) : UInt64 :=
  step (step (step (step h (wordOf d 0)) (wordOf d 1)) (wordOf d 2)) (wordOf d 3)

/-- four output words from the final state -/
def finish (h : UInt64) : Nat :=
  let a := step h 0xa5
  let b := step a 1
  let c := step b 2
  let d := step c 3
  a.toNat + (b.toNat <<< 64) + (c.toNat <<< 128) + (d.toNat <<< 192)

def vhHashElements (vs : List Nat) : Nat :=
  finish (step (vs.foldl (fun h v => step h (UInt64.ofNat v)) (step iv 4)) (UInt64.ofNat vs.length))

def vhMerge (a b : Nat) : Nat := finish (absorbDigest (absorbDigest (step iv 1) a) b)

def vhMergeMany (ds : List Nat) : Nat :=
  finish (step (ds.foldl absorbDigest (step iv 2)) (UInt64.ofNat ds.length))

def vhMergeWithInt (s v : Nat) : Nat := finish (step (absorbDigest (step iv 3) s) (UInt64.ofNat v))

def vh : HashParams :=
  { hashElements := vhHashElements, merge := vhMerge, mergeMany := vhMergeMany,
    mergeWithInt := vhMergeWithInt, collisionResistance := 128 }

/-! ### request parsing -/

def parsePub (s : String) : Option PubInputs :=
  if s == "-" then some []
  else (s.splitOn "|").mapM fun l => if l == "_" then some [] else (l.splitOn "/").mapM String.toNat?

def parseOpts (s : String) : Option ProofOptions :=
  match (s.splitOn ",").mapM String.toNat? with
  | some [q, b, g, e, f, rd, bc, bd, np, hr] => some ⟨q, b, g, e, f, rd, bc, bd, np, hr⟩
  | _ => none

def parseAcceptable (s : String) : Option Security.Acceptable :=
  match s.splitOn ":" with
  | ["set", os] => ((os.splitOn ";").mapM parseOpts).map .optionSet
  | ["conj", b] => b.toNat?.map .minConjectured
  | ["proven", b] => b.toNat?.map .minProven
  | _ => none

/-! ### answers -/

def deserClass : DeserSite → String
  | .lde => "lde"
  | .queries => "queries"
  | .nq0 => "nq0"
  | .mainQueries => "main-queries"
  | .auxQueries => "aux-queries"
  | .constraintQueries => "constraint-queries"
  | .friRemainder => "fri-remainder"
  | .friLayer => "fri-layer"
  | .friLayerDomain => "fri-layer-domain"
  | .friCount => "fri-count"
  | .commitments | .ood | .friRemainderUnconsumed => "other"

def friStr : Fri.VerifierError → String
  | .degreeTruncation a b c => s!"DegreeTruncation({a},{b},{c})"
  | .remainderDegreeMismatch a => s!"RemainderDegreeMismatch({a})"
  | .invalidLayerFolding d => s!"InvalidLayerFolding({d})"
  | .invalidRemainderFolding => "InvalidRemainderFolding"
  | .remainderCommitmentMismatch => "RemainderCommitmentMismatch"
  | .layerCommitmentMismatch => "LayerCommitmentMismatch"
  | .numPositionEvaluationMismatch a b => s!"NumPositionEvaluationMismatch({a},{b})"
  | .unsupportedFoldingFactor f => s!"UnsupportedFoldingFactor({f})"
  | .proofLayerCountMismatch _ _ => "ProofLayerCountMismatch"

def abortFile : AbortSite → String
  | .seed => "/repo/math/src/field/traits.rs"
  | .airNew => "/repo/air/src/air/context.rs"
  | .periodic => "/repo/air/src/air/mod.rs"
  | .boundary => "/repo/air/src/air/boundary/mod.rs"
  | .drawIntegers => "/repo/crypto/src/random/default.rs"
  | .security => "/repo/air/src/proof/security.rs"
  | .fri => "model:fri"
  | .merkle => "model:merkle"
  | .root => "model:root"
  | .table => "model:table"
  | .transition => "model:transition"

def answer : R Unit → String
  | .ok _ => "ok"
  | .error e =>
    match e with
    | .fromBytes => "err ProofFromBytes"
    | .inconsistentBaseField => "err InconsistentBaseField"
    | .unsupportedFieldExtension d => s!"err UnsupportedFieldExtension({d})"
    | .deser s => "err ProofDeserializationError:" ++ deserClass s
    | .randomCoin => "err RandomCoinError"
    | .inconsistentOod => "err InconsistentOodConstraintEvaluations"
    | .traceQuery => "err TraceQueryDoesNotMatchCommitment"
    | .constraintQuery => "err ConstraintQueryDoesNotMatchCommitment"
    | .pow => "err QuerySeedProofOfWorkVerificationFailed"
    | .fri f => "err FriVerificationFailed:" ++ friStr f
    | .friCoin => "err FriVerificationFailed:RandomCoinError"
    | .insufficientConjectured a b => s!"err InsufficientConjecturedSecurity({a},{b})"
    | .insufficientProven a b => s!"err InsufficientProvenSecurity({a},{b})"
    | .unacceptableOptions => "err UnacceptableProofOptions"
    | .abort s => "PANIC " ++ abortFile s
    | .unmodelled => "unmodelled"

def handle1 : List String → String
  | [desc, pub, acc, hex] =>
    match parseDesc desc, parsePub pub, parseAcceptable acc, parseHex hex with
    | some d, some pub, some acc, some bytes => answer (verifyModel vh f64Fields d pub acc bytes)
    | _, _, _, _ => "bad-op"
  | _ => "bad-op"

/-- an optional first word names the mutation class (`vfy <class> <desc> ..`); the model ignores it -/
def handle : List String → String
  | [_cls, desc, pub, acc, hex] => handle1 [desc, pub, acc, hex]
  | ws => handle1 ws

end Wf.Drv.Vfy

def Wf.Drv.handleVerifier : List String → String := Wf.Drv.Vfy.handle
