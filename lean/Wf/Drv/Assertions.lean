/- Line protocol for the C21 family (assertions: step sets, validation, overlap detection).

An assertion is written as the constructor call that produces it:
`s:<col>:<step>:<v>` | `p:<col>:<first>:<stride>:<v>` | `q:<col>:<first>:<stride>:<v1,v2,..|->`. -/
import Wf.Model.Assertions
import Wf.Drv.Util
namespace Wf.Drv
open Wf Wf.Assertion

def ctorErrStr : CtorErr → String
  | .strideNotPowerOfTwo => "stride-pow2"
  | .strideTooSmall => "stride-min"
  | .firstStepTooBig => "first-step"
  | .noValues => "no-values"
  | .valuesNotPowerOfTwo => "values-pow2"

def assertionErrStr : AssertionError → String
  | .traceWidthTooShort e a => s!"err width {e} {a}"
  | .traceLengthNotPowerOfTwo a => s!"err notpow2 {a}"
  | .traceLengthTooShort e a => s!"err tooshort {e} {a}"
  | .traceLengthNotExact e a => s!"err notexact {e} {a}"

def parseAssertion (s : String) : Option (Except CtorErr Assertion) :=
  match s.splitOn ":" with
  | ["s", c, st, v] => do
    let c ← c.toNat?; let st ← st.toNat?; let v ← v.toNat?
    pure (.ok (single c st v))
  | ["p", c, f, st, v] => do
    let c ← c.toNat?; let f ← f.toNat?; let st ← st.toNat?; let v ← v.toNat?
    pure (periodic c f st v)
  | ["q", c, f, st, vs] => do
    let c ← c.toNat?; let f ← f.toNat?; let st ← st.toNat?; let vs ← parseNatList vs
    pure (sequence c f st vs)
  | _ => none

def parseValid (s : String) : Option Assertion :=
  match parseAssertion s with
  | some (.ok a) => some a
  | _ => none

def boolStr (b : Bool) : String := if b then "true" else "false"

/-- columns of the sorted assertions, grouped by (stride, first step) as `group_constraints` does -/
def groupCols : List Assertion → List (List Nat)
  | [] => []
  | a :: rest =>
    match groupCols rest with
    | [] => [[a.column]]
    | g :: gs =>
      match rest with
      | b :: _ => if a.stride == b.stride && a.firstStep == b.firstStep then (a.column :: g) :: gs
                  else [a.column] :: g :: gs
      | [] => [[a.column]]

def handleAssertions : List String → String
  | ["new", a] =>
    match parseAssertion a with
    | some (.ok a) => s!"ok {a.column} {a.firstStep} {a.stride} {a.values.length}"
    | some (.error e) => "abort " ++ ctorErrStr e
    | none => "bad-op"
  | ["vlen", a, t] =>
    match parseValid a, t.toNat? with
    | some a, some t => (match a.validateTraceLength t with
      | .ok () => "ok"
      | .error e => assertionErrStr e)
    | _, _ => "bad-op"
  | ["vwidth", a, w] =>
    match parseValid a, w.toNat? with
    | some a, some w => (match a.validateTraceWidth w with
      | .ok () => "ok"
      | .error e => assertionErrStr e)
    | _, _ => "bad-op"
  | ["steps", a, t] =>
    match parseValid a, t.toNat? with
    | some a, some t => (match a.getNumSteps t, a.apply t with
      | some k, some l => s!"{k} {",".intercalate (l.map fun (s, v) => s!"{s}:{v}")}"
      | none, none => "abort"
      | _, _ => "inconsistent")
    | _, _ => "bad-op"
  | ["pair", _n, a, b] =>   -- `_n`: the trace length both are valid for (used by the oracle only)
    match parseValid a, parseValid b with
    | some a, some b => s!"{boolStr (a.overlapsWith b)} {boolStr (b.overlapsWith a)}"
    | _, _ => "bad-op"
  | "prep" :: w :: t :: as =>
    match w.toNat?, t.toNat?, as.mapM parseValid with
    | some w, some t, some as => (match prepareAssertions as w t with
      | .ok r => "ok " ++ ";".intercalate ((groupCols r).map fun g => ",".intercalate (g.map toString))
      | .error (.invalid _) => "abort invalid"
      | .error .overlap => "abort overlap")
    | _, _, _ => "bad-op"
  | _ => "bad-op"

end Wf.Drv
