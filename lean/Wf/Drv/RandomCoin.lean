/-
Line protocol for the C20 family (random coin).  Requests (after the key `c20`):

  <hasher> <field> <seed elements> <op> <op> ...
  hasher := toy0 | toy1 | toy2   – the test hasher below, re-implemented identically in
                                   harness/src/c20.rs (`DefaultRandomCoin<Toy<B, MODE>>` runs the real
                                   coin code); the model answers with the complete outputs
          | blake3_256           – the model cannot compute digests: it answers with the SHAPE of the
                                   outputs (how many integers, ok/abort/err) and the constant verdicts
                                   the harness must reproduce (two instances agree, ranges, zero count,
                                   reseed sensitivity)
  op := r:<hex digest> | d:<degree> | i:<n>:<domain>:<nonce> | z:<value>

The toy hasher (driver only; nothing is proved about it): four 64-bit words updated by wrapping
multiply-add steps per input byte, then the length and four zero bytes; entry points are separated
by a leading tag byte.  Mode 1: `merge_with_int` returns 32 bytes 0xff (every draw is rejected);
mode 2: it returns 32 zero bytes.
-/
import Wf.Model.RandomCoin
import Wf.Drv.Util
namespace Wf.Drv.Rc
open Wf

def w64 : Nat := 18446744073709551616

def toyAbsorb (st : Nat × Nat × Nat × Nat) (x : Nat) : Nat × Nat × Nat × Nat :=
  let (a, b, c, d) := st
  let a := (a * 6364136223846793005 + x + 1) % w64
  let b := ((b + a) % w64 * 1442695040888963407 + a / 2 ^ 29) % w64
  let c := ((c + b) % w64 * 3935559000370003845 + b / 2 ^ 31) % w64
  let d := ((d + c) % w64 * 2685821657736338717 + c / 2 ^ 30) % w64
  (b, c, d, a)

def toy (bs : Bytes) : Bytes :=
  let st0 : Nat × Nat × Nat × Nat :=
    (0x243F6A8885A308D3, 0x13198A2E03707344, 0xA4093822299F31D0, 0x082EFA98EC4E6C89)
  let st := bs.foldl (fun s b => toyAbsorb s b.toNat) st0
  let st := (leBytes 8 bs.length).foldl (fun s b => toyAbsorb s b.toNat) st
  let st := [0, 0, 0, 0].foldl toyAbsorb st
  let (a, b, c, d) := st
  leBytes 8 a ++ leBytes 8 b ++ leBytes 8 c ++ leBytes 8 d

def toyHasher (mode : Nat) (f : FieldParams) : CoinHasher Bytes where
  hashElements := fun vs => toy (4 :: (vs.map f.write).flatten)
  merge := fun a b => toy (1 :: (a ++ b))
  mergeWithInt := fun s v =>
    if mode = 1 then List.replicate 32 255
    else if mode = 2 then List.replicate 32 0
    else toy (3 :: (s ++ leBytes 8 v))
  asBytes := fun d => d

def parseOp (s : String) : Option (Coin.Op Bytes) :=
  match s.splitOn ":" with
  | ["r", h] => (parseHex h).map .reseed
  | ["d", k] => k.toNat?.map .draw
  | ["i", n, d, x] => do pure (.ints (← n.toNat?) (← d.toNat?) (← x.toNat?))
  | ["z", v] => v.toNat?.map .lz
  | _ => none

def natsColon (xs : List Nat) : String := ":".intercalate (xs.map toString)

def resStr : Coin.Res → String
  | .unit => "r"
  | .elem (some e) => "e=" ++ natsColon e
  | .elem none => "e=err"
  | .ints (.ok vs) => "i=" ++ (if vs.isEmpty then "-" else ",".intercalate (vs.map toString))
  | .ints (.err a b) => s!"i=err:{a}:{b}"
  | .ints .abort => "i=abort"
  | .lz n => s!"z={n}"

def shapeStr : Coin.Res → String
  | .unit => "r"
  | .elem _ => "e"
  | .ints (.ok vs) => s!"i={vs.length}"
  | .ints (.err a b) => s!"i=err:{a}:{b}"
  | .ints .abort => "i=abort"
  | .lz _ => "z"

def handle : List String → String
  | hn :: fld :: seed :: ops =>
    let f : Option FieldParams := match fld with
      | "f64" => some paramsF64 | "f62" => some paramsF62 | "f128" => some paramsF128 | _ => none
    match f, parseNatList seed, ops.mapM parseOp with
    | some f, some seed, some ops =>
      (match hn with
       | "toy0" => " ".intercalate ((Coin.outputs (toyHasher 0 f) f seed ops).map resStr)
       | "toy1" => " ".intercalate ((Coin.outputs (toyHasher 1 f) f seed ops).map resStr)
       | "toy2" => " ".intercalate ((Coin.outputs (toyHasher 2 f) f seed ops).map resStr)
       | "blake3_256" =>
         " ".intercalate ((Coin.outputs (toyHasher 0 f) f seed ops).map shapeStr) ++ " det=t range=t lz=t sens=t"
       | _ => "bad-op")
    | _, _, _ => "bad-op"
  | _ => "bad-op"

end Wf.Drv.Rc

def Wf.Drv.handleCoin : List String → String := Wf.Drv.Rc.handle
