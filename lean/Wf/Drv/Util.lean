/- Text helpers for the line protocol (driver only; nothing here is reasoned about). -/
import Wf.Model.Serde
namespace Wf.Drv

def hexDigit (c : Char) : Option Nat :=
  if '0' ≤ c ∧ c ≤ '9' then some (c.toNat - '0'.toNat)
  else if 'a' ≤ c ∧ c ≤ 'f' then some (c.toNat - 'a'.toNat + 10)
  else none

def parseHexChars : List Char → Option Bytes
  | [] => some []
  | a :: b :: rest => do
    let x ← hexDigit a
    let y ← hexDigit b
    let r ← parseHexChars rest
    pure (UInt8.ofNat (16 * x + y) :: r)
  | _ => none

/-- `-` denotes the empty byte string. -/
def parseHex (s : String) : Option Bytes :=
  if s == "-" then some [] else parseHexChars s.toList

def hexChar (n : Nat) : Char :=
  if n < 10 then Char.ofNat ('0'.toNat + n) else Char.ofNat ('a'.toNat + n - 10)

def toHex (bs : Bytes) : String :=
  if bs.isEmpty then "-" else
  String.ofList (bs.foldr (fun b acc => hexChar (b.toNat / 16) :: hexChar (b.toNat % 16) :: acc) [])

def errStr : Err → String
  | .eof => "eof"
  | .invalid => "invalid"
  | .other => "other"

def splitWords (line : String) : List String :=
  (line.trimAscii.toString.splitOn " ").filter (· ≠ "")

def joinWith (sep : String) (xs : List String) : String := sep.intercalate xs

def parseNatList (s : String) : Option (List Nat) :=
  if s == "-" then some [] else (s.splitOn ",").mapM String.toNat?

end Wf.Drv
