/- Line protocol for the C08 / C09 families (FRI: folding, index bookkeeping, verifier algebra).

  c08 foldpos <domain> <ff> <positions>                fold_positions            -> list | abort
  c08 mapidx <domain> <ff> <partitions> <positions>    map_positions_to_indexes  -> list | abort
  c08 nlayers <blowup> <ff> <rmd> <domain>             FriOptions::num_fri_layers -> n
  c08 <field> drp <ff> <alpha> <evals>                 transpose_slice + apply_drp (prover path)
  c08 <field> vfold <ff> <alpha> <evals>               the same vector through the VERIFIER's path
                                                       (coset interpolation of every row, eval at alpha)
  c08 <field> rem <blowup> <evals>                     remainder polynomial (reversed coefficients)
  c08 <field> verify <blowup> <ff> <rmd> <maxdeg> <partitions> <positions> <evals> <alphas>
                     <layers> <remainder> <remainderOk>
        full transcript re-check by the model: `layers` = `-` or layers separated by `|`, each
        `<merkleOk>:<flattened row values>`                -> ok | err <Kind> <args> | abort
  c08 <field> e2e <blowup> <ff> <rmd> <logDomain> <maxdeg> <deg|none> <class> <details...>
        ORACLE-ONLY line (the real prover and verifier run on data the model does not see): the
        answer is the ideal verdict computed from the model's bookkeeping: `abort` if the honest
        prover cannot run on these parameters, else `accept` iff the polynomial degree is within
        the declared bound and the degree bookkeeping of the verifier passes, else `reject`.
        Classes that tamper with an honest transcript (`class` starts with `x`) are always `reject`.
  c08 e2e_incompat <field> <same arguments as e2e>
        the same, for parameter tuples on which the domain cannot be folded in whole steps down to
        the remainder size (the honest prover is undefined there: answer `abort`; recorded finding)
Lists: elements separated by `;` (`-` = empty), an element = comma-separated canonical coefficients;
position lists comma-separated (`-` = empty).  Empty answers are written `empty`. -/
import Wf.Model.Fri
import Wf.Model.FieldCodec
import Wf.Drv.Fields
namespace Wf.Drv
open Wf Wf.Fri

def friShowNats (xs : List Nat) : String :=
  if xs.isEmpty then "empty" else ",".intercalate (xs.map toString)

def friShowOptNats : Option (List Nat) → String
  | none => "abort"
  | some xs => friShowNats xs

def friParseElems (s : String) : Option (List (List Nat)) :=
  if s == "-" then some [] else (s.splitOn ";").mapM parseNatList

def friShowElems {F} (v : VField F) (xs : List F) : String :=
  if xs.isEmpty then "empty" else ";".intercalate (xs.map fun x => showElem (v.toCanon x))

/-- base-field constants a field-generic FRI computation needs -/
structure FriField (F : Type) where
  v : VField F
  params : FieldParams

/-- `get_root_of_unity(ilog2(size))` embedded into the evaluation field (`none` = the assertion
`n != 0` / `n <= TWO_ADICITY` fails) -/
def FriField.gOf {F} (f : FriField F) (size : Nat) : Option F :=
  (f.params.rootOfUnity size.log2).map fun r => f.v.ofCanon [r]

def FriField.offset {F} (f : FriField F) : F := f.v.ofCanon [f.params.generator]

def friWithField (fld : String) (k : {F : Type} → FriField F → Option String) : Option String :=
  match fld with
  | "f64" => k ⟨f64Field, paramsF64⟩
  | "f64x2" => k ⟨f64x2Field, paramsF64⟩
  | "f64x3" => k ⟨f64x3Field, paramsF64⟩
  | "f62" => k ⟨f62Field, paramsF62⟩
  | "f62x2" => k ⟨f62x2Field, paramsF62⟩
  | "f62x3" => k ⟨f62x3Field, paramsF62⟩
  | "f128" => k ⟨f128Field, paramsF128⟩
  | "f128x2" => k ⟨f128x2Field, paramsF128⟩
  | _ => none

def friErrStr : VerifierError → String
  | .degreeTruncation a b c => s!"err DegreeTruncation {a} {b} {c}"
  | .remainderDegreeMismatch a => s!"err RemainderDegreeMismatch {a}"
  | .invalidLayerFolding d => s!"err InvalidLayerFolding {d}"
  | .invalidRemainderFolding => "err InvalidRemainderFolding"
  | .remainderCommitmentMismatch => "err RemainderCommitmentMismatch"
  | .layerCommitmentMismatch => "err LayerCommitmentMismatch"
  | .numPositionEvaluationMismatch a b => s!"err NumPositionEvaluationMismatch {a} {b}"
  | .unsupportedFoldingFactor f => s!"err UnsupportedFoldingFactor {f}"
  | .proofLayerCountMismatch _ _ => "err Deserialization"

def friResStr : Res Unit → String
  | .ok _ => "ok"
  | .err e => friErrStr e
  | .abort => "abort"

/-- group a flat list into rows of `n` (`group_slice_elements`) -/
def friGroup {α} (n : Nat) (xs : List α) : Option (List (List α)) :=
  if n = 0 ∨ xs.length % n ≠ 0 then none
  else some ((List.range (xs.length / n)).map fun i => (xs.drop (i * n)).take n)

def friParseLayers {F} (f : FriField F) (n : Nat) (s : String) : Option (List (LayerOpening F)) :=
  if s == "-" then some []
  else (s.splitOn "|").mapM fun l =>
    match l.splitOn ":" with
    | [ok, vals] => do
      let es ← friParseElems vals
      let rows ← friGroup n (es.map f.v.ofCanon)
      pure { rows := rows, merkleOk := ok == "1" }
    | _ => none

/-- is the honest prover defined on these parameters?  every layer must be divisible into rows of
`N` (`transpose_slice`), the last domain needs a root of unity of its order (`get_inv_twiddles`
calls `get_root_of_unity(ilog2(len))`, which rejects order 1) and the remainder must be non-empty
(`build_proof` / `FriProof::new` assertions) -/
def friProverDefined (o : FriOptions) (domainSize : Nat) : Bool :=
  let k := o.numFriLayers domainSize
  (List.range k).all (fun i => foldedSize o.folding i domainSize % o.folding == 0) &&
    decide (foldedSize o.folding k domainSize ≥ 2) &&
    decide (foldedSize o.folding k domainSize / o.blowup ≥ 1)

/-- ideal verdict of an honest run on the evaluations of a polynomial of degree `deg`
(`none` = not a polynomial of degree below the domain size: a random function) -/
def friIdealVerdict (o : FriOptions) (domainSize maxDeg : Nat) (deg : Option Nat) : String :=
  if !friProverDefined o domainSize then "abort"
  else
    match newCheck o.folding maxDeg (o.numFriLayers domainSize + 1) with
    | some _ => "reject"
    | none =>
      if nextPow2 (maxDeg + 1) * o.blowup ≠ domainSize then
        -- `FriVerifier::new` derives its domain from `(max_poly_degree + 1).next_power_of_two()`;
        -- when that is not the prover's domain (understated bound) only a constant polynomial
        -- could still pass
        (if deg == some 0 then "accept" else "reject")
      else match deg with
        | some d => if d ≤ maxDeg then "accept" else "reject"
        | none => "reject"

def runFriOp {F} (f : FriField F) (op : String) (args : List String) : Option String :=
  let v := f.v
  let elems (s : String) : Option (List F) := (friParseElems s).map (·.map v.ofCanon)
  let elem (s : String) : Option F := (parseNatList s).map v.ofCanon
  match op, args with
  | "drp", [ff, alpha, evals] => do
    let ff ← ff.toNat?
    let alpha ← elem alpha
    let evals ← elems evals
    match transposeRows ff evals, f.gOf evals.length with
    | some rows, some g => pure (friShowElems v (applyDrp v.ops ff g f.offset alpha rows))
    | _, _ => pure "abort"
  | "vfold", [ff, alpha, evals] => do
    let ff ← ff.toNat?
    let alpha ← elem alpha
    let evals ← elems evals
    match transposeRows ff evals, f.gOf evals.length with
    | some rows, some g =>
      match foldRows v.ops alpha
          (layerXs v.ops g f.offset (foldingRoots v.ops g evals.length ff) (List.range rows.length)) rows with
      | some r => pure (friShowElems v r)
      | none => pure "abort"
    | _, _ => pure "abort"
  | "rem", [blowup, evals] => do
    let blowup ← blowup.toNat?
    let evals ← elems evals
    match f.gOf evals.length with
    | some g =>
      if evals.length / blowup = 0 then pure "abort"
      else pure (friShowElems v (remainderPoly v.ops g f.offset blowup evals))
    | none => pure "abort"
  | "verify", [blowup, ff, rmd, maxdeg, parts, positions, evals, alphas, layers, remainder, remOk] => do
    let blowup ← blowup.toNat?
    let ff ← ff.toNat?
    let rmd ← rmd.toNat?
    let maxdeg ← maxdeg.toNat?
    let parts ← parts.toNat?
    let positions ← parseNatList positions
    let evals ← elems evals
    let alphas ← elems alphas
    let layers ← friParseLayers f ff layers
    let remainder ← elems remainder
    let o : FriOptions := { blowup := blowup, folding := ff, rmd := rmd }
    match f.gOf (nextPow2 (maxdeg + 1) * blowup) with
    | none => pure "abort"
    | some g =>
      pure (friResStr (newAndVerify v.ops o maxdeg parts (fun _ => g) f.offset alphas evals positions
        layers remainder (remOk == "1")))
  | "e2e", blowup :: ff :: rmd :: logDomain :: maxdeg :: deg :: cls :: _ => do
    let blowup ← blowup.toNat?
    let ff ← ff.toNat?
    let rmd ← rmd.toNat?
    let logDomain ← logDomain.toNat?
    let maxdeg ← maxdeg.toNat?
    let deg ← if deg == "none" then some none else deg.toNat?.map some
    let o : FriOptions := { blowup := blowup, folding := ff, rmd := rmd }
    let verdict := friIdealVerdict o (2 ^ logDomain) maxdeg deg
    if cls.startsWith "x" && verdict == "accept" then pure "reject" else pure verdict
  | _, _ => none

def handleFri : List String → String
  | ["foldpos", d, ff, ps] =>
    match d.toNat?, ff.toNat?, parseNatList ps with
    | some d, some ff, some ps => friShowOptNats (foldPositions ps d ff)
    | _, _, _ => "bad-op"
  | ["mapidx", d, ff, np, ps] =>
    match d.toNat?, ff.toNat?, np.toNat?, parseNatList ps with
    | some d, some ff, some np, some ps => friShowOptNats (mapPositionsToIndexes ps d ff np)
    | _, _, _, _ => "bad-op"
  | ["nlayers", b, ff, rmd, d] =>
    match b.toNat?, ff.toNat?, rmd.toNat?, d.toNat? with
    | some b, some ff, some rmd, some d =>
      toString (({ blowup := b, folding := ff, rmd := rmd } : FriOptions).numFriLayers d)
    | _, _, _, _ => "bad-op"
  | "e2e_incompat" :: fld :: args => (friWithField fld (fun f => runFriOp f "e2e" args)).getD "bad-op"
  | fld :: op :: args => (friWithField fld (fun f => runFriOp f op args)).getD "bad-op"
  | _ => "bad-op"

end Wf.Drv
