/- Line protocol for the C12 family (FFT evaluation / interpolation / degree inference).

  c12 nat pidx <k>                                     table permute_index(2^k, i), i < 2^k
  c12 <field> tw|itw <n>                               get_twiddles / get_inv_twiddles (domain size n)
  c12 <field> perm <vec>                               FftInputs::permute
  c12 <field> fft <vec> <ktw>                          serial_fft (= asserts, fft_in_place, permute)
  c12 <field> raw <vec> <ktw> <count> <stride> <off>   fft_in_place_raw
  c12 <field> eval|interp|rt <vec> <ktw>               evaluate_poly / interpolate_poly / both
  c12 <field> evaloff <vec> <ktw> <s> <blowup>         evaluate_poly_with_offset
  c12 <field> interpoff|rtoff <vec> <ktw> <s>          interpolate_poly_with_offset / round trip
  c12 <field> spot <vec> <ktw> <i>                     element i of evaluate_poly
  c12 <field> spotoff <vec> <ktw> <s> <blowup> <i>     element i of evaluate_poly_with_offset
  c12 <field> deg <vec> <ktw> <s> <blowup>             infer_degree(evaluate_poly_with_offset(..), s)
  c12 <field> degraw <vec> <s>                         infer_degree(vec, s)
<vec> = `l:e;e;…` (explicit elements, comma-separated canonical coordinates, `l:-` empty) or
`s:<seed>:<len>:<m>` (first `m` of `len` elements from the LCG below, element m−1 forced non-zero,
the rest zero).  <ktw>: twiddles are get_(inv_)twiddles(2^ktw).  <s>: canonical base-field value.
Answer: vectors of ≤ 8 elements in full (`e;e;…`), longer ones as `n<len>:h<fnv digest>:<first>:<last>`;
`abort` for a panic. -/
import Wf.Model.Fft
import Wf.Model.FieldCodec
import Wf.Drv.Fields
namespace Wf.Drv.C12
open Wf Wf.Fft Wf.Drv

/-- the LCG shared with `harness/src/c12.rs` -/
def lcgNext (s : Nat) : Nat := (s * 6364136223846793005 + 1442695040888963407) % 2 ^ 64

/-- one canonical coordinate: two LCG steps, `(hi·2^64 + lo) mod p` -/
def lcgCoord (p s : Nat) : Nat × Nat :=
  let s1 := lcgNext s
  let s2 := lcgNext s1
  ((s1 * 2 ^ 64 + s2) % p, s2)

def lcgElem (p : Nat) : Nat → Nat → List Nat → List Nat × Nat
  | 0, s, acc => (acc.reverse, s)
  | d + 1, s, acc => let (c, s') := lcgCoord p s; lcgElem p d s' (c :: acc)

partial def lcgVec (p deg len m : Nat) (seed : Nat) : Array (List Nat) := Id.run do
  let mut out : Array (List Nat) := Array.mkEmpty len
  let mut s := seed
  for i in [0:len] do
    if i < m then
      let (e, s') := lcgElem p deg s []
      s := s'
      let e := if i + 1 == m && e.all (· == 0) then 1 :: e.drop 1 else e
      out := out.push e
    else
      out := out.push (List.replicate deg 0)
  return out

def fnvStep (h : UInt64) (c : Nat) : UInt64 :=
  let h := (h ^^^ (UInt64.ofNat (c % 2 ^ 64))) * 0x100000001b3
  (h ^^^ (UInt64.ofNat (c / 2 ^ 64))) * 0x100000001b3

def showVec (es : Array (List Nat)) : String :=
  if es.size ≤ 8 then
    if es.isEmpty then "empty" else ";".intercalate (es.toList.map showElem)
  else
    let h := es.foldl (fun h e => e.foldl fnvStep h) (0xcbf29ce484222325 : UInt64)
    s!"n{es.size}:h{h.toNat}:{showElem es[0]!}:{showElem es[es.size - 1]!}"

/-- a field pair for the FFT: base-field and element views plus the model context -/
structure FftField (B E : Type) where
  ctx : Ctx B E
  vb : VField B
  ve : VField E
  p : Nat
  deg : Nat

def rootOf {B} (vb : VField B) (f : FieldParams) (n : Nat) : B :=
  vb.ofCanon [(f.rootOfUnity n).getD 0]

def fftF64 : FftField (BitVec 64) (BitVec 64) where
  ctx := { b := F64.baseOps, e := F64.baseOps, mulBase := Gen.F64.mul, embed := id,
           exp := f64Field.exp, root := rootOf f64Field paramsF64, twoAdicity := paramsF64.twoAdicity }
  vb := f64Field
  ve := f64Field
  p := paramsF64.m
  deg := 1

def fftF62 : FftField (BitVec 64) (BitVec 64) where
  ctx := { b := F62.baseOps, e := F62.baseOps, mulBase := Gen.F62.mul, embed := id,
           exp := f62Field.exp, root := rootOf f62Field paramsF62, twoAdicity := paramsF62.twoAdicity }
  vb := f62Field
  ve := f62Field
  p := paramsF62.m
  deg := 1

def fftF128 : FftField (BitVec 128) (BitVec 128) where
  ctx := { b := F128.baseOps, e := F128.baseOps, mulBase := Gen.F128.mul, embed := id,
           exp := f128Field.exp, root := rootOf f128Field paramsF128, twoAdicity := paramsF128.twoAdicity }
  vb := f128Field
  ve := f128Field
  p := paramsF128.m
  deg := 1

def fftF64x2 : FftField (BitVec 64) (BitVec 64 × BitVec 64) where
  ctx := { b := F64.baseOps, e := F64.quad, mulBase := Gen.F64.ext2MulBase F64.baseOps,
           embed := fun x => (x, F64.zero),
           exp := f64Field.exp, root := rootOf f64Field paramsF64, twoAdicity := paramsF64.twoAdicity }
  vb := f64Field
  ve := f64x2Field
  p := paramsF64.m
  deg := 2

def fftF64x3 : FftField (BitVec 64) (BitVec 64 × BitVec 64 × BitVec 64) where
  ctx := { b := F64.baseOps, e := F64.cube, mulBase := Gen.F64.ext3MulBase F64.baseOps,
           embed := fun x => (x, F64.zero, F64.zero),
           exp := f64Field.exp, root := rootOf f64Field paramsF64, twoAdicity := paramsF64.twoAdicity }
  vb := f64Field
  ve := f64x3Field
  p := paramsF64.m
  deg := 3

def parseVec {B E} (f : FftField B E) (s : String) : Option (Array E) :=
  match s.splitOn ":" with
  | ["l", body] =>
    if body == "-" then some #[]
    else ((body.splitOn ";").mapM parseNatList).map (fun es => (es.map f.ve.ofCanon).toArray)
  | ["s", seed, len, m] => do
    let seed ← seed.toNat?
    let len ← len.toNat?
    let m ← m.toNat?
    pure ((lcgVec f.p f.deg len m seed).map f.ve.ofCanon)
  | _ => none

def showOut {B E} (f : FftField B E) : Option (Array E) → String
  | none => "abort"
  | some a => showVec (a.map f.ve.toCanon)

/-- `serial_fft`: the asserts of the public wrapper, then `fft_in_place` and `permute` -/
def serialFft {B E} (c : Ctx B E) (v : Array E) (tws : Array B) : Option (Array E) :=
  if !isPow2 v.size then none
  else if v.size != tws.size * 2 then none
  else if v.size.log2 > c.twoAdicity then none
  else some (permute (fftInPlace c tws v.size v 1 1 0))

def runFft {B E} (f : FftField B E) (op : String) (args : List String) : Option String :=
  let c := f.ctx
  let base (s : String) : Option B := s.toNat?.map (fun n => f.vb.ofCanon [n])
  let showB (o : Option (Array B)) : String :=
    match o with
    | none => "abort"
    | some a => showVec (a.map f.vb.toCanon)
  match op, args with
  | "tw", [n] => do
    let n ← n.toNat?
    pure (showB (getTwiddles c n))
  | "itw", [n] => do
    let n ← n.toNat?
    pure (showB (getInvTwiddles c n))
  | "perm", [v] => do
    let v ← parseVec f v
    pure (showOut f (some (permute v)))
  | "fft", [v, k] => do
    let v ← parseVec f v
    let k ← k.toNat?
    pure (showOut f ((getTwiddles c (2 ^ k)).bind (serialFft c v)))
  | "raw", [v, k, cnt, st, off] => do
    let v ← parseVec f v
    let k ← k.toNat?
    let cnt ← cnt.toNat?
    let st ← st.toNat?
    let off ← off.toNat?
    pure (showOut f ((getTwiddles c (2 ^ k)).map (fun tws => fftInPlace c tws v.size v cnt st off)))
  | "eval", [v, k] => do
    let v ← parseVec f v
    let k ← k.toNat?
    pure (showOut f ((getTwiddles c (2 ^ k)).bind (evaluatePoly c v)))
  | "interp", [v, k] => do
    let v ← parseVec f v
    let k ← k.toNat?
    pure (showOut f ((getInvTwiddles c (2 ^ k)).bind (interpolatePoly c v)))
  | "rt", [v, k] => do
    let v ← parseVec f v
    let k ← k.toNat?
    pure (showOut f (do
      let tws ← getTwiddles c (2 ^ k)
      let itws ← getInvTwiddles c (2 ^ k)
      let ev ← evaluatePoly c v tws
      interpolatePoly c ev itws))
  | "evaloff", [v, k, s, bl] => do
    let v ← parseVec f v
    let k ← k.toNat?
    let s ← base s
    let bl ← bl.toNat?
    pure (showOut f ((getTwiddles c (2 ^ k)).bind (fun tws => evaluatePolyWithOffset c v tws s bl)))
  | "interpoff", [v, k, s] => do
    let v ← parseVec f v
    let k ← k.toNat?
    let s ← base s
    pure (showOut f ((getInvTwiddles c (2 ^ k)).bind (fun itws => interpolatePolyWithOffset c v itws s)))
  | "rtoff", [v, k, s] => do
    let v ← parseVec f v
    let k ← k.toNat?
    let s ← base s
    pure (showOut f (do
      let tws ← getTwiddles c (2 ^ k)
      let itws ← getInvTwiddles c (2 ^ k)
      let ev ← evaluatePolyWithOffset c v tws s 1
      interpolatePolyWithOffset c ev itws s))
  | "spot", [v, k, i] => do
    let v ← parseVec f v
    let k ← k.toNat?
    let i ← i.toNat?
    pure (match (getTwiddles c (2 ^ k)).bind (evaluatePoly c v) with
      | none => "abort"
      | some r => match r[i]? with
        | none => "abort"
        | some x => showElem (f.ve.toCanon x))
  | "spotoff", [v, k, s, bl, i] => do
    let v ← parseVec f v
    let k ← k.toNat?
    let s ← base s
    let bl ← bl.toNat?
    let i ← i.toNat?
    pure (match (getTwiddles c (2 ^ k)).bind (fun tws => evaluatePolyWithOffset c v tws s bl) with
      | none => "abort"
      | some r => match r[i]? with
        | none => "abort"
        | some x => showElem (f.ve.toCanon x))
  | "deg", [v, k, s, bl] => do
    let v ← parseVec f v
    let k ← k.toNat?
    let s ← base s
    let bl ← bl.toNat?
    pure (match (getTwiddles c (2 ^ k)).bind (fun tws => evaluatePolyWithOffset c v tws s bl) with
      | none => "abort"
      | some ev => match inferDegree c ev s with
        | none => "abort"
        | some d => toString d)
  | "degraw", [v, s] => do
    let v ← parseVec f v
    let s ← base s
    pure (match inferDegree c v s with
      | none => "abort"
      | some d => toString d)
  | _, _ => none

def handle : List String → String
  | ["nat", "pidx", k] =>
    match k.toNat? with
    | none => "bad-op"
    | some k => showVec ((Array.range (2 ^ k)).map (fun i => [permuteIndex (2 ^ k) i]))
  | fld :: op :: args =>
    let r := match fld with
      | "f64" => runFft fftF64 op args
      | "f62" => runFft fftF62 op args
      | "f128" => runFft fftF128 op args
      | "f64x2" => runFft fftF64x2 op args
      | "f64x3" => runFft fftF64x3 op args
      | _ => none
    r.getD "bad-op"
  | _ => "bad-op"

end Wf.Drv.C12

def Wf.Drv.handleFft : List String → String := Wf.Drv.C12.handle
