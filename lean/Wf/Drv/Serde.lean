/- Line protocol for the C26 family (primitive encodings). -/
import Wf.Model.SerdeDyn
import Wf.Drv.Util
namespace Wf.Drv

partial def takeDigits : List Char → List Char → (List Char × List Char)
  | acc, c :: cs => if c.isDigit then takeDigits (c :: acc) cs else (acc.reverse, c :: cs)
  | acc, [] => (acc.reverse, [])

def digitsToNat (ds : List Char) : Nat := ds.foldl (fun a c => 10 * a + (c.toNat - '0'.toNat)) 0

mutual
partial def parseTy : List Char → Option (Ty × List Char)
  | 'u' :: '8' :: r => some (.u8, r)
  | 'u' :: '1' :: '6' :: r => some (.u16, r)
  | 'u' :: '3' :: '2' :: r => some (.u32, r)
  | 'u' :: '6' :: '4' :: r => some (.u64, r)
  | 'u' :: '1' :: '2' :: '8' :: r => some (.u128, r)
  | 'u' :: 's' :: 'i' :: 'z' :: 'e' :: r => some (.usize, r)
  | 'b' :: 'o' :: 'o' :: 'l' :: r => some (.bool, r)
  | 'u' :: 'n' :: 'i' :: 't' :: r => some (.unit, r)
  | 's' :: 't' :: 'r' :: r => some (.str, r)
  | 'O' :: r => do let (t, r) ← parseTy r; pure (.opt t, r)
  | 'V' :: r => do let (t, r) ← parseTy r; pure (.vec t, r)
  | 'B' :: r => do let (t, r) ← parseTy r; pure (.set t, r)
  | 'A' :: r =>
    let (ds, r) := takeDigits [] r
    match r with
    | ':' :: r => do let (t, r) ← parseTy r; pure (.arr (digitsToNat ds) t, r)
    | _ => none
  | 'M' :: r => do
    let (k, r) ← parseTy r
    match r with
    | ':' :: r => do let (v, r) ← parseTy r; pure (.map k v, r)
    | _ => none
  | 'P' :: '(' :: ')' :: r => some (.tup [], r)
  | 'P' :: '(' :: r => do let (ts, r) ← parseTys r; pure (.tup ts, r)
  | _ => none
partial def parseTys (cs : List Char) : Option (List Ty × List Char) := do
  let (t, r) ← parseTy cs
  match r with
  | ',' :: r => do let (ts, r) ← parseTys r; pure (t :: ts, r)
  | ')' :: r => pure ([t], r)
  | _ => none
end

partial def takeHex : List Char → List Char → (List Char × List Char)
  | acc, c :: cs => if (hexDigit c).isSome then takeHex (c :: acc) cs else (acc.reverse, c :: cs)
  | acc, [] => (acc.reverse, [])

mutual
partial def parseVal : List Char → Option (Val × List Char)
  | 't' :: r => some (.b true, r)
  | 'f' :: r => some (.b false, r)
  | 'u' :: r => some (.u, r)
  | 'N' :: r => some (.none, r)
  | 'S' :: r => do let (v, r) ← parseVal r; pure (.some v, r)
  | 'x' :: r =>
    let (hs, r) := takeHex [] r
    do let bs ← parseHexChars hs; pure (.s bs, r)
  | '[' :: ']' :: r => some (.list [], r)
  | '[' :: r => do let (vs, r) ← parseVals ']' r; pure (.list vs, r)
  | '(' :: ')' :: r => some (.tup [], r)
  | '(' :: r => do let (vs, r) ← parseVals ')' r; pure (.tup vs, r)
  | c :: r =>
    if c.isDigit then
      let (ds, r) := takeDigits [] (c :: r)
      some (.n (digitsToNat ds), r)
    else none
  | [] => none
partial def parseVals (close : Char) (cs : List Char) : Option (List Val × List Char) := do
  let (v, r) ← parseVal cs
  match r with
  | ',' :: r => do let (vs, r) ← parseVals close r; pure (v :: vs, r)
  | c :: r => if c = close then pure ([v], r) else none
  | _ => none
end

partial def showVal : Val → String
  | .n v => toString v
  | .b true => "t"
  | .b false => "f"
  | .u => "u"
  | .s bs => "x" ++ (if bs.isEmpty then "" else toHex bs)
  | .none => "N"
  | .some v => "S" ++ showVal v
  | .list vs => "[" ++ ",".intercalate (vs.map showVal) ++ "]"
  | .tup vs => "(" ++ ",".intercalate (vs.map showVal) ++ ")"

/-- requests:
  `len <v>`            → `usize_encoded_len`
  `enc <ty> <val>`     → hex
  `dec <ty> <hex>`     → `ok <val> <consumed>` | `err <kind>` | `abort`
  `utf8 <hex>`         → `t`/`f`
  `tz8 <b>`            → trailing zeros -/
def handleSerde : List String → String
  | ["len", v] => match v.toNat? with
    | some v => toString (usizeEncodedLen v)
    | none => "bad-op"
  | ["tz8", v] => match v.toNat? with
    | some v => toString (tz8 v)
    | none => "bad-op"
  | ["utf8", h] => match parseHex h with
    | some bs => if utf8Valid bs then "t" else "f"
    | none => "bad-op"
  | ["enc", ty, val] =>
    match parseTy ty.toList, parseVal val.toList with
    | some (t, []), some (v, []) => toHex ((codecOf t).enc v)
    | _, _ => "bad-op"
  | ["dec", ty, h] =>
    match parseTy ty.toList, parseHex h with
    | some (t, []), some bs =>
      match (codecOf t).dec bs with
      | .ok v rest => s!"ok {showVal v} {bs.length - rest.length}"
      | .err e => "err " ++ errStr e
      | .abort => "abort"
    | _, _ => "bad-op"
  | ["prim", op, pos, len, h] =>
    -- reader primitives on a `SliceReader` positioned `pos` bytes into the source, called with a
    -- length that may come from corrupted input (up to `usize::MAX`)
    match pos.toNat?, len.toNat?, parseHex h with
    | some pos, some len, some bs =>
      match readSlice pos bs with
      | .ok _ rest =>
        if op = "eor" then (if checkEor len rest then "ok" else "err eof")
        else match readSlice len rest with
          | .ok v r =>
            if op = "string" && !utf8Valid v then "err invalid"
            else s!"ok x{if v.isEmpty then "" else toHex v} {r.length}"
          | .err e => "err " ++ errStr e
          | .abort => "abort"
      | _ => "bad-op"
    | _, _, _ => "bad-op"
  | _ => "bad-op"

end Wf.Drv
