/- Line protocol for the C10/C11 families (field arithmetic). -/
import Wf.Model.Fields
import Wf.Model.PrimeSpec
import Wf.Drv.Util
namespace Wf.Drv
open Wf

def showElem (e : List Nat) : String := ",".intercalate (e.map toString)

/-- value-level operations over a `FieldOps` instance with conversions from/to canonical integers -/
structure VField (F : Type) where
  ops : FieldOps F
  ofCanon : List Nat → F
  toCanon : F → List Nat
  mulBase : F → Nat → F        -- extension element times base element (given canonically)
  exp : F → Nat → F

def runOp {F} (v : VField F) (op : String) (args : List (List Nat)) : Option String :=
  let o := v.ops
  let out (x : F) : Option String := some (showElem (v.toCanon x))
  match op, args with
  | "add", [a, b] => out (o.add (v.ofCanon a) (v.ofCanon b))
  | "sub", [a, b] => out (o.sub (v.ofCanon a) (v.ofCanon b))
  | "mul", [a, b] => out (o.mul (v.ofCanon a) (v.ofCanon b))
  | "div", [a, b] => out (o.mul (v.ofCanon a) (o.inv (v.ofCanon b)))
  | "neg", [a] => out (o.neg (v.ofCanon a))
  | "double", [a] => out (o.double (v.ofCanon a))
  | "square", [a] => out (o.square (v.ofCanon a))
  | "cube", [a] => let x := v.ofCanon a; out (o.mul (o.mul x x) x)
  | "inv", [a] => out (o.inv (v.ofCanon a))
  | "conj", [a] => out (o.conjugate (v.ofCanon a))
  | "eq", [a, b] => some (if o.beq (v.ofCanon a) (v.ofCanon b) then "t" else "f")
  | "exp", [a, [n]] => out (v.exp (v.ofCanon a) n)
  | "mulbase", [a, [b]] => out (v.mulBase (v.ofCanon a) b)
  | _, _ => none

/-- spec-level instance (f62, f128 and all extensions thereof; reference for f64) -/
def specField (f : Spec.FieldSpec) : VField (List Nat) where
  ops := {
    zero := Spec.zero f, one := Spec.one f
    add := Spec.add f, sub := Spec.sub f, mul := Spec.mul f, neg := Spec.neg f
    double := fun a => Spec.add f a a, square := fun a => Spec.mul f a a
    inv := Spec.inv f, ofNat := fun n => Spec.pad f.deg [n % f.p]
    conjugate := if f.deg = 1 then id else Spec.frobenius f
    beq := fun a b => a == b }
  ofCanon := fun a => Spec.pad f.deg (a.map (· % f.p))
  toCanon := id
  mulBase := fun a b => Spec.scale f.p (b % f.p) a
  exp := Spec.pow f

/-- f64 through the generated limb kernels -/
def f64Field : VField (BitVec 64) where
  ops := F64.baseOps
  ofCanon := fun a => Gen.F64.new (BitVec.ofNat 64 a.head!)
  toCanon := fun x => [(Gen.F64.mont_to_int x).toNat]
  mulBase := fun a b => Gen.F64.mul a (Gen.F64.new (BitVec.ofNat 64 b))
  exp := fun x n => f64ExpLoop F64.baseOps x n

def f64x2Field : VField (BitVec 64 × BitVec 64) where
  ops := F64.quad
  ofCanon := fun a => (Gen.F64.new (BitVec.ofNat 64 a.head!), Gen.F64.new (BitVec.ofNat 64 (a.getD 1 0)))
  toCanon := fun x => [(Gen.F64.mont_to_int x.1).toNat, (Gen.F64.mont_to_int x.2).toNat]
  mulBase := fun a b => Gen.F64.ext2MulBase F64.baseOps a (Gen.F64.new (BitVec.ofNat 64 b))
  exp := fun x n => expVartime F64.quad x n

def f64x3Field : VField (BitVec 64 × BitVec 64 × BitVec 64) where
  ops := F64.cube
  ofCanon := fun a => (Gen.F64.new (BitVec.ofNat 64 a.head!), Gen.F64.new (BitVec.ofNat 64 (a.getD 1 0)),
    Gen.F64.new (BitVec.ofNat 64 (a.getD 2 0)))
  toCanon := fun x => [(Gen.F64.mont_to_int x.1).toNat, (Gen.F64.mont_to_int x.2.1).toNat,
    (Gen.F64.mont_to_int x.2.2).toNat]
  mulBase := fun a b => Gen.F64.ext3MulBase F64.baseOps a (Gen.F64.new (BitVec.ofNat 64 b))
  exp := fun x n => expVartime F64.cube x n

/-- f62 through the generated limb kernels; `neg` (`impl Neg`), `==` (`impl PartialEq`) and `inv`
    (binary extended Euclid, loops bounded by fuel) are the regenerated definitions, not the
    hand-written ones of `F62.baseOps` (which inverts by Fermat exponentiation) -/
def f62Field : VField (BitVec 64) where
  ops := { F62.baseOps with neg := Gen.F62.neg, beq := fun a b => Gen.F62.eq a b, inv := Gen.F62.inv }
  ofCanon := fun a => Gen.F62.new (BitVec.ofNat 64 a.head!)
  toCanon := fun x => [(Gen.F62.as_int x).toNat]
  mulBase := fun a b => Gen.F62.mul a (Gen.F62.new (BitVec.ofNat 64 b))
  exp := fun x n => expVartime F62.baseOps x n

def f62x2Field : VField (BitVec 64 × BitVec 64) where
  ops := F62.quad
  ofCanon := fun a => (Gen.F62.new (BitVec.ofNat 64 a.head!), Gen.F62.new (BitVec.ofNat 64 (a.getD 1 0)))
  toCanon := fun x => [(Gen.F62.as_int x.1).toNat, (Gen.F62.as_int x.2).toNat]
  mulBase := fun a b => Gen.F62.ext2MulBase F62.baseOps a (Gen.F62.new (BitVec.ofNat 64 b))
  exp := fun x n => expVartime F62.quad x n

def f62x3Field : VField (BitVec 64 × BitVec 64 × BitVec 64) where
  ops := F62.cube
  ofCanon := fun a => (Gen.F62.new (BitVec.ofNat 64 a.head!), Gen.F62.new (BitVec.ofNat 64 (a.getD 1 0)),
    Gen.F62.new (BitVec.ofNat 64 (a.getD 2 0)))
  toCanon := fun x => [(Gen.F62.as_int x.1).toNat, (Gen.F62.as_int x.2.1).toNat, (Gen.F62.as_int x.2.2).toNat]
  mulBase := fun a b => Gen.F62.ext3MulBase F62.baseOps a (Gen.F62.new (BitVec.ofNat 64 b))
  exp := fun x n => expVartime F62.cube x n

def f128Field : VField (BitVec 128) where
  ops := F128.baseOps
  ofCanon := fun a => Gen.F128.new (BitVec.ofNat 128 a.head!)
  toCanon := fun x => [x.toNat]
  mulBase := fun a b => Gen.F128.mul a (Gen.F128.new (BitVec.ofNat 128 b))
  exp := fun x n => expVartime F128.baseOps x n

def f128x2Field : VField (BitVec 128 × BitVec 128) where
  ops := F128.quad
  ofCanon := fun a => (Gen.F128.new (BitVec.ofNat 128 a.head!), Gen.F128.new (BitVec.ofNat 128 (a.getD 1 0)))
  toCanon := fun x => [x.1.toNat, x.2.toNat]
  mulBase := fun a b => Gen.F128.ext2MulBase F128.baseOps a (Gen.F128.new (BitVec.ofNat 128 b))
  exp := fun x n => expVartime F128.quad x n

def parseElems (ws : List String) : Option (List (List Nat)) := ws.mapM parseNatList

/-! ### `rep` requests: operands built by operation chains (non-canonical stored words) -/

def tf (b : Bool) : String := if b then "t" else "f"

/-- the element denoted by an operand term `<tag>:<elem>[:<elem>]` (same table as `term_build` in
    harness/src/c10.rs) -/
def buildTerm {F} (v : VField F) (tag : String) (es : List (List Nat)) : Option F :=
  let o := v.ops
  match tag, es with
  | "c", [a] => some (v.ofCanon a)
  | "xnx", [a] => let x := v.ofCanon a; some (o.add x (o.neg x))
  | "nxx", [a] => let x := v.ofCanon a; some (o.add (o.neg x) x)
  | "xmx", [a] => let x := v.ofCanon a; some (o.sub x x)
  | "nz", [_] => some (o.neg o.zero)
  | "nzz", [a] => let x := v.ofCanon a; some (o.neg (o.add x (o.neg x)))
  | "zmz", [_] => some (o.sub o.zero o.zero)
  | "dmd", [a] => let x := v.ofCanon a; some (o.sub (o.double x) (o.add x x))
  | "xp1", [a] => some (o.add (v.ofCanon a) o.one)
  | "neg", [a] => some (o.neg (v.ofCanon a))
  | "nn", [a] => some (o.neg (o.neg (v.ofCanon a)))
  | "add", [a, b] => some (o.add (v.ofCanon a) (v.ofCanon b))
  | "sub", [a, b] => some (o.sub (v.ofCanon a) (v.ofCanon b))
  | "mul", [a, b] => some (o.mul (v.ofCanon a) (v.ofCanon b))
  | "apm", [a, b] => let y := v.ofCanon b; some (o.sub (o.add (v.ofCanon a) y) y)
  | _, _ => none

def parseTerm {F} (v : VField F) (s : String) : Option F :=
  match s.splitOn ":" with
  | tag :: rest => do
    let es ← rest.mapM parseNatList
    buildTerm v tag es
  | [] => none

/-- `rep <op> <term> [<term>] = <expected>` → `<canon> eq=<r == new(expected)> bytes=<to_bytes(r) is the
    canonical encoding of expected>`; `to_bytes` is modelled as the little-endian bytes of `as_int` -/
def runRep {F} (v : VField F) (op : String) (ws : List String) : Option String :=
  let o := v.ops
  let fin (r : F) (e : String) : Option String := do
    let exp ← parseNatList e
    some s!"{showElem (v.toCanon r)} eq={tf (o.beq r (v.ofCanon exp))} bytes={tf (v.toCanon r == exp)}"
  match op, ws with
  | "eq", [a, b] => do
    let x ← parseTerm v a
    let y ← parseTerm v b
    some (tf (o.beq x y))
  | _, [a, "=", e] => do
    let x ← parseTerm v a
    match op with
    | "id" => fin x e
    | "neg" => fin (o.neg x) e
    | "double" => fin (o.double x) e
    | "square" => fin (o.square x) e
    | "inv" => fin (o.inv x) e
    | "conj" => fin (o.conjugate x) e
    | _ => none
  | _, [a, b, "=", e] => do
    let x ← parseTerm v a
    let y ← parseTerm v b
    match op with
    | "add" => fin (o.add x y) e
    | "sub" => fin (o.sub x y) e
    | "mul" => fin (o.mul x y) e
    | "div" => fin (o.mul x (o.inv y)) e
    | _ => none
  | _, _ => none

/-- `c10 <field> <op> <elem>...`  (elements: comma-separated canonical coefficients)
    `c10 f64i <op> <inner>...`   (raw Montgomery words in, raw words out)
    `c10 <field> rep <op> <term> [<term>] = <expected>` / `c10 <field> rep eq <term> <term>` -/
def handleFields : List String → String
  | fld :: "rep" :: op :: args =>
    let res := match fld with
      | "f64" => runRep f64Field op args
      | "f64x2" => runRep f64x2Field op args
      | "f64x3" => runRep f64x3Field op args
      | "f62" => runRep f62Field op args
      | "f62x2" => runRep f62x2Field op args
      | "f62x3" => runRep f62x3Field op args
      | "f128" => runRep f128Field op args
      | "f128x2" => runRep f128x2Field op args
      | _ => none
    res.getD "bad-op"
  | "f64i" :: op :: args =>
    match args.mapM String.toNat? with
    | none => "bad-op"
    | some ns =>
      let bs := ns.map (BitVec.ofNat 64)
      let r (x : BitVec 64) := s!"{x.toNat} {(Gen.F64.mont_to_int x).toNat}"
      match op, bs with
      | "add", [a, b] => r (Gen.F64.add a b)
      | "sub", [a, b] => r (Gen.F64.sub a b)
      | "mul", [a, b] => r (Gen.F64.mul a b)
      | "neg", [a] => r (Gen.F64.neg a)
      | "double", [a] => r (Gen.F64.double a)
      | "new", [a] => r (Gen.F64.new a)
      | "asint", [a] => r a
      | "inv", [a] => r (F64.baseOps.inv a)
      | "exp7", [a] => r (Gen.F64.exp7 F64.baseOps a)
      | "mulsmall", [a, k] => r (Gen.F64.mul_small a (k.setWidth 32))
      | "eq", [a, b] => if F64.baseOps.beq a b then "t" else "f"
      | _, _ => "bad-op"
  | fld :: op :: args =>
    match parseElems args with
    | none => "bad-op"
    | some es =>
      let res := match fld with
        | "f64" => runOp f64Field op es
        | "f64x2" => runOp f64x2Field op es
        | "f64x3" => runOp f64x3Field op es
        | "f64s" => runOp (specField Spec.f64) op es
        | "f64x2s" => runOp (specField Spec.f64x2) op es
        | "f64x3s" => runOp (specField Spec.f64x3) op es
        | "f62" => runOp f62Field op es
        | "f62x2" => runOp f62x2Field op es
        | "f62x3" => runOp f62x3Field op es
        | "f128" => runOp f128Field op es
        | "f128x2" => runOp f128x2Field op es
        | "f62s" => runOp (specField Spec.f62) op es
        | "f62x2s" => runOp (specField Spec.f62x2) op es
        | "f62x3s" => runOp (specField Spec.f62x3) op es
        | "f128s" => runOp (specField Spec.f128) op es
        | "f128x2s" => runOp (specField Spec.f128x2) op es
        | _ => none
      res.getD "bad-op"
  | _ => "bad-op"

end Wf.Drv
