/- Line protocol for the C06 bookkeeping family `c06b` (model `Wf/Model/ParBook.lean`).

  c06b plan <len> <min> <threads>      three-argument arm of `batch_iter_mut!` inside a rayon pool of
                                       <threads> threads: `off:len;off:len…` or `abort`
  c06b plan2 <len> <threads>           two-argument arm
  c06b eval|evalx <field> <log n> <log ce_blowup> <log lde_blowup> <log cycle|-> <threads>
        `DefaultConstraintEvaluator::evaluate` in a pool of <threads> threads, trace length 2^(log n),
        one periodic column of cycle 2^(log cycle) (`-`: none); answer
        `frags=<off:rows;…> lde=<digest> per=<digest>`: the fragments, a digest of the LDE rows read
        (`step << lde_shift`) and of the periodic-table rows read (`step % table_len`), both in
        global step order; `abort` when the fragment split panics.
The field name is not used by the model (indexes only). -/
import Wf.Model.ParBook
import Wf.Drv.Util
namespace Wf.Drv
open Wf.ParBook

def showPlan : Option (List (Nat × Nat)) → String
  | none => "abort"
  | some cs => ";".intercalate (cs.map (fun c => s!"{c.1}:{c.2}"))

/-- FNV-1a over 64-bit words (the harness computes the same digest) -/
def pbDigest (xs : List Nat) : Nat :=
  (xs.foldl (fun (h : UInt64) x => (h ^^^ UInt64.ofNat x) * 0x100000001b3) (0xcbf29ce484222325 : UInt64)).toNat

def handleParBook : List String → String
  | ["plan", len, m, t] =>
    match len.toNat?, m.toNat?, t.toNat? with
    | some len, some m, some t => showPlan (batchIterMut3 len t m)
    | _, _, _ => "bad-op"
  | ["plan2", len, t] =>
    match len.toNat?, t.toNat? with
    | some len, some t => showPlan (batchIterMut2 len t)
    | _, _ => "bad-op"
  | [op, _fld, ln, lc, ll, cyc, t] =>
    if op != "eval" && op != "evalx" then "bad-op" else
    match ln.toNat?, lc.toNat?, ll.toNat?, t.toNat? with
    | some ln, some lc, some ll, some t =>
      let cycle : Option Nat := if cyc == "-" then some 0 else cyc.toNat?.map (2 ^ ·)
      match cycle with
      | none => "bad-op"
      | some cycle =>
        let ce := 2 ^ ln * 2 ^ lc
        let width := if cycle = 0 then 0 else 1
        let tableLen := cycle * 2 ^ lc
        match evaluateFragments true ce t, evaluateRows true ce t (ll - lc) tableLen width with
        | some fs, some rows =>
          let per := rows.flatMap (fun r => r.periodic.getD [])
          s!"frags={showPlan (some fs)} lde={pbDigest (rows.map (·.ldeStep))} per={pbDigest per}"
        | _, _ => "abort"
    | _, _, _, _ => "bad-op"
  | _ => "bad-op"

end Wf.Drv
