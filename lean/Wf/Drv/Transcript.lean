/- Line protocol for the transcript correspondence (C03). -/
import Wf.Model.Transcript
import Wf.Drv.Util
namespace Wf.Drv
open Wf.Transcript

/-- `c03t <aux 0|1> <lde domain> <blowup> <folding> <remainder max degree> <queries>` -/
def handleTranscript : List String → String
  | [aux, lde, b, f, rd, q] =>
    match aux.toNat?, lde.toNat?, b.toNat?, f.toNat?, rd.toNat?, q.toNat? with
    | some aux, some lde, some b, some f, some rd, some q =>
      " ".intercalate ((verifierTranscript (aux != 0) lde b f rd q).map showEv)
    | _, _, _, _, _, _ => "bad-op"
  | _ => "bad-op"

end Wf.Drv
