/- Line protocol for the C14 family (batch field utilities, slice grouping / transposition).

  c14 <field> binv <threads> <list>            list = elements separated by `;`, `-` = empty,
  c14 <field> pow <threads> <b> <n>            element = comma-separated canonical coefficients
  c14 <field> powoff <threads> <b> <s> <n>
  c14 <field> fill <len> <base> <start>
  c14 <field> addip <list a> <list b>
  c14 <field> mulacc <list a> <list b (base-field values)> <c>
  c14 nat group|flat|transpose <N> <list>      (`flat`: list of arrays `a,b;c,d`)
  c14 plan <len> <threads> <min>               chunk plan `off:len;off:len`
Answer: a list in the same format (`empty` for the empty list), or `abort` for a panic. -/
import Wf.Model.BatchUtils
import Wf.Drv.Fields
namespace Wf.Drv
open Wf Wf.BatchUtils

def parseElemList (s : String) : Option (List (List Nat)) :=
  if s == "-" then some [] else (s.splitOn ";").mapM parseNatList

def showElemList (es : List (List Nat)) : String :=
  if es.isEmpty then "-" else ";".intercalate (es.map showElem)

/-- answers: `empty` for the empty list (`-` is the check driver's "no oracle" marker) -/
def ansList (es : List (List Nat)) : String :=
  if es.isEmpty then "empty" else showElemList es

def showOptList {F} (v : VField F) : Option (List F) → String
  | none => "abort"
  | some xs => ansList (xs.map v.toCanon)

/-- pick the field instance by name and run `k` on it -/
def withField (fld : String) (k : {F : Type} → VField F → Option String) : Option String :=
  match fld with
  | "f64" => k f64Field
  | "f64x2" => k f64x2Field
  | "f64x3" => k f64x3Field
  | "f62" => k f62Field
  | "f62x2" => k f62x2Field
  | "f62x3" => k f62x3Field
  | "f128" => k f128Field
  | "f128x2" => k f128x2Field
  | _ => none

def runBatchOp {F} (v : VField F) (op : String) (args : List String) : Option String :=
  let elems (s : String) : Option (List F) := (parseElemList s).map (·.map v.ofCanon)
  let elem (s : String) : Option F := (parseNatList s).map v.ofCanon
  match op, args with
  | "binv", [t, xs] => do
    let t ← t.toNat?
    let xs ← elems xs
    pure (showOptList v (batchInversion v.ops t xs))
  | "pow", [t, b, n] => do
    let t ← t.toNat?
    let b ← elem b
    let n ← n.toNat?
    pure (showOptList v (getPowerSeries v.ops v.exp t b n))
  | "powoff", [t, b, s, n] => do
    let t ← t.toNat?
    let b ← elem b
    let s ← elem s
    let n ← n.toNat?
    pure (showOptList v (getPowerSeriesWithOffset v.ops v.exp t b s n))
  | "fill", [len, b, s] => do
    let len ← len.toNat?
    let b ← elem b
    let s ← elem s
    pure (showOptList v (fillPowerSeries v.ops len b s))
  | "addip", [a, b] => do
    let a ← elems a
    let b ← elems b
    pure (showOptList v (addInPlace v.ops a b))
  | "mulacc", [a, b, c] => do
    let a ← elems a
    let b ← parseElemList b
    let c ← elem c
    pure (showOptList v (mulAcc v.ops v.mulBase a (b.map (·.headD 0)) c))
  | _, _ => none

def showNested : Option (List (List Nat)) → String
  | none => "abort"
  | some xss => ansList xss

def handleBatchUtils : List String → String
  | ["plan", len, t, m] =>
    match len.toNat?, t.toNat?, m.toNat? with
    | some len, some t, some m =>
      match chunkPlan len t m with
      | none => "abort"
      | some cs => ";".intercalate (cs.map (fun c => s!"{c.1}:{c.2}"))
    | _, _, _ => "bad-op"
  | ["nat", op, n, xs] =>
    match n.toNat? with
    | none => "bad-op"
    | some n =>
      match op with
      | "group" => match parseNatList xs with
        | some xs => showNested (groupSliceElements n xs)
        | none => "bad-op"
      | "transpose" => match parseNatList xs with
        | some xs => showNested (transposeSlice n xs)
        | none => "bad-op"
      | "flat" => match parseElemList xs with
        | some xss => showElem (flattenElements xss) |> fun s => if s.isEmpty then "empty" else s
        | none => "bad-op"
      | _ => "bad-op"
  | fld :: op :: args => (withField fld (fun v => runBatchOp v op args)).getD "bad-op"
  | _ => "bad-op"

end Wf.Drv
