/- Line protocol for the C13 family (polynomial helpers).  Lists as in `Wf/Drv/BatchUtils.lean`
(elements separated by `;`, `-` = empty in requests, `empty` in answers; `abort` = panic).

  c13 <field> eval <p> <x>                 c13 <field> evalmany <p> <xs>
  c13 <field> add|sub|mul|div <a> <b>      c13 <field> mulk <p> <k>
  c13 <field> syndiv|syndivip <p> <a> <b>  c13 <field> syndivroots <p> <roots>
  c13 <field> degree <p>                   c13 <field> rlz <p>
  c13 <field> fromroots <xs>
  c13 <field> interp <threads> <xs> <ys> <0|1>
  c13 <field> ibatch <threads> <N> <xs> <ys>     (flat lists, grouped by N; rows of the answer
                                                  are separated by `|`) -/
import Wf.Model.Polynom
import Wf.Drv.BatchUtils
namespace Wf.Drv
open Wf Wf.Polynom

def groupBy {α} (n : Nat) (xs : List α) : Option (List (List α)) :=
  if n = 0 then (if xs.isEmpty then some [] else none) else BatchUtils.groupSliceElements n xs

def runPolyOp {F} (v : VField F) (op : String) (args : List String) : Option String :=
  let elems (s : String) : Option (List F) := (parseElemList s).map (·.map v.ofCanon)
  let elem (s : String) : Option F := (parseNatList s).map v.ofCanon
  let o := v.ops
  match op, args with
  | "eval", [p, x] => do
    let p ← elems p
    let x ← elem x
    pure (showElem (v.toCanon (eval o p x)))
  | "evalmany", [p, xs] => do
    let p ← elems p
    let xs ← elems xs
    pure (showOptList v (some (evalMany o p xs)))
  | "add", [a, b] => do pure (showOptList v (some (add o (← elems a) (← elems b))))
  | "sub", [a, b] => do pure (showOptList v (some (sub o (← elems a) (← elems b))))
  | "mul", [a, b] => do pure (showOptList v (mul o (← elems a) (← elems b)))
  | "div", [a, b] => do pure (showOptList v (div o (← elems a) (← elems b)))
  | "mulk", [p, k] => do pure (showOptList v (some (mulByScalar o (← elems p) (← elem k))))
  | "syndiv", [p, a, b] => do pure (showOptList v (synDiv o (← elems p) (← a.toNat?) (← elem b)))
  | "syndivip", [p, a, b] => do pure (showOptList v (synDivInPlace o (← elems p) (← a.toNat?) (← elem b)))
  | "syndivroots", [p, rs] => do pure (showOptList v (synDivRootsInPlace o (← elems p) (← elems rs)))
  | "degree", [p] => do pure (toString (degreeOf o (← elems p)))
  | "rlz", [p] => do pure (showOptList v (some (removeLeadingZeros o (← elems p))))
  | "fromroots", [xs] => do pure (showOptList v (some (polyFromRoots o (← elems xs))))
  | "interp", [t, xs, ys, r] => do
    pure (showOptList v (interpolate o (← t.toNat?) (← elems xs) (← elems ys) (r == "1")))
  | "ibatch", [t, n, xs, ys] => do
    let n ← n.toNat?
    let xs ← groupBy n (← elems xs)
    let ys ← groupBy n (← elems ys)
    match interpolateBatch o (← t.toNat?) n xs ys with
    | none => pure "abort"
    | some rows =>
      pure (if rows.isEmpty then "empty" else "|".intercalate (rows.map (fun r => showOptList v (some r))))
  | _, _ => none

def handlePolynom : List String → String
  | fld :: op :: args => (withField fld (fun v => runPolyOp v op args)).getD "bad-op"
  | _ => "bad-op"

end Wf.Drv
