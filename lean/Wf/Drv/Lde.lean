/- Line protocol for C28 (LDE matrices, row commitments, partition options).

  c28 <fld> lde <N> <kind> <ncols> <k> <blowup> <seed> <rows>        RowMatrix::evaluate_polys::<N>
  c28 <fld> ldeover <N> <kind> <ncols> <k> <blowup> <s> <seed> <rows> evaluate_polys_over::<N> (offset s)
  c28 <fld> evalcols <kind> <ncols> <k> <blowup> <s> <seed> <rows>    ColMatrix::evaluate_columns_over
  c28 <fld> interp <kind> <ncols> <k> <seed> <rows>                   ColMatrix::interpolate_columns
  c28 <fld> rt <N> <kind> <ncols> <k> <blowup> <seed>                 interpolate, LDE over offset 1,
                                                                      rows i·blowup
  c28 <fld> commit <N> <kind> <ncols> <k> <blowup> <np> <rate> <seed> commit_to_rows (test hasher)
  c28 <fld> real <hasher> <N> <kind> <ncols> <k> <blowup> <np> <rate> <seed>   prover digest rule =
                                                                      verifier digest rule + layout
  c28 <fld> dom <k> <deg> <blowup>                                    StarkDomain::new(air) accessors
  c28 <fld> airover <N> <kind> <ncols> <k> <deg> <blowup> <seed> <rows>   evaluate_polys_over on
  c28 <fld> aircols <kind> <ncols> <k> <deg> <blowup> <seed> <rows>       / evaluate_columns_over on
                                  StarkDomain::new(air), air = one transition constraint of degree
                                  <deg>, trace length 2^k, LDE blowup <blowup>, offset GENERATOR
  c28 po <np> <rate> <degree> <cols>                                  partition_size, num_partitions
  c28 e2e …                                                           honest prove + verify with the
                                                                      given partition options: `ok`
<fld> = f64 | f128 | f64x2 | f64x3.  Columns are generated from `<seed>` (column `j` from
`seed + j·0x9E3779B97F4A7C15`): kind 0 dense LCG, 1 sparse (leading `seed_j mod (n+1)` coefficients,
possibly the zero polynomial), 2 boundary values (0, 1, p−1, (p−1)/2).  `<rows>` = comma list of row
indices printed in full (`-` none).  Matrix answer: `<rows>x<cols>:w<row_width>:<row>/<row>…:h<fnv>`
(elements `;`-separated, coordinates `,`-separated), `abort` for a panic. -/
import Wf.Model.Lde
import Wf.Model.Hashers
import Wf.Drv.Fft
namespace Wf.Drv.C28
open Wf Wf.Fft Wf.Lde Wf.Drv Wf.Drv.C12

structure LField (B E : Type) where
  f : FftField B E
  x : ExtView B E
  params : FieldParams

def lF64 : LField (BitVec 64) (BitVec 64) := ⟨fftF64, ExtView.base F64.zero, paramsF64⟩
def lF128 : LField (BitVec 128) (BitVec 128) := ⟨fftF128, ExtView.base F128.baseOps.zero, paramsF128⟩
def lF64x2 : LField (BitVec 64) (BitVec 64 × BitVec 64) :=
  ⟨fftF64x2, ⟨2, fun e => [e.1, e.2], fun l => (l.getD 0 F64.zero, l.getD 1 F64.zero)⟩, paramsF64⟩

def lF64x3 : LField (BitVec 64) (BitVec 64 × BitVec 64 × BitVec 64) :=
  ⟨fftF64x3, ⟨3, fun e => [e.1, e.2.1, e.2.2],
    fun l => (l.getD 0 F64.zero, l.getD 1 F64.zero, l.getD 2 F64.zero)⟩, paramsF64⟩

/-! ### column generation (shared with `harness/src/c28.rs`) -/

def colSeed (seed j : Nat) : Nat := (seed + j * 0x9E3779B97F4A7C15) % 2 ^ 64

partial def boundaryCol (p deg n seed : Nat) : Array (List Nat) := Id.run do
  let mut out : Array (List Nat) := Array.mkEmpty n
  let mut s := seed
  for _ in [0:n] do
    let mut e : List Nat := []
    for _ in [0:deg] do
      s := lcgNext s
      let v := match (s / 2 ^ 33) % 4 with
        | 0 => 0
        | 1 => 1
        | 2 => p - 1
        | _ => (p - 1) / 2
      e := e ++ [v]
    out := out.push e
  return out

def genCol (p deg n kind seed : Nat) : Array (List Nat) :=
  match kind with
  | 0 => lcgVec p deg n n seed
  | 1 => lcgVec p deg n (seed % (n + 1)) seed
  | _ => boundaryCol p deg n seed

def genMatrix {B E} (l : LField B E) (kind ncols n seed : Nat) : ColMatrix E :=
  (List.range ncols).map fun j =>
    (genCol l.f.p l.f.deg n kind (colSeed seed j)).map l.f.ve.ofCanon

/-! ### rendering -/

def fnvInit : UInt64 := 0xcbf29ce484222325

def showRow (r : List (List Nat)) : String := ";".intercalate (r.map showElem)

/-- `rows` in canonical form; `sel` = indices printed in full -/
def showMatrix (rows : Array (List (List Nat))) (rowWidth : Nat) (sel : List Nat) : String :=
  let cols := (rows.getD 0 []).length
  let h := rows.foldl (fun h r => r.foldl (fun h e => e.foldl fnvStep h) h) fnvInit
  let picked := sel.map fun i => showRow (rows.getD i [])
  let ps := if picked.isEmpty then "-" else "/".intercalate picked
  s!"{rows.size}x{cols}:w{rowWidth}:{ps}:h{h.toNat}"

def canonRows {B E} (l : LField B E) (m : RowMatrix B) : Array (List (List Nat)) :=
  (Array.range m.numRows).map fun r => (m.rowAt l.x l.f.ctx.b.zero r).map l.f.ve.toCanon

def showRowMatrix {B E} (l : LField B E) (sel : List Nat) : Option (RowMatrix B) → String
  | none => "abort"
  | some m => showMatrix (canonRows l m) m.rowWidth sel

/-- a column-major matrix printed row by row (`w0`) -/
def showColMatrix {B E} (l : LField B E) (sel : List Nat) : Option (ColMatrix E) → String
  | none => "abort"
  | some cm =>
    let rows := (Array.range (numRows cm)).map fun r =>
      (colRow l.f.ctx.e.zero cm r).map l.f.ve.toCanon
    showMatrix rows 0 sel

def parseSel (s : String) : Option (List Nat) := parseNatList s

def domainOf {B E} (l : LField B E) (n blowup s : Nat) : Option (Domain B) :=
  (getTwiddles (baseCtx l.f.ctx) n).map fun tws => ⟨tws, blowup, l.f.vb.ofCanon [s]⟩

/-! ### the test hasher (`ToyE` of the harness: `Toy::hash` over the canonical bytes) -/

def toyInit : Nat := 0xcbf29ce484222325

def toyHasher (params : FieldParams) : RowHasher (List Nat) Nat where
  hashElements := fun es =>
    (ByteHasher.preHashElements params es).foldl (fun h b => Merkle.toyStep h b.toNat) toyInit
  mergeMany := fun ds =>
    ds.foldl (fun h d =>
      [Merkle.word d 0, Merkle.word d 1, Merkle.word d 2, Merkle.word d 3].foldl Merkle.toyStep h)
      toyInit
  default := 0

def showDigest (d : Nat) : String :=
  s!"{Merkle.word d 0}.{Merkle.word d 1}.{Merkle.word d 2}.{Merkle.word d 3}"

/-- a transparent hasher: the digest is the list of hashed chunks -/
def layoutHasher : RowHasher Nat (List (List Nat)) := ⟨fun l => [l], fun ds => ds.flatten, []⟩

def showLayout (po : PartitionOptions) (degree cols : Nat) : String :=
  let row := List.range cols
  let ps := partitionSize po degree cols
  let agree := hashRowProver layoutHasher po degree row == hashRowVerifierAt layoutHasher po degree row
  let np := match numPartitions po degree cols with
    | none => "abort"
    | some k => toString k
  let lens :=
    if ps = cols then "whole"
    else ",".intercalate ((chunks ps row).map fun c => toString c.length)
  let v := if agree then "ok" else "diff"
  s!"{v} ps={ps} np={np} lens={lens}"

def poValid (po : PartitionOptions) : Bool :=
  1 ≤ po.numPartitions && po.numPartitions ≤ 16 && 1 ≤ po.hashRate && po.hashRate ≤ 255

/-! ### dispatch -/

def runLde {B E} (l : LField B E) (op : String) (args : List String) : Option String :=
  let c := l.f.ctx
  let gen : B := l.f.vb.ofCanon [l.params.generator]
  match op, args.mapM String.toNat? , args with
  | "lde", _, [nN, kind, ncols, k, blowup, seed, rows] => do
    let nN ← nN.toNat?; let kind ← kind.toNat?; let ncols ← ncols.toNat?; let k ← k.toNat?
    let blowup ← blowup.toNat?; let seed ← seed.toNat?; let sel ← parseSel rows
    let polys := genMatrix l kind ncols (2 ^ k) seed
    pure (showRowMatrix l sel (evaluatePolys c l.x nN gen polys blowup))
  | "ldeover", _, [nN, kind, ncols, k, blowup, s, seed, rows] => do
    let nN ← nN.toNat?; let kind ← kind.toNat?; let ncols ← ncols.toNat?; let k ← k.toNat?
    let blowup ← blowup.toNat?; let s ← s.toNat?; let seed ← seed.toNat?; let sel ← parseSel rows
    let polys := genMatrix l kind ncols (2 ^ k) seed
    pure (showRowMatrix l sel ((domainOf l (2 ^ k) blowup s).bind (evaluatePolysOver c l.x nN polys)))
  | "evalcols", _, [kind, ncols, k, blowup, s, seed, rows] => do
    let kind ← kind.toNat?; let ncols ← ncols.toNat?; let k ← k.toNat?
    let blowup ← blowup.toNat?; let s ← s.toNat?; let seed ← seed.toNat?; let sel ← parseSel rows
    let polys := genMatrix l kind ncols (2 ^ k) seed
    pure (showColMatrix l sel ((domainOf l (2 ^ k) blowup s).bind (evaluateColumnsOver c polys)))
  | "dom", some [k, deg, blowup], _ =>
    some (match starkDomainOfAir c (2 ^ k) [⟨deg, []⟩] blowup gen with
      | none => "abort"
      | some d =>
        s!"tl={d.traceLength} ce={d.ceDomainSize} lde={d.ldeDomainSize} t2c={d.traceToCeBlowup} t2l={d.traceToLdeBlowup} c2l={d.ceToLdeBlowup} off={showElem (l.f.vb.toCanon d.offset)}")
  | "airover", _, [nN, kind, ncols, k, deg, blowup, seed, rows] => do
    let nN ← nN.toNat?; let kind ← kind.toNat?; let ncols ← ncols.toNat?; let k ← k.toNat?
    let deg ← deg.toNat?; let blowup ← blowup.toNat?; let seed ← seed.toNat?; let sel ← parseSel rows
    let polys := genMatrix l kind ncols (2 ^ k) seed
    pure (showRowMatrix l sel ((starkDomainOfAir c (2 ^ k) [⟨deg, []⟩] blowup gen).bind
      (fun d => evaluatePolysOver c l.x nN polys d.toDomain)))
  | "aircols", _, [kind, ncols, k, deg, blowup, seed, rows] => do
    let kind ← kind.toNat?; let ncols ← ncols.toNat?; let k ← k.toNat?
    let deg ← deg.toNat?; let blowup ← blowup.toNat?; let seed ← seed.toNat?; let sel ← parseSel rows
    let polys := genMatrix l kind ncols (2 ^ k) seed
    pure (showColMatrix l sel ((starkDomainOfAir c (2 ^ k) [⟨deg, []⟩] blowup gen).bind
      (fun d => evaluateColumnsOver c polys d.toDomain)))
  | "interp", _, [kind, ncols, k, seed, rows] => do
    let kind ← kind.toNat?; let ncols ← ncols.toNat?; let k ← k.toNat?
    let seed ← seed.toNat?; let sel ← parseSel rows
    let tr := genMatrix l kind ncols (2 ^ k) seed
    pure (showColMatrix l sel (interpolateColumns c tr))
  | "rt", some [nN, kind, ncols, k, blowup, seed], _ =>
    let tr := genMatrix l kind ncols (2 ^ k) seed
    let r := do
      let polys ← interpolateColumns c tr
      let dom ← domainOf l (2 ^ k) blowup 1
      let m ← evaluatePolysOver c l.x nN polys dom
      let rows ← (List.range (2 ^ k)).mapM fun i => m.row l.x c.b.zero (i * blowup)
      pure (rows.map (fun r => r.map l.f.ve.toCanon)).toArray
    some (match r with
      | none => "abort"
      | some rows => showMatrix rows 0 [])
  | "commit", some [nN, kind, ncols, k, blowup, np, rate, seed], _ =>
    let polys := genMatrix l kind ncols (2 ^ k) seed
    some (match evaluatePolys c l.x nN gen polys blowup with
      | none => "abort"
      | some m =>
        let rows := (canonRows l m).toList
        match rowHashes (toyHasher l.params) ⟨np, rate⟩ l.x.degree rows with
        | none => "abort"
        | some hs =>
          match Merkle.Tree.new Merkle.toyMerge hs with
          | .ok t =>
            match t.root with
            | .ok r =>
              let lh := hs.foldl (fun h d => fnvStep h (Merkle.word d 0)) fnvInit
              s!"root={showDigest r}:lh{lh.toNat}"
            | _ => "abort"
          | _ => "abort")
  | "real", _, [_hasher, _nN, _kind, ncols, _k, _blowup, np, rate, _seed] => do
    let ncols ← ncols.toNat?; let np ← np.toNat?; let rate ← rate.toNat?
    pure (showLayout ⟨np, rate⟩ l.x.degree ncols)
  | _, _, _ => none

def handle : List String → String
  | "e2e" :: _ => "ok"   -- ideal verdict of an honest proof (oracle-only lines, see c28.rs)
  | ["po", np, rate, degree, cols] =>
    match np.toNat?, rate.toNat?, degree.toNat?, cols.toNat? with
    | some np, some rate, some degree, some cols =>
      if !poValid ⟨np, rate⟩ then "abort"
      else
        match numPartitions ⟨np, rate⟩ degree cols with
        | none => "abort"
        | some k => s!"{partitionSize ⟨np, rate⟩ degree cols} {k}"
    | _, _, _, _ => "bad-op"
  | fld :: op :: args =>
    let r := match fld with
      | "f64" => runLde lF64 op args
      | "f128" => runLde lF128 op args
      | "f64x2" => runLde lF64x2 op args
      | "f64x3" => runLde lF64x3 op args
      | _ => none
    r.getD "bad-op"
  | _ => "bad-op"

end Wf.Drv.C28

def Wf.Drv.handleLde : List String → String := Wf.Drv.C28.handle
