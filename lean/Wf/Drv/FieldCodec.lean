/- Line protocol for the C11 family (field constants and canonical encodings). -/
import Wf.Model.FieldCodec
import Wf.Drv.Util
namespace Wf.Drv
open Wf

def optNat : Option Nat → String
  | some v => s!"ok {v}"
  | none => "err"

def handleCodec : List String → String
  | fld :: rest =>
    let pf : Option (FieldParams × Nat) := match fld with
      | "f64" => some (paramsF64, 1) | "f62" => some (paramsF62, 1) | "f128" => some (paramsF128, 1)
      | "f64x2" => some (paramsF64, 2) | "f62x2" => some (paramsF62, 2) | "f128x2" => some (paramsF128, 2)
      | "f64x3" => some (paramsF64, 3) | "f62x3" => some (paramsF62, 3)
      | _ => none
    match pf with
    | none => "bad-op"
    | some (f, deg) =>
      match rest with
      | ["read", h] => match parseHex h with
        | some bs => (match f.readExt deg [] bs with
          | .ok vs r => s!"ok {",".intercalate (vs.map toString)} {bs.length - r.length}"
          | .err e => "err " ++ errStr e
          | .abort => "abort")
        | none => "bad-op"
      | ["write", vs] => match parseNatList vs with
        | some vs => toHex (f.writeExt vs)
        | none => "bad-op"
      | ["try_int", v] => match v.toNat? with
        | some v => optNat (f.tryFromInt v)
        | none => "bad-op"
      | ["try_slice", h] => match parseHex h with
        | some bs => optNat (f.tryFromSlice bs)
        | none => "bad-op"
      | ["pad", h] => match parseHex h with
        | some bs => optNat (f.fromBytesWithPadding bs)
        | none => "bad-op"
      | ["from_small", v] => match v.toNat? with
        | some v => toString (f.fromSmall v)
        | none => "bad-op"
      | ["to_small", bits, v] => match bits.toNat?, v.toNat? with
        | some b, some v => optNat (FieldParams.toSmall b v)
        | _, _ => "bad-op"
      | ["root", n] => match n.toNat? with
        | some n => (match f.rootOfUnity n with | some r => s!"{r} order-ok" | none => "abort")
        | none => "bad-op"
      | ["modulus_bytes"] => toHex (leBytes f.bytes f.m)
      | ["consts"] => s!"{f.m} {f.generator} {f.twoAdicity} {f.root}"
      | _ => "bad-op"
  | _ => "bad-op"

end Wf.Drv
