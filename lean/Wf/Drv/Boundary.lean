/- Line protocol for the C22 family (boundary constraints, group divisors, coefficient order);
request syntax: see harness/src/c22.rs.  Composition coefficients are 1, 2, 3, .. in list order. -/
import Wf.Model.Boundary
import Wf.Drv.AirDivisor
import Wf.Drv.Assertions
namespace Wf.Drv.C22
open Wf Wf.Drv Wf.Drv.C23 Wf.AirDivisor Wf.Boundary

/-- `Air::get_boundary_constraints` of a single-segment AIR whose context declares as many
assertions as it lists, with coefficients 1, 2, .. -/
def bcNew {F} (v : VField F) (fp : FieldParams) (w n : Nat) (as : List Assertion) :
    Except NewErr (List (Group F Nat)) :=
  match domainGenerator v fp n with
  | none => .error .numSteps
  | some g =>
    boundaryConstraintsNew v.ops v.exp v.ops.ofNat (interpFor v fp) g w n as.length as
      ((List.range as.length).map (· + 1))

def renderGroup {F} (v : VField F) (g : Group F Nat) : String :=
  let num := g.divisor.numerator
  let head := s!"[{"+".intercalate (num.map fun t => toString t.1)},{"+".intercalate (num.map fun t => canonStr v t.2)},{g.divisor.degree}]"
  let cs := g.constraints.map fun c =>
    s!"{c.column}/{c.cc}/{c.polyOffset.1}/{canonStr v c.polyOffset.2}/{dashList (c.poly.map (canonStr v))}"
  head ++ ";".intercalate cs

def newAnswer {F} (v : VField F) (fp : FieldParams) (w n : Nat) (as : List Assertion) : String :=
  match bcNew v fp w n as with
  | .ok gs => "ok " ++ " ".intercalate (gs.map (renderGroup v))
  | .error (.prep (.invalid _)) => "abort invalid"
  | .error (.prep .overlap) => "abort overlap"
  | .error _ => "abort other"

def parsePair (s : String) : Option (Nat × Nat) :=
  match s.splitOn ":" with
  | [x, t] => do pure ((← x.toNat?), (← t.toNat?))
  | _ => none

def evalAnswer {F} (v : VField F) (fp : FieldParams) (n : Nat) (a : Assertion) (pairs : List (Nat × Nat)) :
    String :=
  match bcNew v fp (a.column + 1) n [a] with
  | .ok [g] =>
    (match g.constraints with
     | [c] => dashList (pairs.map fun (x, t) => canonStr v (c.evaluateAt v.ops (v.ofCanon [x]) (v.ofCanon [t])))
     | _ => "abort shape")
  | _ => "abort"

def gdivAnswer {F} (v : VField F) (fp : FieldParams) (n : Nat) (a : Assertion) (xs : List Nat) : String :=
  match bcNew v fp (a.column + 1) n [a] with
  | .ok [g] =>
    let vals := xs.map fun x => canonStr v (g.divisor.evaluateAt v.ops v.exp (v.ofCanon [x]))
    s!"deg={g.divisor.degree} vals={dashList vals}"
  | _ => "abort"

end Wf.Drv.C22

open Wf Wf.Drv.C23 Wf.Drv.C22 in
def Wf.Drv.handleBoundary : List String → String
  | "new" :: f :: w :: n :: as =>
    match w.toNat?, n.toNat?, as.mapM parseValid with
    | some w, some n, some as => withBaseField f "bad-op" fun v fp => newAnswer v fp w n as
    | _, _, _ => "bad-op"
  | ["eval", f, n, a, pairs] =>
    match n.toNat?, parseValid a, (pairs.splitOn ",").mapM parsePair with
    | some n, some a, some pairs => withBaseField f "bad-op" fun v fp => evalAnswer v fp n a pairs
    | _, _, _ => "bad-op"
  | ["gdiv", f, n, a, xs] =>
    match n.toNat?, parseValid a, parseNatList xs with
    | some n, some a, some xs => withBaseField f "bad-op" fun v fp => gdivAnswer v fp n a xs
    | _, _, _ => "bad-op"
  | _ => "bad-op"

