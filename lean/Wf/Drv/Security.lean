/- Line protocol for the C25 family (security estimates and AcceptableOptions::validate).

A context is written as in the `obj` family (17 words):
  `main aux rands length metahex modulushex q b g e f rd bc bd np hr num_constraints`.
Requests (`c25 <op> ..`):
  sec <cr> <ctx>                  -> `<conj> <ud> <ld> <bounds tag>`
  seczero <cr> <context bytes>    -> `decode-rejected` (all-zero modulus; the levels if it were decoded)
  tab conj <axis> <cr> <ctx>      -> `v,v,.. <bounds tag> <mono tag>`     axis q: 1..255, g: 0..32, e: 1..3
  tab proven <axis> <cr> <ctx>    -> `ud:ld,ud:ld,.. <bounds tag> <mono tag>`
  grid <cr> <ctx>                 -> `sum=<S> hash=<H> <bounds tag> <mono tag>`  (all e x g x q, conjectured)
  validate conj <min> <cr> <ctx>  -> (`ok` | `err conj <min> <got>`) + ` <is_at_least(min)>`
  validate proven <min> <cr> <ctx>-> (`ok` | `err proven <min> <got>`) + ` <is_at_least(min)>`
  validate set <k> <po>*k <cr> <ctx> -> `ok` | `err options`
The tags are computed from the MODEL's values by the same comparisons the harness runs on the
implementation's values.  The harness is a release build, so the model runs in `release` mode.
-/
import Wf.Model.Security
import Wf.Drv.ProofObjects
namespace Wf.Drv
open Wf Wf.Security

def c25Bits (c : Context) : Nat := numModulusBits c.modulus

def boundConj (c : Context) (cr v : Nat) : Option String :=
  if v > cr then some "conj>cr"
  else if v ≥ c25Bits c * c.options.ext then some "conj>=field"
  else none

def boundProven (cr ud ld : Nat) : Option String :=
  if ud > cr then some "ud>cr" else if ld > cr then some "ld>cr" else none

def withAxis (c : Context) (axis : String) (x : Nat) : Context :=
  match axis with
  | "q" => { c with options := { c.options with queries := x } }
  | "g" => { c with options := { c.options with grinding := x } }
  | _ => { c with options := { c.options with ext := x } }

def axisValues (axis : String) : List Nat :=
  match axis with
  | "q" => (List.range 255).map (· + 1)
  | "g" => List.range 33
  | _ => [1, 2, 3]

/-- first adjacent pair (in list order) whose second value is smaller -/
def firstDrop : List (Nat × Nat) → Option (Nat × Nat × Nat)
  | (x, a) :: (y, b) :: rest => if b < a then some (x, a, b) else firstDrop ((y, b) :: rest)
  | _ => none

def monoTag (series : List (String × List (Nat × Nat))) : String :=
  match series.findSome? (fun (w, l) => (firstDrop l).map fun (x, a, b) => s!"MONO-VIOLATION {w} {x} {a} {b}") with
  | some s => s
  | none => "mono-ok"

def tabConj (axis : String) (cr : Nat) (c : Context) : String :=
  let xs := axisValues axis
  match xs.mapM (fun x => (conjecturedOfContext .release (withAxis c axis x) cr).map fun v => (x, v)) with
  | none => "abort"
  | some pts =>
    let bt := match pts.findSome? (fun (x, v) => (boundConj (withAxis c axis x) cr v).map fun w => s!"BOUND-VIOLATION {x} {w}") with
      | some s => s
      | none => "bounds-ok"
    s!"{",".intercalate (pts.map fun p => toString p.2)} {bt} {monoTag [("conj", pts)]}"

def tabProven (axis : String) (cr : Nat) (c : Context) : String :=
  let xs := axisValues axis
  match xs.mapM (fun x => (provenOfContext (withAxis c axis x) cr).map fun v => (x, v)) with
  | none => "abort"
  | some pts =>
    let bt := match pts.findSome? (fun (x, v) => (boundProven cr v.1 v.2).map fun w => s!"BOUND-VIOLATION {x} {w}") with
      | some s => s
      | none => "bounds-ok"
    let mt := monoTag [("ud", pts.map fun p => (p.1, p.2.1)), ("ld", pts.map fun p => (p.1, p.2.2))]
    s!"{",".intercalate (pts.map fun p => s!"{p.2.1}:{p.2.2}")} {bt} {mt}"

/-- all `e × g × q` points (index `((e-1)·33 + g)·255 + (q-1)`), bounds at every point, monotonicity
towards the `q+1`, `g+1` and `e+1` neighbours of every point -/
def gridConj (cr : Nat) (c : Context) : String := Id.run do
  let bits := c25Bits c
  let mut vals : Array Nat := Array.mkEmpty 25245
  for e in [1, 2, 3] do
    for g in List.range 33 do
      for q0 in List.range 255 do
        let o := { c.options with ext := e, grinding := g, queries := q0 + 1 }
        match conjectured .release o bits cr with
        | none => return "abort"
        | some v => vals := vals.push v
  let getv := fun (e g q : Nat) => vals[((e - 1) * 33 + g) * 255 + (q - 1)]!
  let mut sum : Nat := 0
  let mut hash : Nat := 0
  let mut idx : Nat := 0
  let mut bt : Option String := none
  let mut mt : Option String := none
  for e in [1, 2, 3] do
    for g in List.range 33 do
      for q0 in List.range 255 do
        let q := q0 + 1
        let v := getv e g q
        idx := idx + 1
        sum := sum + v
        hash := (hash + v * idx) % 2305843009213693951
        if bt.isNone then
          if v > cr then bt := some s!"BOUND-VIOLATION {e} {g} {q} conj>cr"
          else if v ≥ bits * e then bt := some s!"BOUND-VIOLATION {e} {g} {q} conj>=field"
        if mt.isNone && q < 255 then
          let w := getv e g (q + 1)
          if w < v then mt := some s!"MONO-VIOLATION q {e} {g} {q} {v} {w}"
        if mt.isNone && g < 32 then
          let w := getv e (g + 1) q
          if w < v then mt := some s!"MONO-VIOLATION g {e} {g} {q} {v} {w}"
        if mt.isNone && e < 3 then
          let w := getv (e + 1) g q
          if w < v then mt := some s!"MONO-VIOLATION e {e} {g} {q} {v} {w}"
  return s!"sum={sum} hash={hash} {bt.getD "bounds-ok"} {mt.getD "mono-ok"}"

def secLine (cr : Nat) (c : Context) : String :=
  match conjecturedOfContext .release c cr, provenOfContext c cr with
  | some v, some (ud, ld) =>
    let bt := match boundConj c cr v with
      | some w => s!"BOUND-VIOLATION {w}"
      | none => match boundProven cr ud ld with
        | some w => s!"BOUND-VIOLATION {w}"
        | none => "bounds-ok"
    s!"{v} {ud} {ld} {bt}"
  | _, _ => "abort"

def showVerdict : Verdict → String
  | .ok => "ok"
  | .insufficientConjectured a b => s!"err conj {a} {b}"
  | .insufficientProven a b => s!"err proven {a} {b}"
  | .unacceptableOptions => "err options"
  | .abort => "abort"

def parsePOs : Nat → List String → Option (List ProofOptions × List String)
  | 0, ws => some ([], ws)
  | k + 1, ws => do
    let o ← parsePO (ws.take 10)
    let (os, rest) ← parsePOs k (ws.drop 10)
    pure (o :: os, rest)

def handleSecurity : List String → String
  | "sec" :: cr :: ctx => match cr.toNat?, parseCtx ctx with
    | some cr, some c => secLine cr c
    | _, _ => "bad-op"
  | ["seczero", cr, h] =>
    -- serialised context with an all-zero modulus: `Context::read_from` must reject it
    match cr.toNat?, parseHex h with
    | some cr, some bs => (match Context.decode bs with
      | .ok c _ => secLine cr c
      | .err _ => "decode-rejected"
      | .abort => "abort")
    | _, _ => "bad-op"
  | "tab" :: what :: axis :: cr :: ctx => match cr.toNat?, parseCtx ctx with
    | some cr, some c =>
      if what == "conj" then tabConj axis cr c else if what == "proven" then tabProven axis cr c else "bad-op"
    | _, _ => "bad-op"
  | "grid" :: cr :: ctx => match cr.toNat?, parseCtx ctx with
    | some cr, some c => gridConj cr c
    | _, _ => "bad-op"
  | "validate" :: "conj" :: mn :: cr :: ctx => match mn.toNat?, cr.toNat?, parseCtx ctx with
    | some mn, some cr, some c =>
      -- second word: `is_at_least(min)` of the security object itself
      let ial := match conjecturedOfContext .release c cr with
        | some v => toString (decide (v ≥ mn))
        | none => "abort"
      s!"{showVerdict (acceptableOptionsValidate .release (.minConjectured mn) c cr)} {ial}"
    | _, _, _ => "bad-op"
  | "validate" :: "proven" :: mn :: cr :: ctx => match mn.toNat?, cr.toNat?, parseCtx ctx with
    | some mn, some cr, some c =>
      let ial := match provenOfContext c cr with
        | some (ud, ld) => toString (decide (ld ≥ mn) || decide (ud ≥ mn))
        | none => "abort"
      s!"{showVerdict (acceptableOptionsValidate .release (.minProven mn) c cr)} {ial}"
    | _, _, _ => "bad-op"
  | "validate" :: "set" :: k :: rest => match k.toNat? with
    | some k => match parsePOs k rest with
      | some (os, cr :: ctx) => match cr.toNat?, parseCtx ctx with
        | some cr, some c => showVerdict (acceptableOptionsValidate .release (.optionSet os) c cr)
        | _, _ => "bad-op"
      | _ => "bad-op"
    | none => "bad-op"
  | _ => "bad-op"

end Wf.Drv
