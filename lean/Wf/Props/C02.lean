/-
C02 — proofs of unsatisfied statements are rejected (soundness side).

WHAT IS PROVED HERE, AND HOW IT IS TIED TO THE REAL PROVER/VERIFIER

Soundness of a STARK is PROBABILISTIC (over the verifier's Fiat–Shamir challenges: the
out-of-domain point z, the composition coefficients, the FRI challenges and the query positions)
and computational (hash collisions, grinding).  No theorem of the form "verify rejects every proof
of a false statement" exists, and none is claimed.  Rejection by the real
`winter_prover::Prover::prove` (release profile, no debug self-check) + `winter_verifier::verify`
is tied to the statements below by CORRESPONDENCE: the stream `c02` corrupts satisfying instances
(single cells at the first / interior / last non-exempt / exempt steps, rows, columns, perturbed
public inputs), classifies each corrupted instance with the independent Rust checker
`genair::satisfies`, runs the real prover and verifier and requires on EVERY instance
   implementation verdict ("prover failed" or "verifier rejected" = reject)
     = Lean ideal verdict (`idealVerdict`) = verdict of the independent checker.
The theorems of this file:

(5) `corruption_detected_by_spec_assert` / `_trans`, `ideal_verdict_rejects_*`: for ALL
    descriptions and traces, a differing asserted cell or a non-zero transition constraint on a
    non-exempt step makes the statement FALSE – the ideal verdict of every such instance is
    `reject`; `single_cell_corruption_rejected`: for every consistent description (the generator
    family) a single overridden cell in a row whose predecessor step is non-exempt (classes
    "interior" and "last non-exempt") ALWAYS falsifies the statement.
(4) `violation_has_no_quotient`: if the constraint polynomial does not vanish at a point of the
    divisor's set S then ∏_{a∈S}(X − a) does not divide it; `ood_check_passes_on_few_points`: then
    for ANY polynomial H (whatever the prover committed to) the out-of-domain identity
    C(z) = Z_S(z)·H(z) holds for at most max(deg C, |S| + deg H) values of z
    (`Polynomial.card_roots'` on C − Z·H ≠ 0) – the per-z soundness error of the OOD consistency
    check as a COUNTING theorem with explicit degrees; `violated_transition_ood_bound` instantiates
    it through the bridge from the description semantics (a transition constraint violated on a
    non-exempt step of the trace) over ZMod p.

NOT proved: that the committed columns ARE low-degree polynomials (FRI soundness, C09), binding
of the commitments (C03/C18, hash collision-freeness), unpredictability of z (random-oracle
assumption on the coin, C20), extension-field lifting of z, the random linear combination of
several constraints (a union-bound term 1/|F| per combination), grinding.
-/
import Wf.Lemmas.AirPoly
namespace Wf.Props.C02
open Wf.AirDesc Wf.AirPoly Wf.VanishDiv Polynomial

/-! ## (5) violations falsify the statement -/

/-- An asserted cell that differs from its claimed value: `satisfies = false`. `(a, c)` is an
(assertion, claimed values) pair, `s` the `i`-th step the assertion constrains. -/
theorem corruption_detected_by_spec_assert (p : Nat) (d : Desc) (rows : List (List Nat)) (n : Nat)
    (claimed : List (List Nat)) (a : Assert) (c : List Nat) (hx : (a, c) ∈ d.asserts.zip claimed)
    (i s : Nat) (hs : (assertSteps a n)[i]? = some s)
    (hne : cell rows s a.col ≠ (if a.kind = 2 then c.getD i 0 else c.getD 0 0) % p) :
    satisfies p d rows n claimed = false :=
  satisfies_false_of_assert p d rows n claimed a c hx i s hs hne

/-- A transition constraint that is non-zero on a non-exempt step: `satisfies = false`. -/
theorem corruption_detected_by_spec_trans (p : Nat) (d : Desc) (rows : List (List Nat)) (n : Nat)
    (claimed : List (List Nat)) (s : Nat) (hs : s < n - d.exemptions) (t : Trans) (ht : t ∈ d.trans)
    (hne : eval p (rows.getD s []) (rows.getD ((s + 1) % n) []) (perAt d s) t.ex ≠ 0) :
    satisfies p d rows n claimed = false :=
  satisfies_false_of_trans p d rows n claimed s hs t ht hne

/-- The ideal verdict of every instance with a violated assertion is `reject` … -/
theorem ideal_verdict_rejects_assert (p : Nat) (d : Desc) (n : Nat) (init : List Nat)
    (overrides : List (Nat × Nat × Nat)) (claimed : List (List Nat))
    (a : Assert) (c : List Nat) (hx : (a, c) ∈ d.asserts.zip claimed) (i s : Nat)
    (hs : (assertSteps a n)[i]? = some s)
    (hne : cell (buildTrace p d n init overrides) s a.col ≠ (if a.kind = 2 then c.getD i 0 else c.getD 0 0) % p) :
    idealVerdict p d n init overrides claimed = false :=
  satisfies_false_of_assert p d _ n claimed a c hx i s hs hne

/-- … and so is the ideal verdict of every instance with a violated transition constraint. -/
theorem ideal_verdict_rejects_trans (p : Nat) (d : Desc) (n : Nat) (init : List Nat)
    (overrides : List (Nat × Nat × Nat)) (claimed : List (List Nat))
    (s : Nat) (hs : s < n - d.exemptions) (t : Trans) (ht : t ∈ d.trans)
    (hne : eval p ((buildTrace p d n init overrides).getD s [])
      ((buildTrace p d n init overrides).getD ((s + 1) % n) []) (perAt d s) t.ex ≠ 0) :
    idealVerdict p d n init overrides claimed = false :=
  satisfies_false_of_trans p d _ n claimed s hs t ht hne

/-- Auxiliary segment: the ideal verdict with a corrupted auxiliary trace is `reject` as soon as
the main statement is false, or the corruption is a non-zero shift of an asserted column, or a
non-zero change of a cell whose preceding step is not exempt, or of an asserted cell. -/
theorem ideal_verdict_aux_rejects (p : Nat) (d : Desc) (n : Nat) (init : List Nat)
    (overrides : List (Nat × Nat × Nat)) (claimed : List (List Nat)) (c : AuxCorruption)
    (hd : c.delta % p ≠ 0)
    (h : (c.row = none ∧ ∃ a ∈ d.auxAsserts, a.col = c.col) ∨
         (∃ r, c.row = some r ∧ ((1 ≤ r ∧ r - 1 < n - d.exemptions) ∨ auxAsserted d c.col r = true))) :
    idealVerdictAux p d n init overrides claimed (some c) = false := by
  unfold idealVerdictAux auxCorruptionSatisfied
  simp only [if_neg hd]
  rcases h with ⟨hr, a, ha, hac⟩ | ⟨r, hr, h⟩
  · rw [hr]
    have : d.auxAsserts.any (fun a => a.col == c.col) = true :=
      List.any_eq_true.2 ⟨a, ha, by simp [hac]⟩
    simp [this]
  · rw [hr]
    rcases h with ⟨h1, h2⟩ | h
    · simp [h1, h2]
    · simp [h]

/-- without a corruption the extended verdict is the plain one -/
theorem ideal_verdict_aux_none (p : Nat) (d : Desc) (n : Nat) (init : List Nat)
    (overrides : List (Nat × Nat × Nat)) (claimed : List (List Nat)) :
    idealVerdictAux p d n init overrides claimed none = idealVerdict p d n init overrides claimed := by
  simp [idealVerdictAux]

/-- Conversely a `reject` of the ideal verdict always has such a witness (nothing else makes a
statement false). -/
theorem ideal_reject_has_witness (p : Nat) (d : Desc) (rows : List (List Nat)) (n : Nat)
    (claimed : List (List Nat)) (h : satisfies p d rows n claimed = false) :
    (∃ x ∈ d.asserts.zip claimed, assertHolds p rows n x.1 x.2 = false) ∨
    (∃ s, s < n - d.exemptions ∧ ∃ t ∈ d.trans,
      eval p (rows.getD s []) (rows.getD ((s + 1) % n) []) (perAt d s) t.ex ≠ 0) := by
  by_cases h1 : ∀ x ∈ d.asserts.zip claimed, assertHolds p rows n x.1 x.2 = true
  · right
    by_cases h2 : ∀ s, s < n - d.exemptions → transHoldsAt p d rows n s = true
    · have := (satisfies_iff p d rows n claimed).2 ⟨h1, h2⟩
      rw [this] at h; cases h
    · simp only [not_forall] at h2
      obtain ⟨s, hs, hf⟩ := h2
      refine ⟨s, hs, ?_⟩
      unfold transHoldsAt at hf
      rw [Bool.not_eq_true, List.all_eq_false] at hf
      obtain ⟨t, ht, hne⟩ := hf
      exact ⟨t, ht, by simpa using hne⟩
  · left
    simp only [not_forall] at h1
    obtain ⟨x, hx, hf⟩ := h1
    exact ⟨x, hx, by simpa using hf⟩

/-- Single-cell corruption, classes "interior" and "last non-exempt row": for EVERY consistent
description (the generator family), modulus, length, initial row and claimed values, overriding
one cell `(r, c)` with `1 ≤ r ≤ n − exemptions` by a value different (mod p) from the honest one
makes the ideal verdict `reject` (constraint `c` fails at the non-exempt step `r − 1`). -/
theorem single_cell_corruption_rejected (p : Nat) (hp : 0 < p) (d : Desc) (hc : Consistent d) (n : Nat)
    (init : List Nat) (claimed : List (List Nat)) (r c v : Nat)
    (hr1 : 1 ≤ r) (hr2 : r ≤ n - d.exemptions) (hrn : r < n) (hcw : c < d.width)
    (hne : v % p ≠ cell (buildTrace p d n init []) r c % p) :
    idealVerdict p d n init [(r, c, v)] claimed = false :=
  single_override_rejected p hp d hc n init claimed r c v hr1 hr2 hrn hcw hne

/-! ## (4) no quotient, and the out-of-domain check passes on few points only -/

/-- If `P` does not vanish at some point of `S`, the divisor `Z_S = ∏_{a∈S}(X − a)` does not divide
`P`: there is NO polynomial quotient the prover could commit to. -/
theorem violation_has_no_quotient {K : Type} [CommRing K] [IsDomain K] (S : Finset K) (P : K[X])
    {a : K} (ha : a ∈ S) (hne : P.eval a ≠ 0) : ¬ ∃ H : K[X], P = Z S * H := by
  rintro ⟨H, h⟩
  exact not_dvd_of_eval_ne_zero S P ha hne ⟨H, h⟩

/-- Per-point soundness error as a counting theorem: if `P` does not vanish at some point of `S`,
then for ANY polynomial `H` the identity `P(z) = Z_S(z)·H(z)` holds on at most
`max (deg P) (|S| + deg H)` points. -/
theorem ood_check_passes_on_few_points {K : Type} [CommRing K] [IsDomain K] (S : Finset K) (P H : K[X])
    {a : K} (ha : a ∈ S) (hne : P.eval a ≠ 0) (T : Finset K)
    (hT : ∀ z ∈ T, P.eval z = (Z S).eval z * H.eval z) :
    T.card ≤ max P.natDegree (S.card + H.natDegree) :=
  ood_identity_card_le S P H ha hne T hT

/-- … for a finite field: at most `max (deg P) (|S| + deg H)` of the `|K|` possible challenges
pass, i.e. a uniformly drawn `z` passes with probability ≤ `max(..)/|K|`. -/
theorem ood_check_passing_challenges {K : Type} [Field K] [Fintype K] [DecidableEq K] (S : Finset K)
    (P H : K[X]) {a : K} (ha : a ∈ S) (hne : P.eval a ≠ 0) :
    (Finset.univ.filter (fun z => P.eval z = (Z S).eval z * H.eval z)).card
      ≤ max P.natDegree (S.card + H.natDegree) :=
  ood_identity_count_le S P H ha hne

/-- outside `S` the identity is the verifier's division check `H(z) = P(z) / Z_S(z)` -/
theorem ood_identity_is_division {F : Type} [Field F] (S : Finset F) (P H : F[X]) {z : F} (hz : z ∉ S) :
    P.eval z = (Z S).eval z * H.eval z ↔ H.eval z = P.eval z / (Z S).eval z :=
  quotient_value S P H hz

/-- Through the bridge: a transition constraint `t` of the description violated at a non-exempt
step `s` of the trace (over `ZMod p`, columns interpolated by `T i` on `{g^j}`, periodic values by
`Q i`): its constraint polynomial has NO quotient by the divisor of the non-exempt steps, and for
any claimed quotient `H` the out-of-domain identity holds on at most
`max (deg C_t) (#points + deg H)` points. -/
theorem violated_transition_ood_bound (p : Nat) [Fact p.Prime] (d : Desc) (rows : List (List Nat)) (n : Nat)
    (g : ZMod p) (hg : g ^ n = 1) (T Q : Nat → (ZMod p)[X])
    (hT : ∀ i s, s < n → (T i).eval (g ^ s) = (((rows.getD s []).getD i 0 : Nat) : ZMod p))
    (hQ : ∀ i s, s < n → (Q i).eval (g ^ s) = (((perAt d s).getD i 0 : Nat) : ZMod p))
    (t : Trans) (s : Nat) (hs : s < n - d.exemptions)
    (hne : eval p (rows.getD s []) (rows.getD ((s + 1) % n) []) (perAt d s) t.ex % p ≠ 0) :
    (¬ Z (domainPts g (n - d.exemptions)) ∣ exPoly T g Q t.ex) ∧
    ∀ (H : (ZMod p)[X]) (U : Finset (ZMod p)),
      (∀ z ∈ U, (exPoly T g Q t.ex).eval z = (Z (domainPts g (n - d.exemptions))).eval z * H.eval z) →
      U.card ≤ max (exPoly T g Q t.ex).natDegree ((domainPts g (n - d.exemptions)).card + H.natDegree) := by
  have hmem : g ^ s ∈ domainPts g (n - d.exemptions) := by
    unfold domainPts
    rw [Finset.mem_image]
    exact ⟨s, Finset.mem_range.2 hs, rfl⟩
  have hev : (exPoly T g Q t.ex).eval (g ^ s) ≠ 0 := by
    rw [exPoly_eval_on_domain T g Q n hg
      (fun s i => (((rows.getD s []).getD i 0 : Nat) : ZMod p))
      (fun s i => (((perAt d s).getD i 0 : Nat) : ZMod p)) hT hQ s (by omega) t.ex]
    intro h0
    exact hne ((eval_mod_eq_zero_iff p _ _ _ t.ex).2 h0)
  exact ⟨not_dvd_of_eval_ne_zero _ _ hmem hev, fun H U hU => ood_identity_card_le _ _ H hmem hev U hU⟩

/-! ## non-vacuity -/

-- an interior cell of the concrete description corrupted: the ideal verdict rejects …
example : idealVerdict 97 exDesc 8 [1, 1] [(3, 0, 5)] [[1], [30]] = false := by decide
-- … as `single_cell_corruption_rejected` says (hypotheses satisfiable: row 3, column 0 holds 19)
example : idealVerdict 97 exDesc 8 [1, 1] [(3, 0, 5)] [[1], [30]] = false :=
  single_cell_corruption_rejected 97 (by decide) exDesc exDesc_consistent 8 [1, 1] _ 3 0 5
    (by decide) (by decide) (by decide) (by decide) (by decide)
-- a perturbed public input (claimed value) is rejected
example : idealVerdict 97 exDesc 8 [1, 1] [] [[1], [31]] = false := by decide
-- a corruption that does NOT falsify the statement (exempt row, column not asserted): accepted
example : idealVerdict 97 { exDesc with exemptions := 2 } 8 [1, 1] [(7, 0, 5)] [[1], [30]] = true := by decide
-- X² − 2 does not vanish at 1: no quotient by (X − 1)(X + 1) over ℤ
example : ¬ ∃ H : ℤ[X], (X ^ 2 - 2 : ℤ[X]) = Z ({1, -1} : Finset ℤ) * H :=
  violation_has_no_quotient _ _ (a := 1) (by simp) (by simp)

end Wf.Props.C02
