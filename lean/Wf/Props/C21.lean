/-
C21 — assertion step sets and overlap detection are exact.

Model: `Wf/Model/Assertions.lean` (mirrors `air/src/air/assertions/mod.rs` and
`prepare_assertions` of `air/src/air/boundary/mod.rs` branch by branch; tied to the real crate by
the correspondence stream `c21`).  The specification predicates are defined next to the model:

* `Pow2 n`        – `n` is a power of two;
* `WellFormed a`  – what the three constructors guarantee (theorems `constructors_wellFormed`,
                    `wellFormed_constructible`: exactly the constructible values);
* `Fits a n`      – the documented trace-length condition;
* `Valid a n`     – `WellFormed a ∧ Fits a n`;
* `a.steps n`     – the documented progression `first + stride·i`, `i < numSteps`.

All theorems are for ALL assertions / trace lengths (no bound).
-/
import Wf.Lemmas.Assertions
namespace Wf.Props.C21
open Wf Wf.Assertion

/-- two assertions constrain a common cell of a trace of length `n` -/
def ShareCell (a b : Assertion) (n : Nat) : Prop :=
  a.column = b.column ∧ ∃ s, s ∈ a.steps n ∧ s ∈ b.steps n

/-! ## constructors -/

/-- Everything the constructors return is well formed (and `sequence` of one value is a single
assertion). -/
theorem constructors_wellFormed :
    (∀ c s v, WellFormed (single c s v)) ∧
    (∀ c f st v a, periodic c f st v = .ok a → WellFormed a ∧ a = ⟨c, f, st, [v]⟩) ∧
    (∀ c f st vs a, sequence c f st vs = .ok a →
      WellFormed a ∧ a = ⟨c, f, if vs.length = 1 then 0 else st, vs⟩) := by
  refine ⟨?_, ?_, ?_⟩
  · intro c s v
    exact ⟨⟨0, rfl⟩, fun _ => rfl, fun h => absurd rfl h⟩
  · intro c f st v a h
    unfold periodic validateStride at h
    split at h
    · cases h
    · rename_i hv
      split at hv
      · cases hv
      · split at hv
        · cases hv
        · split at hv
          · cases hv
          · rename_i h1 h2 h3
            cases h
            simp only [Bool.not_eq_true', Bool.not_eq_false, isPow2_iff, MIN_STRIDE_LENGTH,
              decide_eq_false_iff_not, Decidable.not_not] at h1 h2 h3
            exact ⟨⟨⟨0, rfl⟩, fun h0 => rfl, fun _ => ⟨h1, by simpa using h2, by simpa using h3⟩⟩, rfl⟩
  · intro c f st vs a h
    unfold sequence validateStride at h
    split at h
    · cases h
    · rename_i hv
      split at hv
      · cases hv
      · split at hv
        · cases hv
        · split at hv
          · cases hv
          · rename_i h1 h2 h3
            simp only [Bool.not_eq_true', Bool.not_eq_false, isPow2_iff, MIN_STRIDE_LENGTH,
              decide_eq_false_iff_not, Decidable.not_not] at h1 h2 h3
            split at h
            · cases h
            · split at h
              · cases h
              · rename_i h4 h5
                cases h
                simp only [Bool.not_eq_true', Bool.not_eq_false, isPow2_iff] at h5
                have h2' : 2 ≤ st := by simpa using h2
                have h3' : f < st := by simpa using h3
                by_cases hl : vs.length = 1
                · refine ⟨⟨h5, fun _ => hl, fun h0 => ?_⟩, ?_⟩
                  · simp [NO_STRIDE, hl] at h0
                  · simp [NO_STRIDE, hl]
                · refine ⟨⟨h5, fun h0 => ?_, fun _ => ?_⟩, ?_⟩
                  · simp [hl] at h0; omega
                  · simp only [NO_STRIDE, beq_iff_eq, hl, if_false]; exact ⟨h1, h2', h3'⟩
                  · simp [hl]

/-- Conversely every well-formed value is the result of a constructor call: the hypotheses of the
theorems below are not stronger than what the code enforces. -/
theorem wellFormed_constructible (a : Assertion) (h : WellFormed a) :
    (∃ v, a = single a.column a.firstStep v) ∨
    (∃ v, periodic a.column a.firstStep a.stride v = .ok a) ∨
    sequence a.column a.firstStep a.stride a.values = .ok a := by
  obtain ⟨hl, h0, hs⟩ := h
  by_cases hz : a.stride = 0
  · left
    have h1 := h0 hz
    match a, hz, h1 with
    | ⟨c, f, _, [v]⟩, rfl, _ => exact ⟨v, rfl⟩
  · right
    obtain ⟨hp, h2, hf⟩ := hs hz
    have hvs : validateStride a.stride a.firstStep = .ok () := by
      simp [validateStride, (isPow2_iff _).2 hp, MIN_STRIDE_LENGTH, h2, hf]
    by_cases h1 : a.values.length = 1
    · left
      match a, h1, hvs with
      | ⟨c, f, st, [v]⟩, _, hvs => exact ⟨v, by simp only [periodic, hvs]⟩
    · right
      have hne : a.values.isEmpty = false := by
        cases hv : a.values with
        | nil => rw [hv] at hl; obtain ⟨k, hk⟩ := hl; have := Nat.pow_pos (n := k) (by omega : 0 < 2); simp at hk; omega
        | cons _ _ => rfl
      simp [sequence, hvs, hne, (isPow2_iff _).2 hl, h1]

/-! ## (a) step sets and step counts -/

/-- the step list has exactly `numSteps` elements … -/
theorem steps_length (a : Assertion) (n : Nat) : (a.steps n).length = a.numSteps n := by
  simp [steps]

/-- … `get_num_steps`, whenever it returns, returns that number … -/
theorem getNumSteps_eq_length (a : Assertion) (n k : Nat) (h : a.getNumSteps n = some k) :
    (a.steps n).length = k := by
  unfold getNumSteps at h
  split at h
  · cases h
  · cases h; exact steps_length a n

/-- … the `i`-th step is `first + stride·i` … -/
theorem steps_getElem (a : Assertion) (n i : Nat) (h : i < (a.steps n).length) :
    (a.steps n)[i] = a.firstStep + a.stride * i := by
  simp [steps]

/-- … so the step set is exactly the documented progression. -/
theorem mem_steps_iff (a : Assertion) (n s : Nat) :
    s ∈ a.steps n ↔ ∃ i, i < a.numSteps n ∧ s = a.firstStep + a.stride * i := by
  simp only [steps, List.mem_map, List.mem_range]
  constructor
  · rintro ⟨i, hi, rfl⟩; exact ⟨i, hi, rfl⟩
  · rintro ⟨i, hi, rfl⟩; exact ⟨i, hi, rfl⟩

/-- The step count is 1 / `n / stride` / `#values` for single / periodic / sequence assertions. -/
theorem numSteps_cases (a : Assertion) (n : Nat) :
    (a.stride = 0 → a.numSteps n = 1) ∧
    (a.stride ≠ 0 → a.values.length = 1 → a.numSteps n = n / a.stride) ∧
    (a.stride ≠ 0 → a.values.length ≠ 1 → a.numSteps n = a.values.length) := by
  refine ⟨?_, ?_, ?_⟩
  · intro h; simp [numSteps, isSingle, NO_STRIDE, h]
  · intro h h1; simp [numSteps, isSingle, isPeriodic, NO_STRIDE, h, h1]
  · intro h h1; simp [numSteps, isSingle, isPeriodic, NO_STRIDE, h, h1]

/-- For a valid assertion all steps are inside the trace and pairwise distinct; for a valid
non-single assertion they are a full residue class: `{s < n | s ≡ first (mod stride)}`. -/
theorem steps_valid (a : Assertion) (n : Nat) (hv : Valid a n) :
    (∀ s, s ∈ a.steps n → s < n) ∧ (a.steps n).Nodup ∧ a.firstStep ∈ a.steps n ∧
    (a.stride ≠ 0 → ∀ s, s ∈ a.steps n ↔ s < n ∧ s % a.stride = a.firstStep) := by
  refine ⟨?_, ?_, hv.first_mem, fun hs s => hv.mem_steps hs⟩
  · intro s h
    by_cases hs : a.stride = 0
    · rw [(mem_steps_single hs).1 h]; exact hv.first_lt
    · exact ((hv.mem_steps hs).1 h).1
  · by_cases hs : a.stride = 0
    · simp [steps, numSteps, isSingle, NO_STRIDE, hs]
    · unfold steps
      exact List.Pairwise.map _ (fun i j hij h =>
        hij (Nat.eq_of_mul_eq_mul_left (by omega : 0 < a.stride) (by omega))) List.nodup_range

/-- `apply` calls the closure on exactly the documented steps, in order (the multiset of visited
steps is `steps`), and with the asserted values. -/
theorem apply_steps (a : Assertion) (n : Nat) (l : List (Nat × Nat)) (h : a.apply n = some l) :
    l.map Prod.fst = a.steps n ∧
    (a.stride ≠ 0 → a.values.length ≠ 1 → l.map Prod.snd = a.values) ∧
    (a.values.length = 1 → ∀ p ∈ l, some p.2 = a.values[0]?) := by
  unfold Assertion.apply at h
  split at h
  · cases h
  · by_cases hs : a.stride = 0
    · simp only [isSingle_iff.2 hs, if_true] at h
      split at h
      · rename_i v hv
        cases h
        simp [steps, numSteps, isSingle, NO_STRIDE, hs, hv]
      · cases h
    · have hs' : a.isSingle = false := by simp [isSingle, NO_STRIDE, hs]
      simp only [hs', Bool.false_eq_true, if_false] at h
      by_cases h1 : a.values.length = 1
      · have hp : a.isPeriodic = true := by simp [isPeriodic, NO_STRIDE, hs, h1]
        simp only [hp, if_true] at h
        split at h
        · rename_i v hv
          cases h
          refine ⟨?_, fun _ h2 => absurd h1 h2, ?_⟩
          · simp [steps, numSteps, hs', hp, List.map_map, Function.comp_def]
          · intro _ p hp; simp only [List.mem_map] at hp
            obtain ⟨i, _, rfl⟩ := hp; exact hv.symm
        · cases h
      · have hp : a.isPeriodic = false := by simp [isPeriodic, h1]
        simp only [hp, Bool.false_eq_true, if_false] at h
        cases h
        refine ⟨?_, fun _ _ => ?_, fun h2 => absurd h2 h1⟩
        · simp only [steps, numSteps, hs', hp, Bool.false_eq_true, if_false, List.map_map]
          apply List.ext_getElem
          · simp
          · intro i h1 h2; simp
        · apply List.ext_getElem
          · simp
          · intro i h1 h2; simp

/-- `apply` and `get_num_steps` panic exactly when `validate_trace_length` fails (a well-formed
assertion has a value to read). -/
theorem apply_panics_iff (a : Assertion) (n : Nat) (hw : WellFormed a) :
    (a.apply n = none ↔ a.validateTraceLength n ≠ .ok ()) ∧
    (a.getNumSteps n = none ↔ a.validateTraceLength n ≠ .ok ()) := by
  have hne : ∃ v, a.values[0]? = some v := by
    obtain ⟨⟨k, hk⟩, _, _⟩ := hw
    have := Nat.pow_pos (n := k) (by omega : 0 < 2)
    cases hv : a.values with
    | nil => rw [hv] at hk; simp at hk; omega
    | cons v _ => exact ⟨v, rfl⟩
  obtain ⟨v, hv⟩ := hne
  unfold Assertion.apply getNumSteps
  cases hr : a.validateTraceLength n with
  | error e => simp
  | ok u =>
    cases u
    simp only [hv, ne_eq, not_true_eq_false, iff_false]
    constructor
    · split
      · simp
      · split <;> simp
    · simp

/-! ## (b) trace-length validation -/

/-- `validate_trace_length` accepts exactly the lengths the assertion fits (for EVERY field
content, well formed or not). -/
theorem validateTraceLength_ok_iff (a : Assertion) (n : Nat) :
    a.validateTraceLength n = .ok () ↔ Fits a n := by
  unfold validateTraceLength Fits
  by_cases hp : isPow2 n = true
  · have hP := (isPow2_iff n).1 hp
    simp only [hp, Bool.not_true, Bool.false_eq_true, if_false]
    by_cases hs : a.stride = 0
    · simp only [isSingle_iff.2 hs, if_true]
      by_cases hf : a.firstStep ≥ n
      · simp only [hf, if_true]
        constructor
        · intro h; cases h
        · intro h; have := h.2.1 hs; omega
      · simp only [hf, if_false, true_iff]
        exact ⟨hP, fun _ => by omega, fun h => absurd hs h, fun h => absurd hs h⟩
    · have hs' : a.isSingle = false := by simp [isSingle, NO_STRIDE, hs]
      simp only [hs', Bool.false_eq_true, if_false]
      by_cases h1 : a.values.length = 1
      · have hper : a.isPeriodic = true := by simp [isPeriodic, NO_STRIDE, hs, h1]
        simp only [hper, if_true]
        by_cases hgt : a.stride > n
        · simp only [hgt, if_true]
          constructor
          · intro h; cases h
          · intro h; have := h.2.2.1 hs h1; omega
        · simp only [hgt, if_false, true_iff]
          exact ⟨hP, fun h => absurd h hs, fun _ _ => by omega, fun _ h => absurd h1 h⟩
      · have hper : a.isPeriodic = false := by simp [isPeriodic, h1]
        simp only [hper, Bool.false_eq_true, if_false, bne_iff_ne, ne_eq, ite_not]
        by_cases he : a.values.length * a.stride = n
        · rw [if_pos he]
          exact ⟨fun _ => ⟨hP, fun h => absurd h hs, fun _ h => absurd h h1, fun _ _ => he⟩, fun _ => rfl⟩
        · rw [if_neg he]
          constructor
          · intro h; cases h
          · intro h; exact absurd (h.2.2.2 hs h1) he
  · have hp' : isPow2 n = false := by cases h : isPow2 n <;> simp_all
    have hP := (isPow2_false_iff n).1 hp'
    simp only [hp', Bool.not_false, if_true]
    constructor
    · intro h; cases h
    · intro h; exact absurd h.1 hP

/-- the reported error kinds: not a power of two / too short (single, periodic) / not exact
(sequence), with the documented payloads -/
theorem validateTraceLength_errors (a : Assertion) (n : Nat) :
    (¬ Pow2 n → a.validateTraceLength n = .error (.traceLengthNotPowerOfTwo n)) ∧
    (Pow2 n → a.stride = 0 → n ≤ a.firstStep →
      a.validateTraceLength n = .error (.traceLengthTooShort (nextPow2 (a.firstStep + 1)) n)) ∧
    (Pow2 n → a.stride ≠ 0 → a.values.length = 1 → n < a.stride →
      a.validateTraceLength n = .error (.traceLengthTooShort a.stride n)) ∧
    (Pow2 n → a.stride ≠ 0 → a.values.length ≠ 1 → a.values.length * a.stride ≠ n →
      a.validateTraceLength n = .error (.traceLengthNotExact (a.values.length * a.stride) n)) := by
  refine ⟨?_, ?_, ?_, ?_⟩
  · intro h
    simp [validateTraceLength, (isPow2_false_iff n).2 h]
  · intro h hs hf
    simp [validateTraceLength, (isPow2_iff n).2 h, isSingle, NO_STRIDE, hs, hf]
  · intro h hs h1 hlt
    simp [validateTraceLength, (isPow2_iff n).2 h, isSingle, isPeriodic, NO_STRIDE, hs, h1, hlt]
  · intro h hs h1 hne
    simp [validateTraceLength, (isPow2_iff n).2 h, isSingle, isPeriodic, NO_STRIDE, hs, h1, hne]

/-- `validate_trace_width` accepts exactly the widths containing the column -/
theorem validateTraceWidth_ok_iff (a : Assertion) (w : Nat) :
    a.validateTraceWidth w = .ok () ↔ a.column < w := by
  unfold validateTraceWidth
  by_cases h : a.column ≥ w
  · simp only [h, if_true]; constructor
    · intro h'; cases h'
    · intro h'; omega
  · simp only [h, if_false, true_iff]; omega

/-! ## (c) overlap detection -/

/-- KEY THEOREM. For two constructible assertions that are valid for the same trace length `n`,
`overlaps_with` answers `true` exactly when they constrain a common cell: same column and a common
element of the two step progressions. -/
theorem overlapsWith_iff (a b : Assertion) (n : Nat) (ha : Valid a n) (hb : Valid b n) :
    a.overlapsWith b = true ↔ a.column = b.column ∧ ∃ s, s ∈ a.steps n ∧ s ∈ b.steps n := by
  unfold overlapsWith
  by_cases hc : a.column ≠ b.column
  · simp [hc]
  have hc : a.column = b.column := Decidable.of_not_not hc
  have hc' : (a.column != b.column) = false := by simp [hc]
  simp only [hc', Bool.false_eq_true, if_false]
  simp only [hc, true_and]
  by_cases hf : a.firstStep = b.firstStep
  · -- same first step: that step is common
    simp only [hf, beq_self_eq_true, if_true, true_iff]
    exact ⟨b.firstStep, hf ▸ ha.first_mem, hb.first_mem⟩
  have hf' : (a.firstStep == b.firstStep) = false := by simp [hf]
  simp only [hf', Bool.false_eq_true, if_false]
  by_cases hst : a.stride = b.stride
  · -- same stride, different first steps: different cells / different residue classes
    simp only [hst, beq_self_eq_true, if_true, Bool.false_eq_true, false_iff]
    rintro ⟨s, h1, h2⟩
    by_cases hz : b.stride = 0
    · have := (mem_steps_single (hst.trans hz)).1 h1
      have := (mem_steps_single hz).1 h2
      omega
    · have e1 := ((ha.mem_steps (hst ▸ hz)).1 h1).2
      have e2 := ((hb.mem_steps hz).1 h2).2
      rw [hst] at e1; omega
  have hst' : (a.stride == b.stride) = false := by simp [hst]
  simp only [hst', Bool.false_eq_true, if_false]
  by_cases hlt : a.firstStep < b.firstStep
  · simp only [hlt, if_true]
    exact overlap_half ha hb hlt hst
  · simp only [hlt, if_false]
    have hgt : b.firstStep < a.firstStep := by omega
    rw [overlap_half hb ha hgt (Ne.symm hst)]
    constructor
    · rintro ⟨s, h1, h2⟩; exact ⟨s, h2, h1⟩
    · rintro ⟨s, h1, h2⟩; exact ⟨s, h2, h1⟩

/-- the same statement with the `ShareCell` abbreviation, and its negation -/
theorem overlapsWith_false_iff (a b : Assertion) (n : Nat) (ha : Valid a n) (hb : Valid b n) :
    a.overlapsWith b = false ↔ ¬ ShareCell a b n := by
  unfold ShareCell; rw [← overlapsWith_iff a b n ha hb]; cases a.overlapsWith b <;> simp

/-- overlap detection is symmetric on valid assertions -/
theorem overlapsWith_comm (a b : Assertion) (n : Nat) (ha : Valid a n) (hb : Valid b n) :
    a.overlapsWith b = b.overlapsWith a := by
  have h1 := overlapsWith_iff a b n ha hb
  have h2 := overlapsWith_iff b a n hb ha
  have h3 : (a.column = b.column ∧ ∃ s, s ∈ a.steps n ∧ s ∈ b.steps n) ↔
      (b.column = a.column ∧ ∃ s, s ∈ b.steps n ∧ s ∈ a.steps n) :=
    ⟨fun ⟨h, s, x, y⟩ => ⟨h.symm, s, y, x⟩, fun ⟨h, s, x, y⟩ => ⟨h.symm, s, y, x⟩⟩
  rw [Bool.eq_iff_iff, h1, h2]; exact h3

/-! ## `prepare_assertions` -/

/-- Loop invariant of `prepare_assertions` (`acc` = the assertions accepted so far, all valid):
the loop runs to completion exactly when every remaining assertion is in range, fits the trace
length, and shares no cell with an accepted or another remaining assertion. -/
theorem prepareLoop_ok_iff (w n : Nat) (l : List Assertion) :
    ∀ acc : List Assertion, (∀ x ∈ l, WellFormed x) → (∀ y ∈ acc, Valid y n) →
    ((∃ r, prepareLoop w n l acc = .ok r) ↔
      (∀ x ∈ l, x.column < w ∧ Fits x n) ∧ l.Pairwise (fun a b => ¬ ShareCell a b n) ∧
      (∀ y ∈ acc, ∀ x ∈ l, ¬ ShareCell y x n)) := by
  induction l with
  | nil => intro acc _ _; simp [prepareLoop]
  | cons x rest ih =>
    intro acc hl hacc
    have hwx : WellFormed x := hl x (List.mem_cons_self ..)
    have hlr : ∀ z ∈ rest, WellFormed z := fun z hz => hl z (List.mem_cons_of_mem _ hz)
    simp only [prepareLoop_cons_ok_iff, validateTraceWidth_ok_iff, validateTraceLength_ok_iff]
    -- facts that hold on both sides once `x` is valid and shares no cell with `acc`
    have key : ∀ (hvx : Valid x n) (hno : ∀ y ∈ acc, ¬ ShareCell y x n),
        (∀ y ∈ acc, cmp x y ≠ .eq) ∧ (∀ y ∈ insertSorted x acc, Valid y n) := by
      intro hvx hno
      have hcmp : ∀ y ∈ acc, cmp x y ≠ .eq := fun y hy he =>
        hno y hy ((overlapsWith_iff y x n (hacc y hy) hvx).1 (cmp_eq_overlaps he))
      refine ⟨hcmp, fun y hy => ?_⟩
      rcases (mem_insertSorted hcmp).1 hy with h | h
      · exact h ▸ hvx
      · exact hacc y h
    constructor
    · rintro ⟨r, h1, h2, h3, h4⟩
      have hvx : Valid x n := ⟨hwx, h2⟩
      have hno : ∀ y ∈ acc, ¬ ShareCell y x n := fun y hy => by
        by_cases hc : y.column = x.column
        · exact (overlapsWith_false_iff y x n (hacc y hy) hvx).1 (h3 y hy hc)
        · exact fun hs => hc hs.1
      obtain ⟨hcmp, hacc'⟩ := key hvx hno
      obtain ⟨i1, i2, i3⟩ := (ih _ hlr hacc').1 ⟨r, h4⟩
      refine ⟨?_, ?_, ?_⟩
      · intro z hz
        rcases List.mem_cons.1 hz with h | h
        · exact h ▸ ⟨h1, h2⟩
        · exact i1 z h
      · exact List.pairwise_cons.2
          ⟨fun z hz => i3 x ((mem_insertSorted hcmp).2 (Or.inl rfl)) z hz, i2⟩
      · intro y hy z hz
        rcases List.mem_cons.1 hz with h | h
        · exact h ▸ hno y hy
        · exact i3 y ((mem_insertSorted hcmp).2 (Or.inr hy)) z h
    · rintro ⟨j1, j2, j3⟩
      obtain ⟨h1, h2⟩ := j1 x (List.mem_cons_self ..)
      have hvx : Valid x n := ⟨hwx, h2⟩
      have hno : ∀ y ∈ acc, ¬ ShareCell y x n := fun y hy => j3 y hy x (List.mem_cons_self ..)
      obtain ⟨hcmp, hacc'⟩ := key hvx hno
      obtain ⟨p1, p2⟩ := List.pairwise_cons.1 j2
      obtain ⟨r, hr⟩ := (ih _ hlr hacc').2
        ⟨fun z hz => j1 z (List.mem_cons_of_mem _ hz), p2, fun y hy z hz => by
          rcases (mem_insertSorted hcmp).1 hy with h | h
          · exact h ▸ p1 z hz
          · exact j3 y h z (List.mem_cons_of_mem _ hz)⟩
      exact ⟨r, h1, h2,
        fun y hy _ => (overlapsWith_false_iff y x n (hacc y hy) hvx).2 (hno y hy), hr⟩

/-- `prepare_assertions` accepts a list of constructible assertions exactly when each one is
inside the trace (column < width, fits the length) and no two of them constrain a common cell;
otherwise it panics (invalid / overlap). -/
theorem prepareAssertions_ok_iff (l : List Assertion) (w n : Nat) (hl : ∀ x ∈ l, WellFormed x) :
    (∃ r, prepareAssertions l w n = .ok r) ↔
      (∀ x ∈ l, x.column < w ∧ Fits x n) ∧ l.Pairwise (fun a b => ¬ ShareCell a b n) := by
  unfold prepareAssertions
  rw [prepareLoop_ok_iff w n l [] hl (fun _ h => absurd h (List.not_mem_nil))]
  simp

/-! ## non-vacuity -/

/-- periodic (stride 4 from 1) against a sequence (stride 8 from 5, 2 values) on 16 rows: common
cells 5 and 13 -/
example : Valid ⟨0, 1, 4, [7]⟩ 16 ∧ Valid ⟨0, 5, 8, [1, 2]⟩ 16 ∧
    Assertion.overlapsWith ⟨0, 1, 4, [7]⟩ ⟨0, 5, 8, [1, 2]⟩ = true ∧
    Assertion.steps ⟨0, 1, 4, [7]⟩ 16 = [1, 5, 9, 13] ∧ Assertion.steps ⟨0, 5, 8, [1, 2]⟩ 16 = [5, 13] := by
  refine ⟨⟨⟨⟨0, rfl⟩, by decide, fun _ => ⟨⟨2, rfl⟩, by decide, by decide⟩⟩,
           ⟨4, rfl⟩, by decide, by decide, by decide⟩,
          ⟨⟨⟨1, rfl⟩, by decide, fun _ => ⟨⟨3, rfl⟩, by decide, by decide⟩⟩,
           ⟨4, rfl⟩, by decide, by decide, by decide⟩, by decide, by decide, by decide⟩

/-- a disjoint pair (coarser progression first), a single inside a periodic, and rejected lengths -/
example : Assertion.overlapsWith ⟨0, 1, 8, [7]⟩ ⟨0, 3, 4, [7]⟩ = false ∧
    Assertion.overlapsWith ⟨0, 6, 0, [7]⟩ ⟨0, 2, 4, [7]⟩ = true ∧
    Assertion.overlapsWith ⟨0, 6, 0, [7]⟩ ⟨1, 2, 4, [7]⟩ = false ∧
    Assertion.validateTraceLength ⟨0, 5, 8, [1, 2]⟩ 32 = .error (.traceLengthNotExact 16 32) ∧
    Assertion.validateTraceLength ⟨0, 5, 0, [1]⟩ 4 = .error (.traceLengthTooShort 8 4) ∧
    Assertion.validateTraceLength ⟨0, 5, 0, [1]⟩ 12 = .error (.traceLengthNotPowerOfTwo 12) ∧
    Assertion.getNumSteps ⟨0, 1, 4, [7]⟩ 16 = some 4 ∧
    Assertion.apply ⟨0, 5, 8, [1, 2]⟩ 16 = some [(5, 1), (13, 2)] ∧
    Assertion.periodic 0 4 4 1 = .error .firstStepTooBig ∧
    Assertion.sequence 0 0 4 [1, 2, 3] = .error .valuesNotPowerOfTwo :=
  ⟨by decide, by decide, by decide, rfl, rfl, rfl, by decide, by decide, rfl, rfl⟩

/-- `prepare_assertions`: a disjoint list is accepted and put in natural order; a list with a common
cell (5 and 13) is rejected; the predicate side of `prepareAssertions_ok_iff` is satisfiable -/
example :
    prepareAssertions [⟨0, 1, 8, [7]⟩, ⟨1, 3, 0, [9]⟩, ⟨0, 3, 4, [7]⟩] 2 16 =
      .ok [⟨1, 3, 0, [9]⟩, ⟨0, 3, 4, [7]⟩, ⟨0, 1, 8, [7]⟩] ∧
    prepareAssertions [⟨0, 1, 4, [7]⟩, ⟨0, 5, 8, [1, 2]⟩] 2 16 = .error .overlap ∧
    prepareAssertions [⟨0, 1, 4, [7]⟩, ⟨2, 5, 8, [1, 2]⟩] 2 16 =
      .error (.invalid (.traceWidthTooShort 2 2)) := ⟨rfl, rfl, rfl⟩

end Wf.Props.C21
