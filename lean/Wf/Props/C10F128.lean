/-
C10 (continued) — limb-level theorems for the 128-bit field f128, p = 2^128 − 45·2^40 + 1.

The definitions under `Wf.Gen.F128` are REGENERATED from `math/src/field/f128/mod.rs` on every run
(tools/rs2lean.py); the theorems below are about those definitions.  Elements are stored as canonical
`u128` values (no Montgomery form): `Rep x` is `x < M`, the value of a word is `x.toNat`.
`v2 (lo, hi) = lo + 2^64·hi` and `v3 (l0, l1, l2) = l0 + 2^64·l1 + 2^128·l2` are the integers held by
two / three little-endian 64-bit limbs.
  §1  add / sub / neg on reduced words, `new` on EVERY 128-bit word, `as_int`.
  §2  the exact integer meaning of every 64-bit limb helper of `mul` (add64_with_carry, add_192x192,
      sub_192x192, sub_modulus, mul_128x64, mul_by_modulus, mul_reduce) and of the three conditional
      subtractions, each with the input range under which it holds.
  §3  `mul a b` is reduced and equals a·b mod p — fully composed from §2, for every reduced `a`
      and EVERY 128-bit `b` (so in particular for every pair of reduced words).
  §4  the quadratic extension formulas = multiplication modulo x² − x − 1 over any commutative ring.
Nothing is `_partial`: the composition of §3 is complete.
NOT covered: `inv` (binary extended Euclid) is not in `Wf.Gen.F128`: rs2lean.py translates `while`
loops with fuel (f62), but rejects this function ("cannot type literal 0": the initialiser
`(0, 0, 0)` of a0/a1/a2 is typed only by later assignments).  The executable model uses Fermat
inversion instead (correspondence only), so there is no theorem about f128 `inv`, not even `inv 0 = 0`.
-/
import Wf.Lemmas.F128
import Wf.Lemmas.RingOps
namespace Wf.Props.C10F128
open Wf Wf.F128 Wf.Gen.F128 Polynomial

/-! ## §1 add / sub / neg / new / as_int -/

theorem f128_modulus : F128.p = 2 ^ 128 - 45 * 2 ^ 40 + 1 ∧ M.toNat = F128.p := ⟨F128.p_eq, M_toNat⟩

/-- the constant folded in by the reductions: c = 2^128 − p = 45·2^40 − 1 -/
theorem f128_c : F128.c = 2 ^ 128 - F128.p ∧ F128.c = 45 * 2 ^ 40 - 1 := ⟨c_def, c_eq⟩

theorem f128_rep_iff (x : BitVec 128) : Rep x ↔ x.toNat < F128.p := rep_iff x

theorem f128_add_exact (a b : BitVec 128) (ha : Rep a) (hb : Rep b) :
    Rep (add a b) ∧ (add a b).toNat = (a.toNat + b.toNat) % F128.p := add_spec a b ha hb

theorem f128_sub_exact (a b : BitVec 128) (ha : Rep a) (hb : Rep b) :
    Rep (sub a b) ∧ (sub a b).toNat = (a.toNat + (F128.p - b.toNat)) % F128.p := sub_spec a b ha hb

theorem f128_neg_exact (a : BitVec 128) (ha : Rep a) :
    Rep (neg a) ∧ (neg a).toNat = (F128.p - a.toNat) % F128.p := neg_spec a ha

/-- `new` reduces silently: EVERY 128-bit integer, including those ≥ p (one subtraction suffices
    because 2p > 2^128) -/
theorem f128_new_reduces (v : BitVec 128) : Rep (new v) ∧ (new v).toNat = v.toNat % F128.p :=
  new_spec v

theorem f128_new_id_on_reduced (v : BitVec 128) (hv : Rep v) : new v = v := new_of_rep v hv

/-- `as_int` is the identity on stored words; on reduced words it is the canonical value < p -/
theorem f128_as_int_identity (x : BitVec 128) :
    as_int x = x ∧ (Rep x → (as_int x).toNat < F128.p) :=
  ⟨rfl, fun h => (rep_iff x).mp h⟩

/-! ## §2 limb helpers: exact integer meaning -/

/-- for ALL 64-bit inputs (the sum is below 3·2^64, no wrap of the 128-bit temporary) -/
theorem f128_add64_with_carry_exact (a b cy : BitVec 64) :
    v2 (add64_with_carry a b cy) = a.toNat + b.toNat + cy.toNat := add64_with_carry_spec a b cy

/-- 192-bit addition modulo 2^192, for ALL inputs -/
theorem f128_add_192x192_exact (a0 a1 a2 b0 b1 b2 : BitVec 64) :
    v3 (add_192x192 a0 a1 a2 b0 b1 b2) = (v3 (a0, a1, a2) + v3 (b0, b1, b2)) % 2 ^ 192 :=
  add_192x192_spec a0 a1 a2 b0 b1 b2

/-- 192-bit subtraction modulo 2^192, for ALL inputs (borrows taken from bit 127 of the temporaries) -/
theorem f128_sub_192x192_exact (a0 a1 a2 b0 b1 b2 : BitVec 64) :
    v3 (sub_192x192 a0 a1 a2 b0 b1 b2)
      = (v3 (a0, a1, a2) + (2 ^ 192 - v3 (b0, b1, b2))) % 2 ^ 192 :=
  sub_192x192_spec a0 a1 a2 b0 b1 b2

/-- … and the plain difference when b ≤ a -/
theorem f128_sub_192x192_no_borrow (a0 a1 a2 b0 b1 b2 : BitVec 64)
    (h : v3 (b0, b1, b2) ≤ v3 (a0, a1, a2)) :
    v3 (sub_192x192 a0 a1 a2 b0 b1 b2) + v3 (b0, b1, b2) = v3 (a0, a1, a2) :=
  sub_192x192_exact a0 a1 a2 b0 b1 b2 h

/-- `sub_modulus` adds c = 2^128 − p modulo 2^128 (i.e. subtracts p modulo 2^128), for ALL inputs … -/
theorem f128_sub_modulus_exact (lo hi : BitVec 64) :
    v2 (sub_modulus lo hi) = (v2 (lo, hi) + F128.c) % 2 ^ 128 := sub_modulus_spec lo hi

/-- … which is the subtraction of p whenever the 128-bit input is at least p -/
theorem f128_sub_modulus_ge (lo hi : BitVec 64) (h : F128.p ≤ v2 (lo, hi)) :
    v2 (sub_modulus lo hi) + F128.p = v2 (lo, hi) := sub_modulus_ge lo hi h

/-- 128 × 64 → 192-bit product, exact for ALL inputs -/
theorem f128_mul_128x64_exact (a : BitVec 128) (b : BitVec 64) :
    v3 (mul_128x64 a b) = a.toNat * b.toNat := mul_128x64_spec a b

/-- `mul_by_modulus a` = a·p as a 192-bit integer, exact for ALL 64-bit a -/
theorem f128_mul_by_modulus_exact (a : BitVec 64) : v3 (mul_by_modulus a) = a.toNat * F128.p :=
  mul_by_modulus_spec a

/-- `mul_reduce` subtracts (top limb)·p exactly (never below zero), for ALL inputs: the value stays
    the same modulo p and drops below 2^128 + 2^64·c -/
theorem f128_mul_reduce_exact (z0 z1 z2 : BitVec 64) :
    v3 (mul_reduce z0 z1 z2) + z2.toNat * F128.p = v3 (z0, z1, z2) ∧
    v3 (mul_reduce z0 z1 z2) = z0.toNat + 2 ^ 64 * z1.toNat + z2.toNat * F128.c ∧
    v3 (mul_reduce z0 z1 z2) < 2 ^ 128 + 2 ^ 64 * F128.c :=
  ⟨mul_reduce_spec z0 z1 z2, mul_reduce_val z0 z1 z2, mul_reduce_lt z0 z1 z2⟩

/-- the limb-wise test `z1 == (M >> 64) && z0 >= (M as u64)` at the end of `mul` is `p ≤ z` -/
theorem f128_final_comparison (z0 z1 : BitVec 64) :
    ((z1 == (BitVec.setWidth 64 (M >>> 64))) && (BitVec.ule (BitVec.setWidth 64 M) z0)) = true
      ↔ F128.p ≤ v2 (z0, z1) := final_cond_iff z0 z1

/-- first conditional subtraction (`if x2 == 1`): every 192-bit value below 2^128 + 2^64·c
    is brought below 2^128 by subtracting (its top limb)·p -/
theorem f128_cond_sub_first (u : BitVec 64 × BitVec 64 × BitVec 64)
    (hb : v3 u < 2 ^ 128 + 2 ^ 64 * F128.c) :
    v2 (if (u.2.2 == 1#64) = true then sub_modulus u.1 u.2.1 else (u.1, u.2.1))
      + u.2.2.toNat * F128.p = v3 u := by
  have h := condsub_hi u (sub_modulus u.1 u.2.1)
    (if (u.2.2 == 1#64) = true then sub_modulus u.1 u.2.1 else (u.1, u.2.1)) rfl rfl hb
  exact h

/-- second conditional subtraction (`if y3 == 1`, after y + (x << 64)): an overflow beyond 192 bits
    is removed by subtracting p·2^64, provided y ≤ (p − 1)(2^64 − 1) — which is what a < p gives -/
theorem f128_cond_sub_second (y : BitVec 64 × BitVec 64 × BitVec 64) (w : BitVec 64 × BitVec 64)
    (hb : v3 y ≤ (F128.p - 1) * (2 ^ 64 - 1)) :
    let s1 := add64_with_carry y.2.1 w.1 0#64
    let s2 := add64_with_carry y.2.2 w.2 s1.2
    let y' := if (s2.2 == 1#64) = true then sub_modulus s1.1 s2.1 else (s1.1, s2.1)
    y.1.toNat + 2 ^ 64 * v2 y' + s2.2.toNat * (2 ^ 64 * F128.p) = v3 y + 2 ^ 64 * v2 w := by
  intro s1 s2 y'
  exact condsub_mid y w s1 s2 (sub_modulus s1.1 s2.1) y'
    (add64_with_carry_spec _ _ _) (add64_with_carry_spec _ _ _) rfl rfl hb

/-- final conditional subtraction: every value below 2^128 + 2^64·c becomes canonical -/
theorem f128_cond_sub_final (z : BitVec 64 × BitVec 64 × BitVec 64)
    (hb : v3 z < 2 ^ 128 + 2 ^ 64 * F128.c) :
    let z' := if (z.2.2 == 1#64 || z.2.1 == BitVec.setWidth 64 (M >>> 64) &&
        (BitVec.setWidth 64 M).ule z.1) = true then sub_modulus z.1 z.2.1 else (z.1, z.2.1)
    v2 z' < F128.p ∧ ∃ k, v2 z' + k * F128.p = v3 z := by
  intro z'
  exact condsub_final z (sub_modulus z.1 z.2.1) z' rfl rfl hb

/-! ## §3 multiplication -/

/-- for every pair of reduced words the product is reduced and is a·b mod p -/
theorem f128_mul_exact (a b : BitVec 128) (ha : Rep a) (hb : Rep b) :
    Rep (mul a b) ∧ (mul a b).toNat = a.toNat * b.toNat % F128.p := mul_spec a b ha hb

/-- only the first operand has to be reduced: the second may be ANY 128-bit integer -/
theorem f128_mul_exact_any_rhs (a b : BitVec 128) (ha : Rep a) :
    Rep (mul a b) ∧ (mul a b).toNat = a.toNat * b.toNat % F128.p := mul_spec_gen a b ha

/-! ## §4 quadratic extension over any commutative ring

`(C r0 + C r1 * X) + C q * f` says: the result is the product reduced modulo `f`. -/

section ext
variable {R : Type} [CommRing R] [DecidableEq R] (inv : R → R)

/-- f128 quadratic extension: multiplication modulo x² − x − 1 -/
theorem f128_ext2_mul (a0 a1 b0 b1 : R) :
    let r := ext2Mul (ringOps R inv) (a0, a1) (b0, b1)
    (C a0 + C a1 * X) * (C b0 + C b1 * X) = (C r.1 + C r.2 * X) + C (a1 * b1) * (X ^ 2 - X - 1) := by
  simp only [ext2Mul, ringOps, map_sub, map_add, map_mul]
  ring

theorem f128_ext2_mul_base (a0 a1 b : R) :
    ext2MulBase (ringOps R inv) (a0, a1) b = ext2Mul (ringOps R inv) (a0, a1) (b, 0) := by
  simp only [ext2MulBase, ext2Mul, ringOps, Prod.mk.injEq]
  constructor <;> first | trivial | ring

end ext

/-! ## non-vacuity -/

example : Rep (new 5#128) ∧ (new 5#128).toNat = 5 := ⟨by unfold Rep; decide, by decide⟩
example : ¬ Rep 340282366920938463463374557953744961537#128 := by unfold Rep; decide
example : new 340282366920938463463374557953744961538#128 = 1#128 := by decide
example : add 340282366920938463463374557953744961536#128 3#128 = 2#128 := by decide
example : sub 1#128 2#128 = 340282366920938463463374557953744961536#128 := by decide
/-- (p − 1)² = 1: both conditional subtractions of the high part and the final one are exercised -/
example : mul 340282366920938463463374557953744961536#128 340282366920938463463374557953744961536#128
    = 1#128 := by decide
example : mul 170141183460469231731687278976872480769#128 2#128 = 1#128 := by decide
example : v3 (mul_by_modulus 0xffffffffffffffff#64) = (2 ^ 64 - 1) * F128.p := by decide
example : v3 (mul_reduce 7#64 9#64 3#64) = 7 + 2 ^ 64 * 9 + 3 * F128.c := by decide

end Wf.Props.C10F128
