/-
C23 — Transition divisors, degree bounds and periodic columns are consistent.

Models: `Wf/Model/AirDivisor.lean` (hand-written from `air/src/air/divisor.rs`,
`transition/degree.rs`, `context.rs`, `Air::get_periodic_column_polys`), tied to winter-air by the
correspondence stream `c23`.  Field-generic statements are over ANY field `K` (`fops K`: every
`FieldOps` operation is the field operation, `inv 0 = 0`; `fpow`: exponentiation is the power) and
any primitive `n`-th root of unity `g` (`n` need not even be a power of two); that f64/f62/f128
are such fields and that `get_root_of_unity(log2 n)` is such a root is C10/C11's business.

Reading guide
* `transition_divisor_*`: `from_transition(n, e)` is `(x^n − 1) / Π_{i<e} (x − g^(n−e+i))`, which
  equals `Π_{s<n−e} (x − g^s)`: degree `n − e`, zero at `g^s` iff `s < n − e`, non-zero off the
  trace domain.  NOTE `evaluate_at` computes numerator·inv(denominator); AT an exemption point both
  are 0 and it returns 0 although the quotient polynomial is not 0 there; the theorems therefore
  speak about the quotient polynomial and about `evaluate_at` wherever the denominator is non-zero
  (the code only calls it on cosets / out-of-domain points).
* `evaluationDegree_*`, `minBlowupFactor_*`, `setNumTransitionExemptions_*`: the degree formulas.
* `composition_columns_*`: column count of the composition polynomial (after /repo commit adf2d5f;
  the pre-fix formula is refuted by `composition_columns_prefix_too_few`).
* `periodic_column_*`: periodic polynomial reproduces the cycle, RELATIVE to "the interpolated
  coefficient list passes through the cycle values on the subgroup of order `len`" — correctness of
  `fft::interpolate_poly` is property C12/C13, not re-proved here; the hypothesis is discharged for
  the inverse-DFT specification `idft` in `periodic_column_reproduces_cycle_idft`.
-/
import Wf.Lemmas.AirDivisor
import Wf.Lemmas.Idft
namespace Wf.Props.C23
open Wf Wf.AirDivisor Finset

variable {K : Type} [Field K] [DecidableEq K]

/-! ## transition divisor -/

omit [DecidableEq K] in
private theorem list_range_map_prod (f : Nat → K) (e : Nat) :
    ((List.range e).map f).prod = ∏ i ∈ range e, f i := by
  induction e with
  | zero => simp
  | succ e ih => rw [List.range_succ, List.map_append, List.prod_append, ih, prod_range_succ]; simp

/-- the divisor built by `from_transition(n, e)`: numerator `x^n − 1`, exemption points the last
`e` points of the trace domain; it exists exactly when `e ≤ n` -/
theorem transition_divisor_shape (g : K) (n e : Nat) :
    (e ≤ n → fromTransition (fops K) fpow g n e =
      some ⟨[(n, 1)], (List.range e).map fun i => g ^ (n - e + i)⟩) ∧
    (n < e → fromTransition (fops K) fpow g n e = none) := by
  constructor
  · intro h; simp [fromTransition, Nat.not_lt.2 h, traceDomainValueAt]
  · intro h; simp [fromTransition, h]

/-- `degree()` of the transition divisor is `n − e` (trace length minus exemptions) -/
theorem transition_divisor_degree (g : K) (n e : Nat) (d : Divisor K)
    (h : fromTransition (fops K) fpow g n e = some d) : d.degree = n - e := by
  by_cases he : e ≤ n
  · rw [(transition_divisor_shape g n e).1 he] at h; cases h
    simp [Divisor.degree]
  · rw [(transition_divisor_shape g n e).2 (by omega)] at h; cases h

/-- numerator and denominator of `evaluate_at`: `x^n − 1` (for `n < 2^32`, see
`evaluate_at_u32_cast_degenerate`) and `Π_{i<e} (x − g^(n−e+i))` -/
theorem transition_divisor_parts (g : K) (n e : Nat) (h32 : n < 2 ^ 32) (d : Divisor K)
    (h : fromTransition (fops K) fpow g n e = some d) (x : K) :
    d.evalNumerator (fops K) fpow x = x ^ n - 1 ∧
    d.evalExemptions (fops K) x = ∏ i ∈ range e, (x - g ^ (n - e + i)) ∧
    d.evaluateAt (fops K) fpow x = (x ^ n - 1) * (∏ i ∈ range e, (x - g ^ (n - e + i)))⁻¹ := by
  have he : e ≤ n := by
    by_contra hc
    rw [(transition_divisor_shape g n e).2 (by omega)] at h; cases h
  rw [(transition_divisor_shape g n e).1 he] at h; cases h
  have h1 : Divisor.evalNumerator (fops K) fpow ⟨[(n, 1)], (List.range e).map fun i => g ^ (n - e + i)⟩ x
      = x ^ n - 1 := by
    simp only [Divisor.evalNumerator, u32Cast, List.foldl_cons, List.foldl_nil, rops_mul, rops_sub,
      rops_one, one_mul, Nat.mod_eq_of_lt h32]
  have h2 : Divisor.evalExemptions (fops K) ⟨[(n, 1)], (List.range e).map fun i => g ^ (n - e + i)⟩ x
      = ∏ i ∈ range e, (x - g ^ (n - e + i)) := by
    simp only [Divisor.evalExemptions]
    rw [foldl_mul_sub, rops_one, one_mul, List.map_map, list_range_map_prod]
    rfl
  refine ⟨h1, h2, ?_⟩
  simp only [Divisor.evaluateAt, h1, h2, rops_mul, rops_inv]

/-- `x^n − 1 = Π_{s<n−e} (x − g^s) · Π_{i<e} (x − g^(n−e+i))`: dividing `x^n − 1` by the exemption
factors leaves exactly the product over the non-exempt trace-domain points -/
theorem transition_divisor_factorisation {g : K} {n : Nat} (hn : 0 < n) (hg : IsPrimitiveRoot g n)
    (e : Nat) (he : e ≤ n) (x : K) :
    (∏ s ∈ range (n - e), (x - g ^ s)) * (∏ i ∈ range e, (x - g ^ (n - e + i))) = x ^ n - 1 := by
  rw [← prod_range_sub_pow hn hg x]
  conv_rhs => rw [show n = (n - e) + e by omega, prod_range_add]

/-- wherever the denominator does not vanish, `evaluate_at` IS the polynomial
`Π_{s<n−e} (x − g^s)` of degree `n − e` -/
theorem transition_divisor_eq_prod {g : K} {n : Nat} (hn : 0 < n) (h32 : n < 2 ^ 32)
    (hg : IsPrimitiveRoot g n) (e : Nat) (d : Divisor K)
    (h : fromTransition (fops K) fpow g n e = some d) (x : K)
    (hx : d.evalExemptions (fops K) x ≠ 0) :
    d.evaluateAt (fops K) fpow x = ∏ s ∈ range (n - e), (x - g ^ s) := by
  have he : e ≤ n := by
    by_contra hc
    rw [(transition_divisor_shape g n e).2 (by omega)] at h; cases h
  obtain ⟨_, h2, h3⟩ := transition_divisor_parts g n e h32 d h x
  rw [h2] at hx
  rw [h3, ← transition_divisor_factorisation hn hg e he x, mul_assoc, mul_inv_cancel₀ hx, mul_one]

omit [DecidableEq K] in
/-- the quotient polynomial vanishes at the trace-domain point `g^s` (`s < n`) IF AND ONLY IF
`s < n − e`: on every step except the exempted last `e` ones -/
theorem transition_divisor_vanishes_iff {g : K} {n : Nat} (hg : IsPrimitiveRoot g n)
    (e s : Nat) (hs : s < n) :
    (∏ i ∈ range (n - e), (g ^ s - g ^ i)) = 0 ↔ s < n - e := by
  rw [prod_eq_zero_iff]
  constructor
  · rintro ⟨i, hi, h⟩
    have hi' : i < n - e := by simpa using hi
    have := hg.pow_inj hs (by omega) (sub_eq_zero.1 h)
    omega
  · intro h; exact ⟨s, by simpa using h, sub_self _⟩

/-- … the denominator vanishes exactly on the exempted points, and on the non-exempt points
`evaluate_at` itself returns 0 -/
theorem transition_divisor_on_domain {g : K} {n : Nat} (h32 : n < 2 ^ 32)
    (hg : IsPrimitiveRoot g n) (e : Nat) (d : Divisor K)
    (h : fromTransition (fops K) fpow g n e = some d) (s : Nat) (hs : s < n) :
    (d.evalExemptions (fops K) (g ^ s) = 0 ↔ n - e ≤ s) ∧
    (s < n - e → d.evaluateAt (fops K) fpow (g ^ s) = 0) := by
  have he : e ≤ n := by
    by_contra hc
    rw [(transition_divisor_shape g n e).2 (by omega)] at h; cases h
  obtain ⟨_, h2, h3⟩ := transition_divisor_parts g n e h32 d h (g ^ s)
  have hiff : d.evalExemptions (fops K) (g ^ s) = 0 ↔ n - e ≤ s := by
    rw [h2, prod_eq_zero_iff]
    constructor
    · rintro ⟨i, hi, hz⟩
      have hi' : i < e := by simpa using hi
      have := hg.pow_inj hs (by omega) (sub_eq_zero.1 hz)
      omega
    · intro hge
      exact ⟨s - (n - e), by simp only [mem_range]; omega, by rw [show n - e + (s - (n - e)) = s by omega, sub_self]⟩
  refine ⟨hiff, fun hlt => ?_⟩
  have h1 : (g ^ s) ^ n = 1 := by rw [← pow_mul, mul_comm, pow_mul, hg.pow_eq_one, one_pow]
  rw [h3, h1, sub_self, zero_mul]

/-- off the trace domain (`x^n ≠ 1`) the divisor is non-zero, so dividing by it is sound -/
theorem transition_divisor_ne_zero_off_domain {g : K} {n : Nat} (hn : 0 < n) (h32 : n < 2 ^ 32)
    (hg : IsPrimitiveRoot g n) (e : Nat) (d : Divisor K)
    (h : fromTransition (fops K) fpow g n e = some d) (x : K) (hx : x ^ n ≠ 1) :
    d.evaluateAt (fops K) fpow x ≠ 0 := by
  have he : e ≤ n := by
    by_contra hc
    rw [(transition_divisor_shape g n e).2 (by omega)] at h; cases h
  obtain ⟨_, _, h3⟩ := transition_divisor_parts g n e h32 d h x
  have hne : x ^ n - 1 ≠ 0 := sub_ne_zero.2 hx
  have hf := transition_divisor_factorisation hn hg e he x
  rw [h3]
  refine mul_ne_zero hne (inv_ne_zero ?_)
  intro hz; rw [hz, mul_zero] at hf; exact hne hf.symm

/-- LIMIT made visible by the model: `evaluate_at` casts the numerator degree `as u32`.  For the
largest f64 trace length `n = 2^32` the numerator becomes `x^0 − 1 = 0` at EVERY point
(out of executable reach: a 2^32-row trace; recorded like DESIGN.md §5-D13). -/
theorem evaluate_at_u32_cast_degenerate (g x : K) (e : Nat) (d : Divisor K)
    (h : fromTransition (fops K) fpow g (2 ^ 32) e = some d) :
    d.evalNumerator (fops K) fpow x = 0 := by
  by_cases he : e ≤ 2 ^ 32
  · rw [(transition_divisor_shape g _ e).1 he] at h; cases h
    simp [Divisor.evalNumerator, u32Cast]
  · rw [(transition_divisor_shape g _ e).2 (by omega)] at h; cases h

/-! ## declared degrees -/

/-- what `new` / `with_cycles` accept: base ≥ 1, every cycle a power of two ≥ 2 -/
def ValidDegree (d : TcDegree) : Prop := 0 < d.base ∧ ∀ c ∈ d.cycles, 2 ≤ c ∧ Assertion.Pow2 c

private theorem isPow2_iff' (n : Nat) : isPow2 n = true ↔ Assertion.Pow2 n := by
  unfold isPow2 Assertion.Pow2
  rw [beq_iff_eq]
  constructor
  · intro h; exact ⟨n.log2, h.symm⟩
  · rintro ⟨k, rfl⟩; rw [Nat.log2_two_pow]

theorem constructors_valid :
    (∀ b d, TcDegree.new b = some d → ValidDegree d ∧ d = ⟨b, []⟩) ∧
    (∀ b cs d, TcDegree.withCycles b cs = some d → ValidDegree d ∧ d = ⟨b, cs⟩) ∧
    (∀ d, ValidDegree d → TcDegree.withCycles d.base d.cycles = some d) := by
  refine ⟨?_, ?_, ?_⟩
  · intro b d h
    unfold TcDegree.new at h
    split at h
    · cases h; exact ⟨⟨by assumption, by simp⟩, rfl⟩
    · cases h
  · intro b cs d h
    unfold TcDegree.withCycles at h
    by_cases hb : b > 0
    · simp only [hb, decide_true, Bool.not_true, Bool.false_eq_true, if_false] at h
      split at h
      · rename_i hall
        cases h
        refine ⟨⟨hb, fun c hc => ?_⟩, rfl⟩
        have := List.all_eq_true.1 hall c hc
        simp only [Bool.and_eq_true, MIN_CYCLE_LENGTH] at this
        exact ⟨of_decide_eq_true this.1, (isPow2_iff' c).1 this.2⟩
      · cases h
    · simp [hb] at h
  · rintro ⟨b, cs⟩ ⟨hb, hc⟩
    simp only at hb hc
    unfold TcDegree.withCycles
    have hall : cs.all (fun c => decide (c ≥ MIN_CYCLE_LENGTH) && isPow2 c) = true := by
      rw [List.all_eq_true]
      intro c hcm
      simp only [Bool.and_eq_true, MIN_CYCLE_LENGTH]
      exact ⟨decide_eq_true (hc c hcm).1, (isPow2_iff' c).2 (hc c hcm).2⟩
    simp [hb, hall]

/-- `get_evaluation_degree(n)` is `base·(n−1) + Σ (n / cᵢ)·(cᵢ − 1)` … -/
theorem evaluationDegree_eq (d : TcDegree) (n : Nat) :
    d.getEvaluationDegree n = d.base * (n - 1) + (d.cycles.map fun c => (n / c) * (c - 1)).sum := by
  unfold TcDegree.getEvaluationDegree
  exact foldl_add_eq (fun c => (n / c) * (c - 1)) d.cycles _

/-- … which is the DOCUMENTED formula `b·(n−1) + Σ n·(cᵢ−1)/cᵢ` whenever every cycle length
divides the trace length (cycles are powers of two not longer than the trace: the documented
limit, enforced for actual columns by `get_periodic_column_polys`) -/
theorem evaluationDegree_documented (d : TcDegree) (n : Nat) (hdiv : ∀ c ∈ d.cycles, c ∣ n) (hpos : ∀ c ∈ d.cycles, 0 < c) :
    d.getEvaluationDegree n = d.base * (n - 1) + (d.cycles.map fun c => n * (c - 1) / c).sum := by
  rw [evaluationDegree_eq]
  congr 1
  apply congrArg
  apply List.map_congr_left
  intro c hc
  obtain ⟨q, rfl⟩ := hdiv c hc
  rw [Nat.mul_div_cancel_left q (hpos c hc), Nat.mul_assoc, Nat.mul_div_cancel_left _ (hpos c hc)]

/-- every periodic factor contributes at most `n − 1`: the evaluation degree is at most
`(base + #cycles)·(n − 1)` (the bound used in the comment of `min_blowup_factor`) -/
theorem evaluationDegree_le (d : TcDegree) (n : Nat) (hn : 0 < n) (hv : ValidDegree d) :
    d.getEvaluationDegree n ≤ (d.base + d.cycles.length) * (n - 1) := by
  rw [evaluationDegree_eq, Nat.add_mul]
  apply Nat.add_le_add_left
  have : ∀ l : List Nat, (∀ c ∈ l, 2 ≤ c) → (l.map fun c => (n / c) * (c - 1)).sum ≤ l.length * (n - 1) := by
    intro l
    induction l with
    | nil => simp
    | cons c l ih =>
      intro hl
      simp only [List.map_cons, List.sum_cons, List.length_cons, Nat.succ_mul]
      have h2 : 2 ≤ c := hl c (List.mem_cons_self)
      have hle : (n / c) * (c - 1) ≤ n - 1 := by
        by_cases hq : n / c = 0
        · simp [hq]
        · have h1 : (n / c) * c ≤ n := Nat.div_mul_le_self n c
          generalize n / c = q at hq h1 ⊢
          have h3 : q * (c - 1) + q = q * c := by
            rw [← Nat.mul_succ]; congr 1; omega
          omega
      have := ih (fun c hc => hl c (List.mem_cons_of_mem _ hc))
      omega
  exact this d.cycles (fun c hc => (hv.2 c hc).1)

/-- `min_blowup_factor` is a power of two, at least 2 ("guaranteed to be a power of two, greater
than one"), at least the documented degree bound `base + #cycles − 1`, and it is the LEAST power
of two with these two properties -/
theorem minBlowupFactor_spec (d : TcDegree) :
    (∃ k, d.minBlowupFactor = 2 ^ k) ∧ 2 ≤ d.minBlowupFactor ∧
    d.base + d.cycles.length - 1 ≤ d.minBlowupFactor ∧
    ∀ m, 2 ≤ 2 ^ m → d.base + d.cycles.length - 1 ≤ 2 ^ m → d.minBlowupFactor ≤ 2 ^ m := by
  obtain ⟨k, hk, hge, hleast⟩ := nextPow2_spec (d.base + d.cycles.length - 1)
  unfold TcDegree.minBlowupFactor MIN_BLOWUP_FACTOR
  rw [hk]
  refine ⟨?_, by omega, by omega, ?_⟩
  · by_cases h : 2 ≤ 2 ^ k
    · exact ⟨k, by omega⟩
    · exact ⟨1, by omega⟩
  · intro m h2 hm
    have := hleast m hm
    omega

/-- THE blowup relation (comment in `min_blowup_factor`): with the default single exemption the
rational function `C(x)/z(x)` of a constraint has degree `evaluation degree − (n − 1)`, and the
constraint evaluation domain of size `min_blowup_factor · n` is strictly larger than that degree -/
theorem minBlowupFactor_sufficient (d : TcDegree) (n : Nat) (hn : 0 < n) (hv : ValidDegree d) :
    d.getEvaluationDegree n - (n - 1) < d.minBlowupFactor * n := by
  have h1 := evaluationDegree_le d n hn hv
  obtain ⟨_, h2, h3, _⟩ := minBlowupFactor_spec d
  have hb := hv.1
  -- (b + k)(n − 1) − (n − 1) = (b + k − 1)(n − 1) ≤ blowup · (n − 1) < blowup · n
  have h4 : (d.base + d.cycles.length) * (n - 1) - (n - 1) = (d.base + d.cycles.length - 1) * (n - 1) := by
    rw [Nat.sub_mul, Nat.one_mul]
  have h5 : (d.base + d.cycles.length - 1) * (n - 1) ≤ d.minBlowupFactor * (n - 1) :=
    Nat.mul_le_mul_right _ h3
  have h6 : d.minBlowupFactor * (n - 1) < d.minBlowupFactor * n :=
    Nat.mul_lt_mul_of_pos_left (by omega) (by omega)
  omega

/-! ## AirContext: exemptions and composition columns -/

/-- `ce_blowup_factor` is the largest `min_blowup_factor` of the declared degrees -/
theorem ceBlowup_ge (degrees : List TcDegree) : ∀ d ∈ degrees, d.minBlowupFactor ≤ ceBlowupOf degrees :=
  (foldl_max_ge TcDegree.minBlowupFactor degrees 0).2

/-- `highest_constraint_degree` dominates every declared constraint -/
theorem maxEvalDegree_ge (c : Ctx) : ∀ d ∈ c.degrees, d.getEvaluationDegree c.traceLen ≤ c.maxEvalDegree :=
  (foldl_max_ge (fun d => d.getEvaluationDegree c.traceLen) c.degrees 0).2

/-- … and is attained by one of them (or is 0 for an empty list) -/
theorem maxEvalDegree_attained (c : Ctx) :
    c.maxEvalDegree = 0 ∨ ∃ d ∈ c.degrees, c.maxEvalDegree = d.getEvaluationDegree c.traceLen :=
  foldl_max_mem (fun d => d.getEvaluationDegree c.traceLen) c.degrees 0

/-- `set_num_transition_exemptions(e)` succeeds IFF `0 < e ≤ n/2 + 1` and for every constraint the
composition degree `evaluation degree − (n − e)` stays below the constraint evaluation domain size
(`≤ ce_domain_size − 1`, written without subtraction underflow); it then changes only the count -/
theorem setNumTransitionExemptions_ok_iff (c : Ctx) (e : Nat) (c' : Ctx) :
    c.setNumTransitionExemptions e = .ok c' ↔
      (0 < e ∧ e ≤ c.traceLen / 2 + 1 ∧
       (∀ d ∈ c.degrees, e ≤ (c.ceDomainSize - 1) + c.traceLen - d.getEvaluationDegree c.traceLen)) ∧
      c' = { c with exemptions := e } := by
  unfold Ctx.setNumTransitionExemptions
  by_cases h0 : e > 0
  · by_cases h1 : e ≤ c.traceLen / 2 + 1
    · simp only [h0, h1, decide_true, Bool.not_true, Bool.false_eq_true, if_false]
      by_cases hall : c.degrees.all (fun d =>
          decide (e ≤ (c.ceDomainSize - 1) + c.traceLen - d.getEvaluationDegree c.traceLen)) = true
      · simp only [hall, if_true]
        have := List.all_eq_true.1 hall
        simp only [decide_eq_true_eq] at this
        constructor
        · intro h; cases h; exact ⟨⟨trivial, trivial, this⟩, rfl⟩
        · rintro ⟨_, rfl⟩; rfl
      · simp only [hall]
        constructor
        · intro h; cases h
        · rintro ⟨⟨_, _, h⟩, _⟩
          exfalso; apply hall
          rw [List.all_eq_true]; intro d hd; simpa using h d hd
    · simp only [h0, h1, decide_true, decide_false, Bool.not_true, Bool.not_false, Bool.false_eq_true, if_false, if_true]
      constructor
      · intro h; cases h
      · rintro ⟨⟨_, h, _⟩, _⟩; exact h.elim
  · simp only [h0, decide_false, Bool.not_false, if_true]
    constructor
    · intro h; cases h
    · rintro ⟨⟨h, _⟩, _⟩; exact h.elim

/-- no `usize` underflow in `num_constraint_composition_columns`: with at least one valid degree and
at least one exemption, `highest_constraint_degree ≥ n − exemptions` -/
theorem composition_degree_no_underflow (c : Ctx) (hn : 0 < c.traceLen) (he : 0 < c.exemptions)
    (hne : c.degrees ≠ []) (hv : ∀ d ∈ c.degrees, ValidDegree d) :
    c.traceLen - c.exemptions ≤ c.maxEvalDegree := by
  obtain ⟨d, hd⟩ := List.exists_mem_of_ne_nil _ hne
  have h1 := maxEvalDegree_ge c d hd
  have h2 : d.base * (c.traceLen - 1) ≤ d.getEvaluationDegree c.traceLen := by
    rw [evaluationDegree_eq]; omega
  have h3 : 1 * (c.traceLen - 1) ≤ d.base * (c.traceLen - 1) := Nat.mul_le_mul_right _ (hv d hd).1
  omega

/-- COMPOSITION COLUMNS (current source, after commit adf2d5f): the composition polynomial has
degree `deg = highest_constraint_degree − (n − exemptions)`, i.e. `deg + 1` coefficients, each
column holds `n` of them, and `num_constraint_composition_columns · n ≥ deg + 1` — for EVERY
context, no hypothesis on the parameters … -/
theorem composition_columns_sufficient (c : Ctx) (hn : 0 < c.traceLen) :
    c.maxEvalDegree - (c.traceLen - c.exemptions) < c.numConstraintCompositionColumns * c.traceLen := by
  unfold Ctx.numConstraintCompositionColumns
  have h := divCeil_mul_ge (c.maxEvalDegree - (c.traceLen - c.exemptions) + 1) c.traceLen hn
  have : divCeil (c.maxEvalDegree - (c.traceLen - c.exemptions) + 1) c.traceLen * c.traceLen ≤
      max (divCeil (c.maxEvalDegree - (c.traceLen - c.exemptions) + 1) c.traceLen) 1 * c.traceLen :=
    Nat.mul_le_mul_right _ (Nat.le_max_left _ _)
  omega

/-- … in particular every single constraint's quotient fits … -/
theorem composition_columns_sufficient_each (c : Ctx) (hn : 0 < c.traceLen) (d : TcDegree) (hd : d ∈ c.degrees) :
    d.getEvaluationDegree c.traceLen - (c.traceLen - c.exemptions) <
      c.numConstraintCompositionColumns * c.traceLen := by
  have := composition_columns_sufficient c hn
  have := maxEvalDegree_ge c d hd
  omega

/-- … and no column is wasted: any `k ≥ 1` columns that hold the polynomial are at least as many -/
theorem composition_columns_least (c : Ctx) (hn : 0 < c.traceLen) (k : Nat) (hk : 1 ≤ k)
    (hfit : c.maxEvalDegree - (c.traceLen - c.exemptions) < k * c.traceLen) :
    c.numConstraintCompositionColumns ≤ k := by
  unfold Ctx.numConstraintCompositionColumns
  have h := divCeil_mul_lt (c.maxEvalDegree - (c.traceLen - c.exemptions) + 1) c.traceLen hn
  apply Nat.max_le.2 ⟨?_, hk⟩
  by_contra hc
  have : (k + 1) * c.traceLen ≤ divCeil (c.maxEvalDegree - (c.traceLen - c.exemptions) + 1) c.traceLen * c.traceLen :=
    Nat.mul_le_mul_right _ (by omega)
  rw [Nat.add_mul] at this
  omega

/-- REGRESSION (DESIGN.md §5-D12, repaired by /repo commit adf2d5f): the formula used before,
`max(ceil(deg / n), 1)`, is sufficient IFF `deg = 0` or `n ∤ deg` … -/
theorem composition_columns_prefix_sufficient_iff (c : Ctx) (hn : 0 < c.traceLen) :
    c.maxEvalDegree - (c.traceLen - c.exemptions) < c.numConstraintCompositionColumnsPreFix * c.traceLen ↔
      (c.maxEvalDegree - (c.traceLen - c.exemptions) = 0 ∨
       (c.maxEvalDegree - (c.traceLen - c.exemptions)) % c.traceLen ≠ 0) := by
  unfold Ctx.numConstraintCompositionColumnsPreFix
  generalize c.maxEvalDegree - (c.traceLen - c.exemptions) = deg
  generalize c.traceLen = n at hn
  by_cases h0 : deg = 0
  · subst h0
    have : 1 * n ≤ max (divCeil 0 n) 1 * n := Nat.mul_le_mul_right _ (Nat.le_max_right _ _)
    simp only [true_or, iff_true]; omega
  · by_cases hm : deg % n = 0
    · have h1 := divCeil_of_dvd deg n hm
      have hpos : 1 ≤ divCeil deg n := by
        by_contra hc
        have : divCeil deg n = 0 := by omega
        rw [this] at h1; omega
      rw [Nat.max_eq_left hpos, h1]
      simp [h0, hm]
    · have h1 := divCeil_mul_ge deg n hn
      have h2 : divCeil deg n * n % n = 0 := Nat.mul_mod_left _ _
      have hne : divCeil deg n * n ≠ deg := fun h => hm (h ▸ h2)
      have : divCeil deg n * n ≤ max (divCeil deg n) 1 * n := Nat.mul_le_mul_right _ (Nat.le_max_left _ _)
      simp only [h0, hm, false_or, ne_eq, not_false_eq_true, iff_true]
      omega

/-- … and it was one column short e.g. for degree 2 with 2 exemptions (trace length 8: the
polynomial has degree 8, i.e. 9 coefficients, in 1 column of 8), degree 4 with 4 exemptions, and
with cycles for base 1, cycle [2], 5 exemptions; the repaired count holds all of them -/
theorem composition_columns_prefix_too_few :
    let c1 : Ctx := ⟨8, [⟨2, []⟩], 2, 2⟩
    let c2 : Ctx := ⟨8, [⟨4, []⟩], 4, 4⟩
    let c3 : Ctx := ⟨8, [⟨1, [2]⟩], 2, 5⟩
    (c1.setNumTransitionExemptions 2 = .ok c1 ∧ c1.maxEvalDegree - (8 - 2) = 8 ∧
      c1.numConstraintCompositionColumnsPreFix = 1 ∧ c1.numConstraintCompositionColumns = 2) ∧
    (c2.setNumTransitionExemptions 4 = .ok c2 ∧ c2.maxEvalDegree - (8 - 4) = 24 ∧
      c2.numConstraintCompositionColumnsPreFix = 3 ∧ c2.numConstraintCompositionColumns = 4) ∧
    (c3.setNumTransitionExemptions 5 = .ok c3 ∧ c3.maxEvalDegree - (8 - 5) = 8 ∧
      c3.numConstraintCompositionColumnsPreFix = 1 ∧ c3.numConstraintCompositionColumns = 2) := by
  decide

/-! ## periodic columns -/

omit [Field K] [DecidableEq K] in
/-- `get_periodic_column_polys` accepts a column iff its length is a power of two, at least 2 and
at most the trace length; the polynomial is then the interpolation of the cycle -/
theorem periodicPoly_some_iff (interp : List K → List K) (values : List K) (n : Nat) (p : List K) :
    periodicPoly interp values n = some p ↔
      (2 ≤ values.length ∧ Assertion.Pow2 values.length ∧ values.length ≤ n) ∧ p = interp values := by
  unfold periodicPoly periodicColumnOk MIN_CYCLE_LENGTH
  by_cases h : (decide (values.length ≥ 2) && isPow2 values.length && decide (values.length ≤ n)) = true
  · simp only [h, if_true]
    simp only [Bool.and_eq_true, decide_eq_true_eq, isPow2_iff'] at h
    constructor
    · intro hp; cases hp; exact ⟨⟨h.1.1, h.1.2, h.2⟩, rfl⟩
    · rintro ⟨_, rfl⟩; rfl
  · simp only [h]
    constructor
    · intro hp; cases hp
    · rintro ⟨⟨h1, h2, h3⟩, _⟩
      exfalso; apply h
      simp only [Bool.and_eq_true, decide_eq_true_eq, isPow2_iff']
      exact ⟨⟨h1, h2⟩, h3⟩

/-- PERIODIC COLUMNS.  Let `poly` have `len` coefficients (`len ∣ n`, `n < 2^32`) and pass through
the cycle values on the subgroup generated by `g^(n/len)` — which is what
`interpolate_poly(values, get_inv_twiddles(len))` returns (C12/C13; `get_root_of_unity(log2 len) =
g^(n/len)` is the root coherence of C11).  Then at EVERY trace step `s` (any natural number) the
evaluators' expression `poly((g^s)^(n/len))` is the cycle value `values[s mod len]`. -/
theorem periodic_column_reproduces_cycle {g : K} {n : Nat} (hg : g ^ n = 1) (h32 : n < 2 ^ 32)
    (values poly : List K) (hlen : poly.length = values.length) (hpos : 0 < values.length)
    (hdiv : values.length ∣ n)
    (hinterp : ∀ i (hi : i < values.length),
      polyEval (fops K) poly ((g ^ (n / values.length)) ^ i) = values[i]) (s : Nat) :
    periodicEvalAt (fops K) fpow poly n (g ^ s) =
      values[s % values.length]'(Nat.mod_lt _ hpos) := by
  unfold periodicEvalAt u32Cast
  have hlt : n / poly.length < 2 ^ 32 := lt_of_le_of_lt (Nat.div_le_self _ _) h32
  rw [Nat.mod_eq_of_lt hlt, hlen, ← hinterp (s % values.length) (Nat.mod_lt _ hpos)]
  congr 1
  show (g ^ s) ^ (n / values.length) = (g ^ (n / values.length)) ^ (s % values.length)
  have hω : (g ^ (n / values.length)) ^ values.length = 1 := by
    rw [← pow_mul, Nat.div_mul_cancel hdiv, hg]
  rw [← pow_mul, mul_comm, pow_mul]
  conv_lhs => rw [← Nat.mod_add_div s values.length, pow_add, pow_mul, hω, one_pow, mul_one]

/-- consequence: two trace steps in the same phase of the cycle see the same periodic value -/
theorem periodic_column_two_steps_same_phase {g : K} {n : Nat} (hg : g ^ n = 1) (h32 : n < 2 ^ 32)
    (values poly : List K) (hlen : poly.length = values.length) (hpos : 0 < values.length)
    (hdiv : values.length ∣ n)
    (hinterp : ∀ i (hi : i < values.length),
      polyEval (fops K) poly ((g ^ (n / values.length)) ^ i) = values[i]) (s t : Nat)
    (hst : s % values.length = t % values.length) :
    periodicEvalAt (fops K) fpow poly n (g ^ s) = periodicEvalAt (fops K) fpow poly n (g ^ t) := by
  rw [periodic_column_reproduces_cycle hg h32 values poly hlen hpos hdiv hinterp s,
    periodic_column_reproduces_cycle hg h32 values poly hlen hpos hdiv hinterp t]
  simp only [hst]

/-- the interpolation hypothesis is DISCHARGED for the specification of `interpolate_poly` that the
driver runs and the stream compares with the real coefficients (`idft`, the inverse DFT over the
subgroup generated by `g^(n/len)`): with it, periodic columns reproduce their cycle
unconditionally (in characteristic not dividing `len`, true for the three STARK fields). What
remains for C12/C13 is that the FFT code computes `idft`. -/
theorem periodic_column_reproduces_cycle_idft {g : K} {n : Nat} (hn : 0 < n) (hg : IsPrimitiveRoot g n)
    (h32 : n < 2 ^ 32) (values : List K) (hpos : 0 < values.length) (hdiv : values.length ∣ n)
    (hchar : (values.length : K) ≠ 0) (s : Nat) :
    periodicEvalAt (fops K) fpow (idft (fops K) fpow (g ^ (n / values.length)) values) n (g ^ s) =
      values[s % values.length]'(Nat.mod_lt _ hpos) := by
  have hω : IsPrimitiveRoot (g ^ (n / values.length)) values.length :=
    hg.pow hn (Nat.div_mul_cancel hdiv).symm
  exact periodic_column_reproduces_cycle hg.pow_eq_one h32 values _ (idft_length _ values) hpos hdiv
    (fun i hi => idft_interpolates values hpos hω hchar i hi) s

/-! ## non-vacuity: the hypotheses are satisfiable and the statements have content -/

/-- `ZMod 17`, `g = 2` is a primitive 8-th root of unity (2^8 = 256 = 1, 2^4 = 16 = −1) -/
example : IsPrimitiveRoot (2 : ZMod 17) 8 := by
  have : Fact (Nat.Prime 17) := ⟨by decide⟩
  refine IsPrimitiveRoot.mk_of_lt 2 (by norm_num) (by decide) ?_
  intro l hl hl8; interval_cases l <;> decide

/-- a degree with cycles, its evaluation degree on a 64-row trace is the documented 188 and its
minimum blowup factor 2 -/
example : TcDegree.withCycles 2 [32] = some ⟨2, [32]⟩ ∧
    (TcDegree.getEvaluationDegree ⟨2, [32]⟩ 64 = 188) ∧ (TcDegree.minBlowupFactor ⟨2, [32]⟩ = 2) := by decide

example : ValidDegree ⟨2, [32]⟩ := ⟨by decide, by intro c hc; simp at hc; subst hc; exact ⟨by decide, 5, rfl⟩⟩

/-- degree 6 needs blowup 8, degree 5 only 4 (the example in the source comment) -/
example : TcDegree.minBlowupFactor ⟨6, []⟩ = 8 ∧ TcDegree.minBlowupFactor ⟨5, []⟩ = 4 ∧
    TcDegree.minBlowupFactor ⟨1, []⟩ = 2 := by decide

/-- a context accepted by the setter whose column count is not the trivial 1 -/
example : (Ctx.new 8 [⟨3, []⟩, ⟨1, [2]⟩] 4).bind (fun c => (c.setNumTransitionExemptions 2).toOption) =
      some ⟨8, [⟨3, []⟩, ⟨1, [2]⟩], 2, 2⟩ ∧
    Ctx.numConstraintCompositionColumns ⟨8, [⟨3, []⟩, ⟨1, [2]⟩], 2, 2⟩ = 2 := by decide

/-- the setter rejects what it documents -/
example : (Ctx.setNumTransitionExemptions ⟨8, [⟨1, []⟩], 2, 1⟩ 0 = .error .zero) ∧
    (Ctx.setNumTransitionExemptions ⟨8, [⟨1, []⟩], 2, 1⟩ 6 = .error .halfTrace) ∧
    (Ctx.setNumTransitionExemptions ⟨8, [⟨3, []⟩, ⟨1, []⟩], 2, 1⟩ 3 = .error .degree) := by decide

end Wf.Props.C23
