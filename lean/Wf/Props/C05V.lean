/-
C05 (continued), C04, C03 — theorems about the executable model of the WHOLE verifier
(`Wf.Verifier.verifyModel`, `lean/Wf/Model/Verifier.lean`: `Proof::from_bytes` followed by
`winter_verifier::verify`), which the streams `vfy` / `vfy4` / `vfy3` tie to the real code answer by
answer.  The statements hold for EVERY hash function (`HashParams`), every base field and its
evaluation fields (`FieldSet`), every AIR description, all public inputs and ALL byte strings.

`verify_never_aborts` composes the no-panic facts of the components (decoders: C05/C07, Merkle batch
verification: C19, FRI verifier loop: C09, public coin: C20) with the bookkeeping that links them
inside `verify` (numbers of commitments / layers / alphas, row widths, query positions below the
LDE domain size, divisibility of the domain by the folding factor established by `FriVerifier::new`,
roots of unity of the orders that occur, coefficient counts, assertion validity).  Its hypothesis
`contextFits` lists exactly the conditions on the UNTRUSTED context of the proof that `verify` does
not check before relying on them; each is a panic site of the real code (recorded findings, replayed
by the checked stream `vfy`).  Two further conditions of the first version of this file — a modulus
that fits `from_bytes_with_padding`, fewer queries than LDE points — were predicted by the model,
confirmed on the real verifier and repaired in /repo (ceafb22); the model follows and the theorems
no longer need them.
-/
import Wf.Lemmas.VerifierAccept
import Wf.Lemmas.VerifierExample
import Wf.Lemmas.VerifierSites
namespace Wf.Props.C05V
open Wf Wf.Verifier Wf.AirDesc

/-! ## C05: no panic -/

/-- MAIN.  For EVERY byte string, hasher, field set, description, public inputs and acceptable
options (option set or minimal conjectured security): if the context of the decoded proof fits the
statement (`contextFits`: `Air::new` accepts the layout, periodic columns not longer than the trace,
assertions valid for the announced width/length) then the verdict is `ok` or an error — never a
panic.  Bytes that do not decode need no hypothesis at all.  (`fieldOk` is a sanity condition on the
base-field PARAMETERS — at least two bytes per element, every value of one byte less is below the
modulus — true of f64, f62 and f128.) -/
theorem verify_never_aborts (H : HashParams) (fs : FieldSet) (d : Desc) (pub : PubInputs)
    (acc : Security.Acceptable) (bytes : Bytes) (hacc : ∀ bits, acc ≠ .minProven bits)
    (hfield : fieldOk fs.fp = true)
    (hfits : ∀ p r, proofDec bytes = .ok p r → contextFits fs.fp d pub p.context = true) :
    verifyModel H fs d pub acc bytes = .ok () ∨
    ∃ e, verifyModel H fs d pub acc bytes = .error e ∧ ∀ s, e ≠ .abort s := by
  cases hv : verifyModel H fs d pub acc bytes with
  | ok u => cases u; exact Or.inl rfl
  | error e =>
    refine Or.inr ⟨e, rfl, ?_⟩
    intro s hs
    subst hs
    exact verifyModel_noabort H fs d pub acc bytes s hacc hfield hfits hv

/-- the same, read the other way: a panic of `verify` implies that the proof decoded and that its
context does NOT fit the statement (one of the three unchecked conditions fails) -/
theorem abort_only_if_context_does_not_fit (H : HashParams) (fs : FieldSet) (d : Desc) (pub : PubInputs)
    (acc : Security.Acceptable) (bytes : Bytes) (s : AbortSite) (hacc : ∀ bits, acc ≠ .minProven bits)
    (hfield : fieldOk fs.fp = true)
    (h : verifyModel H fs d pub acc bytes = .error (.abort s)) :
    ∃ p r, proofDec bytes = .ok p r ∧ contextFits fs.fp d pub p.context = false := by
  cases hp : proofDec bytes with
  | ok p r =>
    refine ⟨p, r, rfl, ?_⟩
    cases hf : contextFits fs.fp d pub p.context with
    | false => rfl
    | true =>
      exfalso
      refine verifyModel_noabort H fs d pub acc bytes s hacc hfield ?_ h
      intro p' r' hp'
      rw [hp] at hp'
      injection hp' with h1 h2
      subst h1; exact hf
  | err e => unfold verifyModel at h; rw [hp] at h; cases h
  | abort => exact absurd hp (proof_noAbort bytes)

/-- COMPLETENESS OF THE LIST.  With NO hypothesis on the proof: whatever the bytes, a panic of the
model can only be one of the three named sites (`Air::new`, periodic columns, boundary constraints) —
all three one root cause: `verify` hands the proof's `TraceInfo` to the AIR before anything relates it
to the statement.  Every other place where the Rust code indexes, unwraps or asserts — the seed
construction and `draw_integers` (since fix ceafb22), the FRI verifier loop and its channel, both
Merkle batch verifications, `Table::from_bytes`, `TransitionConstraints::new`, roots of unity, the
security estimate, all decoders — is unreachable for every byte string. -/
theorem verify_aborts_only_at_named_sites (H : HashParams) (fs : FieldSet) (d : Desc) (pub : PubInputs)
    (acc : Security.Acceptable) (bytes : Bytes) (s : AbortSite) (hacc : ∀ bits, acc ≠ .minProven bits)
    (hfield : fieldOk fs.fp = true)
    (h : verifyModel H fs d pub acc bytes = .error (.abort s)) :
    s = .airNew ∨ s = .periodic ∨ s = .boundary :=
  verifyModel_abort H fs d pub acc bytes s hacc hfield h

/-- on a parsed proof (whatever bytes it came from) -/
theorem verify_parsed_never_aborts (H : HashParams) (fs : FieldSet) (d : Desc) (pub : PubInputs)
    (acc : Security.Acceptable) (p : ProofM) (s : AbortSite) (hacc : ∀ bits, acc ≠ .minProven bits)
    (hfield : fieldOk fs.fp = true) (hd : Decoded p) (hfits : contextFits fs.fp d pub p.context = true) :
    verifyParsed H fs d pub acc p ≠ .error (.abort s) :=
  verifyParsed_noabort H fs d pub acc p s hacc hfield hd hfits

/-- the FRI phase in isolation: on the openings the verifier derives from the proof
(`layerOpenings`), `FriVerifier::verify` never panics once the domain is divisible by
`folding ^ layers` (what `FriVerifier::new` establishes) and the positions lie in the domain -/
theorem fri_phase_never_aborts {F} (H : HashParams) (ef : EF F) (v : Fri.Verifier F) (evaluations : List F)
    (positions cms : List Nat) (ls : List (List F × Merkle.BatchProof Nat)) (remainder : List F)
    (remOk : Bool) (hf : 0 < v.options.folding) (hnp : 0 < v.numPartitions)
    (hc : v.options.numFriLayers v.domainSize ≤ cms.length)
    (hl : v.options.numFriLayers v.domainSize ≤ ls.length)
    (ha : v.options.numFriLayers v.domainSize ≤ v.alphas.length)
    (hdvd : v.options.folding ^ (v.options.numFriLayers v.domainSize) ∣ v.domainSize)
    (hd : 0 < v.domainSize) (hp : ∀ p ∈ positions, p < v.domainSize) :
    Fri.verify ef.ops v evaluations positions
      (layerOpenings H ef v.options.folding v.numPartitions positions v.domainSize cms ls) remainder remOk
      ≠ .abort :=
  friVerify_noabort H ef v evaluations positions cms ls remainder remOk hf hnp hc hl ha hdvd hd hp

/-! ## C04: the verdict is a function of the parsed proof -/

/-- C04 ("semantically identical"): the verdict depends on the bytes only through the parsed proof —
two byte strings that decode to equal `ProofM` values (whatever follows the encodings) get the same
verdict, for every hasher, field, statement and acceptable-options value. -/
theorem verify_deterministic_in_parsed_proof (H : HashParams) (fs : FieldSet) (d : Desc)
    (pub : PubInputs) (acc : Security.Acceptable) (bytes1 bytes2 : Bytes) (p : ProofM) (r1 r2 : Bytes)
    (h1 : proofDec bytes1 = .ok p r1) (h2 : proofDec bytes2 = .ok p r2) :
    verifyModel H fs d pub acc bytes1 = verifyModel H fs d pub acc bytes2 := by
  unfold verifyModel
  rw [h1, h2]

/-- the verdict on decodable bytes IS the verdict of `verify` on the parsed proof -/
theorem verify_factors_through_parsed_proof (H : HashParams) (fs : FieldSet) (d : Desc)
    (pub : PubInputs) (acc : Security.Acceptable) (bytes : Bytes) (p : ProofM) (r : Bytes)
    (h : proofDec bytes = .ok p r) :
    verifyModel H fs d pub acc bytes = verifyParsed H fs d pub acc p := by
  unfold verifyModel
  rw [h]

/-- bytes that are not a proof are rejected before `verify` is reached -/
theorem undecodable_bytes_rejected (H : HashParams) (fs : FieldSet) (d : Desc)
    (pub : PubInputs) (acc : Security.Acceptable) (bytes : Bytes) (e : Err)
    (h : proofDec bytes = .err e) :
    verifyModel H fs d pub acc bytes = .error .fromBytes := by
  unfold verifyModel
  rw [h]

/-! ## C02 / C03: what acceptance establishes (deterministic cores) -/

/-- ACCEPTED ⇒ OOD CONSISTENT.  If the model accepts a byte string then it decodes to a proof `p`,
the AIR accepts its layout, and — in the evaluation field selected by the proof — the channel parses,
the composition coefficients and the point `z` are drawn from the coin seeded with the context and
public inputs and reseeded with the trace and constraint commitments, and the constraint evaluation
over the parsed out-of-domain frame EQUALS the recombination `Σ z^(i·n)·H_i(z)` of the parsed
quotient frame.  (C02: a false statement can only be accepted if this equation holds at the drawn
`z`; the counting bound for that is `Wf.Props.C02`.) -/
theorem accepted_implies_ood_consistent (H : HashParams) (fs : FieldSet) (d : Desc) (pub : PubInputs)
    (acc : Security.Acceptable) (bytes : Bytes) (h : verifyModel H fs d pub acc bytes = .ok ()) :
    ∃ p r ctx ctxEls, proofDec bytes = .ok p r ∧
      contextElements fs.fp p.context = some ctxEls ∧
      airNew d p.context.info p.context.options = some ctx ∧
      InField fs p.context.options.ext (fun _ ef =>
        ∃ ch tc0 coeffs z c2 ev, channelNew fs.fp ef ctx p = .ok ch ∧
          ch.traceCommitments.head? = some tc0 ∧
          drawChallenges H fs.fp ef p.context.options.batchC
            (d.trans.length + d.auxTrans.length + d.asserts.length) tc0 ch.constraintCommitment
            (Coin.new H.coin (ctxEls ++ pubElements fs.fp d pub)) = .ok ((coeffs, z), c2) ∧
          evaluateConstraints fs.fp ef d pub p.context.info
            (coeffs.take (d.trans.length + d.auxTrans.length))
            (coeffs.drop (d.trans.length + d.auxTrans.length)) ch.oodTraceCur ch.oodTraceNext z = .ok ev ∧
          ef.ops.beq ev (oodQuotientValue ef.ops z p.context.info.length ch.oodQuotCur) = true) := by
  obtain ⟨p, r, hp, hv⟩ := verifyModel_ok H fs d pub acc bytes h
  obtain ⟨ctx, ctxEls, _, _, hels, _, hctx, hin⟩ := verifyParsed_ok H fs d pub acc p hv
  refine ⟨p, r, ctx, ctxEls, hp, hels, hctx, hin.imp ?_⟩
  intro F ef hrun
  obtain ⟨ch, tc0, coeffs, z, c2, deep, alphas, c3, positions, run⟩ := verifyIn_ok H fs.fp ef d pub p ctx _ hrun
  obtain ⟨ev, hev, hbeq⟩ := oodCheck_ok fs.fp ef d pub p.context.info ch coeffs z run.ood
  exact ⟨ch, tc0, coeffs, z, c2, ev, run.channel, run.commitment, run.challenges, hev, hbeq⟩

/-- ACCEPTED ⇒ OPENINGS VERIFY.  If the model accepts then, for the positions drawn from the coin
AFTER it absorbed the trace commitment, the constraint commitment, the out-of-domain digest and every
FRI commitment (`AcceptingRun` spells out the chain), (a) the hashes of the queried main-trace rows
open against the trace commitment and (b) the hashes of the queried constraint rows open against the
constraint commitment under the model's batch Merkle verification, (c) every FRI layer's rows open
against that layer's commitment at the folded positions, and (d) the remainder hashes to the last FRI
commitment.  (C03: with C19's `verify_batch_accepts_only_true_leaves` — injective `merge` — the opened
rows ARE the committed ones.) -/
theorem accepted_implies_openings_verify (H : HashParams) (fs : FieldSet) (d : Desc) (pub : PubInputs)
    (acc : Security.Acceptable) (bytes : Bytes) (h : verifyModel H fs d pub acc bytes = .ok ()) :
    ∃ p r ctx ctxEls, proofDec bytes = .ok p r ∧
      contextElements fs.fp p.context = some ctxEls ∧
      airNew d p.context.info p.context.options = some ctx ∧
      InField fs p.context.options.ext (fun _ ef =>
        ∃ ch tc0 coeffs z c2 deep alphas c3 positions,
          AcceptingRun H fs.fp ef d pub p ctx (ctxEls ++ pubElements fs.fp d pub) ch tc0 coeffs z c2 deep
            alphas c3 positions ∧
          Merkle.verifyBatch H.merge tc0 positions (mainLeaves H ch) ch.mainProof = .ok () ∧
          Merkle.verifyBatch H.merge ch.constraintCommitment positions (constraintLeaves H ef ch)
            ch.constraintProof = .ok () ∧
          (∀ op ∈ (layerOpenings H ef p.context.options.folding ch.friNumPartitions positions
              (Fri.nextPow2 (p.context.info.length - 1 + 1) * p.context.options.blowup) ch.friCommitments
              ch.friLayers).take ((friOptions p.context.options).numFriLayers
                (Fri.nextPow2 (p.context.info.length - 1 + 1) * p.context.options.blowup)),
            op.merkleOk = true) ∧
          remainderCommitted H ef ch = true) := by
  obtain ⟨p, r, hp, hv⟩ := verifyModel_ok H fs d pub acc bytes h
  obtain ⟨ctx, ctxEls, _, _, hels, _, hctx, hin⟩ := verifyParsed_ok H fs d pub acc p hv
  refine ⟨p, r, ctx, ctxEls, hp, hels, hctx, hin.imp ?_⟩
  intro F ef hrun
  obtain ⟨ch, tc0, coeffs, z, c2, deep, alphas, c3, positions, run⟩ := verifyIn_ok H fs.fp ef d pub p ctx _ hrun
  obtain ⟨h1, h2⟩ := checkOpenings_ok H ef ch tc0 positions run.openings
  obtain ⟨h3, h4, _⟩ := lowDegreeCheck_ok H fs.fp ef p.context.info p.context.options ch z deep alphas
    positions run.lowDegree
  exact ⟨ch, tc0, coeffs, z, c2, deep, alphas, c3, positions, run, h1, h2, h4, h3⟩

/-- ACCEPTED ⇒ the options were acceptable, the proof of work holds and the FRI verifier accepted the
DEEP evaluations computed from the opened rows (what THAT implies is C09: `accept_implies_checked`,
`accept_implies_degree_bound`) -/
theorem accepted_implies_fri_accepts (H : HashParams) (fs : FieldSet) (d : Desc) (pub : PubInputs)
    (acc : Security.Acceptable) (bytes : Bytes) (h : verifyModel H fs d pub acc bytes = .ok ()) :
    ∃ p r ctx ctxEls, proofDec bytes = .ok p r ∧ validateOptions H acc p.context = .ok () ∧
      contextElements fs.fp p.context = some ctxEls ∧
      airNew d p.context.info p.context.options = some ctx ∧
      InField fs p.context.options.ext (fun _ ef =>
        ∃ ch tc0 coeffs z c2 deep alphas c3 positions gLde gTrace gFri,
          AcceptingRun H fs.fp ef d pub p ctx (ctxEls ++ pubElements fs.fp d pub) ch tc0 coeffs z c2 deep
            alphas c3 positions ∧
          Fri.verify ef.ops
            (friVerifier ef fs.fp p.context.options p.context.info.length ch.friNumPartitions gFri alphas)
            (deepEvaluations ef fs.fp (p.context.info.main + p.context.info.aux) ch z deep positions gLde gTrace)
            positions
            (layerOpenings H ef p.context.options.folding ch.friNumPartitions positions
              (Fri.nextPow2 (p.context.info.length - 1 + 1) * p.context.options.blowup) ch.friCommitments
              ch.friLayers)
            ch.friRemainder (remainderCommitted H ef ch) = .ok ()) := by
  obtain ⟨p, r, hp, hv⟩ := verifyModel_ok H fs d pub acc bytes h
  obtain ⟨ctx, ctxEls, hval, _, hels, _, hctx, hin⟩ := verifyParsed_ok H fs d pub acc p hv
  refine ⟨p, r, ctx, ctxEls, hp, hval, hels, hctx, hin.imp ?_⟩
  intro F ef hrun
  obtain ⟨ch, tc0, coeffs, z, c2, deep, alphas, c3, positions, run⟩ := verifyIn_ok H fs.fp ef d pub p ctx _ hrun
  obtain ⟨_, _, gLde, gTrace, gFri, hfri⟩ := lowDegreeCheck_ok H fs.fp ef p.context.info p.context.options ch z
    deep alphas positions run.lowDegree
  exact ⟨ch, tc0, coeffs, z, c2, deep, alphas, c3, positions, gLde, gTrace, gFri, run, hfri⟩

/-! ## non-vacuity and reachability of the excluded panics -/

/-- a small statement: one column, `next = cur`, assertion `cell (0, 0) = 5` -/
def d0 : Desc :=
  { width := 1, auxWidth := 0, numRands := 0, exemptions := 1, periodic := [],
    trans := [⟨.sub (.next 0) (.cur 0), 1, []⟩], auxTrans := [], gen := [.cur 0], auxGen := [], auxInit := [],
    asserts := [⟨0, 0, 0, 0, [5]⟩], auxAsserts := [] }

def o0 : ProofOptions := ⟨4, 2, 0, 1, 2, 3, 0, 0, 1, 1⟩

def c0 : Context :=
  { info := ⟨1, 0, 0, 8, []⟩, modulus := leBytes 8 paramsF64.m, options := o0, numConstraints := 1 }

/-- a (dishonest, but decodable) proof carrying context `c` -/
def proofWith (c : Context) : ProofM :=
  { context := c, numUniqueQueries := 1, commitments := [], traceQueries := [([], [])],
    constraintQueries := ([], []), oodFrame := ([], []), fri := ⟨[], [], 0⟩, nonce := 0 }

/-- a hasher (the theorems hold for all; the examples need a closed term) -/
def h0 : HashParams := ⟨fun l => l.length, fun a b => a + b, fun l => l.length, fun a b => a + b, 128⟩

def abortsAt (r : R Unit) (s : AbortSite) : Bool :=
  match r with
  | .error (.abort s') => s' == s
  | _ => false

-- the hypotheses of `verify_never_aborts` are satisfiable: a decodable byte string whose context fits
example : ∃ bytes p r, proofDec bytes = .ok p r ∧ contextFits paramsF64 d0 [[5]] p.context = true :=
  ⟨proofEnc (proofWith c0), proofWith c0, [], by decide +kernel, by decide +kernel⟩

-- ... and on it the model answers with an error, not a panic
example : verifyModel h0 f64Fields d0 [[5]] (.optionSet [o0]) (proofEnc (proofWith c0)) =
    .error (.deser .commitments) := by decide +kernel

-- the field parameters of the instance satisfy the sanity condition
example : fieldOk paramsF64 = true := by decide +kernel
-- REPAIRED (ceafb22): modulus bytes padded to 15 bytes used to panic in `from_bytes_with_padding`;
-- the base field check now comes first
example : verifyModel h0 f64Fields d0 [[5]] (.optionSet [o0])
    (proofEnc (proofWith { c0 with modulus := leBytes 8 paramsF64.m ++ List.replicate 7 0 })) =
    .error .inconsistentBaseField := by decide +kernel
-- REPAIRED (ceafb22): as many queries as LDE points used to reach the assertion of `draw_integers`
example : verifyModel h0 f64Fields d0 [[5]] (.optionSet [⟨16, 2, 0, 1, 2, 3, 0, 0, 1, 1⟩])
    (proofEnc (proofWith { c0 with options := ⟨16, 2, 0, 1, 2, 3, 0, 0, 1, 1⟩ })) =
    .error (.deser .queries) := by decide +kernel
-- a remaining excluded condition is a reachable panic of the model (and of the real verifier):
-- (2) a context announcing an auxiliary segment for a single-segment AIR: `AirContext::new`
example : abortsAt (verifyModel h0 f64Fields d0 [[5]] (.optionSet [o0])
    (proofEnc { proofWith { c0 with info := ⟨1, 1, 0, 8, []⟩ } with traceQueries := [([], []), ([], [])] }))
    .airNew = true := by
  decide +kernel

/-! ### a REAL proof, evaluated by the kernel

`Wf/Lemmas/VerifierExample.lean` holds a 611-byte proof produced by the real prover (and accepted by
the real verifier) over the test hasher; the kernel evaluates the whole model on it. -/

section RealProof
open Wf.Verifier.Example

def verdictIs (r : R Unit) (e : Option VErr) : Bool :=
  match r, e with
  | .ok _, none => true
  | .error a, some b => a == b
  | _, _ => false

def run (bytes : Bytes) : R Unit := verifyModel Wf.Drv.Vfy.vh f64Fields dH pubH (.optionSet [oH]) bytes

-- the honest proof is ACCEPTED: the acceptance theorems are not vacuous
example : verdictIs (run bytesH) none = true := by decide +kernel
-- its context fits the statement
example : ∃ p r, proofDec bytesH = .ok p r ∧ contextFits paramsF64 dH pubH p.context = true := by
  refine ⟨(match proofDec bytesH with | .ok p _ => p | _ => proofWith c0),
    (match proofDec bytesH with | .ok _ r => r | _ => []), ?_, ?_⟩ <;> decide +kernel
-- one element of the out-of-domain frame changed: the OOD equation fails
example : verdictIs (run (tampered 492 237)) (some .inconsistentOod) = true := by decide +kernel
-- one queried trace value / constraint value changed: the opening no longer verifies
example : verdictIs (run (tampered 126 81)) (some .traceQuery) = true := by decide +kernel
example : verdictIs (run (tampered 300 167)) (some .constraintQuery) = true := by decide +kernel
-- one remainder coefficient changed: it no longer hashes to the last FRI commitment
example : verdictIs (run (tampered 546 78)) (some (.fri .remainderCommitmentMismatch)) = true := by
  decide +kernel
-- the top bit of the nonce flipped: other positions are drawn
example : verdictIs (run (tampered 610 128)) (some .traceQuery) = true := by decide +kernel
-- candidate finding (C04): the FRI partition exponent of a proof without FRI layers is not bound —
-- the byte is changed, the parsed proofs differ, both are accepted (same on the real verifier)
example : verdictIs (run (tampered 602 1)) none = true ∧
    (match proofDec bytesH, proofDec (tampered 602 1) with
     | .ok p _, .ok q _ => decide (p ≠ q)
     | _, _ => false) = true := by
  constructor <;> decide +kernel

end RealProof

end Wf.Props.C05V
