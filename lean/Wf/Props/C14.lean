/-
C14 — batch field utilities agree with element-wise definitions.

The statements are about the model `Wf/Model/BatchUtils.lean` (tied to `math/src/utils/mod.rs`,
`utils/core/src/lib.rs`, `utils/core/src/iterators.rs` by the correspondence stream `c14`),
instantiated through the `ringOps` bridge with ANY field `K` (resp. commutative ring `R`) and ANY
inversion function that inverts the non-zero elements.  `threads` is the rayon thread count; the
serial build is `threads = 1`.
  §1  batch inversion = element-wise inverse with 0 ↦ 0, every list, every thread count
  §2  `batch_iter_mut!` chunking partitions [0, len) into consecutive `batch_size` pieces
  §3  power series (with offset) = [s·bⁱ] for every n, n = 0 included (D4 of DESIGN.md §5, fixed)
  §4  add_in_place / mul_acc element-wise, length assertion
  §5  group / flatten / transpose preserve element order
-/
import Wf.Lemmas.BatchUtils
namespace Wf.Props.C14
open Wf Wf.BatchUtils

/-! ## §1 batch inversion -/

section inversion
variable {K : Type} [Field K] [DecidableEq K] (inv : K → K)

/-- `serial_batch_inversion`: every non-zero value is replaced by its inverse, every zero by zero
(`x⁻¹` is Mathlib's inverse, `0⁻¹ = 0`) – for EVERY list: zeros anywhere, all zeros, empty.  The
field's `inv` is only assumed to invert non-zero elements (it is called once, on a product of
non-zero values). -/
theorem serial_batch_inversion_elementwise (hinv : ∀ x : K, x ≠ 0 → x * inv x = 1) (vs : List K) :
    serialBatchInversion (ringOps K inv) vs = vs.map (fun v => v⁻¹) :=
  serialBatchInversion_eq inv hinv vs

/-- the same, element by element: zero stays zero, a non-zero value times its result is one -/
theorem serial_batch_inversion_pointwise (hinv : ∀ x : K, x ≠ 0 → x * inv x = 1) (vs : List K)
    (i : Nat) (hi : i < vs.length) :
    ∃ r, (serialBatchInversion (ringOps K inv) vs)[i]? = some r ∧
      (vs[i] = 0 → r = 0) ∧ (vs[i] ≠ 0 → vs[i] * r = 1) := by
  rw [serial_batch_inversion_elementwise inv hinv]
  refine ⟨(vs[i])⁻¹, by simp [hi], fun h => by simp [h], fun h => mul_inv_cancel₀ h⟩

/-- `batch_inversion` gives the same element-wise result for EVERY thread count and every length
(the batches are inverted independently and cover the slice exactly once, §2) -/
theorem batch_inversion_elementwise (hinv : ∀ x : K, x ≠ 0 → x * inv x = 1) (threads : Nat)
    (vs : List K) :
    batchInversion (ringOps K inv) threads vs = some (vs.map (fun v => v⁻¹)) := by
  obtain ⟨cs, bs, hplan, _, _, _, _, hcov⟩ := chunkPlan_partition vs.length threads 1024 (by decide)
  unfold batchInversion
  rw [hplan]
  apply batchApply_of_pieces
  · intro p _
    rw [serialBatchInversion_eq inv hinv]
    simp [List.map_take, List.map_drop]
  · exact hcov _ (by simp)

end inversion

/-! ## §2 chunking of `batch_iter_mut!` -/

/-- For every length, thread count and minimum batch size ≥ 1 the macro does not panic and hands
out chunks `cs` such that: chunk `i` starts at `i * bs` and has `min bs (len − i·bs)` elements
(`bs` elements each, the last one possibly shorter); no chunk is empty unless the slice is; and
every chunk lies inside the slice; and cutting any slice of that length along `cs` and
concatenating gives the slice back (the chunks are consecutive, disjoint and cover `[0, len)`). -/
theorem chunk_plan_partitions (len threads minBatch : Nat) (hmin : 0 < minBatch) :
    ∃ cs bs, chunkPlan len threads minBatch = some cs ∧ cs ≠ [] ∧
      (∀ i (h : i < cs.length), cs[i] = (i * bs, min bs (len - i * bs))) ∧
      (0 < len → ∀ c ∈ cs, 0 < c.2) ∧ (∀ c ∈ cs, c.1 + c.2 ≤ len) ∧
      (∀ {α : Type} (xs : List α), xs.length = len →
        (cs.map (fun c => (xs.drop c.1).take c.2)).flatten = xs) :=
  chunkPlan_partition len threads minBatch hmin

/-- the lengths of the chunks add up to the length of the slice -/
theorem chunk_plan_lengths_sum (len threads minBatch : Nat) (hmin : 0 < minBatch) :
    ∃ cs, chunkPlan len threads minBatch = some cs ∧ (cs.map (·.2)).sum = len := by
  obtain ⟨cs, bs, hplan, _, hidx, _, _, hcov⟩ := chunkPlan_partition len threads minBatch hmin
  refine ⟨cs, hplan, ?_⟩
  have h := congrArg List.length (hcov (List.replicate len ()) (by simp))
  rw [List.length_flatten, List.map_map] at h
  rw [List.length_replicate] at h
  rw [← h]
  congr 1
  apply List.map_congr_left
  intro c hc
  obtain ⟨i, hi, rfl⟩ := List.getElem_of_mem hc
  rw [hidx i hi]
  simp only [Function.comp_def, List.length_take, List.length_drop, List.length_replicate]
  omega

/-- the only panic of the macro: minimum batch size 0 with a computed batch size 0
(`par_chunks_mut(0)`); the two macro forms used in the crates pass 1 resp. 1024 -/
theorem chunk_plan_panics_iff (len threads minBatch : Nat) :
    chunkPlan len threads minBatch = none ↔
      minBatch = 0 ∧ len / Nat.nextPowerOfTwo threads = 0 :=
  chunkPlan_none_iff len threads minBatch

/-- offset-homomorphic closures: if the closure, given a batch offset and length, writes exactly
the corresponding window of `whole`, the assembled result is `whole` for every thread count -/
theorem batch_iter_thread_independent {F : Type} (threads minBatch : Nat) (hmin : 0 < minBatch)
    (whole : List F) (c : Nat → Nat → Option (List F))
    (hc : ∀ off len, 0 < len ∨ whole = [] → off + len ≤ whole.length →
      c off len = some ((whole.drop off).take len)) :
    ∃ cs, chunkPlan whole.length threads minBatch = some cs ∧ batchApply cs c = some whole := by
  obtain ⟨cs, bs, hplan, _, _, hpos, hin, hcov⟩ :=
    chunkPlan_partition whole.length threads minBatch hmin
  refine ⟨cs, hplan, batchApply_of_pieces cs c whole ?_ (hcov whole rfl)⟩
  intro p hp
  apply hc _ _ _ (hin p hp)
  rcases Nat.eq_zero_or_pos whole.length with h | h
  · right; exact List.length_eq_zero_iff.mp h
  · left; exact hpos h p hp

/-! ## §3 power series -/

section power
variable {R : Type} [CommRing R] [DecidableEq R] (inv : R → R)

/-- `fill_power_series` on a slice of ANY length, the empty one included: `[start·baseⁱ | i < len]` -/
theorem fill_power_series_powers (b s : R) (len : Nat) :
    fillPowerSeries (ringOps R inv) len b s = some ((List.range len).map (fun i => s * b ^ i)) :=
  fillPowerSeries_eq inv b s len

/-- on an empty slice nothing is written and nothing is indexed (for every field) -/
theorem fill_power_series_empty {F : Type} (ops : FieldOps F) (b s : F) :
    fillPowerSeries ops 0 b s = some [] := rfl

/-- `get_power_series_with_offset(b, s, n)` for EVERY `n` (0 included: the empty vector) and EVERY
thread count: `[s·bⁱ | i < n]` (`exp` is the field's exponentiation, a power by C10) -/
theorem get_power_series_with_offset_powers (exp : R → Nat → R) (hexp : ∀ x k, exp x k = x ^ k)
    (threads : Nat) (b s : R) (n : Nat) :
    getPowerSeriesWithOffset (ringOps R inv) exp threads b s n
      = some ((List.range n).map (fun i => s * b ^ i)) := by
  obtain ⟨cs, bs, hplan, _, _, _, hin, hcov⟩ := chunkPlan_partition n threads 1024 (by decide)
  unfold getPowerSeriesWithOffset
  rw [hplan]
  apply batchApply_of_pieces
  · intro p hp
    rw [fillPowerSeries_eq inv, drop_take_range_map _ n _ _ (hin p hp), hexp, ringOps_mul]
    congr 1
    apply List.map_congr_left
    intro j _
    rw [pow_add, mul_assoc]
  · exact hcov _ (by simp)

/-- `get_power_series(b, n)` for every `n` and every thread count: `[bⁱ | i < n]` -/
theorem get_power_series_powers (exp : R → Nat → R) (hexp : ∀ x k, exp x k = x ^ k)
    (threads : Nat) (b : R) (n : Nat) :
    getPowerSeries (ringOps R inv) exp threads b n = some ((List.range n).map (fun i => b ^ i)) := by
  have h := get_power_series_with_offset_powers inv exp hexp threads b 1 n
  simp only [one_mul] at h
  rw [← h]
  unfold getPowerSeries getPowerSeriesWithOffset
  simp only [ringOps_mul, one_mul]

/-- in particular `n = 0` returns the empty vector (this panicked before the fix 766a8d5) -/
theorem get_power_series_zero (exp : R → Nat → R) (hexp : ∀ x k, exp x k = x ^ k)
    (threads : Nat) (b s : R) :
    getPowerSeries (ringOps R inv) exp threads b 0 = some [] ∧
    getPowerSeriesWithOffset (ringOps R inv) exp threads b s 0 = some [] :=
  ⟨get_power_series_powers inv exp hexp threads b 0,
   get_power_series_with_offset_powers inv exp hexp threads b s 0⟩

end power

/-! ## §4 element-wise updates -/

section elementwise
variable {R : Type} [CommRing R] [DecidableEq R] (inv : R → R)

theorem add_in_place_elementwise (a b : List R) (h : a.length = b.length) :
    addInPlace (ringOps R inv) a b = some (List.zipWith (· + ·) a b) := by
  unfold addInPlace
  rw [if_pos h, zipAdd_eq_zipWith _ a b h]
  rfl

theorem add_in_place_length_mismatch_panics {F : Type} (ops : FieldOps F) (a b : List F)
    (h : a.length ≠ b.length) : addInPlace ops a b = none := by
  unfold addInPlace
  rw [if_neg h]

/-- `a[i] + b[i]·c`; `mulBase c y` is `c.mul_base(y)`, the product of `c` with the embedded base
element (C10: `f64_ext2_mul_base`, `f64_ext3_mul_base`) -/
theorem mul_acc_elementwise {B : Type} (embed : B → R) (mulBase : R → B → R)
    (hmb : ∀ c y, mulBase c y = c * embed y) (a : List R) (b : List B) (c : R)
    (h : a.length = b.length) :
    mulAcc (ringOps R inv) mulBase a b c = some (List.zipWith (fun x y => x + embed y * c) a b) := by
  unfold mulAcc
  rw [if_pos h, zipMulAcc_eq_zipWith _ _ _ a b h]
  congr 2
  funext x y
  rw [ringOps_add, hmb, mul_comm]

theorem mul_acc_length_mismatch_panics {F B : Type} (ops : FieldOps F) (mulBase : F → B → F)
    (a : List F) (b : List B) (c : F) (h : a.length ≠ b.length) :
    mulAcc ops mulBase a b c = none := by
  unfold mulAcc
  rw [if_neg h]

end elementwise

/-! ## §5 grouping, flattening, transposition -/

/-- `group_slice_elements::<_, N>`: for N ≥ 1 dividing the length the result has `len / N` rows of
`N` elements whose concatenation is the source (so row `i`, column `j` is `source[i·N + j]`) -/
theorem group_slice_elements_preserves_order {α : Type} (n : Nat) (xs : List α) (hn : 0 < n)
    (hdiv : xs.length % n = 0) :
    ∃ g, groupSliceElements n xs = some g ∧ g.length = xs.length / n ∧
      (∀ a ∈ g, a.length = n) ∧ flattenElements g = xs ∧
      (∀ i j, i < xs.length / n → j < n → (g[i]?.bind (·[j]?)) = xs[i * n + j]?) := by
  have hmul : xs.length / n * n = xs.length := Nat.div_mul_cancel (Nat.dvd_of_mod_eq_zero hdiv)
  refine ⟨chunksOf n xs (xs.length / n), ?_, by simp [chunksOf], ?_, ?_, ?_⟩
  · unfold groupSliceElements
    rw [if_neg (by omega), if_neg (by omega)]
  · intro a ha
    simp only [chunksOf, List.mem_map, List.mem_range] at ha
    obtain ⟨i, hi, rfl⟩ := ha
    rw [List.length_take, List.length_drop]
    have : (i + 1) * n ≤ xs.length / n * n := Nat.mul_le_mul_right _ hi
    rw [Nat.succ_mul] at this
    omega
  · unfold flattenElements
    rw [flatten_chunksOf, hmul, List.take_length]
  · intro i j hi hj
    simp [chunksOf, hi, hj]

/-- the documented panics of `group_slice_elements` (and the division by zero for `N = 0`) -/
theorem group_slice_elements_panics_iff {α : Type} (n : Nat) (xs : List α) :
    groupSliceElements n xs = none ↔ n = 0 ∨ xs.length % n ≠ 0 := by
  unfold groupSliceElements
  by_cases h1 : n = 0
  · simp [h1]
  · by_cases h2 : xs.length % n = 0 <;> simp [h1, h2]

/-- flattening and grouping are inverse to each other: rows of `N` elements, flattened and
re-grouped, are the same rows in the same order -/
theorem group_flatten_roundtrip {α : Type} (n : Nat) (xss : List (List α)) (hn : 0 < n)
    (h : ∀ a ∈ xss, a.length = n) : groupSliceElements n (flattenElements xss) = some xss := by
  unfold groupSliceElements flattenElements
  have hl := length_flatten_uniform n xss h
  rw [if_neg (by omega), hl, Nat.mul_mod_left, if_neg (by simp), Nat.mul_div_cancel _ hn,
    chunksOf_flatten n xss h]

/-- `flatten_slice_elements` / `flatten_vector_elements`: element `i·N + j` of the result is
element `j` of row `i` -/
theorem flatten_elements_index {α : Type} (n : Nat) (xss : List (List α))
    (h : ∀ a ∈ xss, a.length = n) (i j : Nat) (hi : i < xss.length) (hj : j < n) :
    (flattenElements xss)[i * n + j]? = (xss[i]?.bind (·[j]?)) := by
  unfold flattenElements
  have h1 := drop_flatten_uniform n xss i h
  have h2 : (xss.flatten.drop (i * n))[j]? = xss.flatten[i * n + j]? := by simp
  rw [← h2, h1, List.drop_eq_getElem_cons hi, List.flatten_cons]
  have : j < xss[i].length := by rw [h _ (List.getElem_mem hi)]; exact hj
  simp [hi, List.getElem?_append_left this]

/-- `transpose_slice::<_, N>`: for N ≥ 1 with `rows·N = len` the result has `rows` rows of `N`
elements and `result[i][j] = source[i + j·rows]` (an index that is in range) -/
theorem transpose_slice_index {α : Type} (n : Nat) (xs : List α) (hn : 0 < n)
    (hdiv : xs.length / n * n = xs.length) :
    ∃ m, transposeSlice n xs = some m ∧ m.length = xs.length / n ∧
      ∀ i j, i < xs.length / n → j < n →
        i + j * (xs.length / n) < xs.length ∧
        ∃ row, m[i]? = some row ∧ row.length = n ∧ row[j]? = xs[i + j * (xs.length / n)]? := by
  have hb : ∀ i j, i < xs.length / n → j < n → i + j * (xs.length / n) < xs.length := by
    intro i j hi hj
    have : (j + 1) * (xs.length / n) ≤ n * (xs.length / n) := Nat.mul_le_mul_right _ hj
    rw [Nat.succ_mul, Nat.mul_comm n] at this
    omega
  have hinner : ∀ i, i < xs.length / n →
      ((List.range n).mapM (fun j => xs[i + j * (xs.length / n)]?)).isSome := by
    intro i hi
    obtain ⟨row, h1, _, _⟩ := mapM_option_spec (fun j => xs[i + j * (xs.length / n)]?) (List.range n)
      (by intro j hj; simp [hb i j hi (List.mem_range.mp hj)])
    simp [h1]
  obtain ⟨m, h1, h2, h3⟩ := mapM_option_spec
    (fun i => (List.range n).mapM (fun j => xs[i + j * (xs.length / n)]?)) (List.range (xs.length / n))
    (by intro i hi; exact hinner i (List.mem_range.mp hi))
  refine ⟨m, ?_, by simpa using h2, ?_⟩
  · unfold transposeSlice
    rw [if_neg (by omega), if_neg (by simp [hdiv])]
    exact h1
  · intro i j hi hj
    refine ⟨hb i j hi hj, ?_⟩
    have h3i := h3 i (by simpa using hi)
    simp only [List.getElem_range] at h3i
    obtain ⟨row, r1, r2, r3⟩ := mapM_option_spec (fun j => xs[i + j * (xs.length / n)]?)
      (List.range n) (by intro j hj; simp [hb i j hi (List.mem_range.mp hj)])
    refine ⟨row, by rw [h3i, r1], by simpa using r2, ?_⟩
    have := r3 j (by simpa using hj)
    simpa using this

/-- the documented panic of `transpose_slice` (and the division by zero for `N = 0`) -/
theorem transpose_slice_panics_iff {α : Type} (n : Nat) (xs : List α) :
    transposeSlice n xs = none ↔ n = 0 ∨ xs.length / n * n ≠ xs.length := by
  constructor
  · intro h
    by_cases h1 : n = 0
    · exact Or.inl h1
    · by_cases h2 : xs.length / n * n = xs.length
      · obtain ⟨m, hm, _⟩ := transpose_slice_index n xs (by omega) h2
        rw [hm] at h; cases h
      · exact Or.inr h2
  · intro h
    unfold transposeSlice
    rcases h with h | h
    · rw [if_pos h]
    · by_cases h1 : n = 0
      · rw [if_pos h1]
      · rw [if_neg h1, if_pos h]

/-! ## non-vacuity (hypotheses are satisfiable, statements are not about empty domains) -/

example : serialBatchInversion (ringOps ℚ (fun x => x⁻¹)) [2, 0, 4, 0] = [1/2, 0, 1/4, 0] := by
  rw [serial_batch_inversion_elementwise _ (fun x hx => mul_inv_cancel₀ hx)]; norm_num
example : serialBatchInversion (ringOps ℚ (fun x => x⁻¹)) [] = [] := rfl
example : chunkPlan 5000 4 1024 = some [(0, 1250), (1250, 1250), (2500, 1250), (3750, 1250)] := by
  decide +kernel
example : chunkPlan 4099 3 1024 = some [(0, 1024), (1024, 1024), (2048, 1024), (3072, 1024), (4096, 3)] := by
  decide +kernel
example : chunkPlan 4095 4 1024 = some [(0, 4095)] := by decide +kernel
example : chunkPlan 3 8 0 = none := by decide +kernel
example : getPowerSeries (ringOps ℤ id) (fun x k => x ^ k) 1 3 4 = some [1, 3, 9, 27] := by
  rw [get_power_series_powers _ _ (fun _ _ => rfl)]; decide
example : getPowerSeries (ringOps ℤ id) (fun x k => x ^ k) 4 3 0 = some [] :=
  (get_power_series_zero _ _ (fun _ _ => rfl) 4 3 1).1
example : groupSliceElements 2 [0, 1, 2, 3, 4, 5] = some [[0, 1], [2, 3], [4, 5]] := by decide
example : transposeSlice 2 [0, 1, 2, 3, 4, 5, 6, 7] = some [[0, 4], [1, 5], [2, 6], [3, 7]] := by decide
example : transposeSlice 3 [0, 1, 2, 3] = (none : Option (List (List Nat))) := by decide
example : addInPlace (ringOps ℤ id) [1, 2] [10, 20] = some [11, 22] := by decide
example : mulAcc (ringOps ℤ id) (fun c (y : ℤ) => c * y) [1, 2] [10, 20] 3 = some [31, 62] := by decide

end Wf.Props.C14
