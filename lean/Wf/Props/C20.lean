/-
C20 — public-coin randomness is deterministic and well-formed.

Model: `Wf/Model/RandomCoin.lean` (mirrors `crypto/src/random/default.rs` branch by branch over an
ABSTRACT hasher `H : CoinHasher D`; every theorem below holds for every `H`).  Tie to the code:
stream `c20` runs the real `DefaultRandomCoin<H>` (generic code) over a test hasher that the driver
re-implements, comparing complete outputs of whole histories, and over BLAKE3-256 (two independent
instances, ranges/counts, zero count against an independently tracked seed, reseed sensitivity).

* determinism: the outputs are `Coin.outputs H f seed history` – a FUNCTION of the seed elements and
  the history (which contains the reseed digests and nonces).  This is definitional in the model
  (`outputs_deterministic`); for the implementation it is what the stream validates.
* `draw_integers n d nonce` with `d` a power of two and `0 ≤ n ≤ 1000`, `n < d`: exactly `n` values,
  the `i`-th is `u64(first 8 bytes of merge_with_int(merge_with_int(seed, nonce), i+1)) mod d`, all
  `< d`; afterwards seed = `merge_with_int(seed, nonce)`, counter = `n`.  The code does NOT
  deduplicate, so distinctness is not claimed.
* `n = 0` (allowed by the documented preconditions whenever `d ≥ 1`): the empty vector, no call to
  the PRNG (`drawIntegers_zero`).  Before the repair 9df60db of /repo the exit test came after the
  push and 1000 values were returned (defect D5, found by this model).
* `draw`: a returned element has the right number of coefficients, all below the modulus; it is the
  first accepted candidate; `Err` exactly when 1000 candidates in a row are rejected.
* `reseed` resets the counter; `new` starts at 0; a different reseed digest gives a different seed
  and different subsequent digests under injectivity of `merge` / `merge_with_int` (hypotheses).
* `check_leading_zeros` = number of trailing zero bits of the little-endian u64 of the first eight
  bytes of `merge_with_int(seed, value)` (64 for zero); the state is unchanged.
-/
import Wf.Lemmas.RandomCoin
namespace Wf.Props.C20
open Wf Wf.Coin

variable {D : Type} (H : CoinHasher D)

/-! ## determinism -/

/-- Definitional: the outputs of a coin are a function of (seed elements, history); two coins built
from equal seeds and driven through equal histories (equal reseed digests, draws and nonces) output
the same values. -/
theorem outputs_deterministic (f : FieldParams) (seed seed' : List Nat) (ops ops' : List (Op D))
    (hs : seed = seed') (ho : ops = ops') : outputs H f seed ops = outputs H f seed' ops' := by
  rw [hs, ho]

/-- the state after a history is a function of it as well: outputs of a continued history are the
outputs of the first part followed by those of the rest run from the reached state -/
theorem run_append (f : FieldParams) (c : Coin D) (ops ops' : List (Op D)) :
    run H f c (ops ++ ops') =
      run H f c ops ++ run H f (ops.foldl (fun c op => (stepOp H f c op).1) c) ops' := by
  induction ops generalizing c with
  | nil => rfl
  | cons op ops ih => simp only [List.cons_append, run, List.foldl_cons, ih]

/-! ## bookkeeping -/

theorem new_state (seed : List Nat) : (Coin.new H seed).seed = H.hashElements seed ∧ (Coin.new H seed).counter = 0 :=
  ⟨rfl, rfl⟩

/-- `reseed` resets the counter and folds the digest into the seed with `merge` -/
theorem reseed_state (c : Coin D) (d : D) :
    (reseed H c d).counter = 0 ∧ (reseed H c d).seed = H.merge c.seed d := ⟨rfl, rfl⟩

/-- `next`: counter + 1, digest = merge_with_int(seed, new counter), seed unchanged -/
theorem next_state (c : Coin D) :
    (next H c).1 = ⟨c.seed, c.counter + 1⟩ ∧ (next H c).2 = H.mergeWithInt c.seed (c.counter + 1) := ⟨rfl, rfl⟩

/-- reseeding with different digests gives different seeds and different next digests, PROVIDED the
hasher's `merge` is injective in its second argument and `merge_with_int` in its seed (collision
freeness: hypotheses, checked on the real hasher by the stream) -/
theorem reseed_sensitive (c : Coin D) (d d' : D) (hne : d ≠ d')
    (hmerge : ∀ a b b', H.merge a b = H.merge a b' → b = b')
    (hint : ∀ a a' v, H.mergeWithInt a v = H.mergeWithInt a' v → a = a') :
    (reseed H c d).seed ≠ (reseed H c d').seed ∧
    (next H (reseed H c d)).2 ≠ (next H (reseed H c d')).2 := by
  refine ⟨fun h => hne (hmerge _ _ _ h), fun h => hne (hmerge c.seed _ _ (hint _ _ _ h))⟩

/-! ## check_leading_zeros -/

/-- the reported number is the trailing-zero count of the 64-bit little-endian head of
`merge_with_int(seed, value)`: the largest `k` with `2^k ∣ head` (and 64 if the head is 0) -/
theorem checkLeadingZeros_spec (c : Coin D) (v : Nat) :
    let head := fromLe ((H.asBytes (H.mergeWithInt c.seed v)).take 8)
    head < 2 ^ 64 ∧
    (head = 0 → checkLeadingZeros H c v = 64) ∧
    (head ≠ 0 → 2 ^ checkLeadingZeros H c v ∣ head ∧ ¬ 2 ^ (checkLeadingZeros H c v + 1) ∣ head ∧
      checkLeadingZeros H c v < 64) := by
  intro head
  have hlt : head < 2 ^ 64 := by
    have h1 := fromLe_lt ((H.asBytes (H.mergeWithInt c.seed v)).take 8)
    have h2 : 256 ^ ((H.asBytes (H.mergeWithInt c.seed v)).take 8).length ≤ 256 ^ 8 :=
      Nat.pow_le_pow_right (by decide) (by simp; omega)
    have h3 : (256 : Nat) ^ 8 = 2 ^ 64 := by decide
    omega
  refine ⟨hlt, fun h0 => ?_, fun hne => ?_⟩
  · show trailingZeros64 head = 64
    rw [h0]; rfl
  · exact trailingZeros64_spec head hne hlt

/-! ## draw -/

/-- `draw`: a returned element is valid (right degree, canonical coefficients below the modulus), it
is the candidate of the first accepted try `t ≤ 1000`, the counter advances by `t`; an error means
all 1000 candidates were rejected (counter + 1000).  The seed never changes. -/
theorem draw_spec (f : FieldParams) (deg : Nat) (c : Coin D) :
    (draw H f deg c).1.seed = c.seed ∧
    (∀ e, (draw H f deg c).2 = some e →
      e.length = deg ∧ (∀ x ∈ e, x < f.m) ∧
      ∃ t, 1 ≤ t ∧ t ≤ 1000 ∧ (draw H f deg c).1.counter = c.counter + t ∧
        candidate H f deg (H.mergeWithInt c.seed (c.counter + t)) = some e ∧
        ∀ j, 1 ≤ j → j < t → candidate H f deg (H.mergeWithInt c.seed (c.counter + j)) = none) ∧
    ((draw H f deg c).2 = none →
      (draw H f deg c).1.counter = c.counter + 1000 ∧
      ∀ j, 1 ≤ j → j ≤ 1000 → candidate H f deg (H.mergeWithInt c.seed (c.counter + j)) = none) := by
  have h := drawLoop_spec H f deg 1000 c
  unfold draw
  refine ⟨h.1, fun e he => ?_, fun he => ?_⟩
  · have h2 := h.2; rw [he] at h2; exact h2
  · have h2 := h.2; rw [he] at h2; exact h2

/-! ## draw_integers -/

/-- the documented panics: domain size not a power of two, or `num_values ≥ domain_size`; the coin
is untouched -/
theorem drawIntegers_abort (c : Coin D) (n d nonce : Nat) (h : (¬ ∃ k, d = 2 ^ k) ∨ d ≤ n) :
    drawIntegers H c n d nonce = (c, .abort) := by
  unfold drawIntegers
  by_cases hp : coinIsPow2 d = false
  · rw [if_pos hp]
  · rw [if_neg hp]
    have hp' : ∃ k, d = 2 ^ k := (coinIsPow2_iff d).mp (by simpa using hp)
    rcases h with h | h
    · exact absurd hp' h
    · rw [if_pos (by omega)]

/-- MAIN: for a power-of-two domain and `0 ≤ n ≤ 1000`, `n < d`: exactly `n` values; value `i` is the
64-bit head of the `(i+1)`-th digest after the nonce reseed, reduced modulo `d` (the mask is exact
for powers of two); every value is `< d`; the new state is (merge_with_int(seed, nonce), n). -/
theorem drawIntegers_ok (c : Coin D) (n d nonce : Nat) (hd : ∃ k, d = 2 ^ k) (h1000 : n ≤ 1000)
    (hnd : n < d) :
    let seed' := H.mergeWithInt c.seed nonce
    let vs := (List.range n).map (fun i => head64 H (H.mergeWithInt seed' (i + 1)) % d)
    drawIntegers H c n d nonce = (⟨seed', n⟩, .ok vs) ∧ vs.length = n ∧ ∀ v ∈ vs, v < d := by
  intro seed' vs
  obtain ⟨k, hk⟩ := hd
  have hp : coinIsPow2 d = true := (coinIsPow2_iff d).mpr ⟨k, hk⟩
  have hloop := intLoop_exact H (d - 1) n n 1000 ⟨H.mergeWithInt c.seed nonce, 0⟩ [] h1000 (by simp)
  simp only [List.nil_append, Nat.zero_add] at hloop
  have hvs : (List.range n).map
      (fun i => intValue H (d - 1) (H.mergeWithInt (H.mergeWithInt c.seed nonce) (i + 1))) = vs := by
    apply List.map_congr_left
    intro i _
    simp only [intValue]
    rw [hk, Nat.and_two_pow_sub_one_eq_mod]
  rw [hvs] at hloop
  have hlen : vs.length = n := by simp [vs]
  refine ⟨?_, hlen, ?_⟩
  · unfold drawIntegers
    rw [if_neg (by simp [hp]), if_neg (by omega), hloop]
    rw [if_neg (by show ¬ vs.length < n; omega)]
  · intro v hv
    simp only [vs, List.mem_map] at hv
    obtain ⟨i, _, rfl⟩ := hv
    exact Nat.mod_lt _ (by omega)

/-- `n = 0` (instance of `drawIntegers_ok`): the empty vector; the coin is reseeded with the nonce
and the PRNG is not called (counter 0).  Was defect D5 (1000 values) before commit 9df60db. -/
theorem drawIntegers_zero (c : Coin D) (d nonce : Nat) (hd : ∃ k, d = 2 ^ k) :
    drawIntegers H c 0 d nonce = (⟨H.mergeWithInt c.seed nonce, 0⟩, .ok []) := by
  have hpos : 0 < d := by obtain ⟨k, rfl⟩ := hd; exact Nat.pow_pos (by decide)
  exact (drawIntegers_ok H c 0 d nonce hd (by omega) hpos).1

/-- more than 1000 values cannot be drawn: `Err(FailedToDrawIntegers(n, 1000, 1000))` – after the
nonce reseed and 1000 calls to the PRNG -/
theorem drawIntegers_too_many (c : Coin D) (n d nonce : Nat) (hd : ∃ k, d = 2 ^ k) (h1000 : 1000 < n)
    (hnd : n < d) :
    drawIntegers H c n d nonce = (⟨H.mergeWithInt c.seed nonce, 1000⟩, .err n 1000) := by
  have hp : coinIsPow2 d = true := (coinIsPow2_iff d).mpr hd
  obtain ⟨a, b⟩ := intLoop_exhaust H (d - 1) n 1000 ⟨H.mergeWithInt c.seed nonce, 0⟩ [] (by simp; omega)
  unfold drawIntegers
  rw [if_neg (by simp [hp]), if_neg (by omega), if_pos (by rw [a]; simp; omega), a, b]
  simp

/-! ## non-vacuity (a concrete hasher: digests are byte lists) -/

/-- a small hasher for the examples -/
def exH : CoinHasher Bytes where
  hashElements := fun vs => vs.map UInt8.ofNat
  merge := fun a b => a ++ b
  mergeWithInt := fun s v => UInt8.ofNat (3 * v + s.length) :: s
  asBytes := fun d => d

example : (drawIntegers exH (Coin.new exH [1, 2]) 3 4 9).2 = .ok [2, 1, 0] ∧
    (drawIntegers exH (Coin.new exH [1, 2]) 3 4 9).1.counter = 3 ∧
    (drawIntegers exH (Coin.new exH [1, 2]) 0 4 9).2 = .ok [] ∧
    (drawIntegers exH (Coin.new exH [1, 2]) 4 4 9).2 = .abort ∧
    (drawIntegers exH (Coin.new exH [1, 2]) 1 6 9).2 = .abort ∧
    checkLeadingZeros exH (Coin.new exH [1, 2]) 2 = 3 ∧
    (draw exH paramsF64 1 (Coin.new exH [1, 2])).2 = none ∧
    (draw exH paramsF64 1 (Coin.new exH [1, 2, 3, 4, 5, 6, 7])).2 = some [506097522914230538] := by
  decide +kernel

end Wf.Props.C20
