/-
C05 — deserializing untrusted bytes never crashes.

Theorem side: for EVERY byte string, the decoders of the proof and of all its components return
`ok` or `err`, never `abort` (= a Rust panic or an allocation abort, see `Wf/Model/Serde.lean`), and
`read_many` never pre-allocates more than `maxPreallocBytes`.  Termination is by construction (the
models are structurally recursive).  Verification of a deserialized proof (`verify`) is NOT modelled:
that half of the property is exercised by the structure-aware fuzz stream `c05` only (partial).
-/
import Wf.Lemmas.ProofObjects
import Wf.Model.FieldCodec
namespace Wf.Props.C05
open Wf

theorem proof_decoder_never_panics : NoAbort proofDec := proof_noAbort
theorem context_decoder_never_panics : NoAbort Context.decode := context_decode_noAbort
theorem trace_info_decoder_never_panics : NoAbort TraceInfo.decode := traceInfo_decode_noAbort
theorem proof_options_decoder_never_panics : NoAbort ProofOptions.decode := proofOptions_decode_noAbort
theorem commitments_decoder_never_panics : NoAbort commitmentsDec := lenBytes_noAbort 2
theorem queries_decoder_never_panics : NoAbort queriesCodec.dec := queries_noAbort
theorem ood_frame_decoder_never_panics : NoAbort oodFrameDec := oodFrame_noAbort
theorem fri_layer_decoder_never_panics : NoAbort friLayerDec := friLayer_noAbort
theorem fri_proof_decoder_never_panics : NoAbort friProofDec := friProof_noAbort

/-- field elements (and hence element digests, which are arrays of elements) -/
theorem element_decoder_never_panics (f : FieldParams) : NoAbort f.read := by
  intro bs h
  unfold FieldParams.read at h
  split at h
  · split at h <;> cases h
  · cases h
  · rename_i h'; exact readLe_noAbort _ _ h'

/-- byte digests (`ByteDigest<N>`): `read_array::<N>` -/
theorem byte_digest_decoder_never_panics (n : Nat) : NoAbort (readSlice n) := readSlice_noAbort n

/-- batch Merkle proof: depth byte, vint64 count, then that many `Vec<Digest>`; with any digest
    decoder that does not abort -/
theorem batch_merkle_proof_decoder_never_panics {α} (digest : Codec α) (hd : NoAbort digest.dec) :
    NoAbort (fun bs => match readU8 bs with
      | .ok depth r => (match readUsize r with
        | .ok n r2 => (match readMany 24 (Codec.vec digest).dec n r2 with
          | .ok nodes r3 => Out.ok (depth, nodes) r3
          | .err e => .err e
          | .abort => .abort)
        | .err e => .err e
        | .abort => .abort)
      | .err e => .err e
      | .abort => .abort) := by
  have hv : NoAbort (Codec.vec digest).dec := by
    intro bs h
    simp only [Codec.vec] at h
    split at h
    · exact readMany_noAbort digest.dec hd _ _ _ h
    · cases h
    · rename_i h'; exact readUsize_noAbort _ h'
  intro bs h
  simp only [] at h
  noabort_walk h
  all_goals (first
    | (rename_i h'; exact readLe_noAbort _ _ h')
    | (rename_i h'; exact readUsize_noAbort _ h')
    | (rename_i h'; exact readMany_noAbort _ hv _ _ _ h'))

/-- no decoded count can make `read_many` reserve more than 64 KiB up front -/
theorem prealloc_bounded (n size : Nat) : readManyPrealloc n size * size ≤ maxPreallocBytes := by
  unfold readManyPrealloc maxPreallocBytes
  have h1 : min n (2 ^ 16 / max size 1) ≤ 2 ^ 16 / max size 1 := Nat.min_le_right _ _
  have h2 : 2 ^ 16 / max size 1 * size ≤ 2 ^ 16 := by
    by_cases hs : size = 0
    · subst hs; simp
    · have : max size 1 = size := by omega
      rw [this]; exact Nat.div_mul_le_self _ _
  exact Nat.le_trans (Nat.mul_le_mul_right _ h1) h2

/-! non-vacuity: the decoders do produce all three kinds of outcome -/
example : TraceInfo.decode [1, 0, 0, 3, 0, 0] = .ok ⟨1, 0, 0, 8, []⟩ [] := by decide
example : TraceInfo.decode [0, 0, 0, 3, 0, 0] = .err .invalid := by decide
example : TraceInfo.decode [1, 0, 0, 200, 0, 0] = .err .invalid := by decide
example : TraceInfo.decode [1, 0] = .err .eof := by decide

end Wf.Props.C05
