/-
C25 — security estimates are monotone and bounded, and option checks match.

Model: `Wf/Model/Security.lean` (mirrors `air/src/proof/security.rs`, the accessors of
`air/src/proof/mod.rs`, `Context::num_modulus_bits` and `AcceptableOptions::validate` of
`verifier/src/lib.rs`; tied to the real crates by the correspondence stream `c25`).

* `conjectured m o bits cr`  – `ConjecturedSecurity::compute`, every u32 operation explicit, in build
                                mode `m` (`checked`: leaving the u32 range panics = `none`; `release`: wraps);
* `conjBits o bits cr`        – the closed form `min (min (bits·deg) querySecurity − 1) cr`;
* `ProofOptions.Valid`, `Context.Valid` – what the public constructors accept (`Wf/Model/ProofObjects.lean`);
  field sizes: any `1 ≤ bits ≤ 2040` (a non-zero modulus of at most 255 bytes, the most the wire
  format carries; `Context.Valid` and – since the `fix:` commit c8b170c – the decoder exclude a zero modulus);
* `provenSecurity`            – `ProvenSecurity::compute` over Lean `Float` (NOT reasoned about),
  `provenGeneric`             – its integer min / max-over-m skeleton for arbitrary estimates;
* `provenSpec`, `udR`, `ldR`  – the real-valued specification (`Wf/Lemmas/SecurityReal.lean`).

Status: conjectured security and the acceptance decision are FULL (all valid options, all field sizes,
all collision-resistance levels, both build modes).  Proven security: the bound by the collision
resistance and the min/max structure are full (they hold whatever the float code computes);
monotonicity is proved for the real-valued specification and, for the executable float model, only
conditionally on point-wise monotone estimates – these statements carry the suffix `_partial`.
-/
import Wf.Lemmas.SecurityReal
import Wf.Lemmas.ProofObjects
namespace Wf.Props.C25
open Wf Wf.Security

/-- a base field size a decodable context can report: 1..2040 modulus bits -/
def FieldBits (bits : Nat) : Prop := 1 ≤ bits ∧ bits ≤ 2040

/-! ## conjectured security: no overflow, closed form -/

/-- NO U32 OVERFLOW / UNDERFLOW on valid inputs: for constructor-valid options and every field size,
with and without overflow checks, `ConjecturedSecurity::compute` returns the closed form. -/
theorem conjectured_total (m : Mode) (o : ProofOptions) (hv : o.Valid) (bits cr : Nat) (hb : FieldBits bits) :
    conjectured m o bits cr = some (conjBits o bits cr) :=
  conjectured_eq_conjBits m hv cr hb.1 hb.2

/-- The exact set of inputs with valid options on which the `- 1` underflows: a field of 0 modulus
bits.  With overflow checks this is a panic; without, the result wraps to the collision resistance. -/
theorem conjectured_underflow_iff (o : ProofOptions) (hv : o.Valid) (bits cr : Nat) (hb : bits ≤ 2040)
    (hcr : cr < 4294967296) :
    (conjectured .checked o bits cr = none ↔ bits = 0) ∧
    (bits = 0 → conjectured .release o bits cr = some cr) := by
  refine ⟨⟨fun h => ?_, fun h => ?_⟩, fun h => ?_⟩
  · by_cases h0 : bits = 0
    · exact h0
    · rw [conjectured_eq_conjBits .checked hv cr (by omega) hb] at h
      cases h
  · rw [h]; exact conjectured_checked_zero_bits hv cr
  · rw [h]; exact conjectured_release_zero_bits hv cr hcr

/-- The accessor `Proof::conjectured_security` on ANY context value with valid options and a modulus
of at most 255 bytes: it panics under overflow checks exactly when ALL modulus bytes are zero.  (Still
true of the function; since the `fix:` commit such a context can neither be constructed nor decoded –
see `valid_context_never_underflows` and `decoded_context_never_underflows`.) -/
theorem conjecturedOfContext_abort_iff (c : Context) (ho : c.options.Valid) (hlen : c.modulus.length ≤ 255)
    (cr : Nat) : conjecturedOfContext .checked c cr = none ↔ ∀ b ∈ c.modulus, b = 0 := by
  have hle := numModulusBits_le c.modulus
  unfold conjecturedOfContext
  rw [← numModulusBits_eq_zero_iff]
  constructor
  · intro h
    by_cases h0 : numModulusBits c.modulus = 0
    · exact h0
    · rw [conjectured_eq_conjBits .checked ho cr (by omega) (by omega)] at h
      cases h
  · intro h
    rw [h]
    exact conjectured_checked_zero_bits ho cr

/-- a constructor-valid context (its modulus is not all zero) has a `FieldBits` size, so
`Proof::conjectured_security` never leaves the u32 range on it, in either build mode -/
theorem valid_context_never_underflows (m : Mode) (c : Context) (hv : c.Valid) (cr : Nat) :
    FieldBits (numModulusBits c.modulus) ∧
    conjecturedOfContext m c cr = some (conjBits c.options (numModulusBits c.modulus) cr) := by
  obtain ⟨_, ho, _, _, _, _, _, hlen, hnz⟩ := hv
  have hle := numModulusBits_le c.modulus
  have hpos : numModulusBits c.modulus ≠ 0 := by
    rw [Ne, numModulusBits_eq_zero_iff]
    rw [List.any_eq_true] at hnz
    obtain ⟨b, hb, hb0⟩ := hnz
    intro h
    have := h b hb
    simp_all
  have hfb : FieldBits (numModulusBits c.modulus) := ⟨by omega, by omega⟩
  exact ⟨hfb, conjectured_eq_conjBits m ho cr hfb.1 hfb.2⟩

/-- A DECODED context never has zero modulus bits: whatever `Context::read_from` (hence
`Proof::from_bytes`) accepts has constructor-valid options and a non-zero modulus of at most 255
bytes, so its field size is a `FieldBits` and `Proof::conjectured_security` cannot underflow on it
– with overflow checks or without. -/
theorem decoded_context_never_underflows (m : Mode) (bs r : Bytes) (c : Context)
    (h : Context.decode bs = .ok c r) (cr : Nat) :
    FieldBits (numModulusBits c.modulus) ∧ (∃ b ∈ c.modulus, b ≠ 0) ∧
    conjecturedOfContext m c cr = some (conjBits c.options (numModulusBits c.modulus) cr) := by
  obtain ⟨ho, hl0, hl, hnz⟩ := context_decode_modulus h
  have hle := numModulusBits_le c.modulus
  have hpos : numModulusBits c.modulus ≠ 0 := by
    rw [Ne, numModulusBits_eq_zero_iff]; exact hnz
  have hfb : FieldBits (numModulusBits c.modulus) := ⟨by omega, by omega⟩
  refine ⟨hfb, ?_, conjectured_eq_conjBits m ho cr hfb.1 hfb.2⟩
  apply Classical.byContradiction
  intro hne
  apply hnz
  intro b hb
  apply Classical.byContradiction
  intro hb0
  exact hne ⟨b, hb, hb0⟩

/-- the decoder itself: once the trace info is read, a length byte `k` followed by `k` zero bytes is
rejected with `InvalidValue` (whatever follows) -/
theorem zero_modulus_rejected (bs r1 rest : Bytes) (info : TraceInfo) (k : Nat) (hk0 : 0 < k) (hk : k < 256)
    (hi : TraceInfo.decode bs = .ok info r1) (hr : r1 = lenBytesEnc 1 (List.replicate k 0) ++ rest) :
    Context.decode bs = .err .invalid := by
  unfold Context.decode
  rw [hi]; simp only []
  rw [hr]
  unfold lenBytesEnc
  simp only [List.append_assoc]
  rw [readU8_append _ _ (by simpa using hk)]; simp only []
  have : ¬ (List.replicate k (0 : UInt8)).length = 0 := by simp; omega
  rw [if_neg this, readSlice_append]; simp only []
  have hall : (List.replicate k (0 : UInt8)).all (· == 0) = true := by
    rw [List.all_eq_true]; intro b hb; simp [List.eq_of_mem_replicate hb]
  rw [if_pos hall]

/-- the field size both estimates use is the exact bit length of the little-endian modulus `M` the
context carries: `2^(bits-1) ≤ M < 2^bits`; every context with a non-zero modulus has a `FieldBits` size -/
theorem modulus_bits_exact (c : Context) (hv : c.Valid) (hM : fromLe c.modulus ≠ 0) :
    FieldBits (numModulusBits c.modulus) ∧ 2 ^ (numModulusBits c.modulus - 1) ≤ fromLe c.modulus ∧
      fromLe c.modulus < 2 ^ numModulusBits c.modulus := by
  obtain ⟨_, _, _, _, _, _, _, hlen, _⟩ := hv
  have hle := numModulusBits_le c.modulus
  have hs := numModulusBits_spec c.modulus
  unfold bitLen at hs
  rw [if_neg hM] at hs
  rw [hs]
  refine ⟨⟨by omega, by omega⟩, ?_, Nat.lt_log2_self⟩
  rw [Nat.add_sub_cancel]
  exact Nat.log2_self_le hM

/-! ## conjectured security: bounds -/

/-- (i) conjectured security never exceeds the collision resistance – for ALL inputs (valid or not)
and both build modes -/
theorem conjectured_le_collision_resistance (m : Mode) (o : ProofOptions) (bits cr v : Nat)
    (h : conjectured m o bits cr = some v) : v ≤ cr := by
  unfold conjectured at h
  split at h
  · cases h
  · simp only [Option.bind_eq_some_iff] at h
    obtain ⟨_, _, _, _, _, _, t, _, ht⟩ := h
    simp only [Option.some.injEq] at ht
    rw [← ht]
    exact Nat.min_le_right _ _

/-- (ii) conjectured security stays strictly below the extension field size `bits · degree` -/
theorem conjectured_lt_field_size (m : Mode) (o : ProofOptions) (hv : o.Valid) (bits cr v : Nat)
    (hb : FieldBits bits) (h : conjectured m o bits cr = some v) : v < bits * o.ext := by
  rw [conjectured_total m o hv bits cr hb] at h
  cases h
  apply conjBits_lt_field
  have := hb.1
  rcases valid_ext hv with h | h | h <;> rw [h] <;> omega

/-! ## conjectured security: monotonicity -/

/-- (iii) master statement: between two valid option sets with the same blowup factor, conjectured
security does not decrease when queries, grinding factor, extension degree, field size and collision
resistance do not decrease (all other parameters are irrelevant for it) -/
theorem conjectured_mono (m : Mode) (o o' : ProofOptions) (hv : o.Valid) (hv' : o'.Valid)
    (bits bits' cr cr' v v' : Nat) (hb : FieldBits bits) (hb' : FieldBits bits')
    (hblow : o.blowup = o'.blowup) (hq : o.queries ≤ o'.queries) (hg : o.grinding ≤ o'.grinding)
    (he : o.ext ≤ o'.ext) (hbits : bits ≤ bits') (hcr : cr ≤ cr')
    (h : conjectured m o bits cr = some v) (h' : conjectured m o' bits' cr' = some v') : v ≤ v' := by
  rw [conjectured_total m o hv bits cr hb] at h
  rw [conjectured_total m o' hv' bits' cr' hb'] at h'
  cases h; cases h'
  exact conjBits_mono hblow hq hg he hbits hcr

/-- non-decreasing in the number of queries, everything else fixed -/
theorem conjectured_mono_queries (m : Mode) (o : ProofOptions) (q' : Nat) (hv : o.Valid)
    (hv' : ({ o with queries := q' } : ProofOptions).Valid) (hq : o.queries ≤ q') (bits cr : Nat)
    (hb : FieldBits bits) :
    ∃ v v', conjectured m o bits cr = some v ∧ conjectured m { o with queries := q' } bits cr = some v' ∧
      v ≤ v' :=
  ⟨_, _, conjectured_total m o hv bits cr hb, conjectured_total m _ hv' bits cr hb,
    conjBits_mono rfl hq (Nat.le_refl _) (Nat.le_refl _) (Nat.le_refl _) (Nat.le_refl _)⟩

/-- non-decreasing in the grinding factor, everything else fixed -/
theorem conjectured_mono_grinding (m : Mode) (o : ProofOptions) (g' : Nat) (hv : o.Valid)
    (hv' : ({ o with grinding := g' } : ProofOptions).Valid) (hg : o.grinding ≤ g') (bits cr : Nat)
    (hb : FieldBits bits) :
    ∃ v v', conjectured m o bits cr = some v ∧ conjectured m { o with grinding := g' } bits cr = some v' ∧
      v ≤ v' :=
  ⟨_, _, conjectured_total m o hv bits cr hb, conjectured_total m _ hv' bits cr hb,
    conjBits_mono rfl (Nat.le_refl _) hg (Nat.le_refl _) (Nat.le_refl _) (Nat.le_refl _)⟩

/-- non-decreasing in the extension degree, everything else fixed -/
theorem conjectured_mono_extension (m : Mode) (o : ProofOptions) (e' : Nat) (hv : o.Valid)
    (hv' : ({ o with ext := e' } : ProofOptions).Valid) (he : o.ext ≤ e') (bits cr : Nat)
    (hb : FieldBits bits) :
    ∃ v v', conjectured m o bits cr = some v ∧ conjectured m { o with ext := e' } bits cr = some v' ∧
      v ≤ v' :=
  ⟨_, _, conjectured_total m o hv bits cr hb, conjectured_total m _ hv' bits cr hb,
    conjBits_mono rfl (Nat.le_refl _) (Nat.le_refl _) he (Nat.le_refl _) (Nat.le_refl _)⟩

/-! ## proven security: structure and bound (hold for ANY estimates) -/

/-- `ProvenSecurity::compute` for ARBITRARY integer-valued estimates `f_ud`, `f_ld` and any range of
`m`: the result is `(min(f_ud, cr), min(max_m f_ld(m), cr))` – the maximum is attained at some `m`
of the range – hence both levels are at most the collision resistance; it fails only on an empty
range.  No floating-point reasoning is involved. -/
theorem proven_structure_any_estimate (fud : Nat) (fld : Nat → Nat) (ms : List Nat) (cr : Nat) :
    (provenGeneric fud fld ms cr = none ↔ ms = []) ∧
    ∀ u l, provenGeneric fud fld ms cr = some (u, l) →
      u = min fud cr ∧ (∃ m ∈ ms, l = min (fld m) cr ∧ ∀ x ∈ ms, fld x ≤ fld m) ∧ u ≤ cr ∧ l ≤ cr := by
  refine ⟨provenGeneric_eq_none_iff fud fld ms cr, fun u l h => ?_⟩
  obtain ⟨hu, m, hm, hl, hmax⟩ := provenGeneric_spec h
  exact ⟨hu, ⟨m, hm, hl, hmax⟩, by omega, by omega⟩

/-- the executable (float) model has exactly this structure with `f_ud = provenUD`, `f_ld = provenLD`
and `m` ranging over `3 ≤ m < compute_upper_m(trace length)` -/
theorem proven_structure (o : ProofOptions) (bits h cr nc ncp u l : Nat)
    (hp : provenSecurity o bits h cr nc ncp = some (u, l)) :
    ∃ mMax, computeUpperM h = some mMax ∧ u = min (provenUD o bits h nc ncp) cr ∧
      ∃ m, 3 ≤ m ∧ m < mMax ∧ l = min (provenLD o bits h m nc ncp) cr ∧
        ∀ x, 3 ≤ x → x < mMax → provenLD o bits h x nc ncp ≤ provenLD o bits h m nc ncp := by
  unfold provenSecurity at hp
  split at hp
  · cases hp
  · rename_i mMax hM
    obtain ⟨hu, m, hm, hl, hmax⟩ := provenGeneric_spec hp
    rw [mRange_mem] at hm
    exact ⟨mMax, hM, hu, m, hm.1, hm.2, hl, fun x h3 hx => hmax x ((mRange_mem _ _).2 ⟨h3, hx⟩)⟩

/-- (i) proven security (both regimes) never exceeds the collision resistance – for ALL inputs; this
holds for the float model regardless of what the floating-point operations return -/
theorem proven_le_collision_resistance (o : ProofOptions) (bits h cr nc ncp u l : Nat)
    (hp : provenSecurity o bits h cr nc ncp = some (u, l)) : u ≤ cr ∧ l ≤ cr := by
  obtain ⟨_, _, hu, _, _, _, hl, _⟩ := proven_structure o bits h cr nc ncp u l hp
  omega

/-! ## proven security: monotonicity (PARTIAL: specification level / conditional) -/

/-- PARTIAL (real-valued specification, not tied to IEEE rounding): with the code's formulas read
over ℝ and put through the code's own min / max-over-m skeleton, both proven levels are
non-decreasing in extension degree, queries and grinding factor (everything else fixed). -/
theorem provenSpec_mono_partial (o o' : ProofOptions) (hv : o.Valid) (bits h cr nc ncp layers mMax : Nat)
    (hh : 2 ≤ h)
    (hsame : o.blowup = o'.blowup ∧ o.folding = o'.folding ∧ o.batchC = o'.batchC ∧ o.batchD = o'.batchD)
    (he : o.ext ≤ o'.ext) (hq : o.queries ≤ o'.queries) (hg : o.grinding ≤ o'.grinding) (u l u' l' : Nat)
    (h1 : provenSpec o bits h cr nc ncp layers (mRange mMax) = some (u, l))
    (h2 : provenSpec o' bits h cr nc ncp layers (mRange mMax) = some (u', l')) : u ≤ u' ∧ l ≤ l' :=
  provenSpec_mono bits h cr nc ncp layers (mRange mMax) (valid_blowup hv).1 hh
    (fun _ hm => ((mRange_mem _ _).1 hm).1) hsame he hq hg h1 h2

/-- PARTIAL (conditional): what is missing for the executable float model is exactly point-wise
monotonicity of the two float estimates; GIVEN that, the levels are monotone.  (The hypothesis is
checked on the implementation by the `c25` stream between neighbouring option points, not proved.) -/
theorem proven_mono_of_pointwise_partial (o o' : ProofOptions) (bits h cr nc ncp u l u' l' : Nat)
    (hud : provenUD o bits h nc ncp ≤ provenUD o' bits h nc ncp)
    (hld : ∀ m, 3 ≤ m → provenLD o bits h m nc ncp ≤ provenLD o' bits h m nc ncp)
    (h1 : provenSecurity o bits h cr nc ncp = some (u, l))
    (h2 : provenSecurity o' bits h cr nc ncp = some (u', l')) : u ≤ u' ∧ l ≤ l' := by
  unfold provenSecurity at h1 h2
  split at h1
  · cases h1
  · rename_i mMax hM
    rw [hM] at h2
    exact provenGeneric_mono hud (fun m hm => hld m ((mRange_mem _ _).1 hm).1) h1 h2

/-! ## AcceptableOptions::validate – the decision, stated outright -/

/-- `MinConjecturedSecurity(min)`: accepted exactly when the conjectured security is computed and is
at least `min`; otherwise the error carries `min` and the computed level -/
theorem validate_minConjectured (m : Mode) (minimal : Nat) (c : Context) (cr : Nat) :
    (acceptableOptionsValidate m (.minConjectured minimal) c cr = .ok ↔
      ∃ v, conjecturedOfContext m c cr = some v ∧ minimal ≤ v) ∧
    (∀ a b, acceptableOptionsValidate m (.minConjectured minimal) c cr = .insufficientConjectured a b ↔
      a = minimal ∧ conjecturedOfContext m c cr = some b ∧ b < minimal) := by
  unfold acceptableOptionsValidate
  cases hc : conjecturedOfContext m c cr with
  | none => simp
  | some v =>
    by_cases hge : v ≥ minimal
    · simp [hge]
    · simp [hge]
      intro a b; constructor
      · rintro ⟨rfl, rfl⟩; exact ⟨rfl, rfl, by omega⟩
      · rintro ⟨rfl, rfl, _⟩; exact ⟨rfl, rfl⟩

/-- `MinProvenSecurity(min)`: accepted exactly when the list-decoding level OR the unique-decoding
level is at least `min`; otherwise the error carries `min` and the larger of the two levels -/
theorem validate_minProven (m : Mode) (minimal : Nat) (c : Context) (cr : Nat) :
    (acceptableOptionsValidate m (.minProven minimal) c cr = .ok ↔
      ∃ ud ld, provenOfContext c cr = some (ud, ld) ∧ (minimal ≤ ld ∨ minimal ≤ ud)) ∧
    (∀ a b, acceptableOptionsValidate m (.minProven minimal) c cr = .insufficientProven a b ↔
      a = minimal ∧ ∃ ud ld, provenOfContext c cr = some (ud, ld) ∧ b = max ld ud ∧ ld < minimal ∧ ud < minimal) := by
  unfold acceptableOptionsValidate
  cases hc : provenOfContext c cr with
  | none => simp
  | some p =>
    obtain ⟨ud, ld⟩ := p
    by_cases hge : ld ≥ minimal ∨ ud ≥ minimal
    · have : (decide (ld ≥ minimal) || decide (ud ≥ minimal)) = true := by simpa using hge
      simp only [this, Bool.not_true]
      simp
      constructor
      · exact hge
      · intros; omega
    · have : (decide (ld ≥ minimal) || decide (ud ≥ minimal)) = false := by simpa using hge
      simp only [this, Bool.not_false]
      simp
      constructor
      · omega
      · intro a b; constructor
        · rintro ⟨rfl, rfl⟩; exact ⟨rfl, rfl, by omega, by omega⟩
        · rintro ⟨rfl, rfl, _, _⟩; exact ⟨rfl, rfl⟩

/-- `OptionSet(opts)`: accepted exactly when the proof's options are a member of the set (all ten
fields, including batching methods and partition options); the only other verdict is
`UnacceptableProofOptions` -/
theorem validate_optionSet (m : Mode) (opts : List ProofOptions) (c : Context) (cr : Nat) :
    (acceptableOptionsValidate m (.optionSet opts) c cr = .ok ↔ c.options ∈ opts) ∧
    (acceptableOptionsValidate m (.optionSet opts) c cr = .unacceptableOptions ↔ c.options ∉ opts) := by
  unfold acceptableOptionsValidate
  by_cases hmem : c.options ∈ opts
  · have : (opts.any fun o => o == c.options) = true := by
      rw [List.any_eq_true]; exact ⟨_, hmem, by simp⟩
    simp [this, hmem]
  · have : (opts.any fun o => o == c.options) = false := by
      rw [List.any_eq_false]; intro x hx; simp; rintro rfl; exact hmem hx
    simp [this, hmem]

/-- the link asked for by the property, on valid contexts: the verifier accepts under
`MinConjecturedSecurity(min)` iff `min ≤ conjBits`, in both build modes -/
theorem validate_minConjectured_valid (m : Mode) (minimal : Nat) (c : Context) (hv : c.Valid) (cr : Nat) :
    acceptableOptionsValidate m (.minConjectured minimal) c cr = .ok ↔
      minimal ≤ conjBits c.options (numModulusBits c.modulus) cr := by
  rw [(validate_minConjectured m minimal c cr).1, (valid_context_never_underflows m c hv cr).2]
  constructor
  · rintro ⟨v, hv, hle⟩; cases hv; exact hle
  · intro h; exact ⟨_, rfl, h⟩

/-! ## non-vacuity: concrete configurations -/

/-- f64 with the quadratic extension, 27 queries, blowup 8, grinding 16, a 96-bit hash (Blake3_192):
96 bits; one query less gives 77 (the grinding floor 80 is not reached) -/
example : conjectured .checked ⟨27, 8, 16, 2, 4, 31, 0, 0, 1, 1⟩ 64 96 = some 96 ∧
    conjectured .release ⟨27, 8, 16, 2, 4, 31, 0, 0, 1, 1⟩ 64 96 = some 96 ∧
    conjectured .checked ⟨26, 8, 16, 2, 4, 31, 0, 0, 1, 1⟩ 64 96 = some 77 := by decide +kernel

/-- the configuration of the repo's `get_100_bits_security` test (f64 quadratic, 119 queries, blowup 4,
grinding 20, 128-bit hash): conjectured 127 (< 128 = field size); with the cubic extension and blowup 8,
38 queries give the full 128 bits of the hash; a 100-bit set -/
example : conjectured .checked ⟨119, 4, 20, 2, 2, 127, 0, 0, 1, 1⟩ 64 128 = some 127 ∧
    conjectured .checked ⟨38, 8, 16, 3, 2, 127, 0, 0, 1, 1⟩ 64 128 = some 128 ∧
    conjectured .checked ⟨28, 8, 17, 2, 2, 127, 0, 0, 1, 1⟩ 64 128 = some 100 ∧
    conjectured .checked ⟨33, 8, 20, 1, 2, 127, 0, 0, 1, 1⟩ 128 128 = some 118 ∧
    conjectured .checked ⟨255, 128, 32, 3, 16, 255, 2, 2, 16, 255⟩ 62 124 = some 124 := by decide +kernel

/-- the hypotheses of the theorems are satisfiable (a valid option set, a valid field size) and the
underflow case is real: zero modulus bits panic under overflow checks and report the hash's full
collision resistance otherwise -/
example : (⟨27, 8, 16, 2, 4, 31, 0, 0, 1, 1⟩ : ProofOptions).Valid ∧ FieldBits 64 ∧ FieldBits 62 ∧ FieldBits 128 ∧
    conjectured .checked ⟨27, 8, 16, 2, 4, 31, 0, 0, 1, 1⟩ 0 128 = none ∧
    conjectured .release ⟨27, 8, 16, 2, 4, 31, 0, 0, 1, 1⟩ 0 128 = some 128 ∧
    numModulusBits [0, 0, 0, 0] = 0 ∧ numModulusBits [1, 0, 0, 0, 0xff, 0xff, 0xff, 0xff] = 64 ∧
    numModulusBits [5, 0, 0] = 3 := by
  refine ⟨by unfold ProofOptions.Valid; decide, ⟨by omega, by omega⟩, ⟨by omega, by omega⟩, ⟨by omega, by omega⟩,
    by decide +kernel, by decide +kernel, by decide +kernel, by decide +kernel, by decide +kernel⟩

/-- the skeleton on concrete estimates: maximum over m attained at the LAST maximal m, both capped -/
example : provenGeneric 100 (fun m => [0, 0, 0, 60, 69, 69, 65].getD m 0) (mRange 7) 128 = some (100, 69) ∧
    maxByKey (fun m => [0, 0, 0, 60, 69, 69, 65].getD m 0) (mRange 7) = some 5 ∧
    provenGeneric 150 (fun _ => 140) (mRange 5) 128 = some (128, 128) ∧
    provenGeneric 150 (fun _ => 140) (mRange 3) 128 = none := by decide +kernel

/-- the three verdicts of `validate` on a concrete context (f64, 27 queries, blowup 8, grinding 16,
quadratic extension, 96-bit hash) -/
example :
    let c : Context := ⟨⟨2, 0, 0, 64, []⟩, [1, 0, 0, 0, 0xff, 0xff, 0xff, 0xff], ⟨27, 8, 16, 2, 4, 31, 0, 0, 1, 1⟩, 4⟩
    acceptableOptionsValidate .checked (.minConjectured 96) c 96 = .ok ∧
    acceptableOptionsValidate .checked (.minConjectured 97) c 96 = .insufficientConjectured 97 96 ∧
    acceptableOptionsValidate .checked (.optionSet [⟨27, 8, 16, 2, 4, 31, 0, 0, 1, 1⟩]) c 96 = .ok ∧
    acceptableOptionsValidate .checked (.optionSet [⟨27, 8, 16, 2, 4, 31, 0, 1, 1, 1⟩]) c 96 = .unacceptableOptions ∧
    acceptableOptionsValidate .checked (.optionSet []) c 96 = .unacceptableOptions := by decide +kernel

end Wf.Props.C25
