/-
C24 — the public-coin seed binds the proof context.

`Context::to_elements` (model: `Wf/Model/ProofObjects.lean`, values of the produced elements) is
injective in every listed parameter on constructor-valid contexts.  Trace metadata is bound only up
to zero padding inside a chunk — the counterexample is proved below and recorded as a finding.
-/
import Wf.Lemmas.ProofObjects
namespace Wf.Props.C24
open Wf

theorem fromLe_inj (a b : Bytes) (hl : a.length = b.length) (h : fromLe a = fromLe b) : a = b := by
  rw [← leBytes_fromLe a, ← leBytes_fromLe b, hl, h]

/-- the layout word before reduction to 32 bits -/
def layoutWord (t : TraceInfo) : Nat :=
  if t.aux > 0 then ((t.main * 256 + 1) * 256 + t.aux) * 256 + t.rands else t.main * 256

theorem layoutWord_inj (t1 t2 : TraceInfo) (h1 : t1.Valid) (h2 : t2.Valid)
    (h : layoutWord t1 = layoutWord t2) :
    t1.main = t2.main ∧ t1.aux = t2.aux ∧ t1.rands = t2.rands := by
  obtain ⟨_, _, _, hm1, hw1, ha1, hr1⟩ := h1
  obtain ⟨_, _, _, hm2, hw2, ha2, hr2⟩ := h2
  unfold layoutWord at h
  by_cases c1 : t1.aux > 0 <;> by_cases c2 : t2.aux > 0 <;> simp only [c1, c2, if_true, if_false] at h
  · refine ⟨?_, ?_, ?_⟩ <;> omega
  · omega
  · omega
  · have a1 : t1.aux = 0 := by omega
    have a2 : t2.aux = 0 := by omega
    refine ⟨by omega, by omega, ?_⟩
    rw [ha1 a1, ha2 a2]

theorem head_eq_layoutWord (t : TraceInfo) (h : t.Valid) (eb : Nat) :
    (t.toElements eb).head? = some (layoutWord t) := by
  obtain ⟨_, _, _, hm, hw, ha, hr⟩ := h
  unfold TraceInfo.toElements layoutWord
  simp only [List.cons_append, List.head?_cons]
  by_cases c : t.aux > 0
  · rw [if_pos c, if_pos c]
    congr 1
    apply Nat.mod_eq_of_lt; omega
  · rw [if_neg c, if_neg c]
    congr 1
    rw [Nat.mod_eq_of_lt (by omega)]; omega

/-- first seed element: (main width, #aux segments, aux width, #aux random elements) -/
theorem layout_word_inj (t1 t2 : TraceInfo) (h1 : t1.Valid) (h2 : t2.Valid) (eb : Nat)
    (h : (t1.toElements eb).head? = (t2.toElements eb).head?) :
    t1.main = t2.main ∧ t1.aux = t2.aux ∧ t1.rands = t2.rands := by
  rw [head_eq_layoutWord t1 h1, head_eq_layoutWord t2 h2] at h
  exact layoutWord_inj t1 t2 h1 h2 (Option.some.inj h)

/-- options word: (extension, folding factor, remainder degree, blowup), grinding, queries -/
theorem options_inj (o1 o2 : ProofOptions) (h1 : o1.Valid) (h2 : o2.Valid)
    (h : o1.toElements = o2.toElements) :
    o1.ext = o2.ext ∧ o1.folding = o2.folding ∧ o1.remDeg = o2.remDeg ∧ o1.blowup = o2.blowup ∧
    o1.grinding = o2.grinding ∧ o1.queries = o2.queries := by
  obtain ⟨_, _, _, _, b1, _, _, _, _, f1, _, r1, _⟩ := h1
  obtain ⟨_, _, _, _, b2, _, _, _, _, f2, _, r2, _⟩ := h2
  simp only [ProofOptions.toElements, List.cons.injEq, and_true] at h
  obtain ⟨hw, hg, hq⟩ := h
  refine ⟨?_, ?_, ?_, ?_, hg, hq⟩ <;> omega

/-- The property: two valid contexts (over the same field element size, hence with modulus byte
    strings of equal length) with equal seed elements agree on main/aux width, number of auxiliary
    random elements, trace length, field modulus, constraint count, field extension, blowup factor,
    FRI folding factor, FRI remainder degree, grinding factor and number of queries; and their
    metadata agree chunk-value by chunk-value. -/
theorem context_seed_binds (eb : Nat) (c1 c2 : Context) (h1 : c1.Valid) (h2 : c2.Valid)
    (hm : c1.modulus.length = c2.modulus.length) (h : c1.toElements eb = c2.toElements eb) :
    c1.info.main = c2.info.main ∧ c1.info.aux = c2.info.aux ∧ c1.info.rands = c2.info.rands ∧
    c1.info.length = c2.info.length ∧ c1.modulus = c2.modulus ∧
    c1.numConstraints = c2.numConstraints ∧ c1.options.ext = c2.options.ext ∧
    c1.options.blowup = c2.options.blowup ∧ c1.options.folding = c2.options.folding ∧
    c1.options.remDeg = c2.options.remDeg ∧ c1.options.grinding = c2.options.grinding ∧
    c1.options.queries = c2.options.queries ∧
    (TraceInfo.chunks (eb - 1) c1.info.metaBytes).map fromLe
      = (TraceInfo.chunks (eb - 1) c2.info.metaBytes).map fromLe := by
  obtain ⟨hi1, ho1, hl1, _, _, hn1, _, _⟩ := h1
  obtain ⟨hi2, ho2, hl2, _, _, hn2, _, _⟩ := h2
  have hhead : (c1.info.toElements eb).head? = (c2.info.toElements eb).head? := by
    have := congrArg List.head? h
    unfold Context.toElements TraceInfo.toElements at this
    simp only [List.cons_append, List.head?_cons] at this
    unfold TraceInfo.toElements
    simp only [List.cons_append, List.head?_cons]
    exact this
  have hlay := layout_word_inj _ _ hi1 hi2 eb hhead
  -- split the element lists: [layout, length] ++ meta ++ ([m_lo, m_hi, nc] ++ options)
  unfold Context.toElements TraceInfo.toElements at h
  simp only [List.cons_append, List.nil_append, List.append_assoc, List.cons.injEq] at h
  obtain ⟨_, hlen, hrest⟩ := h
  have hsplit := List.append_inj' hrest (by simp [ProofOptions.toElements])
  obtain ⟨hmeta, htail⟩ := hsplit
  simp only [List.cons.injEq] at htail
  obtain ⟨hlo, hhi, hnc, hopts⟩ := htail
  have ho := options_inj _ _ ho1 ho2 hopts
  have hmod : c1.modulus = c2.modulus := by
    have ht : c1.modulus.take (c1.modulus.length / 2) = c2.modulus.take (c2.modulus.length / 2) :=
      fromLe_inj _ _ (by simp [List.length_take, hm]) hlo
    have hd : c1.modulus.drop (c1.modulus.length / 2) = c2.modulus.drop (c2.modulus.length / 2) :=
      fromLe_inj _ _ (by simp [List.length_drop, hm]) hhi
    rw [← List.take_append_drop (c1.modulus.length / 2) c1.modulus,
      ← List.take_append_drop (c2.modulus.length / 2) c2.modulus, ht, hd]
  refine ⟨hlay.1, hlay.2.1, hlay.2.2, ?_, hmod, ?_, ho.1, ho.2.2.2.1, ho.2.1, ho.2.2.1, ho.2.2.2.2.1,
    ho.2.2.2.2.2, hmeta⟩
  · rw [Nat.mod_eq_of_lt hl1, Nat.mod_eq_of_lt hl2] at hlen; exact hlen
  · rw [Nat.mod_eq_of_lt hn1, Nat.mod_eq_of_lt hn2] at hnc; exact hnc

/-! ### the domain of the theorems is exactly what the constructors accept

`newOk` is the executable model of the constructors' assertions; the correspondence stream compares
it with the real constructors (`obj ti_new / po_new / ctx_new`: returns or panics) on boundary values
of every argument.  So `Valid` — the hypothesis of `context_seed_binds` — is neither narrower nor
wider than "can be constructed". -/

theorem trace_info_constructible_iff_valid (t : TraceInfo) : t.newOk = true ↔ t.Valid := by
  unfold TraceInfo.newOk TraceInfo.Valid
  simp only [Bool.and_eq_true, decide_eq_true_eq, beq_iff_eq, Bool.or_eq_true, bne_iff_ne, ne_eq]
  constructor
  · rintro ⟨⟨⟨⟨⟨⟨⟨h8, hp⟩, hlt⟩, hm⟩, h0⟩, hw⟩, ha⟩, hr⟩
    refine ⟨h8, ⟨t.length.log2, hp.symm, ?_⟩, hm, h0, hw, ?_, hr⟩
    · exact (Nat.log2_lt (by omega)).2 hlt
    · intro h; rcases ha with ha | ha
      · exact absurd h ha
      · exact ha
  · rintro ⟨h8, ⟨k, hk, hk64⟩, hm, h0, hw, ha, hr⟩
    refine ⟨⟨⟨⟨⟨⟨⟨h8, ?_⟩, ?_⟩, hm⟩, h0⟩, hw⟩, ?_⟩, hr⟩
    · rw [hk, Nat.log2_two_pow]
    · rw [hk]; exact Nat.pow_lt_pow_right (by decide) hk64
    · by_cases h : t.aux = 0
      · exact Or.inr (ha h)
      · exact Or.inl h

theorem proof_options_constructible_iff_valid (o : ProofOptions) : o.newOk = true ↔ o.Valid := by
  unfold ProofOptions.newOk ProofOptions.validB ProofOptions.Valid
  simp only [Bool.and_eq_true, decide_eq_true_eq]
  constructor
  · rintro ⟨⟨⟨⟨⟨⟨⟨⟨⟨⟨⟨⟨⟨⟨⟨⟨⟨a1, a2⟩, a3⟩, a4⟩, a5⟩, a6⟩, a7⟩, a8⟩, a9⟩, a10⟩, a11⟩, a12⟩, a13⟩, a14⟩, a15⟩, a16, a17⟩, a18⟩, a19⟩
    exact ⟨a1, a2, a3, a4, a5, a6, by omega, a7, a8, a9, a10, a11, a18, a19, a12, a13, a14, a15⟩
  · rintro ⟨a1, a2, a3, a4, a5, a6, a7, a8, a9, a10, a11, a12, a13, a14, a15, a16, a17, a18⟩
    exact ⟨⟨⟨⟨⟨⟨⟨⟨⟨⟨⟨⟨⟨⟨⟨⟨⟨a1, a2⟩, a3⟩, a4⟩, a5⟩, a6⟩, a8⟩, a9⟩, a10⟩, a11⟩, a12⟩, a15⟩, a16⟩, a17⟩, a18⟩, by omega, by omega⟩, a13⟩, a14⟩

/-- every context the constructors accept (with the modulus of a real field: 1..254 bytes, not all
zero) satisfies the hypothesis of `context_seed_binds` -/
theorem context_constructible_valid (c : Context) (h : c.newOk = true)
    (hm : 0 < c.modulus.length ∧ c.modulus.length < 255 ∧ c.modulus.any (· != 0) = true) : c.Valid := by
  unfold Context.newOk at h
  simp only [Bool.and_eq_true, decide_eq_true_eq] at h
  obtain ⟨⟨⟨⟨⟨hi, ho⟩, hl⟩, hb⟩, hn⟩, hn2⟩ := h
  exact ⟨(trace_info_constructible_iff_valid _).1 hi, (proof_options_constructible_iff_valid _).1 ho,
    by omega, by omega, hn, by omega, hm.1, hm.2.1, hm.2.2⟩

/-- a context read from proof bytes respects the 32-bit limits `to_elements` relies on (so the
reductions `% 2^32` in the seed are the identity on it) -/
theorem decoded_context_within_limits (bs r : Bytes) (c : Context) (h : Context.decode bs = .ok c r) :
    0 < c.numConstraints ∧ c.numConstraints < 2 ^ 32 ∧ c.info.length < 2 ^ 32 ∧
    c.info.length * c.options.blowup < 2 ^ 32 := by
  unfold Context.decode at h
  repeat' split at h
  all_goals first
    | (injection h with h1 h2; subst h1; simp only []; omega)
    | cases h

/-- metadata that differ only by a trailing zero byte inside the last chunk give identical seed
    elements: the listed parameter "trace metadata" is NOT bound (genuine defect, recorded) -/
theorem metadata_not_bound_counterexample :
    (⟨1, 0, 0, 8, [1]⟩ : TraceInfo).toElements 8 = (⟨1, 0, 0, 8, [1, 0]⟩ : TraceInfo).toElements 8 ∧
    ([1] : Bytes) ≠ [1, 0] := by
  constructor
  · decide
  · decide

/-! ### non-vacuity -/
example : (⟨⟨20, 9, 12, 4096, [1, 2, 3, 4]⟩, [1, 0, 0, 0, 255, 255, 255, 255],
    ⟨30, 8, 20, 1, 8, 127, 0, 0, 1, 1⟩, 128⟩ : Context).Valid := by
  refine ⟨⟨by decide, ⟨12, by decide, by decide⟩, by decide, by decide, by decide, ?_, by decide⟩,
    ?_, by decide, by decide, by decide, by decide, by decide, by decide⟩
  · intro h; cases h
  · unfold ProofOptions.Valid; decide

end Wf.Props.C24
