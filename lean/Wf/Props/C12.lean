/-
C12 — FFT evaluation and interpolation are correct (serial algorithm).

The statements are about the model `Wf/Model/Fft.lean` (tied to `math/src/fft/{mod,serial,
fft_inputs}.rs` by the correspondence stream `c12`), instantiated through `ringCtx` with ANY two
commutative rings `B` (twiddles, offsets) and `E` (coefficients) connected by a ring homomorphism
`φ : B →+* E` (`E::from`; `mul_base x t = x·φ t`), ANY function `root` playing
`get_root_of_unity`, and ANY inversion functions.  The only property of the root used is
`φ(root n)^(2^(n-1)) = −1`, which holds for every primitive `2^n`-th root of unity in a ring without
zero divisors (`root_half_of_primitive`).  Vectors are compared element-wise (`getD i 0`, `i < size`)
together with their size.
  §1  `permute_index` is the bit-reversal involution; `permute` gathers by bit reversal
  §2  twiddle tables = bit-reversed powers; the `as u32 − 1` exponent of `get_inv_twiddles`
  §3  `fft_in_place`: invariant for every (count, stride, offset) – both `MAX_LOOP` branches
  §4  `evaluate_poly p = [Σ_j p_j ω^(ij)]_i` (natural order)
  §5  `evaluate_poly_with_offset p s blowup = [p(s·g^i)]_i` over the blown-up domain
  §6  interpolation inverts evaluation (with and without offset)
  §7  `infer_degree` returns the true degree (0 for the zero polynomial)
  §8  field form of §4/§6 for a primitive root; non-vacuity
NOT covered by theorems (correspondence / not at all): the split-radix path of `concurrent.rs` and
rayon scheduling; `usize::reverse_bits` + `wrapping_shr` is modelled as `bitRev`.
-/
import Wf.Lemmas.FftPub
import Wf.Lemmas.FftRoots
import Wf.Model.Fields
import Mathlib.Data.ZMod.Basic
set_option linter.unusedSectionVars false
namespace Wf.Props.C12
open Wf Wf.Fft Finset

/-! ## §1 bit reversal -/

/-- `permute_index(2^k, i) < 2^k` -/
theorem permute_index_lt (k i : Nat) : permuteIndex (2 ^ k) i < 2 ^ k := by
  rw [permuteIndex_pow]; exact bitRev_lt k i

/-- `permute_index(2^k, ·)` is an involution on `[0, 2^k)` -/
theorem permute_index_involutive (k i : Nat) (hi : i < 2 ^ k) :
    permuteIndex (2 ^ k) (permuteIndex (2 ^ k) i) = i := by
  rw [permuteIndex_pow, permuteIndex_pow]; exact bitRev_bitRev k i hi

/-- … hence a bijection of `[0, 2^k)` -/
theorem permute_index_injective (k i j : Nat) (hi : i < 2 ^ k) (hj : j < 2 ^ k)
    (h : permuteIndex (2 ^ k) i = permuteIndex (2 ^ k) j) : i = j := by
  rw [permuteIndex_pow, permuteIndex_pow] at h; exact bitRev_inj k i j hi hj h

/-- it reverses the `k` low bits: the bits of `i·2^a + m` (`m < 2^a`) come out as
`rev_a(m)·2^b + rev_b(i)`; in particular `rev(2j) = rev'(j)` and `rev(2j+1) = 2^(k-1) + rev'(j)` -/
theorem permute_index_reverses_bits (a b i m : Nat) (hm : m < 2 ^ a) :
    permuteIndex (2 ^ (a + b)) (i * 2 ^ a + m) =
      permuteIndex (2 ^ a) m * 2 ^ b + permuteIndex (2 ^ b) i := by
  simp only [permuteIndex_pow]; exact bitRev_concat a b i m hm

/-- the swap loop of `permute` on `2^k` elements: result[x] = input[rev x] (any element type) -/
theorem permute_gathers_bit_reversed {α} (d : α) (k : Nat) (a : Array α) (hs : a.size = 2 ^ k) :
    (permute a).size = 2 ^ k ∧
      ∀ x, x < 2 ^ k → (permute a).getD x d = a.getD (permuteIndex (2 ^ k) x) d := by
  simp only [permuteIndex_pow]; exact permute_spec d k a hs

section ring
variable {B E : Type} [CommRing B] [CommRing E] [DecidableEq B] [DecidableEq E]
variable (φ : B →+* E) (invB : B → B) (invE : E → E) (root : Nat → B) (ta : Nat)

/-! ## §2 twiddles -/

/-- `get_twiddles(2^(K+1))` = `2^K` entries, entry `i` = `ω^rev_K(i)`, `ω = get_root_of_unity(K+1)` -/
theorem get_twiddles_bit_reversed_powers (K : Nat) (hta : K + 1 ≤ ta) :
    ∃ tws, getTwiddles (ringCtx φ invB invE root ta) (2 ^ (K + 1)) = some tws ∧
      tws.size = 2 ^ K ∧ ∀ i, i < 2 ^ K → tws.getD i 0 = root (K + 1) ^ bitRev K i :=
  getTwiddles_spec φ invB invE root ta K hta

/-- `get_inv_twiddles(2^(K+1))`: the same table for `ω^(N−1)` (= `ω⁻¹`), `N = 2^(K+1) ≤ 2^32` -/
theorem get_inv_twiddles_bit_reversed_powers (K : Nat) (hta : K + 1 ≤ ta) (h32 : K + 1 ≤ 32) :
    ∃ tws, getInvTwiddles (ringCtx φ invB invE root ta) (2 ^ (K + 1)) = some tws ∧
      tws.size = 2 ^ K ∧
      ∀ i, i < 2 ^ K → tws.getD i 0 = (root (K + 1) ^ (2 ^ (K + 1) - 1)) ^ bitRev K i :=
  getInvTwiddles_spec φ invB invE root ta K hta h32

/-- the exponent `domain_size as u32 - 1` (wrapping) equals `domain_size − 1` for every domain size
in `[1, 2^32]` – at `2^32` (the f64 maximum) only thanks to the wrap-around of a release build; with
overflow checks enabled that call panics instead (DESIGN.md §5, D13; out of executable reach) -/
theorem inv_twiddle_exponent (n : Nat) (h1 : 1 ≤ n) (h2 : n ≤ 2 ^ 32) : invTwiddleExp n = n - 1 :=
  invTwiddleExp_eq n h1 h2

/-! ## §3 the recursion -/

/-- Invariant of `fft_in_place(values, twiddles, count, stride, offset)` for EVERY call shape:
`values.len() = 2^(K+1)`, `stride = 2^d`, sub-size `2^(k+1)` (`k + d = K`), `offset + count ≤
stride`, twiddles = bit-reversed powers of `W` with `W^(2^K) = −1`, enough fuel.  Each of the `count`
interleaved sub-sequences `m ↦ a[q + m·stride]` (`offset ≤ q < offset+count`) is replaced by its DFT
w.r.t. `W^stride` in bit-reversed order; every other position keeps its value.  Covers the
doubled-`count` branch (`stride == count && count < MAX_LOOP`) and the two-call branch. -/
theorem fft_in_place_invariant (W : E) (K : Nat) (hW : W ^ 2 ^ K = -1) (tws : Array B)
    (htw : ∀ i, 0 < i → i < 2 ^ K → φ (tws.getD i 0) = W ^ bitRev K i)
    (k d : Nat) (hkd : k + d = K) (fuel count off : Nat) (a : Array E)
    (hf : k < fuel) (ha : a.size = 2 ^ (K + 1)) (hoc : off + count ≤ 2 ^ d) :
    (fftInPlace (ringCtx φ invB invE root ta) tws fuel a count (2 ^ d) off).size = 2 ^ (K + 1) ∧
    ∀ q m, q < 2 ^ d → m < 2 ^ (k + 1) →
      (fftInPlace (ringCtx φ invB invE root ta) tws fuel a count (2 ^ d) off).getD
          (q + m * 2 ^ d) 0 =
        if off ≤ q ∧ q < off + count then
          ∑ j ∈ range (2 ^ (k + 1)), a.getD (q + j * 2 ^ d) 0 * (W ^ 2 ^ d) ^ (j * bitRev (k + 1) m)
        else a.getD (q + m * 2 ^ d) 0 :=
  fftInPlace_spec φ invB invE root ta W K hW tws htw k d hkd fuel count off a hf ha hoc

/-- `FftInputs::fft_in_place(values, twiddles)` = `fft_in_place(values, twiddles, 1, 1, 0)`: the DFT
in bit-reversed order (`serial_fft` / `evaluate_poly` then `permute` it, §4) -/
theorem fft_in_place_top_bit_reversed_dft (W : E) (K : Nat) (hW : W ^ 2 ^ K = -1) (tws : Array B)
    (htw : ∀ i, 0 < i → i < 2 ^ K → φ (tws.getD i 0) = W ^ bitRev K i)
    (a : Array E) (ha : a.size = 2 ^ (K + 1)) (fuel : Nat) (hf : K < fuel) :
    (fftInPlace (ringCtx φ invB invE root ta) tws fuel a 1 1 0).size = 2 ^ (K + 1) ∧
    ∀ m, m < 2 ^ (K + 1) →
      (fftInPlace (ringCtx φ invB invE root ta) tws fuel a 1 1 0).getD m 0 =
        ∑ j ∈ range (2 ^ (K + 1)), a.getD j 0 * W ^ (j * bitRev (K + 1) m) :=
  fft_top φ invB invE root ta W K hW tws htw a ha fuel hf

/-! ## §4 evaluation -/

/-- `evaluate_poly(p, twiddles)` for ANY twiddle array that holds bit-reversed powers of `W`:
element `i` of the result is `Σ_j p_j W^(ij)` – natural order -/
theorem evaluate_poly_eq_dft_of_twiddles (W : E) (K : Nat) (hW : W ^ 2 ^ K = -1) (tws : Array B)
    (htws : tws.size = 2 ^ K)
    (htw : ∀ i, 0 < i → i < 2 ^ K → φ (tws.getD i 0) = W ^ bitRev K i)
    (p : Array E) (hp : p.size = 2 ^ (K + 1)) (hta : K + 1 ≤ ta) :
    ∃ r, evaluatePoly (ringCtx φ invB invE root ta) p tws = some r ∧ r.size = 2 ^ (K + 1) ∧
      ∀ i, i < 2 ^ (K + 1) → r.getD i 0 = ∑ j ∈ range (2 ^ (K + 1)), p.getD j 0 * W ^ (j * i) :=
  evaluatePoly_spec φ invB invE root ta W K hW tws htws htw p hp hta

/-- `evaluate_poly(p, get_twiddles(p.len()))`: for every size `2^(K+1) ≥ 2` and `ω = φ(root(K+1))`
with `ω^(2^K) = −1`: result[i] = `Σ_j p_j ω^(ij)` = p(ωⁱ) -/
theorem evaluate_poly_eq_dft (K : Nat) (hta : K + 1 ≤ ta)
    (hW : φ (root (K + 1)) ^ 2 ^ K = -1) (p : Array E) (hp : p.size = 2 ^ (K + 1)) :
    ∃ tws r, getTwiddles (ringCtx φ invB invE root ta) (2 ^ (K + 1)) = some tws ∧
      evaluatePoly (ringCtx φ invB invE root ta) p tws = some r ∧ r.size = 2 ^ (K + 1) ∧
      ∀ i, i < 2 ^ (K + 1) →
        r.getD i 0 = ∑ j ∈ range (2 ^ (K + 1)), p.getD j 0 * φ (root (K + 1)) ^ (j * i) := by
  obtain ⟨tws, h1, h2, h3⟩ := getTwiddles_spec φ invB invE root ta K hta
  obtain ⟨r, h4, h5, h6⟩ := evaluatePoly_spec φ invB invE root ta (φ (root (K + 1))) K hW tws h2
    (fun i _ hi => by rw [h3 i hi, map_pow]) p hp hta
  exact ⟨tws, r, h1, h4, h5, h6⟩

/-! ## §5 evaluation over a shifted, blown-up domain -/

/-- `evaluate_poly_with_offset(p, get_twiddles(p.len()), s, 2^b)`: `n = 2^(K+1)` coefficients,
`g = get_root_of_unity(log2(n·blowup))`, provided the small root is the matching power of the big
one (`root(K+1) = g^(2^b)`, true for `get_root_of_unity`) and `s ≠ 0`:
`n·2^b` results, result[x] = `Σ_j p_j (s·g^x)^j` = p(s·gˣ), natural order -/
theorem evaluate_poly_with_offset_eq_coset_evaluations (K b : Nat) (hta : K + 1 + b ≤ ta)
    (hroot : root (K + 1) = root (K + 1 + b) ^ 2 ^ b)
    (hG : φ (root (K + 1 + b)) ^ 2 ^ (K + b) = -1)
    (p : Array E) (hp : p.size = 2 ^ (K + 1)) (s : B) (hs0 : s ≠ 0) :
    ∃ tws r, getTwiddles (ringCtx φ invB invE root ta) (2 ^ (K + 1)) = some tws ∧
      evaluatePolyWithOffset (ringCtx φ invB invE root ta) p tws s (2 ^ b) = some r ∧
      r.size = 2 ^ (K + 1 + b) ∧
      ∀ x, x < 2 ^ (K + 1 + b) →
        r.getD x 0 =
          ∑ j ∈ range (2 ^ (K + 1)), p.getD j 0 * (φ s * φ (root (K + 1 + b)) ^ x) ^ j := by
  obtain ⟨tws, h1, h2, h3⟩ := getTwiddles_spec φ invB invE root ta K (by omega)
  obtain ⟨r, h4, h5, h6⟩ := evaluatePolyWithOffset_spec φ invB invE root ta K b
    (φ (root (K + 1 + b))) rfl hG tws h2
    (fun i _ hi => by rw [h3 i hi, hroot, map_pow, map_pow]) p hp hta s hs0
  exact ⟨tws, r, h1, h4, h5, h6⟩

/-! ## §6 interpolation inverts evaluation -/

/-- `interpolate_poly(evaluate_poly(p, get_twiddles(n)), get_inv_twiddles(n)) = p` for every `p` of
length `n = 2^(K+1) < 2^32`, provided `n·inv(n) = 1` in the field -/
theorem interpolate_inverts_evaluate (K : Nat) (hta : K + 1 ≤ ta) (h31 : K + 1 ≤ 31)
    (hW : φ (root (K + 1)) ^ 2 ^ K = -1)
    (hN : ((2 ^ (K + 1) : ℕ) : E) * φ (invB ((2 ^ (K + 1) : ℕ) : B)) = 1)
    (p : Array E) (hp : p.size = 2 ^ (K + 1)) :
    ∃ tws itws ev, getTwiddles (ringCtx φ invB invE root ta) (2 ^ (K + 1)) = some tws ∧
      getInvTwiddles (ringCtx φ invB invE root ta) (2 ^ (K + 1)) = some itws ∧
      evaluatePoly (ringCtx φ invB invE root ta) p tws = some ev ∧
      interpolatePoly (ringCtx φ invB invE root ta) ev itws = some p := by
  obtain ⟨tws, r, h1, h2, h3, h4⟩ := evaluate_poly_eq_dft φ invB invE root ta K hta hW p hp
  obtain ⟨itws, hget, hisz, hitw⟩ := getInvTwiddles_spec φ invB invE root ta K hta (by omega)
  have hWN : φ (root (K + 1)) ^ 2 ^ (K + 1) = 1 := by rw [pow_succ, pow_mul, hW]; ring
  have hWV : φ (root (K + 1)) * φ (root (K + 1)) ^ (2 ^ (K + 1) - 1) = 1 := by
    rw [← pow_succ', Nat.sub_add_cancel Nat.one_le_two_pow, hWN]
  obtain ⟨q, h5, h6, h7⟩ := interpolatePoly_inverts φ invB invE root ta (φ (root (K + 1)))
    (φ (root (K + 1)) ^ (2 ^ (K + 1) - 1)) hWV K hW itws hisz
    (fun i _ hi => by rw [hitw i hi, map_pow, map_pow]) hta h31 hN (fun j => p.getD j 0) r h3 h4
  have : q = p := array_eq_of_getD 0 q p (by rw [h6, hp]) (fun i hi => h7 i (by rw [← h6]; exact hi))
  exact ⟨tws, itws, r, h1, hget, h2, by rw [h5, this]⟩

/-- `interpolate_poly_with_offset` recovers the coefficient vector `c` (length `n = 2^(K+1)`) of
EVERY polynomial from its values `e_x = Σ_j c_j (s·ω^x)^j` on the coset `s·⟨ω⟩`, `s ≠ 0`
(in particular from `evaluate_poly_with_offset(c, ·, s, 1)`) -/
theorem interpolate_with_offset_inverts_coset_evaluation (K : Nat) (hta : K + 1 ≤ ta)
    (h31 : K + 1 ≤ 31) (hW : φ (root (K + 1)) ^ 2 ^ K = -1) (s : B) (hs0 : s ≠ 0)
    (hsinv : φ s * φ (invB s) = 1)
    (hN : ((2 ^ (K + 1) : ℕ) : E) * φ (invB ((2 ^ (K + 1) : ℕ) : B)) = 1)
    (c : Array E) (hc : c.size = 2 ^ (K + 1)) (e : Array E) (he : e.size = 2 ^ (K + 1))
    (hev : ∀ x, x < 2 ^ (K + 1) →
      e.getD x 0 = ∑ j ∈ range (2 ^ (K + 1)), c.getD j 0 * (φ s * φ (root (K + 1)) ^ x) ^ j) :
    ∃ itws, getInvTwiddles (ringCtx φ invB invE root ta) (2 ^ (K + 1)) = some itws ∧
      interpolatePolyWithOffset (ringCtx φ invB invE root ta) e itws s = some c := by
  obtain ⟨itws, hget, hisz, hitw⟩ := getInvTwiddles_spec φ invB invE root ta K hta (by omega)
  have hWN : φ (root (K + 1)) ^ 2 ^ (K + 1) = 1 := by rw [pow_succ, pow_mul, hW]; ring
  have hWV : φ (root (K + 1)) * φ (root (K + 1)) ^ (2 ^ (K + 1) - 1) = 1 := by
    rw [← pow_succ', Nat.sub_add_cancel Nat.one_le_two_pow, hWN]
  obtain ⟨q, h5, h6, h7⟩ := interpolatePolyWithOffset_inverts φ invB invE root ta
    (φ (root (K + 1))) (φ (root (K + 1)) ^ (2 ^ (K + 1) - 1)) hWV K hW itws hisz
    (fun i _ hi => by rw [hitw i hi, map_pow, map_pow]) hta h31 s hs0 hsinv hN
    (fun j => c.getD j 0) e he hev
  have : q = c := array_eq_of_getD 0 q c (by rw [h6, hc]) (fun i hi => h7 i (by rw [← h6]; exact hi))
  exact ⟨itws, hget, by rw [h5, this]⟩

/-- the composition with `evaluate_poly_with_offset(p, ·, s, 1)` is the identity -/
theorem interpolate_with_offset_inverts_evaluate_with_offset (K : Nat) (hta : K + 1 ≤ ta)
    (h31 : K + 1 ≤ 31) (hW : φ (root (K + 1)) ^ 2 ^ K = -1) (s : B) (hs0 : s ≠ 0)
    (hsinv : φ s * φ (invB s) = 1)
    (hN : ((2 ^ (K + 1) : ℕ) : E) * φ (invB ((2 ^ (K + 1) : ℕ) : B)) = 1)
    (p : Array E) (hp : p.size = 2 ^ (K + 1)) :
    ∃ tws itws ev, getTwiddles (ringCtx φ invB invE root ta) (2 ^ (K + 1)) = some tws ∧
      getInvTwiddles (ringCtx φ invB invE root ta) (2 ^ (K + 1)) = some itws ∧
      evaluatePolyWithOffset (ringCtx φ invB invE root ta) p tws s (2 ^ 0) = some ev ∧
      interpolatePolyWithOffset (ringCtx φ invB invE root ta) ev itws s = some p := by
  obtain ⟨tws, r, h1, h2, h3, h4⟩ := evaluate_poly_with_offset_eq_coset_evaluations φ invB invE root
    ta K 0 (by omega) (by simp) (by simpa using hW) p hp s hs0
  obtain ⟨itws, h5, h6⟩ := interpolate_with_offset_inverts_coset_evaluation φ invB invE root ta K hta
    h31 hW s hs0 hsinv hN p hp r h3 h4
  exact ⟨tws, itws, r, h1, h5, h2, h6⟩

/-! ## §7 degree inference -/

/-- `infer_degree(evaluations, s)` on the values of ANY polynomial `c` of length `n = 2^(K+1)` over
the coset `s·⟨ω⟩`: if `c_d ≠ 0` and all higher coefficients vanish, the answer is `d` -/
theorem infer_degree_true_degree (K : Nat) (hta : K + 1 ≤ ta) (h31 : K + 1 ≤ 31)
    (hW : φ (root (K + 1)) ^ 2 ^ K = -1) (s : B) (hs0 : s ≠ 0) (hsinv : φ s * φ (invB s) = 1)
    (hN : ((2 ^ (K + 1) : ℕ) : E) * φ (invB ((2 ^ (K + 1) : ℕ) : B)) = 1)
    (c : ℕ → E) (e : Array E) (he : e.size = 2 ^ (K + 1))
    (hev : ∀ x, x < 2 ^ (K + 1) →
      e.getD x 0 = ∑ j ∈ range (2 ^ (K + 1)), c j * (φ s * φ (root (K + 1)) ^ x) ^ j)
    (d : Nat) (hd : d < 2 ^ (K + 1)) (hcd : c d ≠ 0) (hz : ∀ i, d < i → i < 2 ^ (K + 1) → c i = 0) :
    inferDegree (ringCtx φ invB invE root ta) e s = some d := by
  rw [inferDegree_spec φ invB invE root ta K _ rfl hW hta h31 s hs0 hsinv hN c e he hev]
  congr 1
  apply degreeOf_spec
  · simpa using hd
  · simpa [List.getD_eq_getElem?_getD, hd] using hcd
  · intro i hi1 hi2
    have hi : i < 2 ^ (K + 1) := by simpa using hi2
    simpa [List.getD_eq_getElem?_getD, hi] using hz i hi1 hi

/-- … and for the zero polynomial (all-zero evaluations) the answer is `0` -/
theorem infer_degree_zero_poly (K : Nat) (hta : K + 1 ≤ ta) (h31 : K + 1 ≤ 31)
    (hW : φ (root (K + 1)) ^ 2 ^ K = -1) (s : B) (hs0 : s ≠ 0) (hsinv : φ s * φ (invB s) = 1)
    (hN : ((2 ^ (K + 1) : ℕ) : E) * φ (invB ((2 ^ (K + 1) : ℕ) : B)) = 1)
    (e : Array E) (he : e.size = 2 ^ (K + 1)) (hev : ∀ x, x < 2 ^ (K + 1) → e.getD x 0 = 0) :
    inferDegree (ringCtx φ invB invE root ta) e s = some 0 := by
  rw [inferDegree_spec φ invB invE root ta K _ rfl hW hta h31 s hs0 hsinv hN (fun _ => 0) e he
    (fun x hx => by rw [hev x hx]; simp)]
  congr 1
  apply degreeOf_zero
  intro i hi
  have hi' : i < 2 ^ (K + 1) := by simpa using hi
  simp [List.getD_eq_getElem?_getD, hi']

end ring

/-! ## §8 fields and primitive roots; non-vacuity -/

/-- every primitive `2^(K+1)`-th root of unity of a ring without zero divisors satisfies the
hypothesis `ω^(2^K) = −1` of §3–§7 -/
theorem root_half_of_primitive {R : Type} [CommRing R] [NoZeroDivisors R] (ω : R) (K : ℕ)
    (h : IsPrimitiveRoot ω (2 ^ (K + 1))) : ω ^ 2 ^ K = -1 :=
  primitiveRoot_half ω K h

/-- Field form: over any field `F`, for every `K` and every primitive `2^(K+1)`-th root of unity
`ω = get_root_of_unity(K+1)`, with the field's inverse as `inv`:
`evaluate_poly p = [p(ωⁱ)]ᵢ` and `interpolate_poly` undoes it. -/
theorem evaluate_interpolate_field {F : Type} [Field F] [DecidableEq F] (root : Nat → F) (ta K : Nat)
    (hta : K + 1 ≤ ta) (h31 : K + 1 ≤ 31) (hprim : IsPrimitiveRoot (root (K + 1)) (2 ^ (K + 1)))
    (p : Array F) (hp : p.size = 2 ^ (K + 1)) :
    ∃ tws itws ev,
      getTwiddles (ringCtx (RingHom.id F) (·⁻¹) (·⁻¹) root ta) (2 ^ (K + 1)) = some tws ∧
      getInvTwiddles (ringCtx (RingHom.id F) (·⁻¹) (·⁻¹) root ta) (2 ^ (K + 1)) = some itws ∧
      evaluatePoly (ringCtx (RingHom.id F) (·⁻¹) (·⁻¹) root ta) p tws = some ev ∧
      ev.size = 2 ^ (K + 1) ∧
      (∀ i, i < 2 ^ (K + 1) →
        ev.getD i 0 = ∑ j ∈ range (2 ^ (K + 1)), p.getD j 0 * (root (K + 1) ^ i) ^ j) ∧
      interpolatePoly (ringCtx (RingHom.id F) (·⁻¹) (·⁻¹) root ta) ev itws = some p := by
  have hW : (RingHom.id F) (root (K + 1)) ^ 2 ^ K = -1 := primitiveRoot_half _ K hprim
  have h2 : (2 : F) ≠ 0 := by
    intro h
    have hne : root (K + 1) ^ 2 ^ K ≠ 1 := by
      intro h1
      have := hprim.dvd_of_pow_eq_one _ h1
      have hlt : 2 ^ K < 2 ^ (K + 1) := Nat.pow_lt_pow_right (by decide) (Nat.lt_succ_self K)
      exact absurd (Nat.le_of_dvd (Nat.two_pow_pos K) this) (by omega)
    apply hne
    have : (-1 : F) = 1 := by
      have : (1 : F) + 1 = 0 := by rw [one_add_one_eq_two]; exact h
      exact neg_eq_of_add_eq_zero_left this
    rw [← this]; exact hW
  have hN : (((2 ^ (K + 1) : ℕ) : F)) * (RingHom.id F) ((((2 ^ (K + 1) : ℕ) : F))⁻¹) = 1 := by
    have : ((2 : F) ^ (K + 1)) ≠ 0 := pow_ne_zero _ h2
    simp only [RingHom.id_apply, Nat.cast_pow, Nat.cast_ofNat]
    exact mul_inv_cancel₀ this
  obtain ⟨tws, itws, ev, h1, h3, h4, h5⟩ :=
    interpolate_inverts_evaluate (RingHom.id F) (·⁻¹) (·⁻¹) root ta K hta h31 hW hN p hp
  obtain ⟨tws', r, h1', h4', h6, h7⟩ :=
    evaluate_poly_eq_dft (RingHom.id F) (·⁻¹) (·⁻¹) root ta K hta hW p hp
  rw [h1] at h1'
  cases h1'
  rw [h4] at h4'
  cases h4'
  refine ⟨tws, itws, ev, h1, h3, h4, h6, fun i hi => ?_, h5⟩
  rw [h7 i hi]
  refine sum_congr rfl fun j _ => ?_
  rw [← pow_mul, Nat.mul_comm i j]
  rfl

/-! ### non-vacuity: the hypotheses are satisfiable and the model computes real transforms -/

/-- in `ZMod 17`, `9` has `9^4 = −1` (a primitive 8-th root): the hypotheses of §3–§7 hold with
`K = 2`, `root = fun _ => 9`, `s = 3`, `inv = x ↦ x^15` -/
example : (RingHom.id (ZMod 17)) ((fun _ : ℕ => (9 : ZMod 17)) (2 + 1)) ^ 2 ^ 2 = -1 := by decide
example : (3 : ZMod 17) ≠ 0 := by decide
example : (RingHom.id (ZMod 17)) 3 * (RingHom.id (ZMod 17)) ((fun x : ZMod 17 => x ^ 15) 3) = 1 := by
  decide
example : (((2 ^ (2 + 1) : ℕ) : ZMod 17)) *
    (RingHom.id (ZMod 17)) ((fun x : ZMod 17 => x ^ 15) (((2 ^ (2 + 1) : ℕ) : ZMod 17))) = 1 := by
  decide

/-- the executable model over the integers mod 17 (`natOps 17`), roots of unity 3^(2^(4−n)) -/
def ctx17 : Ctx Nat Nat where
  b := { natOps 17 with inv := fun a => a ^ 15 % 17 }
  e := { natOps 17 with inv := fun a => a ^ 15 % 17 }
  mulBase := fun x t => x * t % 17
  embed := id
  exp := fun x n => x ^ n % 17
  root := fun n => 3 ^ 2 ^ (4 - n) % 17
  twoAdicity := 4

/-- naive evaluation `Σ_j p_j x^j mod 17` -/
def horner17 (p : List Nat) (x : Nat) : Nat := p.foldr (fun c acc => (c + x * acc) % 17) 0

/-- size-8 transform: twiddles `[1, 13, 9, 15]` (= ω^0, ω^2, ω^1, ω^3 for ω = 9), result = the
naive evaluations at `9^i`, and interpolation restores the coefficients -/
example : getTwiddles ctx17 8 = some #[1, 13, 9, 15] := by decide +kernel
example : getInvTwiddles ctx17 8 = some #[1, 4, 2, 8] := by decide +kernel
example : evaluatePoly ctx17 #[1, 2, 3, 4, 5, 6, 7, 8] #[1, 13, 9, 15] =
    some ((List.range 8).map (fun i => horner17 [1, 2, 3, 4, 5, 6, 7, 8] (9 ^ i % 17))).toArray := by
  decide +kernel
example : (evaluatePoly ctx17 #[1, 2, 3, 4, 5, 6, 7, 8] #[1, 13, 9, 15]).bind
    (fun ev => interpolatePoly ctx17 ev #[1, 4, 2, 8]) = some #[1, 2, 3, 4, 5, 6, 7, 8] := by
  decide +kernel
/-- blowup 2, offset 3 over the 8-point domain of a 4-coefficient polynomial: values p(3·9^x) -/
example : evaluatePolyWithOffset ctx17 #[5, 0, 16, 2] #[1, 13] 3 2 =
    some ((List.range 8).map (fun x => horner17 [5, 0, 16, 2] (3 * 9 ^ x % 17))).toArray := by
  decide +kernel
/-- degree inference: a degree-2 polynomial in 8 evaluations, and the zero polynomial -/
example : (evaluatePolyWithOffset ctx17 #[5, 0, 16, 0] #[1, 13] 3 2).bind
    (fun ev => inferDegree ctx17 ev 3) = some 2 := by decide +kernel
example : inferDegree ctx17 #[0, 0, 0, 0] 3 = some 0 := by decide +kernel
/-- a general call shape of `fft_in_place` (count 1, stride 2, offset 1 on 8 values) transforms the
odd-indexed sub-sequence only -/
example : fftInPlace ctx17 #[1, 13, 9, 15] 8 #[1, 2, 3, 4, 5, 6, 7, 8] 1 2 1 =
    #[1, 3, 3, 13, 5, 12, 7, 14] := by decide +kernel

end Wf.Props.C12
