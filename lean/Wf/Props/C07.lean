/-
C07 — protocol objects survive serialization round trips.

For every value the public constructors accept (`Valid`), decoding the value's own encoding —
followed by arbitrary further bytes — returns the value and leaves exactly those bytes.
Models: `Wf/Model/ProofObjects.lean` (each `decode` mirrors `read_from`).
-/
import Wf.Lemmas.ProofObjects
namespace Wf.Props.C07
open Wf

/-- TraceInfo: every constructor-accepted value, including total width 255, an auxiliary segment
    with zero random elements, 65535 metadata bytes, any power-of-two length 2^3 … 2^63 -/
theorem trace_info_roundtrip (t : TraceInfo) (h : t.Valid) (r : Bytes) :
    TraceInfo.decode (t.encode ++ r) = .ok t r := by
  obtain ⟨h8, ⟨k, hk, hk64⟩, hmeta, hmain, hwidth, haux, hrands⟩ := h
  have hk3 : 3 ≤ k := by
    rcases Nat.lt_or_ge k 3 with hc | hc
    · have : k ≤ 2 := by omega
      have : 2 ^ k ≤ 2 ^ 2 := Nat.pow_le_pow_right (by omega) this
      omega
    · exact hc
  have hlog : t.length.log2 = k := by rw [hk, Nat.log2_two_pow]
  unfold TraceInfo.encode TraceInfo.decode
  simp only [List.append_assoc, hlog]
  rw [readU8_append _ _ (by omega)]
  simp only []
  have hm0 : ¬ t.main = 0 := by omega
  rw [if_neg hm0, readU8_append _ _ (by omega)]
  simp only []
  have hw : ¬ t.main + t.aux > 255 := by omega
  rw [if_neg hw, readU8_append _ _ (by omega)]
  simp only []
  have h1 : ¬ (t.aux = 0 ∧ t.rands ≠ 0) := fun ⟨a, b⟩ => b (haux a)
  have h2 : ¬ t.rands > 255 := by omega
  rw [if_neg h1, if_neg h2, readU8_append _ _ (by omega)]
  simp only []
  have h3 : ¬ k < 3 := by omega
  have h4 : ¬ k ≥ 64 := by omega
  rw [if_neg h3, if_neg h4, readU16_append _ _ (by omega)]
  simp only []
  cases hm : t.metaBytes with
  | nil =>
    simp only [List.length_nil, if_true, List.nil_append]
    cases t; simp_all
  | cons b bs =>
    have hne : ¬ (b :: bs).length = 0 := by simp
    rw [if_neg hne, readSlice_append]
    cases t; simp_all

/-- ProofOptions: every partition setting (1..16 partitions, hash rate 1..255), every enum tag -/
theorem proof_options_roundtrip (o : ProofOptions) (h : o.Valid) (r : Bytes) :
    ProofOptions.decode (o.encode ++ r) = .ok o r := by
  obtain ⟨h1, h2, h3, h4, h5, h6, h7, h8, h9, h10, h11, h12, h13, h14, h15, h16, h17, h18⟩ := h
  have hv : o.validB = true := by
    unfold ProofOptions.validB
    simp [h1, h2, h3, h4, h5, h6, h8, h9, h10, h11, h12, h15, h16, h17]
  have hext : (o.ext == 1 || o.ext == 2 || o.ext == 3) = true := by
    rcases h7 with h | h | h <;> simp [h]
  unfold ProofOptions.decode ProofOptions.encode
  simp only [List.map_cons, List.map_nil, List.cons_append, List.nil_append, Dec.bind,
    ProofOptions.readTag]
  rw [readU8_cons _ _ (by omega)]; simp only []
  rw [readU8_cons _ _ (by omega)]; simp only []
  rw [readU8_cons _ _ (by omega)]; simp only []
  rw [readU8_cons _ _ (by omega)]; simp only [hext, if_true]
  rw [readU8_cons _ _ (by omega)]; simp only []
  rw [readU8_cons _ _ (by omega)]; simp only []
  rw [readU8_cons _ _ (by omega)]; simp only [h13, decide_true, if_true]
  rw [readU8_cons _ _ (by omega)]; simp only [h14, decide_true, if_true]
  rw [readU8_cons _ _ (by omega)]; simp only []
  rw [readU8_cons _ _ (by omega)]; simp only []
  cases o
  simp only [ProofOptions.validB] at hv
  simp [Dec.pure, ProofOptions.validB, hv]

/-- Context (trace info, modulus bytes, options, constraint count) -/
theorem context_roundtrip (c : Context) (h : c.Valid) (r : Bytes) :
    Context.decode (c.encode ++ r) = .ok c r := by
  obtain ⟨hi, ho, hl1, hl2, hnc0, hnc, hm0, hm, hnz⟩ := h
  unfold Context.decode Context.encode lenBytesEnc
  simp only [List.append_assoc]
  rw [trace_info_roundtrip _ hi]; simp only []
  rw [readU8_append _ _ (by omega)]; simp only []
  have : ¬ c.modulus.length = 0 := by omega
  rw [if_neg this, readSlice_append]; simp only []
  -- the modulus of a valid context is not all zero, so `read_from`'s zero-modulus check passes
  have hall : ¬ (c.modulus.all (· == 0)) = true := by
    intro hall
    rw [List.any_eq_true] at hnz
    obtain ⟨b, hb, hb0⟩ := hnz
    have := (List.all_eq_true.1 hall) b hb
    simp_all
  rw [if_neg hall]
  rw [proof_options_roundtrip _ ho]; simp only []
  rw [readUsize_writeUsize _ _ (by omega)]; simp only []
  rw [if_neg (by omega), if_neg (by omega)]

/-- Commitments (any byte string shorter than 2^16) -/
theorem commitments_roundtrip (bs r : Bytes) (h : bs.length < 65536) :
    commitmentsDec (commitmentsEnc bs ++ r) = .ok bs r :=
  lenBytes_roundtrip 2 bs r (by simpa using h)

/-- Out-of-domain frame -/
theorem ood_frame_roundtrip (f : Bytes × Bytes) (r : Bytes) (h1 : f.1.length < 65536)
    (h2 : f.2.length < 65536) : oodFrameDec (oodFrameEnc f ++ r) = .ok f r := by
  unfold oodFrameDec oodFrameEnc
  rw [List.append_assoc, lenBytes_roundtrip 2 _ _ (by simpa using h1)]
  simp only []
  rw [lenBytes_roundtrip 2 _ _ (by simpa using h2)]

/-- FRI proof layer (non-empty values, as the constructor requires) -/
theorem fri_layer_roundtrip (l : Bytes × Bytes) (r : Bytes) (h0 : l.1 ≠ []) (h1 : l.1.length < 2 ^ 32)
    (h2 : l.2.length < 2 ^ 32) : friLayerDec (friLayerEnc l ++ r) = .ok l r := by
  unfold friLayerDec friLayerEnc lenBytesEnc
  simp only [List.append_assoc]
  rw [readLe_append 4 _ _ (by simpa using h1)]
  simp only []
  have : ¬ l.1.length = 0 := by
    intro hc; exact h0 (List.eq_nil_of_length_eq_zero hc)
  rw [if_neg this, readSlice_append]
  simp only []
  have := lenBytes_roundtrip 4 l.2 r (by simpa using h2)
  unfold lenBytesEnc at this
  rw [List.append_assoc] at this
  rw [this]

/-- FRI proof: up to 255 layers, remainder shorter than 2^16 bytes, partition exponent below 64
(`FriProof::new` stores `trailing_zeros` of a power-of-two usize; `read_from` rejects 64..255) -/
theorem fri_proof_roundtrip (p : FriProof) (r : Bytes) (hl : p.layers.length < 256)
    (hv : ∀ l ∈ p.layers, l.1 ≠ [] ∧ l.1.length < 2 ^ 32 ∧ l.2.length < 2 ^ 32)
    (hr : p.remainder.length < 65536) (hn : p.numPartitions < 64) :
    friProofDec (friProofEnc p ++ r) = .ok p r := by
  unfold friProofDec friProofEnc
  simp only [List.append_assoc]
  rw [readU8_append _ _ hl]
  simp only []
  let c : Codec (Bytes × Bytes) := ⟨friLayerEnc, friLayerDec, 48⟩
  have hc : RoundTrips c (fun l => l.1 ≠ [] ∧ l.1.length < 2 ^ 32 ∧ l.2.length < 2 ^ 32) :=
    fun l r hl' => fri_layer_roundtrip l r hl'.1 hl'.2.1 hl'.2.2
  have hm := readMany_roundtrip c _ hc 48 p.layers
    (lenBytesEnc 2 p.remainder ++ (leBytes 1 p.numPartitions ++ r)) hv
  simp only [Codec.encMany, c] at hm
  rw [hm]
  simp only []
  rw [lenBytes_roundtrip 2 _ _ (by simpa using hr)]
  simp only []
  rw [readU8_append _ _ (by omega)]
  simp only []
  rw [if_neg (by omega)]

/-- Queries = two byte vectors with vint64 lengths -/
theorem bytes_vec_roundtrip (s r : Bytes) (hs : s.length < 2 ^ 64) :
    bytesVec.dec (bytesVec.enc s ++ r) = .ok s r := by
  simp only [bytesVec, List.append_assoc]
  rw [readUsize_writeUsize _ _ hs]
  have := readSlice_append s r
  unfold readSlice at this
  exact this

theorem queries_roundtrip (q : Bytes × Bytes) (r : Bytes) (h1 : q.1.length < 2 ^ 64)
    (h2 : q.2.length < 2 ^ 64) : queriesCodec.dec (queriesCodec.enc q ++ r) = .ok q r := by
  simp only [queriesCodec, Codec.pair, List.append_assoc]
  rw [bytes_vec_roundtrip _ _ h1]
  simp only []
  rw [bytes_vec_roundtrip _ _ h2]

/-! ### non-vacuity: boundary values the constructors accept -/

example : (⟨255, 0, 0, 8, []⟩ : TraceInfo).Valid := by
  refine ⟨by decide, ⟨3, by decide, by decide⟩, by decide, by decide, by decide, fun _ => rfl, by decide⟩
example : (⟨200, 55, 0, 2 ^ 20, [1, 0]⟩ : TraceInfo).Valid := by
  refine ⟨by decide, ⟨20, by decide, by decide⟩, by decide, by decide, by decide, ?_, by decide⟩
  intro h; cases h
example : TraceInfo.decode ((⟨255, 0, 0, 8, []⟩ : TraceInfo).encode ++ [9]) = .ok ⟨255, 0, 0, 8, []⟩ [9] := by
  decide
example : (⟨255, 128, 32, 3, 16, 255, 2, 2, 16, 255⟩ : ProofOptions).Valid := by
  unfold ProofOptions.Valid; decide

end Wf.Props.C07
