/-
C17 — hash padding separates inputs of different length.

Model: `Wf/Model/Hashers.lean`.  What a hasher feeds to its primitive is
* the preimage byte string (BLAKE3-256/192, SHA3-256), resp.
* the absorption layout `(capacity words, sequence of rate blocks)` (Rp64_256, RpJive64_256, Rp62_248;
  the permutation is a parameter, it is C16's subject).

Theorems, for ALL inputs: for every hasher and entry point the map input ↦ preimage / layout is
INJECTIVE.  In particular inputs that differ only in length, in trailing zero bytes / zero elements,
in how digests are grouped, or integers `x` and `x + p` never share a layout.  That the DIGESTS then
differ needs collision-freeness of the primitive / of the truncated permutation on the inputs in
question; this is a cryptographic hypothesis and appears as such (`*_partial`).  The property's own
quantifier (the structured families) is enumerated against the real hashers by stream `c17`.
-/
import Wf.Lemmas.Hashers
namespace Wf.Props.C17
open Wf Wf.Sponge Wf.ByteHasher

/-- the three Rescue hashers of the crate -/
def Rescue (s : Sponge) : Prop := s = rp64 ∨ s = rpJive64 ∨ s = rp62

private theorem rescue_good (s : Sponge) (h : Rescue s) : s.Good := by
  rcases h with h | h | h
  · subst h; exact rp64_good
  · subst h; exact rpJive64_good
  · subst h; exact rp62_good

/-! ## Rescue hashers: the absorption layout is injective -/

/-- `hash`: 7-byte chunks + terminator byte + length (or flag) in the capacity: different byte
strings – prefixes, zero-extensions, any lengths incl. multiples of 7 and of the rate – give
different layouts -/
theorem rescue_hash_layout_inj (s : Sponge) (hs : Rescue s) (a b : Bytes)
    (h : s.hashLayout a = s.hashLayout b) : a = b :=
  hashLayout_inj s (rescue_good s hs) a b h

/-- the chunk values are valid canonical elements of both 64-bit fields (no reduction happens in
`BaseElement::new`), and there are `⌈len/7⌉` of them -/
theorem rescue_hash_chunks (bs : Bytes) :
    (∀ e ∈ bytesToElems bs, e < Wf.Gen.FieldConsts.F62.M ∧ e < Wf.Gen.FieldConsts.F64.M) ∧
    (bytesToElems bs).length = (bs.length + 6) / 7 := by
  refine ⟨fun e he => ?_, bytesToElemsF_length _ bs (Nat.le_refl _)⟩
  have := bytesToElemsF_lt _ bs e he
  have h1 : 2 ^ 57 < Wf.Gen.FieldConsts.F62.M := by decide
  have h2 : 2 ^ 57 < Wf.Gen.FieldConsts.F64.M := by decide
  omega

/-- `hash_elements`: different element lists (e.g. with extra trailing zero elements) give different
layouts -/
theorem rescue_elements_layout_inj (s : Sponge) (hs : Rescue s) (es es' : List Nat)
    (h : s.elemsLayout es = s.elemsLayout es') : es = es' :=
  elemsLayout_inj s (rescue_good s hs) es es' h

/-- `merge_many`: different lists of (4-element) digests give different layouts -/
theorem rescue_mergeMany_layout_inj (s : Sponge) (hs : Rescue s) (ds ds' : List (List Nat))
    (hd : ∀ d ∈ ds, d.length = 4) (hd' : ∀ d ∈ ds', d.length = 4)
    (h : s.mergeManyLayout ds = s.mergeManyLayout ds') : ds = ds' :=
  mergeManyLayout_inj s (rescue_good s hs) ds ds' hd hd' h

/-- `merge` -/
theorem rescue_merge_layout_inj (s : Sponge) (a b a' b' : List Nat) (ha : a.length = 4) (ha' : a'.length = 4)
    (h : s.mergeLayout a b = s.mergeLayout a' b') : a = a' ∧ b = b' :=
  mergeLayout_inj s a b a' b' (by rw [ha, ha']) h

/-- `merge_with_int`: the `(value mod p, value div p, count)` split is injective on `u64` -/
theorem rescue_mergeWithInt_layout_inj (s : Sponge) (hs : Rescue s) (seed seed' : List Nat) (v v' : Nat)
    (hl : seed.length = 4) (hl' : seed'.length = 4) (hv : v < 2 ^ 64) (hv' : v' < 2 ^ 64)
    (h : s.mergeWithIntLayout seed v = s.mergeWithIntLayout seed' v') : seed = seed' ∧ v = v' :=
  mergeWithIntLayout_inj s (rescue_good s hs) seed seed' v v' (by rw [hl, hl']) hv hv' h

/-- integers congruent modulo the field prime are separated -/
theorem rescue_x_and_x_plus_p (s : Sponge) (hs : Rescue s) (seed : List Nat) (x k : Nat) (hk : 0 < k)
    (hx : x + k * s.p < 2 ^ 64) :
    s.mergeWithIntLayout seed x ≠ s.mergeWithIntLayout seed (x + k * s.p) := by
  intro h
  have hp : 0 < s.p := by
    rcases hs with h | h | h <;> subst h <;> decide
  have := (mergeWithIntLayout_inj s (rescue_good s hs) seed seed x (x + k * s.p) rfl
    (Nat.lt_of_le_of_lt (Nat.le_add_right _ _) hx) hx h).2
  have : 0 < k * s.p := Nat.mul_pos hk hp
  omega

/-- trailing zero bytes are separated (instance of `rescue_hash_layout_inj`) -/
theorem rescue_zero_extension (s : Sponge) (hs : Rescue s) (bs : Bytes) (k : Nat) (hk : 0 < k) :
    s.hashLayout (bs ++ List.replicate k 0) ≠ s.hashLayout bs := by
  intro h
  have := congrArg List.length (rescue_hash_layout_inj s hs _ _ h)
  simp at this
  omega

/-- trailing zero elements are separated -/
theorem rescue_zero_elements (s : Sponge) (hs : Rescue s) (es : List Nat) (k : Nat) (hk : 0 < k) :
    s.elemsLayout (es ++ List.replicate k 0) ≠ s.elemsLayout es := by
  intro h
  have := congrArg List.length (rescue_elements_layout_inj s hs _ _ h)
  simp at this
  omega

/-! ## byte hashers: the preimage is injective (per entry point) -/

theorem byte_hash_inj (a b : Bytes) (h : preHash a = preHash b) : a = b := h

theorem byte_merge_inj (n : Nat) (a b a' b' : Bytes) (ha : a.length = n) (ha' : a'.length = n)
    (h : preMerge a b = preMerge a' b') : a = a' ∧ b = b' :=
  List.append_inj h (by rw [ha, ha'])

/-- digests have the fixed length `n` (32 or 24): the concatenation determines the list -/
theorem byte_mergeMany_inj (n : Nat) (hn : 0 < n) (ds ds' : List Bytes)
    (hd : ∀ d ∈ ds, d.length = n) (hd' : ∀ d ∈ ds', d.length = n)
    (h : preMergeMany ds = preMergeMany ds') : ds = ds' :=
  flatten_inj_of_length n hn ds ds' hd hd' h

theorem byte_mergeWithInt_inj (n : Nat) (d d' : Bytes) (v v' : Nat) (hd : d.length = n) (hd' : d'.length = n)
    (hv : v < 2 ^ 64) (hv' : v' < 2 ^ 64) (h : preMergeWithInt d v = preMergeWithInt d' v') :
    d = d' ∧ v = v' := by
  have := List.append_inj h (by rw [hd, hd'])
  exact ⟨this.1, leBytes_inj 8 v v' (by simpa using hv) (by simpa using hv') this.2⟩

/-- `hash_elements`: lists of elements (each `deg` canonical coefficients below `256^bytes`) with
different values have different preimages -/
theorem byte_hashElements_inj (f : FieldParams) (deg : Nat) (hb : 0 < f.bytes) (hdeg : 0 < deg)
    (es es' : List (List Nat))
    (he : ∀ e ∈ es, e.length = deg ∧ ∀ c ∈ e, c < 256 ^ f.bytes)
    (he' : ∀ e ∈ es', e.length = deg ∧ ∀ c ∈ e, c < 256 ^ f.bytes)
    (h : preHashElements f es = preHashElements f es') : es = es' :=
  preHashElements_inj f deg hb hdeg es es' he he' h

/-! ## from layouts to digests: relative to collision-freeness (cryptographic, not provable) -/

/-- byte hashers: if the (truncated) primitive has no collision among the preimages of a set of
inputs, then different inputs of that set have different digests -/
theorem byte_digests_distinct_partial {ι} (h : ByteHasher) (P : Bytes → Bytes) (pre : ι → Bytes)
    (hpre : ∀ x y, pre x = pre y → x = y) (S : ι → Prop)
    (hfree : ∀ x y, S x → S y → h.digest P (pre x) = h.digest P (pre y) → pre x = pre y)
    (x y : ι) (hx : S x) (hy : S y) (hne : x ≠ y) : h.digest P (pre x) ≠ h.digest P (pre y) :=
  fun hd => hne (hpre x y (hfree x y hx hy hd))

/-- Rescue: the same with any function of the layout (`digest = out (eval perm layout)`) -/
theorem rescue_digests_distinct_partial {ι δ} (layout : ι → Layout) (compress : Layout → δ)
    (hlay : ∀ x y, layout x = layout y → x = y) (S : ι → Prop)
    (hfree : ∀ x y, S x → S y → compress (layout x) = compress (layout y) → layout x = layout y)
    (x y : ι) (hx : S x) (hy : S y) (hne : x ≠ y) : compress (layout x) ≠ compress (layout y) :=
  fun hd => hne (hlay x y (hfree x y hx hy hd))

/-! ## non-vacuity -/

/-- one zero byte and the empty string; 7 and 8 bytes; the length-56/57 boundary of the rate -/
example : bytesToElems [] = [] ∧ bytesToElems [0] = [256] ∧ bytesToElems [1] = [257] ∧
    bytesToElems [1, 1] = [65793] ∧
    bytesToElems [0, 0, 0, 0, 0, 0, 0] = [2 ^ 56] ∧ bytesToElems [0, 0, 0, 0, 0, 0, 0, 0] = [0, 256] := by
  decide

example : rp64.elemsLayout [5] = ⟨[1, 0, 0, 0], [.add [5, 0, 0, 0, 0, 0, 0, 0]]⟩ ∧
    rp64.elemsLayout [5, 0] = ⟨[2, 0, 0, 0], [.add [5, 0, 0, 0, 0, 0, 0, 0]]⟩ ∧
    rp62.elemsLayout [5] = ⟨[0, 0, 0, 1], [.add [5, 0, 0, 0, 0, 0, 0, 0]]⟩ ∧
    rpJive64.elemsLayout [5] = ⟨[1, 0, 0, 0], [.addPad [5]]⟩ ∧
    rpJive64.elemsLayout [5, 1, 0, 0] = ⟨[0, 0, 0, 0], [.add [5, 1, 0, 0]]⟩ ∧
    rpJive64.elemsLayout [1, 2, 3, 4, 5] = ⟨[1, 0, 0, 0], [.add [1, 2, 3, 4], .addPad [5]]⟩ := by
  decide

/-- `x` and `x + p`: count 5 vs 6 and the quotient word -/
example : rp64.mergeWithIntLayout [1, 2, 3, 4] 7 = ⟨[5, 0, 0, 0], [.add [1, 2, 3, 4, 7, 0, 0, 0]]⟩ ∧
    rp64.mergeWithIntLayout [1, 2, 3, 4] (7 + 18446744069414584321) =
      ⟨[6, 0, 0, 0], [.add [1, 2, 3, 4, 7, 1, 0, 0]]⟩ ∧
    rpJive64.mergeWithIntLayout [1, 2, 3, 4] 7 = ⟨[1, 2, 3, 4], [.add [7, 0, 0, 5]]⟩ ∧
    rp62.mergeWithIntLayout [1, 2, 3, 4] (3 * 4611624995532046337 + 2) =
      ⟨[0, 0, 0, 6], [.add [1, 2, 3, 4, 2, 3, 0, 0]]⟩ := by
  decide

end Wf.Props.C17
