/-
C10 (continued) — f62 limb kernels are exact arithmetic modulo p = 2^62 − 111·2^39 + 1.

The definitions under `Wf.Gen.F62` are REGENERATED from `math/src/field/f62/mod.rs` on every run
(tools/rs2lean.py: add / sub / mul / normalize / new / double / as_int / neg (`impl Neg`) /
eq (`impl PartialEq`) / inv); the theorems below are about those definitions.

Elements are stored in Montgomery form (R = 2^64) as words in [0, 2p): `Rep a := a.toNat < 2·p`
is the invariant documented on `BaseElement`; `val a := a.toNat · R⁻¹ mod p` is the canonical value.
Zero has TWO in-range words, 0 and p (`f62_zero_words`).
  §1  add / sub / mul / neg / double preserve Rep and compute the operation modulo p on values;
  §2  `new` reduces every u64, `as_int` is canonical for EVERY word (second zero ↦ 0);
  §3  the implemented `==` is equality of values on Rep words — and NOT outside (word 2p);
  §4  normalize; the Montgomery reduction identity.

  §5  `inv` (binary extended Euclid; the translator bounds each of its five `while` loops by 256
      iterations, `Wf.whileFuel`, and emits their conditions / bodies as `inv_while<k>_cond/_body`):
      FULL correctness — for every in-range word of non-zero value the result is in range and its
      value is the inverse modulo p (loop-invariant proof in Lemmas/F62Inv.lean: a·X ≡ v, d·X ≡ −u,
      gcd(u, v) = 1, u·v·2^k ≤ 2p², a, d ≤ (k+2)p; variants log₂(u·v), log₂ u, a/p, all < 256, so the
      iteration bound of the translation is never reached); both zeros ↦ 0; result in range for
      EVERY input word.  Uses the primality of p (Lucas certificate of C11, Lemmas/Primes.lean).
-/
import Wf.Lemmas.F62Inv
namespace Wf.Props.C10F62
open Wf Wf.F62 Wf.Gen.F62

theorem f62_modulus : F62.p = 2 ^ 62 - 111 * 2 ^ 39 + 1 ∧ M.toNat = F62.p := ⟨F62.p_eq, F62.M_toNat⟩

/-! ## §1 ring operations -/

theorem f62_add_exact (a b : BitVec 64) (ha : Rep a) (hb : Rep b) :
    Rep (add a b) ∧ val (add a b) = (val a + val b) % F62.p := add_spec a b ha hb

theorem f62_sub_exact (a b : BitVec 64) (ha : Rep a) (hb : Rep b) :
    Rep (sub a b) ∧ val (sub a b) = (val a + (F62.p - val b)) % F62.p := sub_spec a b ha hb

theorem f62_mul_exact (a b : BitVec 64) (ha : Rep a) (hb : Rep b) :
    Rep (mul a b) ∧ val (mul a b) = val a * val b % F62.p := mul_spec a b ha hb

/-- `impl Neg`: in particular −0 and −(second zero) stay inside [0, 2p) -/
theorem f62_neg_exact (a : BitVec 64) (ha : Rep a) :
    Rep (neg a) ∧ val (neg a) = (F62.p - val a) % F62.p := neg_spec a ha

theorem f62_double_exact (a : BitVec 64) (ha : Rep a) :
    Rep (double a) ∧ val (double a) = 2 * val a % F62.p := double_spec a ha

/-! ## §2 conversions -/

/-- `new` reduces silently: every 64-bit integer, including those ≥ p -/
theorem f62_new_reduces (v : BitVec 64) : Rep (new v) ∧ val (new v) = v.toNat % F62.p := new_spec v

/-- `as_int` returns the canonical value (< p) of EVERY stored word, in range or not -/
theorem f62_as_int_canonical (x : BitVec 64) :
    (as_int x).toNat = val x ∧ (as_int x).toNat < F62.p :=
  ⟨as_int_spec x, by rw [as_int_spec]; exact val_lt x⟩

/-- the in-range words of value zero are exactly 0 and p -/
theorem f62_zero_words (x : BitVec 64) (hx : Rep x) : val x = 0 ↔ (x = 0#64 ∨ x = M) :=
  zero_words x hx

/-- both zeros read back as the integer 0 -/
theorem f62_as_int_zeros : as_int 0#64 = 0#64 ∧ as_int M = 0#64 := by decide

/-! ## §3 equality -/

/-- `impl PartialEq` (normalize both sides, compare words) decides equality of values on Rep words -/
theorem f62_eq_iff_values (a b : BitVec 64) (ha : Rep a) (hb : Rep b) :
    eq a b = true ↔ val a = val b := eq_spec a b ha hb

/-- the two zeros compare equal -/
theorem f62_eq_zeros : eq 0#64 M = true ∧ eq M 0#64 = true := by decide

/-- the Rep bound is needed: the word 2p has value 0 (and `as_int` 0) but is NOT `==` to 0 -/
theorem f62_eq_needs_rep :
    ¬ Rep (2#64 * M) ∧ val (2#64 * M) = val 0#64 ∧ as_int (2#64 * M) = as_int 0#64 ∧
      eq (2#64 * M) 0#64 = false := by
  refine ⟨by unfold Rep; decide, by decide, by decide, by decide⟩

/-! ## §4 normalize and Montgomery reduction -/

theorem f62_normalize (a : BitVec 64) (ha : Rep a) :
    (normalize a).toNat = a.toNat % F62.p ∧ (normalize a).toNat < F62.p ∧ val (normalize a) = val a :=
  normalize_spec a ha

/-- Montgomery reduction as implemented by `mul`: for the quotient digit q = (z mod 2^64)·U mod 2^64,
    z + q·p is divisible by 2^64, `mul a b` is the exact quotient and lies below 2p — for all
    a, b with a·b < 2^64·p, in particular (`f62_prod_bound`) for all words below 2p -/
theorem f62_mont_identity (a b : BitVec 64) (h : a.toNat * b.toNat < 2 ^ 64 * F62.p) :
    ∃ q, q < 2 ^ 64 ∧ (a.toNat * b.toNat + q * F62.p) % 2 ^ 64 = 0 ∧
      (mul a b).toNat * 2 ^ 64 = a.toNat * b.toNat + q * F62.p ∧ (mul a b).toNat < 2 * F62.p :=
  mul_mont a b h

theorem f62_prod_bound (a b : BitVec 64) (ha : Rep a) (hb : Rep b) :
    a.toNat * b.toNat < 2 ^ 64 * F62.p := prod_lt a b ha hb

/-- U = −p⁻¹ mod 2^64 and R2 = 2^128 mod p, as the source comments say -/
theorem f62_constants : (1 + U.toNat * F62.p) % 2 ^ 64 = 0 ∧ R2.toNat = 2 ^ 128 % F62.p := by
  rw [U_toNat]; exact ⟨U_spec, R2_toNat⟩

/-! ## §5 inv -/

/-- `inv` maps both words of zero to the word 0 -/
theorem f62_inv_zeros : inv 0#64 = 0#64 ∧ inv M = 0#64 := inv_zeros

/-- the result of `inv` is a word in [0, 2p), for EVERY 64-bit input -/
theorem f62_inv_rep (x : BitVec 64) : Rep (inv x) := inv_rep x

/-- `inv` computes the multiplicative inverse: for every in-range word of non-zero value,
    val (inv x) · val x ≡ 1 (mod p) -/
theorem f62_inv_exact (x : BitVec 64) (hx : Rep x) (hne : val x ≠ 0) :
    Rep (inv x) ∧ val (inv x) * val x % F62.p = 1 := inv_spec x hx hne

/-- hence `Div` (`mul a (inv b)`) is division: (a / b) · b = a on values, for b ≠ 0 -/
theorem f62_div_exact (a b : BitVec 64) (ha : Rep a) (hb : Rep b) (hne : val b ≠ 0) :
    Rep (mul a (inv b)) ∧ val (mul a (inv b)) * val b % F62.p = val a := div_spec a b ha hb hne

/-! ## non-vacuity -/

example : Rep (new 5#64) ∧ val (new 5#64) = 5 := by
  have := new_spec 5#64; exact ⟨this.1, by rw [this.2]; decide⟩
example : Rep M ∧ val M = 0 := by unfold Rep; decide
example : ¬ Rep (2#64 * M) := by unfold Rep; decide
example : val (add (new 4611624995532046336#64) (new 3#64)) = 2 := by decide
example : add (new 4611624995532046336#64) (new 1#64) = M := by decide
example : neg 0#64 = 0#64 ∧ neg M = M := by decide
example : (as_int (mul (new 7#64) (new 9#64))).toNat = 63 := by decide
example : val (mul (inv (new 7#64)) (new 7#64)) = 1 := by decide +kernel
example : val (mul (inv (add (new 7#64) M)) (new 7#64)) = 1 := by decide +kernel

end Wf.Props.C10F62
