/-
C26 — primitive encodings round-trip and reject malformed input.

Only property theorems (and their non-vacuity examples) live here; helper lemmas are in
`Wf/Lemmas/{Serde,Vint,Codec}.lean`, the model in `Wf/Model/Serde.lean`.
-/
import Wf.Lemmas.Codec
import Wf.Lemmas.DecMono
namespace Wf.Props.C26
open Wf

/-! ### size values: documented length, exact consumption, round trip -/

/-- `usize_encoded_len` is the documented vint64 length for every 64-bit value. -/
theorem usize_encoded_len_documented (v : Nat) (hv : v < 2 ^ 64) :
    usizeEncodedLen v = docLen v := usizeEncodedLen_eq_docLen v hv

/-- `write_usize` emits exactly `usize_encoded_len` bytes. -/
theorem write_usize_length (v : Nat) (hv : v < 2 ^ 64) :
    (writeUsize v).length = usizeEncodedLen v := writeUsize_length v hv

/-- every size value decodes from its own encoding, consuming exactly the encoded bytes. -/
theorem usize_roundtrip : RoundTrips Codec.usize (fun v => v < 2 ^ 64) :=
  fun v r hv => readUsize_writeUsize v r hv

/-- a decoded size value always fits the platform's `usize` (larger ones are an error, not a wrap). -/
theorem read_usize_fits (bs r : Bytes) (v : Nat) (h : readUsize bs = .ok v r) : v ≤ usizeMax := by
  unfold readUsize at h
  split at h
  · cases h
  · simp only [] at h
    split at h
    · split at h
      · split at h
        · split at h
          · cases h
          · injection h with h1 h2; subst h1; omega
        · cases h
        · cases h
      · cases h
      · cases h
    · split at h
      · split at h
        · cases h
        · injection h with h1 h2; subst h1; omega
      · cases h
      · cases h

/-! ### fixed-width integers and booleans -/

/-- `u8/u16/u32/u64/u128` (`n` = 1, 2, 4, 8, 16): little-endian round trip with exact consumption. -/
theorem int_roundtrip (n : Nat) : RoundTrips ⟨leBytes n, readLe n, n⟩ (fun v => v < 256 ^ n) :=
  fun v r hv => readLe_append n v r hv

/-- truncated fixed-width input is `UnexpectedEOF`. -/
theorem int_truncated (n : Nat) (bs : Bytes) (h : bs.length < n) : readLe n bs = .err .eof :=
  readLe_short n bs h

theorem bool_roundtrip : RoundTrips Codec.bool (fun _ => True) := by
  intro b r _
  cases b <;> simp [Codec.bool, writeBool, readBool, readU8, readLe, fromLe]

/-- any byte other than 0 or 1 is an `InvalidValue` for `read_bool`. -/
theorem bool_invalid (b : UInt8) (r : Bytes) (h0 : b ≠ 0) (h1 : b ≠ 1) :
    readBool (b :: r) = .err .invalid := by
  have hn0 : b.toNat ≠ 0 := fun h => h0 (UInt8.toNat_inj.mp (by simpa using h))
  have hn1 : b.toNat ≠ 1 := fun h => h1 (UInt8.toNat_inj.mp (by simpa using h))
  simp only [readBool, readU8, readLe, List.length_cons, fromLe, List.take_succ_cons, List.take_zero,
    List.drop_succ_cons, List.drop_zero, List.length_nil]
  have : ¬ (0 + 1 < 1) := by omega
  simp only [this, if_false, Nat.mul_zero, Nat.add_zero]

/-! ### combinators: the lifting theorem (one clause per `Serializable`/`Deserializable` impl) -/

theorem unit_roundtrip : RoundTrips Codec.unit (fun _ => True) := by
  intro x r _; cases x; rfl

theorem pair_roundtrip {α β} (a : Codec α) (b : Codec β) (va : α → Prop) (vb : β → Prop)
    (ha : RoundTrips a va) (hb : RoundTrips b vb) :
    RoundTrips (Codec.pair a b) (fun x => va x.1 ∧ vb x.2) := by
  intro x r hx
  simp only [Codec.pair, List.append_assoc]
  rw [ha x.1 _ hx.1]
  simp only []
  rw [hb x.2 _ hx.2]

theorem option_roundtrip {α} (a : Codec α) (va : α → Prop) (ha : RoundTrips a va) :
    RoundTrips (Codec.option a) (fun x => ∀ v, x = some v → va v) := by
  intro x r hx
  cases x with
  | none => simp [Codec.option, writeBool, readBool, readU8, readLe, fromLe]
  | some v =>
    have h1 : readBool (writeBool true ++ (a.enc v ++ r)) = .ok true (a.enc v ++ r) := by
      simp [writeBool, readBool, readU8, readLe, fromLe]
    simp only [Codec.option, List.append_assoc, h1]
    rw [ha v r (hx v rfl)]

/-- `[T; C]` -/
theorem array_roundtrip {α} (a : Codec α) (va : α → Prop) (ha : RoundTrips a va) (c : Nat) :
    RoundTrips (Codec.array a c) (fun xs => xs.length = c ∧ ∀ x ∈ xs, va x) := by
  intro xs r hx
  simp only [Codec.array]
  rw [← hx.1]
  exact readMany_roundtrip a va ha _ xs r hx.2

/-- `Vec<T>` (any length a `usize` can hold) -/
theorem vec_roundtrip {α} (a : Codec α) (va : α → Prop) (ha : RoundTrips a va) :
    RoundTrips (Codec.vec a) (fun xs => xs.length < 2 ^ 64 ∧ ∀ x ∈ xs, va x) := by
  intro xs r hx
  simp only [Codec.vec, List.append_assoc]
  rw [readUsize_writeUsize _ _ hx.1]
  exact readMany_roundtrip a va ha _ xs r hx.2

/-- `BTreeSet<T>` / `BTreeMap<K,V>`: the sorted entry list is reproduced. -/
theorem btree_roundtrip {α} (a : Codec α) (key : α → Nat) (va : α → Prop) (ha : RoundTrips a va) :
    RoundTrips (Codec.btree a key)
      (fun xs => xs.length < 2 ^ 64 ∧ (∀ x ∈ xs, va x) ∧ StrictSorted key xs) := by
  intro xs r hx
  have hv := vec_roundtrip a va ha xs r ⟨hx.1, hx.2.1⟩
  simp only [Codec.vec] at hv
  simp only [Codec.btree, Codec.vec, hv, fromIter_sorted key xs hx.2.2]

/-- `String`: every valid UTF-8 byte vector round-trips. -/
theorem string_roundtrip :
    RoundTrips Codec.string (fun s => s.length < 2 ^ 64 ∧ utf8Valid s = true) := by
  intro s r hx
  simp only [Codec.string, List.append_assoc]
  rw [readUsize_writeUsize _ _ hx.1]
  have hall : ∀ x ∈ s.map UInt8.toNat, x < 256 ^ 1 := by
    intro x hx'
    obtain ⟨b, _, rfl⟩ := List.mem_map.mp hx'
    simpa using b.toNat_lt
  have hm := readMany_roundtrip Codec.u8 _ (int_roundtrip 1) 1 (s.map UInt8.toNat) r hall
  rw [encMany_u8, List.length_map] at hm
  simp only [Codec.u8] at hm
  simp only [hm, map_ofNat_toNat, hx.2, if_true]

/-- invalid UTF-8 is reported as `InvalidValue`, never accepted and never a panic. -/
theorem string_invalid_utf8 (s r : Bytes) (hl : s.length < 2 ^ 64) (hu : utf8Valid s = false) :
    Codec.string.dec (writeUsize s.length ++ (s ++ r)) = .err .invalid := by
  simp only [Codec.string]
  rw [readUsize_writeUsize _ _ hl]
  have hall : ∀ x ∈ s.map UInt8.toNat, x < 256 ^ 1 := by
    intro x hx'
    obtain ⟨b, _, rfl⟩ := List.mem_map.mp hx'
    simpa using b.toNat_lt
  have hm := readMany_roundtrip Codec.u8 _ (int_roundtrip 1) 1 (s.map UInt8.toNat) r hall
  rw [encMany_u8, List.length_map] at hm
  simp only [Codec.u8] at hm
  simp only [hm, map_ofNat_toNat, hu]
  simp

/-! ### malformed input never panics and never triggers an oversized allocation

`Out.abort` models a Rust panic or an allocation abort (`read_many` pre-allocates
`readManyPrealloc n size` elements; more than `allocLimit` bytes aborts).  The theorems hold for
EVERY byte string, not only for corruptions of honest encodings. -/

theorem int_noAbort (n : Nat) : NoAbort (readLe n) := readLe_noAbort n
theorem bool_noAbort : NoAbort Codec.bool.dec := readBool_noAbort
theorem usize_noAbort : NoAbort Codec.usize.dec := readUsize_noAbort

theorem pair_noAbort {α β} (a : Codec α) (b : Codec β) (ha : NoAbort a.dec) (hb : NoAbort b.dec) :
    NoAbort (Codec.pair a b).dec := by
  intro bs h
  simp only [Codec.pair] at h
  split at h
  · split at h
    · cases h
    · cases h
    · rename_i h'; exact hb _ h'
  · cases h
  · rename_i h'; exact ha _ h'

theorem option_noAbort {α} (a : Codec α) (ha : NoAbort a.dec) : NoAbort (Codec.option a).dec := by
  intro bs h
  simp only [Codec.option] at h
  split at h
  · split at h
    · cases h
    · cases h
    · rename_i h'; exact ha _ h'
  · cases h
  · cases h
  · rename_i h'; exact readBool_noAbort _ h'

/-- `read_many` pre-allocates at most `maxPreallocBytes`, whatever count the input claims. -/
theorem read_many_prealloc_bounded (n size : Nat) :
    readManyPrealloc n size * size ≤ maxPreallocBytes ∧ readManyPrealloc n size ≤ n := by
  unfold readManyPrealloc maxPreallocBytes
  refine ⟨?_, Nat.min_le_left _ _⟩
  have h1 : min n (2 ^ 16 / max size 1) ≤ 2 ^ 16 / max size 1 := Nat.min_le_right _ _
  have h2 : 2 ^ 16 / max size 1 * size ≤ 2 ^ 16 := by
    by_cases hs : size = 0
    · subst hs; simp
    · have : max size 1 = size := by omega
      rw [this]; exact Nat.div_mul_le_self _ _
  exact Nat.le_trans (Nat.mul_le_mul_right _ h1) h2

theorem array_noAbort {α} (a : Codec α) (ha : NoAbort a.dec) (c : Nat) :
    NoAbort (Codec.array a c).dec := readMany_noAbort a.dec ha _ c

theorem vec_noAbort {α} (a : Codec α) (ha : NoAbort a.dec) : NoAbort (Codec.vec a).dec := by
  intro bs h
  simp only [Codec.vec] at h
  split at h
  · exact readMany_noAbort a.dec ha _ _ _ h
  · cases h
  · rename_i h'; exact readUsize_noAbort _ h'

theorem btree_noAbort {α} (a : Codec α) (key : α → Nat) (ha : NoAbort a.dec) :
    NoAbort (Codec.btree a key).dec := by
  intro bs h
  simp only [Codec.btree] at h
  split at h
  · cases h
  · cases h
  · rename_i h'; exact vec_noAbort a ha _ h'

theorem string_noAbort : NoAbort Codec.string.dec := by
  intro bs h
  simp only [Codec.string] at h
  split at h
  · split at h
    · split at h <;> cases h
    · cases h
    · rename_i h'; exact readMany_noAbort _ (readLe_noAbort 1) _ _ _ h'
  · cases h
  · rename_i h'; exact readUsize_noAbort _ h'

/-! ### non-vacuity: concrete values meeting the hypotheses, evaluated by the kernel -/

example : (2 ^ 56 : Nat) < 2 ^ 64 ∧ usizeEncodedLen (2 ^ 56) = 9 ∧ usizeEncodedLen (2 ^ 56 - 1) = 8 := by
  decide
example : Codec.usize.dec (Codec.usize.enc 16384 ++ [7]) = .ok 16384 [7] := by decide
example : StrictSorted (fun x : Nat => x) [1, 5, 9] := by simp [StrictSorted]
example : utf8Valid [0xe2, 0x82, 0xac] = true ∧ utf8Valid [0xed, 0xa0, 0x80] = false := by decide
example : (Codec.vec Codec.u16).dec ((Codec.vec Codec.u16).enc [1, 2, 300] ++ [9]) = .ok [1, 2, 300] [9] := by
  decide
/-- a 9-byte input claiming 2^61 eight-byte elements: an error, not an abort -/
example : (Codec.vec Codec.u64).dec (writeUsize (2 ^ 61) ++ [1, 2, 3]) = .err .eof := by decide

/-! ### decoders look only at what they consume; truncated encodings never decode to the value -/

theorem int_stable_under_append (n : Nat) : Mono (readLe n) := readLe_mono n
theorem bool_stable_under_append : Mono Codec.bool.dec := readBool_mono
theorem usize_stable_under_append : Mono Codec.usize.dec := readUsize_mono
theorem pair_stable_under_append {α β} (a : Codec α) (b : Codec β) (ha : Mono a.dec) (hb : Mono b.dec) :
    Mono (Codec.pair a b).dec := pair_mono a b ha hb
theorem array_stable_under_append {α} (a : Codec α) (ha : Mono a.dec) (c : Nat) :
    Mono (Codec.array a c).dec := readMany_mono a.size a.dec ha c
theorem vec_stable_under_append {α} (a : Codec α) (ha : Mono a.dec) : Mono (Codec.vec a).dec :=
  vec_mono a ha

/-- every strict prefix of a vint64 size encoding is rejected or decodes to another value -/
theorem usize_truncated (v : Nat) (hv : v < 2 ^ 64) (k : Nat) (hk : k < (writeUsize v).length)
    (r : Bytes) : readUsize ((writeUsize v).take k) ≠ .ok v r :=
  truncated_not_ok Codec.usize (fun v => v < 2 ^ 64) usize_roundtrip readUsize_mono v hv k hk r

/-- the same for any container built from round-tripping, append-stable element codecs:
    a truncated `Vec<T>` encoding never decodes to the vector it was cut from -/
theorem vec_truncated {α} (a : Codec α) (va' : List α → Prop) (hr : RoundTrips (Codec.vec a) va')
    (ha : Mono a.dec) (xs : List α) (hx : va' xs) (k : Nat) (hk : k < ((Codec.vec a).enc xs).length)
    (r : Bytes) : (Codec.vec a).dec (((Codec.vec a).enc xs).take k) ≠ .ok xs r :=
  truncated_not_ok (Codec.vec a) va' hr (vec_mono a ha) xs hx k hk r

example : readUsize ((writeUsize 300).take 1) ≠ .ok 300 [] := usize_truncated 300 (by decide) 1 (by decide) []

end Wf.Props.C26
