/-
C28 — trace and composition LDEs and row commitments match their definitions.

Model: `Wf/Model/Lde.lean` (`RowMatrix::evaluate_polys(_over)` through `get_evaluation_offsets`,
`build_segments`, `Segment::new`, `transpose`, `flatten`, `row`; `ColMatrix::interpolate_columns`;
the row digest of `commit_to_rows` and the verifier's `hash_row`; `PartitionOptions`), tied to the
real crates by the correspondence stream `c28`.  The FFT inside is C12's model `Wf/Model/Fft.lean`;
everything here is RELATIVE to C12's theorems (imported, not re-assumed).

  §1  structure (ANY field operations, no algebraic law): a column of a `Segment` and entry
      `(r, c)` of the row-major matrix are entry `r` of `evaluate_poly_with_offset` on column `c` —
      every column count, every extension degree, every segment width `N ≥ 1`, partial last segment
  §2  algebra (any commutative rings `B → E`, C12's hypotheses): `evaluate_polys(_over)` = `ldeSpec`,
      row `r`, column `c` = `poly_c(offset·g^r)` by Horner's rule
  §2b `StarkDomain::new`: accessors; `evaluate_columns_over` / `evaluate_polys_over` use the
      trace-to-LDE blowup (n·lde_blowup rows over the LDE coset), not the constraint-evaluation blowup
  §3  `interpolate_columns` interpolates; the LDE of the interpolant over the un-shifted domain
      contains the trace rows at the multiples of the blowup factor
  §4  row digests: prover = verifier for ALL hashers, rows, extension degrees and option values
      (also out-of-range ones), neither side panics; the partitions cover the row, each has at most
      `partition_size` columns, their number is `⌈cols / partition_size⌉ ≤ num_partitions`
  §5  non-vacuity
NOT covered by theorems: the `concurrent` feature (split-radix segment FFT, batched transposition,
`batch_iter_mut!`): correspondence only (serial build in `./check`).
-/
import Wf.Lemmas.LdeSpec
import Wf.Lemmas.LdeDomain
import Wf.Lemmas.LdeHash
import Wf.Props.C12
set_option linter.unusedSectionVars false
namespace Wf.Props.C28
open Wf Wf.Fft Wf.Lde Finset

/-! ## §1 the segment / transposition index theorem (any operations) -/

section structural
variable {B E : Type}

/-- `Segment::new(polys, poly_offset, offsets, twiddles)` on a `2^(K+1)`-row matrix with the offsets
of `get_evaluation_offsets(.., 2^(b+1), s)` and `2^K` twiddles: none of its asserts fires, it has one
row per LDE point, and for every FILLED column `k` (`k < N`, `poly_offset + k` a base column of the
matrix) the column of the segment IS the C12 model's `evaluate_poly_with_offset` of that base
column.  No law of the field operations is used: the array FFT is the scalar FFT column by column. -/
theorem segment_column_is_column_evaluation (c : Ctx B E) (x : ExtView B E) (N : Nat)
    (polys : ColMatrix E) (K b : Nat) (hn : numRows polys = 2 ^ (K + 1)) (s : B)
    (hs : c.b.beq s c.b.zero = false) (hta : K + 1 + (b + 1) ≤ c.twoAdicity)
    (offsets tws : Array B) (htws : tws.size = 2 ^ K)
    (hoff : getEvaluationOffsets c (numRows polys) (2 ^ (b + 1)) s = some offsets)
    (po : Nat) (hpo : po < numBaseCols x polys) :
    ∃ seg, segmentNew c x N polys po offsets tws = some seg ∧ seg.size = 2 ^ (K + 1 + (b + 1)) ∧
      ∀ k (_ : k < N), po + k < numBaseCols x polys →
        evaluatePolyWithOffset (baseCtx c) (baseCol c x polys (po + k)) tws s (2 ^ (b + 1)) =
          some (seg.map (fun v : Vector B N => v[k])) :=
  ⟨_, segmentNew_columns c x N polys K b hn s hs hta offsets tws htws hoff po hpo⟩

/-- The flat data of `evaluate_polys_over::<N>`: `data[r · row_width + j]` is entry `r` of
`evaluate_poly_with_offset` on base-field column `j`, for EVERY number of base columns (the last
segment may be partial: `row_width = ⌈cols/N⌉·N ≥ cols`) and every `N ≥ 1`. -/
theorem evaluate_polys_over_data_index (c : Ctx B E) (x : ExtView B E) (N : Nat) (hN : 0 < N)
    (hdeg : 0 < x.degree) (polys : ColMatrix E) (hne : polys ≠ [])
    (K b : Nat) (hall : ∀ p ∈ polys, p.size = 2 ^ (K + 1))
    (s : B) (hs : c.b.beq s c.b.zero = false) (hta : K + 1 + (b + 1) ≤ c.twoAdicity)
    (tws : Array B) (htws : tws.size = 2 ^ K) :
    ∃ m, evaluatePolysOver c x N polys ⟨tws, 2 ^ (b + 1), s⟩ = some m ∧
      m.rowWidth = numSegments N (numBaseCols x polys) * N ∧
      m.elementsPerRow = numBaseCols x polys ∧
      m.data.size = 2 ^ (K + 1 + (b + 1)) * m.rowWidth ∧
      ∀ j, j < numBaseCols x polys →
        ∃ col, evaluatePolyWithOffset (baseCtx c) (baseCol c x polys j) tws s (2 ^ (b + 1)) = some col ∧
          col.size = 2 ^ (K + 1 + (b + 1)) ∧
          ∀ r, r < 2 ^ (K + 1 + (b + 1)) →
            m.data.getD (r * m.rowWidth + j) c.b.zero = col.getD r c.b.zero :=
  evaluatePolysOver_index c x N hN hdeg polys hne K b hall s hs hta tws htws

/-- The matrix as `row()` / `get()` return it: element `c` of row `r` is entry `r` of
`evaluate_poly_with_offset` applied to column `c` (in `E`), provided the base-field coordinates of
`E` are additive and commute with `mul_base` (`ViewOk`; no field law otherwise). -/
theorem evaluate_polys_over_entry_is_column_evaluation (c : Ctx B E) (x : ExtView B E)
    (hv : ViewOk c x) (N : Nat) (hN : 0 < N) (polys : ColMatrix E) (hne : polys ≠ [])
    (K b : Nat) (hall : ∀ p ∈ polys, p.size = 2 ^ (K + 1))
    (s : B) (hs : c.b.beq s c.b.zero = false) (hta : K + 1 + (b + 1) ≤ c.twoAdicity)
    (tws : Array B) (htws : tws.size = 2 ^ K) :
    ∃ m, evaluatePolysOver c x N polys ⟨tws, 2 ^ (b + 1), s⟩ = some m ∧
      m.numRows = 2 ^ (K + 1 + (b + 1)) ∧ m.numCols x = polys.length ∧
      (∀ r, (m.rowAt x c.b.zero r).length = polys.length) ∧
      ∀ cc, cc < polys.length →
        ∃ col, evaluatePolyWithOffset c (polys.getD cc #[]) tws s (2 ^ (b + 1)) = some col ∧
          col.size = 2 ^ (K + 1 + (b + 1)) ∧
          ∀ r, r < 2 ^ (K + 1 + (b + 1)) →
            (m.rowAt x c.b.zero r).getD cc c.e.zero = col.getD r c.e.zero :=
  evaluatePolysOver_entries c x hv N hN polys hne K b hall s hs hta tws htws

/-- `evaluate_polys::<N>(polys, blowup)` is `evaluate_polys_over` on the domain
(`get_twiddles(num_rows)`, `blowup`, `GENERATOR`) -/
theorem evaluate_polys_is_evaluate_polys_over (c : Ctx B E) (x : ExtView B E) (N : Nat) (gen : B)
    (polys : ColMatrix E) (blowup : Nat) (tws : Array B)
    (htw : getTwiddles (baseCtx c) (numRows polys) = some tws) :
    evaluatePolys c x N gen polys blowup = evaluatePolysOver c x N polys ⟨tws, blowup, gen⟩ :=
  evaluatePolys_eq_over c x N gen polys blowup tws htw

end structural

/-! ## §2 the LDE is the Horner specification (relative to C12) -/

section ring
variable {B E : Type} [CommRing B] [CommRing E] [DecidableEq B] [DecidableEq E]
variable (φ : B →+* E) (invB : B → B) (invE : E → E) (root : Nat → B) (ta : Nat)

/-- `RowMatrix::evaluate_polys_over::<N>(polys, domain)` with `domain.trace_twiddles =
get_twiddles(n)`, `n = 2^(K+1)` rows, blowup `2^(b+1)`, offset `s ≠ 0`, over any commutative rings
`B → E` under C12's hypotheses on the roots (`root(K+1) = g^blowup`, `g^(N/2) = −1` for the LDE
generator `g`): the result exists, has `n·blowup` rows of `polys.len()` elements, equals `ldeSpec`
(Horner evaluation of column `c` at `s·g^r`), i.e. entry `(r, c) = Σ_j poly_c[j]·(s·g^r)^j`.
Any number of columns, any extension degree (`ViewOk`), any segment width `N ≥ 1`. -/
theorem evaluate_polys_over_eq_lde_spec (x : ExtView B E)
    (hv : ViewOk (ringCtx φ invB invE root ta) x) (N : Nat) (hN : 0 < N)
    (polys : ColMatrix E) (hne : polys ≠ []) (K b : Nat)
    (hall : ∀ p ∈ polys, p.size = 2 ^ (K + 1)) (s : B) (hs0 : s ≠ 0)
    (hta : K + 1 + (b + 1) ≤ ta)
    (hroot : root (K + 1) = root (K + 1 + (b + 1)) ^ 2 ^ (b + 1))
    (hG : φ (root (K + 1 + (b + 1))) ^ 2 ^ (K + (b + 1)) = -1) :
    ∃ tws m, getTwiddles (ringCtx φ invB invE root ta) (2 ^ (K + 1)) = some tws ∧
      evaluatePolysOver (ringCtx φ invB invE root ta) x N polys ⟨tws, 2 ^ (b + 1), s⟩ = some m ∧
      m.numRows = 2 ^ (K + 1 + (b + 1)) ∧ m.numCols x = polys.length ∧
      m.rows x 0 = ldeSpec (ringCtx φ invB invE root ta) polys s (2 ^ (b + 1)) ∧
      ∀ r cc, r < 2 ^ (K + 1 + (b + 1)) → cc < polys.length →
        (m.rowAt x 0 r).getD cc 0 =
          ∑ j ∈ range (2 ^ (K + 1)),
            (polys.getD cc #[]).getD j 0 * (φ s * φ (root (K + 1 + (b + 1))) ^ r) ^ j := by
  obtain ⟨tws, htw, htwsz, _⟩ := getTwiddles_spec φ invB invE root ta K (by omega)
  have hs : (ringCtx φ invB invE root ta).b.beq s (ringCtx φ invB invE root ta).b.zero = false := by
    show decide (s = 0) = false
    simp [hs0]
  obtain ⟨m, hm, hnr, hnc, hlen, hent⟩ := evaluatePolysOver_entries (ringCtx φ invB invE root ta) x hv
    N hN polys hne K b hall s hs hta tws htwsz
  -- the entries, through C12's theorem
  have hentry : ∀ r cc, r < 2 ^ (K + 1 + (b + 1)) → cc < polys.length →
      (m.rowAt x 0 r).getD cc 0 =
        ∑ j ∈ range (2 ^ (K + 1)),
          (polys.getD cc #[]).getD j 0 * (φ s * φ (root (K + 1 + (b + 1))) ^ r) ^ j := by
    intro r cc hr hcc
    obtain ⟨col, hcol, _, hget⟩ := hent cc hcc
    have hpsz : (polys.getD cc #[]).size = 2 ^ (K + 1) := by
      rw [List.getD_eq_getElem?_getD, List.getElem?_eq_getElem hcc]
      exact hall _ (List.getElem_mem hcc)
    obtain ⟨tws', r', h1, h2, _, h4⟩ := C12.evaluate_poly_with_offset_eq_coset_evaluations φ invB invE
      root ta K (b + 1) hta hroot hG (polys.getD cc #[]) hpsz s hs0
    rw [htw] at h1
    cases h1
    rw [hcol] at h2
    cases h2
    exact (hget r hr).trans (h4 r hr)
  refine ⟨tws, m, htw, hm, hnr, hnc, ?_, hentry⟩
  -- rows = ldeSpec
  have hnrows : numRows polys = 2 ^ (K + 1) := by
    obtain ⟨p0, rest, rfl⟩ := List.exists_cons_of_ne_nil hne
    simp [numRows, hall p0 (by simp)]
  unfold RowMatrix.rows ldeSpec
  rw [hnr, hnrows, ← pow_add, Nat.log2_two_pow]
  apply List.map_congr_left
  intro r hr
  have hr : r < 2 ^ (K + 1 + (b + 1)) := by simpa using hr
  apply List.ext_getElem
  · rw [List.length_map]; exact hlen r
  · intro cc h1 h2
    have hcc : cc < polys.length := by simpa using h2
    have := hentry r cc hr hcc
    rw [List.getD_eq_getElem?_getD, List.getElem?_eq_getElem h1, Option.getD_some] at this
    rw [this, List.getElem_map]
    show _ = Polynom.eval (ringOps E invE) polys[cc].toList (φ (s * root (K + 1 + (b + 1)) ^ r))
    rw [eval_eq_sum, map_mul, map_pow, Array.length_toList, hall _ (List.getElem_mem hcc)]
    refine sum_congr rfl fun j _ => ?_
    rw [List.getD_eq_getElem?_getD, List.getElem?_eq_getElem hcc, Option.getD_some]
    simp

/-- `RowMatrix::evaluate_polys::<N>(polys, blowup)` (twiddles from `get_twiddles`, offset
`GENERATOR ≠ 0`) = `ldeSpec polys GENERATOR blowup` -/
theorem evaluate_polys_eq_lde_spec (x : ExtView B E)
    (hv : ViewOk (ringCtx φ invB invE root ta) x) (N : Nat) (hN : 0 < N)
    (polys : ColMatrix E) (hne : polys ≠ []) (K b : Nat)
    (hall : ∀ p ∈ polys, p.size = 2 ^ (K + 1)) (gen : B) (hgen : gen ≠ 0)
    (hta : K + 1 + (b + 1) ≤ ta)
    (hroot : root (K + 1) = root (K + 1 + (b + 1)) ^ 2 ^ (b + 1))
    (hG : φ (root (K + 1 + (b + 1))) ^ 2 ^ (K + (b + 1)) = -1) :
    ∃ m, evaluatePolys (ringCtx φ invB invE root ta) x N gen polys (2 ^ (b + 1)) = some m ∧
      m.numRows = 2 ^ (K + 1 + (b + 1)) ∧ m.numCols x = polys.length ∧
      m.rows x 0 = ldeSpec (ringCtx φ invB invE root ta) polys gen (2 ^ (b + 1)) ∧
      ∀ r cc, r < 2 ^ (K + 1 + (b + 1)) → cc < polys.length →
        m.get x 0 cc r = some (∑ j ∈ range (2 ^ (K + 1)),
          (polys.getD cc #[]).getD j 0 * (φ gen * φ (root (K + 1 + (b + 1))) ^ r) ^ j) := by
  obtain ⟨tws, m, htw, hm, hnr, hnc, hrows, hent⟩ := evaluate_polys_over_eq_lde_spec φ invB invE root
    ta x hv N hN polys hne K b hall gen hgen hta hroot hG
  have hnrows : numRows polys = 2 ^ (K + 1) := by
    obtain ⟨p0, rest, rfl⟩ := List.exists_cons_of_ne_nil hne
    simp [numRows, hall p0 (by simp)]
  refine ⟨m, ?_, hnr, hnc, hrows, fun r cc hr hcc => ?_⟩
  · rw [evaluatePolys_eq_over _ x N gen polys _ tws (by rw [hnrows]; exact htw)]
    exact hm
  · unfold RowMatrix.get RowMatrix.row
    rw [hnr, if_pos hr, Option.bind_some, ← hent r cc hr hcc]
    have hlen : cc < (m.rowAt x 0 r).length := by
      have : (m.rowAt x 0 r).length = m.elementsPerRow / x.degree := by simp [RowMatrix.rowAt]
      have h2 : m.elementsPerRow / x.degree = polys.length := hnc
      omega
    rw [List.getD_eq_getElem?_getD, List.getElem?_eq_getElem hlen, Option.getD_some]

/-- `StarkDomain::new(air)` (trace length `2^(K+1)`, constraint-evaluation blowup `2^a`, LDE blowup
`2^b`, `1 ≤ a ≤ b`; any field operations): the accessors have their documented values, and the
domain data read by `evaluate_polys_over` / `evaluate_columns_over` is (`trace_twiddles`,
`trace_to_lde_blowup = 2^b`, `offset`) — the LDE blowup, which differs from `trace_to_ce_blowup =
2^a` whenever `a < b`. -/
theorem stark_domain_new_accessors {B E : Type} (c : Ctx B E) (K a b : Nat) (ha : 1 ≤ a)
    (hab : a ≤ b) (hta : K + 1 + a ≤ c.twoAdicity) (off : B) (tws : Array B)
    (htw : getTwiddles (baseCtx c) (2 ^ (K + 1)) = some tws) :
    ∃ d, starkDomainNew c (2 ^ (K + 1)) (2 ^ a) (2 ^ b) off = some d ∧
      d.toDomain = ⟨tws, 2 ^ b, off⟩ ∧ d.traceLength = 2 ^ (K + 1) ∧
      d.ceDomainSize = 2 ^ (K + 1 + a) ∧ d.ldeDomainSize = 2 ^ (K + 1 + b) ∧
      d.traceToCeBlowup = 2 ^ a ∧ d.traceToLdeBlowup = 2 ^ b ∧ d.ceToLdeBlowup = 2 ^ (b - a) ∧
      d.offset = off :=
  starkDomainNew_spec c K a b ha hab hta off tws htw

/-- `ColMatrix::evaluate_columns_over(domain)` for a domain with `trace_to_lde_blowup = 2^b`
(any `b ≥ 0`): one result column per polynomial, each with `n·2^b` entries — the LDE domain size —
entry `r` = `poly(s·g^r)` with `g` the generator of the LDE domain `root(K+1+b)` -/
theorem evaluate_columns_over_eq_coset_evaluations (polys : ColMatrix E) (K b : Nat)
    (hall : ∀ p ∈ polys, p.size = 2 ^ (K + 1)) (s : B) (hs0 : s ≠ 0) (hta : K + 1 + b ≤ ta)
    (hroot : root (K + 1) = root (K + 1 + b) ^ 2 ^ b)
    (hG : φ (root (K + 1 + b)) ^ 2 ^ (K + b) = -1) :
    ∃ tws cols, getTwiddles (ringCtx φ invB invE root ta) (2 ^ (K + 1)) = some tws ∧
      evaluateColumnsOver (ringCtx φ invB invE root ta) polys ⟨tws, 2 ^ b, s⟩ = some cols ∧
      cols.length = polys.length ∧
      ∀ cc, cc < polys.length → (cols.getD cc #[]).size = 2 ^ (K + 1 + b) ∧
        ∀ r, r < 2 ^ (K + 1 + b) →
          (cols.getD cc #[]).getD r 0 =
            ∑ j ∈ range (2 ^ (K + 1)),
              (polys.getD cc #[]).getD j 0 * (φ s * φ (root (K + 1 + b)) ^ r) ^ j := by
  obtain ⟨tws, htw, _, _⟩ := getTwiddles_spec φ invB invE root ta K (by omega)
  have hcol : ∀ (p : Array E), p.size = 2 ^ (K + 1) →
      ∃ r', evaluatePolyWithOffset (ringCtx φ invB invE root ta) p tws s (2 ^ b) = some r' ∧
        r'.size = 2 ^ (K + 1 + b) ∧ ∀ x, x < 2 ^ (K + 1 + b) → r'.getD x 0 =
          ∑ j ∈ range (2 ^ (K + 1)), p.getD j 0 * (φ s * φ (root (K + 1 + b)) ^ x) ^ j := by
    intro p hp
    obtain ⟨tws', r', h1, h2, h3, h4⟩ := C12.evaluate_poly_with_offset_eq_coset_evaluations φ invB invE
      root ta K b hta hroot hG p hp s hs0
    rw [htw] at h1
    cases h1
    exact ⟨r', h2, h3, h4⟩
  let g : Array E → Array E :=
    fun p => (evaluatePolyWithOffset (ringCtx φ invB invE root ta) p tws s (2 ^ b)).getD #[]
  refine ⟨tws, polys.map g, htw, ?_, by simp, fun cc hcc => ?_⟩
  · unfold evaluateColumnsOver
    apply mapM_eq_some_map
    intro p hp
    obtain ⟨r', h2, _⟩ := hcol p (hall p hp)
    simp only [g, h2, Option.getD_some]
  · obtain ⟨r', h2, h3, h4⟩ := hcol (polys)[cc] (hall _ (List.getElem_mem hcc))
    have hg : (polys.map g).getD cc #[] = r' := by
      rw [List.getD_eq_getElem?_getD, List.getElem?_map, List.getElem?_eq_getElem hcc]
      simp [g, h2]
    have hp : polys.getD cc #[] = (polys)[cc] := by
      rw [List.getD_eq_getElem?_getD, List.getElem?_eq_getElem hcc, Option.getD_some]
    rw [hg, hp]
    exact ⟨h3, h4⟩

/-- … in particular on `StarkDomain::new(air)` with constraint-evaluation blowup `2^a` smaller than
(or equal to) the LDE blowup `2^b`: `n·2^b` rows over the LDE coset (not `n·2^a`) -/
theorem evaluate_columns_over_stark_domain_uses_lde_blowup (polys : ColMatrix E) (K a b : Nat)
    (ha : 1 ≤ a) (hab : a ≤ b)
    (hall : ∀ p ∈ polys, p.size = 2 ^ (K + 1)) (s : B) (hs0 : s ≠ 0) (hta : K + 1 + b ≤ ta)
    (hroot : root (K + 1) = root (K + 1 + b) ^ 2 ^ b)
    (hG : φ (root (K + 1 + b)) ^ 2 ^ (K + b) = -1) :
    ∃ d cols, starkDomainNew (ringCtx φ invB invE root ta) (2 ^ (K + 1)) (2 ^ a) (2 ^ b) s = some d ∧
      d.traceToCeBlowup = 2 ^ a ∧ d.traceToLdeBlowup = 2 ^ b ∧
      evaluateColumnsOver (ringCtx φ invB invE root ta) polys d.toDomain = some cols ∧
      cols.length = polys.length ∧
      ∀ cc, cc < polys.length → (cols.getD cc #[]).size = 2 ^ (K + 1 + b) ∧
        ∀ r, r < 2 ^ (K + 1 + b) →
          (cols.getD cc #[]).getD r 0 =
            ∑ j ∈ range (2 ^ (K + 1)),
              (polys.getD cc #[]).getD j 0 * (φ s * φ (root (K + 1 + b)) ^ r) ^ j := by
  obtain ⟨tws, cols, htw, hcols, hlen, hspec⟩ := evaluate_columns_over_eq_coset_evaluations φ invB invE
    root ta polys K b hall s hs0 hta hroot hG
  obtain ⟨d, hd, hdom, _, _, _, hce, hlde, _, _⟩ := starkDomainNew_spec (ringCtx φ invB invE root ta)
    K a b ha hab (show K + 1 + a ≤ ta by omega) s tws htw
  exact ⟨d, cols, hd, hce, hlde, by rw [hdom]; exact hcols, hlen, hspec⟩

/-- `RowMatrix::evaluate_polys_over::<N>` on `StarkDomain::new(air)`: the LDE specification with the
LDE blowup `2^(b+1)`, whatever the constraint-evaluation blowup `2^a ≤ 2^(b+1)` is -/
theorem evaluate_polys_over_stark_domain_eq_lde_spec (x : ExtView B E)
    (hv : ViewOk (ringCtx φ invB invE root ta) x) (N : Nat) (hN : 0 < N)
    (polys : ColMatrix E) (hne : polys ≠ []) (K a b : Nat) (ha : 1 ≤ a) (hab : a ≤ b + 1)
    (hall : ∀ p ∈ polys, p.size = 2 ^ (K + 1)) (s : B) (hs0 : s ≠ 0)
    (hta : K + 1 + (b + 1) ≤ ta)
    (hroot : root (K + 1) = root (K + 1 + (b + 1)) ^ 2 ^ (b + 1))
    (hG : φ (root (K + 1 + (b + 1))) ^ 2 ^ (K + (b + 1)) = -1) :
    ∃ d m, starkDomainNew (ringCtx φ invB invE root ta) (2 ^ (K + 1)) (2 ^ a) (2 ^ (b + 1)) s = some d ∧
      evaluatePolysOver (ringCtx φ invB invE root ta) x N polys d.toDomain = some m ∧
      m.numRows = 2 ^ (K + 1 + (b + 1)) ∧ m.numCols x = polys.length ∧
      m.rows x 0 = ldeSpec (ringCtx φ invB invE root ta) polys s (2 ^ (b + 1)) := by
  obtain ⟨tws, m, htw, hm, hnr, hnc, hrows, _⟩ := evaluate_polys_over_eq_lde_spec φ invB invE root ta x
    hv N hN polys hne K b hall s hs0 hta hroot hG
  obtain ⟨d, hd, hdom, _⟩ := starkDomainNew_spec (ringCtx φ invB invE root ta)
    K a (b + 1) ha hab (show K + 1 + a ≤ ta by omega) s tws htw
  exact ⟨d, m, hd, by rw [hdom]; exact hm, hnr, hnc, hrows⟩

/-! ## §3 interpolation, then evaluation -/

/-- `ColMatrix::interpolate_columns` on a `2^(K+1)`-row trace (`< 2^32` rows, `n·inv(n) = 1`,
`W = root(K+1)` with `W^(n/2) = −1`): every column of the result has `n` coefficients and is THE
interpolant of the trace column: `Σ_j poly_c[j]·(W^i)^j = trace[i][c]` for every step `i`. -/
theorem interpolate_columns_interpolates (trace : ColMatrix E) (hne : trace ≠ []) (K : Nat)
    (hall : ∀ p ∈ trace, p.size = 2 ^ (K + 1)) (hta : K + 1 ≤ ta) (h31 : K + 1 ≤ 31)
    (hW : φ (root (K + 1)) ^ 2 ^ K = -1)
    (hNinv : ((2 ^ (K + 1) : ℕ) : E) * φ (invB ((2 ^ (K + 1) : ℕ) : B)) = 1) :
    ∃ polys, interpolateColumns (ringCtx φ invB invE root ta) trace = some polys ∧
      polys.length = trace.length ∧
      ∀ cc, cc < trace.length → (polys.getD cc #[]).size = 2 ^ (K + 1) ∧
        ∀ i, i < 2 ^ (K + 1) →
          ∑ j ∈ range (2 ^ (K + 1)), (polys.getD cc #[]).getD j 0 * (φ (root (K + 1)) ^ i) ^ j =
            (trace.getD cc #[]).getD i 0 := by
  obtain ⟨itws, hget, hisz, hitw⟩ := getInvTwiddles_spec φ invB invE root ta K hta (by omega)
  have hWN : φ (root (K + 1)) ^ 2 ^ (K + 1) = 1 := by rw [pow_succ, pow_mul, hW]; ring
  have hWV : φ (root (K + 1)) * φ (root (K + 1)) ^ (2 ^ (K + 1) - 1) = 1 := by
    rw [← pow_succ', Nat.sub_add_cancel Nat.one_le_two_pow, hWN]
  have hV := root_inv_half _ _ hWV K hW
  have hform := fun (e : Array E) (he : e.size = 2 ^ (K + 1)) =>
    interpolatePoly_formula φ invB invE root ta (φ (root (K + 1)) ^ (2 ^ (K + 1) - 1)) K hV itws hisz
      (fun i _ hi => by rw [hitw i hi, map_pow, map_pow]) e he hta h31
  have hnrows : numRows trace = 2 ^ (K + 1) := by
    obtain ⟨p0, rest, rfl⟩ := List.exists_cons_of_ne_nil hne
    simp [numRows, hall p0 (by simp)]
  let g : Array E → Array E :=
    fun col => (interpolatePoly (ringCtx φ invB invE root ta) col itws).getD #[]
  have hg : ∀ col ∈ trace, interpolatePoly (ringCtx φ invB invE root ta) col itws = some (g col) := by
    intro col hcol
    obtain ⟨r, hr, _⟩ := hform col (hall col hcol)
    simp only [g, hr, Option.getD_some]
  refine ⟨trace.map g, ?_, by simp, fun cc hcc => ?_⟩
  · unfold interpolateColumns
    rw [hnrows, hget]
    exact mapM_eq_some_map _ g trace hg
  · have hmem : (trace)[cc] ∈ trace := List.getElem_mem hcc
    obtain ⟨r, hr, hrsz, hrget⟩ := hform (trace)[cc] (hall _ hmem)
    have hgr : g (trace)[cc] = r := by simp only [g, hr, Option.getD_some]
    have hp : (trace.map g).getD cc #[] = r := by
      rw [List.getD_eq_getElem?_getD, List.getElem?_map, List.getElem?_eq_getElem hcc]
      simp [hgr]
    have ht : trace.getD cc #[] = (trace)[cc] := by
      rw [List.getD_eq_getElem?_getD, List.getElem?_eq_getElem hcc, Option.getD_some]
    rw [hp, ht]
    refine ⟨hrsz, fun i hi => ?_⟩
    rw [← dft_of_idft (φ (root (K + 1))) _ hWV K hW _ hNinv (fun y => (trace)[cc].getD y 0) i hi]
    refine sum_congr rfl fun l hl => ?_
    rw [hrget l (by simpa using hl), ← pow_mul, Nat.mul_comm i l]

/-- Interpolating the trace and extending the result over the UN-SHIFTED domain (offset `1`;
`evaluate_polys_over` with `StarkDomain::from_twiddles(get_twiddles(n), 2^(b+1), ONE)`) reproduces
the trace: row `i·blowup` of the LDE is row `i` of the trace.  (For the protocol's shifted domain
the LDE is, by `evaluate_polys_eq_lde_spec` and `interpolate_columns_interpolates`, the evaluation
at `s·g^r` of the unique interpolants; the trace itself is not part of it.) -/
theorem interpolate_then_evaluate_reproduces_trace (x : ExtView B E)
    (hv : ViewOk (ringCtx φ invB invE root ta) x) (N : Nat) (hN : 0 < N)
    (trace : ColMatrix E) (hne : trace ≠ []) (K b : Nat)
    (hall : ∀ p ∈ trace, p.size = 2 ^ (K + 1)) (hta : K + 1 + (b + 1) ≤ ta) (h31 : K + 1 ≤ 31)
    (h10 : (1 : B) ≠ 0)
    (hroot : root (K + 1) = root (K + 1 + (b + 1)) ^ 2 ^ (b + 1))
    (hG : φ (root (K + 1 + (b + 1))) ^ 2 ^ (K + (b + 1)) = -1)
    (hNinv : ((2 ^ (K + 1) : ℕ) : E) * φ (invB ((2 ^ (K + 1) : ℕ) : B)) = 1) :
    ∃ polys tws m, interpolateColumns (ringCtx φ invB invE root ta) trace = some polys ∧
      getTwiddles (ringCtx φ invB invE root ta) (2 ^ (K + 1)) = some tws ∧
      evaluatePolysOver (ringCtx φ invB invE root ta) x N polys ⟨tws, 2 ^ (b + 1), 1⟩ = some m ∧
      ∀ i, i < 2 ^ (K + 1) → m.row x 0 (i * 2 ^ (b + 1)) = some (colRow 0 trace i) := by
  have hW : φ (root (K + 1)) ^ 2 ^ K = -1 := by
    rw [hroot, map_pow, ← pow_mul, ← pow_add, Nat.add_comm (b + 1) K]; exact hG
  obtain ⟨polys, hpolys, hplen, hpspec⟩ := interpolate_columns_interpolates φ invB invE root ta trace
    hne K hall (by omega) h31 hW hNinv
  have hpne : polys ≠ [] := by
    intro h
    rw [h] at hplen
    exact hne (List.length_eq_zero_iff.mp hplen.symm)
  have hpall : ∀ p ∈ polys, p.size = 2 ^ (K + 1) := by
    intro p hp
    obtain ⟨cc, hcc, rfl⟩ := List.mem_iff_getElem.mp hp
    have := (hpspec cc (hplen ▸ hcc)).1
    rwa [List.getD_eq_getElem?_getD, List.getElem?_eq_getElem hcc, Option.getD_some] at this
  obtain ⟨tws, m, htw, hm, hnr, hnc, _, hent⟩ := evaluate_polys_over_eq_lde_spec φ invB invE root ta x
    hv N hN polys hpne K b hpall 1 h10 hta hroot hG
  refine ⟨polys, tws, m, hpolys, htw, hm, fun i hi => ?_⟩
  have hr : i * 2 ^ (b + 1) < 2 ^ (K + 1 + (b + 1)) := by
    have : 2 ^ (K + 1 + (b + 1)) = 2 ^ (K + 1) * 2 ^ (b + 1) := pow_add _ _ _
    rw [this]; exact Nat.mul_lt_mul_of_pos_right hi (Nat.two_pow_pos _)
  unfold RowMatrix.row
  rw [hnr, if_pos hr]
  congr 1
  have hlen : (m.rowAt x 0 (i * 2 ^ (b + 1))).length = polys.length := by
    have : (m.rowAt x 0 (i * 2 ^ (b + 1))).length = m.elementsPerRow / x.degree := by
      simp [RowMatrix.rowAt]
    rw [this]; exact hnc
  apply List.ext_getElem
  · rw [hlen, hplen]; simp [colRow]
  · intro cc h1 h2
    have hcc : cc < polys.length := hlen ▸ h1
    have hcct : cc < trace.length := hplen ▸ hcc
    have := hent (i * 2 ^ (b + 1)) cc hr hcc
    rw [List.getD_eq_getElem?_getD, List.getElem?_eq_getElem h1, Option.getD_some] at this
    rw [this]
    have hGW : φ (root (K + 1 + (b + 1))) ^ (i * 2 ^ (b + 1)) = φ (root (K + 1)) ^ i := by
      rw [hroot, map_pow, ← pow_mul, Nat.mul_comm]
    simp only [map_one, one_mul, hGW]
    rw [(hpspec cc hcct).2 i hi]
    simp only [colRow, List.getElem_map]
    rw [List.getD_eq_getElem?_getD, List.getElem?_eq_getElem hcct, Option.getD_some]

end ring

/-! ## §4 row digests and partitions -/

section hashing
variable {E D : Type}

/-- The prover's row digest (`RowMatrix::commit_to_rows`) equals the verifier's (`hash_row` with the
partition size `VerifierChannel::new` computes) for EVERY hasher, row, extension degree and option
values — including values `PartitionOptions::new` rejects — with equal panic behaviour. -/
theorem hash_row_prover_eq_verifier (H : RowHasher E D) (po : PartitionOptions) (degree : Nat)
    (row : List E) : hashRowProver H po degree row = hashRowVerifierAt H po degree row := by
  unfold hashRowProver hashRowVerifierAt hashRowVerifier numPartitions
  split
  · rfl
  · by_cases h0 : partitionSize po degree row.length = 0
    · simp [h0]
    · simp [h0]

/-- Neither side panics (`chunks(0)`, `div_ceil(0)` are unreachable), and the digest is
`hash_elements(row)` if the partition size equals the row length, otherwise `merge_many` of the
`hash_elements` of ALL chunks of `partition_size` columns (no `Digest::default()` is left in the
buffer). -/
theorem hash_row_value (H : RowHasher E D) (po : PartitionOptions) (degree : Nat) (row : List E) :
    hashRowProver H po degree row = some
      (if partitionSize po degree row.length = row.length then H.hashElements row
       else H.mergeMany ((chunks (partitionSize po degree row.length) row).map H.hashElements)) := by
  unfold hashRowProver numPartitions
  split
  · rfl
  · next hne =>
    have h0 : partitionSize po degree row.length ≠ 0 := by
      intro h
      have := partitionSize_eq_zero po degree row.length h
      exact hne (by rw [h, this])
    simp only [h0, if_false]
    rw [fillBuffer_full H _ _ (chunks_length _ (Nat.pos_of_ne_zero h0) row)]

/-- the commitment input: all row digests agree, hence so does every vector commitment built from
them -/
theorem row_hashes_prover_eq_verifier (H : RowHasher E D) (po : PartitionOptions) (degree : Nat)
    (rows : List (List E)) :
    rowHashes H po degree rows = rows.mapM (hashRowVerifierAt H po degree) := by
  unfold rowHashes
  congr 1
  funext row
  exact hash_row_prover_eq_verifier H po degree row

/-- The partitions of a non-empty row: concatenated they are the row (cover all columns, in order),
each is non-empty with at most `partition_size` columns, and there are exactly
`num_partitions::<E>(cols) = ⌈cols / partition_size⌉` of them. -/
theorem partitions_cover_row (po : PartitionOptions) (degree : Nat) (row : List E)
    (hrow : row ≠ []) :
    0 < partitionSize po degree row.length ∧
    (chunks (partitionSize po degree row.length) row).flatten = row ∧
    (∀ ch ∈ chunks (partitionSize po degree row.length) row,
      ch ≠ [] ∧ ch.length ≤ partitionSize po degree row.length) ∧
    numPartitions po degree row.length =
      some (chunks (partitionSize po degree row.length) row).length := by
  have hlen : 0 < row.length := List.length_pos_iff.mpr hrow
  have hps := partitionSize_pos po degree row.length hlen
  refine ⟨hps, chunks_flatten _ hps row, fun ch h => chunks_mem _ hps row ch h, ?_⟩
  unfold numPartitions
  rw [if_neg (by omega), chunks_length _ hps]

/-- `usize::div_ceil` is the ceiling: `div_ceil a b ≤ k ↔ a ≤ k·b` (`b > 0`) -/
theorem div_ceil_is_ceiling (a b k : Nat) (hb : 0 < b) : divCeil a b ≤ k ↔ a ≤ k * b :=
  divCeil_le_iff a b k hb

/-- For constructor-valid options the actual number of partitions never exceeds the requested
`num_partitions`, and with `num_partitions = 1` (the default) a row is hashed in one piece. -/
theorem num_partitions_le_requested (po : PartitionOptions) (hpo : po.valid) (degree n : Nat)
    (hn : 0 < n) :
    ∃ k, numPartitions po degree n = some k ∧ 1 ≤ k ∧ k ≤ po.numPartitions ∧
      (po.numPartitions = 1 → partitionSize po degree n = n ∧ k = 1) := by
  have hps := partitionSize_pos po degree n hn
  refine ⟨divCeil n (partitionSize po degree n), by unfold numPartitions; rw [if_neg (by omega)],
    ?_, ?_, ?_⟩
  · rcases Nat.eq_zero_or_pos (divCeil n (partitionSize po degree n)) with h | h
    · have := divCeil_eq_zero _ _ h; omega
    · exact h
  · rw [divCeil_le_iff _ _ _ hps]
    unfold partitionSize
    split
    · next h1 => rw [h1]; omega
    · have h1 : 0 < po.numPartitions := hpo.1
      calc n ≤ divCeil n po.numPartitions * po.numPartitions := le_divCeil_mul n _ h1
        _ = po.numPartitions * divCeil n po.numPartitions := Nat.mul_comm _ _
        _ ≤ po.numPartitions * max (divCeil n po.numPartitions) (po.hashRate / degree) :=
          Nat.mul_le_mul_left _ (Nat.le_max_left _ _)
  · intro h1
    have : partitionSize po degree n = n := by unfold partitionSize; rw [if_pos h1]
    exact ⟨this, by rw [this]; exact divCeil_small n n hn (Nat.le_refl _)⟩

end hashing

/-! ## §5 non-vacuity -/

/-- the hypotheses of §2/§3 are satisfiable: `ZMod 17`, `root n = 3^(2^(4−n))` (3 generates the
units), `K = 1`, `b = 0`: 4-row polynomials, blowup 2; `ViewOk` holds for the base field … -/
example : ViewOk (ringCtx (RingHom.id (ZMod 17)) (fun a => a ^ 15) (fun a => a ^ 15)
    (fun n => (3 : ZMod 17) ^ 2 ^ (4 - n)) 4) (ExtView.base 0) :=
  viewOk_base (fun a => a ^ 15) (fun n => (3 : ZMod 17) ^ 2 ^ (4 - n)) 4
example : (fun n => (3 : ZMod 17) ^ 2 ^ (4 - n)) (1 + 1) =
    (fun n => (3 : ZMod 17) ^ 2 ^ (4 - n)) (1 + 1 + (0 + 1)) ^ 2 ^ (0 + 1) := by decide
example : (RingHom.id (ZMod 17)) ((fun n => (3 : ZMod 17) ^ 2 ^ (4 - n)) (1 + 1 + (0 + 1))) ^
    2 ^ (1 + (0 + 1)) = -1 := by decide
example : (((2 ^ (1 + 1) : ℕ) : ZMod 17)) *
    (RingHom.id (ZMod 17)) ((fun a : ZMod 17 => a ^ 15) (((2 ^ (1 + 1) : ℕ) : ZMod 17))) = 1 := by
  decide

/-- … and for a degree-2 "extension" (`E = B × B`, `φ t = (t, t)`, coordinates = components) -/
example : ViewOk (ringCtx (RingHom.prod (RingHom.id (ZMod 17)) (RingHom.id (ZMod 17)))
    (fun a => a ^ 15) (fun a => a) (fun n => (3 : ZMod 17) ^ 2 ^ (4 - n)) 4)
    ⟨2, fun e => [e.1, e.2], fun l => (l.getD 0 0, l.getD 1 0)⟩ := by
  apply viewOk_of_ring
  · decide
  · intro e; rfl
  · intro e; rfl
  all_goals
    intros
    rename_i i hi
    have : i = 0 ∨ i = 1 := by simp at hi; omega
    rcases this with rfl | rfl <;> simp

/-- the executable model on `ZMod 17` (C12's `ctx17`): 3 columns of 4 coefficients, segment width
`N = 2` (so the second segment is partial), blowup 2, offset 3 = the rows of Horner values at
`3·9^r` -/
example : (evaluatePolys C12.ctx17 (ExtView.base 0) 2 3
      [#[1, 2, 3, 4], #[5, 0, 16, 2], #[0, 0, 0, 7]] 2).map (fun m => m.rows (ExtView.base 0) 0) =
    some ((List.range 8).map fun r =>
      [C12.horner17 [1, 2, 3, 4] (3 * 9 ^ r % 17), C12.horner17 [5, 0, 16, 2] (3 * 9 ^ r % 17),
       C12.horner17 [0, 0, 0, 7] (3 * 9 ^ r % 17)]) := by decide +kernel
example : (evaluatePolys C12.ctx17 (ExtView.base 0) 2 3
      [#[1, 2, 3, 4], #[5, 0, 16, 2], #[0, 0, 0, 7]] 2).map (fun m => (m.rowWidth, m.elementsPerRow)) =
    some (4, 3) := by decide +kernel
/-- the model's specification agrees on the same instance -/
example : ldeSpec C12.ctx17 [#[1, 2, 3, 4], #[5, 0, 16, 2]] 3 2 =
    (List.range 8).map fun r =>
      [C12.horner17 [1, 2, 3, 4] (3 * 9 ^ r % 17), C12.horner17 [5, 0, 16, 2] (3 * 9 ^ r % 17)] := by
  decide +kernel
/-- interpolation then evaluation over the un-shifted domain returns the trace rows at even rows -/
example : ((interpolateColumns C12.ctx17 [#[1, 2, 3, 4], #[9, 9, 0, 16]]).bind fun polys =>
      (getTwiddles C12.ctx17 4).bind fun tws =>
        (evaluatePolysOver C12.ctx17 (ExtView.base 0) 8 polys ⟨tws, 2, 1⟩).map fun m =>
          [m.row (ExtView.base 0) 0 0, m.row (ExtView.base 0) 0 2, m.row (ExtView.base 0) 0 4,
           m.row (ExtView.base 0) 0 6]) =
    some [some [1, 9], some [2, 9], some [3, 0], some [4, 16]] := by decide +kernel

/-- `StarkDomain::new` with constraint-evaluation blowup 2 and LDE blowup 4 on 4 rows: the
accessors, and `evaluate_columns_over` returns 16 (= 4·4, not 4·2) Horner values per column -/
example : (starkDomainNew C12.ctx17 4 2 4 3).map (fun d =>
    (d.traceToCeBlowup, d.traceToLdeBlowup, d.ldeDomainSize, d.ceDomainSize, d.toDomain.blowup)) =
    some (2, 4, 16, 8, 4) := by decide +kernel
example : (starkDomainNew C12.ctx17 4 2 4 3).bind (fun d =>
      evaluateColumnsOver C12.ctx17 [#[1, 2, 3, 4]] d.toDomain) =
    some [((List.range 16).map fun r => C12.horner17 [1, 2, 3, 4] (3 * 3 ^ r % 17)).toArray] := by
  decide +kernel

/-- row digests with a transparent "hasher" (`hash_elements` = the chunk, `merge_many` = the list of
chunks): 7 columns, options (4, 2): partition size `max(⌈7/4⌉, 2) = 2`, four partitions -/
example : hashRowProver (⟨fun l => [l], fun ds => ds.flatten, []⟩ : RowHasher Nat (List (List Nat)))
    ⟨4, 2⟩ 1 [1, 2, 3, 4, 5, 6, 7] = some [[1, 2], [3, 4], [5, 6], [7]] := by decide
example : hashRowVerifierAt (⟨fun l => [l], fun ds => ds.flatten, []⟩ : RowHasher Nat (List (List Nat)))
    ⟨4, 2⟩ 1 [1, 2, 3, 4, 5, 6, 7] = some [[1, 2], [3, 4], [5, 6], [7]] := by decide
/-- partition size larger than the row (3 columns, rate 8): ONE partition, but the digest is
`merge_many([hash_elements(row)])`, not `hash_elements(row)` -/
example : partitionSize ⟨2, 8⟩ 1 3 = 8 ∧ numPartitions ⟨2, 8⟩ 1 3 = some 1 := by decide
example : (⟨2, 8⟩ : PartitionOptions).valid := by refine ⟨?_, ?_, ?_, ?_⟩ <;> decide
/-- degree-2 extension columns: `min_partition_size = 8 / 2` -/
example : partitionSize ⟨4, 8⟩ 2 10 = 4 ∧ numPartitions ⟨4, 8⟩ 2 10 = some 3 := by decide

end Wf.Props.C28
