/-
C01 — honest proofs of satisfied AIR instances always verify (completeness side).

WHAT IS PROVED HERE, AND HOW IT IS TIED TO THE REAL PROVER/VERIFIER

Acceptance by the real `winter_prover::Prover::prove` + `winter_verifier::verify` is NOT derived
in Lean from a model of the whole pipeline.  It is tied to the statements below by CORRESPONDENCE:
the stream `c01` generates random satisfiable AIR instances (`harness/src/genair.rs`: a real
winterfell `Air` interpreting a textual description) crossed with fields, hashers, extension
degrees, batching methods, partitions, folding factors, remainder degrees, blowups, query counts
and grinding, runs the real prover and verifier in-process, and on EVERY instance requires
   implementation verdict  =  Lean ideal verdict (`idealVerdict`, executed by the driver)
                           =  verdict of the independent Rust checker `genair::satisfies`.
The theorems of this file say what the ideal verdict of that family is and why the prover's
quotients exist:

(1) `generated_trace_transitions` / `generated_trace_satisfies` / `honest_ideal_verdict_ok`:
    for every CONSISTENT description (constraint i = "next cell i − gen i", gen i mentioning
    next cells only below i: exactly what the generator emits), any modulus p > 0, any initial
    row, any length and any exemption count ≥ 1, the generated trace satisfies every transition
    constraint at every step that has a successor row; with claimed values read off the trace
    (single / sequence assertions) the statement is TRUE and the ideal verdict is `ok`.  So the
    premise of C01 ("the trace satisfies the AIR") is non-vacuous for the whole generator family.
(2) `vanishing_implies_divisible`, `quotient_degree`, `quotient_is_division`: over any field, a
    polynomial vanishing on a finite set S of distinct points is divisible by ∏_{a∈S}(X − a), the
    quotient has degree deg − |S| and is what division by the monic divisor returns: the
    composition polynomial the prover commits to EXISTS and has the committed degree.
(3) `satisfied_iff_constraint_polys_divisible`: over the prime field ZMod p, with trace column
    polynomials interpolating the trace on the domain {g^s} and periodic polynomials
    interpolating the periodic values, "all transition constraints hold on the non-exempt steps"
    (the description semantics used by the streams) IS "every constraint polynomial is divisible
    by the divisor of the non-exempt steps"; `honest_quotients_exist` composes (1)–(3).
(4) `ideal_verdict_iff` and monotonicity in the exemption count.

NOT proved (stays correspondence only): the transcript/Fiat–Shamir agreement of prover and
verifier, DEEP composition, FRI (C08), Merkle openings (C18), (de)serialisation (C07) as an
assembled end-to-end completeness theorem; boundary (assertion) quotients are covered by (2) with
S = asserted steps (C22 proves the boundary-constraint objects), not bridged to the description
semantics here; the auxiliary segment is outside the description semantics.
-/
import Wf.Lemmas.AirPoly
namespace Wf.Props.C01
open Wf.AirDesc Wf.AirPoly Wf.VanishDiv Polynomial

/-! ## (1) the generator family produces satisfying traces -/

/-- Every transition constraint of a consistent description evaluates to 0 at every step
`s < n − 1` of the generated trace (no overrides), for every modulus, initial row and length. -/
theorem generated_trace_transitions (p : Nat) (hp : 0 < p) (d : Desc) (hc : Consistent d) (n : Nat)
    (init : List Nat) (s : Nat) (hs : s + 1 < n) :
    transHoldsAt p d (buildTrace p d n init []) n s = true :=
  transHoldsAt_genRows p hp d hc n _ s hs

/-- … hence, for any exemption count ≥ 1, the statement holds as soon as the assertions do. -/
theorem generated_trace_satisfies (p : Nat) (hp : 0 < p) (d : Desc) (hc : Consistent d) (he : 1 ≤ d.exemptions)
    (n : Nat) (init : List Nat) (claimed : List (List Nat))
    (ha : ∀ x ∈ d.asserts.zip claimed, assertHolds p (buildTrace p d n init []) n x.1 x.2 = true) :
    satisfies p d (buildTrace p d n init []) n claimed = true := by
  rw [satisfies_iff]
  exact ⟨ha, fun s hs => generated_trace_transitions p hp d hc n init s (by omega)⟩

/-- With the claimed values READ OFF the generated trace (single and sequence assertions; the
periodic column values canonical), the ideal verdict of the honest instance is `ok`. -/
theorem honest_ideal_verdict_ok (p : Nat) (hp : 0 < p) (d : Desc) (hc : Consistent d) (he : 1 ≤ d.exemptions)
    (hper : ∀ col ∈ d.periodic, Reduced p col)
    (hk : ∀ a ∈ d.asserts, a.kind = 0 ∨ a.kind = 2) (n : Nat) (init : List Nat) :
    idealVerdict p d n init [] (d.asserts.map (readOff (buildTrace p d n init []) n)) = true := by
  unfold idealVerdict
  apply generated_trace_satisfies p hp d hc he
  have hred : ∀ r c, cell (buildTrace p d n init []) r c < p := by
    intro r c
    apply cell_genRows_lt p hp d hper
    intro x hx
    rw [List.mem_map] at hx
    obtain ⟨y, _, rfl⟩ := hx
    exact Nat.mod_lt _ hp
  intro x hx
  rw [List.zip_map_right] at hx
  rw [List.mem_map] at hx
  obtain ⟨⟨a, a'⟩, hm, rfl⟩ := hx
  have hz := List.of_mem_zip hm
  have : a = a' := by
    have := List.mem_iff_getElem.1 hm
    obtain ⟨i, hi, he⟩ := this
    rw [List.getElem_zip] at he
    have := congrArg Prod.fst he
    have h2 := congrArg Prod.snd he
    simp only at this h2
    rw [← this, ← h2]
  subst this
  exact assertHolds_readOff p _ n a (hk a hz.1) hred

/-- The hypothesis `Consistent` is decidable by the executable check `consistentB`, which the
model driver runs on EVERY instance of the stream `c29` (same generator as `c01`/`c02`): an
instance outside the family would be answered `inconsistent-desc` and show up as a disagreement. -/
theorem consistency_check_sound (d : Desc) (h : consistentB d = true) : Consistent d :=
  consistentB_sound d h

/-! ## (2) quotients exist (any commutative domain / field `K`) -/

/-- A polynomial vanishing on a finite set `S` of distinct points is divisible by
`Z_S = ∏_{a∈S}(X − a)`, and conversely. -/
theorem vanishing_implies_divisible {K : Type} [CommRing K] [IsDomain K] (S : Finset K) (P : K[X]) :
    (∀ a ∈ S, P.eval a = 0) ↔ Z S ∣ P :=
  (Z_dvd_iff S P).symm

/-- Degree bookkeeping: the quotient has degree `deg P − |S|` (and `|S| ≤ deg P`) when `P ≠ 0`. -/
theorem quotient_degree {K : Type} [CommRing K] [IsDomain K] (S : Finset K) (P : K[X]) (hP : P ≠ 0)
    (h : ∀ a ∈ S, P.eval a = 0) :
    ∃ H : K[X], P = Z S * H ∧ H ≠ 0 ∧ H.natDegree = P.natDegree - S.card ∧ S.card ≤ P.natDegree :=
  quotient_exists S P hP h

/-- The quotient is the result of dividing by the monic divisor (what the prover computes on the
evaluation domain), also for `P = 0`. -/
theorem quotient_is_division {K : Type} [CommRing K] [IsDomain K] (S : Finset K) (P : K[X])
    (h : ∀ a ∈ S, P.eval a = 0) :
    P = Z S * (P /ₘ Z S) ∧ (P /ₘ Z S).natDegree = P.natDegree - S.card :=
  divByMonic_quotient S P h

/-- The divisor has exactly `|S|` as degree and vanishes exactly on `S`. -/
theorem divisor_facts {K : Type} [CommRing K] [IsDomain K] (S : Finset K) :
    (Z S).Monic ∧ (Z S).natDegree = S.card ∧ ∀ z, (Z S).eval z = 0 ↔ z ∈ S := by
  refine ⟨Z_monic S, Z_natDegree S, fun z => ⟨?_, fun h => Z_eval_eq_zero S h⟩⟩
  intro h
  by_contra hz
  exact Z_eval_ne_zero S hz h

/-! ## (3) the description semantics is divisibility of the constraint polynomials -/

/-- Over `ZMod p` (p prime): column polynomials `T i` interpolating the trace columns over the
domain `{g^s | s < n}` (`g^n = 1`), periodic polynomials `Q i` interpolating the periodic values.
All transition constraints hold on the steps `0 .. m−1` IFF every constraint polynomial
`exPoly T g Q t.ex` (cells ↦ `T i`, next cells ↦ `T i (g·X)`, periodic ↦ `Q i`) is divisible by the
divisor of the domain points of those steps. -/
theorem satisfied_iff_constraint_polys_divisible (p : Nat) [Fact p.Prime] (d : Desc) (rows : List (List Nat))
    (n : Nat) (g : ZMod p) (hg : g ^ n = 1) (T Q : Nat → (ZMod p)[X])
    (hT : ∀ i s, s < n → (T i).eval (g ^ s) = (((rows.getD s []).getD i 0 : Nat) : ZMod p))
    (hQ : ∀ i s, s < n → (Q i).eval (g ^ s) = (((perAt d s).getD i 0 : Nat) : ZMod p))
    (hred : ∀ t ∈ d.trans, topReduced t.ex) (m : Nat) (hm : m ≤ n) :
    (∀ s, s < m → transHoldsAt p d rows n s = true)
      ↔ ∀ t ∈ d.trans, Z (domainPts g m) ∣ exPoly T g Q t.ex :=
  transitions_iff_divisible p d rows n g hg T Q hT hQ hred m hm

theorem consistent_topReduced (d : Desc) (hc : Consistent d) : ∀ t ∈ d.trans, topReduced t.ex := by
  intro t ht
  obtain ⟨i, hi, rfl⟩ := List.getElem_of_mem ht
  have hig : i < d.gen.length := by rw [hc.gen_len, ← hc.trans_len]; exact hi
  rw [hc.trans_eq i hi hig]
  trivial

/-- (1)–(3) composed: for a consistent description and its generated trace, every transition
constraint polynomial has a quotient by the divisor of the non-exempt steps (`m = n − exemptions`,
any exemption count ≥ 1), of degree `deg − #points` when the constraint polynomial is non-zero. -/
theorem honest_quotients_exist (p : Nat) [Fact p.Prime] (d : Desc) (hc : Consistent d) (he : 1 ≤ d.exemptions)
    (n : Nat) (init : List Nat) (g : ZMod p) (hg : g ^ n = 1) (T Q : Nat → (ZMod p)[X])
    (hT : ∀ i s, s < n →
      (T i).eval (g ^ s) = ((((buildTrace p d n init []).getD s []).getD i 0 : Nat) : ZMod p))
    (hQ : ∀ i s, s < n → (Q i).eval (g ^ s) = (((perAt d s).getD i 0 : Nat) : ZMod p))
    (t : Trans) (ht : t ∈ d.trans) :
    ∃ H : (ZMod p)[X], exPoly T g Q t.ex = Z (domainPts g (n - d.exemptions)) * H ∧
      (exPoly T g Q t.ex ≠ 0 →
        H.natDegree = (exPoly T g Q t.ex).natDegree - (domainPts g (n - d.exemptions)).card) := by
  have hp : 0 < p := (Fact.out : p.Prime).pos
  have hdiv := (transitions_iff_divisible p d _ n g hg T Q hT hQ (consistent_topReduced d hc)
    (n - d.exemptions) (Nat.sub_le _ _)).1
    (fun s hs => generated_trace_transitions p hp d hc n init s (by omega)) t ht
  have hv := (Z_dvd_iff _ _).1 hdiv
  refine ⟨exPoly T g Q t.ex /ₘ Z (domainPts g (n - d.exemptions)), (divByMonic_quotient _ _ hv).1, ?_⟩
  intro _
  exact (divByMonic_quotient _ _ hv).2

/-! ## (4) the ideal verdict -/

/-- The ideal verdict accepts exactly the true statements (by definition). -/
theorem ideal_verdict_iff (p : Nat) (d : Desc) (n : Nat) (init : List Nat) (overrides : List (Nat × Nat × Nat))
    (claimed : List (List Nat)) :
    idealVerdict p d n init overrides claimed = true
      ↔ satisfies p d (buildTrace p d n init overrides) n claimed = true := Iff.rfl

/-- … i.e. iff every assertion holds and every transition constraint vanishes on every non-exempt
step of the (possibly corrupted) trace. -/
theorem ideal_verdict_unfolded (p : Nat) (d : Desc) (n : Nat) (init : List Nat)
    (overrides : List (Nat × Nat × Nat)) (claimed : List (List Nat)) :
    idealVerdict p d n init overrides claimed = true ↔
      (∀ x ∈ d.asserts.zip claimed, assertHolds p (buildTrace p d n init overrides) n x.1 x.2 = true) ∧
      (∀ step, step < n - d.exemptions → transHoldsAt p d (buildTrace p d n init overrides) n step = true) :=
  satisfies_iff p d _ n claimed

/-- Declaring more exemptions never invalidates a true statement. -/
theorem satisfies_mono_exemptions (p : Nat) (d : Desc) (rows : List (List Nat)) (n : Nat)
    (claimed : List (List Nat)) (e' : Nat) (he : d.exemptions ≤ e')
    (h : satisfies p d rows n claimed = true) :
    satisfies p { d with exemptions := e' } rows n claimed = true :=
  AirDesc.satisfies_mono_exemptions p d rows n claimed e' he h

/-! ## non-vacuity -/

-- the concrete 2-column description of `Wf/Lemmas/AirDesc.lean` is consistent …
example : Consistent exDesc := exDesc_consistent
example : consistentB exDesc = true := by decide
-- … its honest instance is accepted by the ideal verdict (claimed values read off the trace) …
example : (exDesc.asserts.map (readOff (buildTrace 97 exDesc 8 [1, 1] []) 8)) = [[1], [30]] := by decide
example : idealVerdict 97 exDesc 8 [1, 1] [] [[1], [30]] = true := by decide
-- … as `honest_ideal_verdict_ok` says (all hypotheses are satisfiable)
example : idealVerdict 97 exDesc 8 [1, 1] [] (exDesc.asserts.map (readOff (buildTrace 97 exDesc 8 [1, 1] []) 8)) = true :=
  honest_ideal_verdict_ok 97 (by decide) exDesc exDesc_consistent (by decide)
    (by intro col hc x hx
        simp only [exDesc, List.mem_singleton] at hc
        subst hc
        simp only [List.mem_cons, List.not_mem_nil, or_false] at hx
        omega)
    (by decide) 8 [1, 1]
-- divisibility: X² − 1 vanishes on {1, −1} (over ℤ), hence is divisible by (X − 1)(X + 1)
example : Z ({1, -1} : Finset ℤ) ∣ (X ^ 2 - 1 : ℤ[X]) := by
  rw [Z_dvd_iff]
  intro a ha
  simp only [Finset.mem_insert, Finset.mem_singleton] at ha
  rcases ha with rfl | rfl <;> simp

end Wf.Props.C01
