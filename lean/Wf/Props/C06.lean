/-
C06 — proof bytes are independent of threading and build features.

The runtime (rayon's scheduler, the `find_any` nonce search, data races through `unsafe` aliasing)
cannot be exhibited by a Lean model.  What IS logic is the work-splitting bookkeeping, proved for
every length and every thread count in the properties that own the code:
  * C14 `chunk_plan_partitions` / `batch_iter_thread_independent`: `batch_iter_mut!` splits a slice
    into consecutive chunks that partition it, and any closure that writes "its window of a fixed
    vector" yields that vector for every thread count;
  * C12: the FFT index schedule; C18: the Merkle subtree schedule (see those files).
This file states the protocol-level consequence for the one schedule-dependent value, the
proof-of-work nonce, on the transcript model: everything absorbed before the nonce is used is
independent of it, so context, commitments and out-of-domain frame cannot depend on which valid
nonce a parallel search returns.  Byte equality across builds/thread counts is exercised by the
cross-build stream `c06` (serial build vs `concurrent` build under RAYON_NUM_THREADS ∈ {1,2,16}).
-/
import Wf.Props.C03
namespace Wf.Props.C06
open Wf.Transcript

/-- the nonce enters the transcript only in the last two events (proof-of-work check, position
    draw): the prefix — all commitments and all challenges derived from them — is the same list
    whatever nonce is chosen -/
theorem nonce_only_affects_position_draw (aux : Bool) (lde b f rd q : Nat) :
    ∃ pre : List Ev, verifierTranscript aux lde b f rd q = pre ++ [.checkPow, .drawPositions q lde] ∧
      .checkPow ∉ pre ∧ ∀ n d, .drawPositions n d ∉ pre := by
  refine ⟨_, rfl, ?_, ?_⟩
  · intro h
    simp only [List.mem_append, List.mem_cons, List.mem_singleton, List.not_mem_nil, or_false] at h
    rcases h with ((h | h) | h) | h
    · cases h
    · cases aux <;> simp at h
    · simp at h
    · rcases Wf.Props.C03.friEvents_mem _ _ _ h with h' | ⟨j, _, _, h'⟩ <;> cases h'
  · intro n d h
    simp only [List.mem_append, List.mem_cons, List.mem_singleton, List.not_mem_nil, or_false] at h
    rcases h with ((h | h) | h) | h
    · cases h
    · cases aux <;> simp at h
    · simp at h
    · rcases Wf.Props.C03.friEvents_mem _ _ _ h with h' | ⟨j, _, _, h'⟩ <;> cases h'

end Wf.Props.C06
