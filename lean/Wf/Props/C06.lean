/-
C06 — proof bytes are independent of threading and build features.

The runtime (rayon's scheduler, the `find_any` nonce search, data races through `unsafe` aliasing)
cannot be exhibited by a Lean model.  What IS logic is the work-splitting bookkeeping.  It is
proved here for EVERY length, thread count and parameter the code admits, on the model
`Wf/Model/ParBook.lean` (tied to the real `batch_iter_mut!` inside rayon pools of explicit sizes and
to the real `DefaultConstraintEvaluator::evaluate` observed through a probing `TraceLde`/`Air` by
the stream `c06b`):
  §1  the proof-of-work nonce (the one value a parallel search may legitimately change) only enters
      the last two transcript events;
  §2  `batch_iter_mut!` (both arms): the batches partition `0..len`, offsets `i·batch_size`; a closure
      that only uses `batch_offset + i` is insensitive to the plan (even to an un-rounded one);
  §3  `acc_column` looks the divisor inverse up with the batch-LOCAL index `z[i % z.len()]`: for a
      power-of-two slice and a power-of-two table not longer than the minimum batch size, the
      rounding `threads.next_power_of_two()` makes every batch offset a multiple of `z.len()`, so the
      parallel result is the serial one; WITHOUT the rounding it is not (counterexamples);
  §4  `ConstraintEvaluationTable::fragments` / `evaluate`: the fragments partition the table,
      `fragment.offset() + i` enumerates the global steps in order, so trace-frame, domain-point
      and periodic-table lookups do not depend on the number of fragments; the fragment-LOCAL
      index agrees iff the fragment length is a multiple of the table length (counterexample);
  §5  thread-independence results of the properties that own the code, restated (C14 batch
      inversion / power series / offset-homomorphic closures, C29 trace-table fragments in any
      order).  C12 (FFT), C18 (Merkle), C28 (LDE) model the serial code only: their concurrent
      paths are compared by their own cross-build streams, there is no theorem to restate.
Byte equality of whole proofs across builds/thread counts is exercised by the cross-build stream
`c06` (serial build vs `concurrent` build under RAYON_NUM_THREADS ∈ {2,3,5,16}, thorough also
{1,6,7,12}).
-/
import Wf.Props.C03
import Wf.Props.C14
import Wf.Props.C29
import Wf.Lemmas.ParBook
namespace Wf.Props.C06
open Wf.Transcript Wf.ParBook

/-! ## §1 the nonce -/

/-- the nonce enters the transcript only in the last two events (proof-of-work check, position
    draw): the prefix — all commitments and all challenges derived from them — is the same list
    whatever nonce is chosen -/
theorem nonce_only_affects_position_draw (aux : Bool) (lde b f rd q : Nat) :
    ∃ pre : List Ev, verifierTranscript aux lde b f rd q = pre ++ [.checkPow, .drawPositions q lde] ∧
      .checkPow ∉ pre ∧ ∀ n d, .drawPositions n d ∉ pre := by
  refine ⟨_, rfl, ?_, ?_⟩
  · intro h
    simp only [List.mem_append, List.mem_cons, List.not_mem_nil, or_false] at h
    rcases h with ((h | h) | h) | h
    · cases h
    · cases aux <;> simp at h
    · simp at h
    · rcases Wf.Props.C03.friEvents_mem _ _ _ h with h' | ⟨j, _, _, h'⟩ <;> cases h'
  · intro n d h
    simp only [List.mem_append, List.mem_cons, List.not_mem_nil, or_false] at h
    rcases h with ((h | h) | h) | h
    · cases h
    · cases aux <;> simp at h
    · simp at h
    · rcases Wf.Props.C03.friEvents_mem _ _ _ h with h' | ⟨j, _, _, h'⟩ <;> cases h'

/-! ## §2 `batch_iter_mut!` -/

/-- Three-argument arm, `concurrent` build: for EVERY length, thread count and minimum batch size
≥ 1 the macro does not panic; batch `k` is `(k·B, min B (len − k·B))` for one width `B`; walking
the batches in order and adding the local index to the batch offset enumerates `0, 1, .., len−1`;
every index of the slice is handed out in exactly one batch. -/
theorem batch_iter_mut_partitions (len threads minBatch : Nat) (hmin : 0 < minBatch) :
    ∃ cs B, batchIterMut3 len threads minBatch = some cs ∧
      (∀ k (h : k < cs.length), cs[k] = (k * B, min B (len - k * B))) ∧
      runGlobal id cs = List.range len ∧
      (∀ g, g < len → ∃ k, k < cs.length ∧ ∀ j (h : j < cs.length), InBatch cs[j] g ↔ j = k) := by
  obtain ⟨B, n, hp, hcov, _⟩ := planWith_pieces (batchSize len threads) len minBatch hmin
  refine ⟨pieces B len n, B, hp, fun k h => pieces_getElem B len n k h, ?_, ?_⟩
  · rw [runGlobal_pieces_cover _ _ _ _ hcov, List.map_id]
  · intro g hg
    obtain ⟨h1, h2⟩ := pieces_unique B len n g hcov hg
    refine ⟨g / B, by simpa using h1, fun j h => ?_⟩
    rw [pieces_getElem]
    exact h2 j (by simpa using h)

/-- Two-argument arm (`batch_size < 1` test): the same, no side condition at all. -/
theorem batch_iter_mut2_partitions (len threads : Nat) :
    ∃ cs B, batchIterMut2 len threads = some cs ∧
      (∀ k (h : k < cs.length), cs[k] = (k * B, min B (len - k * B))) ∧
      runGlobal id cs = List.range len ∧
      (∀ g, g < len → ∃ k, k < cs.length ∧ ∀ j (h : j < cs.length), InBatch cs[j] g ↔ j = k) :=
  batch_iter_mut_partitions len threads 1 (by decide)

/-- The serial build is the one-thread plan (one batch at offset 0), for every minimum batch size ≥ 1. -/
theorem serial_plan_is_one_thread_plan (len minBatch : Nat) (hmin : 0 < minBatch) :
    batchPlan false len 1 minBatch = batchPlan true len 1 minBatch := by
  show some [(0, len)] = planWith (len / Nat.nextPowerOfTwo 1) len minBatch
  have h1 : Nat.nextPowerOfTwo 1 = 1 := by decide +kernel
  rw [h1, Nat.div_one]
  by_cases h : len < minBatch
  · rw [planWith_small h, ← single_eq_pieces]
  · have hl : len ≠ 0 := by omega
    rw [planWith_big h hl]
    have : (len + len - 1) / len = 1 := by
      apply Nat.div_eq_of_lt_le <;> omega
    rw [this, ← single_eq_pieces]

/-- A closure that addresses its data with `batch_offset + i` only (`get_inv_evaluation`,
`fill_power_series`, the column and the domain point in `acc_column`) writes the same slice under
every thread count. -/
theorem global_index_closure_thread_independent {α : Type} (f : Nat → α) (len threads minBatch : Nat)
    (hmin : 0 < minBatch) :
    ∃ cs, batchIterMut3 len threads minBatch = some cs ∧ runGlobal f cs = (List.range len).map f := by
  obtain ⟨B, n, hp, hcov, _⟩ := planWith_pieces (batchSize len threads) len minBatch hmin
  exact ⟨_, hp, runGlobal_pieces_cover f B len n hcov⟩

/-- … and would do so even if the batch size were computed WITHOUT the power-of-two rounding (the
first seeded defect is invisible to these callers). -/
theorem global_index_closure_insensitive_to_rounding {α : Type} (f : Nat → α)
    (len threads minBatch : Nat) (hmin : 0 < minBatch) (ht : threads ≠ 0) :
    ∃ cs, planNoRounding len threads minBatch = some cs ∧ runGlobal f cs = (List.range len).map f := by
  obtain ⟨B, n, hp, hcov, _⟩ := planWith_pieces (len / threads) len minBatch hmin
  refine ⟨_, ?_, runGlobal_pieces_cover f B len n hcov⟩
  unfold planNoRounding
  rw [if_neg ht, hp]

/-- `get_inv_evaluation`: the constraint-evaluation-domain indexes read for the `ce/a` divisor
evaluations are `g·a mod ce`, `g = 0, 1, ..`, for every thread count. -/
theorem inv_evaluation_thread_independent (ceSize a threads : Nat) (ha : a ≠ 0) :
    invEvaluation ceSize a threads
      = some ((List.range (ceSize / a)).map (fun g => ceXPowerIndex ceSize g a)) := by
  obtain ⟨cs, h1, h2⟩ := global_index_closure_thread_independent
    (fun g => ceXPowerIndex ceSize g a) (ceSize / a) threads 128 (by decide)
  unfold invEvaluation
  rw [if_neg ha, h1]
  exact congrArg some h2

/-! ## §3 `acc_column`: batch-local index into the divisor-inverse table -/

/-- KEY identity.  Slice length `2^L` (the constraint evaluation domain), table length `2^j` not
above the minimum batch size: in every batch of the rounded plan, for every local index `i`,
`(batch_offset + i) % z.len() = i % z.len()` — every thread count, every `L`. -/
theorem batch_local_index_eq_global_mod (L j threads minBatch : Nat) (hz : 2 ^ j ≤ minBatch)
    (cs : List (Nat × Nat)) (h : batchIterMut3 (2 ^ L) threads minBatch = some cs) :
    ∀ b ∈ cs, ∀ i, (b.1 + i) % 2 ^ j = i % 2 ^ j :=
  fun b hb i => add_mod_of_dvd (offsets_divisible L threads minBatch j hz cs h b hb) i

/-- The same identity under the weaker side condition "the table is not longer than the batch size"
(`z.len() ≤ batch_size`; nothing is needed when the slice is handed over as one batch). -/
theorem batch_local_index_eq_global_mod_of_le_batch_size (L j threads minBatch : Nat)
    (hz : 2 ^ j ≤ batchSize (2 ^ L) threads)
    (cs : List (Nat × Nat)) (h : batchIterMut3 (2 ^ L) threads minBatch = some cs) :
    ∀ b ∈ cs, ∀ i, (b.1 + i) % 2 ^ j = i % 2 ^ j :=
  fun b hb i => add_mod_of_dvd (offsets_divisible_gen L threads minBatch j (fun _ => hz) cs h b hb) i

/-- `acc_column` (transition branch, `batch_iter_mut!(result, 128, ..)`) on a slice of `2^L` elements
with a divisor-inverse table of `2^j ≤ 128` entries: under EVERY thread count the concurrent build
computes `term g (g % 2^j)` at every position `g` — which is what the serial build computes. -/
theorem acc_column_thread_independent {α : Type} (term : Nat → Nat → α) (L j threads : Nat)
    (hj : j ≤ 7) :
    accColumnPar term (2 ^ j) (2 ^ L) threads
        = some ((List.range (2 ^ L)).map (fun g => term g (g % 2 ^ j))) ∧
    accColumnSerial term (2 ^ j) (2 ^ L)
        = some ((List.range (2 ^ L)).map (fun g => term g (g % 2 ^ j))) := by
  have hz : 2 ^ j ≠ 0 := by have := Nat.two_pow_pos j; omega
  have h128 : 2 ^ j ≤ 128 := by
    have : 2 ^ j ≤ 2 ^ 7 := Nat.pow_le_pow_right (by decide) hj
    simpa using this
  constructor
  · obtain ⟨B, n, hp, hcov, _⟩ := planWith_pieces (batchSize (2 ^ L) threads) (2 ^ L) 128 (by decide)
    unfold accColumnPar
    have hp' : batchIterMut3 (2 ^ L) threads 128 = some (pieces B (2 ^ L) n) := hp
    rw [hp']
    show accColumn term (2 ^ j) (pieces B (2 ^ L) n) = _
    rw [accColumn_of_divisible term _ hz _ (offsets_divisible L threads 128 j h128 _ hp'),
      runGlobal_pieces_cover _ _ _ _ hcov]
  · unfold accColumnSerial batchIterSerial
    rw [single_eq_pieces, accColumn_of_divisible term _ hz _ (by
      intro b hb
      obtain ⟨i, hi, rfl⟩ := mem_pieces hb
      have : i = 0 := by omega
      subst this; simp),
      runGlobal_pieces_cover _ _ _ _ (by omega)]

/-- The instance the prover creates (`combine()` → `acc_column` with the transition divisor
`(x^n − 1)/e(x)`): trace length `n = 2^a`, constraint-evaluation blowup `2^b` with `b ≤ 7`
(`ce_blowup ≤ blowup_factor ≤ 128 = MAX_BLOWUP_FACTOR`, both asserted by `AirContext::new` /
`ProofOptions::new`), `result.len() = n·2^b`, `z.len() = ce_domain_size / n` (`get_inv_evaluation`):
the concurrent build under any thread count equals the serial build. -/
theorem acc_column_prover_instance {α : Type} (term : Nat → Nat → α) (a b threads : Nat) (hb : b ≤ 7) :
    accColumnPar term (2 ^ a * 2 ^ b / 2 ^ a) (2 ^ a * 2 ^ b) threads
      = accColumnSerial term (2 ^ a * 2 ^ b / 2 ^ a) (2 ^ a * 2 ^ b) := by
  rw [Nat.mul_div_cancel_left _ (Nat.two_pow_pos a), ← Nat.pow_add]
  obtain ⟨h1, h2⟩ := acc_column_thread_independent term (a + b) b threads hb
  rw [h1, h2]

/-- WHY the rounding matters (first seeded defect): with `batch_size = len / threads` the identity
fails already for `len = 2^10`, three threads, `z.len() = 2`, minimum batch size 128 … -/
theorem unrounded_batch_offsets_break_local_index :
    ∃ cs, planNoRounding (2 ^ 10) 3 128 = some cs ∧
      ∃ b ∈ cs, ∃ i, i < b.2 ∧ (b.1 + i) % 2 ^ 1 ≠ i % 2 ^ 1 :=
  ⟨[(0, 341), (341, 341), (682, 341), (1023, 1)], by decide, (341, 341), by decide, 0, by decide, by decide⟩

/-- … and then `acc_column` differs from the serial result (slice of 16, table of 4 = minimum batch
size, three threads; `term` = the pair of indexes used), whereas the rounded plan agrees. -/
theorem unrounded_acc_column_differs :
    (planNoRounding 16 3 4).bind (accColumn Prod.mk 4) ≠ accColumnSerial Prod.mk 4 16 ∧
    (batchIterMut3 16 3 4).bind (accColumn Prod.mk 4) = accColumnSerial Prod.mk 4 16 := by
  decide +kernel

/-! ## §4 fragments of the constraint evaluation table -/

/-- `fragments(num_fragments)` returns (does not hit the division, the assertion or the index
panic) exactly when the fragment count is non-zero, divides the number of rows, and leaves at
least `MIN_FRAGMENT_SIZE = 16` rows per fragment. -/
theorem fragments_succeeds_iff (numRows numFrags : Nat) :
    (fragments numRows numFrags).isSome ↔ numFrags ≠ 0 ∧ 16 ≤ numRows / numFrags ∧ numFrags ∣ numRows :=
  fragments_isSome_iff numRows numFrags

/-- The fragments partition the table exactly: `num_fragments` of them, fragment `k` is
`(offset, rows) = (k·size, size)` with `size = num_rows / num_fragments`, offsets + local indexes
enumerate `0 .. num_rows−1` in order, every row is in exactly one fragment. -/
theorem fragments_partition (numRows numFrags : Nat) (fs : List (Nat × Nat))
    (h : fragments numRows numFrags = some fs) :
    fs.length = numFrags ∧
    (∀ k (hk : k < fs.length), fs[k] = (k * (numRows / numFrags), numRows / numFrags)) ∧
    runGlobal id fs = List.range numRows ∧
    (∀ g, g < numRows → ∃ k, k < fs.length ∧ ∀ j (hj : j < fs.length), InBatch fs[j] g ↔ j = k) := by
  obtain ⟨_, _, h2, rfl⟩ := fragments_eq_some h
  have hcov : numRows ≤ numFrags * (numRows / numFrags) := by omega
  refine ⟨by simp, ?_, ?_, ?_⟩
  · intro k hk
    rw [pieces_getElem, fragment_full h2 (by simpa using hk)]
  · rw [runGlobal_pieces_cover _ _ _ _ hcov, List.map_id]
  · intro g hg
    obtain ⟨h1, h2'⟩ := pieces_unique _ numRows numFrags g hcov hg
    refine ⟨g / (numRows / numFrags), by simpa using h1, fun j hj => ?_⟩
    rw [pieces_getElem]
    exact h2' j (by simpa using hj)

/-- `step = i + fragment.offset()` enumerates the global steps in order: whatever is computed per
row from the global step (`row`), the assembled table is `[row 0, row 1, .., row (num_rows−1)]`. -/
theorem fragment_steps_enumerate_globally {α : Type} (row : Nat → α) (numRows numFrags : Nat)
    (fs : List (Nat × Nat)) (h : fragments numRows numFrags = some fs) :
    evalFragments row fs = (List.range numRows).map row :=
  evalFragments_of_fragments row h

/-- … hence the table does not depend on the number of fragments. -/
theorem evaluation_independent_of_fragment_count {α : Type} (row : Nat → α) (numRows n₁ n₂ : Nat)
    (fs₁ fs₂ : List (Nat × Nat)) (h₁ : fragments numRows n₁ = some fs₁)
    (h₂ : fragments numRows n₂ = some fs₂) : evalFragments row fs₁ = evalFragments row fs₂ := by
  rw [evalFragments_of_fragments row h₁, evalFragments_of_fragments row h₂]

/-- The periodic lookup `get_row(step)` with the GLOBAL step: the sequence of table rows read is
`[(g % table_len)·width + j]` for `g = 0 .. num_rows−1`, for every fragment count. -/
theorem periodic_lookup_independent_of_fragments (tableLen width numRows numFrags : Nat)
    (fs : List (Nat × Nat)) (h : fragments numRows numFrags = some fs) :
    evalFragments (periodicRow tableLen width) fs
      = (List.range numRows).map (periodicRow tableLen width) :=
  evalFragments_of_fragments _ h

/-- `evaluate`, concurrent build, constraint evaluation domain `2^k ≥ 8192`: the fragment split
panics (assertion `fragment size must be at least 16`) exactly when
`16 · threads.next_power_of_two() > 2^k` — more than 512 threads on the smallest such domain. -/
theorem evaluate_fragments_panics_iff (k threads : Nat) (hk : 13 ≤ k) :
    evaluateFragments true (2 ^ k) threads = none ↔ 2 ^ k < 16 * Nat.nextPowerOfTwo threads := by
  have h8192 : minConcurrentDomainSize ≤ 2 ^ k := by
    have : 2 ^ 13 ≤ 2 ^ k := Nat.pow_le_pow_right (by decide) hk
    simpa [minConcurrentDomainSize] using this
  obtain ⟨t, ht⟩ := Nat.isPowerOfTwo_nextPowerOfTwo threads
  have hnf : numFragments true (2 ^ k) threads = 2 ^ t := by
    unfold numFragments; simp [h8192, ht]
  unfold evaluateFragments
  rw [hnf, ht]
  have hpos := Nat.two_pow_pos t
  have hiff := fragments_isSome_iff (2 ^ k) (2 ^ t)
  constructor
  · intro hnone
    by_contra hle
    have hle' : 16 * 2 ^ t ≤ 2 ^ k := by omega
    have htk : t ≤ k := by
      apply (Nat.pow_le_pow_iff_right (show 1 < 2 by decide)).mp
      omega
    have : (fragments (2 ^ k) (2 ^ t)).isSome := by
      rw [hiff]
      exact ⟨by omega, (Nat.le_div_iff_mul_le hpos).mpr hle', Nat.pow_dvd_pow 2 htk⟩
    rw [hnone] at this
    cases this
  · intro hlt
    cases hf : fragments (2 ^ k) (2 ^ t) with
    | none => rfl
    | some fs =>
      have : (fragments (2 ^ k) (2 ^ t)).isSome := by rw [hf]; rfl
      rw [hiff] at this
      obtain ⟨_, h16, _⟩ := this
      rw [show minFragmentSize = 16 from rfl, Nat.le_div_iff_mul_le hpos] at h16
      omega

/-- `evaluate` is thread- and build-independent on the index level: for a constraint evaluation
domain of `2^k ≥ 16` points (trace length ≥ 8 times ce blowup ≥ 2) and a thread count for which
the split does not panic (`16·threads.next_power_of_two() ≤ 2^k`, or a domain below the 8192
threshold), the rows written by the concurrent build — LDE row read, domain point, periodic row
at every position — are those of the serial build: `rowIdx` of the global step `0, 1, ..`. -/
theorem evaluate_rows_thread_independent (k threads ldeShift tableLen width : Nat) (hk : 4 ≤ k)
    (hthr : 16 * Nat.nextPowerOfTwo threads ≤ 2 ^ k ∨ 2 ^ k < 8192) :
    evaluateRows true (2 ^ k) threads ldeShift tableLen width
        = some ((List.range (2 ^ k)).map (rowIdx ldeShift tableLen width)) ∧
    evaluateRows false (2 ^ k) threads ldeShift tableLen width
        = some ((List.range (2 ^ k)).map (rowIdx ldeShift tableLen width)) := by
  have h16 : 16 ≤ 2 ^ k := by
    have : 2 ^ 4 ≤ 2 ^ k := Nat.pow_le_pow_right (by decide) hk
    simpa using this
  have key : ∀ nf, nf ≠ 0 → 16 * nf ≤ 2 ^ k → nf ∣ 2 ^ k →
      (fragments (2 ^ k) nf).map (evalFragments (rowIdx ldeShift tableLen width))
        = some ((List.range (2 ^ k)).map (rowIdx ldeShift tableLen width)) := by
    intro nf h0 hle hdvd
    have hs : (fragments (2 ^ k) nf).isSome := by
      rw [fragments_isSome_iff]
      exact ⟨h0, (Nat.le_div_iff_mul_le (by omega)).mpr hle, hdvd⟩
    obtain ⟨fs, hfs⟩ := Option.isSome_iff_exists.mp hs
    rw [hfs, Option.map_some, evalFragments_of_fragments _ hfs]
  have hone := key 1 (by decide) (by omega) (Nat.one_dvd _)
  constructor
  · unfold evaluateRows evaluateFragments numFragments
    by_cases hc : minConcurrentDomainSize ≤ 2 ^ k
    · simp only [Bool.true_and, decide_eq_true hc, if_true]
      rcases hthr with hthr | hthr
      · obtain ⟨t, ht⟩ := Nat.isPowerOfTwo_nextPowerOfTwo threads
        rw [ht] at hthr ⊢
        have hpos := Nat.two_pow_pos t
        refine key _ (by omega) hthr (Nat.pow_dvd_pow 2 ?_)
        apply (Nat.pow_le_pow_iff_right (show 1 < 2 by decide)).mp
        omega
      · unfold minConcurrentDomainSize at hc; omega
    · simp only [Bool.true_and, decide_eq_false hc]
      exact hone
  · unfold evaluateRows evaluateFragments numFragments
    simp only [Bool.false_and]
    exact hone

/-- When does the fragment-LOCAL row index give the same periodic lookup as the global step
(second seeded defect)?  Exactly when there is one fragment or the fragment length is a multiple
of the periodic table length. -/
theorem local_step_agrees_iff (numRows numFrags tableLen : Nat) (fs : List (Nat × Nat))
    (h : fragments numRows numFrags = some fs) :
    (∀ f ∈ fs, ∀ i, (i + f.1) % tableLen = i % tableLen)
      ↔ numFrags = 1 ∨ tableLen ∣ numRows / numFrags := by
  obtain ⟨h0, _, h2, rfl⟩ := fragments_eq_some h
  constructor
  · intro hall
    by_cases h1 : numFrags = 1
    · exact Or.inl h1
    · right
      have hmem : (1 * (numRows / numFrags), min (numRows / numFrags) (numRows - 1 * (numRows / numFrags)))
          ∈ pieces (numRows / numFrags) numRows numFrags := by
        unfold pieces
        exact List.mem_map.mpr ⟨1, List.mem_range.mpr (by omega), rfl⟩
      have := hall _ hmem 0
      simp only [Nat.one_mul, Nat.zero_add, Nat.zero_mod] at this
      exact Nat.dvd_of_mod_eq_zero this
  · intro hor f hf i
    obtain ⟨j, hj, rfl⟩ := mem_pieces hf
    rcases hor with h1 | hd
    · have : j = 0 := by omega
      subst this; simp
    · rw [Nat.add_comm]
      exact add_mod_of_dvd (Nat.dvd_trans hd (Nat.dvd_mul_left _ _)) i

/-- Counterexample shape of the second seeded defect: domain of 8192 points in two fragments, a
periodic table as long as the domain (cycle = trace length): the first row of the second fragment
reads table row 4096 with the global step, row 0 with the local index. -/
theorem local_step_breaks_periodic_lookup :
    ∃ fs, fragments 8192 2 = some fs ∧
      ∃ f ∈ fs, ∃ i, i < f.2 ∧ periodicRow 8192 1 (i + f.1) ≠ periodicRow 8192 1 i :=
  ⟨[(0, 4096), (4096, 4096)], by decide, (4096, 4096), by decide, 0, by decide, by decide⟩

/-- … and on a whole (small) table: 64 rows, two fragments, table length 64. -/
theorem local_step_table_differs :
    (fragments 64 2).map (evalFragmentsLocal (periodicRow 64 1))
      ≠ (fragments 64 2).map (evalFragments (periodicRow 64 1)) ∧
    (fragments 64 2).map (evalFragments (periodicRow 64 1))
      = (fragments 64 1).map (evalFragments (periodicRow 64 1)) := by
  decide

/-! ## §5 thread independence proved by the properties that own the code (restated, not re-proved) -/

section restated
open Wf Wf.BatchUtils

/-- C14: a closure that writes "its window of a fixed vector" yields that vector for every thread
count and minimum batch size (`batch_iter_mut!`; `batchIterMut3` IS C14's `chunkPlan`). -/
theorem c14_batch_iter_thread_independent {F : Type} (threads minBatch : Nat) (hmin : 0 < minBatch)
    (whole : List F) (c : Nat → Nat → Option (List F))
    (hc : ∀ off len, 0 < len ∨ whole = [] → off + len ≤ whole.length →
      c off len = some ((whole.drop off).take len)) :
    ∃ cs, batchIterMut3 whole.length threads minBatch = some cs ∧ batchApply cs c = some whole :=
  Wf.Props.C14.batch_iter_thread_independent threads minBatch hmin whole c hc

/-- C14: `batch_inversion` (used by `get_inv_evaluation` for the divisor inverses `z`) returns the
element-wise inverses for every thread count. -/
theorem c14_batch_inversion_thread_independent {K : Type} [Field K] [DecidableEq K] (inv : K → K)
    (hinv : ∀ x : K, x ≠ 0 → x * inv x = 1) (threads : Nat) (vs : List K) :
    batchInversion (ringOps K inv) threads vs = some (vs.map (fun v => v⁻¹)) :=
  Wf.Props.C14.batch_inversion_elementwise inv hinv threads vs

/-- C14: `get_power_series` (the constraint evaluation domain `ce_domain` of `StarkDomain::new`) is
`[bⁱ]` for every thread count. -/
theorem c14_power_series_thread_independent {R : Type} [CommRing R] [DecidableEq R] (inv : R → R)
    (exp : R → Nat → R) (hexp : ∀ x k, exp x k = x ^ k) (threads : Nat) (b : R) (n : Nat) :
    getPowerSeries (ringOps R inv) exp threads b n = some ((List.range n).map (fun i => b ^ i)) :=
  Wf.Props.C14.get_power_series_powers inv exp hexp threads b n

end restated

section restated29
open Wf.TraceTable

/-- C29: trace-table fragments processed in ANY order covering all of them (any schedule of the
parallel iterator) give the table built by the serial `fill`. -/
theorem c29_trace_fragments_schedule_independent (upd : Nat → List Nat → List Nat) (w len m : Nat)
    (hupd : ∀ j s, s.length = w → (upd j s).length = w)
    (t t' : Table) (ht : Shape t w (m * len)) (ht' : Shape t' w (m * len))
    (init : List Nat) (hi : init.length = w) (hlen : 1 ≤ len) (hm : 1 ≤ m)
    (is : List Nat) (hcover : ∀ i, i < m → i ∈ is) (hrange : ∀ i ∈ is, i < m) :
    fillFragList upd (fun i => iterAt upd (i * len) 0 init) len is t' = fill t (m * len) init upd :=
  Wf.Props.C29.fragments_eq_fill upd w len m hupd t t' ht ht' init hi hlen hm is hcover hrange

end restated29

/-! ## non-vacuity -/

-- §2: real constants, non-power-of-two thread counts, a short last batch, the one-batch case
example : batchIterMut3 8192 3 128 = some [(0, 2048), (2048, 2048), (4096, 2048), (6144, 2048)] := by
  decide +kernel
example : batchIterMut3 1000 3 128 = some [(0, 250), (250, 250), (500, 250), (750, 250)] := by decide +kernel
example : batchIterMut3 1001 5 100 = some [(0, 125), (125, 125), (250, 125), (375, 125), (500, 125),
    (625, 125), (750, 125), (875, 125), (1000, 1)] := by decide +kernel
example : batchIterMut3 1000 16 128 = some [(0, 1000)] := by decide +kernel
example : batchIterMut2 5 2 = some [(0, 2), (2, 2), (4, 1)] := by decide +kernel
example : batchIterMut2 3 8 = some [(0, 3)] := by decide +kernel
example : InBatch (250, 250) 499 ∧ ¬ InBatch (250, 250) 500 := by decide
example : runGlobal id [(0, 2), (2, 2), (4, 1)] = List.range 5 := by decide
example : invEvaluation 16 4 3 = some [0, 4, 8, 12] := by decide +kernel
-- §3: the hypotheses are satisfiable with several batches (ce domain 2^13, ce blowup 2^3, 5 threads → 8 batches)
example : (batchIterMut3 (2 ^ 13) 5 128).map List.length = some 8 := by decide +kernel
example : accColumnPar Prod.mk (2 ^ 1) (2 ^ 3) 4 = accColumnSerial Prod.mk (2 ^ 1) (2 ^ 3) :=
  ((acc_column_thread_independent Prod.mk 3 1 4 (by decide)).1).trans
    ((acc_column_thread_independent Prod.mk 3 1 4 (by decide)).2).symm
example : accColumnSerial Prod.mk 2 4 = some [(0, 0), (1, 1), (2, 0), (3, 1)] := by decide
example : 2 ^ 7 ≤ batchSize (2 ^ 13) 12 ∧ ¬ 2 ^ 7 ≤ batchSize (2 ^ 10) 12 := by decide +kernel
example : accColumn (α := Nat × Nat) Prod.mk 0 [(0, 4)] = none := by decide
-- §4
example : fragments 8192 4 = some [(0, 2048), (2048, 2048), (4096, 2048), (6144, 2048)] := by decide +kernel
example : fragments 8192 1024 = none := by decide +kernel      -- 8 rows per fragment: assertion
example : fragments 100 3 = none := by decide +kernel          -- 4 chunks for 3 fragments: index panic
example : fragments 64 0 = none := by decide +kernel           -- division by zero
example : numFragments true 8192 5 = 8 ∧ numFragments true 4096 5 = 1 ∧ numFragments false 8192 5 = 1 := by
  decide +kernel
example : evaluateFragments true 8192 600 = none := by decide +kernel
example : (evaluateFragments true 8192 5).map List.length = some 8 := by decide +kernel
example : periodicRow 8 2 11 = some [6, 7] ∧ periodicRow 0 0 11 = some [] ∧ periodicRow 0 1 11 = none := by
  decide
example : (evaluateRows true 16 3 1 4 1).map (·.map (·.ldeStep)) = some ((List.range 16).map (· * 2)) := by
  decide +kernel
example : evalFragments id [(0, 2), (2, 2)] = [0, 1, 2, 3] ∧ evalFragmentsLocal id [(0, 2), (2, 2)] = [0, 1, 0, 1] := by
  decide

end Wf.Props.C06
