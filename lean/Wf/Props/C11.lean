/-
C11 — field constants and canonical encodings.

`Wf.Gen.FieldConsts` is REGENERATED from the three `mod.rs` files on every run; the theorems are
about those literals, so an edited constant breaks its certificate.
-/
import Wf.Lemmas.Primes
import Wf.Lemmas.Codec
import Wf.Model.FieldCodec
import Wf.Model.Fields
namespace Wf.Props.C11
open Wf Wf.Gen.FieldConsts

/-! ## moduli: prime, documented two-adicity, bit length -/

theorem f64_modulus_prime : Nat.Prime F64.M := P64_prime
theorem f62_modulus_prime : Nat.Prime F62.M := P62_prime
theorem f128_modulus_prime : Nat.Prime F128.M := P128_prime

theorem f64_two_adicity : 2 ^ F64.TWO_ADICITY ∣ F64.M - 1 ∧ ¬ 2 ^ (F64.TWO_ADICITY + 1) ∣ F64.M - 1 := by
  decide
theorem f62_two_adicity : 2 ^ F62.TWO_ADICITY ∣ F62.M - 1 ∧ ¬ 2 ^ (F62.TWO_ADICITY + 1) ∣ F62.M - 1 := by
  decide
theorem f128_two_adicity :
    2 ^ F128.TWO_ADICITY ∣ F128.M - 1 ∧ ¬ 2 ^ (F128.TWO_ADICITY + 1) ∣ F128.M - 1 := by
  decide

theorem modulus_bits :
    (2 ^ (F64.MODULUS_BITS - 1) ≤ F64.M ∧ F64.M < 2 ^ F64.MODULUS_BITS) ∧
    (2 ^ (F62.MODULUS_BITS - 1) ≤ F62.M ∧ F62.M < 2 ^ F62.MODULUS_BITS) ∧
    (2 ^ (F128.MODULUS_BITS - 1) ≤ F128.M ∧ F128.M < 2 ^ F128.MODULUS_BITS) := by decide

/-- Montgomery constants: R2 = 2^128 mod p (f64, f62), R3 = 2^192 mod p, U = −p⁻¹ mod 2^64 (f62) -/
theorem montgomery_constants :
    F64.R2 = 2 ^ 128 % F64.M ∧ F62.R2 = 2 ^ 128 % F62.M ∧ F62.R3 = 2 ^ 192 % F62.M ∧
    (F62.U * F62.M + 1) % 2 ^ 64 = 0 := by decide

/-! ## generators generate the multiplicative group -/

theorem f64_generator : orderOf ((F64.GENERATOR : Nat) : ZMod F64.M) = F64.M - 1 := g64_order
theorem f62_generator : orderOf ((F62.GENERATOR : Nat) : ZMod F62.M) = F62.M - 1 := g62_order
theorem f128_generator : orderOf ((F128.GENERATOR : Nat) : ZMod F128.M) = F128.M - 1 := g128_order

/-! ## roots of unity: exact order 2^n for EVERY 0 ≤ n ≤ two-adicity (one lemma, not a table) -/

theorem f64_root_orders (n : Nat) (hn : n ≤ F64.TWO_ADICITY) :
    orderOf (((F64.TWO_ADIC_ROOT_OF_UNITY : Nat) : ZMod F64.M) ^ (2 ^ (F64.TWO_ADICITY - n))) = 2 ^ n :=
  orderOf_pow_two_pow _ 32 n hn root64_order

theorem f62_root_orders (n : Nat) (hn : n ≤ F62.TWO_ADICITY) :
    orderOf (((F62.TWO_ADIC_ROOT_OF_UNITY : Nat) : ZMod F62.M) ^ (2 ^ (F62.TWO_ADICITY - n))) = 2 ^ n :=
  orderOf_pow_two_pow _ 39 n hn root62_order

theorem f128_root_orders (n : Nat) (hn : n ≤ F128.TWO_ADICITY) :
    orderOf (((F128.TWO_ADIC_ROOT_OF_UNITY : Nat) : ZMod F128.M) ^ (2 ^ (F128.TWO_ADICITY - n))) = 2 ^ n :=
  orderOf_pow_two_pow _ 40 n hn root128_order

/-- f62 / f128: the roots are the generator raised to (p−1)/2^s (the f64 root is a different
    primitive 2^32-th root; its order is certified above) -/
theorem roots_from_generators :
    powMod F62.GENERATOR ((F62.M - 1) / 2 ^ F62.TWO_ADICITY) F62.M = F62.TWO_ADIC_ROOT_OF_UNITY ∧
    powMod F128.GENERATOR ((F128.M - 1) / 2 ^ F128.TWO_ADICITY) F128.M = F128.TWO_ADIC_ROOT_OF_UNITY := by
  decide +kernel

/-! ## Frobenius constants: the formulas in the source send the basis to its p-th powers
(evaluated in the specification ring `Spec`, integers mod p modulo the documented polynomial) -/

def tri : List Nat → Nat × Nat × Nat
  | [a, b, c] => (a, b, c)
  | _ => (0, 0, 0)
def duo : List Nat → Nat × Nat
  | [a, b] => (a, b)
  | _ => (0, 0)

theorem f64_cubic_frobenius_constants :
    Gen.F64.ext3Frobenius (natOps Spec.P64) (0, 1, 0) = tri (Spec.pow Spec.f64x3 [0, 1, 0] Spec.P64) ∧
    Gen.F64.ext3Frobenius (natOps Spec.P64) (0, 0, 1) = tri (Spec.pow Spec.f64x3 [0, 0, 1] Spec.P64) ∧
    Gen.F64.ext3Frobenius (natOps Spec.P64) (1, 0, 0) = (1, 0, 0) := by decide +kernel

theorem f62_cubic_frobenius_constants :
    Gen.F62.ext3Frobenius (natOps Spec.P62) (0, 1, 0) = tri (Spec.pow Spec.f62x3 [0, 1, 0] Spec.P62) ∧
    Gen.F62.ext3Frobenius (natOps Spec.P62) (0, 0, 1) = tri (Spec.pow Spec.f62x3 [0, 0, 1] Spec.P62) ∧
    Gen.F62.ext3Frobenius (natOps Spec.P62) (1, 0, 0) = (1, 0, 0) := by decide +kernel

theorem quadratic_frobenius_constants :
    Gen.F64.ext2Frobenius (natOps Spec.P64) (0, 1) = duo (Spec.pow Spec.f64x2 [0, 1] Spec.P64) ∧
    Gen.F62.ext2Frobenius (natOps Spec.P62) (0, 1) = duo (Spec.pow Spec.f62x2 [0, 1] Spec.P62) ∧
    Gen.F128.ext2Frobenius (natOps Spec.P128) (0, 1) = duo (Spec.pow Spec.f128x2 [0, 1] Spec.P128) := by
  decide +kernel

/-! ## encodings: canonical little-endian integers, exactly the values below the modulus -/

/-- every value below the modulus decodes from its own encoding to itself, consuming exactly
    ELEMENT_BYTES bytes (any field whose modulus fits its byte width) -/
theorem element_roundtrip (f : FieldParams) (hfit : f.m ≤ 256 ^ f.bytes) (v : Nat) (hv : v < f.m)
    (r : Bytes) : f.read (f.write v ++ r) = .ok v r := by
  unfold FieldParams.read FieldParams.write
  rw [readLe_append _ _ _ (Nat.lt_of_lt_of_le hv hfit)]
  simp only []
  have : ¬ v ≥ f.m := by omega
  simp [this]

/-- every value at or above the modulus is rejected (`InvalidValue`), never reduced -/
theorem element_rejects_noncanonical (f : FieldParams) (v : Nat) (hv : f.m ≤ v)
    (hw : v < 256 ^ f.bytes) (r : Bytes) : f.read (leBytes f.bytes v ++ r) = .err .invalid := by
  unfold FieldParams.read
  rw [readLe_append _ _ _ hw]
  simp only []
  simp [hv]

theorem element_truncated (f : FieldParams) (bs : Bytes) (h : bs.length < f.bytes) :
    f.read bs = .err .eof := by
  unfold FieldParams.read
  rw [readLe_short _ _ h]

theorem element_decoder_never_panics (f : FieldParams) (bs : Bytes) : f.read bs ≠ .abort := by
  intro h
  unfold FieldParams.read at h
  split at h
  · split at h <;> cases h
  · cases h
  · rename_i h'; exact readLe_noAbort _ _ h'

/-- integer conversions accept exactly the values below the modulus -/
theorem try_from_int_iff (f : FieldParams) (v : Nat) :
    (f.tryFromInt v = some v ↔ v < f.m) ∧ (f.tryFromInt v = none ↔ f.m ≤ v) := by
  unfold FieldParams.tryFromInt
  constructor <;> split <;> simp_all <;> omega

/-- byte-slice conversion: exact length, canonical value -/
theorem try_from_slice_iff (f : FieldParams) (bs : Bytes) (v : Nat) :
    f.tryFromSlice bs = some v ↔ bs.length = f.bytes ∧ fromLe bs = v ∧ v < f.m := by
  unfold FieldParams.tryFromSlice FieldParams.tryFromInt
  constructor
  · intro h
    split at h
    · cases h
    · rename_i hl
      split at h
      · cases h
      · injection h with h; subst h
        exact ⟨by omega, rfl, by omega⟩
  · rintro ⟨h1, h2, h3⟩
    subst h2
    have : ¬ bs.length ≠ f.bytes := by omega
    have h4 : ¬ fromLe bs ≥ f.m := by omega
    simp [this, h4]

/-- the three concrete fields satisfy the side conditions of the theorems above -/
theorem fields_fit :
    paramsF64.m ≤ 256 ^ paramsF64.bytes ∧ paramsF62.m ≤ 256 ^ paramsF62.bytes ∧
    paramsF128.m ≤ 256 ^ paramsF128.bytes ∧
    256 ^ (paramsF64.bytes - 1) ≤ paramsF64.m ∧ 256 ^ (paramsF62.bytes - 1) ≤ paramsF62.m ∧
    256 ^ (paramsF128.bytes - 1) ≤ paramsF128.m := by decide

/-! ## non-vacuity -/
example : paramsF64.read (paramsF64.write 18446744069414584320 ++ [7]) = .ok 18446744069414584320 [7] := by
  decide
example : paramsF64.read (leBytes 8 18446744069414584321) = .err .invalid := by decide
example : paramsF128.rootOfUnity 40 = some F128.TWO_ADIC_ROOT_OF_UNITY := by decide +kernel

end Wf.Props.C11
