/-
C08 — FRI accepts every evaluation vector of a low-degree polynomial.

Model: `Wf/Model/Fri.lean` (mirrors `fri/src/{options,utils,folding/mod,prover/mod,verifier/mod}.rs`;
hashing / Merkle / random coin are inputs of the model: opened rows with their `verify_many`
verdict, drawn `alphas`, verdict of the remainder-commitment comparison; the size-`N` FFT of
`apply_drp`, `interpolate_poly_with_offset` and `polynom::interpolate_batch + eval` are modelled by
their exact values — inverse DFT sums / Lagrange form).  Tied to the real crates by the
correspondence stream `c08` (function level and whole transcripts).

The algebraic theorems are stated over ANY field `K` through `fieldOps K` (= `ringOps K (·⁻¹)`),
any `N`-th primitive root of unity, any non-zero domain offset; a polynomial is its coefficient
function `c : ℕ → K` with `polyEval c D y = Σ_{m<D} c m · y^m`.

  §1  index bookkeeping: `num_fri_layers`, `fold_positions`, `map_positions_to_indexes`,
      `get_query_values`                                   (all sizes, no field involved)
  §2  folding identity, prover side (`apply_drp`) and verifier side (coset interpolation), for
      EVERY folding factor `N` with a primitive `N`-th root; closed form for `N = 2`
  §3  remainder: `set_remainder` returns the truncated, reversed coefficients; `eval_horner_rev`
      on reversed coefficients is ordinary evaluation
  §4  completeness: one verifier iteration, the remainder check, the whole loop for any number of
      layers, and end to end `verify (buildProof f) = ok` at the model level
-/
import Wf.Lemmas.FriAlgebra
import Wf.Model.Fields
import Mathlib.Data.ZMod.Basic
import Mathlib.Algebra.Field.ZMod
import Mathlib.Tactic.NormNum.Prime
import Mathlib.Tactic.IntervalCases
namespace Wf.Props.C08
open Wf Wf.Fri Finset

/-! ## §1 index bookkeeping -/

/-- `num_fri_layers` stops exactly when the folded domain fits the remainder: after the returned
number of foldings the domain size is `≤ (remainder_max_degree + 1)·blowup`, and after any smaller
number it is still larger (every folding factor `≥ 2`, every domain size). -/
theorem num_fri_layers_spec (o : FriOptions) (d : Nat) (hff : 2 ≤ o.folding) :
    foldedSize o.folding (o.numFriLayers d) d ≤ (o.rmd + 1) * o.blowup ∧
    ∀ k < o.numFriLayers d, (o.rmd + 1) * o.blowup < foldedSize o.folding k d :=
  ⟨numFriLayersGo_le _ _ hff d d (Nat.le_refl _), fun k hk => numFriLayersGo_min _ _ hff d d k (Nat.le_refl _) hk⟩

/-- the loop terminates: the result does not depend on the iteration bound once it is at least
the domain size (the model runs it with bound = domain size); `foldedSize` is iterated division -/
theorem num_fri_layers_terminates (o : FriOptions) (d fuel : Nat) (hff : 2 ≤ o.folding) (h : d ≤ fuel) :
    numFriLayersGo o.folding o.maxRemainderSize fuel d = o.numFriLayers d ∧
    ∀ k, foldedSize o.folding k d = d / o.folding ^ k :=
  ⟨numFriLayersGo_fuel _ _ hff fuel d d h (Nat.le_refl _), fun k => foldedSize_eq_div _ k d⟩

/-- `fold_positions` returns the residues modulo `domain / folding` with the FIRST occurrence of
every value kept, in order; no duplicates; exactly the residues of the inputs; it panics iff
the folding factor is 0 or the target size is 0 with a position to fold. -/
theorem fold_positions_spec (ps : List Nat) (d ff : Nat) :
    (0 < ff → ff ≤ d →
      foldPositions ps d ff = some (keepFirst (ps.map (· % (d / ff)))) ∧
      (keepFirst (ps.map (· % (d / ff)))).Nodup ∧
      ∀ q, q ∈ keepFirst (ps.map (· % (d / ff))) ↔ ∃ p ∈ ps, p % (d / ff) = q) ∧
    (foldPositions ps d ff = none ↔ ff = 0 ∨ (d / ff = 0 ∧ ps ≠ [])) := by
  refine ⟨fun hff hd => ⟨?_, nodup_keepFirst _, fun q => ?_⟩, ?_⟩
  · rw [foldPositions_some ps d ff hff hd, foldPositionsGo_spec]
  · rw [← foldPositionsGo_spec]; exact mem_foldPositionsGo _ _ _
  · unfold foldPositions
    by_cases h0 : ff = 0
    · simp [h0]
    · by_cases h1 : d / ff = 0 ∧ ps ≠ []
      · simp [h0, h1]
      · simp [h0, h1]

/-- `map_positions_to_indexes`: identity for one partition; otherwise position `p` goes to
partition `p % np`, local index `p / np`. -/
theorem map_positions_spec (ps : List Nat) (d ff np : Nat) :
    mapPositionsToIndexes ps d ff 1 = some ps ∧
    (np ≠ 1 → 0 < ff → 0 < np →
      mapPositionsToIndexes ps d ff np = some (ps.map fun p => (p % np) * (d / ff / np) + p / np)) := by
  refine ⟨by simp [mapPositionsToIndexes], fun h1 hff hnp => ?_⟩
  unfold mapPositionsToIndexes
  rw [if_neg h1, if_neg (by omega), if_neg (by omega)]
  congr 1
  apply List.map_congr_left
  intro p _
  exact partitionIndex_eq _ _ _

/-- the partition layout is a bijection of `[0, np·psize)` onto itself, with explicit inverse
`i ↦ (i % psize)·np + i / psize` (the rows of one Merkle tree are addressed exactly once) -/
theorem partition_layout_bijective (psize np : Nat) (hps : 0 < psize) (hnp : 0 < np) :
    (∀ p < np * psize, partitionIndex psize np p < np * psize ∧
      partitionInv psize np (partitionIndex psize np p) = p) ∧
    (∀ i < np * psize, partitionInv psize np i < np * psize ∧
      partitionIndex psize np (partitionInv psize np i) = i) :=
  ⟨fun p hp => ⟨partitionIndex_lt psize np p hnp hp, partitionInv_index psize np p hnp hp⟩,
   fun i hi => ⟨partitionInv_lt psize np i hps hi, partitionIndex_inv psize np i hps hi⟩⟩

/-- `get_query_values`: for a layer of `n·rowLen` values `f 0, f 1, …` stored transposed (row `r`
= `[f (r + j·rowLen) | j < n]`) and opened at the folded positions, every queried position `p`
finds its own value `f p` (row `p % rowLen`, column `p / rowLen`), duplicates included. -/
theorem get_query_values_correct {F} (f : Nat → F) (n rowLen : Nat) (hn : 0 < n) (hr : 0 < rowLen)
    (positions : List Nat) (hpos : ∀ p ∈ positions, p < n * rowLen) :
    getQueryValues
      ((foldPositionsGo rowLen positions []).map fun r => (List.range n).map fun j => f (r + j * rowLen))
      positions (foldPositionsGo rowLen positions []) (n * rowLen) n = some (positions.map f) :=
  getQueryValues_eq f n rowLen hn hr positions hpos

/-- `transpose_slice` followed by `query_layer` delivers exactly the rows assumed above -/
theorem transpose_then_query {α : Type} (e : Nat → α) (N L : Nat) (hN : 0 < N) (hL : 0 < L)
    (positions : List Nat) :
    (transposeRows N ((List.range (N * L)).map e)).bind (fun rows =>
        queryLayer rows (foldPositionsGo L positions [])) =
      some ((foldPositionsGo L positions []).map fun r => (List.range N).map fun j => e (r + j * L)) := by
  rw [transposeRows_eq e N L hN _ (by simp) (by intro p hp; simp [hp])]
  simp only [Option.bind_some, queryLayer]
  apply mapM_some_of_forall
  intro q hq
  obtain ⟨p, _, rfl⟩ := (mem_foldPositionsGo _ _ _).mp hq
  have : p % L < L := Nat.mod_lt _ hL
  simp [this]

/-! ## §2 the folding identity -/

variable {K : Type} [Field K] [DecidableEq K]

/-- splitting by residue classes of the exponent: `f(y) = Σ_{i<N} y^i · f_i(y^N)` -/
theorem poly_split (c : Nat → K) (N M : Nat) (y : K) :
    polyEval c (N * M) y = ∑ i ∈ range N, y ^ i * ∑ k ∈ range M, c (i + N * k) * (y ^ N) ^ k :=
  polyEval_split c N M y

/-- FOLDING IDENTITY (verifier side, every `N`): interpolating the `N` values of `f` on the coset
`x·ω^j` and evaluating at `α` gives `Σ_i α^i · f_i(x^N)`. -/
theorem folding_identity_verifier {ω x : K} {N : Nat} (hω : IsPrimitiveRoot ω N) (hN : 0 < N) (hx : x ≠ 0)
    (c : Nat → K) (M : Nat) (α : K) :
    lagrangeEval (fieldOps K) ((List.range N).map fun j => x * ω ^ j)
        ((List.range N).map fun j => polyEval c (N * M) (x * ω ^ j)) α =
      ∑ i ∈ range N, α ^ i * ∑ k ∈ range M, c (i + N * k) * (x ^ N) ^ k :=
  lagrangeEval_fold hω hN hx c M α

/-- FOLDING IDENTITY (prover side, every `N`): the `k`-th coefficient `apply_drp` computes for a
row (inverse DFT of the row scaled by `x^{-k}/N`) is `f_k(x^N)`, so the row polynomial is
`Y ↦ Σ_k Y^k f_k(x^N)` and its value at `α` is the same `Σ_k α^k f_k(x^N)`. -/
theorem folding_identity_prover {ω x : K} {N : Nat} (hω : IsPrimitiveRoot ω N) (hN : 0 < N) (hx : x ≠ 0)
    (c : Nat → K) (M : Nat) (α : K) :
    (∀ k < N, idftCoeff (fieldOps K) ω⁻¹ x⁻¹ (N : K)⁻¹
        ((List.range N).map fun j => polyEval c (N * M) (x * ω ^ j)) k =
      ∑ k' ∈ range M, c (k + N * k') * (x ^ N) ^ k') ∧
    drpRow (fieldOps K) N ω x⁻¹ α ((List.range N).map fun j => polyEval c (N * M) (x * ω ^ j)) =
      ∑ k ∈ range N, α ^ k * ∑ k' ∈ range M, c (k + N * k') * (x ^ N) ^ k' := by
  refine ⟨fun k hk => idftCoeff_fold hω hx c M k hk, ?_⟩
  unfold drpRow idftCoeffs
  simp only [List.length_map, List.length_range, pow_eq, fo_inv, fo_ofNat]
  rw [root_pow_pred_eq_inv hN hω.pow_eq_one]
  have hco : (List.range N).map (idftCoeff (fieldOps K) ω⁻¹ x⁻¹ (N : K)⁻¹
      ((List.range N).map fun j => polyEval c (N * M) (x * ω ^ j))) =
      (List.range N).map fun k => ∑ k' ∈ range M, c (k + N * k') * (x ^ N) ^ k' := by
    apply List.map_congr_left
    intro k hk
    exact idftCoeff_fold hω hx c M k (by simpa using hk)
  rw [hco, evalPoly_map_range]
  apply Finset.sum_congr rfl
  intro k _
  ring

/-- `N = 2` in closed form, both sides: `(f(x)+f(−x))/2 + α·(f(x)−f(−x))/(2x)` -/
theorem folding_identity_two (x α a b : K) (h2 : (2 : K) ≠ 0) (hx : x ≠ 0) :
    drpRow (fieldOps K) 2 (-1) x⁻¹ α [a, b] = (a + b) / 2 + α * ((a - b) / (2 * x)) ∧
    lagrangeEval (fieldOps K) [x, -x] [a, b] α = (a + b) / 2 + α * ((a - b) / (2 * x)) :=
  ⟨drpRow_two x α a b h2 hx, lagrangeEval_two x α a b h2 hx⟩

/-- COMPLETENESS OF ONE LAYER (prover): `apply_drp` applied to the transposed evaluations of a
polynomial with `N·M` coefficients over `offset·<g>` (`g` of order `N·L`) yields the evaluations
of the folded polynomial `f'(y) = Σ_{k'} (Σ_k α^k c(k+N k')) y^k'` — `M` coefficients — at the
`N`-th powers `(offset·g^i)^N`, `i < L`; and the verifier's coset interpolation of ALL rows yields
the same vector. -/
theorem layer_folding_complete {g offset : K} {N L : Nat} (hg : IsPrimitiveRoot g (N * L)) (hN : 0 < N)
    (hL : 0 < L) (hoff : offset ≠ 0) (c : Nat → K) (M : Nat) (α : K) :
    let rows := (List.range L).map fun i => (List.range N).map fun j =>
      polyEval c (N * M) (offset * g ^ (i + j * L))
    let folded := (List.range L).map fun i =>
      polyEval (fun k' => ∑ k ∈ range N, α ^ k * c (k + N * k')) M ((offset * g ^ i) ^ N)
    transposeRows N ((List.range (N * L)).map fun p => polyEval c (N * M) (offset * g ^ p)) = some rows ∧
    applyDrp (fieldOps K) N g offset α rows = folded ∧
    foldRows (fieldOps K) α
      (layerXs (fieldOps K) g offset (foldingRoots (fieldOps K) g (N * L) N) (List.range L)) rows =
        some folded := by
  intro rows folded
  have hfv : ((List.range L).map fun i => foldedValue c N M α ((offset * g ^ i) ^ N)) = folded := by
    apply List.map_congr_left
    intro i _
    exact foldedValue_eq_polyEval c N M α _
  refine ⟨?_, ?_, ?_⟩
  · exact transposeRows_eq (fun p => polyEval c (N * M) (offset * g ^ p)) N L hN _ (by simp)
      (by intro p hp; simp [hp])
  · rw [← hfv]; exact applyDrp_fold hg hN hL hoff c M α
  · rw [← hfv]
    exact foldRows_fold hg hN hL hoff (by rw [Nat.mul_div_cancel_left _ hN]) c M α (List.range L)

/-! ## §3 the remainder -/

/-- `eval_horner_rev` applied to the REVERSED coefficient list is ordinary evaluation -/
theorem eval_horner_rev_reversed (cs : List K) (x : K) :
    evalHornerRev (fieldOps K) cs.reverse x = ∑ i ∈ range cs.length, cs.getD i 0 * x ^ i :=
  evalHornerRev_reverse cs x

/-- `set_remainder`: from the evaluations over `offset·<g>` (`g` of order `m`) of a polynomial with
`m` coefficients the prover obtains its first `m / blowup` coefficients, highest degree first; the
verifier's evaluation of that list at `y` is `Σ_{k < m/blowup} c_k y^k`, which is `f(y)` when the
higher coefficients vanish. -/
theorem remainder_spec {g offset : K} {m : Nat} (hg : IsPrimitiveRoot g m) (hm : 0 < m) (hoff : offset ≠ 0)
    (c : Nat → K) (blowup : Nat) (y : K) :
    remainderPoly (fieldOps K) g offset blowup ((List.range m).map fun p => polyEval c m (offset * g ^ p)) =
      ((List.range (m / blowup)).map c).reverse ∧
    evalHornerRev (fieldOps K) ((List.range (m / blowup)).map c).reverse y = polyEval c (m / blowup) y ∧
    ((∀ k, m / blowup ≤ k → c k = 0) → polyEval c (m / blowup) y = polyEval c m y) :=
  ⟨remainderPoly_eq hg hm hoff c blowup, evalHornerRev_remainder c _ y,
   fun hc => (polyEval_of_degree_lt c _ m (Nat.div_le_self _ _) hc y).symm⟩

/-! ## §4 completeness of the verifier -/

/-- one iteration of `verify_generic` accepts honestly opened rows and carries the folded values
forward (no `InvalidLayerFolding`, no `DegreeTruncation`, no panic) -/
theorem verifier_layer_complete (v : Verifier K) (depth : Nat) (st : LoopState K) {N L M : Nat}
    (c : Nat → K) (α : K) (hfold : v.options.folding = N) (hN : 0 < N) (hL : 0 < L)
    (hdom : st.domainSize = N * L) (hg : IsPrimitiveRoot st.g (N * L)) (hoff : v.offset ≠ 0)
    (hroot : v.g ^ (v.domainSize / N) = st.g ^ L) (hparts : v.numPartitions = 1)
    (halpha : v.alphas[depth]? = some α) (hmdp : st.mdp1 = N * M)
    (hpos : ∀ p ∈ st.positions, p < N * L)
    (hev : st.evaluations = st.positions.map fun p => polyEval c (N * M) (v.offset * st.g ^ p)) :
    verifyLayer (fieldOps K) v depth st
        { rows := (foldPositionsGo L st.positions []).map fun i =>
            (List.range N).map fun j => polyEval c (N * M) (v.offset * st.g ^ (i + j * L))
          merkleOk := true } =
      .ok { g := st.g ^ N, domainSize := L, mdp1 := M
            positions := foldPositionsGo L st.positions []
            evaluations := (foldPositionsGo L st.positions []).map fun i =>
              foldedValue c N M α ((v.offset * st.g ^ i) ^ N) } :=
  verifyLayer_honest v depth st c α hfold hN hL hdom hg hoff hroot hparts halpha hmdp hpos hev

/-- the remainder check accepts the remainder computed by `set_remainder` (no
`RemainderDegreeMismatch`, no `InvalidRemainderFolding`) -/
theorem verifier_remainder_complete (v : Verifier K) (st : LoopState K) {m : Nat} (blowup : Nat)
    (c : Nat → K) (hg : IsPrimitiveRoot st.g m) (hm : 0 < m) (hoff : v.offset ≠ 0)
    (hc : ∀ k, m / blowup ≤ k → c k = 0) (hmdp : m / blowup ≤ st.mdp1)
    (hev : st.evaluations = st.positions.map fun p => polyEval c m (v.offset * st.g ^ p)) :
    verifyRemainder (fieldOps K) v st
      (remainderPoly (fieldOps K) st.g v.offset blowup
        ((List.range m).map fun p => polyEval c m (v.offset * st.g ^ p))) true = .ok () :=
  verifyRemainder_honest v st blowup c hg hm hoff hc hmdp hev

/-- FRI COMPLETENESS, END TO END AT THE MODEL LEVEL.  For every field with a primitive root `g` of
order `N^k·m`, every supported folding factor `N`, blowup `b > 0`, `m = r·b`, `k` = the number of
FRI layers for this domain, every polynomial with at most `N^k·r` coefficients (degree `≤` the
declared bound `N^k·r − 1`; lower degrees included since higher coefficients may be zero), every
list of challenges and EVERY list of query positions inside the domain (duplicates allowed):
the prover model (`build_layers`, `set_remainder`, `build_proof`) runs without panic and
`FriVerifier::verify` returns `Ok` on what it produced — given that the Merkle openings verify
(`merkleOk`) and the remainder hashes to its commitment (`remainderOk`), which is C18's / C15's
business. -/
theorem fri_complete (o : FriOptions) {N : Nat} (hfold : o.folding = N) (hsup : supportedFolding N = true)
    (m r k : Nat) (hr : 0 < r) (hmr : m = r * o.blowup) (hb : 0 < o.blowup)
    (hk : o.numFriLayers (N ^ k * m) = k) (g offset : K) (hg : IsPrimitiveRoot g (N ^ k * m))
    (hoff : offset ≠ 0) (c : Nat → K) (hc : ∀ j, N ^ k * r ≤ j → c j = 0) (alphas : List K)
    (hα : k ≤ alphas.length) (positions : List Nat) (hpos : ∀ p ∈ positions, p < N ^ k * m) :
    ∃ layers remainder opened,
      buildLayers (fieldOps K) o g offset alphas
        ((List.range (N ^ k * m)).map fun p => polyEval c (N ^ k * r) (offset * g ^ p)) =
          some (layers, remainder) ∧
      buildProofLayers N layers positions (N ^ k * m) = some opened ∧
      verify (fieldOps K)
        { maxPolyDegree := N ^ k * r - 1, domainSize := N ^ k * m, g := g, offset := offset,
          options := o, numPartitions := 1, alphas := alphas }
        (positions.map fun p => polyEval c (N ^ k * r) (offset * g ^ p)) positions
        (opened.map fun rows => { rows := rows, merkleOk := true }) remainder true = .ok () ∧
      opened.length = k :=
  verify_buildProof o hfold hsup m r k hr hmr hb hk g offset hg hoff c hc alphas hα positions hpos

/-- THE SAME THROUGH `DefaultVerifierChannel::new` AND `FriVerifier::new`: the verifier is built
from the declared degree bound alone — domain size `(max_poly_degree + 1).next_power_of_two()·blowup`
(after the fix 7510a16; this covers the bound 1, `N^k·r = 2`, which the unfixed code rejected),
`k + 1` commitments, as many proof layers as commitments minus one, the constructor's
`DegreeTruncation` check passes — and accepts. -/
theorem fri_complete_from_bound (o : FriOptions) {N : Nat} (hfold : o.folding = N)
    (hsup : supportedFolding N = true) (m r k a : Nat) (hr : 0 < r) (hmr : m = r * o.blowup)
    (hb : 0 < o.blowup) (hpow2 : N ^ k * r = 2 ^ a) (hk : o.numFriLayers (N ^ k * m) = k)
    (gOf : Nat → K) (offset : K) (hg : IsPrimitiveRoot (gOf (N ^ k * m)) (N ^ k * m)) (hoff : offset ≠ 0)
    (c : Nat → K) (hc : ∀ j, N ^ k * r ≤ j → c j = 0) (alphas : List K) (hα : alphas.length = k + 1)
    (positions : List Nat) (hpos : ∀ p ∈ positions, p < N ^ k * m) :
    ∃ layers remainder opened,
      buildLayers (fieldOps K) o (gOf (N ^ k * m)) offset alphas
        ((List.range (N ^ k * m)).map fun p => polyEval c (N ^ k * r) (offset * gOf (N ^ k * m) ^ p)) =
          some (layers, remainder) ∧
      buildProofLayers N layers positions (N ^ k * m) = some opened ∧
      newAndVerify (fieldOps K) o (N ^ k * r - 1) 1 gOf offset alphas
        (positions.map fun p => polyEval c (N ^ k * r) (offset * gOf (N ^ k * m) ^ p)) positions
        (opened.map fun rows => { rows := rows, merkleOk := true }) remainder true = .ok () :=
  newAndVerify_buildProof o hfold hsup m r k a hr hmr hb hpow2 hk gOf offset hg hoff c hc alphas hα
    positions hpos

/-- the verifier's domain size for a bound `2^a − 1` is `2^a·blowup`, for every `a` (in particular
`a = 1`, the degree-1 bound) -/
theorem verifier_domain_size (a blowup : Nat) :
    nextPow2 (2 ^ a - 1 + 1) * blowup = 2 ^ a * blowup := by
  have : 2 ^ a - 1 + 1 = 2 ^ a := by have := Nat.two_pow_pos a; omega
  rw [this, nextPow2_two_pow]

/-- the hypothesis `numFriLayers (N^k·m) = k` of `fri_complete` holds whenever the final domain
`m` fits the remainder bound and the domain one folding earlier does not -/
theorem num_fri_layers_of_sizes (o : FriOptions) (m k : Nat) (hff : 2 ≤ o.folding)
    (hm : m ≤ (o.rmd + 1) * o.blowup) (hprev : 0 < k → (o.rmd + 1) * o.blowup < o.folding * m) :
    o.numFriLayers (o.folding ^ k * m) = k := by
  have hpos : 0 < o.folding := by omega
  have hsize : ∀ j, j ≤ k → foldedSize o.folding j (o.folding ^ k * m) = o.folding ^ (k - j) * m := by
    intro j hj
    rw [foldedSize_eq_div]
    obtain ⟨d, rfl⟩ := Nat.exists_eq_add_of_le hj
    rw [Nat.add_sub_cancel_left, Nat.pow_add, Nat.mul_assoc, Nat.mul_div_cancel_left _ (Nat.pow_pos hpos)]
  obtain ⟨h1, h2⟩ := num_fri_layers_spec o (o.folding ^ k * m) hff
  rcases Nat.lt_trichotomy (o.numFriLayers (o.folding ^ k * m)) k with hlt | heq | hgt
  · -- stopping before `k` foldings leaves a domain of at least `N·m` points
    exfalso
    have hs := hsize _ (Nat.le_of_lt hlt)
    rw [hs] at h1
    obtain ⟨d, hd⟩ : ∃ d, k - o.numFriLayers (o.folding ^ k * m) = d + 1 := ⟨_, (Nat.succ_pred_eq_of_pos (by omega)).symm⟩
    rw [hd, Nat.pow_succ] at h1
    have : o.folding * m ≤ o.folding ^ d * o.folding * m := by
      rw [Nat.mul_comm (o.folding ^ d)]
      exact Nat.mul_le_mul_right _ (Nat.le_mul_of_pos_right _ (Nat.pow_pos hpos))
    have := hprev (by omega)
    omega
  · exact heq
  · exfalso
    have := h2 k hgt
    rw [hsize k (Nat.le_refl _), Nat.sub_self, Nat.pow_zero, Nat.one_mul] at this
    omega

/-! ## non-vacuity: a concrete instance over GF(17) evaluated by the kernel -/

/-- integers modulo 17 with Fermat inversion; `2` has order 8, offset `3` -/
def ops17 : FieldOps Nat := { natOps 17 with inv := fun a => a ^ 15 % 17 }

/-- evaluations of `1 + 2x + 3x² + 4x³` over `3·<2>` (8 points, blowup 2) -/
def evals8 : List Nat := (List.range 8).map fun p => evalPoly ops17 [1, 2, 3, 4] (3 * 2 ^ p % 17)

/-- prover model then verifier model on these evaluations -/
def run17 (o : FriOptions) (alphas : List Nat) (ps : List Nat) : Option (Res Unit) :=
  (buildLayers ops17 o 2 3 alphas evals8).bind fun lr =>
    (buildProofLayers o.folding lr.1 ps 8).map fun opened =>
      verify ops17
        { maxPolyDegree := 3, domainSize := 8, g := 2, offset := 3, options := o, numPartitions := 1,
          alphas := alphas }
        (ps.map (evals8.getD · 0)) ps (opened.map fun rows => { rows := rows, merkleOk := true }) lr.2 true

/-- a size-8 folding with `N = 2`, `α = 5`: the folded vector is the evaluation of
`f'(y) = (1 + 5·2) + (3 + 5·4)·y` at the squares of the first four domain points -/
example :
    evals8 = [6, 16, 8, 4, 16, 15, 8, 3] ∧
    transposeRows 2 evals8 = some [[6, 16], [16, 15], [8, 8], [4, 3]] ∧
    applyDrp ops17 2 2 3 5 [[6, 16], [16, 15], [8, 8], [4, 3]] =
      (List.range 4).map (fun i => evalPoly ops17 [11, 23] ((3 * 2 ^ i) ^ 2 % 17)) ∧
    foldRows ops17 5 (layerXs ops17 2 3 (foldingRoots ops17 2 8 2) [0, 1, 2, 3])
        [[6, 16], [16, 15], [8, 8], [4, 3]] =
      some (applyDrp ops17 2 2 3 5 [[6, 16], [16, 15], [8, 8], [4, 3]]) := by
  decide +kernel

/-- two layers (remainder degree 0) and one layer (remainder degree 1), positions with duplicates:
the prover model runs and the verifier model accepts; indices and layer counts as in the theorems -/
example :
    ({ blowup := 2, folding := 2, rmd := 0 } : FriOptions).numFriLayers 8 = 2 ∧
    run17 { blowup := 2, folding := 2, rmd := 0 } [5, 7, 11] [5, 1, 5] = some (.ok ()) ∧
    run17 { blowup := 2, folding := 2, rmd := 1 } [5, 7] [5, 2, 5, 6] = some (.ok ()) ∧
    foldPositions [5, 1, 5, 7, 3] 8 2 = some [1, 3] ∧
    mapPositionsToIndexes [0, 1, 2, 3, 4, 5, 6, 7] 16 2 4 = some [0, 2, 4, 6, 1, 3, 5, 7] := by
  decide +kernel

/-- THE DEGREE-1 BOUND through `FriVerifier::new` (domain `(1 + 1).next_power_of_two()·4 = 8`):
evaluations of `1 + 2x` and of the constant `7`, one layer, accepted -/
def run17new (coeffs : List Nat) (ps : List Nat) : Option (Res Unit) :=
  let o : FriOptions := { blowup := 4, folding := 2, rmd := 0 }
  let evals := (List.range 8).map fun p => evalPoly ops17 coeffs (3 * 2 ^ p % 17)
  (buildLayers ops17 o 2 3 [5, 7] evals).bind fun lr =>
    (buildProofLayers 2 lr.1 ps 8).map fun opened =>
      newAndVerify ops17 o 1 1 (fun _ => 2) 3 [5, 7] (ps.map (evals.getD · 0)) ps
        (opened.map fun rows => { rows := rows, merkleOk := true }) lr.2 true

example :
    nextPow2 (1 + 1) * 4 = 8 ∧ nextPow2 (0 + 1) * 8 = 8 ∧ nextPow2 (7 + 1) * 2 = 16 ∧
    run17new [1, 2] [5, 0, 5, 3] = some (.ok ()) ∧ run17new [7] [1, 6] = some (.ok ()) := by
  decide +kernel

/-- the hypotheses of `fri_complete` are satisfiable: GF(17) = `ZMod 17`, `2` is a primitive 8th
root of unity, two layers of folding factor 2, query positions with a duplicate -/
instance : Fact (Nat.Prime 17) := ⟨by norm_num⟩

theorem primitiveRoot_two_zmod17 : IsPrimitiveRoot (2 : ZMod 17) 8 := by
  apply IsPrimitiveRoot.mk_of_lt _ (by norm_num) (by decide)
  intro l h0 h8
  interval_cases l <;> decide

example : ∃ layers remainder opened,
    buildLayers (fieldOps (ZMod 17)) { blowup := 2, folding := 2, rmd := 0 } 2 3 [5, 7, 11]
      ((List.range (2 ^ 2 * 2)).map fun p =>
        polyEval (fun j => if j < 4 then ((j + 1 : Nat) : ZMod 17) else 0) (2 ^ 2 * 1) (3 * 2 ^ p)) =
        some (layers, remainder) ∧
    buildProofLayers 2 layers [5, 1, 5] (2 ^ 2 * 2) = some opened ∧
    verify (fieldOps (ZMod 17))
      { maxPolyDegree := 2 ^ 2 * 1 - 1, domainSize := 2 ^ 2 * 2, g := 2, offset := 3,
        options := { blowup := 2, folding := 2, rmd := 0 }, numPartitions := 1, alphas := [5, 7, 11] }
      ([5, 1, 5].map fun p =>
        polyEval (fun j => if j < 4 then ((j + 1 : Nat) : ZMod 17) else 0) (2 ^ 2 * 1) (3 * 2 ^ p))
      [5, 1, 5] (opened.map fun rows => { rows := rows, merkleOk := true }) remainder true = .ok () ∧
    opened.length = 2 :=
  fri_complete { blowup := 2, folding := 2, rmd := 0 } rfl (by decide) 2 1 2 (by decide) (by decide)
    (by decide) (by decide) (2 : ZMod 17) (3 : ZMod 17) primitiveRoot_two_zmod17 (by decide) _
    (by intro j hj; have : ¬ j < 4 := by simp at hj; omega
        simp only [if_neg this]) [5, 7, 11] (by decide) [5, 1, 5]
    (by decide)

/-- `fri_complete_from_bound` at the degree-1 bound (`N^k·r = 2^1`), blowup 4, over `ZMod 17` -/
example : ∃ layers remainder opened,
    buildLayers (fieldOps (ZMod 17)) { blowup := 4, folding := 2, rmd := 0 } 2 3 [5, 7]
      ((List.range (2 ^ 1 * 4)).map fun p =>
        polyEval (fun j => if j < 2 then ((j + 1 : Nat) : ZMod 17) else 0) (2 ^ 1 * 1) (3 * 2 ^ p)) =
        some (layers, remainder) ∧
    buildProofLayers 2 layers [5, 0, 5] (2 ^ 1 * 4) = some opened ∧
    newAndVerify (fieldOps (ZMod 17)) { blowup := 4, folding := 2, rmd := 0 } (2 ^ 1 * 1 - 1) 1
      (fun _ => (2 : ZMod 17)) 3 [5, 7]
      ([5, 0, 5].map fun p =>
        polyEval (fun j => if j < 2 then ((j + 1 : Nat) : ZMod 17) else 0) (2 ^ 1 * 1) (3 * 2 ^ p))
      [5, 0, 5] (opened.map fun rows => { rows := rows, merkleOk := true }) remainder true = .ok () :=
  fri_complete_from_bound { blowup := 4, folding := 2, rmd := 0 } rfl (by decide) 4 1 1 1 (by decide)
    (by decide) (by decide) (by decide) (by decide) (fun _ => (2 : ZMod 17)) (3 : ZMod 17)
    primitiveRoot_two_zmod17 (by decide) _
    (by intro j hj; have : ¬ j < 2 := by simp at hj; omega
        simp only [if_neg this]) [5, 7] (by decide) [5, 0, 5] (by decide)

end Wf.Props.C08
