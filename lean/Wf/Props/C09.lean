/-
C09 — FRI rejects far-from-low-degree data and inconsistent openings.

Model: `Wf/Model/Fri.lean` (see `Wf/Props/C08.lean` for what is modelled and what is an input).
What CAN be proved is the decision logic and the algebra of the verifier: `verify = ok` implies
every fact the verifier is supposed to have checked; a failed Merkle check, a remainder that does
not match its commitment, a remainder longer than the declared bound allows, or a declared bound
that does not divide evenly is ALWAYS an error.  Rejection of one particular far-from-low-degree
vector depends on which positions are drawn (probabilistic soundness) and is not a theorem here;
it is exercised on generated instances by the correspondence stream `c09`.

  §1  accept ⇒ checked facts (lengths, every layer, degree bookkeeping, remainder)
  §2  understated bound ⇒ error;  uncommitted remainder ⇒ error;  bad opening ⇒ error
  §3  the adaptive attack of the property: a substituted remainder that agrees with the folded
      evaluations at every queried point passes every ALGEBRAIC check (so the commitment
      comparison is the only thing that stops it) and is rejected by the commitment comparison
-/
import Wf.Lemmas.FriAlgebra
import Wf.Model.Fields
namespace Wf.Props.C09
open Wf Wf.Fri Finset

/-! ## §1 accept ⇒ checked facts -/

/-- `verify = Ok` implies: as many evaluations as positions; a supported folding factor; an
accepted run of `num_fri_layers` iterations (`LoopRun`, every link a `LayerChecked`); the remainder
matches its commitment; its length is within the folded degree bound; and at every queried
last-layer position the remainder polynomial evaluates (reversed Horner) to the folded value. -/
theorem accept_implies_checked {F} (ops : FieldOps F) (v : Verifier F) (evaluations : List F)
    (positions : List Nat) (openings : List (LayerOpening F)) (remainder : List F) (remainderOk : Bool)
    (h : verify ops v evaluations positions openings remainder remainderOk = .ok ()) :
    evaluations.length = positions.length ∧ supportedFolding v.options.folding = true ∧
    ∃ st, LoopRun ops v (v.options.numFriLayers v.domainSize) 0
        { g := v.g, domainSize := v.domainSize, mdp1 := v.maxPolyDegree + 1,
          positions := positions, evaluations := evaluations } openings st ∧
      remainderOk = true ∧ remainder.length ≤ st.mdp1 ∧
      ∀ pe ∈ st.positions.zip st.evaluations,
        ops.beq (evalHornerRev ops remainder (ops.mul v.offset (pow ops st.g pe.1))) pe.2 = true := by
  obtain ⟨h1, h2, st, hrun, hrem⟩ := verify_ok ops v evaluations positions openings remainder remainderOk h
  obtain ⟨h3, h4, h5⟩ := verifyRemainder_ok ops v st remainder remainderOk hrem
  exact ⟨h1, h2, st, hrun, h3, h4, (checkRemainder_iff ops st.g v.offset remainder _ _).mp h5⟩

/-- what one accepted iteration has checked (`LayerChecked` spelled out): the positions were
folded as `fold_positions` does; the Merkle opening verified; the values looked up by
`get_query_values` in the opened rows EQUAL the evaluations carried from the previous layer; the
next evaluations are, row by row, the value at `alpha` of the interpolant of the opened row over
its coset (the folding relation at every queried position); the degree bound was divisible. -/
theorem layer_checked_facts {F} (ops : FieldOps F) (v : Verifier F) (depth : Nat) (st st' : LoopState F)
    (o : LayerOpening F) (h : verifyLayer ops v depth st o = .ok st') :
    foldPositions st.positions st.domainSize v.options.folding = some st'.positions ∧
    o.merkleOk = true ∧
    (∃ qv, getQueryValues o.rows st.positions st'.positions st.domainSize v.options.folding = some qv ∧
      listBeq ops st.evaluations qv = true) ∧
    (∃ alpha, v.alphas[depth]? = some alpha ∧
      st'.evaluations.length = st'.positions.length ∧
      ∀ i (h1 : i < st'.positions.length) (h2 : i < o.rows.length) (h3 : i < st'.evaluations.length),
        st'.evaluations[i] =
          lagrangeEval ops
            ((foldingRoots ops v.g v.domainSize v.options.folding).map fun r =>
              ops.mul (ops.mul (pow ops st.g st'.positions[i]) v.offset) r)
            o.rows[i] alpha) ∧
    st.mdp1 % v.options.folding = 0 ∧ st'.mdp1 = st.mdp1 / v.options.folding := by
  have hc := verifyLayer_ok ops v depth st st' o h
  obtain ⟨alpha, ha, hf⟩ := hc.folding
  obtain ⟨hl, _, hrow⟩ := foldRows_some ops alpha _ _ _ hf
  refine ⟨hc.folded, hc.merkle, hc.queryValues, ⟨alpha, ha, ?_, ?_⟩, hc.degree, hc.mdp1⟩
  · simpa [layerXs] using hl
  · intro i h1 h2 h3
    have := hrow i (by simpa [layerXs] using h1) h2 h3
    simpa [layerXs] using this

/-- every one of the `num_fri_layers` iterations of an accepted verification has such a checked
layer (the `i`-th opening, at depth `i`) -/
theorem accept_implies_every_layer_checked {F} (ops : FieldOps F) (v : Verifier F) (evaluations : List F)
    (positions : List Nat) (openings : List (LayerOpening F)) (remainder : List F) (remainderOk : Bool)
    (h : verify ops v evaluations positions openings remainder remainderOk = .ok ()) :
    ∀ i < v.options.numFriLayers v.domainSize, ∃ (o : LayerOpening F) (s1 s2 : LoopState F),
      openings[i]? = some o ∧ LayerChecked ops v i s1 o s2 := by
  obtain ⟨_, _, st, hrun, _⟩ := verify_ok ops v evaluations positions openings remainder remainderOk h
  intro i hi
  obtain ⟨o, s1, s2, ho, hc⟩ := hrun.nth i hi
  exact ⟨o, s1, s2, ho, by simpa using hc⟩

/-! ## §2 what is always an error -/

/-- DEGREE BOOKKEEPING: acceptance implies that `N^k` (`k` = number of layers) divides the declared
`max_poly_degree + 1` and that the remainder has at most `(max_poly_degree + 1) / N^k`
coefficients.  Contrapositive: an understated bound — the true remainder longer than the declared
degree allows, or a declared degree that does not fold evenly — is rejected, whatever the data. -/
theorem accept_implies_degree_bound {F} (ops : FieldOps F) (v : Verifier F) (evaluations : List F)
    (positions : List Nat) (openings : List (LayerOpening F)) (remainder : List F) (remainderOk : Bool)
    (h : verify ops v evaluations positions openings remainder remainderOk = .ok ()) :
    v.options.folding ^ (v.options.numFriLayers v.domainSize) ∣ v.maxPolyDegree + 1 ∧
    remainder.length * v.options.folding ^ (v.options.numFriLayers v.domainSize) ≤ v.maxPolyDegree + 1 := by
  obtain ⟨_, _, st, hrun, hrem⟩ := verify_ok ops v evaluations positions openings remainder remainderOk h
  obtain ⟨_, hlen, _⟩ := verifyRemainder_ok ops v st remainder remainderOk hrem
  have hm := hrun.mdp1.1
  simp only at hm
  refine ⟨⟨st.mdp1, by rw [hm, Nat.mul_comm]⟩, ?_⟩
  rw [hm]
  exact Nat.mul_le_mul_right _ hlen

theorem understated_bound_rejected {F} (ops : FieldOps F) (v : Verifier F) (evaluations : List F)
    (positions : List Nat) (openings : List (LayerOpening F)) (remainder : List F) (remainderOk : Bool)
    (hunder : v.maxPolyDegree + 1 <
      remainder.length * v.options.folding ^ (v.options.numFriLayers v.domainSize)) :
    verify ops v evaluations positions openings remainder remainderOk ≠ .ok () := by
  intro h
  have := (accept_implies_degree_bound ops v evaluations positions openings remainder remainderOk h).2
  omega

/-- the error kinds of the degree bookkeeping: after the loop a too long remainder is
`RemainderDegreeMismatch`; inside the loop (all earlier checks of the iteration passed is not
even needed for the statement about acceptance) a non-divisible bound never yields `ok` -/
theorem remainder_too_long_error {F} (ops : FieldOps F) (v : Verifier F) (st : LoopState F)
    (remainder : List F) (hlen : st.mdp1 < remainder.length) :
    verifyRemainder ops v st remainder true = .err (.remainderDegreeMismatch (st.mdp1 - 1)) :=
  verifyRemainder_too_long ops v st remainder hlen

theorem degree_truncation_never_ok {F} (ops : FieldOps F) (v : Verifier F) (depth : Nat)
    (st st' : LoopState F) (o : LayerOpening F) (hmod : st.mdp1 % v.options.folding ≠ 0) :
    verifyLayer ops v depth st o ≠ .ok st' := by
  intro h
  exact hmod (verifyLayer_ok ops v depth st st' o h).degree

/-- `FriVerifier::new`: if the constructor's check passes, the declared bound folds evenly at every
depth except possibly the last commitment (the remainder's) -/
theorem new_check_passes_implies {folding maxPolyDegree numCommitments : Nat}
    (h : newCheck folding maxPolyDegree numCommitments = none) :
    ∀ i, i + 1 < numCommitments → foldedSize folding i (maxPolyDegree + 1) % folding = 0 := by
  intro i hi
  have := newCheckGo_none folding numCommitments numCommitments 0 (maxPolyDegree + 1) h i (by omega)
    (by omega)
  exact this

/-- THE FIX (`RemainderCommitmentMismatch`): a remainder that does not hash to the last layer
commitment is never accepted, whatever its coefficients and whatever the queried positions; if the
layers pass, the error is exactly `RemainderCommitmentMismatch`. -/
theorem uncommitted_remainder_rejected {F} (ops : FieldOps F) (v : Verifier F) (evaluations : List F)
    (positions : List Nat) (openings : List (LayerOpening F)) (remainder : List F) :
    verify ops v evaluations positions openings remainder false ≠ .ok () ∧
    ∀ st, verifyRemainder ops v st remainder false = .err .remainderCommitmentMismatch := by
  refine ⟨fun h => ?_, fun st => verifyRemainder_uncommitted ops v st remainder⟩
  have := (accept_implies_checked ops v evaluations positions openings remainder false h).2.2
  obtain ⟨_, _, hf, _⟩ := this
  cases hf

/-- a revealed layer whose Merkle opening does not verify (any altered value, under collision
resistance of the hash — that part is C18/C19) is never accepted -/
theorem bad_opening_rejected {F} (ops : FieldOps F) (v : Verifier F) (evaluations : List F)
    (positions : List Nat) (openings : List (LayerOpening F)) (remainder : List F) (remainderOk : Bool)
    (o : LayerOpening F) (ho : o ∈ openings.take (v.options.numFriLayers v.domainSize))
    (hbad : o.merkleOk = false) :
    verify ops v evaluations positions openings remainder remainderOk ≠ .ok () := by
  intro h
  unfold verify at h
  split at h
  · cases h
  · split at h
    · cases h
    · split at h
      · rename_i st hst
        have := verifyLoop_merkle_fail ops v _ _ _ _ _ hst o ho
        rw [hbad] at this
        cases this
      · cases h
      · cases h

/-- the values a layer reveals must agree with the previous layer's folded evaluations: if the
looked-up query values differ from the carried evaluations the iteration is not accepted -/
theorem inconsistent_layer_values_rejected {F} (ops : FieldOps F) (v : Verifier F) (depth : Nat)
    (st st' : LoopState F) (o : LayerOpening F)
    (hbad : ∀ folded qv, foldPositions st.positions st.domainSize v.options.folding = some folded →
      getQueryValues o.rows st.positions folded st.domainSize v.options.folding = some qv →
      listBeq ops st.evaluations qv = false) :
    verifyLayer ops v depth st o ≠ .ok st' := by
  intro h
  have hc := verifyLayer_ok ops v depth st st' o h
  obtain ⟨qv, h1, h2⟩ := hc.queryValues
  rw [hbad _ qv hc.folded h1] at h2
  cases h2

/-- EVERY QUERY IS CHECKED SEPARATELY: in an accepted iteration, for EVERY index `i` of the position
list — duplicates and positions that fold into the same row (`p ≡ p' mod domain/N`) included,
whatever their order — the evaluation carried for `positions[i]` equals the element of the opened
rows at row `position(folded, positions[i] % rowLen)`, column `positions[i] / rowLen`.  (No
"first query per leaf" shortcut: the comparison is `evaluations == get_query_values(..)` on whole
vectors.) -/
theorem every_query_checked {F} (ops : FieldOps F) (v : Verifier F) (depth : Nat) (st st' : LoopState F)
    (o : LayerOpening F) (h : verifyLayer ops v depth st o = .ok st') :
    ∀ i (h1 : i < st.positions.length), ∃ (h2 : i < st.evaluations.length) (idx : Nat) (row : List F) (val : F),
      st'.positions.findIdx? (· == st.positions[i] % (st.domainSize / v.options.folding)) = some idx ∧
      o.rows[idx]? = some row ∧
      row[st.positions[i] / (st.domainSize / v.options.folding)]? = some val ∧
      ops.beq st.evaluations[i] val = true := by
  have hc := verifyLayer_ok ops v depth st st' o h
  obtain ⟨qv, hq, hb⟩ := hc.queryValues
  obtain ⟨hlen, hrows⟩ := getQueryValues_some _ _ _ _ _ qv hq
  obtain ⟨hl2, hpt⟩ := listBeq_pointwise ops _ _ hb
  intro i h1
  have hi2 : i < qv.length := by omega
  have hi3 : i < st.evaluations.length := by omega
  obtain ⟨idx, row, ha, hb', hc'⟩ := hrows i h1 hi2
  exact ⟨hi3, idx, row, qv[i], ha, hb', hc', hpt i hi3 hi2⟩

/-- FEWER (OR MORE) LAYERS THAN COMMITTED (fix 14a37ea): a proof whose number of layers is not the
number of commitments minus one is rejected by `DefaultVerifierChannel::new` with an error, before
anything is taken out of the channel — never a panic. -/
theorem layer_count_mismatch_rejected {F} (ops : FieldOps F) (o : FriOptions) (maxPolyDegree numPartitions : Nat)
    (gOf : Nat → F) (offset : F) (alphas evaluations : List F) (positions : List Nat)
    (openings : List (LayerOpening F)) (remainder : List F) (remainderOk : Bool)
    (h : openings.length + 1 ≠ alphas.length) :
    newAndVerify ops o maxPolyDegree numPartitions gOf offset alphas evaluations positions openings
      remainder remainderOk = .err (.proofLayerCountMismatch (alphas.length - 1) openings.length) :=
  newAndVerify_layer_count ops o maxPolyDegree numPartitions gOf offset alphas evaluations positions
    openings remainder remainderOk h

/-- with at least as many openings as iterations the loop itself never runs out of layers
(`Vec::remove(0)` on an empty vector is unreachable): an abort of the loop is an abort inside one
particular iteration (out-of-range position / malformed rows, excluded by the Merkle check and the
position range in the real protocol) -/
theorem loop_never_exhausts_channel {F} (ops : FieldOps F) (v : Verifier F) (k depth : Nat)
    (st : LoopState F) (os : List (LayerOpening F)) (hlen : k ≤ os.length)
    (h : verifyLoop ops v k depth st os = .abort) :
    ∃ (i : Nat) (s : LoopState F) (o : LayerOpening F), i < k ∧ os[i]? = some o ∧
      verifyLayer ops v (depth + i) s o = .abort :=
  verifyLoop_exhausted ops v k depth st os hlen h

/-! ## §3 the adaptive substitution of the remainder -/

variable {K : Type} [Field K] [DecidableEq K]

/-- Once the positions are known, ANY other coefficient list of admissible length that takes the
same values as the committed remainder at the queried last-layer points passes the degree check and
the evaluation check: the algebra alone cannot tell it from the committed one.  (Such a list
exists whenever there are fewer distinct last-layer positions than remainder coefficients: add a
multiple of `Π (x − x_p)`.)  Only `remainderOk`, the comparison with the commitment sent BEFORE the
positions were drawn, separates the two — see `uncommitted_remainder_rejected`. -/
theorem adaptive_remainder_passes_algebraic_checks (v : Verifier K) (st : LoopState K)
    (r r' : List K) (hok : verifyRemainder (fieldOps K) v st r true = .ok ())
    (hlen : r'.length ≤ st.mdp1)
    (hagree : ∀ p ∈ st.positions, evalHornerRev (fieldOps K) r' (v.offset * st.g ^ p) =
      evalHornerRev (fieldOps K) r (v.offset * st.g ^ p)) :
    verifyRemainder (fieldOps K) v st r' true = .ok () ∧
    verifyRemainder (fieldOps K) v st r' false = .err .remainderCommitmentMismatch := by
  refine ⟨?_, verifyRemainder_uncommitted _ v st r'⟩
  obtain ⟨_, _, hck⟩ := verifyRemainder_ok _ v st r true hok
  have hck' : checkRemainder (fieldOps K) st.g v.offset r' st.positions st.evaluations = true := by
    rw [checkRemainder_iff] at hck ⊢
    intro pe hpe
    have := hck pe hpe
    have hp : pe.1 ∈ st.positions := (List.of_mem_zip hpe).1
    simp only [fo_beq, fo_mul, pow_eq, decide_eq_true_eq] at this ⊢
    rw [hagree pe.1 hp]
    exact this
  unfold verifyRemainder
  simp only [Bool.not_true, Bool.false_eq_true, if_false]
  rw [if_neg (by omega), if_pos hck']

/-- ANY ALTERED SUPPLIED EVALUATION IS REJECTED: the transcript (positions, opened layers,
remainder) pins down the whole vector of query evaluations, so if one vector is accepted every
other vector — differing in one entry or many, at the first, the last, a duplicated or a
coset-colliding position, listed before or after its partner — is not.  No distinctness hypothesis
on the positions; holds with zero layers (remainder check) as well. -/
theorem altered_evaluation_rejected (v : Verifier K) (ev ev' : List K) (positions : List Nat)
    (openings : List (LayerOpening K)) (remainder : List K) (remOk remOk' : Bool)
    (h : verify (fieldOps K) v ev positions openings remainder remOk = .ok ()) (hne : ev' ≠ ev) :
    verify (fieldOps K) v ev' positions openings remainder remOk' ≠ .ok () :=
  fun h' => hne (accepted_evaluations_unique v ev ev' positions openings remainder remOk remOk' h h').symm

/-- the substitution itself: `r' = r + t·Π_{p}(x − x_p)` (as reversed coefficient lists of equal
length: any `z` whose polynomial vanishes at the queried points) agrees with `r` at those points -/
theorem substituted_remainder_agrees (r z : List K) (x : K)
    (hz : evalHornerRev (fieldOps K) z x = 0) (hlen : z.length = r.length) :
    evalHornerRev (fieldOps K) (List.zipWith (· + ·) r z) x = evalHornerRev (fieldOps K) r x := by
  have key : ∀ (r z : List K) (a b : K), z.length = r.length →
      List.foldl (fun acc c => acc * x + c) (a + b) (List.zipWith (· + ·) r z) =
        List.foldl (fun acc c => acc * x + c) a r + List.foldl (fun acc c => acc * x + c) b z := by
    intro r
    induction r with
    | nil => intro z a b h; cases z <;> simp_all
    | cons c r ih =>
      intro z a b h
      cases z with
      | nil => simp at h
      | cons d z =>
        simp only [List.zipWith_cons_cons, List.foldl_cons]
        rw [show (a + b) * x + (c + d) = (a * x + c) + (b * x + d) by ring]
        exact ih z _ _ (by simpa using h)
  have := key r z 0 0 hlen
  simp only [add_zero] at this
  unfold evalHornerRev at hz ⊢
  simp only [fo_add, fo_mul, fo_zero] at hz ⊢
  rw [this, hz, add_zero]

/-! ## non-vacuity: concrete instances over GF(17) evaluated by the kernel -/

def ops17 : FieldOps Nat := { natOps 17 with inv := fun a => a ^ 15 % 17 }

def evals8 : List Nat := (List.range 8).map fun p => evalPoly ops17 [1, 2, 3, 4] (3 * 2 ^ p % 17)

/-- prover model on `evals` (declared degree bound `maxDeg`), then the verifier model on a
transcript edited by `tweakRem` / `tweakEvals`, with the given commitment verdict -/
def run17 (o : FriOptions) (evals : List Nat) (maxDeg : Nat) (alphas : List Nat) (ps : List Nat)
    (tweakRem : List Nat → List Nat) (remOk : Bool) (merkle : Bool) : Option (Res Unit) :=
  (buildLayers ops17 o 2 3 alphas evals).bind fun lr =>
    (buildProofLayers o.folding lr.1 ps 8).map fun opened =>
      verify ops17
        { maxPolyDegree := maxDeg, domainSize := 8, g := 2, offset := 3, options := o, numPartitions := 1,
          alphas := alphas }
        (ps.map (evals.getD · 0)) ps (opened.map fun rows => { rows := rows, merkleOk := merkle })
        (tweakRem lr.2) remOk

/-- (1) honest: ok.  (2) evaluations of a degree-5 polynomial against the bound 3: rejected at the
remainder.  (3) understated bound 2: `DegreeTruncation`; understated bound 1 with a two-coefficient
remainder: `RemainderDegreeMismatch`.  (4) failed Merkle check: `LayerCommitmentMismatch`.
(5) one remainder coefficient altered but (hypothetically) matching the commitment:
`InvalidRemainderFolding`.  (6) THE ADAPTIVE ATTACK: one query, last-layer point `x = 3·4 = 12`,
remainder `h + (x − 12)`: every algebraic check passes (`ok` when the commitment comparison is
skipped), the commitment comparison rejects it, and so does a second query. -/
example :
    run17 { blowup := 2, folding := 2, rmd := 1 } evals8 3 [5, 7] [5] id true true = some (.ok ()) ∧
    run17 { blowup := 2, folding := 2, rmd := 1 }
      ((List.range 8).map fun p => evalPoly ops17 [1, 2, 3, 4, 5, 6] (3 * 2 ^ p % 17)) 3 [5, 7] [5, 2, 7]
      id true true = some (.err .invalidRemainderFolding) ∧
    run17 { blowup := 2, folding := 2, rmd := 1 } evals8 2 [5, 7] [5] id true true =
      some (.err (.degreeTruncation 2 2 0)) ∧
    run17 { blowup := 2, folding := 2, rmd := 1 } evals8 1 [5, 7] [5] id true true =
      some (.err (.remainderDegreeMismatch 0)) ∧
    run17 { blowup := 2, folding := 2, rmd := 1 } evals8 3 [5, 7] [5] id true false =
      some (.err .layerCommitmentMismatch) ∧
    run17 { blowup := 2, folding := 2, rmd := 1 } evals8 3 [5, 7] [5]
      (fun r => [r.getD 0 0, (r.getD 1 0 + 1) % 17]) true true = some (.err .invalidRemainderFolding) ∧
    run17 { blowup := 2, folding := 2, rmd := 1 } evals8 3 [5, 7] [5]
      (fun r => [(r.getD 0 0 + 1) % 17, (r.getD 1 0 + 5) % 17]) true true = some (.ok ()) ∧
    run17 { blowup := 2, folding := 2, rmd := 1 } evals8 3 [5, 7] [5]
      (fun r => [(r.getD 0 0 + 1) % 17, (r.getD 1 0 + 5) % 17]) false true =
        some (.err .remainderCommitmentMismatch) ∧
    run17 { blowup := 2, folding := 2, rmd := 1 } evals8 3 [5, 7] [5, 2]
      (fun r => [(r.getD 0 0 + 1) % 17, (r.getD 1 0 + 5) % 17]) true true =
        some (.err .invalidRemainderFolding) := by
  decide +kernel

/-- a proof with its only layer dropped, and one with the layer repeated, through
`DefaultVerifierChannel::new`: an error, not a panic; the untouched proof is accepted -/
def run17new (edit : List (List (List Nat)) → List (List (List Nat))) : Option (Res Unit) :=
  let o : FriOptions := { blowup := 2, folding := 2, rmd := 1 }
  (buildLayers ops17 o 2 3 [5, 7] evals8).bind fun lr =>
    (buildProofLayers 2 lr.1 [5, 2] 8).map fun opened =>
      newAndVerify ops17 o 3 1 (fun _ => 2) 3 [5, 7] ([5, 2].map (evals8.getD · 0)) [5, 2]
        ((edit opened).map fun rows => { rows := rows, merkleOk := true }) lr.2 true

example :
    run17new id = some (.ok ()) ∧
    run17new (fun _ => []) = some (.err (.proofLayerCountMismatch 1 0)) ∧
    run17new (fun l => l ++ l) = some (.err (.proofLayerCountMismatch 1 2)) := by
  decide +kernel

/-- positions that share a folding coset (`5 ≡ 1 mod 8/2`), in both orders, and a duplicated
position: honest evaluations are accepted; a wrong evaluation for the later-listed partner, for
the earlier-listed partner, or for the second copy of a duplicate is `InvalidLayerFolding(0)` -/
def run17ev (ps : List Nat) (tweak : List Nat → List Nat) : Option (Res Unit) :=
  let o : FriOptions := { blowup := 2, folding := 2, rmd := 1 }
  (buildLayers ops17 o 2 3 [5, 7] evals8).bind fun lr =>
    (buildProofLayers 2 lr.1 ps 8).map fun opened =>
      newAndVerify ops17 o 3 1 (fun _ => 2) 3 [5, 7] (tweak (ps.map (evals8.getD · 0))) ps
        (opened.map fun rows => { rows := rows, merkleOk := true }) lr.2 true

example :
    foldPositions [5, 1] 8 2 = some [1] ∧
    run17ev [5, 1] id = some (.ok ()) ∧ run17ev [1, 5] id = some (.ok ()) ∧
    run17ev [6, 6] id = some (.ok ()) ∧
    run17ev [5, 1] (fun e => [e.getD 0 0, (e.getD 1 0 + 1) % 17]) = some (.err (.invalidLayerFolding 0)) ∧
    run17ev [5, 1] (fun e => [(e.getD 0 0 + 1) % 17, e.getD 1 0]) = some (.err (.invalidLayerFolding 0)) ∧
    run17ev [1, 5] (fun e => [e.getD 0 0, (e.getD 1 0 + 1) % 17]) = some (.err (.invalidLayerFolding 0)) ∧
    run17ev [6, 6] (fun e => [e.getD 0 0, (e.getD 1 0 + 1) % 17]) = some (.err (.invalidLayerFolding 0)) := by
  decide +kernel

end Wf.Props.C09
