/-
C03 — data revealed after the challenges must match earlier commitments.

What is a theorem here: the ORDER of the verifier's public-coin transcript
(`Wf/Model/Transcript.lean`, compared event by event with the real verifier through a logging coin):
every commitment (each trace segment, the constraint composition, the out-of-domain digest, every
FRI layer and the FRI remainder) is absorbed into the coin strictly BEFORE the query positions are
drawn, each exactly once, and nothing is absorbed afterwards.  Hence whatever the proof reveals
at the query positions was fixed before those positions existed.
That revealed rows which differ from the committed ones are then rejected is C19 (Merkle opening
under an injective `merge`) and C09 (FRI layer/remainder checks); on the real verifier it is
exercised by the substitution stream `c03` (every byte of the revealed components).
-/
import Wf.Model.Transcript
namespace Wf.Props.C03
open Wf.Transcript

def isReseed : Ev → Bool
  | .reseedTrace _ | .reseedConstraint | .reseedOod | .reseedFri _ => true
  | _ => false

theorem friEvents_length (k i : Nat) : (friEvents k i).length = 2 * k := by
  induction k generalizing i with
  | zero => rfl
  | succ k ih => simp [friEvents, ih]; omega

theorem friEvents_mem (k i : Nat) (e : Ev) (h : e ∈ friEvents k i) :
    e = .draws ∨ ∃ j, i ≤ j ∧ j < i + k ∧ e = .reseedFri j := by
  induction k generalizing i with
  | zero => simp [friEvents] at h
  | succ k ih =>
    simp only [friEvents, List.mem_cons] at h
    rcases h with h | h | h
    · exact Or.inr ⟨i, Nat.le_refl _, by omega, h⟩
    · exact Or.inl h
    · rcases ih (i + 1) h with h' | ⟨j, h1, h2, h3⟩
      · exact Or.inl h'
      · exact Or.inr ⟨j, by omega, by omega, h3⟩

theorem friEvents_contains (k i j : Nat) (h1 : i ≤ j) (h2 : j < i + k) : .reseedFri j ∈ friEvents k i := by
  induction k generalizing i with
  | zero => omega
  | succ k ih =>
    simp only [friEvents, List.mem_cons]
    by_cases hj : j = i
    · exact Or.inl (by rw [hj])
    · exact Or.inr (Or.inr (ih (i + 1) (by omega) (by omega)))

/-- the transcript ends with the proof-of-work check and the position draw; everything before is
    a reseed or a challenge draw — so no commitment is absorbed after the positions are known -/
theorem positions_drawn_last (aux : Bool) (lde b f rd q : Nat) :
    ∃ pre, verifierTranscript aux lde b f rd q = pre ++ [.checkPow, .drawPositions q lde] ∧
      ∀ e ∈ pre, e = .draws ∨ isReseed e = true := by
  refine ⟨_, rfl, ?_⟩
  intro e he
  simp only [List.mem_append, List.mem_cons, List.mem_singleton, List.not_mem_nil, or_false] at he
  rcases he with ((h | h) | h) | h
  · exact Or.inr (by rw [h]; rfl)
  · cases aux
    · simp at h
    · simp at h; rcases h with h | h
      · exact Or.inl h
      · exact Or.inr (by rw [h]; rfl)
  · rcases h with h | h | h | h | h
    · exact Or.inl h
    · exact Or.inr (by rw [h]; rfl)
    · exact Or.inl h
    · exact Or.inr (by rw [h]; rfl)
    · exact Or.inl h
  · rcases friEvents_mem _ _ _ h with h' | ⟨j, _, _, h'⟩
    · exact Or.inl h'
    · exact Or.inr (by rw [h']; rfl)

/-- every commitment is absorbed: main trace, auxiliary trace (if any), constraint composition,
    out-of-domain digest, and each of the `numFriLayers + 1` FRI commitments (the last one commits
    to the remainder polynomial) -/
theorem all_commitments_absorbed (aux : Bool) (lde b f rd q : Nat) :
    let t := verifierTranscript aux lde b f rd q
    .reseedTrace 0 ∈ t ∧ (aux = true → .reseedTrace 1 ∈ t) ∧ .reseedConstraint ∈ t ∧ .reseedOod ∈ t ∧
    ∀ j, j ≤ numFriLayers lde f rd b → .reseedFri j ∈ t := by
  simp only [verifierTranscript]
  refine ⟨by simp, ?_, by simp, by simp, ?_⟩
  · intro h; subst h; simp
  · intro j hj
    have := friEvents_contains (numFriLayers lde f rd b + 1) 0 j (Nat.zero_le _) (by omega)
    simp [this]

/-! non-vacuity -/
example : verifierTranscript true 64 8 4 3 12 =
    [.reseedTrace 0, .draws, .reseedTrace 1, .draws, .reseedConstraint, .draws, .reseedOod, .draws,
     .reseedFri 0, .draws, .reseedFri 1, .draws, .checkPow, .drawPositions 12 64] := by decide

end Wf.Props.C03
