/-
C04 — tampered proof bytes are rejected unless semantically identical.

Theorem side (deterministic part): the proof decoder is a function of the bytes that reads exactly
the encoding and ignores what follows — so truncation inside the encoding cannot decode to the same
proof, and bytes APPENDED to an encoding decode to identical parsed contents (the one kind of
tampering the property allows to be accepted).  That every OTHER accepted tampering is impossible is
a cryptographic statement (binding of the hash-based commitments, C03/C19/C24); on the real verifier
it is exercised by the stream `c04` (byte and field-level mutations; an accepted proof must have
parsed contents equal to the original's).  One genuine exception is recorded in known_findings.txt
(trace metadata extended by a zero byte: same seed, different parsed contents — the C24 finding).
-/
import Wf.Props.C07
import Wf.Lemmas.ProofMono
namespace Wf.Props.C04
open Wf Wf.Props.C07

/-- what the prover can emit -/
def ProofValid (p : ProofM) : Prop :=
  p.context.Valid ∧ p.numUniqueQueries < 256 ∧ p.commitments.length < 65536 ∧
  p.traceQueries.length = numSegments p.context ∧
  (∀ q ∈ p.traceQueries, q.1.length < 2 ^ 64 ∧ q.2.length < 2 ^ 64) ∧
  p.constraintQueries.1.length < 2 ^ 64 ∧ p.constraintQueries.2.length < 2 ^ 64 ∧
  p.oodFrame.1.length < 65536 ∧ p.oodFrame.2.length < 65536 ∧
  p.fri.layers.length < 256 ∧
  (∀ l ∈ p.fri.layers, l.1 ≠ [] ∧ l.1.length < 2 ^ 32 ∧ l.2.length < 2 ^ 32) ∧
  p.fri.remainder.length < 65536 ∧ p.fri.numPartitions < 64 ∧ p.nonce < 2 ^ 64

/-- whole proofs round-trip, and anything appended after the encoding is left untouched: the
    parsed contents of `encode p ++ extra` are exactly `p` -/
theorem proof_roundtrip_ignores_trailing_bytes (p : ProofM) (h : ProofValid p) (extra : Bytes) :
    proofDec (proofEnc p ++ extra) = .ok p extra := by
  obtain ⟨hc, hq, hcm, hseg, htq, hc1, hc2, ho1, ho2, hfl, hflv, hfr, hfp, hn⟩ := h
  unfold proofDec proofEnc
  simp only [List.append_assoc]
  rw [context_roundtrip _ hc]; simp only []
  rw [readU8_append _ _ hq]; simp only []
  have hcm' := commitments_roundtrip p.commitments
    ((p.traceQueries.map queriesCodec.enc).flatten ++ (queriesCodec.enc p.constraintQueries ++
      (oodFrameEnc p.oodFrame ++ (friProofEnc p.fri ++ (leBytes 8 p.nonce ++ extra))))) hcm
  rw [hcm']; simp only []
  have hq' : RoundTrips queriesCodec (fun q => q.1.length < 2 ^ 64 ∧ q.2.length < 2 ^ 64) :=
    fun q r hq => queries_roundtrip q r hq.1 hq.2
  have hloop := readManyLoop_roundtrip queriesCodec _ hq' p.traceQueries []
    (queriesCodec.enc p.constraintQueries ++
      (oodFrameEnc p.oodFrame ++ (friProofEnc p.fri ++ (leBytes 8 p.nonce ++ extra)))) htq
  simp only [Codec.encMany, hseg] at hloop
  rw [hloop]; simp only [List.reverse_nil, List.nil_append]
  rw [queries_roundtrip _ _ hc1 hc2]; simp only []
  rw [ood_frame_roundtrip _ _ ho1 ho2]; simp only []
  rw [fri_proof_roundtrip _ _ hfl hflv hfr hfp]; simp only []
  have : readU64 (leBytes 8 p.nonce ++ extra) = .ok p.nonce extra :=
    readLe_append 8 _ _ (by simpa using hn)
  rw [this]

/-- decoding is deterministic and prefix-determined: two byte strings with the same valid encoding
    as a prefix decode to the same proof -/
theorem decode_depends_only_on_encoding (p : ProofM) (h : ProofValid p) (e1 e2 : Bytes) :
    (match proofDec (proofEnc p ++ e1), proofDec (proofEnc p ++ e2) with
     | .ok a _, .ok b _ => a = b
     | _, _ => False) := by
  rw [proof_roundtrip_ignores_trailing_bytes p h e1, proof_roundtrip_ignores_trailing_bytes p h e2]

/-- encodings of different proofs differ (the encoding is injective on valid proofs) -/
theorem encoding_injective (p q : ProofM) (hp : ProofValid p) (hq : ProofValid q)
    (h : proofEnc p = proofEnc q) : p = q := by
  have h1 := proof_roundtrip_ignores_trailing_bytes p hp []
  have h2 := proof_roundtrip_ignores_trailing_bytes q hq []
  rw [h] at h1
  rw [h1] at h2
  injection h2

/-- the proof decoder looks only at the bytes it consumes: whenever some input parses to a proof,
    the same input followed by any further bytes parses to the SAME proof and leaves exactly those
    bytes (for EVERY input that parses, not only for encodings of valid proofs) -/
theorem decode_stable_under_append (bs e : Bytes) (p : ProofM) (r : Bytes)
    (h : proofDec bs = .ok p r) : proofDec (bs ++ e) = .ok p (r ++ e) :=
  proofDec_mono bs p r e h

/-- truncation is always noticed: NO strict prefix of the encoding of a valid proof parses to that
    proof (so a truncated proof is either rejected by the parser or parses to different contents,
    which the verifier then judges on their own) -/
theorem truncated_proof_never_parses_to_original (p : ProofM) (h : ProofValid p) (k : Nat)
    (hk : k < (proofEnc p).length) (r : Bytes) : proofDec ((proofEnc p).take k) ≠ .ok p r :=
  truncated_not_ok' proofEnc proofDec proofDec_mono p
    (by have := proof_roundtrip_ignores_trailing_bytes p h []; rwa [List.append_nil] at this) k hk r

/-- the parser consumes a prefix: what it leaves is a suffix of its input, and the consumed prefix
    alone parses to the same proof with nothing left (stated for the encodings the prover emits) -/
theorem decode_consumes_exactly_the_encoding (p : ProofM) (h : ProofValid p) (extra : Bytes) (q : ProofM)
    (r : Bytes) (hq : proofDec (proofEnc p ++ extra) = .ok q r) : q = p ∧ r = extra := by
  rw [proof_roundtrip_ignores_trailing_bytes p h extra] at hq
  injection hq with h1 h2
  exact ⟨h1.symm, h2.symm⟩

end Wf.Props.C04
