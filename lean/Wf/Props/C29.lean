/-
C29 — trace validation agrees with an independent constraint checker; trace tables built by
filling, by initialisation from columns, or by filling fragments contain the same rows.

Models (`Wf/Model/TraceTable.lean`, core Lean, linked into the driver):
* `validate` mirrors `Trace::validate` of prover/src/trace/mod.rs in the order of the Rust code
  (assertions in `get_assertions()` order, steps in `Assertion::apply` order, then the steps
  0 .. n − exemptions − 1 with all main transition constraints in index order, next row wrapping
  around) and returns the site of the FIRST failure, where the Rust code panics.  It is tied to the
  real crate by the stream `c29`: for every generated instance (honest, single-cell corruption at
  the first / an interior / the last non-exempt / an exempt step, perturbed claimed value) the real
  `Trace::validate` is run on the real `GenAir`/`GenTrace` and both its verdict AND the panic site
  must equal the model's; the independent Rust checker `genair::satisfies` is the oracle.
* `satisfies` (`Wf/Model/AirDesc.lean`) is the specification: every assertion holds and every
  transition constraint is zero on all non-exempt steps, with periodic values indexed directly.
* the column-major `TraceTable` model (`updateRow`, `fill`, fragment `fillAt`, `fillFragments`,
  `fillFragList` = any processing order, `init`), tied by the stream `c29t` (real `TraceTable` API:
  `new`+`fill`, `init`, `with_meta`+`set`, `update_row`, `fragments(len)` for every power-of-two
  `len`; all cells compared, checksum recomputed by the model and by an independent oracle).

Hypotheses that are NOT proved here:
* periodic values: `validate` (Rust) evaluates the periodic column polynomials at `x^(n/len)`; the
  model reads `values[step mod len]`.  Their agreement is C23's periodic-column theorem; the stream
  `c29` exercises it on every generated periodic column and step.
* the auxiliary segment is outside the description semantics: the stream validates instances with
  an honestly built auxiliary trace (fixed random elements), the theorems speak about the main
  segment.
* `usize` arithmetic: `n − exemptions` is truncated subtraction here; the real `AirContext` refuses
  `exemptions > n/2 + 1`, so no underflow is reachable.
All theorems are for ALL descriptions, traces, lengths and claimed values.
-/
import Wf.Lemmas.AirDesc
namespace Wf.Props.C29
open Wf.AirDesc Wf.TraceTable

/-! ## (a) `validate` accepts exactly the satisfying traces -/

/-- KEY: the model of `Trace::validate` returns normally iff the independent specification
`satisfies` holds — for every description, trace (any list of rows), length and claimed values. -/
theorem validate_ok_iff_satisfies (p : Nat) (d : Desc) (rows : List (List Nat)) (n : Nat)
    (claimed : List (List Nat)) :
    validate p d rows n claimed = .ok ↔ satisfies p d rows n claimed = true :=
  validate_ok_iff p d rows n claimed

/-- … hence validation of the generated-and-corrupted trace is the ideal verdict of C01/C02. -/
theorem validate_ok_iff_idealVerdict (p : Nat) (d : Desc) (n : Nat) (init : List Nat)
    (overrides : List (Nat × Nat × Nat)) (claimed : List (List Nat)) :
    validate p d (buildTrace p d n init overrides) n claimed = .ok
      ↔ idealVerdict p d n init overrides claimed = true :=
  validate_ok_iff p d _ n claimed

/-- `validate` panics (either way) iff the trace does not satisfy the AIR. -/
theorem validate_rejects_iff (p : Nat) (d : Desc) (rows : List (List Nat)) (n : Nat)
    (claimed : List (List Nat)) :
    validate p d rows n claimed ≠ .ok ↔ satisfies p d rows n claimed = false := by
  rw [Ne, validate_ok_iff]
  cases satisfies p d rows n claimed <;> simp

/-- A reported transition failure `(i, s)` is real and is the first one in the Rust order: `s` is a
non-exempt step, all assertions hold, all constraints vanish on the steps before `s`, constraints
`0 .. i−1` vanish at `s` and constraint `i` does not. -/
theorem validate_transFail_first (p : Nat) (d : Desc) (rows : List (List Nat)) (n : Nat)
    (claimed : List (List Nat)) (i s : Nat) (h : validate p d rows n claimed = .transFail i s) :
    s < n - d.exemptions ∧
    (∀ x ∈ d.asserts.zip claimed, assertHolds p rows n x.1 x.2 = true) ∧
    (∀ j, j < s → transHoldsAt p d rows n j = true) ∧
    (∃ t, d.trans[i]? = some t ∧
      eval p (rows.getD s []) (rows.getD ((s + 1) % n) []) (perAt d s) t.ex ≠ 0) ∧
    (∀ j, j < i → ∀ t, d.trans[j]? = some t →
      eval p (rows.getD s []) (rows.getD ((s + 1) % n) []) (perAt d s) t.ex = 0) :=
  validate_transFail p d rows n claimed i s h

/-- A reported assertion failure `(col, step)` is real: an assertion on column `col` constrains
`step` (as its `i`-th step) and the trace cell differs from the asserted value. -/
theorem validate_assertFail_real (p : Nat) (d : Desc) (rows : List (List Nat)) (n : Nat)
    (claimed : List (List Nat)) (c s : Nat) (h : validate p d rows n claimed = .assertFail c s) :
    ∃ x ∈ d.asserts.zip claimed, x.1.col = c ∧ ∃ i, (assertSteps x.1 n)[i]? = some s ∧
      cell rows s c ≠ (if x.1.kind = 2 then x.2.getD i 0 else x.2.getD 0 0) % p :=
  validate_assertFail p d rows n claimed c s h

/-- Exempt steps are never looked at: two traces that agree on the assertions' verdicts and on the
transition verdicts of the non-exempt steps get the same accept/reject decision. -/
theorem validate_ignores_exempt_steps (p : Nat) (d : Desc) (rows rows' : List (List Nat)) (n : Nat)
    (claimed : List (List Nat))
    (ha : ∀ x ∈ d.asserts.zip claimed, assertHolds p rows n x.1 x.2 = assertHolds p rows' n x.1 x.2)
    (ht : ∀ s, s < n - d.exemptions → transHoldsAt p d rows n s = transHoldsAt p d rows' n s) :
    (validate p d rows n claimed = .ok ↔ validate p d rows' n claimed = .ok) := by
  rw [validate_ok_iff, validate_ok_iff, satisfies_iff, satisfies_iff]
  constructor
  · rintro ⟨h1, h2⟩
    exact ⟨fun x hx => by rw [← ha x hx]; exact h1 x hx, fun s hs => by rw [← ht s hs]; exact h2 s hs⟩
  · rintro ⟨h1, h2⟩
    exact ⟨fun x hx => by rw [ha x hx]; exact h1 x hx, fun s hs => by rw [ht s hs]; exact h2 s hs⟩

/-! ## (b) the generated rows -/

theorem genRows_length (p : Nat) (d : Desc) (n step : Nat) (init : List Nat) :
    (genRows p d n step init).length = n := by
  rw [genRows_eq_iterRows, iterRows_length]

/-- row 0 is the initial state … -/
theorem genRows_row_zero (p : Nat) (d : Desc) (n : Nat) (init : List Nat) (h : 0 < n) :
    (genRows p d n 0 init).getD 0 [] = init := by
  rw [genRows_getD p d n init 0 h]; rfl

/-- … and row `s+1` is the transition function applied to row `s` (with the periodic values of
step `s`). -/
theorem genRows_row_succ (p : Nat) (d : Desc) (n : Nat) (init : List Nat) (s : Nat) (h : s + 1 < n) :
    (genRows p d n 0 init).getD (s + 1) []
      = nextRow p d s ((genRows p d n 0 init).getD s []) := by
  rw [genRows_getD p d n init (s + 1) h, genRows_getD p d n init s (by omega), rowAt_succ]

/-- Splitting the generation at ANY row `a` and restarting from the boundary row (with the step
counter continuing at `a`) yields the same rows. -/
theorem genRows_split (p : Nat) (d : Desc) (a b : Nat) (init : List Nat) :
    genRows p d (a + b) 0 init
      = genRows p d a 0 init ++ genRows p d b a (rowAt p d a init) := by
  rw [genRows_eq_iterRows, genRows_eq_iterRows, genRows_eq_iterRows, iterRows_append, Nat.zero_add]
  rfl

/-- Generation fragment by fragment: `m` fragments of ANY length `len` (not only powers of two),
fragment `i` started from the boundary row `i·len` and driven by the shifted update closure
`|j, state| update(i·len + j, state)` (exactly how `TraceTableFragment::fill` is used), concatenate
to the rows generated in one go. -/
theorem genRows_fragments (p : Nat) (d : Desc) (len m : Nat) (init : List Nat) :
    (List.range m).flatMap (fun i =>
        iterRows (fun j => nextRow p d (i * len + j)) len 0 (rowAt p d (i * len) init))
      = genRows p d (m * len) 0 init := by
  rw [genRows_eq_iterRows]
  exact iterRows_fragments (nextRow p d) len m init

/-! ## (c) the three ways of building a `TraceTable` agree

`upd` is any update closure that keeps the state width (`&mut [B]` of fixed length in Rust);
`t`, `t'` are the uninitialised tables (`with_meta`): ANY content of the right shape. -/

/-- `fill`: row `r` of the table is the `r`-th iterate of the update closure, whatever the table
contained before. -/
theorem fill_rows (upd : Nat → List Nat → List Nat) (w n : Nat)
    (hupd : ∀ j s, s.length = w → (upd j s).length = w)
    (t : Table) (ht : Shape t w n) (init : List Nat) (hi : init.length = w) (hn : 1 ≤ n)
    (r : Nat) (hr : r < n) :
    readRow (fill t n init upd) r = iterAt upd r 0 init := by
  unfold fill
  rw [readRow_fillAt upd w n hupd t ht 0 n init hi hn (by omega)]
  rw [if_pos (by omega)]
  rfl

/-- Fragments processed in ANY order `is` that covers all `m` fragments (repetitions allowed; the
serial `for_each` is `is = [0, .., m−1]`, any schedule of the parallel iterator is some
permutation), each restarted from its boundary row: the resulting table EQUALS the table built
by `fill`, independently of the junk the two tables contained initially. -/
theorem fragments_eq_fill (upd : Nat → List Nat → List Nat) (w len m : Nat)
    (hupd : ∀ j s, s.length = w → (upd j s).length = w)
    (t t' : Table) (ht : Shape t w (m * len)) (ht' : Shape t' w (m * len))
    (init : List Nat) (hi : init.length = w) (hlen : 1 ≤ len) (hm : 1 ≤ m)
    (is : List Nat) (hcover : ∀ i, i < m → i ∈ is) (hrange : ∀ i ∈ is, i < m) :
    fillFragList upd (fun i => iterAt upd (i * len) 0 init) len is t' = fill t (m * len) init upd := by
  have hstate : ∀ s, (iterAt upd s 0 init).length = w := by
    intro s
    induction s with
    | zero => exact hi
    | succ s ih => rw [iterAt_succ]; exact hupd _ _ ih
  have hn : 1 ≤ m * len := Nat.mul_le_mul hm hlen
  have hsf : Shape (fill t (m * len) init upd) w (m * len) := fillAt_shape _ ht _ _ _
  apply table_ext (fillFragList_shape _ _ _ _ ht') hsf
  intro r hr
  rw [fill_rows upd w _ hupd t ht init hi hn r hr]
  rw [readRow_fillFragList upd _ w (m * len) len hupd (fun i => hstate _) hlen is t' ht'
    (fun i hi' => Nat.mul_le_mul_right _ (hrange i hi'))]
  have hq : r / len < m := by
    rw [Nat.div_lt_iff_lt_mul (by omega)]; exact hr
  have hadd := iterAt_add upd (r / len * len) (r % len) 0 init
  rw [Nat.zero_add] at hadd
  rw [if_pos (hcover _ hq), iterAt_shift, Nat.add_zero, ← hadd]
  congr 1
  have := Nat.div_add_mod r len
  rw [Nat.mul_comm] at this
  exact this

/-- the serial `fragments(len).for_each(..)` of the model (`fillFragments`) is the order
`[0, .., m−1]` -/
theorem fillFragments_eq_list (upd : Nat → List Nat → List Nat) (boundary : Nat → List Nat) (len k i : Nat)
    (t : Table) :
    fillFragments upd boundary len k i t = fillFragList upd boundary len (List.range' i k) t := by
  induction k generalizing i t with
  | zero => rfl
  | succ k ih =>
    simp only [fillFragments, List.range'_succ, fillFragList, List.foldl_cons]
    exact ih _ _

/-- `init` from the columns of the row list produced by the same update closure EQUALS the table
built by `fill`. -/
theorem init_eq_fill (upd : Nat → List Nat → List Nat) (w n : Nat)
    (hupd : ∀ j s, s.length = w → (upd j s).length = w)
    (t : Table) (ht : Shape t w n) (init : List Nat) (hi : init.length = w) (hn : 1 ≤ n) :
    TraceTable.init (columnsOf w (iterRows upd n 0 init)) = fill t n init upd := by
  have hstate : ∀ s, (iterAt upd s 0 init).length = w := by
    intro s
    induction s with
    | zero => exact hi
    | succ s ih => rw [iterAt_succ]; exact hupd _ _ ih
  have hl := iterRows_length upd n 0 init
  have hsh : Shape (TraceTable.init (columnsOf w (iterRows upd n 0 init))) w n := by
    have := columnsOf_shape w (iterRows upd n 0 init)
    rw [hl] at this; exact this
  have hsf : Shape (fill t n init upd) w n := fillAt_shape _ ht _ _ _
  apply table_ext hsh hsf
  intro r hr
  have hget : (iterRows upd n 0 init)[r]'(by omega) = iterAt upd r 0 init := by
    have := iterRows_getElem? upd n 0 init r hr
    rw [List.getElem?_eq_getElem (by omega)] at this
    exact Option.some.inj this
  rw [fill_rows upd w n hupd t ht init hi hn r hr,
    readRow_columnsOf w _ r (by omega) (by rw [hget]; exact hstate r), hget]

/-- The statement for descriptions: for the transition function of ANY description (width =
number of generator expressions), any initial row of that width, any fragment length `len ≥ 1`
and fragment count `m ≥ 1`: the tables built by `fill`, by serial `fragments(len)` filling from the
boundary rows, and by `init` from the columns of `genRows` are equal, and their rows are the rows
of `genRows`. -/
theorem tables_agree (p : Nat) (d : Desc) (len m : Nat) (hlen : 1 ≤ len) (hm : 1 ≤ m)
    (init : List Nat) (hi : init.length = d.gen.length)
    (t t' : Table) (ht : Shape t d.gen.length (m * len)) (ht' : Shape t' d.gen.length (m * len)) :
    let a := fill t (m * len) init (nextRow p d)
    fillFragments (nextRow p d) (fun i => rowAt p d (i * len) init) len m 0 t' = a ∧
    TraceTable.init (columnsOf d.gen.length (genRows p d (m * len) 0 init)) = a ∧
    ∀ r, r < m * len → readRow a r = (genRows p d (m * len) 0 init).getD r [] := by
  have hupd : ∀ j s, s.length = d.gen.length → (nextRow p d j s).length = d.gen.length :=
    fun j s _ => nextRow_length p d j s
  have hn : 1 ≤ m * len := Nat.mul_le_mul hm hlen
  refine ⟨?_, ?_, ?_⟩
  · rw [fillFragments_eq_list]
    exact fragments_eq_fill (nextRow p d) _ len m hupd t t' ht ht' init hi hlen hm _
      (fun i h => by rw [List.mem_range']; exact ⟨i, h, by omega⟩)
      (fun i h => by rw [List.mem_range'] at h; obtain ⟨j, hj, rfl⟩ := h; omega)
  · rw [genRows_eq_iterRows]
    exact init_eq_fill (nextRow p d) _ _ hupd t ht init hi hn
  · intro r hr
    rw [fill_rows (nextRow p d) _ _ hupd t ht init hi hn r hr, genRows_getD p d _ init r hr]
    rfl

/-! ## non-vacuity: a concrete 2-column description (Fibonacci-like, one periodic column) -/

-- `exDesc` (defined in Wf/Lemmas/AirDesc.lean): next0 = cur0 + cur1·per0, next1 = next0 + cur1; p = 97

example : genRows 97 exDesc 8 0 [1, 1]
    = [[1, 1], [2, 3], [8, 11], [19, 30], [79, 12], [91, 6], [6, 12], [18, 30]] := by decide
example : validate 97 exDesc (buildTrace 97 exDesc 8 [1, 1] []) 8 [[1], [30]] = .ok := by decide
example : satisfies 97 exDesc (buildTrace 97 exDesc 8 [1, 1] []) 8 [[1], [30]] = true := by decide
-- a wrong claimed value: the second assertion (column 1, step 7) fails first
example : validate 97 exDesc (buildTrace 97 exDesc 8 [1, 1] []) 8 [[1], [37]] = .assertFail 1 7 := by decide
-- an interior cell corrupted: constraint 0 fails first at the step BEFORE the corrupted row
example : validate 97 exDesc (buildTrace 97 exDesc 8 [1, 1] [(3, 0, 5)]) 8 [[1], [30]] = .transFail 0 2 := by decide
-- the last row corrupted: assertions are checked before transitions …
example : validate 97 exDesc (buildTrace 97 exDesc 8 [1, 1] [(7, 1, 5)]) 8 [[1], [30]] = .assertFail 1 7 := by decide
-- … and with the claimed value adapted, the last NON-exempt step 6 (whose next row is row 7) fails
example : validate 97 exDesc (buildTrace 97 exDesc 8 [1, 1] [(7, 1, 5)]) 8 [[1], [5]] = .transFail 1 6 := by decide
-- with two exemptions step 6 is exempt: the same trace is accepted
example : validate 97 { exDesc with exemptions := 2 } (buildTrace 97 exDesc 8 [1, 1] [(7, 1, 5)]) 8 [[1], [5]] = .ok := by decide
-- the three table constructions on junk-filled tables
example :
    let junk : Table := List.replicate 2 (List.replicate 8 55)
    let rows := genRows 97 exDesc 8 0 [1, 1]
    fill junk 8 [1, 1] (nextRow 97 exDesc) = TraceTable.init (columnsOf 2 rows) ∧
    fillFragments (nextRow 97 exDesc) (fun i => rows.getD (i * 2) []) 2 4 0 junk
      = fill junk 8 [1, 1] (nextRow 97 exDesc) ∧
    fillFragList (nextRow 97 exDesc) (fun i => rows.getD (i * 4) []) 4 [1, 0] junk
      = fill junk 8 [1, 1] (nextRow 97 exDesc) := by decide

end Wf.Props.C29
