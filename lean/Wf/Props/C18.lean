/-
C18 — Merkle trees and their openings are mutually consistent.

Model: `Wf/Model/Merkle.lean` (mirrors `crypto/src/merkle/mod.rs` and `crypto/src/merkle/proofs.rs`
loop by loop; release-build `usize` semantics; every bounds-checked index is an explicit `abort`;
tied to the real crate by the correspondence streams `c18`/`c19`, which run the real
`MerkleTree<H>` with a fully specified test hasher and with Blake3_256).

The hash function is a PARAMETER: every theorem is for an arbitrary digest type `D` and an
arbitrary `merge : D → D → D` (no property of `merge` is needed for consistency), for ALL trees
with `2^d` leaves, every `d ≥ 1`, all indexes / index lists (no bound).

* (a) `build_nodes_index_scheme`, `new_ok_iff`, `root_is_recursive_hash`
* (b) `single_opening_verifies`, `prove_out_of_range`
* (d) `batch_opening_reconstructs_root`  (FULL: refinement of the two level loops of `prove_batch`
      and `get_root` by a coupled simulation, `Wf/Lemmas/MerkleRoot.lean`; since fix f1ad895
      `get_root` also demands `proof_pointers[i] == nodes[i].len()` for every `i` after the walk,
      so the simulation carries `ptrs = map length` of the prover's vectors to the END of the last
      level: the honest prover's node vectors are consumed EXACTLY, for all trees and index sets),
      `prove_batch_refuses`
* the three batch-proof routes agree: `into_openings_expands_to_single_openings` (FULL: the partial
  tree rebuilt by `into_openings` holds the tree's value at every key a path needs),
  `from_single_proofs_equals_prove_batch` (FULL: coupled simulation of the layer loops of
  `from_single_proofs` and `prove_batch`, `Wf/Lemmas/MerkleFsp.lean`)

NOT proved here: the concurrent build (`concurrent.rs`: rayon subtree schedule) is not modelled; the
default check builds and exercises the serial crate only.
-/
import Wf.Lemmas.MerkleFsp
import Wf.Lemmas.MerkleConsume
namespace Wf.Props.C18
open Wf Wf.Merkle

variable {D : Type}

/-! ## (a) construction -/

/-- `build_merkle_nodes`, for EVERY leaf count ≥ 2 (the public function does not require a power
of two): it returns `2·(len/2)` slots, slot `n + j` is the hash of the leaf pair `(2j, 2j+1)` and
every other internal slot `i ≥ 1` is the hash of slots `2i`, `2i+1` (all reads in bounds). -/
theorem build_nodes_index_scheme [Inhabited D] (merge : D → D → D) (L : List D) (hL : 2 ≤ L.length) :
    ∃ nodes, buildNodes merge L = .ok nodes ∧ nodes.length = 2 * (L.length / 2) ∧
      (∀ j, j < L.length / 2 → ∃ a b, L[2 * j]? = some a ∧ L[2 * j + 1]? = some b ∧
          nodes[L.length / 2 + j]? = some (merge a b)) ∧
      (∀ i, 1 ≤ i → i < L.length / 2 → ∃ a b, nodes[2 * i]? = some a ∧ nodes[2 * i + 1]? = some b ∧
          nodes[i]? = some (merge a b)) :=
  buildNodes_spec merge L hL

/-- with fewer than two leaves the public `build_merkle_nodes` indexes an empty vector -/
theorem build_nodes_panics_below_two [Inhabited D] (merge : D → D → D) (L : List D)
    (hL : L.length < 2) : buildNodes merge L = .abort := by
  have : L.length / 2 = 0 := by omega
  simp [buildNodes, this]

/-- `MerkleTree::new` succeeds exactly for `2^d` leaves, `d ≥ 1`, and then keeps the leaves -/
theorem new_ok_iff [Inhabited D] (merge : D → D → D) (L : List D) :
    (∃ t, Tree.new merge L = .ok t) ↔ ∃ d, 1 ≤ d ∧ L.length = 2 ^ d := by
  constructor
  · rintro ⟨t, ht⟩
    obtain ⟨d, hd, _, H⟩ := new_heap merge L t ht
    exact ⟨d, H.dpos, hd⟩
  · rintro ⟨d, hd1, hd⟩
    have h2 : 2 ≤ L.length := by
      have : 2 ^ 1 ≤ 2 ^ d := Nat.pow_le_pow_right (by omega) hd1
      omega
    obtain ⟨nodes, hb, _⟩ := buildNodes_spec merge L h2
    refine ⟨⟨nodes, L⟩, ?_⟩
    have hlt : ¬ L.length < 2 := by omega
    have hp : isPow2 L.length = true := by rw [hd]; exact isPow2_pow d
    simp [Tree.new, hlt, hp, hb]

/-- the documented errors of `MerkleTree::new` -/
theorem new_errors [Inhabited D] (merge : D → D → D) (L : List D) :
    (L.length < 2 → Tree.new merge L = .err .tooFewLeaves) ∧
    (2 ≤ L.length → (¬ ∃ d, L.length = 2 ^ d) → Tree.new merge L = .err .notPow2) := by
  constructor
  · intro h; simp [Tree.new, h]
  · intro h hn
    have hlt : ¬ L.length < 2 := by omega
    have : isPow2 L.length = false := by
      cases hp : isPow2 L.length with
      | false => rfl
      | true => exact absurd (isPow2_exists _ hp) hn
    simp [Tree.new, hlt, this]

/-- the root of a tree over `2^d` leaves is the recursive pairwise hash of the leaves, and the
stored nodes satisfy `nodes[i] = merge nodes[2i] nodes[2i+1]` (heap equations, via
`build_nodes_index_scheme`) -/
theorem root_is_recursive_hash [Inhabited D] (merge : D → D → D) (L : List D) (t : Tree D)
    (ht : Tree.new merge L = .ok t) :
    ∃ r, t.root = .ok r ∧ rootRec merge t.depth L = some r := by
  obtain ⟨d, _, hl, H⟩ := new_heap merge L t ht
  refine ⟨heapFn t 1, heap_troot H, ?_⟩
  rw [heap_depth H, ← hl]; exact heap_root H

/-! ## (b) single openings -/

/-- every single opening verifies: for every leaf index the opening returned by `prove` consists
of the leaf, has `depth` nodes and is accepted by `verify` against the tree's root -/
theorem single_opening_verifies [Inhabited D] [DecidableEq D] (merge : D → D → D) (L : List D)
    (t : Tree D) (ht : Tree.new merge L = .ok t) (i : Nat) (hi : i < L.length) :
    ∃ leaf proof r, t.prove i = .ok (leaf, proof) ∧ L[i]? = some leaf ∧
      proof.length = t.depth ∧ t.root = .ok r ∧ verify merge r i leaf proof = .ok () := by
  obtain ⟨d, hd, hl, H⟩ := new_heap merge L t ht
  have hi' : i < 2 ^ d := by omega
  refine ⟨_, _, _, heap_prove H i hi', ?_, ?_, heap_troot H, heap_verify H i hi'⟩
  · rw [← hl]; exact H.leaf i hi'
  · rw [heap_depth H]; simp

/-- `prove` refuses an index that is not a leaf position -/
theorem prove_out_of_range (t : Tree D) (i : Nat) (hi : t.leaves.length ≤ i) :
    t.prove i = .err .oob := by
  simp [Tree.prove, hi]

/-! ## (d) batch openings -/

/-- every batch opening reconstructs the root: for EVERY non-empty duplicate-free list of leaf
positions, in ANY order, `prove_batch` succeeds, returns the opened leaves in the order of the
request, a proof of the tree's depth with one node vector per normalized index, and both
`get_root` and `verify_batch` accept it (`L.length < 2^64`: the leaves fit a 64-bit address
space, so `2usize.pow(depth)` does not wrap).  Acceptance by `get_root` includes its leaf-count
check (fix af69a4d: `prove_batch` returns exactly one leaf per index) and its consumption check
(fix f1ad895): every node `prove_batch` emits is read, none is left over. -/
theorem batch_opening_reconstructs_root [Inhabited D] [DecidableEq D] (merge : D → D → D)
    (L : List D) (t : Tree D) (ht : Tree.new merge L = .ok t) (h64 : L.length < 2 ^ 64)
    (idxs : List Nat) (hne : idxs ≠ []) (hnd : idxs.Nodup) (hr : ∀ i ∈ idxs, i < L.length) :
    ∃ lv p r, t.proveBatch idxs = .ok (lv, p) ∧
      lv.length = idxs.length ∧ (∀ (j i : Nat), idxs[j]? = some i → lv[j]? = L[i]?) ∧
      p.depth = t.depth ∧ p.nodes.length = (normalize idxs).length ∧
      t.root = .ok r ∧ p.getRoot merge idxs lv = .ok r ∧
      verifyBatch merge r idxs lv p = .ok () := by
  obtain ⟨d, hd, hl, H⟩ := new_heap merge L t ht
  have hd64 : d < 64 := by
    rw [hd] at h64
    exact (Nat.pow_lt_pow_iff_right (by omega)).mp h64
  obtain ⟨p, hpb, hdep, hlen, hgr, _, _⟩ := proveBatch_getRoot H hd64 idxs hne hnd
    (fun i hi => by have := hr i hi; omega)
  refine ⟨_, p, heapFn t 1, hpb, by simp, ?_, by rw [hdep, heap_depth H], hlen, heap_troot H, hgr, ?_⟩
  · intro j i hj
    have hi : i < 2 ^ d := by have := hr i (List.mem_of_getElem? hj); omega
    rw [List.getElem?_map, hj, ← hl, H.leaf i hi]; rfl
  · simp [verifyBatch, hgr]

/-- the honest prover's node vectors are consumed EXACTLY by `get_root` (what its consumption
check, fix f1ad895, demands): for every valid index list the walk over `prove_batch`'s proof ends
with `proof_pointers[i] = nodes[i].len()` at every position `i` -/
theorem honest_batch_proof_is_consumed_exactly [Inhabited D] [DecidableEq D] (merge : D → D → D)
    (L : List D) (t : Tree D) (ht : Tree.new merge L = .ok t) (h64 : L.length < 2 ^ 64)
    (idxs : List Nat) (hne : idxs ≠ []) (hnd : idxs.Nodup) (hr : ∀ i ∈ idxs, i < L.length) :
    ∃ lv p st, t.proveBatch idxs = .ok (lv, p) ∧ grRun merge p idxs lv = .ok st ∧
      st.ptrs = p.nodes.map List.length := by
  obtain ⟨lv, p, r, hpb, _, _, _, _, _, hgr, _⟩ :=
    batch_opening_reconstructs_root merge L t ht h64 idxs hne hnd hr
  obtain ⟨_, _, st, hrun, hptrs, _⟩ := getRoot_ok_inv merge p idxs lv r hgr
  exact ⟨lv, p, st, hpb, hrun, hptrs⟩

/-- `prove_batch` refuses an empty list, a list with an out-of-range position, and (all positions
in range) a list with a duplicate -/
theorem prove_batch_refuses [Inhabited D] (merge : D → D → D) (L : List D) (t : Tree D)
    (ht : Tree.new merge L = .ok t) (h64 : L.length < 2 ^ 64) (idxs : List Nat) :
    (idxs = [] → t.proveBatch idxs = .err .tooFewIdx) ∧
    (idxs ≠ [] → (∃ i ∈ idxs, L.length ≤ i) → t.proveBatch idxs = .err .oob) ∧
    (idxs ≠ [] → (∀ i ∈ idxs, i < L.length) → ¬ idxs.Nodup → t.proveBatch idxs = .err .dup) := by
  obtain ⟨d, hd, hl, H⟩ := new_heap merge L t ht
  have hd64 : d < 64 := by
    rw [hd] at h64
    exact (Nat.pow_lt_pow_iff_right (by omega)).mp h64
  have hp := pow2usize_lt d hd64
  refine ⟨?_, ?_, ?_⟩
  · intro h; subst h; simp [Tree.proveBatch]
  · intro hne ⟨i, hi, hge⟩
    have hie : idxs.isEmpty = false := by cases idxs <;> simp_all
    have := mapIndexes_oob idxs d ⟨i, hi, by rw [hp]; omega⟩
    simp [Tree.proveBatch, hie, heap_depth H, this]
  · intro hne hr hnd
    have hie : idxs.isEmpty = false := by cases idxs <;> simp_all
    have := mapIndexes_dup idxs d (fun i hi => by rw [hp]; have := hr i hi; omega) hnd
    simp [Tree.proveBatch, hie, heap_depth H, this]

/-! ## The three batch-proof routes agree -/

/-- a batch proof expands back into exactly the single openings: for every valid index list,
`into_openings` of `prove_batch`'s result is `[prove i | i ∈ idxs]` (same order) -/
theorem into_openings_expands_to_single_openings [Inhabited D] (merge : D → D → D)
    (L : List D) (t : Tree D) (ht : Tree.new merge L = .ok t) (h64 : L.length < 2 ^ 64)
    (idxs : List Nat) (hne : idxs ≠ []) (hnd : idxs.Nodup) (hr : ∀ i ∈ idxs, i < L.length)
    (lv : List D) (p : BatchProof D) (hpb : t.proveBatch idxs = .ok (lv, p)) :
    ∃ os, mapRes t.prove idxs = .ok os ∧ os.length = idxs.length ∧
      p.intoOpenings merge lv idxs = .ok os := by
  obtain ⟨d, hd, hl, H⟩ := new_heap merge L t ht
  have hd64 : d < 64 := by
    rw [hd] at h64
    exact (Nat.pow_lt_pow_iff_right (by omega)).mp h64
  have hr' : ∀ i ∈ idxs, i < 2 ^ d := fun i hi => by have := hr i hi; omega
  obtain ⟨p', hpb', _, _, _, hio, _⟩ := proveBatch_getRoot H hd64 idxs hne hnd hr'
  rw [hpb] at hpb'
  obtain ⟨rfl, rfl⟩ := Prod.mk.inj (Res.ok.inj hpb')
  refine ⟨_, mapRes_ok t.prove _ idxs (fun i hi => heap_prove H i (hr' i hi)), by simp, hio⟩

/-- a batch proof assembled from the single openings equals the batch proof built directly -/
theorem from_single_proofs_equals_prove_batch [Inhabited D] (merge : D → D → D)
    (L : List D) (t : Tree D) (ht : Tree.new merge L = .ok t) (h64 : L.length < 2 ^ 64)
    (idxs : List Nat) (hne : idxs ≠ []) (hnd : idxs.Nodup) (hr : ∀ i ∈ idxs, i < L.length)
    (lv : List D) (p : BatchProof D) (hpb : t.proveBatch idxs = .ok (lv, p)) :
    ∃ os, mapRes t.prove idxs = .ok os ∧ fromSingleProofs os idxs = .ok p := by
  obtain ⟨d, hd, hl, H⟩ := new_heap merge L t ht
  have hd64 : d < 64 := by
    rw [hd] at h64
    exact (Nat.pow_lt_pow_iff_right (by omega)).mp h64
  have hr' : ∀ i ∈ idxs, i < 2 ^ d := fun i hi => by have := hr i hi; omega
  obtain ⟨lv', p', hpb', hfs⟩ := fromSingleProofs_eq H hd64 idxs hne hnd hr'
  rw [hpb] at hpb'
  obtain ⟨rfl, rfl⟩ := Prod.mk.inj (Res.ok.inj hpb')
  exact ⟨_, mapRes_ok t.prove (opening (heapFn t) d) idxs
    (fun i hi => heap_prove H i (hr' i hi)), hfs⟩

/-! ## Non-vacuity -/

/-- trees exist for every `2^d ≥ 2` leaves and every hash function, e.g. 8 numbers with `+` -/
example : ∃ t, Tree.new (fun a b : Nat => a + b) [1, 2, 3, 4, 5, 6, 7, 8] = .ok t :=
  (new_ok_iff _ _).mpr ⟨3, by omega, rfl⟩

/-- the hypotheses of `batch_opening_reconstructs_root` hold for an unsorted list with siblings -/
example : ([5, 0, 4, 7] : List Nat) ≠ [] ∧ ([5, 0, 4, 7] : List Nat).Nodup ∧
    (∀ i ∈ ([5, 0, 4, 7] : List Nat), i < 8) ∧ normalize [5, 0, 4, 7] = [0, 4, 6] := by
  refine ⟨by simp, by decide, by decide, by decide⟩

/-- a concrete run of the model (3-leaf-pair tree, `merge a b = 10·a + b`): nodes, proof, root -/
example : buildNodes (fun a b : Nat => 10 * a + b) [1, 2, 3, 4] = .ok [0, 154, 12, 34] ∧
    rootRec (fun a b : Nat => 10 * a + b) 2 [1, 2, 3, 4] = some 154 ∧
    climb (fun a b : Nat => 10 * a + b) (10 * 3 + 4) ((2 + 2 ^ 2) / 2) [12] = 154 := by
  refine ⟨by decide, by decide, by decide⟩

end Wf.Props.C18
