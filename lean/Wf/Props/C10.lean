/-
C10 — field and extension-field arithmetic is exact modular arithmetic.

The definitions under `Wf.Gen.F64` are REGENERATED from `math/src/field/f64/mod.rs` on every run
(tools/rs2lean.py); the theorems below are about those definitions.
  §1  f64 limb kernels = arithmetic modulo p = 2^64 − 2^32 + 1 on canonical values, for EVERY
      reduced stored word; results are reduced again; `as_int` is canonical for every word;
      `==` is equality of values.
  §2  extension-field formulas (Karatsuba-style mul / square / mul_base) = multiplication modulo the
      documented polynomial, over ANY commutative ring.
  §3  the 72-multiplication inversion chain is x^(p−2); exponentiation loops compute powers.
-/
import Wf.Lemmas.F64
import Wf.Lemmas.RingOps
import Wf.Model.Fields
namespace Wf.Props.C10
open Wf Wf.F64 Wf.Gen.F64 Polynomial

/-! ## §1 f64 kernels -/

theorem f64_modulus : F64.p = 2 ^ 64 - 2 ^ 32 + 1 := F64.p_eq

theorem f64_add_exact (a b : BitVec 64) (ha : Rep a) (hb : Rep b) :
    Rep (add a b) ∧ val (add a b) = (val a + val b) % F64.p := add_spec a b ha hb

theorem f64_sub_exact (a b : BitVec 64) (ha : Rep a) (hb : Rep b) :
    Rep (sub a b) ∧ val (sub a b) = (val a + (F64.p - val b)) % F64.p := sub_spec a b ha hb

theorem f64_mul_exact (a b : BitVec 64) (ha : Rep a) (hb : Rep b) :
    Rep (mul a b) ∧ val (mul a b) = val a * val b % F64.p := mul_spec a b ha hb

theorem f64_neg_exact (a : BitVec 64) (ha : Rep a) :
    Rep (neg a) ∧ val (neg a) = (F64.p - val a) % F64.p := neg_spec a ha

theorem f64_double_exact (a : BitVec 64) (ha : Rep a) :
    Rep (double a) ∧ val (double a) = 2 * val a % F64.p := double_spec a ha

/-- `new` reduces silently: every 64-bit integer, including those ≥ p -/
theorem f64_new_reduces (v : BitVec 64) : Rep (new v) ∧ val (new v) = v.toNat % F64.p := new_spec v

/-- `as_int` returns the canonical value of every stored word (< p), reduced or not -/
theorem f64_as_int_canonical (x : BitVec 64) :
    (mont_to_int x).toNat = val x ∧ (mont_to_int x).toNat < F64.p :=
  ⟨as_int_spec x, by rw [as_int_spec]; exact val_lt x⟩

/-- two reduced words compare equal exactly when their canonical values are equal -/
theorem f64_eq_iff_values (a b : BitVec 64) (ha : Rep a) (hb : Rep b) :
    (equals a b = 0xffffffffffffffff#64) ↔ val a = val b := equals_spec a b ha hb

/-- Montgomery reduction itself, for every 128-bit input whose high limb is below p -/
theorem f64_mont_red (x : BitVec 128) (hx : (x >>> 64).setWidth 64 < M) :
    Rep (mont_red_cst x) ∧ (mont_red_cst x).toNat * 2 ^ 64 % F64.p = x.toNat % F64.p :=
  mont_red_spec x hx

/-! ## §2 extension formulas over any commutative ring

`(C r0 + C r1 * X) + C q * f` says: the result is the product reduced modulo `f`. -/

section ext
variable {R : Type} [CommRing R] [DecidableEq R] (inv : R → R)

/-- f64 quadratic extension: multiplication modulo x² − x + 2 -/
theorem f64_ext2_mul (a0 a1 b0 b1 : R) :
    let r := ext2Mul (ringOps R inv) (a0, a1) (b0, b1)
    (C a0 + C a1 * X) * (C b0 + C b1 * X) = (C r.1 + C r.2 * X) + C (a1 * b1) * (X ^ 2 - X + 2) := by
  simp only [ext2Mul, ringOps, map_sub, map_add, map_mul]
  ring

theorem f64_ext2_square (a0 a1 : R) :
    ext2Square (ringOps R inv) (a0, a1) = ext2Mul (ringOps R inv) (a0, a1) (a0, a1) := by
  simp only [ext2Square, ext2Mul, ringOps, Prod.mk.injEq]
  constructor <;> first | trivial | ring

theorem f64_ext2_mul_base (a0 a1 b : R) :
    ext2MulBase (ringOps R inv) (a0, a1) b = ext2Mul (ringOps R inv) (a0, a1) (b, 0) := by
  simp only [ext2MulBase, ext2Mul, ringOps, Prod.mk.injEq]
  constructor <;> first | trivial | ring

/-- f64 cubic extension: multiplication modulo x³ − x − 1 -/
theorem f64_ext3_mul (a0 a1 a2 b0 b1 b2 : R) :
    let r := ext3Mul (ringOps R inv) (a0, a1, a2) (b0, b1, b2)
    (C a0 + C a1 * X + C a2 * X ^ 2) * (C b0 + C b1 * X + C b2 * X ^ 2)
      = (C r.1 + C r.2.1 * X + C r.2.2 * X ^ 2)
        + (C (a1 * b2 + a2 * b1) + C (a2 * b2) * X) * (X ^ 3 - X - 1) := by
  simp only [ext3Mul, ringOps, map_sub, map_add, map_mul]
  ring

theorem f64_ext3_square (a0 a1 a2 : R) :
    ext3Square (ringOps R inv) (a0, a1, a2) = ext3Mul (ringOps R inv) (a0, a1, a2) (a0, a1, a2) := by
  simp only [ext3Square, ext3Mul, ringOps, Prod.mk.injEq]
  refine ⟨?_, ?_, ?_⟩ <;> first | trivial | ring

theorem f64_ext3_mul_base (a0 a1 a2 b : R) :
    ext3MulBase (ringOps R inv) (a0, a1, a2) b = ext3Mul (ringOps R inv) (a0, a1, a2) (b, 0, 0) := by
  simp only [ext3MulBase, ext3Mul, ringOps, Prod.mk.injEq]
  refine ⟨?_, ?_, ?_⟩ <;> first | trivial | ring

end ext

/-! ## §3 addition chains and exponentiation loops -/

section chains
variable {R : Type} [CommRing R] [DecidableEq R] (inv : R → R)

theorem f64_exp_acc (n : Nat) (base tail : R) :
    exp_acc (ringOps R inv) n base tail = base ^ (2 ^ n) * tail := by
  simp only [exp_acc, ringOps]
  rw [repeat_square]

theorem f64_exp7 (x : R) : exp7 (ringOps R inv) x = x ^ 7 := by
  simp only [exp7, ringOps]; ring

/-- the 72-multiplication chain of `inv` computes x^(p−2) (then Fermat: x·x^(p−2) = 1 for x ≠ 0) -/
theorem f64_inv_chain (x : R) : invChain (ringOps R inv) x = x ^ (18446744069414584321 - 2) := by
  simp only [invChain, f64_exp_acc]
  simp only [ringOps]
  ring

end chains

/-! ## non-vacuity -/

example : Rep (new 5#64) ∧ val (new 5#64) = 5 := by
  have := new_spec 5#64; exact ⟨this.1, by rw [this.2]; decide⟩
example : ¬ Rep 0xffffffff00000001#64 := by unfold Rep; decide
example : val (add (new 0xffffffff00000000#64) (new 3#64)) = 2 := by decide

end Wf.Props.C10
