/-
C15 — byte-oriented hashers follow their byte layout for every input.

Model: `Wf/Model/Hashers.lean`.  BLAKE3 / SHA3 are parameters (`P : Bytes → Bytes`); a hasher is the
byte string it feeds to `P` per entry point plus the number of digest bytes it keeps.  That the real
hashers equal `P` applied to exactly these byte strings is the correspondence stream `c15`: the
harness applies the `blake3` / `sha3` crates to the layout (computed there independently from the
documentation, compared with this model's bytes) and compares with the hashers' outputs, for byte
strings, digest lists, integers and element lists over all eight field types, every element being
fed through eight operation chains with equal value and different internal representation.

Theorems (ALL inputs, any primitive `P`): the documented layout of each entry point; BLAKE3-192 is
the 24-byte truncation; merge = merge_many of two; `hash_elements` is a function of the canonical
values only (general statement, and for f64 stated on the stored Montgomery words through C10's
`as_int` theorem), every coefficient occupies exactly ELEMENT_BYTES bytes and decodes back.
-/
import Wf.Lemmas.Hashers
import Wf.Lemmas.F64
namespace Wf.Props.C15
open Wf Wf.ByteHasher

/-! ## the documented layout of every entry point -/

/-- each entry point = the primitive on the documented byte string, truncated to the digest size -/
theorem entry_points_layout (h : ByteHasher) (P : Bytes → Bytes) :
    (∀ bs, h.hash P bs = (P bs).take h.outLen) ∧
    (∀ a b, h.merge P a b = (P (a ++ b)).take h.outLen) ∧
    (∀ ds, h.mergeMany P ds = (P ds.flatten).take h.outLen) ∧
    (∀ seed v, h.mergeWithInt P seed v = (P (seed ++ leBytes 8 v)).take h.outLen) ∧
    (∀ f es, h.hashElements P f es = (P ((es.map (fun e => (e.map (leBytes f.bytes)).flatten)).flatten)).take h.outLen) :=
  ⟨fun _ => rfl, fun _ _ => rfl, fun _ => rfl, fun _ _ => rfl, fun _ _ => rfl⟩

/-- `merge_with_int`: `N + 8` bytes, the seed first, then the integer little-endian (it decodes back) -/
theorem mergeWithInt_layout (seed : Bytes) (v : Nat) (hv : v < 2 ^ 64) :
    (preMergeWithInt seed v).length = seed.length + 8 ∧
    (preMergeWithInt seed v).take seed.length = seed ∧
    fromLe ((preMergeWithInt seed v).drop seed.length) = v := by
  refine ⟨by simp [preMergeWithInt, leBytes_length], List.take_left' rfl, ?_⟩
  rw [preMergeWithInt, List.drop_left' rfl]
  exact fromLe_leBytes 8 v (by simpa using hv)

/-- `hash_elements`: element after element, coefficient after coefficient, each coefficient as
exactly `ELEMENT_BYTES` little-endian bytes of its canonical value -/
theorem hashElements_layout (f : FieldParams) :
    preHashElements f [] = [] ∧
    (∀ e es, preHashElements f (e :: es) = f.writeExt e ++ preHashElements f es) ∧
    f.writeExt [] = [] ∧
    (∀ c cs, f.writeExt (c :: cs) = leBytes f.bytes c ++ f.writeExt cs) ∧
    (∀ c, (leBytes f.bytes c).length = f.bytes) ∧
    (∀ c, c < 256 ^ f.bytes → fromLe (leBytes f.bytes c) = c) :=
  ⟨rfl, fun _ _ => rfl, rfl, fun _ _ => rfl, fun c => leBytes_length _ c, fun c hc => fromLe_leBytes _ c hc⟩

/-- total length: `#elements × degree × ELEMENT_BYTES` -/
theorem hashElements_length (f : FieldParams) (deg : Nat) (es : List (List Nat)) (he : ∀ e ∈ es, e.length = deg) :
    (preHashElements f es).length = es.length * (deg * f.bytes) := by
  induction es with
  | nil => simp [preHashElements]
  | cons e es ih =>
    have h1 : (preHashElements f (e :: es)) = f.writeExt e ++ preHashElements f es := rfl
    rw [h1, List.length_append, ih (fun x hx => he x (by simp [hx])), writeExt_length, he e (by simp),
      List.length_cons, Nat.add_mul]
    omega

/-- BLAKE3-192 = the first 24 bytes of what BLAKE3-256 returns, for every entry point's preimage -/
theorem blake3_192_truncates (P : Bytes → Bytes) (pre : Bytes) :
    blake3_192.digest P pre = (blake3_256.digest P pre).take 24 := by
  simp [ByteHasher.digest, blake3_192, blake3_256, List.take_take]

/-- the 192-bit digest's `as_bytes` pads with zeros to 32 bytes -/
theorem asBytes_length (d : Bytes) (h : d.length ≤ 32) : (asBytes d).length = 32 ∧ (asBytes d).take d.length = d := by
  refine ⟨by simp [asBytes]; omega, List.take_left' rfl⟩

/-- merge = merge_many of the two digests = hash of their concatenation -/
theorem merge_eq_mergeMany (h : ByteHasher) (P : Bytes → Bytes) (a b : Bytes) :
    h.merge P a b = h.mergeMany P [a, b] ∧ h.merge P a b = h.hash P (a ++ b) := by
  simp [ByteHasher.merge, ByteHasher.mergeMany, ByteHasher.hash, preMerge, preMergeMany, preHash]

/-! ## hash_elements depends only on canonical values -/

/-- For ANY internal representation `ρ` with canonical-value function `canon`: two element lists
with equal canonical values are hashed identically (the digest is computed from `canon` only).
Definitional in the model; that the implementation really hashes `canon` (not raw memory) for the
non-canonical fields f64/f62, and that raw memory = `canon` for f128, is what stream `c15` checks
on representations reached through different operation chains. -/
theorem hashElements_value_only {ρ} (canon : ρ → List Nat) (h : ByteHasher) (P : Bytes → Bytes)
    (f : FieldParams) (rs rs' : List ρ) (heq : rs.map canon = rs'.map canon) :
    h.hashElements P f (rs.map canon) = h.hashElements P f (rs'.map canon) := by rw [heq]

/-- f64, on stored Montgomery words (every 64-bit word, reduced or not): the bytes hashed for a word
are the 8 little-endian bytes of its value `val` (C10: `as_int` is canonical for every word), so
words with equal values contribute equal bytes and the encoded value is below the modulus -/
theorem f64_hashElements_value_only (h : ByteHasher) (P : Bytes → Bytes) (ws ws' : List (BitVec 64))
    (heq : ws.map Wf.F64.val = ws'.map Wf.F64.val) :
    h.hashElements P paramsF64 (ws.map fun w => [(Wf.Gen.F64.mont_to_int w).toNat]) =
      h.hashElements P paramsF64 (ws'.map fun w => [(Wf.Gen.F64.mont_to_int w).toNat]) ∧
    ∀ w ∈ ws, (Wf.Gen.F64.mont_to_int w).toNat < paramsF64.m := by
  constructor
  · have e : ∀ l : List (BitVec 64), (l.map fun w => [(Wf.Gen.F64.mont_to_int w).toNat]) =
        (l.map Wf.F64.val).map (fun v => [v]) := by
      intro l; simp [List.map_map, Function.comp_def, Wf.F64.as_int_spec]
    rw [e ws, e ws', heq]
  · intro w _
    rw [Wf.F64.as_int_spec]
    exact Wf.F64.val_lt w

/-- conversely the hashed bytes determine the canonical values (nothing else is hashed) -/
theorem hashElements_determines_values (f : FieldParams) (deg : Nat) (hb : 0 < f.bytes) (hdeg : 0 < deg)
    (es es' : List (List Nat))
    (he : ∀ e ∈ es, e.length = deg ∧ ∀ c ∈ e, c < 256 ^ f.bytes)
    (he' : ∀ e ∈ es', e.length = deg ∧ ∀ c ∈ e, c < 256 ^ f.bytes)
    (h : preHashElements f es = preHashElements f es') : es = es' :=
  preHashElements_inj f deg hb hdeg es es' he he' h

/-! ## non-vacuity -/

example : preMergeWithInt [1, 2] 258 = [1, 2, 2, 1, 0, 0, 0, 0, 0, 0] ∧
    preHashElements paramsF128 [[1, 2]] =
      [1, 0, 0, 0, 0, 0, 0, 0, 0, 0, 0, 0, 0, 0, 0, 0, 2, 0, 0, 0, 0, 0, 0, 0, 0, 0, 0, 0, 0, 0, 0, 0] ∧
    preHashElements paramsF64 [[1], [256]] = [1, 0, 0, 0, 0, 0, 0, 0, 0, 1, 0, 0, 0, 0, 0, 0] ∧
    preMergeMany [[1, 2], [3, 4], [5, 6]] = [1, 2, 3, 4, 5, 6] ∧
    blake3_192.digest (fun bs => bs ++ List.replicate 32 7) [9] = 9 :: List.replicate 23 7 := by
  decide

end Wf.Props.C15
