/-
C13 — polynomial helpers compute the documented results.

Statements are about the model `Wf/Model/Polynom.lean` (tied to `math/src/polynom/mod.rs` by the
correspondence stream `c13`), instantiated through the `ringOps` bridge with ANY commutative ring
`R` (resp. ANY field `K` where a division occurs) and any inversion function that inverts the
non-zero elements.  `ofCoeffs l` is the Mathlib polynomial whose `k`-th coefficient is `l[k]`
(`ofCoeffs_coeff`), so every statement is an identity in `R[X]` / `K[X]`.
  §1 eval / eval_many = Horner = Σ cᵢ xⁱ = `Polynomial.eval`
  §2 add / sub / mul_by_scalar coefficient-wise with zero padding
  §3 mul = polynomial product (convolution, evaluation homomorphism), total
  §4 degree_of = natDegree; remove_leading_zeros
  §5 poly_from_roots = Π (X − rᵢ)
  §6 syn_div(_in_place) by xᵃ − b; syn_div_roots_in_place by Π (X − rᵢ)
  §7 div = Euclidean quotient under the documented preconditions; panic conditions
  §8 interpolate / interpolate_batch: the result takes the prescribed values
-/
import Wf.Lemmas.PolynomInterp
import Mathlib.Algebra.Polynomial.BigOperators
set_option linter.unusedSectionVars false
namespace Wf.Props.C13
open Wf Wf.BatchUtils Wf.Polynom Polynomial

/-! ## §1 evaluation -/

section ring
variable {R : Type} [CommRing R] [DecidableEq R] (inv : R → R)

/-- `ofCoeffs l` is the polynomial with coefficient list `l` (lowest degree first) -/
theorem ofCoeffs_coeff (l : List R) (k : Nat) : (ofCoeffs l).coeff k = l.getD k 0 :=
  coeff_ofCoeffs l k

/-- `eval(p, x)` (Horner, from the highest coefficient) is the value of the polynomial -/
theorem eval_eq_polynomial_eval (p : List R) (x : R) :
    Polynom.eval (ringOps R inv) p x = (ofCoeffs p).eval x := eval_eq inv p x

/-- … which is the explicit sum Σ_{i < len} p[i]·xⁱ -/
theorem eval_eq_power_sum (p : List R) (x : R) :
    Polynom.eval (ringOps R inv) p x = ∑ i ∈ Finset.range p.length, p.getD i 0 * x ^ i := by
  rw [eval_eq]
  induction p with
  | nil => simp
  | cons c cs ih =>
    rw [ofCoeffs_cons, eval_add, eval_C, eval_mul, eval_X, ih, List.length_cons,
      Finset.sum_range_succ', Finset.mul_sum]
    simp only [List.getD_cons_succ, List.getD_cons_zero, pow_zero, mul_one, pow_succ]
    rw [add_comm]
    congr 1
    apply Finset.sum_congr rfl
    intro i _
    ring

theorem eval_many_eq (p xs : List R) :
    evalMany (ringOps R inv) p xs = xs.map (fun x => (ofCoeffs p).eval x) := evalMany_eq inv p xs

/-! ## §2 addition, subtraction, scalar multiplication -/

theorem add_eq_polynomial_add (a b : List R) :
    ofCoeffs (Polynom.add (ringOps R inv) a b) = ofCoeffs a + ofCoeffs b ∧
    (Polynom.add (ringOps R inv) a b).length = max a.length b.length ∧
    ∀ k, (Polynom.add (ringOps R inv) a b).getD k 0 = a.getD k 0 + b.getD k 0 := by
  refine ⟨ofCoeffs_add inv a b, by simp [Polynom.add], fun k => ?_⟩
  rw [← coeff_ofCoeffs, ofCoeffs_add, coeff_add, coeff_ofCoeffs, coeff_ofCoeffs]

theorem sub_eq_polynomial_sub (a b : List R) :
    ofCoeffs (Polynom.sub (ringOps R inv) a b) = ofCoeffs a - ofCoeffs b ∧
    (Polynom.sub (ringOps R inv) a b).length = max a.length b.length ∧
    ∀ k, (Polynom.sub (ringOps R inv) a b).getD k 0 = a.getD k 0 - b.getD k 0 := by
  refine ⟨ofCoeffs_sub inv a b, by simp [Polynom.sub], fun k => ?_⟩
  rw [← coeff_ofCoeffs, ofCoeffs_sub, coeff_sub, coeff_ofCoeffs, coeff_ofCoeffs]

theorem mul_by_scalar_eq (p : List R) (k : R) :
    ofCoeffs (mulByScalar (ringOps R inv) p k) = ofCoeffs p * C k ∧
    mulByScalar (ringOps R inv) p k = p.map (· * k) :=
  ⟨ofCoeffs_mulByScalar inv p k, rfl⟩

/-! ## §3 multiplication -/

/-- `mul` is total (no out-of-bounds access, no underflow – two empty slices included): the
result is the product polynomial; it is empty if an argument is empty (the zero polynomial) and
has `a.len() + b.len() − 1` coefficients otherwise -/
theorem mul_eq_polynomial_mul (a b : List R) :
    ∃ r, Polynom.mul (ringOps R inv) a b = some r ∧
      r.length = (if a = [] ∨ b = [] then 0 else a.length + b.length - 1) ∧
      ofCoeffs r = ofCoeffs a * ofCoeffs b := mul_spec inv a b

theorem mul_never_panics (a b : List R) : Polynom.mul (ringOps R inv) a b ≠ none := by
  obtain ⟨r, e, _⟩ := mul_spec inv a b
  rw [e]; exact fun h => by cases h

/-- convolution: coefficient `k` of the result is Σ_{i+j=k} a[i]·b[j] -/
theorem mul_is_convolution (a b : List R) :
    ∃ r, Polynom.mul (ringOps R inv) a b = some r ∧
      ∀ k, r.getD k 0 = ∑ ij ∈ Finset.antidiagonal k, a.getD ij.1 0 * b.getD ij.2 0 := by
  obtain ⟨r, e, _, p⟩ := mul_spec inv a b
  refine ⟨r, e, fun k => ?_⟩
  rw [← coeff_ofCoeffs, p, coeff_mul]
  simp only [coeff_ofCoeffs]

/-- evaluation homomorphism -/
theorem mul_eval (a b : List R) (x : R) :
    ∃ r, Polynom.mul (ringOps R inv) a b = some r ∧
      Polynom.eval (ringOps R inv) r x
        = Polynom.eval (ringOps R inv) a x * Polynom.eval (ringOps R inv) b x := by
  obtain ⟨r, e, _, p⟩ := mul_spec inv a b
  exact ⟨r, e, by rw [eval_eq, eval_eq, eval_eq, p, eval_mul]⟩

/-! ## §4 degree, leading zeros -/

/-- `degree_of` is the `natDegree` (0 for the zero polynomial, padded or empty) -/
theorem degree_of_eq_natDegree (p : List R) :
    degreeOf (ringOps R inv) p = (ofCoeffs p).natDegree := degreeOf_eq inv p

/-- `remove_leading_zeros`: same polynomial, a prefix of the input followed only by zeros, last
coefficient non-zero, length `natDegree + 1` (0 for the zero polynomial) -/
theorem remove_leading_zeros_spec (p : List R) :
    ofCoeffs (removeLeadingZeros (ringOps R inv) p) = ofCoeffs p ∧
    (∃ zs, p = removeLeadingZeros (ringOps R inv) p ++ zs ∧ ∀ z ∈ zs, z = 0) ∧
    (∀ h : removeLeadingZeros (ringOps R inv) p ≠ [],
      (removeLeadingZeros (ringOps R inv) p).getLast h ≠ 0) ∧
    (removeLeadingZeros (ringOps R inv) p).length
      = if ofCoeffs p = 0 then 0 else (ofCoeffs p).natDegree + 1 :=
  removeLeadingZeros_spec inv p

/-! ## §5 polynomial from roots -/

/-- `poly_from_roots(xs)` has `n + 1` coefficients and is Π (X − xᵢ) (duplicates allowed) -/
theorem poly_from_roots_eq_prod (xs : List R) :
    (polyFromRoots (ringOps R inv) xs).length = xs.length + 1 ∧
    ofCoeffs (polyFromRoots (ringOps R inv) xs) = (xs.map (fun r => X - C r)).prod :=
  polyFromRoots_spec inv xs

theorem poly_from_roots_eval (xs : List R) (x : R) :
    Polynom.eval (ringOps R inv) (polyFromRoots (ringOps R inv) xs) x = (xs.map (fun r => x - r)).prod := by
  rw [eval_eq, (polyFromRoots_spec inv xs).2, eval_list_prod, List.map_map]
  congr 1
  apply List.map_congr_left
  intro r _
  simp

/-! ## §6 synthetic division -/

/-- `syn_div_in_place(p, a, b)` under its documented preconditions (`a ≥ 1`, `b ≠ 0`,
`p.len() > a`): the result keeps the length of `p`, its top `a` coefficients are zero, the rest
`q` satisfies `p = q·(xᵃ − b) + r` with a remainder of fewer than `a` coefficients' degree -/
theorem syn_div_in_place_spec (p : List R) (a : Nat) (b : R) (ha : 0 < a) (hb : b ≠ 0)
    (hp : a < p.length) :
    ∃ q rl, synDivInPlace (ringOps R inv) p a b = some (q ++ List.replicate a 0) ∧
      q.length = p.length - a ∧ rl.length = a ∧
      ofCoeffs p = ofCoeffs q * (X ^ a - C b) + ofCoeffs rl ∧
      (ofCoeffs rl).degree < a := by
  obtain ⟨q, rl, e, l1, l2, id⟩ := synDivInPlace_spec inv p a b ha hb hp
  refine ⟨q, rl, e, l1, l2, id, ?_⟩
  have := degree_ofCoeffs_lt rl
  rwa [l2] at this

/-- `syn_div` is `syn_div_in_place` on a copy -/
theorem syn_div_eq_in_place {F : Type} (ops : FieldOps F) (p : List F) (a : Nat) (b : F) :
    synDiv ops p a b = synDivInPlace ops p a b := rfl

/-- exactly the documented panics -/
theorem syn_div_panics_iff (p : List R) (a : Nat) (b : R) :
    synDivInPlace (ringOps R inv) p a b = none ↔ a = 0 ∨ b = 0 ∨ p.length ≤ a :=
  synDivInPlace_none_iff inv p a b

/-- division by `x − b` (`a = 1`): the dropped remainder is `p(b)` -/
theorem syn_div_linear_remainder (p : List R) (b : R) :
    ofCoeffs p = ofCoeffs (synDiv1 (ringOps R inv) b p).1 * (X - C b) + C ((ofCoeffs p).eval b) := by
  have h := (synDiv1_spec inv b p).2
  rw [synDiv1_remainder] at h
  exact h

/-- `syn_div_roots_in_place(p, roots)` under its documented preconditions: the result keeps the
length of `p` and is a quotient by Π (X − rᵢ) with a remainder of degree < number of roots
(roots may repeat) -/
theorem syn_div_roots_spec (p roots : List R) (hr : roots ≠ []) (hp : roots.length < p.length) :
    ∃ q rl, synDivRootsInPlace (ringOps R inv) p roots = some q ∧ q.length = p.length ∧
      rl.length = roots.length ∧
      ofCoeffs p = ofCoeffs q * (roots.map (fun r => X - C r)).prod + ofCoeffs rl ∧
      (ofCoeffs rl).degree < roots.length := by
  obtain ⟨l, rl, hl, id⟩ := foldl_synDiv1_spec inv roots p
  refine ⟨_, rl, ?_, l, hl, id, ?_⟩
  · unfold synDivRootsInPlace
    rw [if_neg (by simpa using hr), if_neg (by omega)]
  · have := degree_ofCoeffs_lt rl
    rwa [hl] at this

theorem syn_div_roots_panics_iff (p roots : List R) :
    synDivRootsInPlace (ringOps R inv) p roots = none ↔ roots = [] ∨ p.length ≤ roots.length := by
  unfold synDivRootsInPlace
  by_cases h1 : roots = []
  · simp [h1]
  · by_cases h2 : p.length ≤ roots.length
    · simp [h1, h2]
    · simp [h1, h2]

end ring

/-! ## §7 division, and the quotients of §6 as Euclidean quotients -/

section field
variable {K : Type} [Field K] [DecidableEq K] (inv : K → K)

/-- `div(a, b)` under the documented preconditions (`b` not the zero polynomial – in particular
not empty –, `deg b ≤ deg a`), for EVERY dividend (empty = zero polynomial included): no
out-of-bounds access, the result has `deg a − deg b + 1` coefficients and is THE Euclidean quotient
`a / b` (the remainder, of smaller degree than `b`, is dropped) – leading-zero padding of either
argument is irrelevant -/
theorem div_is_euclidean_quotient (hinv : ∀ x : K, x ≠ 0 → x * inv x = 1) (a b : List K)
    (hb : ofCoeffs b ≠ 0) (hdeg : (ofCoeffs b).natDegree ≤ (ofCoeffs a).natDegree) :
    ∃ q, Polynom.div (ringOps K inv) a b = some q ∧
      q.length = (ofCoeffs a).natDegree - (ofCoeffs b).natDegree + 1 ∧
      ofCoeffs q = ofCoeffs a / ofCoeffs b ∧
      (ofCoeffs a - ofCoeffs q * ofCoeffs b).degree < (ofCoeffs b).degree :=
  div_eq_euclidean inv hinv a b hb hdeg

/-- the exact panic set of `div` is the documented one: `b` empty or the zero polynomial
(⇔ `ofCoeffs b = 0`), or `deg b > deg a` -/
theorem div_panics_iff (hinv : ∀ x : K, x ≠ 0 → x * inv x = 1) (a b : List K) :
    Polynom.div (ringOps K inv) a b = none ↔
      ofCoeffs b = 0 ∨ (ofCoeffs a).natDegree < (ofCoeffs b).natDegree :=
  div_none_iff inv hinv a b

/-- an empty dividend divided by a non-zero constant gives `[0]` (this panicked before the fix
f3bdbb5) -/
theorem div_empty_dividend (hinv : ∀ x : K, x ≠ 0 → x * inv x = 1) (c : K) (hc : c ≠ 0) :
    ∃ q, Polynom.div (ringOps K inv) [] [c] = some q ∧ q.length = 1 ∧ ofCoeffs q = 0 := by
  have hb : ofCoeffs [c] ≠ 0 := by simpa using hc
  obtain ⟨q, e, l, p, _⟩ := div_eq_euclidean inv hinv [] [c] hb (by simp)
  refine ⟨q, e, by simpa using l, ?_⟩
  rw [p]; simp

omit [DecidableEq K] in
theorem degree_prod_X_sub_C (roots : List K) :
    ((roots.map (fun r => X - C r)).prod).degree = (roots.length : WithBot ℕ) := by
  induction roots with
  | nil => simp
  | cons r rs ih =>
    rw [List.map_cons, List.prod_cons, degree_mul, degree_X_sub_C, ih, List.length_cons]
    push_cast
    ring

/-- `syn_div` returns the Euclidean quotient by `xᵃ − b` (padded with `a` zeros) -/
theorem syn_div_is_euclidean_quotient (p : List K) (a : Nat) (b : K) (ha : 0 < a) (hb : b ≠ 0)
    (hp : a < p.length) :
    ∃ q, synDiv (ringOps K inv) p a b = some q ∧ q.length = p.length ∧
      ofCoeffs q = ofCoeffs p / (X ^ a - C b) := by
  obtain ⟨q, rl, e, l1, l2, id⟩ := synDivInPlace_spec inv p a b ha hb hp
  refine ⟨_, e, by simp [l1]; omega, ?_⟩
  rw [ofCoeffs_append, ofCoeffs_replicate_zero, mul_zero, add_zero]
  refine (div_eq_of_euclid _ _ _ _ id ?_).symm
  rw [degree_X_pow_sub_C ha]
  have := degree_ofCoeffs_lt rl
  rwa [l2] at this

/-- `syn_div_roots_in_place` returns the Euclidean quotient by Π (X − rᵢ) -/
theorem syn_div_roots_is_euclidean_quotient (p roots : List K) (hr : roots ≠ [])
    (hp : roots.length < p.length) :
    ∃ q, synDivRootsInPlace (ringOps K inv) p roots = some q ∧ q.length = p.length ∧
      ofCoeffs q = ofCoeffs p / (roots.map (fun r => X - C r)).prod := by
  obtain ⟨q, rl, e, l, hl, id, hd⟩ := syn_div_roots_spec inv p roots hr hp
  refine ⟨q, e, l, (div_eq_of_euclid _ _ _ _ id ?_).symm⟩
  rw [degree_prod_X_sub_C]
  exact hd

/-! ## §8 interpolation -/

/-- `interpolate(xs, ys, ·)` for pairwise distinct nodes (ZERO allowed) and at least as many
values: no panic for every thread count, `n` coefficients (so degree < n), and the polynomial
takes the value `ys[i]` at `xs[i]` – hence it is the unique interpolant; with
`remove_leading_zeros = true` the same polynomial without its leading zeros (§4) -/
theorem interpolate_interpolates (hinv : ∀ x : K, x ≠ 0 → x * inv x = 1) (threads : Nat)
    (xs ys : List K) (hnd : xs.Nodup) (hlen : xs.length ≤ ys.length) :
    ∃ r, interpolate (ringOps K inv) threads xs ys false = some r ∧
      interpolate (ringOps K inv) threads xs ys true = some (removeLeadingZeros (ringOps K inv) r) ∧
      r.length = xs.length ∧
      ∀ i (h : i < xs.length), Polynom.eval (ringOps K inv) r xs[i] = ys[i]'(by omega) := by
  obtain ⟨r, e1, e2, l, p⟩ := interpolate_spec inv hinv threads xs ys hnd hlen
  exact ⟨r, e1, e2, l, fun i h => by rw [eval_eq]; exact p i h⟩

/-- `interpolate_batch::<_, N>` (N ≥ 1) for batches of `N` pairwise distinct nodes (zero allowed
here) and at least as many value batches: one polynomial of `N` coefficients per batch, taking
the prescribed values, for every thread count -/
theorem interpolate_batch_interpolates (hinv : ∀ x : K, x ≠ 0 → x * inv x = 1) (threads n : Nat)
    (hn : 0 < n) (xs ys : List (List K)) (hx : ∀ row ∈ xs, row.length = n ∧ row.Nodup)
    (hy : ∀ row ∈ ys, row.length = n) (hlen : xs.length ≤ ys.length) :
    ∃ rs, interpolateBatch (ringOps K inv) threads n xs ys = some rs ∧ rs.length = xs.length ∧
      ∀ i (h1 : i < xs.length) (h2 : i < rs.length), (rs[i]).length = n ∧
        ∀ j (hj : j < (xs[i]).length),
          Polynom.eval (ringOps K inv) rs[i] (xs[i])[j] = (ys[i]'(by omega))[j]'(by
            rw [hy _ (List.getElem_mem _), ← (hx _ (List.getElem_mem h1)).1]; exact hj) := by
  obtain ⟨rs, e, l, p⟩ := interpolateBatch_spec inv hinv threads n hn xs ys hx hy hlen
  refine ⟨rs, e, l, fun i h1 h2 => ⟨(p i h1 h2).1, fun j hj => ?_⟩⟩
  rw [eval_eq]
  exact (p i h1 h2).2 j hj

end field

/-! ## non-vacuity -/

example : Polynom.eval (ringOps ℤ id) [1, 2, 3] 2 = 17 := by decide
example : Polynom.add (ringOps ℤ id) [1, 2] [10] = [11, 2] := by decide
example : Polynom.mul (ringOps ℤ id) [1, 1] [1, 1] = some [1, 2, 1] := by decide
example : Polynom.mul (ringOps ℤ id) [] [1, 2] = some [] := by decide
example : Polynom.mul (ringOps ℤ id) ([] : List ℤ) [] = some [] := by decide
example : degreeOf (ringOps ℤ id) [1, 2, 0, 0] = 1 := by decide
example : removeLeadingZeros (ringOps ℤ id) [0, 0] = [] := by decide
example : polyFromRoots (ringOps ℤ id) [1, 1, 2] = [-2, 5, -4, 1] := by decide
example : synDiv (ringOps ℤ id) [1, 2, 3, 4, 5, 6, 7] 3 2 = some [18, 5, 6, 7, 0, 0, 0] := by decide
example : synDiv (ringOps ℤ id) [6, 5, 1] 1 (-2) = some [3, 1, 0] := by decide
example : synDivRootsInPlace (ringOps ℤ id) [2, -5, 4, -1, 0] [1, 1] = some [2, -1, 0, 0, 0] := by decide
example : Polynom.div (ringOps ℚ (fun x => x⁻¹)) [6, 5, 1, 0] [2, 1, 0] = some [3, 1] := by
  unfold Polynom.div; norm_num [degreeOf, lastNonzero, headIsZero, ringOps, divLoop, subRow]
example : ([0, 1, 2] : List ℚ).Nodup := by simp
example : ∃ r, interpolate (ringOps ℚ (fun x => x⁻¹)) 1 [0, 1] [5, 7] false = some r ∧
    Polynom.eval (ringOps ℚ (fun x => x⁻¹)) r 0 = 5 ∧ Polynom.eval (ringOps ℚ (fun x => x⁻¹)) r 1 = 7 := by
  obtain ⟨r, e, _, _, p⟩ := interpolate_interpolates (fun x : ℚ => x⁻¹) (fun x hx => mul_inv_cancel₀ hx)
    1 [0, 1] [5, 7] (by simp) (by simp)
  exact ⟨r, e, p 0 (by simp), p 1 (by simp)⟩

end Wf.Props.C13
