/-
C27 — the streaming reader (`ReadAdapter`) behaves like the in-memory reader (`SliceReader`) for
any chunking of the underlying stream.

Model: `Wf/Model/Adapter.lean` (state machine with the struct's fields, the `BufReader` buffer and
the schedule of future `read` results).  Helper lemmas: `Wf/Lemmas/Adapter*.lean`.
-/
import Wf.Lemmas.AdapterReads
namespace Wf.Props.C27
open Wf Wf.Adapter

/-- pointwise relation between the adapter's and the slice reader's responses to one op list -/
def AllOk : List ROp → List RResp → List RResp → Prop
  | [], [], [] => True
  | op :: ops, a :: as, b :: bs => RespOk op a b ∧ AllOk ops as bs
  | _, _, _ => False

/-- One operation, any state: the adapter's observable response is the slice reader's response on
    the bytes still to be delivered, the remaining bytes agree afterwards, and the invariants are
    kept.  `check_eor` may only differ by being optimistic. -/
theorem step_refines (s : Adapter) (h : NonEmptyChunks s) (hinv : EofInv s) (op : ROp) :
    StepOk s op := by
  cases op with
  | peek => exact step_peek s h
  | readU8 => exact step_readU8 s h
  | readSlice n => exact step_readSlice s h n
  | readArray n => exact step_readArray s h n
  | checkEor n => exact step_checkEor s h hinv n
  | hasMore => exact step_hasMore s h

/-- Every operation sequence, from every reachable state. -/
theorem run_refines (ops : List ROp) (s : Adapter) (h : NonEmptyChunks s) (hinv : EofInv s) :
    AllOk ops (runAdapter s ops) (runSlice s.abs ops) := by
  induction ops generalizing s with
  | nil => simp [runAdapter, runSlice, AllOk]
  | cons op ops ih =>
    obtain ⟨h1, h2, h3, h4⟩ := step_refines s h hinv op
    simp only [runAdapter, runSlice, AllOk]
    refine ⟨h3, ?_⟩
    rw [← h2]
    exact ih _ h1 (h4 hinv)

/-- The property as stated: for any content, split into read chunks in any way (every read returns
    at least one byte until the content is exhausted), every operation sequence gives the same
    values and the same end-of-input errors on the streaming adapter as on the in-memory reader
    over the concatenated content. -/
theorem adapter_matches_slice_reader (chunks : List Bytes) (hne : ∀ c ∈ chunks, c ≠ [])
    (ops : List ROp) :
    AllOk ops (runAdapter (Adapter.init chunks) ops) (runSlice chunks.flatten ops) := by
  have habs : (Adapter.init chunks).abs = chunks.flatten := by
    simp [Adapter.init, abs, buffer]
  rw [← habs]
  exact run_refines ops _ hne (by intro he; cases he)

/-- `AllOk` unfolded for a single position: responses are equal except for an optimistic
    `check_eor`, and a `check_eor` failure on the adapter is a failure on the slice reader. -/
theorem check_eor_never_pessimistic (s : Adapter) (h : NonEmptyChunks s) (hinv : EofInv s) (n : Nat)
    (hf : (adapterStep s (.checkEor n)).2 = .flag false) : s.abs.length < n := by
  obtain ⟨_, _, h3, _⟩ := step_refines s h hinv (.checkEor n)
  simp only [RespOk] at h3
  have := h3.1 hf
  simp only [sliceStep] at this
  have hd : decide (n ≤ s.abs.length) = false := by injection this
  have : ¬ n ≤ s.abs.length := by simpa using hd
  omega

/-- The adapter never panics: none of its responses is `abort`
    (out-of-range slice, failed `debug_assert!`, `unreachable!`). -/
theorem adapter_never_panics (s : Adapter) (h : NonEmptyChunks s) (hinv : EofInv s) (op : ROp) :
    (adapterStep s op).2 ≠ .abort := by
  obtain ⟨_, _, h3, _⟩ := step_refines s h hinv op
  intro hab
  cases op with
  | checkEor n =>
    simp only [RespOk] at h3
    obtain ⟨f, hf⟩ := h3.2
    rw [hab] at hf; cases hf
  | peek =>
    simp only [RespOk] at h3; rw [hab] at h3
    simp only [sliceStep] at h3; split at h3 <;> cases h3
  | readU8 =>
    simp only [RespOk] at h3; rw [hab] at h3
    simp only [sliceStep] at h3; split at h3 <;> cases h3
  | readSlice n =>
    simp only [RespOk] at h3; rw [hab] at h3
    simp only [sliceStep] at h3; split at h3 <;> cases h3
  | readArray n =>
    simp only [RespOk] at h3; rw [hab] at h3
    simp only [sliceStep] at h3; split at h3 <;> cases h3
  | hasMore =>
    simp only [RespOk] at h3; rw [hab] at h3
    simp only [sliceStep] at h3; cases h3

/-! ### non-vacuity: a concrete history (short reads, a read straddling three chunks, EOF) -/

example :
    let chunks : List Bytes := [[0, 1, 2, 3, 4], [5], [6, 7, 8, 9, 10, 11]]
    (∀ c ∈ chunks, c ≠ []) ∧
    runAdapter (Adapter.init chunks) [.readSlice 1, .readArray 8, .readU8, .checkEor 3, .readArray 4] =
      [.bytes [0], .bytes [1, 2, 3, 4, 5, 6, 7, 8], .byte 9, .flag false, .eof] ∧
    runSlice chunks.flatten [.readSlice 1, .readArray 8, .readU8, .checkEor 3, .readArray 4] =
      [.bytes [0], .bytes [1, 2, 3, 4, 5, 6, 7, 8], .byte 9, .flag false, .eof] := by
  decide

end Wf.Props.C27
