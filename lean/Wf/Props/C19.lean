/-
C19 — Merkle verification rejects wrong data and never panics.

Model: `Wf/Model/Merkle.lean` (see `Wf/Props/C18.lean`).  The hash function is a parameter.

* Rejection theorems take `MergeInjective merge` — injectivity of `merge` as a function of the
  ordered pair, i.e. exactly `Function.Injective2 merge` — as an EXPLICIT hypothesis: this is the
  idealisation of collision resistance, visible in every statement that needs it.
  `verify_accepts_only_the_opening` is the soundness statement (for every tree, every in-range
  index, every leaf value and every path of the tree's depth); `wrong_leaf_rejected`,
  `wrong_proof_node_rejected`, `wrong_index_rejected` are its three single-substitution forms.
* No-panic theorems need no hypothesis at all: for ARBITRARY (proof, indexes, leaves) the three
  batch entry points `get_root`, `verify_batch`, `into_openings` return `ok`/`err`, never `abort`
  (RELEASE integer semantics: `2usize.pow(depth)` wraps, `1 << depth` masks the shift; in a build
  with overflow checks `depth ≥ 64`, and `index + (1 << depth)` for indexes near `usize::MAX`,
  are panic sites outside this model).  Out-of-range and duplicate indexes are errors.
* Panics that DO exist in the modelled code are stated as theorems too: single-opening `verify`
  indexes `proof[0]` (`verify_panics_iff_empty_proof`), `from_single_proofs` panics as documented.
* `verify_ignores_high_index_bits`: single-opening `verify` does not range-check the index
  (only its low `proof.len()` bits are used) — the property speaks of in-range indexes only.

* Batch SOUNDNESS (`verify_batch_accepts_only_true_leaves`, `batch_wrong_leaf_or_index_rejected`):
  under `MergeInjective merge`, for ARBITRARY proof nodes of the tree's depth, `get_root` /
  `verify_batch` accept only if the index list is non-empty, duplicate-free, in range and EVERY
  supplied leaf is the tree's leaf at its claimed index.  The depth byte must be the tree's depth:
  `verify_batch` itself does not bind it (the callers compare `1 << depth` with the domain size).
  `verify_batch_accepts_only_the_provers_proof`: accepted (leaves, proof) ARE the output of
  `prove_batch` for these indexes (every node `get_root` reads is the tree's node, - fix f1ad895 -
  every supplied node is read, - fix af69a4d - there is exactly one leaf per index); `verify_batch_accepts_only_the_trees_nodes` is its node-vector
  form, `batch_wrong_proof_node_rejected` the substitution form.
* LEAF COUNT (fix af69a4d in /repo: `get_root` returns `InvalidProof` unless
  `indexes.len() == leaves.len()`, right after the emptiness check; before, leaves beyond the
  number of indexes were ignored, so an opening with surplus leaves verified):
  `get_root_rejects_leaf_count_mismatch`, `get_root_accepts_only_one_leaf_per_index` (any proof, any
  `merge`); the soundness theorems now conclude `lv.length = idxs.length`, and
  `verify_batch_accepts_only_the_provers_proof` concludes `prove_batch idxs = ok (lv, p')`.
* CONSUMPTION (fix f1ad895 in /repo: `get_root` returns `InvalidProof` unless
  `proof_pointers[i] == nodes[i].len()` for every `i` after the walk; before, a digest appended to
  a node vector was never looked at and the padded proof opened the same leaves against the same
  root).  These theorems need NO tree and NO property of `merge`:
  `get_root_rejects_appended_nodes` (any accepted proof, any vector, any non-empty list of
  digests appended: `InvalidProof` from `get_root` and `verify_batch`),
  `get_root_rejects_proper_extensions` (several vectors extended at once),
  `get_root_accepts_one_length_variant` (non-malleability in the lengths: two accepted proofs for
  the same indexes/leaves whose vectors are pairwise prefix-comparable are equal - this covers
  "one vector longer, another one shorter").
  `into_openings` has no such check in /repo (it is not a verification function; its result is
  re-verified opening by opening); the model mirrors that.
-/
import Wf.Lemmas.MerkleConsume
namespace Wf.Props.C19
open Wf Wf.Merkle

variable {D : Type}

/-- `merge` is injective as a function of the ordered pair (`Function.Injective2 merge`) -/
def MergeInjective (merge : D → D → D) : Prop :=
  ∀ a b c e, merge a b = merge c e → a = c ∧ b = e

/-! ## Single openings: rejection under injectivity -/

/-- SOUNDNESS of `verify`: against the root of a tree, an in-range index, a leaf value and a path
of the tree's depth are accepted only if they are the tree's leaf at that index and exactly the
opening `prove` returns for it. -/
theorem verify_accepts_only_the_opening [Inhabited D] [DecidableEq D] (merge : D → D → D)
    (inj : MergeInjective merge) (L : List D) (t : Tree D) (ht : Tree.new merge L = .ok t)
    (r : D) (hr : t.root = .ok r) (i : Nat) (hi : i < L.length) (leaf : D) (proof : List D)
    (hlen : proof.length = t.depth) (hv : verify merge r i leaf proof = .ok ()) :
    L[i]? = some leaf ∧ t.prove i = .ok (leaf, proof) := by
  obtain ⟨d, hd, hl, H⟩ := new_heap merge L t ht
  have hi' : i < 2 ^ d := by omega
  have hr' : r = heapFn t 1 := by
    have := heap_troot H; rw [hr] at this; exact Res.ok.inj this
  subst hr'
  obtain ⟨e1, e2⟩ := heap_verify_sound H inj i hi' leaf proof (by rw [hlen, heap_depth H]) hv
  subst e1 e2
  exact ⟨by rw [← hl]; exact H.leaf i hi', heap_prove H i hi'⟩

/-- a leaf value other than the tree's is rejected (whatever path of the right length comes with it) -/
theorem wrong_leaf_rejected [Inhabited D] [DecidableEq D] (merge : D → D → D)
    (inj : MergeInjective merge) (L : List D) (t : Tree D) (ht : Tree.new merge L = .ok t)
    (r : D) (hr : t.root = .ok r) (i : Nat) (hi : i < L.length) (leaf' : D) (proof : List D)
    (hlen : proof.length = t.depth) (hne : L[i]? ≠ some leaf') :
    verify merge r i leaf' proof = .err .invalid := by
  have hp : proof ≠ [] := by
    obtain ⟨d, _, _, H⟩ := new_heap merge L t ht
    intro h; rw [h, heap_depth H] at hlen; have := H.dpos; simp at hlen; omega
  rcases verify_cases merge r i leaf' proof hp with h | h
  · exact absurd (verify_accepts_only_the_opening merge inj L t ht r hr i hi leaf' proof hlen h).1 hne
  · exact h

/-- a path that differs from the tree's opening in any node is rejected -/
theorem wrong_proof_node_rejected [Inhabited D] [DecidableEq D] (merge : D → D → D)
    (inj : MergeInjective merge) (L : List D) (t : Tree D) (ht : Tree.new merge L = .ok t)
    (r : D) (hr : t.root = .ok r) (i : Nat) (hi : i < L.length) (leaf : D) (proof proof' : List D)
    (hp : t.prove i = .ok (leaf, proof)) (hlen : proof'.length = proof.length)
    (hne : proof' ≠ proof) :
    verify merge r i leaf proof' = .err .invalid := by
  obtain ⟨d, hd, hl, H⟩ := new_heap merge L t ht
  have hi' : i < 2 ^ d := by omega
  have hpl : proof.length = t.depth := by
    have := heap_prove H i hi'; rw [hp] at this
    have e := (Prod.mk.inj (Res.ok.inj this)).2
    rw [e, heap_depth H]; simp
  have hne' : proof' ≠ [] := by
    intro h; rw [h, hpl, heap_depth H] at hlen; have := H.dpos; simp at hlen; omega
  rcases verify_cases merge r i leaf proof' hne' with h | h
  · have := (verify_accepts_only_the_opening merge inj L t ht r hr i hi leaf proof'
      (by rw [hlen, hpl]) h).2
    rw [hp] at this
    exact absurd (Prod.mk.inj (Res.ok.inj this)).2.symm hne
  · exact h

/-- an opening presented for another in-range index is rejected — unless it happens to BE the
tree's opening of that index too (equal sibling subtrees), in which case the claim is true -/
theorem wrong_index_rejected [Inhabited D] [DecidableEq D] (merge : D → D → D)
    (inj : MergeInjective merge) (L : List D) (t : Tree D) (ht : Tree.new merge L = .ok t)
    (r : D) (hr : t.root = .ok r) (i i' : Nat) (hi' : i' < L.length) (leaf : D) (proof : List D)
    (hp : t.prove i = .ok (leaf, proof)) (hi : i < L.length)
    (hne : t.prove i' ≠ .ok (leaf, proof)) :
    verify merge r i' leaf proof = .err .invalid := by
  obtain ⟨d, hd, hl, H⟩ := new_heap merge L t ht
  have hi2 : i < 2 ^ d := by omega
  have hpl : proof.length = t.depth := by
    have := heap_prove H i hi2; rw [hp] at this
    have e := (Prod.mk.inj (Res.ok.inj this)).2
    rw [e, heap_depth H]; simp
  have hne' : proof ≠ [] := by
    intro h; rw [h, heap_depth H] at hpl; have := H.dpos; simp at hpl; omega
  rcases verify_cases merge r i' leaf proof hne' with h | h
  · exact absurd (verify_accepts_only_the_opening merge inj L t ht r hr i' hi' leaf proof hpl h).2 hne
  · exact h

/-- in particular: if the two positions hold different leaves, the opening of `i` is rejected at `i'` -/
theorem wrong_index_rejected_distinct_leaves [Inhabited D] [DecidableEq D] (merge : D → D → D)
    (inj : MergeInjective merge) (L : List D) (t : Tree D) (ht : Tree.new merge L = .ok t)
    (r : D) (hr : t.root = .ok r) (i i' : Nat) (hi : i < L.length) (hi' : i' < L.length)
    (leaf : D) (proof : List D) (hp : t.prove i = .ok (leaf, proof)) (hne : L[i']? ≠ L[i]?) :
    verify merge r i' leaf proof = .err .invalid := by
  apply wrong_index_rejected merge inj L t ht r hr i i' hi' leaf proof hp hi
  intro h
  obtain ⟨d, hd, hl, H⟩ := new_heap merge L t ht
  have e1 := heap_prove H i (by omega); rw [hp] at e1
  have e2 := heap_prove H i' (by omega); rw [h] at e2
  have l1 := (Prod.mk.inj (Res.ok.inj e1)).1
  have l2 := (Prod.mk.inj (Res.ok.inj e2)).1
  apply hne
  rw [← hl, H.leaf i (by omega), H.leaf i' (by omega), ← l1, ← l2]

/-! ## Single openings: the panic that exists, and the unchecked index range -/

/-- `verify` panics exactly on an empty path (`proof[0]`); otherwise it returns `ok` or
`InvalidProof` -/
theorem verify_panics_iff_empty_proof [DecidableEq D] (merge : D → D → D) (r : D) (i : Nat)
    (leaf : D) (proof : List D) : verify merge r i leaf proof = .abort ↔ proof = [] := by
  constructor
  · intro h
    cases proof with
    | nil => rfl
    | cons p ps =>
      rcases verify_cases merge r i leaf (p :: ps) (by simp) with h' | h' <;> rw [h'] at h <;> cases h
  · intro h; subst h; rfl

/-- `verify` never looks at index bits `≥ proof.len()`: `index + k·2^len` gets the same verdict
(the index is not range-checked; the property is about in-range indexes) -/
theorem verify_ignores_high_index_bits [DecidableEq D] (merge : D → D → D) (r : D) (i k : Nat)
    (leaf : D) (proof : List D) :
    verify merge r (i + 2 ^ proof.length * k) leaf proof = verify merge r i leaf proof :=
  verify_high_bits merge r i k leaf proof

/-! ## Batch entry points: never a panic, for arbitrary input -/

/-- `BatchMerkleProof::get_root` on ANY proof (any depth byte, any node vectors), ANY index list
and ANY leaf list returns a digest or an error -/
theorem get_root_never_panics (merge : D → D → D) (p : BatchProof D) (idxs : List Nat)
    (lv : List D) : p.getRoot merge idxs lv ≠ .abort :=
  getRoot_noabort merge p idxs lv

/-- `MerkleTree::verify_batch` likewise -/
theorem verify_batch_never_panics [DecidableEq D] (merge : D → D → D) (root : D)
    (p : BatchProof D) (idxs : List Nat) (lv : List D) :
    verifyBatch merge root idxs lv p ≠ .abort :=
  verifyBatch_noabort merge root p idxs lv

/-- `BatchMerkleProof::into_openings` likewise -/
theorem into_openings_never_panics (merge : D → D → D) (p : BatchProof D) (idxs : List Nat)
    (lv : List D) : p.intoOpenings merge lv idxs ≠ .abort :=
  intoOpenings_noabort merge p idxs lv

/-- LEAF COUNT (fix af69a4d).  For ANY proof, ANY `merge`, ANY root: a non-empty index list with a
different number of leaves — surplus leaves as well as missing ones — makes `get_root` and
`verify_batch` return `InvalidProof` (before the fix, surplus leaves were silently ignored). -/
theorem get_root_rejects_leaf_count_mismatch [DecidableEq D] (merge : D → D → D) (root : D)
    (p : BatchProof D) (idxs : List Nat) (lv : List D) (hne : idxs ≠ [])
    (hlen : idxs.length ≠ lv.length) :
    p.getRoot merge idxs lv = .err .invalid ∧ verifyBatch merge root idxs lv p = .err .invalid := by
  have hie : idxs.isEmpty = false := by cases idxs <;> simp_all
  have hg : p.getRoot merge idxs lv = .err .invalid := by
    simp [BatchProof.getRoot, hie, hlen]
  exact ⟨hg, by simp [verifyBatch, hg]⟩

/-- acceptance form: whatever `get_root` / `verify_batch` accept comes with exactly one leaf per
index (and at least one index) -/
theorem get_root_accepts_only_one_leaf_per_index [DecidableEq D] (merge : D → D → D) (root : D)
    (p : BatchProof D) (idxs : List Nat) (lv : List D) :
    (∀ r, p.getRoot merge idxs lv = .ok r → idxs ≠ [] ∧ lv.length = idxs.length) ∧
    (verifyBatch merge root idxs lv p = .ok () → idxs ≠ [] ∧ lv.length = idxs.length) := by
  have key : ∀ r, p.getRoot merge idxs lv = .ok r → idxs ≠ [] ∧ lv.length = idxs.length := by
    intro r hg
    obtain ⟨hie, hlv, _⟩ := getRoot_ok_inv merge p idxs lv r hg
    exact ⟨by intro h; subst h; simp at hie, hlv.symm⟩
  refine ⟨key, ?_⟩
  intro hv
  unfold verifyBatch at hv
  split at hv
  · cases hv
  · cases hv
  · rename_i r' hr'
    exact key r' hr'

/-- the documented errors, in the order the code tests them: an empty index list is
`TooFewLeafIndexes`; then (fix af69a4d) a leaf count other than the index count is `InvalidProof`;
then — one leaf per index — an index `≥ 2^depth` (as `usize`) is `LeafIndexOutOfBounds` and,
all in range, a duplicate index is `DuplicateLeafIndex` -/
theorem batch_bad_indexes_are_errors [DecidableEq D] (merge : D → D → D) (root : D)
    (p : BatchProof D) (idxs : List Nat) (lv : List D) :
    (idxs = [] → p.getRoot merge idxs lv = .err .tooFewIdx ∧
        verifyBatch merge root idxs lv p = .err .tooFewIdx) ∧
    (idxs ≠ [] → idxs.length ≠ lv.length → p.getRoot merge idxs lv = .err .invalid ∧
        verifyBatch merge root idxs lv p = .err .invalid) ∧
    (idxs ≠ [] → idxs.length = lv.length → (∃ i ∈ idxs, pow2usize p.depth ≤ i) →
        p.getRoot merge idxs lv = .err .oob ∧ verifyBatch merge root idxs lv p = .err .oob) ∧
    (idxs ≠ [] → idxs.length = lv.length → (∀ i ∈ idxs, i < pow2usize p.depth) → ¬ idxs.Nodup →
        p.getRoot merge idxs lv = .err .dup ∧ verifyBatch merge root idxs lv p = .err .dup) := by
  refine ⟨?_, ?_, ?_, ?_⟩
  · intro h; subst h; simp [BatchProof.getRoot, verifyBatch]
  · intro hne hlen
    exact get_root_rejects_leaf_count_mismatch merge root p idxs lv hne hlen
  · intro hne hlen hob
    have hie : idxs.isEmpty = false := by cases idxs <;> simp_all
    have hg : p.getRoot merge idxs lv = .err .oob := by
      simp [BatchProof.getRoot, hie, hlen, grRun, mapIndexes_oob idxs p.depth hob]
    exact ⟨hg, by simp [verifyBatch, hg]⟩
  · intro hne hlen hr hnd
    have hie : idxs.isEmpty = false := by cases idxs <;> simp_all
    have hg : p.getRoot merge idxs lv = .err .dup := by
      simp [BatchProof.getRoot, hie, hlen, grRun, mapIndexes_dup idxs p.depth hr hnd]
    exact ⟨hg, by simp [verifyBatch, hg]⟩

/-- the same inputs make `into_openings` return an error (the length check comes first) -/
theorem into_openings_bad_indexes_are_errors (merge : D → D → D) (p : BatchProof D)
    (idxs : List Nat) (lv : List D)
    (hbad : idxs = [] ∨ (∃ i ∈ idxs, pow2usize p.depth ≤ i) ∨
      ((∀ i ∈ idxs, i < pow2usize p.depth) ∧ ¬ idxs.Nodup)) :
    ∃ e, p.intoOpenings merge lv idxs = .err e := by
  by_cases hie : idxs.isEmpty = true
  · exact ⟨.tooFewIdx, by simp [BatchProof.intoOpenings, hie]⟩
  · by_cases hl : idxs.length ≠ lv.length
    · exact ⟨.invalid, by simp [BatchProof.intoOpenings, hie, hl]⟩
    · have hne : idxs ≠ [] := by intro h; subst h; simp at hie
      rcases hbad with h | h | h
      · exact absurd h hne
      · exact ⟨.oob, by simp [BatchProof.intoOpenings, hie, hl, grRun, mapIndexes_oob idxs p.depth h]⟩
      · exact ⟨.dup, by simp [BatchProof.intoOpenings, hie, hl, grRun, mapIndexes_dup idxs p.depth h.1 h.2]⟩

/-- with a depth byte `≥ 64` every non-empty index list is "out of range" (`2usize.pow` wraps to 0
in a release build), so `get_root` / `verify_batch` return an error for EVERY input:
`LeafIndexOutOfBounds` with one leaf per index, `InvalidProof` otherwise -/
theorem batch_depth_ge_64_is_error [DecidableEq D] (merge : D → D → D) (root : D)
    (p : BatchProof D) (hd : 64 ≤ p.depth) (idxs : List Nat) (hne : idxs ≠ []) (lv : List D) :
    p.getRoot merge idxs lv = .err (if idxs.length = lv.length then .oob else .invalid) ∧
    verifyBatch merge root idxs lv p =
      .err (if idxs.length = lv.length then .oob else .invalid) := by
  have hz : pow2usize p.depth = 0 := by
    unfold pow2usize
    obtain ⟨k, hk⟩ : ∃ k, p.depth = 64 + k := ⟨p.depth - 64, by omega⟩
    rw [hk, Nat.pow_add]; exact Nat.mul_mod_right _ _
  by_cases hlen : idxs.length = lv.length
  · rw [if_pos hlen]
    obtain ⟨i, rest, rfl⟩ : ∃ i rest, idxs = i :: rest := by
      cases idxs with
      | nil => exact absurd rfl hne
      | cons a b => exact ⟨a, b, rfl⟩
    exact (batch_bad_indexes_are_errors merge root p (i :: rest) lv).2.2.1 hne hlen
      ⟨i, by simp, by rw [hz]; omega⟩
  · rw [if_neg hlen]
    exact get_root_rejects_leaf_count_mismatch merge root p idxs lv hne hlen

/-! ## Batch verification: rejection under injectivity -/

/-- SOUNDNESS of `verify_batch`: for any proof nodes whatsoever (depth byte = the tree's depth),
acceptance against the tree's root implies that the index list is non-empty, duplicate-free and in
range, that there is exactly one leaf per index (fix af69a4d) and that every supplied leaf is the
tree's leaf at the claimed position — i.e. `lv` is exactly `[L[i] | i ∈ idxs]`. -/
theorem verify_batch_accepts_only_true_leaves [Inhabited D] [DecidableEq D] (merge : D → D → D)
    (inj : MergeInjective merge) (L : List D) (t : Tree D) (ht : Tree.new merge L = .ok t)
    (h64 : L.length < 2 ^ 64) (r : D) (hr : t.root = .ok r) (p : BatchProof D)
    (hp : p.depth = t.depth) (idxs : List Nat) (lv : List D)
    (hv : verifyBatch merge r idxs lv p = .ok ()) :
    idxs ≠ [] ∧ idxs.Nodup ∧ (∀ i ∈ idxs, i < L.length) ∧ lv.length = idxs.length ∧
      ∀ (j i : Nat), idxs[j]? = some i → lv[j]? = L[i]? := by
  have hcount := (get_root_accepts_only_one_leaf_per_index merge r p idxs lv).2 hv
  obtain ⟨d, hd, hl, H⟩ := new_heap merge L t ht
  have hd64 : d < 64 := by
    rw [hd] at h64
    exact (Nat.pow_lt_pow_iff_right (by omega)).mp h64
  have hr' : r = heapFn t 1 := by
    have := heap_troot H; rw [hr] at this; exact Res.ok.inj this
  subst hr'
  have hg : p.getRoot merge idxs lv = .ok (heapFn t 1) := by
    unfold verifyBatch at hv
    split at hv
    · cases hv
    · cases hv
    · rename_i r' hr'
      split at hv
      · cases hv
      · rename_i hne
        have : heapFn t 1 = r' := Classical.byContradiction fun hc => hne hc
        rw [hr', this]
  obtain ⟨h1, h2, h3, h4⟩ := getRoot_sound H inj hd64 p (by rw [hp, heap_depth H]) idxs lv hg
  refine ⟨h1, h2, fun i hi => by have := h3 i hi; omega, hcount.2, ?_⟩
  intro j i hj
  have hi := h3 i (List.mem_of_getElem? hj)
  rw [h4 j i hj, ← hl, H.leaf i hi]

/-- hence: a batch in which some supplied leaf is not the tree's leaf at its claimed index (a
substituted leaf, or a substituted index whose position holds another value) is rejected with an
error, whatever proof nodes accompany it -/
theorem batch_wrong_leaf_or_index_rejected [Inhabited D] [DecidableEq D] (merge : D → D → D)
    (inj : MergeInjective merge) (L : List D) (t : Tree D) (ht : Tree.new merge L = .ok t)
    (h64 : L.length < 2 ^ 64) (r : D) (hr : t.root = .ok r) (p : BatchProof D)
    (hp : p.depth = t.depth) (idxs : List Nat) (lv : List D) (j i : Nat)
    (hj : idxs[j]? = some i) (hbad : lv[j]? ≠ L[i]?) :
    ∃ e, verifyBatch merge r idxs lv p = .err e := by
  cases hv : verifyBatch merge r idxs lv p with
  | err e => exact ⟨e, rfl⟩
  | abort => exact absurd hv (verifyBatch_noabort merge r p idxs lv)
  | ok u =>
    cases u
    exact absurd ((verify_batch_accepts_only_true_leaves merge inj L t ht h64 r hr p hp idxs lv hv).2.2.2.2
      j i hj) hbad

/-- SOUNDNESS, complete form: what `verify_batch` accepts against the tree's root (depth byte = the
tree's depth) is EXACTLY the output of `prove_batch` for these indexes, leaves and proof — every
node that is read is the tree's node, (fix f1ad895) every supplied node is read, every leaf is the
tree's leaf and (fix af69a4d) no leaf is surplus.  With `batch_opening_reconstructs_root` (C18):
`verify_batch r idxs lv p = ok` ⟺ `prove_batch idxs = ok (lv, p)` for proofs of the tree's depth. -/
theorem verify_batch_accepts_only_the_provers_proof [Inhabited D] [DecidableEq D]
    (merge : D → D → D) (inj : MergeInjective merge) (L : List D) (t : Tree D)
    (ht : Tree.new merge L = .ok t) (h64 : L.length < 2 ^ 64) (r : D) (hr : t.root = .ok r)
    (p' : BatchProof D) (hp : p'.depth = t.depth) (idxs : List Nat) (lv : List D)
    (hv : verifyBatch merge r idxs lv p' = .ok ()) :
    t.proveBatch idxs = .ok (lv, p') := by
  obtain ⟨d, hd, hl, H⟩ := new_heap merge L t ht
  have hd64 : d < 64 := by
    rw [hd] at h64
    exact (Nat.pow_lt_pow_iff_right (by omega)).mp h64
  have hr' : r = heapFn t 1 := by
    have := heap_troot H; rw [hr] at this; exact Res.ok.inj this
  subst hr'
  have hg : p'.getRoot merge idxs lv = .ok (heapFn t 1) := by
    unfold verifyBatch at hv
    split at hv
    · cases hv
    · cases hv
    · rename_i r' hr'
      split at hv
      · cases hv
      · rename_i hne
        have : heapFn t 1 = r' := Classical.byContradiction fun hc => hne hc
        rw [hr', this]
  obtain ⟨p, hpb, _, _, rfl⟩ :=
    getRoot_sound_nodes H inj hd64 p' (by rw [hp, heap_depth H]) idxs lv hg
  exact hpb

/-- node-vector form: an accepted batch proof has the same number of node vectors as the proof
`prove_batch` returns for these indexes, and each of its vectors EQUALS the corresponding vector of
that proof (before fix f1ad895 only "begins with" held) -/
theorem verify_batch_accepts_only_the_trees_nodes [Inhabited D] [DecidableEq D]
    (merge : D → D → D) (inj : MergeInjective merge) (L : List D) (t : Tree D)
    (ht : Tree.new merge L = .ok t) (h64 : L.length < 2 ^ 64) (r : D) (hr : t.root = .ok r)
    (p' : BatchProof D) (hp : p'.depth = t.depth) (idxs : List Nat) (lv : List D)
    (hv : verifyBatch merge r idxs lv p' = .ok ()) :
    ∃ lv0 p, t.proveBatch idxs = .ok (lv0, p) ∧ p'.nodes.length = p.nodes.length ∧
      ∀ (j : Nat) (a : List D), p.nodes[j]? = some a → p'.nodes[j]? = some a := by
  have hpb :=
    verify_batch_accepts_only_the_provers_proof merge inj L t ht h64 r hr p' hp idxs lv hv
  exact ⟨lv, p', hpb, rfl, fun _ _ h => h⟩

/-- hence: replacing any node of the proof returned by `prove_batch` (keeping the depth byte; the
other nodes, the indexes and the leaves may be anything) makes `verify_batch` fail -/
theorem batch_wrong_proof_node_rejected [Inhabited D] [DecidableEq D] (merge : D → D → D)
    (inj : MergeInjective merge) (L : List D) (t : Tree D) (ht : Tree.new merge L = .ok t)
    (h64 : L.length < 2 ^ 64) (r : D) (hr : t.root = .ok r) (idxs : List Nat) (lv0 : List D)
    (p : BatchProof D) (hpb : t.proveBatch idxs = .ok (lv0, p))
    (p' : BatchProof D) (hp : p'.depth = t.depth) (lv : List D)
    (j m : Nat) (a b : List D) (x : D) (ha : p.nodes[j]? = some a) (hb : p'.nodes[j]? = some b)
    (hx : a[m]? = some x) (hbad : b[m]? ≠ some x) :
    ∃ e, verifyBatch merge r idxs lv p' = .err e := by
  cases hv : verifyBatch merge r idxs lv p' with
  | err e => exact ⟨e, rfl⟩
  | abort => exact absurd hv (verifyBatch_noabort merge r p' idxs lv)
  | ok u =>
    cases u
    obtain ⟨lv1, p1, hpb1, _, hpre⟩ :=
      verify_batch_accepts_only_the_trees_nodes merge inj L t ht h64 r hr p' hp idxs lv hv
    rw [hpb] at hpb1
    obtain ⟨_, rfl⟩ := Prod.mk.inj (Res.ok.inj hpb1)
    have hb' := hpre j a ha
    rw [hb] at hb'
    have : b = a := Option.some.inj hb'
    subst this
    exact absurd hx hbad

/-- and: ANY batch proof other than the one `prove_batch` returns for these indexes (same depth
byte) is rejected by `verify_batch`, whatever leaves accompany it — substituted, dropped, appended
or reordered nodes alike -/
theorem batch_any_other_proof_rejected [Inhabited D] [DecidableEq D] (merge : D → D → D)
    (inj : MergeInjective merge) (L : List D) (t : Tree D) (ht : Tree.new merge L = .ok t)
    (h64 : L.length < 2 ^ 64) (r : D) (hr : t.root = .ok r) (idxs : List Nat) (lv0 : List D)
    (p : BatchProof D) (hpb : t.proveBatch idxs = .ok (lv0, p))
    (p' : BatchProof D) (hp : p'.depth = t.depth) (hne : p' ≠ p) (lv : List D) :
    ∃ e, verifyBatch merge r idxs lv p' = .err e := by
  cases hv : verifyBatch merge r idxs lv p' with
  | err e => exact ⟨e, rfl⟩
  | abort => exact absurd hv (verifyBatch_noabort merge r p' idxs lv)
  | ok u =>
    cases u
    have hpb1 :=
      verify_batch_accepts_only_the_provers_proof merge inj L t ht h64 r hr p' hp idxs lv hv
    rw [hpb] at hpb1
    exact absurd (Prod.mk.inj (Res.ok.inj hpb1)).2.symm hne

/-! ## Every supplied node must be consumed (fix f1ad895) — no tree, no hypothesis on `merge` -/

/-- THE NEW GUARANTEE.  For ANY batch proof `p`, index list and leaf list that `get_root` accepts
(any digest type, any `merge`, any depth byte, not necessarily produced by `prove_batch`): appending
ANY non-empty list of digests to ANY ONE of its node vectors makes `get_root` return
`InvalidProof`, and so does `verify_batch` against any root. -/
theorem get_root_rejects_appended_nodes [DecidableEq D] (merge : D → D → D) (p : BatchProof D)
    (idxs : List Nat) (lv : List D) (root : D) (hg : p.getRoot merge idxs lv = .ok root)
    (j : Nat) (hj : j < p.nodes.length) (extra : List D) (hne : extra ≠ []) (anyRoot : D) :
    (⟨p.nodes.modify j (· ++ extra), p.depth⟩ : BatchProof D).getRoot merge idxs lv
        = .err .invalid ∧
    verifyBatch merge anyRoot idxs lv ⟨p.nodes.modify j (· ++ extra), p.depth⟩ = .err .invalid := by
  have hg' : (⟨p.nodes.modify j (· ++ extra), p.depth⟩ : BatchProof D).getRoot merge idxs lv
      = .err .invalid := by
    apply getRoot_extension_rejected merge p ⟨p.nodes.modify j (· ++ extra), p.depth⟩ idxs lv root
      hg rfl (by simp) (Ext.modify_append p.nodes j extra)
    intro heq
    obtain ⟨x, hx⟩ : ∃ x, p.nodes[j]? = some x := ⟨p.nodes[j], by simp [hj]⟩
    have h2 : (p.nodes.modify j (· ++ extra))[j]? = p.nodes[j]? := by
      have := congrArg BatchProof.nodes heq
      simp only at this
      rw [this]
    rw [List.getElem?_modify, hx] at h2
    simp at h2
    exact hne h2
  exact ⟨hg', by simp [verifyBatch, hg']⟩

/-- several vectors at once: ANY proper extension of an accepted proof — same depth byte, same
number of node vectors, every vector of `p` a prefix of the corresponding vector of `p'`, and
`p' ≠ p` — is rejected with `InvalidProof` -/
theorem get_root_rejects_proper_extensions [DecidableEq D] (merge : D → D → D)
    (p p' : BatchProof D) (idxs : List Nat) (lv : List D) (root : D)
    (hg : p.getRoot merge idxs lv = .ok root) (hd : p'.depth = p.depth)
    (hl : p'.nodes.length = p.nodes.length)
    (hext : ∀ (j : Nat) (a : List D), p.nodes[j]? = some a →
      ∃ b, p'.nodes[j]? = some b ∧ a <+: b)
    (hne : p' ≠ p) (anyRoot : D) :
    p'.getRoot merge idxs lv = .err .invalid ∧
    verifyBatch merge anyRoot idxs lv p' = .err .invalid := by
  have hg' := getRoot_extension_rejected merge p p' idxs lv root hg hd hl hext hne
  exact ⟨hg', by simp [verifyBatch, hg']⟩

/-- NON-MALLEABILITY in the vector lengths.  If `get_root` accepts two proofs with the same depth
byte for the same indexes and leaves, and at every position the two node vectors are comparable in
the prefix order (one is the other with digests dropped from / appended to its END — the direction
may differ from position to position, so "one vector longer, another one shorter" is covered), then
the two proofs are EQUAL; in particular they carry the same number of digests in every vector. -/
theorem get_root_accepts_one_length_variant (merge : D → D → D) (p p' : BatchProof D)
    (idxs : List Nat) (lv : List D) (root root' : D)
    (hg : p.getRoot merge idxs lv = .ok root) (hg' : p'.getRoot merge idxs lv = .ok root')
    (hd : p'.depth = p.depth)
    (hcmp : ∀ (j : Nat) (a b : List D), p.nodes[j]? = some a → p'.nodes[j]? = some b →
      a <+: b ∨ b <+: a) :
    p' = p :=
  getRoot_unique_lengths merge p p' idxs lv root root' hg hg' hd hcmp

/-- what an accepted run has consumed: one pointer per node vector, each equal to the vector's
length, i.e. the number of digests in every vector is determined by the run -/
theorem get_root_accepts_only_consumed_proofs (merge : D → D → D) (p : BatchProof D)
    (idxs : List Nat) (lv : List D) (root : D) (hg : p.getRoot merge idxs lv = .ok root) :
    ∃ st, grRun merge p idxs lv = .ok st ∧ st.ptrs = p.nodes.map List.length ∧
      AMap.get st.v 1 = some root :=
  (getRoot_ok_inv merge p idxs lv root hg).2.2

/-! ## `from_single_proofs`: the documented panics -/

/-- no proofs, or a different number of proofs and indexes: `assert!` -/
theorem from_single_proofs_documented_panics (proofs : List (D × List D)) (idxs : List Nat) :
    (proofs = [] → fromSingleProofs proofs idxs = .abort) ∧
    (proofs.length ≠ idxs.length → fromSingleProofs proofs idxs = .abort) := by
  constructor
  · intro h; subst h; rfl
  · intro h
    cases proofs with
    | nil => rfl
    | cons p ps => simp only [fromSingleProofs]; rw [if_pos h]

/-! ## Non-vacuity -/

/-- an injective `merge` exists: the free binary-tree constructor -/
inductive Term where
  | atom (n : Nat)
  | node (l r : Term)
  deriving DecidableEq, Inhabited

example : MergeInjective Term.node := fun _ _ _ _ h => by cases h; exact ⟨rfl, rfl⟩

/-- a tree over it exists, so every hypothesis of the rejection theorems is satisfiable -/
example : ∃ t, Tree.new Term.node [.atom 1, .atom 2, .atom 3, .atom 4] = .ok t := by
  have : isPow2 4 = true := isPow2_pow 2
  exact ⟨_, by simp [Tree.new, this, buildNodes, upper, firstRow]; rfl⟩

/-- the model on a concrete opening (`merge a b = 10·a + b`, leaves 1..4, root 154): the genuine
opening of index 2 is accepted; a wrong leaf, a wrong node and a wrong index are refused; an
out-of-range alias of the index is accepted; an empty path aborts -/
example :
    verify (fun a b : Nat => 10 * a + b) 154 2 3 [4, 12] = .ok () ∧
    verify (fun a b : Nat => 10 * a + b) 154 2 9 [4, 12] = .err .invalid ∧
    verify (fun a b : Nat => 10 * a + b) 154 2 3 [4, 13] = .err .invalid ∧
    verify (fun a b : Nat => 10 * a + b) 154 3 3 [4, 12] = .err .invalid ∧
    verify (fun a b : Nat => 10 * a + b) 154 6 3 [4, 12] = .ok () ∧
    verify (fun a b : Nat => 10 * a + b) 154 2 3 [] = .abort := by
  refine ⟨by decide, by decide, by decide, by decide, by decide, by decide⟩

/-- the consumption theorems are not vacuous (`merge a b = 10·a + b`, leaves 1..4, root 154): the
honest proof of index 0 is `[[2, 34]]` and is accepted; with a digest appended it is refused; with
two node vectors (indexes 0 and 3) an extra digest on the first or several on the last vector are
refused; a proof whose vectors are all empty (all four leaves opened) is accepted, and refused as
soon as one vector carries a digest that nothing consumes -/
example :
    (⟨[[2, 34]], 2⟩ : BatchProof Nat).getRoot (fun a b => 10 * a + b) [0] [1] = .ok 154 ∧
    (⟨[[2, 34, 34]], 2⟩ : BatchProof Nat).getRoot (fun a b => 10 * a + b) [0] [1] = .err .invalid ∧
    (⟨[[2], [3]], 2⟩ : BatchProof Nat).getRoot (fun a b => 10 * a + b) [0, 3] [1, 4] = .ok 154 ∧
    (⟨[[2, 7], [3]], 2⟩ : BatchProof Nat).getRoot (fun a b => 10 * a + b) [0, 3] [1, 4]
      = .err .invalid ∧
    (⟨[[2], [3, 7, 8]], 2⟩ : BatchProof Nat).getRoot (fun a b => 10 * a + b) [0, 3] [1, 4]
      = .err .invalid ∧
    (⟨[[], []], 2⟩ : BatchProof Nat).getRoot (fun a b => 10 * a + b) [0, 1, 2, 3] [1, 2, 3, 4]
      = .ok 154 ∧
    (⟨[[], [9]], 2⟩ : BatchProof Nat).getRoot (fun a b => 10 * a + b) [0, 1, 2, 3] [1, 2, 3, 4]
      = .err .invalid := by
  refine ⟨by decide, by decide, by decide, by decide, by decide, by decide, by decide⟩

/-- the hypotheses of `get_root_rejects_appended_nodes` are satisfiable -/
example : ∃ (p : BatchProof Nat) (idxs lv : List Nat) (root j : Nat) (extra : List Nat),
    p.getRoot (fun a b => 10 * a + b) idxs lv = .ok root ∧ j < p.nodes.length ∧ extra ≠ [] :=
  ⟨⟨[[2, 34]], 2⟩, [0], [1], 154, 0, [5], by decide, by decide, by decide⟩

/-- leaf count (fix af69a4d) on the model: the honest opening of index 0 is accepted with its one
leaf, refused with a surplus leaf and with none; the count check comes before the index checks -/
example :
    (⟨[[2, 34]], 2⟩ : BatchProof Nat).getRoot (fun a b => 10 * a + b) [0] [1] = .ok 154 ∧
    (⟨[[2, 34]], 2⟩ : BatchProof Nat).getRoot (fun a b => 10 * a + b) [0] [1, 1] = .err .invalid ∧
    (⟨[[2, 34]], 2⟩ : BatchProof Nat).getRoot (fun a b => 10 * a + b) [0] [] = .err .invalid ∧
    (⟨[[2, 34]], 2⟩ : BatchProof Nat).getRoot (fun a b => 10 * a + b) [0, 0] [1] = .err .invalid ∧
    (⟨[[2, 34]], 2⟩ : BatchProof Nat).getRoot (fun a b => 10 * a + b) [9] [1, 1] = .err .invalid ∧
    verifyBatch (fun a b => 10 * a + b) 154 [0] [1, 1] (⟨[[2, 34]], 2⟩ : BatchProof Nat)
      = .err .invalid := by
  refine ⟨by decide, by decide, by decide, by decide, by decide, by decide⟩

/-- malformed batch input on the model: errors, not aborts -/
example :
    (⟨[[5], []], 2⟩ : BatchProof Nat).getRoot (fun a b => 10 * a + b) [0] [1] = .err .invalid ∧
    (⟨[], 200⟩ : BatchProof Nat).getRoot (fun a b => 10 * a + b) [0] [1] = .err .oob ∧
    (⟨[[2], [34]], 2⟩ : BatchProof Nat).getRoot (fun a b => 10 * a + b) [0, 0] [1, 1] = .err .dup := by
  refine ⟨by decide, by decide, by decide⟩

end Wf.Props.C19
