/-
C16 — the Rescue hashers match a reference Rescue-Prime implementation.

Everything under `Wf.Gen.Rescue*` is REGENERATED from the Rust sources on every run: the constant
tables / exponents / ranges (`RescueConsts`), the s-box addition chains (`RescueChains`, one lane of the
pointwise array code), the real-FFT kernels, frequency-domain blocks and `mds_multiply` with its limb
split and fold (`RescueMds12`, `RescueMds8`).  `Wf.Rescue.refPerm` is the independent specification
(power maps, plain matrix–vector product, round constants); `Wf.Rescue.rp64Code` / `jiveCode` /
`rp62CodeG` are the permutations as the code computes them.

  §0  the tables are pinned (checksums): the "published constants" cannot be fetched offline.
  §1  INV_ALPHA·ALPHA ≡ 1 (mod p−1); x ↦ x^INV_ALPHA inverts x ↦ x^ALPHA on the field; the addition
      chains compute these powers in every commutative ring.
  §2  MDS is circulant with the documented first row; INV_MDS·MDS = MDS·INV_MDS = I.
  §3  `mds_multiply` (frequency domain) = the matrix product, for EVERY state of stored words — FULL;
      it CAN emit a non-reduced word (witness), and `add_constants` always re-normalises it because
      every round constant is stored as a word ≤ M − 2^32 + 1.
  §4  code permutation = reference permutation: FULL for Rp64_256 and RpJive64_256 on stored words
      (translated kernels, C10's f64 theorems); for Rp62_248 over any commutative ring and over the
      integers mod p — its f62 limb kernels have no theorems (C10), so `_partial`.
  §5  the reference permutation is a bijection (two-sided inverse).
  §6  merge [a, b] = hash_elements (a ++ b) for the two sponge variants, for every permutation.
-/
import Wf.Lemmas.RescueBij
namespace Wf.Props.C16
open Wf Wf.Rescue Wf.Gen

/-! ## §0 pinned tables -/

theorem tables_pinned_rp64 : tableChecksum rp64Params RescueConsts.Rp64.INV_MDS = 17853800322712424884 := by
  decide +kernel
theorem tables_pinned_jive : tableChecksum jiveParams RescueConsts.Jive.INV_MDS = 11302229961490471416 := by
  decide +kernel
theorem tables_pinned_rp62 : tableChecksum rp62Params [] = 219448509852267863 := by decide +kernel

/-- widths, round counts and ranges as documented -/
theorem shapes :
    (RescueConsts.Rp64.STATE_WIDTH = 12 ∧ RescueConsts.Rp64.NUM_ROUNDS = 7 ∧ RescueConsts.Rp64.RATE_RANGE_start = 4 ∧
      RescueConsts.Rp64.RATE_RANGE_end = 12 ∧ RescueConsts.Rp64.CAPACITY_RANGE_start = 0 ∧
      RescueConsts.Rp64.CAPACITY_RANGE_end = 4 ∧ RescueConsts.Rp64.DIGEST_RANGE_start = 4 ∧
      RescueConsts.Rp64.DIGEST_RANGE_end = 8) ∧
    (RescueConsts.Jive.STATE_WIDTH = 8 ∧ RescueConsts.Jive.NUM_ROUNDS = 7 ∧ RescueConsts.Jive.RATE_RANGE_start = 4 ∧
      RescueConsts.Jive.RATE_RANGE_end = 8 ∧ RescueConsts.Jive.CAPACITY_RANGE_start = 0 ∧
      RescueConsts.Jive.CAPACITY_RANGE_end = 4 ∧ RescueConsts.Jive.DIGEST_RANGE_start = 4 ∧
      RescueConsts.Jive.DIGEST_RANGE_end = 8) ∧
    (RescueConsts.Rp62.STATE_WIDTH = 12 ∧ RescueConsts.Rp62.NUM_ROUNDS = 7 ∧ RescueConsts.Rp62.RATE_WIDTH = 8 ∧
      RescueConsts.Rp62.DIGEST_SIZE = 4) ∧
    (rp64.rate = 8 ∧ rp64.capWidth = 4 ∧ rpJive64.rate = 4 ∧ rpJive64.capWidth = 4 ∧ rp62.rate = 8 ∧ rp62.capWidth = 4) := by
  decide

/-! ## §1 s-boxes -/

theorem alpha_inv_alpha_rp64 : RescueConsts.Rp64.ALPHA * RescueConsts.Rp64.INV_ALPHA % (P64 - 1) = 1 := by decide
theorem alpha_inv_alpha_jive : RescueConsts.Jive.ALPHA * RescueConsts.Jive.INV_ALPHA % (P64 - 1) = 1 := by decide
theorem alpha_inv_alpha_rp62 : RescueConsts.Rp62.ALPHA * RescueConsts.Rp62.INV_ALPHA % (P62 - 1) = 1 := by decide

/-- on the 64-bit field x ↦ x^INV_ALPHA is the exact (two-sided) inverse of x ↦ x^ALPHA -/
theorem sbox_inverse_f64 (x : ZMod P64) :
    (x ^ RescueConsts.Rp64.ALPHA) ^ RescueConsts.Rp64.INV_ALPHA = x ∧
    (x ^ RescueConsts.Rp64.INV_ALPHA) ^ RescueConsts.Rp64.ALPHA = x := by
  haveI : Fact P64.Prime := ⟨P64_prime⟩
  exact ⟨pow_pow_inv P64 _ _ alpha_inv_alpha_rp64 x,
    pow_pow_inv P64 _ _ (by rw [Nat.mul_comm]; exact alpha_inv_alpha_rp64) x⟩

theorem sbox_inverse_f62 (x : ZMod P62) :
    (x ^ RescueConsts.Rp62.ALPHA) ^ RescueConsts.Rp62.INV_ALPHA = x ∧
    (x ^ RescueConsts.Rp62.INV_ALPHA) ^ RescueConsts.Rp62.ALPHA = x := by
  haveI : Fact P62.Prime := ⟨P62_prime⟩
  exact ⟨pow_pow_inv P62 _ _ alpha_inv_alpha_rp62 x,
    pow_pow_inv P62 _ _ (by rw [Nat.mul_comm]; exact alpha_inv_alpha_rp62) x⟩

section chains
variable {K : Type} [CommRing K] [DecidableEq K] (inv : K → K)

/-- `exp7` (the f64 s-box) is x^ALPHA -/
theorem sbox_chain_f64 (x : K) : F64.exp7 (ringOps K inv) x = x ^ RescueConsts.Rp64.ALPHA := exp7_ring inv x

/-- `cube` (the f62 s-box) is x^ALPHA -/
theorem sbox_chain_rp62 (x : K) : RescueChains.rp62Sbox (ringOps K inv) x = x ^ RescueConsts.Rp62.ALPHA :=
  rp62Sbox_ring inv x

/-- the inverse s-box addition chain of Rp64_256 computes x^INV_ALPHA in every commutative ring -/
theorem inv_sbox_chain_rp64 (x : K) :
    RescueChains.rp64InvSbox (ringOps K inv) x = x ^ RescueConsts.Rp64.INV_ALPHA := rp64InvSbox_ring inv x

theorem inv_sbox_chain_jive (x : K) :
    RescueChains.jiveInvSbox (ringOps K inv) x = x ^ RescueConsts.Jive.INV_ALPHA := jiveInvSbox_ring inv x

theorem inv_sbox_chain_rp62 (x : K) :
    RescueChains.rp62InvSbox (ringOps K inv) x = x ^ RescueConsts.Rp62.INV_ALPHA := rp62InvSbox_ring inv x

/-- the reference power recursion is the power -/
theorem reference_pow (x : K) (n : Nat) (hn : n < 2 ^ 64) : pow (ringOps K inv) x n = x ^ n := pow_ring inv x n hn

end chains

/-! ## §2 MDS matrices -/

theorem mds_circulant_rp64 : RescueConsts.Rp64.MDS = circulant [7, 23, 8, 26, 13, 10, 9, 7, 6, 22, 21, 8] := by decide
theorem mds_circulant_jive : RescueConsts.Jive.MDS = circulant [23, 8, 13, 10, 7, 6, 21, 8] := by decide

/-- INV_MDS·MDS = MDS·INV_MDS = I over the integers mod p (row-by-row matrix product of the tables) -/
theorem inv_mds_rp64 :
    matMul (natOps P64) 12 (tableOf (natOps P64) RescueConsts.Rp64.INV_MDS) (tableOf (natOps P64) RescueConsts.Rp64.MDS)
      = idMat (natOps P64) 12 ∧
    matMul (natOps P64) 12 (tableOf (natOps P64) RescueConsts.Rp64.MDS) (tableOf (natOps P64) RescueConsts.Rp64.INV_MDS)
      = idMat (natOps P64) 12 := by
  constructor <;> decide +kernel

theorem inv_mds_jive :
    matMul (natOps P64) 8 (tableOf (natOps P64) RescueConsts.Jive.INV_MDS) (tableOf (natOps P64) RescueConsts.Jive.MDS)
      = idMat (natOps P64) 8 ∧
    matMul (natOps P64) 8 (tableOf (natOps P64) RescueConsts.Jive.MDS) (tableOf (natOps P64) RescueConsts.Jive.INV_MDS)
      = idMat (natOps P64) 8 := by
  constructor <;> decide +kernel

/-- Rp62_248 ships no inverse matrix: `rp62InvMds` is a certificate computed offline, checked here -/
theorem inv_mds_rp62 :
    matMul (natOps P62) 12 (tableOf (natOps P62) rp62InvMds) (tableOf (natOps P62) RescueConsts.Rp62.MDS)
      = idMat (natOps P62) 12 ∧
    matMul (natOps P62) 12 (tableOf (natOps P62) RescueConsts.Rp62.MDS) (tableOf (natOps P62) rp62InvMds)
      = idMat (natOps P62) 12 := by
  constructor <;> decide +kernel

/-! ## §3 `mds_multiply` -/

/-- the frequency-domain kernel is the integer matrix product modulo 2^64, for every input -/
theorem mds_multiply_freq_linear_12 (t : T12) :
    ofT12 (RescueMds12.mds_multiply_freq t) = RescueConsts.Rp64.MDS.map (fun row => dotW row (ofT12 t)) :=
  freq12_linear t

theorem mds_multiply_freq_linear_8 (t : T8) :
    ofT8 (RescueMds8.mds_multiply_freq t) = RescueConsts.Jive.MDS.map (fun row => dotW row (ofT8 t)) :=
  freq8_linear t

/-- the fold of the 96-bit lane value is congruent to it modulo p, for all limb products -/
theorem mds_fold_congruent (l h : W) : (mdsFold l h).toNat % F64.p = (l.toNat + 2 ^ 32 * h.toNat) % F64.p :=
  mdsFold_spec l h

/-- `Rp64_256::apply_mds` = MDS·state on the canonical values, for EVERY state of stored words
(reduced or not): split into 32-bit limbs, two frequency-domain products without wrap-around, fold -/
theorem mds_multiply_is_matrix_product_12 (st : List W) (h : st.length = 12) :
    (mds12 st).map zval = matVec (zops p64) (tableOf (zops p64) RescueConsts.Rp64.MDS) (st.map zval) := by
  rw [mds12_eq st h]
  exact forall2_WV (lin_val _ (by decide) st)

theorem mds_multiply_is_matrix_product_8 (st : List W) (h : st.length = 8) :
    (mds8 st).map zval = matVec (zops p64) (tableOf (zops p64) RescueConsts.Jive.MDS) (st.map zval) := by
  rw [mds8_eq st h]
  exact forall2_WV (lin_val _ (by decide) st)

/-- D3b: the fold has no final conditional subtraction — on a state of REDUCED words `mds_multiply`
can return a word ≥ M (here lane 0 = 2^64 − 1) -/
theorem mds_multiply_emits_noncanonical :
    ∃ st : List W, st.length = 12 ∧ (∀ w ∈ st, F64.Rep w) ∧ ∃ w ∈ mds12 st, ¬ F64.Rep w := by
  refine ⟨[0x2492491424924914#64, 0x500000005#64, 0, 0, 0, 0, 0, 0, 0, 0, 0, 0], rfl, ?_, 0xffffffffffffffff#64, ?_, ?_⟩
  · exact all_rep _ (by decide +kernel)
  · rw [mds12_eq _ rfl]; decide +kernel
  · decide

/-- … but `add_constants` re-normalises: for ANY word `w` and a constant stored as `k ≤ M − 2^32 + 1`
the sum is reduced and has the right value -/
theorem add_constants_renormalises (w k : W) (hk : k ≤ 0xfffffffe00000002#64) :
    F64.Rep (Wf.Gen.F64.add w k) ∧ (Wf.Gen.F64.add w k).toNat % F64.p = (w.toNat + k.toNat) % F64.p :=
  add_any_spec w k hk

/-- every round constant of the two f64 hashers is such a constant -/
theorem round_constants_small :
    (∀ row ∈ RescueConsts.Rp64.ARK1 ++ RescueConsts.Rp64.ARK2, rowGood 12 row) ∧
    (∀ row ∈ RescueConsts.Jive.ARK1 ++ RescueConsts.Jive.ARK2, rowGood 8 row) := by
  constructor <;> decide +kernel

/-! ## §4 the permutation -/

theorem rp64_params_ok : rp64Params.Ok := ⟨by decide +kernel, by decide +kernel, by decide +kernel⟩
theorem jive_params_ok : jiveParams.Ok := ⟨by decide +kernel, by decide +kernel, by decide +kernel⟩
theorem rp62_params_ok : rp62Params.Ok := ⟨by decide +kernel, by decide +kernel, by decide +kernel⟩

/-- `Rp64_256::apply_permutation` on stored words: reduced words in ⇒ reduced words out, and the
canonical values are those of the reference permutation -/
theorem rp64_permutation_words (st : List W) (hl : st.length = 12) (hr : ∀ w ∈ st, F64.Rep w) :
    (∀ w ∈ rp64Code st, F64.Rep w) ∧
    (rp64Code st).map zval = refPerm (zops p64) rp64Params (st.map zval) := by
  have h := code64_rel rp64Params (n := 12) (lin := mds12) ⟨by decide, by decide, mds12_eq⟩
    (sb := F64.exp7 F64.baseOps) (isb := RescueChains.rp64InvSbox F64.baseOps)
    (fun {a x} ha => by
      have := exp7_rel wordRel ha
      rwa [show F64.exp7 (zops p64) x = pow (zops p64) x rp64Params.alpha from
        (exp7_ring _ x).trans (pow_ring _ x _ (by decide)).symm] at this)
    (fun {a x} ha => by
      have := rp64InvSbox_rel wordRel ha
      rwa [show RescueChains.rp64InvSbox (zops p64) x = pow (zops p64) x rp64Params.invAlpha from
        (rp64InvSbox_ring _ x).trans (pow_ring _ x _ (by decide)).symm] at this)
    (by decide +kernel) (by decide +kernel) (by decide) (by decide)
    (forall2_WR_of_rep st hr) hl
  exact forall2_WR_split h.1

theorem jive_permutation_words (st : List W) (hl : st.length = 8) (hr : ∀ w ∈ st, F64.Rep w) :
    (∀ w ∈ jiveCode st, F64.Rep w) ∧
    (jiveCode st).map zval = refPerm (zops p64) jiveParams (st.map zval) := by
  have h := code64_rel jiveParams (n := 8) (lin := mds8) ⟨by decide, by decide, mds8_eq⟩
    (sb := F64.exp7 F64.baseOps) (isb := RescueChains.jiveInvSbox F64.baseOps)
    (fun {a x} ha => by
      have := exp7_rel wordRel ha
      rwa [show F64.exp7 (zops p64) x = pow (zops p64) x jiveParams.alpha from
        (exp7_ring _ x).trans (pow_ring _ x _ (by decide)).symm] at this)
    (fun {a x} ha => by
      have := jiveInvSbox_rel wordRel ha
      rwa [show RescueChains.jiveInvSbox (zops p64) x = pow (zops p64) x jiveParams.invAlpha from
        (jiveInvSbox_ring _ x).trans (pow_ring _ x _ (by decide)).symm] at this)
    (by decide +kernel) (by decide +kernel) (by decide) (by decide)
    (forall2_WR_of_rep st hr) hl
  exact forall2_WR_split h.1

/-- canonical values in, canonical values out (`BaseElement::new` … `as_int`): the code permutation
IS the reference permutation over the integers mod p, on every state -/
theorem rp64_permutation_eq_reference (st : List Nat) (hl : st.length = 12) (hst : ∀ v ∈ st, v < 2 ^ 64) :
    rp64CodeV st = rp64Ref st :=
  code64_values rp64Params rp64_params_ok rfl
    (fun {ws zs} h hn => by
      obtain ⟨hr, hz⟩ := forall2_WR_split h
      have := rp64_permutation_words ws hn hr
      rw [hz] at this
      rw [← this.2]
      exact forall2_WR_of_rep _ this.1)
    st hl hst

theorem jive_permutation_eq_reference (st : List Nat) (hl : st.length = 8) (hst : ∀ v ∈ st, v < 2 ^ 64) :
    jiveCodeV st = jiveRef st :=
  code64_values jiveParams jive_params_ok rfl
    (fun {ws zs} h hn => by
      obtain ⟨hr, hz⟩ := forall2_WR_split h
      have := jive_permutation_words ws hn hr
      rw [hz] at this
      rw [← this.2]
      exact forall2_WR_of_rep _ this.1)
    st hl hst

/-- Rp62_248: the code's permutation (cube, 69-multiplication inverse chain, row-by-row MDS) is the
reference permutation over every commutative ring … -/
theorem rp62_permutation_eq_reference_ring {K : Type} [CommRing K] [DecidableEq K] (inv : K → K) (st : List K) :
    rp62CodeG (ringOps K inv) st = refPerm (ringOps K inv) rp62Params st := by
  unfold rp62CodeG codePerm refPerm
  congr 1
  funext s i
  simp only [codeRound, refRound, codeHalf, refHalf]
  have h1 : (fun x => RescueChains.rp62Sbox (ringOps K inv) x) = fun x => pow (ringOps K inv) x rp62Params.alpha := by
    funext x; rw [rp62Sbox_ring, pow_ring _ _ _ (by decide)]; rfl
  have h2 : (fun x => RescueChains.rp62InvSbox (ringOps K inv) x) = fun x => pow (ringOps K inv) x rp62Params.invAlpha := by
    funext x; rw [rp62InvSbox_ring, pow_ring _ _ _ (by decide)]; rfl
  rw [show RescueChains.rp62Sbox (ringOps K inv) = fun x => RescueChains.rp62Sbox (ringOps K inv) x from rfl,
    show RescueChains.rp62InvSbox (ringOps K inv) = fun x => RescueChains.rp62InvSbox (ringOps K inv) x from rfl, h1, h2]

/-- … and over the integers mod p (what the driver executes as reference).  PARTIAL: the same formulas
instantiated with the f62 limb kernels (`rp62Code`, executed in `code` mode) are tied to this by the
correspondence stream only — C10 has no limb-level theorems for f62. -/
theorem rp62_permutation_eq_reference_partial (st : List Nat) :
    rp62CodeG (natOps rp62Params.p) (st.map (· % rp62Params.p)) = rp62Ref st := by
  haveI : NeZero rp62Params.p := ⟨by decide⟩
  have hs := forall2_NR_mod rp62Params.p st
  have h1 := codePerm_rel (natRel rp62Params.p) rp62Params rp62_params_ok
    (sb := RescueChains.rp62Sbox (natOps rp62Params.p)) (isb := RescueChains.rp62InvSbox (natOps rp62Params.p))
    (sb' := RescueChains.rp62Sbox (zops rp62Params.p)) (isb' := RescueChains.rp62InvSbox (zops rp62Params.p))
    (lin := matVec (natOps rp62Params.p) (tableOf (natOps rp62Params.p) rp62Params.mds))
    (lin' := matVec (zops rp62Params.p) (tableOf (zops rp62Params.p) rp62Params.mds))
    (fun h => rp62Sbox_rel (natRel _) h) (fun h => rp62InvSbox_rel (natRel _) h)
    (fun h => matVec_table_rel (natRel _) h _ rp62_params_ok.mds) hs
  have h2 := refPerm_rel (natRel rp62Params.p) rp62Params rp62_params_ok hs
  have e := rp62_permutation_eq_reference_ring (fun x : ZMod rp62Params.p => x⁻¹)
    (st.map (fun v => ((v : Nat) : ZMod rp62Params.p)))
  unfold rp62CodeG at e ⊢
  unfold zops at h1 h2
  rw [e] at h1
  exact forall2_NR_inj rp62Params.p h1 h2

/-! ## §5 bijection -/

theorem rp64_inv_ok : InvOk p64 rp64Params RescueConsts.Rp64.INV_MDS 12 where
  left := matMul_transfer p64 12 _ _ (by decide +kernel) rp64_params_ok.mds inv_mds_rp64.1
  right := matMul_transfer p64 12 _ _ rp64_params_ok.mds (by decide +kernel) inv_mds_rp64.2
  rowsM := by decide
  rowsI := by decide
  lenM := by decide
  lenI := by decide
  exps := alpha_inv_alpha_rp64
  alphaLt := by decide
  invAlphaLt := by decide
  ark1 := by decide
  ark2 := by decide
  len1 := by decide
  len2 := by decide
  idv := fun v hv => matVec_id12 _ v hv

theorem jive_inv_ok : InvOk p64 jiveParams RescueConsts.Jive.INV_MDS 8 where
  left := matMul_transfer p64 8 _ _ (by decide +kernel) jive_params_ok.mds inv_mds_jive.1
  right := matMul_transfer p64 8 _ _ jive_params_ok.mds (by decide +kernel) inv_mds_jive.2
  rowsM := by decide
  rowsI := by decide
  lenM := by decide
  lenI := by decide
  exps := alpha_inv_alpha_jive
  alphaLt := by decide
  invAlphaLt := by decide
  ark1 := by decide
  ark2 := by decide
  len1 := by decide
  len2 := by decide
  idv := fun v hv => matVec_id8 _ v hv

instance : NeZero P62 := ⟨by decide⟩
instance : Fact P62.Prime := ⟨P62_prime⟩

theorem rp62_inv_ok : InvOk P62 rp62Params rp62InvMds 12 where
  left := matMul_transfer P62 12 _ _ (by decide +kernel) rp62_params_ok.mds inv_mds_rp62.1
  right := matMul_transfer P62 12 _ _ rp62_params_ok.mds (by decide +kernel) inv_mds_rp62.2
  rowsM := by decide
  rowsI := by decide
  lenM := by decide
  lenI := by decide
  exps := alpha_inv_alpha_rp62
  alphaLt := by decide
  invAlphaLt := by decide
  ark1 := by decide
  ark2 := by decide
  len1 := by decide
  len2 := by decide
  idv := fun v hv => matVec_id12 _ v hv

/-- the reference permutation of Rp64_256 is a bijection of (ZMod p)^12: `refPermInv` (inverse rounds in
reverse order: subtract the constants, INV_MDS, the inverse power map) is its two-sided inverse -/
theorem rp64_permutation_bijective (st : List (ZMod p64)) (h : st.length = 12) :
    refPermInv (zops p64) rp64Params RescueConsts.Rp64.INV_MDS (refPerm (zops p64) rp64Params st) = st ∧
    refPerm (zops p64) rp64Params (refPermInv (zops p64) rp64Params RescueConsts.Rp64.INV_MDS st) = st :=
  ⟨permInv_perm rp64_inv_ok st h, perm_permInv rp64_inv_ok st h⟩

theorem jive_permutation_bijective (st : List (ZMod p64)) (h : st.length = 8) :
    refPermInv (zops p64) jiveParams RescueConsts.Jive.INV_MDS (refPerm (zops p64) jiveParams st) = st ∧
    refPerm (zops p64) jiveParams (refPermInv (zops p64) jiveParams RescueConsts.Jive.INV_MDS st) = st :=
  ⟨permInv_perm jive_inv_ok st h, perm_permInv jive_inv_ok st h⟩

theorem rp62_permutation_bijective (st : List (ZMod P62)) (h : st.length = 12) :
    refPermInv (zops P62) rp62Params rp62InvMds (refPerm (zops P62) rp62Params st) = st ∧
    refPerm (zops P62) rp62Params (refPermInv (zops P62) rp62Params rp62InvMds st) = st :=
  ⟨permInv_perm rp62_inv_ok st h, perm_permInv rp62_inv_ok st h⟩

/-- consequently `Rp64_256::apply_permutation` is injective on states of reduced words -/
theorem rp64_code_injective (a b : List W) (ha : a.length = 12) (hb : b.length = 12)
    (hra : ∀ w ∈ a, F64.Rep w) (hrb : ∀ w ∈ b, F64.Rep w) (h : rp64Code a = rp64Code b) : a = b := by
  have h1 := (rp64_permutation_words a ha hra).2
  have h2 := (rp64_permutation_words b hb hrb).2
  rw [h] at h1
  have hz : a.map zval = b.map zval := by
    have e := congrArg (refPermInv (zops p64) rp64Params RescueConsts.Rp64.INV_MDS) (h1.symm.trans h2)
    rwa [(rp64_permutation_bijective _ (by simp [ha])).1, (rp64_permutation_bijective _ (by simp [hb])).1] at e
  clear h h1 h2 ha hb
  induction a generalizing b with
  | nil => cases b with
    | nil => rfl
    | cons _ _ => simp at hz
  | cons x a ih =>
    cases b with
    | nil => simp at hz
    | cons y b =>
      simp only [List.map_cons, List.cons.injEq] at hz
      have hxy : x = y := by
        apply F64.val_inj x y (hra x (by simp)) (hrb y (by simp))
        have := hz.1
        unfold zval at this
        rw [ZMod.natCast_eq_natCast_iff'] at this
        rwa [Nat.mod_eq_of_lt (F64.val_lt x), Nat.mod_eq_of_lt (F64.val_lt y)] at this
      rw [hxy, ih b (fun w hw => hra w (by simp [hw])) (fun w hw => hrb w (by simp [hw])) hz.2]

/-! ## §6 absorption rules -/

/-- sponge variants: merging two digests = hashing their eight elements, whatever the permutation -/
theorem merge_eq_hash_elements_rp64 (perm : List Nat → List Nat) (a b : List Nat) (ha : a.length = 4) (hb : b.length = 4) :
    (rp64H perm).merge a b = (rp64H perm).hashElements (a ++ b) := by
  match a, b, ha, hb with
  | [_, _, _, _], [_, _, _, _], _, _ => rfl

theorem merge_eq_hash_elements_rp62 (perm : List Nat → List Nat) (a b : List Nat) (ha : a.length = 4) (hb : b.length = 4) :
    (rp62H perm).merge a b = (rp62H perm).hashElements (a ++ b) := by
  match a, b, ha, hb with
  | [_, _, _, _], [_, _, _, _], _, _ => rfl

/-- `merge_many` is `hash_elements` of the flattened digests; `hash` is `hash_elements` of the
7-byte chunks (with the terminator) — for all three hashers -/
theorem merge_many_and_hash_are_hash_elements (h : Hasher) (ds : List (List Nat)) (bs : Bytes) :
    h.mergeMany ds = h.hashElements ds.flatten ∧ h.hash bs = h.hashElements (bytesToElems bs) := ⟨rfl, rfl⟩

/-- Jive: `merge` is the compression mode — state = a ++ b (the rate words are added to zeros), one
permutation, then the Jive summation of the state before and after -/
theorem jive_merge_is_compression (perm : List Nat → List Nat) (a b : List Nat) :
    (jiveH perm).merge a b =
      jiveSum rpJive64.p (a, rpJive64.addVec (List.replicate 4 0) b)
        ((jiveH perm).permOn (a, rpJive64.addVec (List.replicate 4 0) b)) := rfl

/-! ## non-vacuity -/

-- the reference and the code permutation on the all-zero state (first word), computed by the kernel
example : (rp64Ref (List.replicate 12 0)).head? = some 7962715374947276948 := by decide +kernel
example : (rp64CodeV (List.replicate 12 0)).head? = some 7962715374947276948 := by
  rw [rp64_permutation_eq_reference _ rfl (by decide)]; decide +kernel
-- hypotheses of the word-level theorem are satisfiable by a non-trivial state
example : ∀ w ∈ [w64 1, w64 2, w64 3, w64 4, w64 5, w64 6, w64 7, w64 8, w64 9, w64 10, w64 11, w64 12], F64.Rep w :=
  all_rep _ (by decide +kernel)
-- the bound on the constants is not vacuous: it excludes reduced words
example : ¬ ((0xfffffffe00000003#64 : W) ≤ 0xfffffffe00000002#64) ∧ F64.Rep 0xfffffffe00000003#64 := by
  decide
-- without the bound `add` of a non-reduced word is wrong: (2^64−1) + (M−1) should be 2^32 − 3 (mod p) …
example : (Wf.Gen.F64.add 0xffffffffffffffff#64 0xffffffff00000000#64).toNat % F64.p
    ≠ (0xffffffffffffffff + 0xffffffff00000000) % F64.p ∨
    ¬ F64.Rep (Wf.Gen.F64.add 0xffffffffffffffff#64 0xffffffff00000000#64) := by
  decide
-- the s-box exponents are the documented ones
example : (RescueConsts.Rp64.ALPHA, RescueConsts.Rp62.ALPHA) = (7, 3) := by decide
-- merge = hash_elements on concrete digests with a non-trivial permutation
example : (rp64H rp64Ref).merge [1, 2, 3, 4] [5, 6, 7, 8] = (rp64H rp64Ref).hashElements [1, 2, 3, 4, 5, 6, 7, 8] :=
  merge_eq_hash_elements_rp64 _ _ _ rfl rfl

end Wf.Props.C16
