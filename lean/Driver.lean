/- `wfdriver`: one request per line on stdin, one response per line on stdout. -/
import Wf.Drv.Serde
import Wf.Drv.Adapter
import Wf.Drv.Fields
import Wf.Drv.FieldCodec
import Wf.Drv.ProofObjects
import Wf.Drv.AirDesc
import Wf.Drv.Transcript
import Wf.Drv.BatchUtils
import Wf.Drv.Polynom
import Wf.Drv.Assertions
import Wf.Drv.Fft
import Wf.Drv.AirDivisor
import Wf.Drv.Boundary
import Wf.Drv.Security
import Wf.Drv.Merkle
import Wf.Drv.Hashers
import Wf.Drv.Rescue
import Wf.Drv.RandomCoin
import Wf.Drv.Fri
import Wf.Drv.TraceTable
import Wf.Drv.Lde
import Wf.Drv.Verifier
import Wf.Drv.ParBook

open Wf.Drv

def dispatch (line : String) : String :=
  match splitWords line with
  | "c26" :: rest => handleSerde rest
  | "c27" :: rest => handleAdapter rest
  | "c10" :: rest => handleFields rest
  | "c11" :: rest => handleCodec rest
  | "obj" :: rest => handleObjects rest
  | "c01" :: rest => handleIdeal rest
  | "c03t" :: rest => handleTranscript rest
  | "c14" :: rest => handleBatchUtils rest
  | "c13" :: rest => handlePolynom rest
  | "c21" :: rest => handleAssertions rest
  | "c12" :: rest => handleFft rest
  | "c22" :: rest => handleBoundary rest
  | "c23" :: rest => handleAirDivisor rest
  | "c25" :: rest => handleSecurity rest
  | "c18" :: rest => handleMerkle rest
  | "c15" :: rest => handleHashers rest
  | "c16" :: rest => handleRescue rest
  | "c20" :: rest => handleCoin rest
  | "c08" :: rest => handleFri rest
  | "c29" :: rest => handleValidate rest
  | "c29t" :: rest => handleTable rest
  | "c28" :: rest => handleLde rest
  | "vfy" :: rest => handleVerifier rest
  | "c06b" :: rest => handleParBook rest
  | _ => "bad-family"

partial def loop (h : IO.FS.Stream) (out : IO.FS.Stream) : IO Unit := do
  let line ← h.getLine
  if line.isEmpty then return ()
  out.putStrLn (dispatch line)
  loop h out

def main : IO Unit := do
  let out ← IO.getStdout
  loop (← IO.getStdin) out
  out.flush
