/- `wfdriver`: one request per line on stdin, one response per line on stdout. -/
import Wf.Drv.Serde
import Wf.Drv.Adapter
import Wf.Drv.Fields
import Wf.Drv.FieldCodec
import Wf.Drv.ProofObjects
import Wf.Drv.BatchUtils
import Wf.Drv.Assertions

open Wf.Drv

def dispatch (line : String) : String :=
  match splitWords line with
  | "c26" :: rest => handleSerde rest
  | "c27" :: rest => handleAdapter rest
  | "c10" :: rest => handleFields rest
  | "c11" :: rest => handleCodec rest
  | "obj" :: rest => handleObjects rest
  | "c14" :: rest => handleBatchUtils rest
  | "c21" :: rest => handleAssertions rest
  | _ => "bad-family"

partial def loop (h : IO.FS.Stream) (out : IO.FS.Stream) : IO Unit := do
  let line ← h.getLine
  if line.isEmpty then return ()
  out.putStrLn (dispatch line)
  loop h out

def main : IO Unit := do
  let out ← IO.getStdout
  loop (← IO.getStdin) out
  out.flush
