-- This module serves as the root of the `Wf` library.
-- Import modules here that should be built as part of the library.
import Wf.Basic
