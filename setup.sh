#!/bin/sh
# Build the framework from files on disk only (offline): Rust harness + Lean project.
set -e
cd "$(dirname "$0")"
export CARGO_NET_OFFLINE=true
mkdir -p .cache
[ -f harness/Cargo.lock ] || cp /repo/Cargo.lock harness/Cargo.lock
(cd harness && cargo build --release --offline --target-dir /verif/.cache/target 2>&1 | tail -3)
# variant build used by the C06 stream (rayon code paths); prebuilt so that the quick check stays quick
(cd harness && cargo build --release --offline --features concurrent --target-dir /verif/.cache/target-concurrent 2>&1 | tail -1)
(cd harness && cargo build --offline --profile relcheck --target-dir /verif/.cache/target-relcheck 2>&1 | tail -1)
(cd lean && lake build 2>&1 | tail -3)
echo setup-done
