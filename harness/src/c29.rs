//! C29: `Trace::validate` agrees with an independent constraint checker; trace tables built by
//! `fill`, `init`, `set`/`update_row` and by filling fragments contain the same rows.
//!
//! Stream `c29` – request `c29 <field> <hasher> <desc> <n> <init> <overrides> <pert> <options>`
//! (same shape as `c01`; the Lean side answers the ideal verdict `ok`/`reject`):
//!   the real `GenAir<B>` (`Air::new`) and `GenTrace<B>` are built for the instance and the PUBLIC
//!   `Trace::validate(&air, aux)` is called inside `catch_unwind`: normal return = `ok`,
//!   panic = `reject main_trace(<col>,<step>)` / `reject transition <idx> <step>` (the site named
//!   by the panic message; the Lean model of `validate` must name the same FIRST failure).  Oracle = `genair::satisfies` (explicit loops over canonical integers).
//!   Every generated instance is validated honest, with a single-cell corruption in each of the
//!   four step classes (first / interior / last non-exempt / exempt) and with a perturbed claimed
//!   assertion value.  Instances WITH an auxiliary segment are included: the aux trace is built
//!   honestly (`GenProver::build_aux_trace`) from the possibly corrupted main trace with FIXED
//!   "random" elements, so the aux assertions/transitions hold and the verdict is decided by the
//!   main segment; corruptions of aux cells are NOT part of this stream (the Lean description
//!   semantics covers the main segment only).
//!
//! Stream `c29t` – request `c29t <field> <desc> <n> <init>` -> `equal <checksum>` | `DIFF ..`:
//!   the transition function of the description drives the real `TraceTable` API
//!   (`new`+`fill`, `init(columns)`, `with_meta`+`set`, `update_row`, and
//!   `fragments(len).for_each(|f| f.fill(..))` for EVERY power-of-two fragment length 2..n); all
//!   cells are read back with `get` and compared; the checksum
//!   Σ ((row·131 + col·7 + 1) mod p)·cell mod p is recomputed by the Lean model from `genRows`
//!   and, independently, by the oracle from `genair::build_trace`.
use std::marker::PhantomData;
use std::panic::{catch_unwind, AssertUnwindSafe};
use std::sync::Arc;

use winter_air::{Air, AuxRandElements};
use winter_crypto::hashers::Blake3_256;
use winter_math::fields::{f128, f62, f64};
use winter_prover::{AuxTraceWithMetadata, Prover, Trace, TraceTable};

use crate::c10::{addmod, mulmod, P128, P62, P64};
use crate::genair::{build_trace, eval, gen_instance, satisfies, AirDesc, GenAir, GenProver, GenTrace, Instance, PubIn, BF};
use crate::out::Out;
use crate::protocol::{gen_opts, install_panic_hook, modulus, pick_cfg, Opts, LAST_PANIC};
use crate::rng::Rng;

fn c64(v: u128) -> f64::BaseElement { f64::BaseElement::new((v % P64) as u64) }
fn c62(v: u128) -> f62::BaseElement { f62::BaseElement::new((v % P62) as u64) }
fn c128(v: u128) -> f128::BaseElement { f128::BaseElement::new(v % P128) }

/// the fixed "random" elements used to build auxiliary segments
const FIXED_RANDS: [u128; 4] = [3, 0x1234_5678_9abc_def1, 7_777_777, 2];

/// the real `Trace::validate` on the real `Air`: `ok` = returned, `reject` = panicked
fn validate_real<B: BF>(inst: &Instance, claimed: &[Vec<u128>], opts: &Opts, conv: fn(u128) -> B, p: u128) -> (String, String) {
    let desc = Arc::new(inst.desc.clone());
    let pub_in = PubIn { desc: desc.clone(), claimed: claimed.to_vec(), conv };
    let cols = build_trace(inst, p);
    let columns: Vec<Vec<B>> = cols.iter().map(|c| c.iter().map(|v| conv(*v)).collect()).collect();
    let trace = GenTrace::new(columns, desc.aux_width, desc.num_rands);
    let air = GenAir::<B>::new(trace.info().clone(), pub_in.clone(), opts.build());
    let aux: Option<AuxTraceWithMetadata<B>> = if desc.aux_width > 0 {
        let rands: Vec<B> = (0..desc.num_rands).map(|i| conv(FIXED_RANDS[i % 4])).collect();
        let aux_rand_elements = AuxRandElements::new(rands);
        let prover = GenProver::<B, Blake3_256<B>> { options: opts.build(), pub_in, aux_corruption: None, _h: PhantomData };
        let aux_trace = prover.build_aux_trace(&trace, &aux_rand_elements);
        Some(AuxTraceWithMetadata { aux_trace, aux_rand_elements })
    } else {
        None
    };
    match catch_unwind(AssertUnwindSafe(|| trace.validate::<GenAir<B>, B>(&air, aux.as_ref()))) {
        Ok(()) => ("ok".to_string(), String::new()),
        Err(_) => {
            let msg = LAST_PANIC.lock().map(|g| g.clone()).unwrap_or_default();
            // the site of the (first) failure, parsed from the panic message of `validate`
            let nums = |t: &str| -> Vec<String> { t.split(|c: char| !c.is_ascii_digit()).filter(|w| !w.is_empty()).map(|w| w.to_string()).collect() };
            if let Some(i) = msg.find("does not satisfy assertion main_trace(") {
                let v = nums(&msg[i + 37..]);
                return (format!("reject main_trace({},{})", v[0], v[1]), "main-assertion".to_string());
            }
            if let Some(i) = msg.find("main transition constraint ") {
                let v = nums(&msg[i + 26..]);
                return (format!("reject transition {} {}", v[0], v[1]), "main-transition".to_string());
            }
            let kind = if msg.contains("aux") { "aux" } else { "other" };
            (format!("reject {kind}"), kind.to_string())
        },
    }
}

fn validate_cfg(field: &str, inst: &Instance, claimed: &[Vec<u128>], opts: &Opts) -> (String, String) {
    match field {
        "f64" => validate_real::<f64::BaseElement>(inst, claimed, opts, c64, P64),
        "f62" => validate_real::<f62::BaseElement>(inst, claimed, opts, c62, P62),
        _ => validate_real::<f128::BaseElement>(inst, claimed, opts, c128, P128),
    }
}

fn req(field: &str, hasher: &str, inst: &Instance, pert: Option<(usize, usize, u128)>, opts: &Opts) -> String {
    let init = inst.init.iter().map(|v| v.to_string()).collect::<Vec<_>>().join("/");
    let ov = if inst.overrides.is_empty() { "-".to_string() } else { inst.overrides.iter().map(|(r, c, v)| format!("{r}:{c}:{v}")).collect::<Vec<_>>().join("/") };
    let cp = match pert { None => "-".to_string(), Some((a, i, v)) => format!("{a}:{i}:{v}") };
    format!("c29 {field} {hasher} {} {} {init} {ov} {cp} {}", inst.desc.text(), inst.n, opts.show())
}

pub fn run(rng: &mut Rng, out: &mut Out, n: usize) {
    install_panic_hook();
    for it in 0..n {
        let (field, hasher) = pick_cfg(rng);
        let p = modulus(field);
        let rich = it % 4 != 0;
        let ml = *rng.pick(&[3u64, 3, 4, 5, 6, 7, 8]);
        let base = gen_instance(rng, p, ml, rich);
        let opts = gen_opts(rng, &base, field, false);
        let w = base.desc.width;
        let nn = base.n;
        let e = base.desc.exemptions;
        let honest = build_trace(&base, p);
        out.count(&format!("field:{field}"));
        out.count(&format!("n:{nn}"));
        out.count(&format!("exempt:{e}"));
        if base.desc.aux_width > 0 { out.count("aux-segment(honest aux trace, fixed rands)"); }
        if !base.desc.periodic.is_empty() { out.count("periodic"); }
        for a in &base.desc.asserts { out.count(&format!("assert-kind:{}", a.kind)); }
        for variant in 0..6 {
            let mut inst = Instance { desc: base.desc.clone(), n: nn, init: base.init.clone(), overrides: base.overrides.clone() };
            let mut pert = None;
            let delta = 1 + if rng.chance(1, 2) { 0 } else { rng.next128() % (p - 1) };
            let class = match variant {
                0 => "honest",
                1 => { let c = rng.below(w as u64) as usize; inst.overrides.push((0, c, addmod(honest[c][0], delta, p))); "cell-first" },
                2 => { let r = rng.range(1, (nn - e - 1).max(1) as u64) as usize; let c = rng.below(w as u64) as usize; inst.overrides.push((r, c, addmod(honest[c][r], delta, p))); "cell-interior" },
                3 => { let r = nn - e; let c = rng.below(w as u64) as usize; inst.overrides.push((r, c, addmod(honest[c][r], delta, p))); "cell-last-nonexempt" },
                4 => { let r = if e > 1 { rng.range((nn - e + 1) as u64, (nn - 1) as u64) as usize } else { nn - 1 }; let c = rng.below(w as u64) as usize; inst.overrides.push((r, c, addmod(honest[c][r], delta, p))); "cell-exempt" },
                _ => {
                    let a = rng.below(inst.desc.asserts.len() as u64) as usize;
                    let i = rng.below(inst.desc.asserts[a].values.len() as u64) as usize;
                    pert = Some((a, i, addmod(inst.desc.asserts[a].values[i] % p, delta, p)));
                    "claimed-value"
                },
            };
            let mut claimed: Vec<Vec<u128>> = inst.desc.asserts.iter().map(|a| a.values.clone()).collect();
            if let Some((a, i, v)) = pert { claimed[a][i] = v; }
            let sat = satisfies(&inst, &build_trace(&inst, p), &claimed, p);
            out.count(&format!("{class}:{}", if sat { "satisfying" } else { "unsatisfying" }));
            let mut kind = String::new();
            out.case(&req(field, hasher, &inst, pert, &opts), if sat { "ok" } else { "~^reject (main_trace|transition)" }, || {
                let (v, k) = validate_cfg(field, &inst, &claimed, &opts);
                kind = k;
                v
            });
            if !kind.is_empty() { out.count(&format!("panic:{kind}")); }
        }
    }
}

// ---------------------------------------------------------------------------------------------
// trace tables
// ---------------------------------------------------------------------------------------------
fn canon<B: BF>(x: B) -> u128 { x.to_string().parse::<u128>().expect("canonical integer") }

fn checksum(cells: &dyn Fn(usize, usize) -> u128, n: usize, w: usize, p: u128) -> u128 {
    let mut s = 0u128;
    for r in 0..n {
        for c in 0..w {
            let wt = ((r * 131 + c * 7 + 1) as u128) % p;
            s = addmod(s, mulmod(wt, cells(r, c) % p, p), p);
        }
    }
    s
}

/// one application of the description's transition function, on real field elements
fn step_real<B: BF>(d: &AirDesc, step: usize, state: &mut [B], conv: fn(u128) -> B) {
    let k = |v: u128| conv(v);
    let per: Vec<B> = d.periodic.iter().map(|q| conv(q[step % q.len()])).collect();
    let cur: Vec<B> = state.to_vec();
    let mut nxt = vec![B::ZERO; d.width];
    for c in 0..d.width {
        nxt[c] = eval::<B, B>(&d.gen[c], &cur, &nxt, &per, &[], &[], &[], &k);
    }
    state.copy_from_slice(&nxt);
}

fn tables_real<B: BF>(inst: &Instance, conv: fn(u128) -> B, p: u128) -> String {
    let d = &inst.desc;
    let (n, w) = (inst.n, d.width);
    let init: Vec<B> = inst.init.iter().map(|v| conv(*v)).collect();
    // (a) new + fill
    let mut a = TraceTable::<B>::new(w, n);
    a.fill(|s| s.copy_from_slice(&init), |i, s| step_real(d, i, s, conv));
    if a.width() != w || a.length() != n { return format!("DIFF shape {}x{}", a.width(), a.length()); }
    // (b) init from columns computed independently (canonical-integer arithmetic of genair)
    let b = TraceTable::<B>::init(build_trace(inst, p).iter().map(|c| c.iter().map(|v| conv(*v)).collect()).collect());
    for c in 0..w { if b.get_column(c) != a.get_column(c) { return format!("DIFF init column {c}"); } }
    // (c) with_meta + set cell by cell, rows recomputed one by one
    let mut cset = TraceTable::<B>::with_meta(w, n, vec![1, 2, 3]);
    let mut s = init.clone();
    for r in 0..n {
        for c in 0..w { cset.set(c, r, s[c]); }
        if r + 1 < n { step_real(d, r, &mut s, conv); }
    }
    // (d) update_row, rows in DEcreasing order (rows are independent)
    let mut rows: Vec<Vec<B>> = vec![init.clone()];
    for r in 0..n - 1 { let mut s = rows[r].clone(); step_real(d, r, &mut s, conv); rows.push(s); }
    let mut du = TraceTable::<B>::new(w, n);
    for r in (0..n).rev() { du.update_row(r, &rows[r]); }
    let same = |t: &TraceTable<B>, name: &str| -> Option<String> {
        for r in 0..n { for c in 0..w { if t.get(c, r) != a.get(c, r) { return Some(format!("DIFF {name} row {r} col {c}")); } } }
        let mut buf = vec![B::ZERO; w];
        for r in 0..n { t.read_row_into(r, &mut buf); if buf != rows[r] { return Some(format!("DIFF {name} read_row_into {r}")); } }
        None
    };
    for (t, name) in [(&a, "fill"), (&b, "init"), (&cset, "set"), (&du, "update_row")] {
        if let Some(m) = same(t, name) { return m; }
    }
    // (e) fragments of every power-of-two length; each fragment restarts from the boundary row
    let mut len = 2;
    while len <= n {
        let mut f = TraceTable::<B>::new(w, n);
        let mut seen = 0usize;
        // with the `concurrent` feature `fragments` returns a rayon parallel iterator
        #[cfg(feature = "concurrent")]
        let frags: Vec<winter_prover::TraceTableFragment<B>> = { use winter_utils::rayon::prelude::*; f.fragments(len).collect() };
        #[cfg(not(feature = "concurrent"))]
        let frags: Vec<winter_prover::TraceTableFragment<B>> = f.fragments(len).collect();
        for mut fr in frags {
            let off = fr.offset();
            if off != fr.index() * len || fr.length() != len || fr.width() != w { return format!("DIFF fragment geometry len {len} index {}", fr.index()); }
            seen += 1;
            fr.fill(|s| s.copy_from_slice(&rows[off]), |i, s| step_real(d, off + i, s, conv));
        }
        if seen != n / len { return format!("DIFF fragment count {seen} for len {len}"); }
        if let Some(m) = same(&f, &format!("fragments({len})")) { return m; }
        len *= 2;
    }
    format!("equal {}", checksum(&|r, c| canon(a.get(c, r)), n, w, p))
}

pub fn run_table(rng: &mut Rng, out: &mut Out, n: usize) {
    install_panic_hook();
    for it in 0..n {
        let (field, _) = pick_cfg(rng);
        let p = modulus(field);
        let rich = it % 3 != 0;
        let ml = *rng.pick(&[3u64, 3, 4, 5, 6, 7, 8, 9]);
        let mut inst = gen_instance(rng, p, ml, rich);
        inst.overrides.clear();
        out.count(&format!("field:{field}"));
        out.count(&format!("n:{}", inst.n));
        out.count(&format!("width:{}", inst.desc.width));
        if !inst.desc.periodic.is_empty() { out.count("periodic"); }
        let tr = build_trace(&inst, p);
        let oracle = format!("equal {}", checksum(&|r, c| tr[c][r], inst.n, inst.desc.width, p));
        // only the transition function matters here: drop assertions / aux parts from the request
        let d = AirDesc { width: inst.desc.width, exemptions: inst.desc.exemptions, periodic: inst.desc.periodic.clone(), trans: inst.desc.trans.clone(), gen: inst.desc.gen.clone(), ..Default::default() };
        let init = inst.init.iter().map(|v| v.to_string()).collect::<Vec<_>>().join("/");
        let line = format!("c29t {field} {} {} {init}", d.text(), inst.n);
        out.case(&line, &oracle, || match field {
            "f64" => tables_real::<f64::BaseElement>(&inst, c64, P64),
            "f62" => tables_real::<f62::BaseElement>(&inst, c62, P62),
            _ => tables_real::<f128::BaseElement>(&inst, c128, P128),
        });
    }
}
